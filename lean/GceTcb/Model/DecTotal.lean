import GceTcb.Base.Line
import GceTcb.Base.Outcome
/-
C07, verifier-glue half: totality of everything a relying party applies to bytes of an untrusted peer,
other than the event-log decoders (those are Model/EventLog*.lean, stream c07evl).

  verify/verify.go                      EndorsementProto, Endorsement, SNP, CheckCertificate,
                                        the closure of SNPFamilyValidateFunc
  timeproto/timeproto.go                From                      (with the fix: nil-safe getters)
  extract/extract.go                    Attestation, fromSevSnpAttestationProto, fromTdxAttestationProto,
                                        fromQuote, Endorsement (quote / provider / getter part)
  extract/extractsev/extractsev.go      CheckCertTable (the fix), FromAttestation, FromCertTable
  gcetcbendorsement/sevpolicy.go        allowBytes, policyModificationAllowed, modifyPolicy, SevPolicy
  gcetcbendorsement/tdxpolicy.go        modifyTdxPolicy, TdxPolicy
  gcetcbendorsement/sevvalidate.go      extractSevFromAttestation, extractEndorsement, SevValidate
  gcetcbendorsement/tdxvalidate.go      TdxValidate
  gcetcbendorsement/inspect.go          inspectFrom, InspectSignature, InspectPayload, InspectMask
  gcetcbendorsement/presentation.go     WriteBytesForm, RenderTimestamp, MaskOptions.marshal, MaskOptions.Mask

Third-party decoding is a PARAMETER (`Parsers`): protobuf, go-sev-guest abi (report, certificate-table
header and table), go-tdx-guest abi, encoding/pem, crypto/x509, hex/base64, the report / quote
validators, parsepath (C19).  A parser yields a value of a structure in which every nil-able thing is
an `Option`; the model is the glue between such values.  Every Go expression of the glue that can panic
(field selection through a possibly-nil pointer that is not a generated getter, `*p`, `x[i]`, `x[a:b]`,
type assertion without `, ok`, call through a possibly-nil interface) is an explicit checked operation
(`deref`, `iface`, `sliceFrom`, …) that yields `Outcome.panic site` exactly when Go would; the sites
are listed in `modelledSites`, which `C07_dec_sites` ties to the inventory regenerated from the source.
Generated getters (`GetX()`) are nil-safe and are modelled as total functions on `Option`.

Results carry a trace (`M`): loop iterations (`ticks`), bytes the glue itself allocates or copies
(`alloc`), and the URLs handed to the HTTPS getter.  Core-only.
-/
namespace GceTcb.DecTotal
open GceTcb

/-! ## result-with-trace monad -/

/-- an URL the glue builds: technology ("sev" / "tdx") and the measurement it is derived from -/
structure Url where
  tech : String
  meas : Bytes
deriving Repr, DecidableEq

structure Trace where
  ticks : Nat := 0
  alloc : Nat := 0
  gets : List Url := []
deriving Repr, DecidableEq

def Trace.add (a b : Trace) : Trace := ⟨a.ticks + b.ticks, a.alloc + b.alloc, a.gets ++ b.gets⟩
def Trace.cost (t : Trace) : Nat := t.ticks + t.alloc

structure M (α : Type) where
  out : Outcome α
  tr : Trace := {}

namespace M
def pure {α : Type} (a : α) : M α := ⟨.ok a, {}⟩
def bind {α β : Type} (x : M α) (f : α → M β) : M β :=
  match x.out with
  | .ok a => ⟨(f a).out, x.tr.add (f a).tr⟩
  | .err c => ⟨.err c, x.tr⟩
  | .panic s => ⟨.panic s, x.tr⟩
instance : Monad M where
  pure := M.pure
  bind := M.bind
end M

def fail {α : Type} (cls : String) : M α := ⟨.err cls, {}⟩
def crash {α : Type} (site : String) : M α := ⟨.panic site, {}⟩
def tick (n : Nat := 1) : M Unit := ⟨.ok (), ⟨n, 0, []⟩⟩
def allocate (n : Nat) : M Unit := ⟨.ok (), ⟨0, n, []⟩⟩

/-! ## checked operations: the Go expressions that can panic -/

/-- field selection / method call with value receiver / `*p` through a possibly-nil pointer -/
def deref {α : Type} (site : String) : Option α → M α
  | some a => M.pure a
  | none => crash site

/-- method call through a possibly-nil interface value -/
def iface {α : Type} (site : String) : Option α → M α
  | some a => M.pure a
  | none => crash site

/-- `s[from:]` on a slice of length `len` (capacity ≥ length; the glue never re-slices beyond the length) -/
def sliceFrom (site : String) (s : Bytes) (frm : Nat) : M Bytes :=
  if frm ≤ s.length then M.pure (s.drop frm) else crash site

/-- `x.(T)` without `, ok` -/
def assertType {α : Type} (site : String) : Option α → M α
  | some a => M.pure a
  | none => crash site

/-! ## parse shapes -/

/-- google.protobuf.Timestamp -/
structure Ts where
  secs : Int
  nanos : Int
deriving Repr, DecidableEq

/-- endorsement.VMSevSnp.  `measurements = none` is Go's nil map. -/
structure PSevSnp where
  policy : Nat
  svn : Nat
  measurements : Option (List (Nat × Bytes))
  svsm : Bytes
  caBundle : Bytes
deriving Repr, DecidableEq

structure PTdxRow where
  ramGib : Nat
  mrtd : Bytes
deriving Repr, DecidableEq

/-- endorsement.VMTdx: the repeated field holds pointers (`none` = a nil element; read through getters only) -/
structure PTdx where
  rows : List (Option PTdxRow)
deriving Repr, DecidableEq

/-- endorsement.VMGoldenMeasurement -/
structure PGolden where
  timestamp : Option Ts
  clSpec : Nat
  commit : Bytes
  cert : Bytes
  digest : Bytes
  sevSnp : Option PSevSnp
  tdx : Option PTdx
deriving Repr, DecidableEq

def PGolden.empty : PGolden := ⟨none, 0, [], [], [], none, none⟩

/-- endorsement.VMLaunchEndorsement -/
structure PEndorsement where
  payload : Bytes
  signature : Bytes
deriving Repr, DecidableEq

/-- *pem.Block: `Type == "CERTIFICATE"` and the decoded bytes -/
structure PemBlock where
  isCert : Bool
  bytes : Bytes
deriving Repr, DecidableEq

/-- sevsnp.Report (only the measurement is read by the glue) -/
structure PReport where
  measurement : Bytes
deriving Repr, DecidableEq

/-- sevsnp.CertificateChain: `extras = none` is the nil map -/
structure PChain where
  extras : Option (List (String × Bytes))
deriving Repr, DecidableEq

/-- sevsnp.Attestation -/
structure PAtt where
  report : Option PReport
  chain : Option PChain
deriving Repr, DecidableEq

/-- tdx.QuoteV4: `body = none` is a nil TdQuoteBody; else its MrTd -/
structure PQuote where
  body : Option Bytes
deriving Repr, DecidableEq

/-- attest.Attestation.TeeAttestation (a oneof: the wrapper may hold a nil message) -/
inductive Tee
  | none
  | sev (a : Option PAtt)
  | tdx (q : Option PQuote)
deriving Repr, DecidableEq

/-- go-sev-guest check.Policy: the fields the glue reads or writes -/
structure SevPol where
  policy : Nat
  minimumGuestSvn : Nat
  measurement : Option Bytes
  trustedIdKeys : List Bytes
  trustedAuthorKeys : List Bytes
deriving Repr, DecidableEq

/-- go-tdx-guest checkconfig.Policy: `body = none` is a nil TdQuoteBodyPolicy; `anyMrTd = none` a nil slice -/
structure TdxPol where
  body : Option (Option (List Bytes))
deriving Repr, DecidableEq

/-- last value of a parsepath walk, as MaskOptions.marshal / RenderTimestamp distinguish them -/
inductive PathVal
  | bytes (n : Nat)                     -- []uint8 of length n
  | msg                                 -- protoreflect.Message (rendered by prototext: length unstable)
  | map (entries : Nat) (rendered : Nat) -- map field: number of entries, total length of the rendered entries
  | scalar (n : Nat)                    -- anything else: length of fmt.Sprintf("%v")
  | ts (n : Nat)                        -- a *timestamppb.Timestamp (possibly typed nil): length of its RFC3339 rendering
  | tsBad                               -- the timestamp renderer's assertions fail
deriving Repr, DecidableEq

/-! ## third-party decoding and validation: the parameters -/

structure Parsers (Cert Roots Time : Type) where
  /-- proto.Unmarshal into VMLaunchEndorsement / VMGoldenMeasurement -/
  unmarshalEndorsement : Bytes → Option PEndorsement
  unmarshalGolden : Bytes → Option PGolden
  /-- x509.ParseCertificate, Certificate.Verify, Certificate.CheckSignature(SHA256WithRSAPSS) -/
  parseCert : Bytes → Option Cert
  verifyChain : Cert → Roots → Time → Bool
  checkSig : Cert → Bytes → Bytes → Bool
  /-- pem.Decode: the block (nil when none is found) and the rest -/
  pemDecode : Bytes → Option PemBlock × Bytes
  /-- proto.Unmarshal into attest.Attestation, sevsnp.Attestation, sevsnp.Report, tdx.QuoteV4 -/
  unmarshalTpm : Bytes → Option Tee
  unmarshalSevAtt : Bytes → Option PAtt
  unmarshalReport : Bytes → Option PReport
  unmarshalQuoteV4 : Bytes → Option PQuote
  hexDecode : Bytes → Option Bytes
  base64Decode : Bytes → Option Bytes
  /-- abi.ParseSnpCertTableHeader: (offset, length) of every entry, both uint32 -/
  certTableHeader : Bytes → Option (List (Nat × Nat))
  /-- abi.ReportCertsToProto; abi.CertTable.Unmarshal followed by Proto() -/
  reportCertsToProto : Bytes → Option PAtt
  certTableProto : Bytes → Option PChain
  /-- abi.CertTable.Unmarshal followed by GetByGUIDString(GCEFwCertGUID): `some none` = no such entry -/
  certTableGet : Bytes → Option (Option Bytes)
  /-- tabi.QuoteToProto: `ok none` = a quote that is not a QuoteV4, `err` = it returned an error,
      `panic` = it panicked (go-tdx-guest v0.3.2 does, on quotes that declare sizes they do not have) -/
  quoteToProto : Bytes → Outcome (Option PQuote)
  /-- abi.SnpPolicyToBytes(abi.SnpPolicy{SMT: true, MigrateMA: true}) -/
  defaultPolicyBits : Nat
  /-- go-sev-guest validate.PolicyToOptions / validate.SnpAttestation without certificate-table validators -/
  sevPolicyToOptions : SevPol → Bool
  snpBaseChecks : Option PAtt → SevPol → Bool
  /-- go-tdx-guest validate.PolicyToOptions / validate.TdxQuote -/
  tdxPolicyToOptions : TdxPol → Bool
  tdxQuoteChecks : Option PQuote → TdxPol → Bool
  /-- parsepath.ParsePath + parsepath.PathValues on the golden measurement: last value, `none` = error -/
  pathValue : PGolden → String → Bool → Option PathVal

section
variable {Cert Roots Time : Type}

/-! ## timeproto, verify -/

def wrap64 (x : Int) : Int := (x + 9223372036854775808) % 18446744073709551616 - 9223372036854775808

/-- go: time.Unix(sec, nsec): (internal seconds, nanoseconds); int64 arithmetic wraps. -/
def timeUnix (sec nsec : Int) : Int × Int :=
  let n := Int.tdiv nsec 1000000000
  let sec1 := wrap64 (sec + n)
  let nsec1 := nsec - n * 1000000000
  let (sec2, nsec2) := if nsec1 < 0 then (wrap64 (sec1 - 1), nsec1 + 1000000000) else (sec1, nsec1)
  (wrap64 (sec2 + 62135596800), nsec2)

/-- go: timeproto.From (repaired): `time.Unix(t.GetSeconds(), int64(t.GetNanos()))`; a nil timestamp
    reads as (0, 0) through the nil-safe getters. -/
def timeFrom (t : Option Ts) : Int × Int :=
  match t with
  | some t => timeUnix t.secs t.nanos
  | none => timeUnix 0 0

/-- go: timeproto.From as it was: `time.Unix(t.Seconds, int64(t.Nanos))` — a field selection through
    the possibly-nil pointer. -/
def timeFromOld (t : Option Ts) : M (Int × Int) := do
  let t ← deref "timeproto.From#1:deref" t
  M.pure (timeUnix t.secs t.nanos)

/-- go: Time.After(verify.uefiReleaseChangeDate) (2024-08-02T00:00:00Z) -/
def afterChangeDate (t : Int × Int) : Bool :=
  decide (t.1 > 1722556800 + 62135596800) || (t.1 == 1722556800 + 62135596800 && decide (t.2 > 0))

/-- verify.SNPOptions; `measurement = none` is the nil slice -/
structure SNPOptions where
  measurement : Option Bytes
  expectedLaunchVMSAs : Nat
deriving Repr, DecidableEq

/-- verify.Options.  Getter: `none` = nil interface; the function answers the GET. -/
structure Options (Roots Time : Type) where
  snp : Option SNPOptions
  roots : Option Roots
  expectedUefiSha384 : Bytes
  now : Time
  endorsement : Option PEndorsement
  getter : Option (Url → Option Bytes)

/-- go map lookup -/
def mlookup (m : List (Nat × Bytes)) (k : Nat) : Option Bytes :=
  (m.find? (fun p => p.1 == k)).map (·.2)

def slookup (m : List (String × Bytes)) (k : String) : Option Bytes :=
  (m.find? (fun p => p.1 == k)).map (·.2)

/-- the `for _, measure := range snp.Measurements` loop of verify.SNP: one tick per entry visited -/
def anyMeasurement (given : Bytes) : List (Nat × Bytes) → M Bool
  | [] => M.pure false
  | p :: rest => do
    tick
    if p.2 == given then M.pure true else anyMeasurement given rest

/-- go: verify.SNP.  `bytes.Equal` does not distinguish nil from empty. -/
def snp (golden : Option PGolden) (opts : Option SNPOptions) : M Unit := do
  let g ← deref "verify.SNP#1:deref" golden            -- golden.SevSnp
  match g.sevSnp with
  | none => fail "no-sevsnp"
  | some s =>
    let o ← deref "verify.SNP#3:deref" opts             -- opts.ExpectedLaunchVMSAs
    if o.expectedLaunchVMSAs != 0 then
      match s.measurements with
      | none => fail "no-measurements"
      | some m =>
        let given := o.measurement.getD []
        if o.expectedLaunchVMSAs == 1 && !s.svsm.isEmpty && s.svsm == given then M.pure ()
        else
          match mlookup m o.expectedLaunchVMSAs with
          | none => fail "no-vmsa-measurement"
          | some x => if x == given then M.pure () else fail "measurement-mismatch"
    else
      match o.measurement with
      | none => M.pure ()
      | some given =>
        if given == s.svsm then M.pure ()
        else do
          let found ← anyMeasurement given (s.measurements.getD [])
          if found then M.pure () else fail "measurement-not-listed"

/-- go: verify.CheckCertificate -/
def checkCertificate (P : Parsers Cert Roots Time) (certder : Bytes) (roots : Option Roots) (now : Time) :
    M Cert :=
  if certder.length == 0 then fail "no-cert"
  else
    match roots with
    | none => fail "no-roots"
    | some r =>
      match P.parseCert certder with
      | none => fail "cert-parse"
      | some c => if P.verifyChain c r now then M.pure c else fail "chain"

/-- go: verify.EndorsementProto.  `old = true` models timeproto.From before the repair. -/
def endorsementProtoWith (old : Bool) (P : Parsers Cert Roots Time) (endorsement : Option PEndorsement)
    (opts : Option (Options Roots Time)) : M Unit := do
  let e ← deref "verify.EndorsementProto#1:deref" endorsement      -- endorsement.SerializedUefiGolden
  match P.unmarshalGolden e.payload with
  | none => fail "golden-unmarshal"
  | some g =>
    let t ← if old then timeFromOld g.timestamp else M.pure (timeFrom g.timestamp)
    if afterChangeDate t && g.clSpec == 0 && g.commit.length == 0 then fail "provenance"
    else do
      let o ← deref "verify.EndorsementProto#2:deref" opts          -- opts.RootsOfTrust
      let cert ← checkCertificate P g.cert o.roots o.now
      if !P.checkSig cert e.payload e.signature then fail "signature"
      else if o.expectedUefiSha384.length != 0 && o.expectedUefiSha384 != g.digest then fail "digest"
      else
        match o.snp with
        | none => M.pure ()
        | some so => snp (some g) (some so)

def endorsementProto (P : Parsers Cert Roots Time) := endorsementProtoWith false P

/-- go: verify.Endorsement -/
def endorsementWith (old : Bool) (P : Parsers Cert Roots Time) (serialized : Bytes)
    (opts : Option (Options Roots Time)) : M Unit :=
  match P.unmarshalEndorsement serialized with
  | none => fail "endorsement-unmarshal"
  | some e => endorsementProtoWith old P (some e) opts

def endorsement (P : Parsers Cert Roots Time) := endorsementWith false P

/-- go: abi.MeasurementSize, tabi.MrTdSize, abi.ReportSize -/
def measurementSize : Nat := 48
def mrTdSize : Nat := 48
def reportSize : Nat := 1184

def PAtt.measurement (a : Option PAtt) : Bytes := ((a.bind (·.report)).map (·.measurement)).getD []
def PAtt.extras (a : Option PAtt) : List (String × Bytes) := ((a.bind (·.chain)).bind (·.extras)).getD []
def PQuote.mrtd (q : Option PQuote) : Bytes := (q.bind (·.body)).getD []

def gceFwCertGUID : String := "9f4116cd-c503-4f5a-8f6f-fb68882f4ce2"
def testonlyForceGCSGUID : String := "cd76f232-42fc-4140-87c2-fb5353a2bb32"

/-- `opts.Getter.Get(url)`: recorded in the trace -/
def httpGet (get : Url → Option Bytes) (u : Url) : M (Option Bytes) := ⟨.ok (get u), ⟨0, 0, [u]⟩⟩

/-- go: the function returned by verify.SNPFamilyValidateFunc(familyID, opts).  `serialized = none` is the
    nil slice.  (familyID only selects the object prefix; the harness uses the GCE family.) -/
def snpClosureWith (old : Bool) (P : Parsers Cert Roots Time) (opts : Option (Options Roots Time))
    (attestation : Option PAtt) (serialized : Option Bytes) : M Unit :=
  match attestation with
  | none => fail "nil-attestation"
  | some _ =>
    let measurement := PAtt.measurement attestation
    if measurement.length != measurementSize then fail "measurement-size"
    else do
      let o ← deref "verify.SNPFamilyValidateFunc$1#1:deref" opts       -- opts.Endorsement
      let ser ←
        if serialized.isNone && o.endorsement.isNone then
          match o.getter with
          | none => fail "no-getter"
          | some get => do
            match ← httpGet get ⟨"sev", measurement⟩ with
            | none => fail "fetch"
            | some blob => M.pure (some blob)
        else M.pure serialized
      -- callOpts := *opts (same pointer, already dereferenced); snpOpts = *opts.SNP when non-nil
      let so : SNPOptions := { (o.snp.getD ⟨none, 0⟩) with measurement := some measurement }
      let co : Options Roots Time := { o with snp := some so }
      match co.endorsement with
      | some e => endorsementProtoWith old P (some e) (some co)
      | none => endorsementWith old P (ser.getD []) (some co)

def snpClosure (P : Parsers Cert Roots Time) := snpClosureWith false P

/-! ## extractsev, extract -/

/-- the loop of extractsev.CheckCertTable: ranges in 64 bits (no wrap), running total of the lengths; a range
    must also end below 2^32 (abi.CertTable.Unmarshal computes the end in 32 bits) -/
def checkRanges (tableLen : Nat) : Nat → List (Nat × Nat) → M Unit
  | _, [] => M.pure ()
  | total, (off, len) :: rest => do
    tick
    if off + len > tableLen then fail "range"
    else if off + len > 4294967295 then fail "range"
    else if total + len > tableLen then fail "overlap"
    else checkRanges tableLen (total + len) rest

/-- go: extractsev.CheckCertTable -/
def checkCertTable (P : Parsers Cert Roots Time) (table : Bytes) : M Unit :=
  match P.certTableHeader table with
  | none => fail "header"
  | some entries => checkRanges table.length 0 entries

/-- go: extractsev.FromAttestation -/
def fromAttestation (at_ : Option PAtt) : M Bytes :=
  match slookup (PAtt.extras at_) gceFwCertGUID with
  | some blob => M.pure blob
  | none => fail "not-in-extras"

/-- go: extractsev.FromCertTable -/
def fromCertTable (P : Parsers Cert Roots Time) (table : Bytes) : M Bytes := do
  checkCertTable P table
  match P.certTableGet table with
  | none => fail "table-unmarshal"
  | some none => fail "guid-not-found"
  | some (some blob) => M.pure blob

/-- `if checkCertTable(x) == nil { … }`: the check's own outcome decides a branch; a panic inside it would
    still be a panic of the caller. -/
def passes (x : M Unit) : M Bool :=
  match x.out with
  | .ok _ => ⟨.ok true, x.tr⟩
  | .err _ => ⟨.ok false, x.tr⟩
  | .panic s => ⟨.panic s, x.tr⟩

/-- go: extract.quoteToProto (the fix): a panic of the third-party parser is recovered into an error. -/
def quoteToProto (P : Parsers Cert Roots Time) (quote : Bytes) : Option (Option PQuote) :=
  match P.quoteToProto quote with
  | .ok r => some r
  | .err _ => none
  | .panic _ => none

/-- the hex / base64 attempt of go: extract.Attestation: the bytes handed to the raw-format parsers.
    Allocation of the glue itself: `string(quote)` for the hex attempt, the decoded copy. -/
def decodeQuote (P : Parsers Cert Roots Time) (quote : Bytes) : M Bytes := do
  allocate quote.length                               -- string(quote)
  match P.hexDecode quote with
  | some d => do allocate d.length; M.pure d
  | none =>
    match P.base64Decode quote with
    | some d => do allocate d.length; M.pure d
    | none => M.pure quote

/-- `var reportCerts []byte; if len(quote) >= abi.ReportSize { reportCerts = quote[abi.ReportSize:] }` -/
def reportCertsOf (quote2 : Bytes) : M Bytes :=
  if reportSize ≤ quote2.length then sliceFrom "extract.Attestation#1:slice" quote2 reportSize
  else M.pure []

/-- the raw formats of go: extract.Attestation: report + certificate table, bare certificate table, TDX quote -/
def rawFormats (P : Parsers Cert Roots Time) (quote2 : Bytes) : M Tee := do
  let reportCerts ← reportCertsOf quote2
  let ok1 ← passes (checkCertTable P reportCerts)
  match (if ok1 then P.reportCertsToProto quote2 else none) with
  | some a => M.pure (.sev (some a))
  | none => do
    let ok2 ← passes (checkCertTable P quote2)
    match (if ok2 then P.certTableProto quote2 else none) with
    | some chain => M.pure (.sev (some ⟨some ⟨[0]⟩, some chain⟩))
    | none =>
      match quoteToProto P quote2 with
      | some (some q) => M.pure (.tdx (some q))
      | some none => fail "unknown-tdx-format"
      | none => fail "unknown-format"

/-- go: extract.Attestation -/
def attestation (P : Parsers Cert Roots Time) (quote : Bytes) : M Tee :=
  if quote.length == 0 then fail "quote-nil"
  else
    match P.unmarshalTpm quote with
    | some tee => M.pure tee
    | none =>
      match P.unmarshalSevAtt quote with
      | some sa =>
        if (PAtt.measurement (some sa)).length == measurementSize then M.pure (.sev (some sa))
        else attestationRest (some sa)
      | none => attestationRest none
where
  attestationRest (_partial : Option PAtt) : M Tee :=
    match P.unmarshalReport quote with
    | some r => M.pure (.sev (some ⟨some r, none⟩))      -- sev.CertificateChain = nil
    | none =>
      match P.unmarshalQuoteV4 quote with
      | some q => M.pure (.tdx (some q))
      | none => do
        let quote2 ← decodeQuote P quote
        rawFormats P quote2

/-- go: extract.fromSevSnpAttestationProto: (certificate-table entry, measurement the object name is derived from) -/
def fromSevSnpAttestationProto (at_ : Option PAtt) : Option Bytes × Option Bytes :=
  let meas := PAtt.measurement at_
  let name := if meas.length == measurementSize then some meas else none
  (slookup (PAtt.extras at_) gceFwCertGUID, name)

/-- go: extract.fromTdxAttestationProto -/
def fromTdxAttestationProto (q : Option PQuote) : Option Bytes :=
  let mrtd := PQuote.mrtd q
  if mrtd.length != mrTdSize then none else some mrtd

/-- go: (*Options).fromQuote: (endorsement, object name as a derived URL) -/
def fromQuote (P : Parsers Cert Roots Time) (quote : Bytes) : M (Option Bytes × Option Url) := do
  let tee ← attestation P quote
  match tee with
  | .sev a =>
    -- at.SevSnpAttestation: field of the non-nil oneof wrapper the type switch matched
    let r := fromSevSnpAttestationProto a
    M.pure (r.1, r.2.map (fun m => ⟨"sev", m⟩))
  | .tdx q => M.pure (none, (fromTdxAttestationProto q).map (fun m => ⟨"tdx", m⟩))
  | .none => fail "unknown-format"

/-- extract.Options without the event-log half (EventLogLocation = ""; that half is stream c07evl) -/
structure ExtractOptions where
  provider : Option (Option Bytes)          -- nil interface / GetRawQuote result (none = error)
  getter : Option (Url → Option Bytes)
  quote : Bytes
  forceFetch : Bool

/-- `x, err := f(); if err == nil { … }` where the error is remembered but not returned: an error becomes
    `none`; a panic stays a panic. -/
def catchErr {α : Type} (x : M α) : M (Option α) :=
  match x.out with
  | .ok a => ⟨.ok (some a), x.tr⟩
  | .err _ => ⟨.ok none, x.tr⟩
  | .panic s => ⟨.panic s, x.tr⟩

/-- the last step of extract.Endorsement: the internet -/
def fetchEndorsement (getter : Option (Url → Option Bytes)) (name : Option Url) : M Bytes :=
  match getter with
  | none => fail "getter-nil"
  | some get =>
    match name with
    | none => fail "no-measurement"
    | some u => do
      match ← httpGet get u with
      | some e => M.pure e
      | none => fail "fetch"

/-- the provider step of extract.Endorsement: `inl` = an endorsement to return, `inr` = the object name -/
def providerStep (P : Parsers Cert Roots Time) (o : ExtractOptions) (name1 : Option Url) :
    M (Sum Bytes (Option Url)) :=
  match o.provider, name1 with
  | some prov, none =>
    match prov with
    | none => fail "provider"
    | some q => do
      let r ← fromQuote P q
      let e := r.1.getD []
      if e.length > 0 && !o.forceFetch then M.pure (.inl e) else M.pure (.inr r.2)
  | _, _ => M.pure (.inr name1)

/-- go: extract.Endorsement with an empty EventLogLocation -/
def extractEndorsement (P : Parsers Cert Roots Time) (opts : Option ExtractOptions) : M Bytes :=
  match opts with
  | none => fail "options-nil"
  | some o => do
    let first ← catchErr (fromQuote P o.quote)
    let e1 := ((first.map (·.1)).getD none).getD []
    let name1 := (first.map (·.2)).getD none
    if first.isSome && e1.length > 0 && !o.forceFetch then M.pure e1
    else do
      match ← providerStep P o name1 with
      | .inl e => M.pure e
      | .inr name => fetchEndorsement o.getter name

/-! ## gcetcbendorsement: policy derivation -/

/-- gcetcbendorsement.SevPolicyOptions -/
structure SevPolicyOptions where
  base : Option SevPol
  launchVmsas : Nat
  overwrite : Bool
  allowUnspecifiedVmsas : Bool
deriving Repr, DecidableEq

/-- go: allowBytes -/
def allowBytes (sbytes pbytes : Bytes) : Bool :=
  if pbytes.length != 0 then sbytes == pbytes else true

/-- `policy.GetPolicy()` etc.: nil-safe getters on *check.Policy -/
def SevPol.getPolicy (p : Option SevPol) : Nat := (p.map (·.policy)).getD 0
def SevPol.getMeasurement (p : Option SevPol) : Bytes := ((p.bind (·.measurement))).getD []
def SevPol.getMinimumGuestSvn (p : Option SevPol) : Nat := (p.map (·.minimumGuestSvn)).getD 0
def PSevSnp.getPolicy (s : Option PSevSnp) : Nat := (s.map (·.policy)).getD 0
def PSevSnp.getCaBundle (s : Option PSevSnp) : Bytes := (s.map (·.caBundle)).getD []

/-- go: policyModificationAllowed; `true` = nil error -/
def policyModificationAllowed (sev : Option PSevSnp) (policy : Option SevPol) (opts : Option SevPolicyOptions) :
    M Bool :=
  if SevPol.getPolicy policy != 0 && SevPol.getPolicy policy != PSevSnp.getPolicy sev then M.pure false
  else do
    let o ← deref "gcetcbendorsement.policyModificationAllowed#1:deref" opts     -- opts.LaunchVmsas
    if o.launchVmsas != 0 then do
      let s ← deref "gcetcbendorsement.policyModificationAllowed#2:deref" sev    -- sev.Measurements
      let meas := (mlookup (s.measurements.getD []) o.launchVmsas).getD []
      M.pure (allowBytes meas (SevPol.getMeasurement policy))
    else M.pure true

/-- the CA-bundle part of go: modifyPolicy -/
def addBundle (P : Parsers Cert Roots Time) (sev : Option PSevSnp) (p : SevPol) : M SevPol :=
  let bundle := PSevSnp.getCaBundle sev
  if bundle.length == 0 then M.pure p
  else
    let (id, idrest) := P.pemDecode bundle
    match id with
    | none => fail "pem-id"
    | some _ => do
      let idb ← deref "gcetcbendorsement.modifyPolicy#14:deref" id              -- id.Type
      if !idb.isCert then fail "pem-id-type"
      else do
        let idb2 ← deref "gcetcbendorsement.modifyPolicy#18:deref" id           -- id.Bytes
        let p1 := { p with trustedIdKeys := p.trustedIdKeys ++ [idb2.bytes] }
        if idrest.length == 0 then M.pure p1
        else
          let (auth, authrest) := P.pemDecode idrest
          match auth with
          | none => fail "pem-author"
          | some _ => do
            let ab ← deref "gcetcbendorsement.modifyPolicy#19:deref" auth        -- auth.Type
            if !ab.isCert then fail "pem-author-type"
            else do
              let ab2 ← deref "gcetcbendorsement.modifyPolicy#23:deref" auth    -- auth.Bytes
              let p2 := { p1 with trustedAuthorKeys := p1.trustedAuthorKeys ++ [ab2.bytes] }
              if authrest.length != 0 then fail "pem-trailing" else M.pure p2

/-- go: modifyPolicy.  `policy` is the pointer the caller passes (never nil in SevPolicy). -/
def modifyPolicy (P : Parsers Cert Roots Time) (sev : Option PSevSnp) (policy : Option SevPol)
    (opts : Option SevPolicyOptions) : M SevPol := do
  let o ← deref "gcetcbendorsement.modifyPolicy#1:deref" opts                    -- opts.Overwrite
  if !o.overwrite then do
    let allowed ← policyModificationAllowed sev policy opts
    if !allowed then fail "overwrite"
    else do
      let s ← deref "gcetcbendorsement.modifyPolicy#2:deref" sev                 -- sev.Svn
      if SevPol.getMinimumGuestSvn policy != 0 && s.svn < SevPol.getMinimumGuestSvn policy then fail "svn"
      else modifyPolicyRest o
  else modifyPolicyRest o
where
  modifyPolicyRest (o : SevPolicyOptions) : M SevPol := do
    let p ← deref "gcetcbendorsement.modifyPolicy#5:deref" policy               -- policy.Policy
    let p1 := if !o.overwrite || p.policy == 0 then { p with policy := PSevSnp.getPolicy sev } else p
    if o.launchVmsas == 0 then
      if !o.allowUnspecifiedVmsas then fail "launch-vmsas-unset"
      else addBundle P sev p1
    else do
      let s ← deref "gcetcbendorsement.modifyPolicy#9:deref" sev                 -- sev.Measurements
      match mlookup (s.measurements.getD []) o.launchVmsas with
      | none => fail "no-measurement"
      | some meas => addBundle P sev { p1 with measurement := some meas }

/-- `endorsement.GetSerializedUefiGolden()` / `GetSignature()`: nil-safe getters -/
def PEndorsement.getPayload (e : Option PEndorsement) : Bytes := (e.map (·.payload)).getD []
def PEndorsement.getSignature (e : Option PEndorsement) : Bytes := (e.map (·.signature)).getD []

/-- the policy SevPolicy starts from without a base: abi.SnpPolicyToBytes{SMT, MigrateMA} (third party:
    `P.defaultPolicyBits`, 0x70000 with go-sev-guest v0.13.0) and minimum_version "0.0" (a field the glue
    does not touch afterwards) -/
def defaultSevPol (P : Parsers Cert Roots Time) : SevPol := ⟨P.defaultPolicyBits, 0, none, [], []⟩

/-- go: SevPolicy -/
def sevPolicy (P : Parsers Cert Roots Time) (endorsement : Option PEndorsement) (opts : Option SevPolicyOptions) :
    M SevPol :=
  match P.unmarshalGolden (PEndorsement.getPayload endorsement) with
  | none => fail "golden-unmarshal"
  | some g =>
    match g.sevSnp with
    | none => fail "no-sevsnp"
    | some _ => do
      let o ← deref "gcetcbendorsement.SevPolicy#1:deref" opts                   -- opts.Base
      let result ←
        match o.base with
        | none => M.pure (defaultSevPol P)
        | some b =>
          -- proto.Clone(opts.Base).(*cpb.Policy): Clone returns the dynamic type of its argument
          assertType "gcetcbendorsement.SevPolicy#2:assert" (some b)
      modifyPolicy P g.sevSnp (some result) opts

/-- gcetcbendorsement.TdxPolicyOptions; RAMGiB is a Go int (64-bit, signed) -/
structure TdxPolicyOptions where
  base : Option TdxPol
  ramGiB : Int
  overwrite : Bool
deriving Repr, DecidableEq

/-- `uint32(opts.RAMGiB)`: narrowing conversion, wraps -/
def toUint32 (x : Int) : Nat := (x % 4294967296).toNat

/-- the loop of go: TdxPolicy over golden.Tdx.Measurements: one tick per row -/
def collectMrtds (ram : Int) : List (Option PTdxRow) → List Bytes → M (List Bytes)
  | [], acc => M.pure acc
  | m :: rest, acc => do
    tick
    let ramGib := (m.map (·.ramGib)).getD 0          -- m.GetRamGib()
    let mrtd := (m.map (·.mrtd)).getD []             -- m.GetMrtd()
    if ram != 0 && ramGib != toUint32 ram then collectMrtds ram rest acc
    else if mrtd.length != mrTdSize then fail "mrtd-size"
    else do
      allocate 1                                      -- append of one slice header
      collectMrtds ram rest (acc ++ [mrtd])

/-- go: modifyTdxPolicy -/
def modifyTdxPolicy (tdxpolicy : Option TdxPol) (mrtds : List Bytes) (opts : Option TdxPolicyOptions) : M TdxPol := do
  let p ← deref "gcetcbendorsement.modifyTdxPolicy#1:deref" tdxpolicy           -- tdxpolicy.TdQuoteBodyPolicy
  match p.body with
  | none => M.pure ⟨some (some mrtds)⟩
  | some any =>
    if any.isSome then do
      let o ← deref "gcetcbendorsement.modifyTdxPolicy#5:deref" opts             -- opts.Overwrite
      if !o.overwrite then fail "any-mr-td-set" else M.pure ⟨some (some mrtds)⟩
    else M.pure ⟨some (some mrtds)⟩

/-- go: TdxPolicy -/
def tdxPolicy (P : Parsers Cert Roots Time) (endorsement : Option PEndorsement) (opts : Option TdxPolicyOptions) :
    M TdxPol :=
  match P.unmarshalGolden (PEndorsement.getPayload endorsement) with
  | none => fail "golden-unmarshal"
  | some g =>
    match g.tdx with
    | none => fail "no-tdx"
    | some t => do
      let o ← deref "gcetcbendorsement.TdxPolicy#1:deref" opts                   -- opts.Base
      let result ←
        match o.base with
        | none => M.pure (⟨none⟩ : TdxPol)
        | some b => assertType "gcetcbendorsement.TdxPolicy#2:assert" (some b)
      let mrtds ← collectMrtds o.ramGiB t.rows []
      if mrtds.length == 0 then fail "no-measurement"
      else modifyTdxPolicy (some result) mrtds opts

/-! ## gcetcbendorsement: validation -/

/-- gcetcbendorsement.SevValidateOptions -/
structure SevValidateOptions (Roots Time : Type) where
  endorsement : Option PEndorsement
  basePolicy : Option SevPol
  overwrite : Bool
  roots : Option Roots
  now : Time
  getter : Option (Url → Option Bytes)
  expectedLaunchVmsas : Nat
  testonlyForceGCS : Bool

/-- go: extractSevFromAttestation: `none` when the table is empty or the entry does not unmarshal (a missing
    entry unmarshals, from nil bytes, to the empty endorsement) -/
def extractSevFromAttestation (P : Parsers Cert Roots Time) (att : Option PAtt) : Option PEndorsement :=
  if (PAtt.extras att).length == 0 then none
  else P.unmarshalEndorsement ((slookup (PAtt.extras att) gceFwCertGUID).getD [])

/-- go: gcetcbendorsement.extractEndorsement -/
def extractEndorsementSev (P : Parsers Cert Roots Time) (att : Option PAtt)
    (opts : Option (SevValidateOptions Roots Time)) : M PEndorsement :=
  match extractSevFromAttestation P att with
  | some e => M.pure e
  | none => do
    let o ← deref "gcetcbendorsement.extractEndorsement#1:deref" opts            -- opts.Getter
    match o.getter with
    | none => fail "no-endorsement"
    | some get =>
      let measurement := PAtt.measurement att
      if measurement.length != measurementSize then fail "measurement-size"
      else do
        match ← httpGet get ⟨"sev", measurement⟩ with
        | none => fail "fetch"
        | some bin =>
          match P.unmarshalEndorsement bin with
          | none => fail "endorsement-unmarshal"
          | some e => M.pure e

/-- go: SevValidate.  go-sev-guest's certTableOptions calls the registered validator with
    `extras[guid]` (nil slice when absent) and, the entry being `Require`, returns its error. -/
def sevValidateWith (old : Bool) (P : Parsers Cert Roots Time) (att : Option PAtt)
    (opts : Option (SevValidateOptions Roots Time)) : M Unit := do
  let o ← deref "gcetcbendorsement.SevValidate#1:deref" opts                     -- opts.Endorsement
  let e ←
    match o.endorsement with
    | some e => M.pure e
    | none => extractEndorsementSev P att opts
  let policy ← sevPolicy P (some e)
    (some ⟨o.basePolicy, o.expectedLaunchVmsas, o.overwrite, true⟩)
  if !P.sevPolicyToOptions policy then fail "policy-to-options"
  else if !P.snpBaseChecks att policy then fail "report"
  else
    let useGUID := if o.testonlyForceGCS then testonlyForceGCSGUID else gceFwCertGUID
    let vopts : Options Roots Time :=
      { snp := some ⟨none, o.expectedLaunchVmsas⟩, roots := o.roots, expectedUefiSha384 := [], now := o.now,
        endorsement := some e, getter := o.getter }
    snpClosureWith old P (some vopts) att (slookup (PAtt.extras att) useGUID)

def sevValidate (P : Parsers Cert Roots Time) := sevValidateWith false P

/-- gcetcbendorsement.TdxValidateOptions; `extracted` stands for extract.Endorsement(DefaultOptions with
    Quote) — event log, then network — which the harness cannot run hermetically: `none` = it failed -/
structure TdxValidateOptions (Roots Time : Type) where
  endorsement : Option PEndorsement
  basePolicy : Option TdxPol
  overwrite : Bool
  roots : Option Roots
  now : Time
  expectedRAMGiB : Int
  extracted : Option Bytes

/-- go: TdxValidate -/
def tdxValidateWith (old : Bool) (P : Parsers Cert Roots Time) (attBytes : Bytes)
    (opts : Option (TdxValidateOptions Roots Time)) : M Unit := do
  let o ← deref "gcetcbendorsement.TdxValidate#1:deref" opts                     -- opts.Endorsement
  let tee ← attestation P attBytes
  match tee with
  | .tdx q =>
    let e ←
      match o.endorsement with
      | some e => M.pure e
      | none =>
        match o.extracted with
        | none => fail "no-endorsement"
        | some bytes =>
          match P.unmarshalEndorsement bytes with
          | none => fail "endorsement-unmarshal"
          | some e => M.pure e
    endorsementProtoWith old P (some e)
      (some { snp := none, roots := o.roots, expectedUefiSha384 := [], now := o.now, endorsement := none, getter := none })
    let policy ← tdxPolicy P (some e) (some ⟨o.basePolicy, o.expectedRAMGiB, o.overwrite⟩)
    if !P.tdxPolicyToOptions policy then fail "policy-to-options"
    else if !P.tdxQuoteChecks q policy then fail "quote"
    else M.pure ()
  | _ => fail "unsupported-attestation"

def tdxValidate (P : Parsers Cert Roots Time) := tdxValidateWith false P

/-! ## gcetcbendorsement: inspect, presentation -/

/-- gcetcbendorsement.BytesForm; `other` = a value outside the enumeration (the switch falls through) -/
inductive BytesForm
  | raw | hex | hexGuidify | base64 | auto | other
deriving Repr, DecidableEq

/-- base64.StdEncoding output length -/
def base64Len (n : Nat) : Nat := (n + 2) / 3 * 4

/-- go: WriteBytesForm: the number of bytes written to the writer.  The hex / base64 encoders work through
    fixed buffers: ticks count their chunks (1024-byte hex buffer, i.e. 512 input bytes per write). -/
def writeBytesForm (n : Nat) (form : BytesForm) (terminal : Bool) : M Nat :=
  match form with
  | .raw => M.pure n
  | .hex => do tick (n / 512 + 1); M.pure (2 * n)
  | .hexGuidify =>
    if n != 16 then do tick (n / 512 + 1); M.pure (2 * n)
    else do allocate 36; M.pure 36          -- uuid.FromBytes cannot fail on 16 bytes; GUID.String()
  | .base64 => do tick (n / 768 + 1); M.pure (base64Len n)
  | .auto => if terminal then do tick (n / 768 + 1); M.pure (base64Len n) else M.pure n
  | .other => M.pure 0

/-- gcetcbendorsement.Inspect (the Writer is defaulted when nil, so it is never nil afterwards) -/
structure Inspect where
  form : BytesForm
  terminal : Bool
deriving Repr, DecidableEq

/-- go: inspectFrom.  `none` = the context holds no *Inspect (the `, ok` assertion fails);
    `some none` = it holds a nil *Inspect, which passes the assertion and is then dereferenced. -/
def inspectFrom (i : Option (Option Inspect)) : M Inspect :=
  match i with
  | none => fail "no-inspect"
  | some p => deref "gcetcbendorsement.inspectFrom#1:deref" p           -- i.Writer

/-- go: InspectSignature -/
def inspectSignature (ctx : Option (Option Inspect)) (endorsement : Option PEndorsement) : M Nat := do
  let i ← inspectFrom ctx
  writeBytesForm (PEndorsement.getSignature endorsement).length i.form i.terminal

/-- go: InspectPayload: `endorsement.SerializedUefiGolden` is a field selection, not a getter -/
def inspectPayload (ctx : Option (Option Inspect)) (endorsement : Option PEndorsement) : M Nat := do
  let i ← inspectFrom ctx
  let e ← deref "gcetcbendorsement.InspectPayload#1:deref" endorsement
  writeBytesForm e.payload.length i.form i.terminal

/-- go: RenderTimestamp's closure and MaskOptions.marshal on the last value of a path: bytes written;
    `none` = a length that is not stable (prototext) -/
def renderValue (v : PathVal) (form : BytesForm) (terminal : Bool) : M (Option Nat) :=
  match v with
  | .bytes n => do let k ← writeBytesForm n form terminal; M.pure (some k)
  | .msg => M.pure none
  | .map entries rendered => do
    tick entries
    M.pure (some (rendered + (entries - 1)))
  | .scalar n => M.pure (some n)
  | .ts n => M.pure (some n)
  | .tsBad => fail "timestamp-type"

/-- the loop of go: MaskOptions.Mask over mask.GetPaths() -/
def maskPaths (P : Parsers Cert Roots Time) (g : PGolden) (form : BytesForm) (terminal : Bool) :
    Nat → List String → Option Nat → M (Option Nat)
  | _, [], acc => M.pure acc
  | i, path :: rest, acc => do
    tick
    match P.pathValue g path (path == "timestamp") with
    | none => fail "path"
    | some v =>
      let sep := if i != 0 then 1 else 0
      let w ← renderValue v form terminal
      let acc' := match acc, w with
        | some a, some k => some (a + sep + k)
        | _, _ => none
      maskPaths P g form terminal (i + 1) rest acc'

/-- go: InspectMask (src and mask are non-nil: the caller builds both) -/
def inspectMask (P : Parsers Cert Roots Time) (ctx : Option (Option Inspect)) (endorsement : Option PEndorsement)
    (paths : List String) : M (Option Nat) := do
  let i ← inspectFrom ctx
  let e ← deref "gcetcbendorsement.InspectMask#3:deref" endorsement             -- endorsement.SerializedUefiGolden
  match P.unmarshalGolden e.payload with
  | none => fail "golden-unmarshal"
  | some g => maskPaths P g i.form i.terminal 0 paths (some 0)

/-! ## the panic-capable sites of the functions above -/

/-- how the model accounts for a site of the regenerated inventory -/
inductive How
  | checked                  -- an explicit checked operation of the model carries this key
  | again (ord : Nat)        -- the same pointer was already dereferenced, at site `ord` of the same function, on every path to here
  | guarded (why : String)   -- an explicit nil check / type switch precedes it; the model has the check as a `match`
  | nonnil (why : String)    -- the pointer is the non-nil result of a successful call or a fresh allocation of the caller in this package
  | total (why : String)     -- a conversion or call that cannot panic at this place
deriving Repr, DecidableEq

structure Site where
  fn : String
  ord : Nat
  kind : String
  text : String
  how : How
deriving Repr, DecidableEq

def Site.key (s : Site) : String × Nat × String × String := (s.fn, s.ord, s.kind, s.text)

/-- the name a checked operation of the model carries -/
def Site.name (s : Site) : String := s!"{s.fn}#{s.ord}:{s.kind}"

def modelledSites : List Site := [
  ⟨"verify.SNPFamilyValidateFunc$1", 1, "deref", "opts.Endorsement", .checked⟩,
  ⟨"verify.SNPFamilyValidateFunc$1", 2, "deref", "opts.Getter", .again 1⟩,
  ⟨"verify.SNPFamilyValidateFunc$1", 3, "deref", "opts.Getter", .again 1⟩,
  ⟨"verify.SNPFamilyValidateFunc$1", 4, "deref", "*opts", .again 1⟩,
  ⟨"verify.SNPFamilyValidateFunc$1", 5, "deref", "opts.SNP", .again 1⟩,
  ⟨"verify.SNPFamilyValidateFunc$1", 6, "deref", "*opts.SNP", .guarded "inside `if opts.SNP != nil`"⟩,
  ⟨"verify.SNPFamilyValidateFunc$1", 7, "deref", "opts.SNP", .again 1⟩,
  ⟨"verify.EndorsementProto", 1, "deref", "endorsement.SerializedUefiGolden", .checked⟩,
  ⟨"verify.EndorsementProto", 2, "deref", "opts.RootsOfTrust", .checked⟩,
  ⟨"verify.EndorsementProto", 3, "deref", "opts.Now", .again 2⟩,
  ⟨"verify.EndorsementProto", 4, "deref", "endorsement.SerializedUefiGolden", .again 1⟩,
  ⟨"verify.EndorsementProto", 5, "deref", "opts.ExpectedUefiSha384", .again 2⟩,
  ⟨"verify.EndorsementProto", 6, "deref", "opts.ExpectedUefiSha384", .again 2⟩,
  ⟨"verify.EndorsementProto", 7, "deref", "opts.ExpectedUefiSha384", .again 2⟩,
  ⟨"verify.EndorsementProto", 8, "deref", "opts.SNP", .again 2⟩,
  ⟨"verify.EndorsementProto", 9, "deref", "opts.SNP", .again 2⟩,
  ⟨"verify.SNP", 1, "deref", "golden.SevSnp", .checked⟩,
  ⟨"verify.SNP", 2, "deref", "golden.SevSnp", .again 1⟩,
  ⟨"verify.SNP", 3, "deref", "opts.ExpectedLaunchVMSAs", .checked⟩,
  ⟨"verify.SNP", 4, "deref", "snp.Measurements", .guarded "snp = golden.SevSnp, returned above when nil"⟩,
  ⟨"verify.SNP", 5, "deref", "opts.ExpectedLaunchVMSAs", .again 3⟩,
  ⟨"verify.SNP", 6, "deref", "snp.SvsmMeasurement", .guarded "snp = golden.SevSnp, returned above when nil"⟩,
  ⟨"verify.SNP", 7, "deref", "snp.SvsmMeasurement", .guarded "snp = golden.SevSnp, returned above when nil"⟩,
  ⟨"verify.SNP", 8, "deref", "opts.Measurement", .again 3⟩,
  ⟨"verify.SNP", 9, "deref", "opts.ExpectedLaunchVMSAs", .again 3⟩,
  ⟨"verify.SNP", 10, "deref", "opts.ExpectedLaunchVMSAs", .again 3⟩,
  ⟨"verify.SNP", 11, "deref", "opts.Measurement", .again 3⟩,
  ⟨"verify.SNP", 12, "deref", "opts.ExpectedLaunchVMSAs", .again 3⟩,
  ⟨"verify.SNP", 13, "deref", "opts.Measurement", .again 3⟩,
  ⟨"verify.SNP", 14, "deref", "opts.Measurement", .again 3⟩,
  ⟨"verify.SNP", 15, "deref", "opts.Measurement", .again 3⟩,
  ⟨"verify.SNP", 16, "deref", "snp.SvsmMeasurement", .guarded "snp = golden.SevSnp, returned above when nil"⟩,
  ⟨"verify.SNP", 17, "deref", "snp.Measurements", .guarded "snp = golden.SevSnp, returned above when nil"⟩,
  ⟨"verify.SNP", 18, "deref", "opts.Measurement", .again 3⟩,
  ⟨"verify.SNP", 19, "deref", "opts.Measurement", .again 3⟩,
  ⟨"verify.CheckCertificate", 1, "deref", "cert.Subject", .nonnil "cert is the result of a successful x509.ParseCertificate"⟩,
  ⟨"extractsev.CheckCertTable", 1, "conv", "uint64(len(table))", .total "len is non-negative: the conversion to uint64 is exact"⟩,
  ⟨"extractsev.CheckCertTable", 2, "conv", "uint64(len(table))", .total "len is non-negative: the conversion to uint64 is exact"⟩,
  ⟨"extract.Attestation", 1, "slice", "quote[abi.ReportSize:]", .checked⟩,
  ⟨"extract.Options.fromQuote", 1, "deref", "tpmat.TeeAttestation", .nonnil "tpmat is the result of a successful Attestation (a fresh &tpmpb.Attestation{})"⟩,
  ⟨"extract.Options.fromQuote", 2, "deref", "at.SevSnpAttestation", .guarded "at is the oneof wrapper the type switch matched; proto.Unmarshal and Attestation never store a typed-nil wrapper"⟩,
  ⟨"extract.Options.fromQuote", 3, "deref", "at.TdxAttestation", .guarded "at is the oneof wrapper the type switch matched; proto.Unmarshal and Attestation never store a typed-nil wrapper"⟩,
  ⟨"extract.Endorsement", 1, "deref", "opts.EventLogLocation", .guarded "Endorsement returns ErrOptionsNil first when opts is nil"⟩,
  ⟨"extract.Endorsement", 2, "deref", "opts.ForceFetch", .guarded "Endorsement returns ErrOptionsNil first when opts is nil"⟩,
  ⟨"extract.Endorsement", 3, "deref", "opts.Quote", .guarded "Endorsement returns ErrOptionsNil first when opts is nil"⟩,
  ⟨"extract.Endorsement", 4, "deref", "opts.ForceFetch", .guarded "Endorsement returns ErrOptionsNil first when opts is nil"⟩,
  ⟨"extract.Endorsement", 5, "deref", "opts.Provider", .guarded "Endorsement returns ErrOptionsNil first when opts is nil"⟩,
  ⟨"extract.Endorsement", 6, "deref", "opts.Provider", .guarded "Endorsement returns ErrOptionsNil first when opts is nil"⟩,
  ⟨"extract.Endorsement", 7, "deref", "opts.ForceFetch", .guarded "Endorsement returns ErrOptionsNil first when opts is nil"⟩,
  ⟨"extract.Endorsement", 8, "deref", "opts.Getter", .guarded "Endorsement returns ErrOptionsNil first when opts is nil"⟩,
  ⟨"extract.Endorsement", 9, "deref", "opts.Getter", .guarded "Endorsement returns ErrOptionsNil first when opts is nil"⟩,
  ⟨"gcetcbendorsement.policyModificationAllowed", 1, "deref", "opts.LaunchVmsas", .checked⟩,
  ⟨"gcetcbendorsement.policyModificationAllowed", 2, "deref", "sev.Measurements", .checked⟩,
  ⟨"gcetcbendorsement.policyModificationAllowed", 3, "deref", "opts.LaunchVmsas", .again 1⟩,
  ⟨"gcetcbendorsement.modifyPolicy", 1, "deref", "opts.Overwrite", .checked⟩,
  ⟨"gcetcbendorsement.modifyPolicy", 2, "deref", "sev.Svn", .checked⟩,
  ⟨"gcetcbendorsement.modifyPolicy", 3, "deref", "sev.Svn", .again 2⟩,
  ⟨"gcetcbendorsement.modifyPolicy", 4, "deref", "opts.Overwrite", .again 1⟩,
  ⟨"gcetcbendorsement.modifyPolicy", 5, "deref", "policy.Policy", .checked⟩,
  ⟨"gcetcbendorsement.modifyPolicy", 6, "deref", "policy.Policy", .again 5⟩,
  ⟨"gcetcbendorsement.modifyPolicy", 7, "deref", "opts.LaunchVmsas", .again 1⟩,
  ⟨"gcetcbendorsement.modifyPolicy", 8, "deref", "opts.AllowUnspecifiedVmsas", .again 1⟩,
  ⟨"gcetcbendorsement.modifyPolicy", 9, "deref", "sev.Measurements", .checked⟩,
  ⟨"gcetcbendorsement.modifyPolicy", 10, "deref", "opts.LaunchVmsas", .again 1⟩,
  ⟨"gcetcbendorsement.modifyPolicy", 11, "deref", "opts.LaunchVmsas", .again 1⟩,
  ⟨"gcetcbendorsement.modifyPolicy", 12, "deref", "opts.LaunchVmsas", .again 1⟩,
  ⟨"gcetcbendorsement.modifyPolicy", 13, "deref", "policy.Measurement", .again 5⟩,
  ⟨"gcetcbendorsement.modifyPolicy", 14, "deref", "id.Type", .checked⟩,
  ⟨"gcetcbendorsement.modifyPolicy", 15, "deref", "id.Type", .again 14⟩,
  ⟨"gcetcbendorsement.modifyPolicy", 16, "deref", "policy.TrustedIdKeys", .again 5⟩,
  ⟨"gcetcbendorsement.modifyPolicy", 17, "deref", "policy.TrustedIdKeys", .again 5⟩,
  ⟨"gcetcbendorsement.modifyPolicy", 18, "deref", "id.Bytes", .checked⟩,
  ⟨"gcetcbendorsement.modifyPolicy", 19, "deref", "auth.Type", .checked⟩,
  ⟨"gcetcbendorsement.modifyPolicy", 20, "deref", "auth.Type", .again 19⟩,
  ⟨"gcetcbendorsement.modifyPolicy", 21, "deref", "policy.TrustedAuthorKeys", .again 5⟩,
  ⟨"gcetcbendorsement.modifyPolicy", 22, "deref", "policy.TrustedAuthorKeys", .again 5⟩,
  ⟨"gcetcbendorsement.modifyPolicy", 23, "deref", "auth.Bytes", .checked⟩,
  ⟨"gcetcbendorsement.SevPolicy", 1, "deref", "opts.Base", .checked⟩,
  ⟨"gcetcbendorsement.SevPolicy", 2, "assert", "proto.Clone(opts.Base).(*cpb.Policy)", .checked⟩,
  ⟨"gcetcbendorsement.SevPolicy", 3, "deref", "opts.Base", .again 1⟩,
  ⟨"gcetcbendorsement.modifyTdxPolicy", 1, "deref", "tdxpolicy.TdQuoteBodyPolicy", .checked⟩,
  ⟨"gcetcbendorsement.modifyTdxPolicy", 2, "deref", "tdxpolicy.TdQuoteBodyPolicy", .again 1⟩,
  ⟨"gcetcbendorsement.modifyTdxPolicy", 3, "deref", "tdxpolicy.TdQuoteBodyPolicy.AnyMrTd", .guarded "in the else branch of `tdxpolicy.TdQuoteBodyPolicy == nil`"⟩,
  ⟨"gcetcbendorsement.modifyTdxPolicy", 4, "deref", "tdxpolicy.TdQuoteBodyPolicy", .again 1⟩,
  ⟨"gcetcbendorsement.modifyTdxPolicy", 5, "deref", "opts.Overwrite", .checked⟩,
  ⟨"gcetcbendorsement.modifyTdxPolicy", 6, "deref", "tdxpolicy.TdQuoteBodyPolicy.AnyMrTd", .nonnil "TdQuoteBodyPolicy was just set or found non-nil"⟩,
  ⟨"gcetcbendorsement.modifyTdxPolicy", 7, "deref", "tdxpolicy.TdQuoteBodyPolicy", .again 1⟩,
  ⟨"gcetcbendorsement.TdxPolicy", 1, "deref", "opts.Base", .checked⟩,
  ⟨"gcetcbendorsement.TdxPolicy", 2, "assert", "proto.Clone(opts.Base).(*tcpb.Policy)", .checked⟩,
  ⟨"gcetcbendorsement.TdxPolicy", 3, "deref", "opts.Base", .again 1⟩,
  ⟨"gcetcbendorsement.TdxPolicy", 4, "deref", "golden.Tdx.Measurements", .guarded "golden.Tdx returned above when nil"⟩,
  ⟨"gcetcbendorsement.TdxPolicy", 5, "deref", "opts.RAMGiB", .again 1⟩,
  ⟨"gcetcbendorsement.TdxPolicy", 6, "conv", "uint32(opts.RAMGiB)", .checked⟩,
  ⟨"gcetcbendorsement.TdxPolicy", 7, "deref", "opts.RAMGiB", .again 1⟩,
  ⟨"gcetcbendorsement.TdxPolicy", 8, "deref", "opts.RAMGiB", .again 1⟩,
  ⟨"gcetcbendorsement.extractEndorsement", 1, "deref", "opts.Getter", .checked⟩,
  ⟨"gcetcbendorsement.extractEndorsement", 2, "deref", "opts.Getter", .again 1⟩,
  ⟨"gcetcbendorsement.SevValidate", 1, "deref", "opts.Endorsement", .checked⟩,
  ⟨"gcetcbendorsement.SevValidate", 2, "deref", "opts.BasePolicy", .again 1⟩,
  ⟨"gcetcbendorsement.SevValidate", 3, "deref", "opts.Overwrite", .again 1⟩,
  ⟨"gcetcbendorsement.SevValidate", 4, "deref", "opts.ExpectedLaunchVmsas", .again 1⟩,
  ⟨"gcetcbendorsement.SevValidate", 5, "deref", "opts.TestonlyForceGCS", .again 1⟩,
  ⟨"gcetcbendorsement.SevValidate", 6, "deref", "vopts.CertTableOptions", .nonnil "vopts is the result of a successful validate.PolicyToOptions"⟩,
  ⟨"gcetcbendorsement.SevValidate", 7, "deref", "opts.ExpectedLaunchVmsas", .again 1⟩,
  ⟨"gcetcbendorsement.SevValidate", 8, "deref", "opts.RootsOfTrust", .again 1⟩,
  ⟨"gcetcbendorsement.SevValidate", 9, "deref", "opts.Now", .again 1⟩,
  ⟨"gcetcbendorsement.SevValidate", 10, "deref", "opts.Getter", .again 1⟩,
  ⟨"gcetcbendorsement.TdxValidate", 1, "deref", "opts.Endorsement", .checked⟩,
  ⟨"gcetcbendorsement.TdxValidate", 2, "deref", "tpmAttestation.TeeAttestation", .nonnil "tpmAttestation is the result of a successful extract.Attestation"⟩,
  ⟨"gcetcbendorsement.TdxValidate", 3, "deref", "ta.TdxAttestation", .guarded "ta is the oneof wrapper the type switch matched"⟩,
  ⟨"gcetcbendorsement.TdxValidate", 4, "deref", "eopts.Quote", .nonnil "eopts is the result of extract.DefaultOptions (a fresh &Options{})"⟩,
  ⟨"gcetcbendorsement.TdxValidate", 5, "deref", "opts.RootsOfTrust", .again 1⟩,
  ⟨"gcetcbendorsement.TdxValidate", 6, "deref", "opts.Now", .again 1⟩,
  ⟨"gcetcbendorsement.TdxValidate", 7, "deref", "opts.BasePolicy", .again 1⟩,
  ⟨"gcetcbendorsement.TdxValidate", 8, "deref", "opts.Overwrite", .again 1⟩,
  ⟨"gcetcbendorsement.TdxValidate", 9, "deref", "opts.ExpectedRAMGiB", .again 1⟩,
  ⟨"gcetcbendorsement.inspectFrom", 1, "deref", "i.Writer", .checked⟩,
  ⟨"gcetcbendorsement.inspectFrom", 2, "deref", "i.Writer", .again 1⟩,
  ⟨"gcetcbendorsement.InspectSignature", 1, "deref", "i.Form", .nonnil "i is the result of a successful inspectFrom, which dereferenced it"⟩,
  ⟨"gcetcbendorsement.InspectSignature", 2, "deref", "i.Writer", .nonnil "i is the result of a successful inspectFrom, which dereferenced it"⟩,
  ⟨"gcetcbendorsement.InspectPayload", 1, "deref", "endorsement.SerializedUefiGolden", .checked⟩,
  ⟨"gcetcbendorsement.InspectPayload", 2, "deref", "i.Form", .nonnil "i is the result of a successful inspectFrom, which dereferenced it"⟩,
  ⟨"gcetcbendorsement.InspectPayload", 3, "deref", "i.Writer", .nonnil "i is the result of a successful inspectFrom, which dereferenced it"⟩,
  ⟨"gcetcbendorsement.InspectMask", 1, "deref", "i.Form", .nonnil "i is the result of a successful inspectFrom, which dereferenced it"⟩,
  ⟨"gcetcbendorsement.InspectMask", 2, "deref", "i.Writer", .nonnil "i is the result of a successful inspectFrom, which dereferenced it"⟩,
  ⟨"gcetcbendorsement.InspectMask", 3, "deref", "endorsement.SerializedUefiGolden", .checked⟩,
  ⟨"gcetcbendorsement.OSFileWriter.IsTerminal", 1, "conv", "int(w.File.Fd())", .total "not on the path of untrusted data: a file descriptor; uintptr to int of a small number"⟩,
  ⟨"gcetcbendorsement.RenderTimestamp$1", 1, "deref", "opts.Writer", .nonnil "the receiver / options value is the &MaskOptions{…} InspectMask allocates"⟩,
  ⟨"gcetcbendorsement.MaskOptions.marshal", 1, "deref", "opts.BytesForm", .nonnil "the receiver / options value is the &MaskOptions{…} InspectMask allocates"⟩,
  ⟨"gcetcbendorsement.MaskOptions.marshal", 2, "deref", "opts.Writer", .nonnil "the receiver / options value is the &MaskOptions{…} InspectMask allocates"⟩,
  ⟨"gcetcbendorsement.MaskOptions.marshal", 3, "deref", "opts.Writer", .nonnil "the receiver / options value is the &MaskOptions{…} InspectMask allocates"⟩,
  ⟨"gcetcbendorsement.MaskOptions.marshal", 4, "paniccall", "v.Value.Map()", .guarded "inside `v.Step.FieldDescriptor().IsMap()`: the value of a map field is a map"⟩,
  ⟨"gcetcbendorsement.MaskOptions.marshal$1", 1, "deref", "opts.BytesForm", .nonnil "the receiver / options value is the &MaskOptions{…} InspectMask allocates"⟩,
  ⟨"gcetcbendorsement.MaskOptions.marshal$1", 2, "deref", "opts.Writer", .nonnil "the receiver / options value is the &MaskOptions{…} InspectMask allocates"⟩,
  ⟨"gcetcbendorsement.MaskOptions.marshal$1", 3, "deref", "opts.Writer", .nonnil "the receiver / options value is the &MaskOptions{…} InspectMask allocates"⟩,
  ⟨"gcetcbendorsement.MaskOptions.marshal$2", 1, "deref", "opts.Writer", .nonnil "the receiver / options value is the &MaskOptions{…} InspectMask allocates"⟩,
  ⟨"gcetcbendorsement.MaskOptions.marshal$2", 2, "deref", "opts.Writer", .nonnil "the receiver / options value is the &MaskOptions{…} InspectMask allocates"⟩,
  ⟨"gcetcbendorsement.MaskOptions.Mask", 1, "deref", "opts.Writer", .nonnil "the receiver / options value is the &MaskOptions{…} InspectMask allocates"⟩,
  ⟨"gcetcbendorsement.MaskOptions.Mask", 2, "deref", "opts.PathRenderer", .nonnil "the receiver / options value is the &MaskOptions{…} InspectMask allocates"⟩,
  ⟨"gcetcbendorsement.MaskOptions.Mask", 3, "paniccall", "vs.Index(-1)", .total "parsepath.PathValues returns the root value first: a successful walk has at least one value (C19)"⟩,
  ⟨"gcetcbendorsement.MaskOptions.Mask", 4, "paniccall", "vs.Index(-1)", .total "parsepath.PathValues returns the root value first: a successful walk has at least one value (C19)"⟩
]

/-- the keys of the checked operations that appear in the model functions above -/
def checkedNames : List String := (modelledSites.filter (fun s => s.how == .checked)).map Site.name

end
end GceTcb.DecTotal
