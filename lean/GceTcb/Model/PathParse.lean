import GceTcb.Model.PathScan
/-
Model of gcetcbendorsement/parsepath/parse.go (C19): the type-aware path parser.  Core-only.

The schema is a deep embedding of protobuf descriptors as data: a list of message descriptors, each a
list of fields (number, text name, cardinality single | list | map keyKind, kind, referenced message
full name, containing message full name).  Nothing is specific to a concrete proto file; the
harness dumps the real descriptors into this form at run time.

`Desc` is the dynamic type of Go's `protoreflect.Descriptor` interface value held in `parser.desc`
(nil, a message descriptor, a field descriptor).  Go's comma-ok type assertions become matches on
`Desc`; calls that would dereference nil (`fd.MapKey().Kind()` on a non-map) are checked steps.

`Variant` selects between the repaired code (the tree with the two `fix:` commits, which the
theorems are about) and the original behaviour (kept for the witness theorems):
 * `advanceMapCursor` — access.go PathValues advances its descriptor past a map index (D12);
 * `rejectListField`  — parse.go accessIdent refuses `.name` directly on a repeated field (a field
   access applied to a list made PathValues panic in protoreflect's `Value.Message`).

A reference to a message that is not in the schema cannot occur with real descriptors; the model
reports it as the error class "schema".
-/
namespace GceTcb.Path

-- go: protoreflect.Kind
inductive Kind
  | bool | enum | int32 | sint32 | uint32 | int64 | sint64 | uint64 | sfixed32 | fixed32 | float
  | sfixed64 | fixed64 | double | string | bytes | message | group
deriving DecidableEq, Repr

/-- The Go type a `protoreflect.Value` / `MapKey` holds. -/
inductive VClass
  | bool | i32 | i64 | u32 | u64 | f32 | f64 | str | bytes | enum
deriving DecidableEq, Repr

def Kind.cls : Kind → Option VClass
  | .bool => some .bool
  | .enum => some .enum
  | .int32 | .sint32 | .sfixed32 => some .i32
  | .uint32 | .fixed32 => some .u32
  | .int64 | .sint64 | .sfixed64 => some .i64
  | .uint64 | .fixed64 => some .u64
  | .float => some .f32
  | .double => some .f64
  | .string => some .str
  | .bytes => some .bytes
  | .message | .group => none

def Kind.isMessage (k : Kind) : Bool := k = .message || k = .group

/-- Cardinality and container shape of a field.  For `map`, the field's `kind`/`ref` describe the
    map VALUE and `keyKind` the key. -/
inductive Card
  | single | list | map (keyKind : Kind)
deriving DecidableEq, Repr

-- go: protoreflect.FieldDescriptor (the part the code under test looks at)
structure Field where
  number : Nat
  name : Str          -- TextName
  card : Card
  kind : Kind
  ref : Str           -- full name of the message type when kind is message/group, else []
  parent : Str        -- full name of the containing message
deriving DecidableEq, Repr

-- go: protoreflect.MessageDescriptor
structure MsgDesc where
  name : Str          -- FullName
  fields : List Field
deriving DecidableEq, Repr

abbrev Schema := List MsgDesc

def lookupMsg (sch : Schema) (name : Str) : Option MsgDesc := sch.find? (fun m => m.name == name)

/-- go: FieldDescriptors.ByTextName -/
def MsgDesc.byName (md : MsgDesc) (id : Str) : Option Field := md.fields.find? (fun f => f.name == id)
/-- go: FieldDescriptors.ByNumber -/
def MsgDesc.byNumber (md : MsgDesc) (n : Nat) : Option Field := md.fields.find? (fun f => f.number == n)

def Field.isMap (f : Field) : Bool := match f.card with | .map _ => true | _ => false
def Field.isList (f : Field) : Bool := match f.card with | .list => true | _ => false
/-- go: fd.Cardinality() == protoreflect.Repeated -/
def Field.isRepeated (f : Field) : Bool := f.isMap || f.isList

/-- A scalar `protoreflect.Value` or a `MapKey`: Go type class + payload (`num` for bool (0/1),
    integers, enum numbers and float bit patterns; `str` for string and bytes). -/
structure Scalar where
  cls : VClass
  num : Int
  str : Str
deriving DecidableEq, Repr

-- go: protopath.Step
inductive Step
  | root (name : Str)
  | field (fd : Field)
  | listIndex (i : Int)
  | mapIndex (k : Scalar)
  | anyExpand (name : Str)
  | unknown
deriving DecidableEq, Repr

-- go: the dynamic type of a protoreflect.Descriptor interface value
inductive Desc
  | nil
  | msg (md : MsgDesc)
  | field (fd : Field)
deriving DecidableEq, Repr

structure Variant where
  advanceMapCursor : Bool
  rejectListField : Bool
deriving DecidableEq, Repr

/-- the tree with the fix commits applied -/
def Variant.fixed : Variant := ⟨true, true⟩
/-- the original tree -/
def Variant.orig : Variant := ⟨false, false⟩

def kKey : Str := asc "key"
def kValue : Str := asc "value"

/-- The synthetic map-entry message of a map field (fields `key` = 1 and `value` = 2). -/
def entryDesc (fd : Field) : MsgDesc :=
  let en := fd.parent ++ asc "." ++ fd.name ++ asc "Entry"
  { name := en,
    fields := [
      { number := 1, name := kKey, card := .single,
        kind := (match fd.card with | .map kk => kk | _ => .int32), ref := [], parent := en },
      { number := 2, name := kValue, card := .single, kind := fd.kind, ref := fd.ref, parent := en } ] }

/-- resolve a message reference as Go's descriptors do (they are linked objects) -/
def resolveRef (sch : Schema) (kind : Kind) (ref : Str) : Outcome Desc :=
  if kind.isMessage then
    match lookupMsg sch ref with
    | some md => .ok (.msg md)
    | none => .err "schema"
  else .ok .nil

/-- go: fd.Message() — the entry message for a map field, the element message for message-kind
    fields (single or list), nil otherwise. -/
def Field.message (sch : Schema) (fd : Field) : Outcome Desc :=
  if fd.isMap then .ok (.msg (entryDesc fd)) else resolveRef sch fd.kind fd.ref

/-- go: fd.MapValue().Message() (called under `fd.IsMap()`; on a non-map `MapValue()` is nil) -/
def Field.mapValueMessage (sch : Schema) (fd : Field) : Outcome Desc :=
  if fd.isMap then resolveRef sch fd.kind fd.ref else .panic "mapvalue.nil"

/-- go: fd.MapKey().Kind() (nil dereference on a non-map) -/
def Field.mapKeyKind (fd : Field) : Outcome Kind :=
  match fd.card with
  | .map kk => .ok kk
  | _ => .panic "mapkey.nil"

/-! ### literals used as indices -/

-- go: parsepath.forAccess implementations
inductive Lit
  | bool (b : Bool)          -- boolAccess
  | str (s : Str)            -- stringForMapKey
  | num (lit : Str)          -- numberForAccess
deriving DecidableEq, Repr

/-- strconv base-0 literal → (has `-`, magnitude).  Prefix `0x`/`0X` hex, leading `0` followed by
    digits octal, otherwise decimal.  `none` on a syntax error (empty digit string or a digit that is
    out of range for the base) — the scanner never produces such a token. -/
def parseMagnitude (ds : Str) : Option Nat :=
  match ds with
  | 48 :: x :: r =>
    if x = 120 ∨ x = 88 then
      (if r ≠ [] ∧ r.all isHex then some (digitsVal 16 r) else none)
    else if (x :: r).all isOct then some (digitsVal 8 (x :: r)) else none
  | _ => if ds ≠ [] ∧ ds.all isDigit then some (digitsVal 10 ds) else none

def parseLit (lit : Str) : Option (Bool × Nat) :=
  match lit with
  | 45 :: r => (parseMagnitude r).map (fun m => (true, m))
  | _ => (parseMagnitude lit).map (fun m => (false, m))

/-- go: strconv.ParseInt(lit, 0, bits) -/
def parseIntBits (lit : Str) (bits : Nat) : Option Int :=
  match parseLit lit with
  | some (neg, m) =>
    let v : Int := if neg then - (m : Int) else (m : Int)
    if - (2 ^ (bits - 1) : Int) ≤ v ∧ v ≤ (2 ^ (bits - 1) : Int) - 1 then some v else none
  | none => none

/-- go: strconv.ParseUint(lit, 0, bits) — a sign is a syntax error -/
def parseUintBits (lit : Str) (bits : Nat) : Option Int :=
  match parseLit lit with
  | some (false, m) => if m < 2 ^ bits then some (m : Int) else none
  | _ => none

/-- go: (forAccess).castKey -/
def Lit.castKey (l : Lit) (kk : Kind) : Option Scalar :=
  match l with
  | .bool b => if kk = .bool then some ⟨.bool, if b then 1 else 0, []⟩ else none
  | .str s => if kk = .string then some ⟨.str, 0, s⟩ else none
  | .num lit =>
    match kk with
    | .int32 => (parseIntBits lit 32).map (fun v => ⟨.i32, v, []⟩)
    | .int64 => (parseIntBits lit 64).map (fun v => ⟨.i64, v, []⟩)
    | .uint32 => (parseUintBits lit 32).map (fun v => ⟨.u32, v, []⟩)
    | .uint64 => (parseUintBits lit 64).map (fun v => ⟨.u64, v, []⟩)
    | _ => none

/-- go: (forAccess).castInt (`int` is 64 bits) -/
def Lit.castInt (l : Lit) : Option Int :=
  match l with
  | .num lit => parseIntBits lit 64
  | _ => none

/-! ### the parser -/

-- go: parsepath.parseState
inductive PState
  | needRoot | needRootDescriptor | needRootClose | needAccessor | needFieldAccessor | needFieldName
  | needIndex | needIndexClose
deriving DecidableEq, Repr

/-- go: parseState.isTerminal -/
def PState.isTerminal (s : PState) : Bool := s = .needRoot || s = .needAccessor || s = .needFieldAccessor

-- go: parsepath.parser (the scanner position is threaded separately)
structure PSt where
  state : PState
  path : List Step
  desc : Desc
  qname : Str
deriving DecidableEq, Repr

/-- go: parser.accessIdent -/
def accessIdent (V : Variant) (sch : Schema) (st : PSt) (id : Str) : Outcome PSt := do
  let m ← (match st.desc with
    | .field fd =>
      if fd.isMap && (id == kKey || id == kValue) then .err "map-internal"
      else if V.rejectListField && fd.isList then .err "list-field"
      else fd.message sch
    | d => .ok d)
  match m with
  | .msg md =>
    match md.byName id with
    | none => .err "no-field"
    | some fd => .ok { st with desc := .field fd, state := .needAccessor, path := st.path ++ [.field fd] }
  | _ => .err "not-message"

/-- go: parser.accessValue -/
def accessValue (sch : Schema) (st : PSt) (lit : Lit) : Outcome PSt :=
  match st.desc with
  | .field fd =>
    if !fd.isRepeated then .err "not-repeated"
    else if fd.isMap then do
      let kk ← fd.mapKeyKind
      match lit.castKey kk with
      | none => .err "key-kind"
      | some mk => do
        let d ← fd.mapValueMessage sch
        .ok { st with desc := d, path := st.path ++ [.mapIndex mk], state := .needIndexClose }
    else
      match lit.castInt with
      | none => .err "non-integral"
      | some i =>
        if i < 0 then .err "negative"
        else do
          let d ← fd.message sch
          .ok { st with desc := d, path := st.path ++ [.listIndex i], state := .needIndexClose }
  | _ => .err "not-field"

def kTrue : Str := asc "true"
def kFalse : Str := asc "false"

/-- go: parser.ident -/
def stepIdent (V : Variant) (sch : Schema) (st : PSt) (t : Token) : Outcome PSt :=
  if st.state = .needRootDescriptor then
    -- FullName.Append
    .ok { st with state := .needRootClose,
                  qname := if st.qname = [] then t.text else st.qname ++ asc "." ++ t.text }
  else if st.state = .needRoot ∨ st.state = .needFieldName then accessIdent V sch st t.text
  else if st.state = .needIndex then
    if t.text = kTrue then accessValue sch st (.bool true)
    else if t.text = kFalse then accessValue sch st (.bool false)
    else .err "ident-index"
  else .err "unexpected"

/-- go: parser.step (with oparen, cparen, obrack, cbrack, dot, intlit, strlit inlined) -/
def step (V : Variant) (sch : Schema) (root : Str) (st : PSt) (t : Token) : Outcome PSt :=
  match t.kind with
  | .oparen => if st.state ≠ .needRoot then .err "unexpected" else .ok { st with state := .needRootDescriptor }
  | .cparen =>
    if st.state ≠ .needRootClose then .err "unexpected"
    else if root ≠ st.qname then .err "root-name"
    else .ok { st with state := .needFieldAccessor }
  | .obrack => if st.state ≠ .needAccessor then .err "unexpected" else .ok { st with state := .needIndex }
  | .cbrack => if st.state ≠ .needIndexClose then .err "unexpected" else .ok { st with state := .needAccessor }
  | .ident => stepIdent V sch st t
  | .intlit => if st.state ≠ .needIndex then .err "unexpected" else accessValue sch st (.num t.text)
  | .strlit => if st.state ≠ .needIndex then .err "unexpected" else accessValue sch st (.str t.text)
  | .dot =>
    match st.state with
    | .needRootClose => .ok { st with state := .needRootDescriptor }
    | .needAccessor => .ok { st with state := .needFieldName }
    | .needFieldAccessor => .ok { st with state := .needFieldName }
    | _ => .err "unexpected"
  | .illegal => .err "illegal"
  | .eof => .err "unknown-kind"

/-- go: the `for` loop of ParsePath.  Fuel = remaining bytes + 1 (every non-eof token advances the
    scanner, `C19_scan_progress`); exhaustion is a panic so that the no-panic theorem covers it. -/
def parseLoop (V : Variant) (sch : Schema) (root : Str) (buf : Str) : Nat → Nat → PSt → Outcome (List Step)
  | 0, _, _ => .panic "parse.fuel"
  | fuel + 1, pos, st => do
    let r ← scan buf pos
    if r.1.kind = .eof then
      if st.state.isTerminal then .ok st.path else .err "eof-state"
    else do
      let st' ← step V sch root st r.1
      parseLoop V sch root buf fuel r.2 st'

/-- go: parsepath.ParsePath — `root` names the message descriptor; a name that is not in the schema
    plays the role of the nil descriptor. -/
def parsePathV (V : Variant) (sch : Schema) (root : Str) (path : Str) : Outcome (List Step) :=
  match lookupMsg sch root with
  | none => .err "nil-descriptor"
  | some md =>
    parseLoop V sch root path (path.length + 1) 0
      { state := .needRoot, path := [.root root], desc := .msg md, qname := [] }

/-- the repaired code -/
def parsePath (sch : Schema) (root : Str) (path : Str) : Outcome (List Step) :=
  parsePathV .fixed sch root path

/-! ### schema well-formedness (what protobuf guarantees about real descriptors) -/

/-- field numbers are unique within a message, every field names its containing message, and map
    keys are of a scalar kind -/
def MsgDesc.wf (md : MsgDesc) : Bool :=
  decide ((md.fields.map (·.number)).Nodup) && md.fields.all (fun f => f.parent == md.name)
    && md.fields.all (fun f => match f.card with | .map kk => kk.cls.isSome | _ => true)

def Schema.wf (sch : Schema) : Bool := sch.all MsgDesc.wf

end GceTcb.Path
