import GceTcb.Model.Verify
/-
Model of concurrent / successive invocations of SNP validators obtained from
verify.SNPFamilyValidateFunc (C09).  Core-only.

A validator is constructed from a caller-owned `*verify.Options` (shared by every invocation, and by
every validator constructed from the same value).  One thread = construct a validator, then invoke it
on one (attestation, serialized endorsement).  A thread runs as a sequence of ATOMIC steps over
(shared options, thread-local state):

  construct k    the k-th store the CONSTRUCTOR performs through its parameters   (Gen: constructorWrites)
  start          read the report's measurement, size check
  fetch          optional fetch of the endorsement through the getter
  store k        the k-th store the CLOSURE performs through captured variables / parameter pointers
                                                                                  (Gen: closureWrites)
  verify         select the endorsement, certificate chain and signature check (Verify.verifySigned)
  compare        digest and SNP comparison (Verify.afterSignature), reading the measurement from where
                 the code reads it: the per-call copy — unless the write list says the closure stores the
                 measurement into the shared options, in which case it is read back from there
  done r

The two write lists are regenerated from the Go source on every check run; the model is parametric in
them.  A schedule is a list of thread ids; `runSched` interleaves the threads' steps accordingly.
-/
namespace GceTcb.Reentrancy
open GceTcb GceTcb.Verify

/-- go: the store `opts.SNP.Measurement = measurement` (old closure body) -/
def measurementStore : String := "opts.SNP.Measurement"
/-- go: the store `opts.SNP = &SNPOptions{}` when nil (old constructor body) -/
def snpAlloc : String := "opts.SNP"

/-- The caller-shared part of `*verify.Options` that validators could write. -/
structure Shared where
  snp : Option SNPOptions            -- opts.SNP (nil or the pointed-to value)
  others : List (String × Nat)        -- any other shared location: name ↦ (last) writing thread
deriving Repr, DecidableEq

inductive Phase
  | construct (k : Nat)
  | start
  | fetch
  | store (k : Nat)
  | verify
  | compare
  | done (r : Res)
deriving Repr, DecidableEq

structure Local where
  phase : Phase
  m : Bytes                 -- the report's measurement read at `start`
  ser : Option Bytes        -- the serialized endorsement after `fetch`
  golden : Option Golden    -- the verified golden measurement after `verify`
deriving Repr, DecidableEq

/-- One invocation's arguments. -/
structure Call where
  att : Option Attestation
  serialized : Option Bytes
deriving Repr, DecidableEq

/-- What is fixed for a whole run: primitives, family id, the options as the caller configured them,
    and the two regenerated write lists. -/
structure Cfg (Cert Roots Time : Type) where
  P : Prims Cert Roots Time
  familyID : String
  opts : Options Roots Time
  constructorWrites : List String
  closureWrites : List String

section
variable {Cert Roots Time : Type}

/-- Effect of one store on the shared options; `tid` and `m` are the storing thread and its measurement. -/
def applyWrite (w : String) (tid : Nat) (m : Bytes) (sh : Shared) : Shared :=
  if w == measurementStore then
    { sh with snp := some { (sh.snp.getD ⟨none, 0⟩) with measurement := some m } }
  else if w == snpAlloc then
    { sh with snp := some (sh.snp.getD ⟨none, 0⟩) }
  else
    { sh with others := (w, tid) :: sh.others }

/-- Where the comparison reads SNP options from. -/
def snpRead (cfg : Cfg Cert Roots Time) (sh : Shared) (l : Local) : Option SNPOptions :=
  if cfg.closureWrites.contains measurementStore then sh.snp
  else (closureCallOpts cfg.opts l.m).snp

def finish (sh : Shared) (l : Local) (r : Res) : Shared × Local := (sh, { l with phase := .done r })

/-- One atomic step of thread `tid`. -/
def step (cfg : Cfg Cert Roots Time) (tid : Nat) (call : Call) (sh : Shared) (l : Local) : Shared × Local :=
  match l.phase with
  | .construct k =>
    match cfg.constructorWrites[k]? with
    | some w => (applyWrite w tid [] sh, { l with phase := .construct (k + 1) })
    | none => (sh, { l with phase := .start })
  | .start =>
    match call.att with
    | none => finish sh l (reject "nil-attestation")
    | some a =>
      if a.measurement.length != measurementSize then finish sh l (reject "measurement-size")
      else (sh, { l with m := a.measurement, phase := .fetch })
  | .fetch =>
    match closureSerialized cfg.P cfg.familyID cfg.opts l.m call.serialized with
    | .error c => finish sh l (reject c)
    | .ok s => (sh, { l with ser := s, phase := .store 0 })
  | .store k =>
    match cfg.closureWrites[k]? with
    | some w => (applyWrite w tid l.m sh, { l with phase := .store (k + 1) })
    | none => (sh, { l with phase := .verify })
  | .verify =>
    let eo : Option Endorsement :=
      match cfg.opts.endorsement with
      | some e => some e
      | none => cfg.P.unmarshalEndorsement (l.ser.getD [])
    match eo with
    | none => finish sh l (reject "endorsement-unmarshal")
    | some e =>
      match verifySigned cfg.P e cfg.opts with
      | .panic s => finish sh l (.panic s)
      | .err c => finish sh l (.err c)
      | .ok g => (sh, { l with golden := some g, phase := .compare })
  | .compare =>
    finish sh l (afterSignature (l.golden.getD Golden.empty) { cfg.opts with snp := snpRead cfg sh l })
  | .done _ => (sh, l)

structure State (n : Nat) where
  shared : Shared
  locals : Fin n → Local

def initLocal : Local := ⟨.construct 0, [], none, none⟩

def initShared (cfg : Cfg Cert Roots Time) : Shared := ⟨cfg.opts.snp, []⟩

def init (cfg : Cfg Cert Roots Time) (n : Nat) : State n := ⟨initShared cfg, fun _ => initLocal⟩

/-- Thread `i` takes one step. -/
def stepThread {n : Nat} (cfg : Cfg Cert Roots Time) (calls : Fin n → Call) (s : State n) (i : Fin n) : State n :=
  let r := step cfg i.val (calls i) s.shared (s.locals i)
  ⟨r.1, fun j => if j = i then r.2 else s.locals j⟩

/-- Run the threads under schedule `σ`. -/
def runSched {n : Nat} (cfg : Cfg Cert Roots Time) (calls : Fin n → Call) (σ : List (Fin n)) : State n :=
  σ.foldl (stepThread cfg calls) (init cfg n)

def Local.result (l : Local) : Option Res :=
  match l.phase with
  | .done r => some r
  | _ => none

/-- Steps after which an invocation has certainly finished. -/
def fuel (cfg : Cfg Cert Roots Time) : Nat := cfg.constructorWrites.length + cfg.closureWrites.length + 7

/-- Every thread is scheduled often enough to finish. -/
def Complete {n : Nat} (cfg : Cfg Cert Roots Time) (σ : List (Fin n)) : Prop := ∀ i : Fin n, fuel cfg ≤ σ.count i

/-- The result of the invocation run on its own (one thread, same initial options). -/
def runAlone (cfg : Cfg Cert Roots Time) (call : Call) : Option Res :=
  ((runSched cfg (fun (_ : Fin 1) => call) (List.replicate (fuel cfg) 0)).locals 0).result

/-- The results of all threads after schedule `σ`. -/
def results {n : Nat} (cfg : Cfg Cert Roots Time) (calls : Fin n → Call) (σ : List (Fin n)) : Fin n → Option Res :=
  fun i => ((runSched cfg calls σ).locals i).result

end
end GceTcb.Reentrancy
