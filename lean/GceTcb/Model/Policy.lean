import GceTcb.Base.Line
/-
Model of gcetcbendorsement/sevpolicy.go, tdxpolicy.go, of verify.SNP and of the measurement half of
SevValidate / TdxValidate (C02, C17).  Core-only.

Policies are records of the fields the code touches plus an opaque `rest` that stands for every
other field of the go-sev-guest / go-tdx-guest policy protos.  The protobuf decoder, PEM decoding
and the third-party validators are parameters.
-/
namespace GceTcb.Policy
open GceTcb

/-- proto VMSevSnp (fields used by policy derivation and measurement validation). -/
structure SevSnp where
  policy : Nat
  svn : Nat
  measurements : List (Nat × Bytes)     -- Go map launch-VMSA count ↦ measurement (keys unique)
  svsm : Bytes
  caBundle : Bytes
deriving Repr

structure TdxRow where
  ramGib : Nat
  earlyAccept : Bool
  mrtd : Bytes
deriving Repr

/-- go map lookup -/
def mlookup (m : List (Nat × Bytes)) (k : Nat) : Option Bytes :=
  (m.find? (fun p => p.1 == k)).map (·.2)

/-! ### verify.SNP -/

structure SNPOptions where
  measurement : Option Bytes     -- nil slice = none
  vmsas : Nat

/-- go: verify.SNP (after the fix that lets a 1-VMSA launch match either the SVSM measurement or the
    measurement listed for one VMSA). `none` golden = SevSnp field absent. -/
def snp (g : Option SevSnp) (o : SNPOptions) : Bool :=
  match g with
  | none => false
  | some s =>
    if o.vmsas ≠ 0 then
      if s.measurements.isEmpty then false
      else
        let given := o.measurement.getD []
        if o.vmsas == 1 && !s.svsm.isEmpty && s.svsm == given then true
        else
          match mlookup s.measurements o.vmsas with
          | none => false
          | some m => m == given
    else
      match o.measurement with
      | none => true
      | some given => given == s.svsm || s.measurements.any (fun p => p.2 == given)

/-- Measurements the endorsement lists for a named launch-VMSA count (`n ≠ 0`): the table entry for
    `n`, and for a one-VMSA launch also the SVSM measurement. -/
def listedFor (s : SevSnp) (n : Nat) : List Bytes :=
  (match mlookup s.measurements n with | some m => [m] | none => []) ++
  (if n == 1 && !s.svsm.isEmpty then [s.svsm] else [])

def allListed (s : SevSnp) : List Bytes := s.svsm :: s.measurements.map (·.2)

/-! ### SEV policy -/

structure SevPolicy (R : Type) where
  policy : Nat
  measurement : Bytes
  minimumGuestSvn : Nat
  trustedIdKeys : List Bytes
  trustedAuthorKeys : List Bytes
  rest : R

structure SevPolicyOptions (R : Type) where
  base : Option (SevPolicy R)
  launchVmsas : Nat
  overwrite : Bool
  allowUnspecifiedVmsas : Bool

/-- result of `pem.Decode`: block type, block bytes, remaining input -/
abbrev Pem := Bytes → Option (String × Bytes × Bytes)

/-- go: allowBytes -/
def allowBytes (sbytes pbytes : Bytes) : Bool :=
  if pbytes.length ≠ 0 then sbytes == pbytes else true

/-- go: policyModificationAllowed -/
def policyModificationAllowed {R : Type} (s : SevSnp) (p : SevPolicy R) (launchVmsas : Nat) : Bool :=
  if p.policy ≠ 0 && p.policy ≠ s.policy then false
  else if launchVmsas ≠ 0 then
    allowBytes ((mlookup s.measurements launchVmsas).getD []) p.measurement
  else true

/-- the CA-bundle part of go: modifyPolicy -/
def addBundle {R : Type} (pem : Pem) (bundle : Bytes) (p : SevPolicy R) : Option (SevPolicy R) :=
  if bundle.length = 0 then some p
  else
    match pem bundle with
    | none => none
    | some (ty, idBytes, idrest) =>
      if ty ≠ "CERTIFICATE" then none
      else
        let p1 := { p with trustedIdKeys := p.trustedIdKeys ++ [idBytes] }
        if idrest.length = 0 then some p1
        else
          match pem idrest with
          | none => none
          | some (ty2, authBytes, authrest) =>
            if ty2 ≠ "CERTIFICATE" then none
            else if authrest.length ≠ 0 then none
            else some { p1 with trustedAuthorKeys := p1.trustedAuthorKeys ++ [authBytes] }

/-- go: modifyPolicy, guest-policy step: the endorsed policy is written unless overwrite keeps a
    non-zero base policy -/
def setPolicy {R : Type} (s : SevSnp) (p : SevPolicy R) (overwrite : Bool) : SevPolicy R :=
  if !overwrite || p.policy == 0 then { p with policy := s.policy } else p

/-- go: modifyPolicy, measurement step followed by the CA-bundle step -/
def setMeasurement {R : Type} (pem : Pem) (s : SevSnp) (p1 : SevPolicy R) (o : SevPolicyOptions R) :
    Option (SevPolicy R) :=
  if o.launchVmsas = 0 then
    if !o.allowUnspecifiedVmsas then none else addBundle pem s.caBundle p1
  else
    match mlookup s.measurements o.launchVmsas with
    | none => none
    | some meas => addBundle pem s.caBundle { p1 with measurement := meas }

/-- go: modifyPolicy -/
def modifyPolicy {R : Type} (pem : Pem) (s : SevSnp) (p : SevPolicy R) (o : SevPolicyOptions R) :
    Option (SevPolicy R) :=
  if !o.overwrite && !(policyModificationAllowed s p o.launchVmsas) then none
  else if !o.overwrite && (p.minimumGuestSvn ≠ 0 && s.svn < p.minimumGuestSvn) then none
  else setMeasurement pem s (setPolicy s p o.overwrite) o

/-- go: SevPolicy, after unmarshalling (`g = none`: golden has no sev_snp). `dflt` is the default
    policy the code builds when no base is given (its `rest` carries minimum_version "0.0"). -/
def sevPolicy {R : Type} (pem : Pem) (dflt : SevPolicy R) (g : Option SevSnp) (o : SevPolicyOptions R) :
    Option (SevPolicy R) :=
  match g with
  | none => none
  | some s => modifyPolicy pem s (o.base.getD dflt) o

/-! ### TDX policy -/

structure TdQuoteBody (Q : Type) where
  anyMrTd : List Bytes        -- nil slice = []
  restQ : Q

structure TdxPolicy (Q R : Type) where
  body : Option (TdQuoteBody Q)
  rest : R

structure TdxPolicyOptions (Q R : Type) where
  base : Option (TdxPolicy Q R)
  ramGib : Int           -- Go `int`; compared after conversion to uint32
  overwrite : Bool

def mrTdSize : Nat := 48

/-- Go conversion `uint32(x)` of an `int` -/
def u32 (x : Int) : Nat := (x % 4294967296).toNat

/-- go: modifyTdxPolicy. `emptyQ` = zero value of the quote-body policy. -/
def modifyTdxPolicy {Q R : Type} (emptyQ : Q) (p : TdxPolicy Q R) (mrtds : List Bytes) (overwrite : Bool) :
    Option (TdxPolicy Q R) :=
  match p.body with
  | none => some { p with body := some ⟨mrtds, emptyQ⟩ }
  | some b =>
    if !b.anyMrTd.isEmpty && !overwrite then none
    else some { p with body := some { b with anyMrTd := mrtds } }

/-- go: TdxPolicy after unmarshalling (`rows = none`: golden has no tdx), with the fix that refuses
    to derive a policy that would leave the MRTD unchecked: a listed MRTD that is not 48 bytes, or no
    row for the requested RAM size. -/
def tdxPolicy {Q R : Type} (emptyQ : Q) (emptyR : R) (rows : Option (List TdxRow)) (o : TdxPolicyOptions Q R) :
    Option (TdxPolicy Q R) :=
  match rows with
  | none => none
  | some rs =>
    let sel := rs.filter (fun m => o.ramGib == 0 || m.ramGib == u32 o.ramGib)
    if sel.any (fun m => m.mrtd.length ≠ mrTdSize) then none
    else if sel.isEmpty then none
    else modifyTdxPolicy emptyQ (o.base.getD ⟨none, emptyR⟩) (sel.map (·.mrtd)) o.overwrite

/-! ### third-party validator contracts (from the pinned sources) -/

/-- go-tdx-guest validate.byteCheck on the MRTD field -/
def byteCheck (given required : Bytes) : Bool :=
  if required.length = 0 then true
  else if required.length ≠ mrTdSize then false
  else required == given

/-- go-tdx-guest validate.byteCheckAny -/
def byteCheckAny (given : Bytes) (allowed : List Bytes) : Bool :=
  if allowed.isEmpty then true else allowed.any (byteCheck given)

/-- go-tdx-guest checkOptionsLengths for any_mr_td -/
def lengthCheckMany (allowed : List Bytes) : Bool :=
  allowed.all (fun v => v.length = 0 || v.length = mrTdSize)

/-- go-sev-guest validateByteField for MEASUREMENT: unchecked when the option is empty -/
def sevMeasurementCheck (reportMeas policyMeas : Bytes) : Bool :=
  if policyMeas.length = 0 then true else policyMeas == reportMeas

/-! ### measurement half of the validate entry points -/

/-- the measurement-relevant part of the SNP validator closure + EndorsementProto tail:
    48-byte gate, expected firmware digest, verify.SNP -/
def closureMeasurement (g : Option SevSnp) (goldenDigest expectedDigest reportMeas : Bytes) (vmsas : Nat) : Bool :=
  if reportMeas.length ≠ 48 then false
  else if expectedDigest.length ≠ 0 && expectedDigest != goldenDigest then false
  else snp g ⟨some reportMeas, vmsas⟩

/-- go: SevValidate, measurement path: derive the policy, go-sev-guest compares the report with the
    policy measurement, then the required certificate-table validator runs the closure.
    `otherChecks` stands for everything else go-sev-guest validates. -/
def sevValidateMeasurement {R : Type} (pem : Pem) (dflt : SevPolicy R) (g : Option SevSnp)
    (goldenDigest reportMeas : Bytes) (base : Option (SevPolicy R)) (overwrite : Bool) (vmsas : Nat)
    (otherChecks : Bool) : Bool :=
  match sevPolicy pem dflt g ⟨base, vmsas, overwrite, true⟩ with
  | none => false
  | some p =>
    otherChecks && sevMeasurementCheck reportMeas p.measurement &&
      closureMeasurement g goldenDigest [] reportMeas vmsas

/-- go: TdxValidate, measurement path -/
def tdxValidateMeasurement {Q R : Type} (emptyQ : Q) (emptyR : R) (rows : Option (List TdxRow))
    (quoteMrtd : Bytes) (base : Option (TdxPolicy Q R)) (overwrite : Bool) (ramGib : Int)
    (otherChecks : Bool) : Bool :=
  match tdxPolicy emptyQ emptyR rows ⟨base, ramGib, overwrite⟩ with
  | none => false
  | some p =>
    let allowed := (p.body.map (·.anyMrTd)).getD []
    otherChecks && lengthCheckMany allowed && byteCheckAny quoteMrtd allowed

end GceTcb.Policy
