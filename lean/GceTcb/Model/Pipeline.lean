import GceTcb.Model.Policy
/-
Model of the sign → store → verify pipeline over key histories (C03): rotate.Bootstrap / rotate.Key at the
level of which key certifies which, endorse.SignDoc, verify.EndorsementProto.  Core-only.

Keys are abstract identifiers; a certificate is the record of who certified whom and when.  RSA-PSS,
X.509 path validation and protobuf (un)marshalling are fields of `Prims`; the laws a theorem needs are
explicit hypotheses (`Laws`), never axioms.
-/
namespace GceTcb.Pipeline
open GceTcb GceTcb.Policy

structure Cert where
  subject : Nat        -- key whose public half is certified
  issuer : Nat         -- key that signed the certificate
  notBefore : Nat      -- unix seconds
  notAfter : Nat
  isCA : Bool
deriving Repr, DecidableEq

def Cert.valid (c : Cert) (t : Nat) : Prop := c.notBefore ≤ t ∧ t ≤ c.notAfter

structure Golden where
  digest : Bytes
  clSpec : Nat
  commit : Bytes
  timestamp : Nat
  cert : Option Cert
  sev : Option SevSnp
  tdx : Option (List TdxRow)

/-- `β` is the wire type of the serialized golden measurement (an opaque byte string). -/
structure Endorsement (β : Type) where
  payload : β
  signature : Bytes

structure Prims (β : Type) where
  marshal : Golden → β
  unmarshal : β → Option Golden
  sign : Nat → β → Bytes                          -- PSS / SHA-256 / salt 32 by the named key
  checkSig : Nat → β → Bytes → Bool               -- under the public half of the named key
  verifyChain : Cert → List Cert → Nat → Bool     -- x509 Verify against a root pool at a time

/-- The contracts of the third-party code the pipeline relies on. -/
structure Laws {β : Type} (P : Prims β) : Prop where
  sig_ok : ∀ k m, P.checkSig k m (P.sign k m) = true
  unmarshal_marshal : ∀ g, P.unmarshal (P.marshal g) = some g
  chain_ok : ∀ (c r : Cert) (now : Nat), c.issuer = r.subject → r.issuer = r.subject → r.isCA = true →
    r.valid now → c.valid now → P.verifyChain c [r] now = true

/-- Certificate-authority state: root, primary signing key and their certificates. -/
structure CA where
  rootKey : Nat
  root : Cert
  primaryKey : Nat
  primary : Cert
  nextKey : Nat
deriving Repr

/-- lifetimes in seconds, from sign/types (regenerated into Gen.C03Consts and passed in) -/
structure Lifetimes where
  rootValid : Nat
  signValid : Nat

/-- go: rotate.Bootstrap at time `t` -/
def bootstrap (L : Lifetimes) (t : Nat) : CA :=
  { rootKey := 0, root := ⟨0, 0, t, t + L.rootValid, true⟩,
    primaryKey := 1, primary := ⟨1, 0, t, t + L.signValid, false⟩, nextKey := 2 }

/-- go: rotate.Key at time `t`: a fresh key certified by the unchanged root becomes primary -/
def rotate (L : Lifetimes) (ca : CA) (t : Nat) : CA :=
  { ca with primaryKey := ca.nextKey, primary := ⟨ca.nextKey, ca.rootKey, t, t + L.signValid, false⟩,
            nextKey := ca.nextKey + 1 }

def history (L : Lifetimes) (t0 : Nat) (rots : List Nat) : CA := rots.foldl (rotate L) (bootstrap L t0)

structure Request where
  digest : Bytes
  clSpec : Nat
  commit : Bytes
  timestamp : Nat
  sev : Option SevSnp
  tdx : Option (List TdxRow)

/-- go: endorse.SignDoc — certificate and timestamp are filled in, the document is marshalled once,
    and that byte string is both signed and stored. -/
def endorse {β : Type} (P : Prims β) (ca : CA) (r : Request) : Endorsement β :=
  let payload := P.marshal ⟨r.digest, r.clSpec, r.commit, r.timestamp, some ca.primary, r.sev, r.tdx⟩
  ⟨payload, P.sign ca.primaryKey payload⟩

structure VerifyOptions where
  roots : Option (List Cert)
  now : Nat
  expectedDigest : Bytes := []
  snp : Option SNPOptions := none

/-- go: verify.EndorsementProto. `changeDate` = verify.uefiReleaseChangeDate (unix seconds). -/
def verifyEndorsement {β : Type} (P : Prims β) (changeDate : Nat) (e : Endorsement β) (o : VerifyOptions) : Bool :=
  match P.unmarshal e.payload with
  | none => false
  | some g =>
    if g.timestamp > changeDate && g.clSpec == 0 && g.commit.isEmpty then false
    else
      match g.cert, o.roots with
      | none, _ => false
      | some _, none => false
      | some c, some roots =>
        if !(P.verifyChain c roots o.now) then false
        else if !(P.checkSig c.subject e.payload e.signature) then false
        else if !o.expectedDigest.isEmpty && o.expectedDigest != g.digest then false
        else
          match o.snp with
          | none => true
          | some so => snp g.sev so

/-- go: gcetcbendorsement.InspectPayload / InspectSignature in raw form; InspectMask "cert" -/
def inspectPayload {β : Type} (e : Endorsement β) : β := e.payload
def inspectSignature {β : Type} (e : Endorsement β) : Bytes := e.signature
def inspectCert {β : Type} (P : Prims β) (e : Endorsement β) : Option Cert := (P.unmarshal e.payload).bind (·.cert)

def hasProvenance (r : Request) : Prop := r.clSpec ≠ 0 ∨ r.commit ≠ []

/-- Reference instance used by the driver and as the non-vacuity witness of `Laws`: the identity wire
    format, a signature that records its signer, and two-level path validation with inclusive
    validity bounds (what crypto/x509 does for a leaf issued directly by a self-signed CA root). -/
def refPrims : Prims Golden where
  marshal := id
  unmarshal := some
  sign := fun k _ => [UInt8.ofNat k]
  checkSig := fun k _ s => s == [UInt8.ofNat k]
  verifyChain := fun c roots now =>
    roots.any (fun r => c.issuer == r.subject && r.issuer == r.subject && r.isCA &&
      decide (r.notBefore ≤ now) && decide (now ≤ r.notAfter) && decide (c.notBefore ≤ now) && decide (now ≤ c.notAfter))

end GceTcb.Pipeline
