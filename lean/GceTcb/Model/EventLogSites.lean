import GceTcb.Model.EventLogCost
/-
C07 (event-log half) — what Model/EventLogCost.lean accounts for in the source, item by item.  Core-only, data only.

Each table below is written by hand next to the model and is compared, on every check run, with the table
the extractor regenerates from the Go source (extract/xc07evl.go → Gen/PanicSitesEvl.lean, Gen/EvlConsts.lean):
`C07_evl_funcs`, `C07_evl_sites`, `C07_evl_consts`, `C07_evl_factories`, `C07_evl_widths`, `C07_evl_libcalls`,
`C07_evl_guards`, `C07_evl_shape` in Props/C07Evl.lean.  A new function
reachable from a decoder, a new index / slice / make / append / assertion / conversion / dereference / dynamic
call, a changed struct size or constant, a new event factory, a new library call, a changed guard or a changed
line of readExact changes the regenerated table and breaks the obligation before any input is found.
-/
namespace GceTcb.EvlCost

/-- how the model accounts for a site of the regenerated inventory -/
inductive How
  | checked                  -- an explicit checked operation of the model carries this site's name
  | guarded (why : String)   -- an explicit test precedes it on every path; the model has the test as a branch
  | nonnil (why : String)    -- the pointer / interface was allocated or assigned by the decoder itself just before
  | total (why : String)     -- cannot panic at this place whatever the input (and, for `append`, where its cost is charged)
  | caller (why : String)    -- a pointer / interface the CALLER owns (the io.Reader, the options): not data of the peer
deriving Repr, DecidableEq

structure Site where
  fn : String
  ord : Nat
  kind : String
  text : String
  how : How
deriving Repr, DecidableEq

def Site.key (s : Site) : String × Nat × String × String := (s.fn, s.ord, s.kind, s.text)

/-- the name the checked operation of the model carries -/
def Site.name (s : Site) : String := s!"{s.fn}#{s.ord}:{s.kind}"

def callerReader : How := .caller "the io.Reader the caller hands to Unmarshal"
def fromUnmarshal : How := .nonnil "element of CryptoAgileLog.Events: the &TCGPCREvent2{} Unmarshal appended (allocs)"
def fromFactory : How := .nonnil "result of the comma-ok assertion to *SP800155Event3: the pointer the factory allocated (eventFactoryTypes)"

def modelledSites : List Site := [
  ⟨"eventlog.TCGEventData.Unmarshal", 1, "slice", "chunk[:EventSignatureSize]", .checked⟩,
  ⟨"eventlog.TCGEventData.Unmarshal", 2, "icall", "factory", .guarded "`if !ok` after the map lookup; every value of eventFactories is a function literal (eventFactoryTypes)"⟩,
  ⟨"eventlog.TCGEventData.Unmarshal", 3, "icall", "d.Event.UnmarshalFromBytes", .nonnil "d.Event = factory() one line above: &SP800155Event3{}"⟩,
  ⟨"eventlog.TCGEventData.Unmarshal", 4, "slice", "chunk[EventSignatureSize:]", .checked⟩,
  ⟨"eventlog.TCGPCClientPCREvent.Unmarshal", 1, "icall", "r.Read", callerReader⟩,
  ⟨"eventlog.TCGPCClientPCREvent.Unmarshal", 2, "slice", "e.SHA1Digest[:]", .total "full slice of an array"⟩,
  ⟨"eventlog.CryptoAgileLog.Unmarshal", 1, "append", "append(cel.Events, evt)", .total "growth charged by xReadLog: rt.appendPtr (eventsRead …), at most |b|/16 elements (C07_evl_events_read_bound)"⟩,
  ⟨"eventlog.countingReader.Read", 1, "icall", "c.r.Read", callerReader⟩,
  ⟨"eventlog.TaggedDigest.Unmarshal", 1, "make", "make([]byte, algSize)", .checked⟩,
  ⟨"eventlog.TaggedDigest.Unmarshal", 2, "icall", "r.Read", callerReader⟩,
  ⟨"eventlog.ByteSizedCStr.Unmarshal", 1, "index", "data[len(data) - 1]", .checked⟩,
  ⟨"eventlog.ByteSizedCStr.Unmarshal", 2, "slice", "data[:len(data) - 1]", .checked⟩,
  ⟨"eventlog.sizeValue", 1, "deref", "*s", .nonnil "case *byte of the type switch over the &size of ByteSizedCStr.Unmarshal"⟩,
  ⟨"eventlog.sizeValue", 2, "deref", "*s", .nonnil "case *uint32 of the type switch over the &size of Uint32SizedArray.Unmarshal"⟩,
  ⟨"eventlog.readExact", 1, "make", "make([]byte, capacity)", .checked⟩,
  ⟨"eventlog.readExact", 2, "slice", "buf[read:]", .checked⟩,
  ⟨"eventlog.readExact", 3, "conv", "uint64(read)", .total "read is a sum of byte counts: never negative"⟩,
  ⟨"eventlog.readExact", 4, "conv", "uint64(len(buf))", .total "a length: never negative"⟩,
  ⟨"eventlog.readExact", 5, "make", "make([]byte, capacity)", .checked⟩,
  ⟨"eventlog.Uint32SizedArrayT.Unmarshal", 1, "assert", "elem.Create().(T)", .total "the only instantiation is T = *TaggedDigest (fixedFields) and (*TaggedDigest).Create returns a *TaggedDigest (allocs)"⟩,
  ⟨"eventlog.Uint32SizedArrayT.Unmarshal", 2, "icall", "elem.Create", .total "static dispatch to (*TaggedDigest).Create, which does not touch its nil receiver"⟩,
  ⟨"eventlog.Uint32SizedArrayT.Unmarshal", 3, "icall", "elem.Unmarshal", .nonnil "elem = Create().(T) one line above: &TaggedDigest{}"⟩,
  ⟨"eventlog.Uint32SizedArrayT.Unmarshal", 4, "append", "append(d.Array, elem)", .total "growth charged by xReadDigestArray: rt.appendPtr (digestsRead …), one element per 22 bytes read"⟩,
  ⟨"eventlog.readSizedArray", 1, "deref", "*data", .nonnil "&data / &b.Data of the two callers"⟩,
  ⟨"eventlog.littleRead", 1, "icall", "um.Unmarshal", .guarded "result of the comma-ok assertion `data.(Unmarshallable)`; every caller passes the address of a field or local"⟩,
  ⟨"eventlog.EfiGUID.Unmarshal", 1, "icall", "r.Read", callerReader⟩,
  ⟨"eventlog.EfiGUID.Unmarshal", 2, "slice", "efiguid[:]", .total "full slice of an array"⟩,
  ⟨"eventlog.EfiGUID.Unmarshal", 3, "slice", "efiguid[:]", .total "full slice of an array"⟩,
  ⟨"exel.ucs2toUTF8", 1, "icall", "e.NewDecoder", .nonnil "unicode.UTF16 returns a non-nil Encoding"⟩,
  ⟨"exel.ucs2toUTF8", 2, "index", "utf8encoding[len(utf8encoding) - 1]", .checked⟩,
  ⟨"exel.ucs2toUTF8", 3, "slice", "utf8encoding[:len(utf8encoding) - 1]", .guarded "the index at site 2 succeeded: len ≥ 1"⟩,
  ⟨"exel.EfiVarFSReader.ReadVariable", 1, "slice", "contents[4:]", .checked⟩,
  ⟨"exel.variableLocatorDecode", 1, "slice", "loc[:16]", .checked⟩,
  ⟨"exel.variableLocatorDecode", 2, "slice", "loc[16:]", .checked⟩,
  ⟨"exel.variableLocatorDecode", 3, "index", "name[len(name) - 1]", .checked⟩,
  ⟨"exel.variableLocatorDecode", 4, "index", "name[len(name) - 2]", .checked⟩,
  ⟨"exel.Locate", 1, "deref", "opts.Getter", .caller "opts is the caller's *LocateOptions (fromEventLog passes a fresh &exel.LocateOptions{…}: allocs)"⟩,
  ⟨"exel.Locate", 2, "icall", "opts.Getter.Get", .guarded "`if opts.Getter == nil` returns ErrLocateGetterNil"⟩,
  ⟨"exel.Locate", 3, "deref", "opts.Getter", .caller "as site 1"⟩,
  ⟨"exel.Locate", 4, "deref", "opts.UEFIVariableReader", .caller "as site 1"⟩,
  ⟨"exel.Locate", 5, "icall", "opts.UEFIVariableReader.ReadVariable", .guarded "`if opts.UEFIVariableReader == nil` returns ErrLocateVariableReaderNil (repaired: before, a configuration without a variable reader panicked here as soon as the untrusted log selected a variable locator)"⟩,
  ⟨"exel.Locate", 6, "deref", "opts.UEFIVariableReader", .caller "as site 1"⟩,
  ⟨"exel.RIMEventsFromEventLog", 1, "deref", "el.Events", .caller "the log the caller passes (fromEventLog: the non-nil result of elFromFile)"⟩,
  ⟨"exel.RIMEventsFromEventLog", 2, "deref", "evt.EventType", fromUnmarshal⟩,
  ⟨"exel.RIMEventsFromEventLog", 3, "deref", "evt.EventData", fromUnmarshal⟩,
  ⟨"exel.RIMEventsFromEventLog", 4, "deref", "evt.EventData", fromUnmarshal⟩,
  ⟨"exel.RIMEventsFromEventLog", 5, "mapwrite", "result[sp800155.RIMLocatorType]", .total "result was made at the top of the function"⟩,
  ⟨"exel.RIMEventsFromEventLog", 6, "deref", "sp800155.RIMLocatorType", fromFactory⟩,
  ⟨"exel.RIMEventsFromEventLog", 7, "append", "append(result[sp800155.RIMLocatorType], sp800155)", .total "one element per event of the parsed log (selectTicks)"⟩,
  ⟨"exel.RIMEventsFromEventLog", 8, "deref", "sp800155.RIMLocatorType", fromFactory⟩,
  ⟨"extract.Options.fromEventLog", 1, "deref", "evt.FirmwareManufacturerStr", fromFactory⟩,
  ⟨"extract.Options.fromEventLog", 2, "deref", "evt.RIMLocatorType", fromFactory⟩,
  ⟨"extract.Options.fromEventLog", 3, "deref", "evt.RIMLocator", fromFactory⟩]

/-- the names the checked operations of Model/EventLogCost.lean (and, for ucs2toUTF8, its wrapper of C16's
    model) carry -/
def checkedNames : List String := (modelledSites.filter (fun s => s.how == .checked)).map Site.name

/-- The functions reachable from the decoder entry points and the definition that models each
    (`=` : inlined in the caller's model; `-` : no data-dependent behaviour to model). -/
def modelledFuncs : List (String × String) := [
  ("eventlog.UnknownEvent.UnmarshalFromBytes", "= xReadEventData (.raw chunk)"),
  ("eventlog.TCGEventData.Unmarshal", "xReadEventData"),
  ("eventlog.TCGPCClientPCREvent.Unmarshal", "xReadPcrEvent"),
  ("eventlog.TCGPCREvent2.Unmarshal", "xReadEvent2"),
  ("eventlog.TCGPCREvent2.Create", "- (not called by the decoders: reached by name only)"),
  ("eventlog.CryptoAgileLog.Unmarshal", "xReadLog / xReadEvents"),
  ("eventlog.countingReader.Read", "= xReadEvents (`cr.n == 0` ⇔ nothing remained)"),
  ("eventlog.SP800155Event3.UnmarshalFromBytes", "xUnmarshalEvent3 / xReadEvent3Fields"),
  ("eventlog.TaggedDigest.Unmarshal", "xReadDigest"),
  ("eventlog.TaggedDigest.Create", "= xReadDigests (charge sizeofTaggedDigest)"),
  ("eventlog.ByteSizedCStr.Unmarshal", "xReadCStr"),
  ("eventlog.ByteSizedCStr.Create", "- (reached by name only)"),
  ("eventlog.Uint32SizedArray.Create", "- (reached by name only)"),
  ("eventlog.Uint32SizedArray.Unmarshal", "xReadU32Array"),
  ("eventlog.sizeValue", "= xReadSizedArray (the prefix width `w`)"),
  ("eventlog.readExact", "xReadExact / exactLoop / nextLen"),
  ("eventlog.Uint32SizedArrayT.Create", "- (reached by name only)"),
  ("eventlog.Uint32SizedArrayT.Unmarshal", "xReadDigestArray / xReadDigests"),
  ("eventlog.readSizedArray", "xReadSizedArray"),
  ("eventlog.littleRead", "= xReadLE / the field readers (error wrapping `%w`: Res.eof is kept)"),
  ("eventlog.EfiGUID.Unmarshal", "xReadGuid"),
  ("eventlog.EfiGUID.Create", "- (reached by name only)"),
  ("exel.validateUCS2Codepoints", "= Extract.ucs2toUTF8 (code points above U+FFFF)"),
  ("exel.ucs2toUTF8", "xUcs2toUTF8"),
  ("exel.EfiVarFSReader.varBasename", "= xLocateReq (.variable … basename); the path join is C16's"),
  ("exel.EfiVarFSReader.ReadVariable", "xEfiVarContents"),
  ("exel.variableLocatorDecode", "xVariableLocatorDecode"),
  ("exel.Locate", "xLocateReq"),
  ("exel.RIMEventsFromEventLog", "rimsOf"),
  ("extract.elFromFile", "= xFromEventLog (xReadLog on the file's bytes)"),
  ("extract.Options.fromEventLog", "xFromEventLog / selectRim")]

/-- calls into other packages of the repository, and what the model puts in their place -/
def modelledExternalCalls : List (String × String) := [
  ("eventlog.EfiGUID.Unmarshal", "abi.FromEFIGUID"),           -- uuidRec.ofVals ∘ decF (C18's codec, 16 bytes exactly)
  ("exel.variableLocatorDecode", "abi.FromEFIGUID")]           -- Extract.efiSwap (loc.take 16)

/-- every `&T{…}` / `new(T)` / in-memory reader constructor in scope with the bytes it allocates: the sizes are
    the constants the cost model charges (0-cost entries: not on a path the cost theorems cover, or — the `Create`
    methods — charged where they are called) -/
def modelledAllocs : List (String × String × Nat) := [
  ("eventlog.TCGEventData.Unmarshal", "&UnknownEvent{…}", sizeofUnknownEvent),
  ("eventlog.TCGEventData.Unmarshal", "&UnknownEvent{…}", sizeofUnknownEvent),
  ("eventlog.TCGPCREvent2.Create", "&TCGPCREvent2{}", sizeofTCGPCREvent2),
  ("eventlog.CryptoAgileLog.Unmarshal", "&TCGPCREvent2{}", sizeofTCGPCREvent2),
  ("eventlog.CryptoAgileLog.Unmarshal", "&countingReader{…}", sizeofCountingReader),
  ("eventlog.SP800155Event3.UnmarshalFromBytes", "bytes.NewBuffer(data)", sizeofBytesBuffer),
  ("eventlog.TaggedDigest.Create", "&TaggedDigest{}", sizeofTaggedDigest),
  ("eventlog.ByteSizedCStr.Create", "&ByteSizedCStr{}", 16),
  ("eventlog.Uint32SizedArray.Create", "&Uint32SizedArray{}", 24),
  ("eventlog.Uint32SizedArrayT.Create", "&Uint32SizedArrayT[T]{}", 24),
  ("eventlog.EfiGUID.Create", "&EfiGUID{}", 16),
  ("exel.validateUCS2Codepoints", "bytes.NewBuffer(utf8encoding)", sizeofBytesBuffer),
  ("extract.elFromFile", "&eventlog.CryptoAgileLog{}", 72),
  ("extract.Options.fromEventLog", "&exel.LocateOptions{…}", 32)]

/-- the registry of TCGEventData.Unmarshal: one factory, keyed by the Event3 signature, allocating an
    SP800155Event3; the registry is only read, in TCGEventData.Unmarshal (production state: nothing registers) -/
def modelledFactoryKeys : List (List Nat) := [EventLog.event3Signature.map UInt8.toNat]
def modelledFactoryTypes : List (String × Nat) := [("&SP800155Event3{}", sizeofSP800155Event3)]
def modelledFactoryUses : List (String × String) :=
  [("eventlog.TCGEventData.Unmarshal", "factory, ok := eventFactories[signatureKey]")]

/-- width of the size prefix / count each reader reads (the `w` of xReadSizedArray, the `xReadLE 4` of the others) -/
def modelledPrefixWidths : List (String × Nat) :=
  [("eventlog.TCGEventData.Unmarshal", 4), ("eventlog.ByteSizedCStr.Unmarshal", 1),
   ("eventlog.Uint32SizedArray.Unmarshal", 4), ("eventlog.Uint32SizedArrayT.Unmarshal", 4)]

/-- fields of the two PCR event structures in declaration order (fixed widths; 0 = variable-size) -/
def modelledFixedFields : List (String × String × Nat) :=
  [("TCGPCClientPCREvent", "PCRIndex", 4), ("TCGPCClientPCREvent", "EventType", 4), ("TCGPCClientPCREvent", "SHA1Digest", 20),
   ("TCGPCClientPCREvent", "EventData:TCGEventData", 0),
   ("TCGPCREvent2", "PCRIndex", 4), ("TCGPCREvent2", "EventType", 4),
   ("TCGPCREvent2", "Digests:Uint32SizedArrayT[*TaggedDigest]", 0), ("TCGPCREvent2", "EventData:TCGEventData", 0)]

/-- the least number of bytes an accepted TCGPCREvent2 occupies: its fixed fields and the two prefixes
    (what `C07_evl_event_consumes` proves of the model) -/
def minEvent2Size (fields : List (String × String × Nat)) (prefixes : List (String × Nat)) : Nat :=
  ((fields.filter (fun f => f.1 == "TCGPCREvent2")).map (fun f => f.2.2)).sum +
    (prefixes.lookup "eventlog.Uint32SizedArrayT.Unmarshal").getD 0 + (prefixes.lookup "eventlog.TCGEventData.Unmarshal").getD 0

/-- the EFI_GUID scratch of EfiGUID.Unmarshal (`xReadFull 16 16`) -/
def modelledLocalArrays : List (String × String × Nat) := [("eventlog.EfiGUID.Unmarshal", "efiguid", 16)]

/-- the body of eventlog.readExact, line by line as go/printer prints it: `xReadExact` (size 0; first buffer
    `min size maxPrealloc`), `exactLoop` (one io.ReadFull per iteration into buf[read:]; error ⇒ short; complete ⇒
    full; otherwise a new buffer) and `nextLen` (`2 * len`, capped at `want`) were written from these lines -/
def readExactShape : List String := [
  "{",
  "if size == 0 {",
  "return nil, 0, nil",
  "}",
  "want := uint64(size)",
  "capacity := want",
  "if capacity > maxPrealloc {",
  "capacity = maxPrealloc",
  "}",
  "buf := make([]byte, capacity)",
  "read := 0",
  "for {",
  "n, err := io.ReadFull(r, buf[read:])",
  "read += n",
  "if err == io.EOF && read > 0 {",
  "err = io.ErrUnexpectedEOF",
  "}",
  "if err != nil {",
  "return nil, read, err",
  "}",
  "if uint64(read) == want {",
  "return buf, read, nil",
  "}",
  "capacity = 2 * uint64(len(buf))",
  "if capacity > want {",
  "capacity = want",
  "}",
  "grown := make([]byte, capacity)",
  "copy(grown, buf)",
  "buf = grown",
  "}",
  "}"]

/-- how the cost model treats a call that leaves the three packages -/
inductive Cost
  | charged (what : String)   -- allocation and/or ticks of the call are part of `Step.alloc` / `Step.ticks`
  | errPath                   -- formats an error message on a path that returns at once (not modelled; metered)
  | free (why : String)       -- allocates nothing that depends on the input
  | metered (why : String)    -- outside the model; covered by the harness's allocation meter and deadline only
  | param (why : String)      -- a parameter of the model (the outside world)
deriving Repr, DecidableEq

def modelledLibCalls : List (String × String × Nat × Cost) := [
  ("eventlog.TCGEventData.Unmarshal", "binary.Read", 1, .charged "xReadLE 4: 4-byte scratch, 1 tick"),
  ("eventlog.TCGEventData.Unmarshal", "fmt.Errorf", 1, .errPath),
  ("eventlog.TCGEventData.Unmarshal", "hex.EncodeToString", 1, .charged "hexKeyAlloc"),
  ("eventlog.TCGPCClientPCREvent.Unmarshal", "io.Reader.Read", 1, .charged "xReadFull 0 20: into the struct, 1 tick"),
  ("eventlog.TCGPCClientPCREvent.Unmarshal", "fmt.Errorf", 1, .errPath),
  ("eventlog.CryptoAgileLog.Unmarshal", "errors.Is", 1, .free "walks the chain of at most five wrapped errors"),
  ("eventlog.CryptoAgileLog.Unmarshal", "fmt.Errorf", 1, .errPath),
  ("eventlog.countingReader.Read", "io.Reader.Read", 1, .charged "the tick of the read it forwards"),
  ("eventlog.SP800155Event3.UnmarshalFromBytes", "bytes.NewBuffer", 1, .charged "sizeofBytesBuffer"),
  ("eventlog.SP800155Event3.UnmarshalFromBytes", "io.ReadAll", 1, .charged "rt.readAll (Runtime.Lawful: ≤ 8n + 1024)"),
  ("eventlog.SP800155Event3.UnmarshalFromBytes", "fmt.Errorf", 1, .errPath),
  ("eventlog.TaggedDigest.Unmarshal", "fmt.Errorf", 2, .errPath),
  ("eventlog.TaggedDigest.Unmarshal", "io.Reader.Read", 1, .charged "xReadFull 0 sz: into the slice made at site 1, 1 tick"),
  ("eventlog.ByteSizedCStr.Unmarshal", "fmt.Errorf", 1, .errPath),
  ("eventlog.sizeValue", "fmt.Errorf", 1, .errPath),
  ("eventlog.readExact", "io.ReadFull", 1, .charged "one tick per iteration of exactLoop"),
  ("eventlog.Uint32SizedArrayT.Unmarshal", "binary.Read", 1, .charged "xReadLE 4"),
  ("eventlog.Uint32SizedArrayT.Unmarshal", "fmt.Errorf", 2, .errPath),
  ("eventlog.readSizedArray", "binary.Read", 1, .charged "xReadLE w"),
  ("eventlog.readSizedArray", "fmt.Errorf", 1, .errPath),
  ("eventlog.littleRead", "binary.Read", 1, .charged "xReadLE n"),
  ("eventlog.littleRead", "fmt.Errorf", 1, .errPath),
  ("eventlog.EfiGUID.Unmarshal", "io.Reader.Read", 1, .charged "xReadFull 16 16: the escaping scratch array"),
  ("eventlog.EfiGUID.Unmarshal", "fmt.Errorf", 1, .errPath),
  ("eventlog.EfiGUID.Unmarshal", "abi.FromEFIGUID", 1, .free "returns a 16-byte array by value"),
  ("exel.validateUCS2Codepoints", "bytes.NewBuffer", 1, .metered "ucs2Ticks counts the runes; allocation not modelled"),
  ("exel.validateUCS2Codepoints", "*bytes.Buffer.ReadRune", 1, .charged "ucs2Ticks: one per rune"),
  ("exel.validateUCS2Codepoints", "fmt.Errorf", 2, .errPath),
  ("exel.ucs2toUTF8", "unicode.UTF16", 1, .free "constructs the decoder"),
  ("exel.ucs2toUTF8", "transform.Bytes", 1, .metered "x/text's UTF-16 decoder: value modelled (Extract.decodeUtf16), cost metered"),
  ("exel.ucs2toUTF8", "encoding.Encoding.NewDecoder", 1, .free "constructs the decoder"),
  ("exel.ucs2toUTF8", "fmt.Errorf", 1, .errPath),
  ("exel.EfiVarFSReader.varBasename", "securejoin.SecureJoin", 1, .param "Extract.Env.secureJoin (C16)"),
  ("exel.EfiVarFSReader.varBasename", "fmt.Sprintf", 1, .metered "the basename once plus a 36-byte GUID"),
  ("exel.EfiVarFSReader.varBasename", "fmt.Errorf", 1, .errPath),
  ("exel.EfiVarFSReader.ReadVariable", "os.ReadFile", 1, .param "the file's contents are the input of xEfiVarContents"),
  ("exel.EfiVarFSReader.ReadVariable", "fmt.Errorf", 1, .errPath),
  ("exel.variableLocatorDecode", "fmt.Errorf", 3, .errPath),
  ("exel.variableLocatorDecode", "abi.FromEFIGUID", 1, .free "returns a 16-byte array by value"),
  ("exel.Locate", "trust.HTTPSGetter.Get", 1, .param "the getter is asked for exactly the locator bytes (LocateReq.uri)"),
  ("exel.Locate", "fmt.Errorf", 1, .errPath),
  ("extract.elFromFile", "os.Open", 1, .param "the event-log file"),
  ("extract.elFromFile", "fmt.Errorf", 2, .errPath),
  ("extract.elFromFile", "*os.File.Close", 1, .free "deferred close"),
  ("extract.Options.fromEventLog", "fmt.Errorf", 1, .errPath)]

/-- the `[]byte <-> string` conversions in scope (each copies its operand) -/
def modelledStringConvs : List (String × String) := [
  ("eventlog.ByteSizedCStr.Unmarshal", "string(data[:len(data) - 1])"),   -- xReadCStr: charge (data.length - 1)
  ("exel.ucs2toUTF8", "string(utf8encoding)"),                              -- result of xUcs2toUTF8; metered
  ("exel.Locate", "string(loc)")]                                           -- LocateReq.uri; metered

/-- the control skeleton: every if-condition other than a bare `err != nil`, every for-condition, range operand,
    switch tag and case of the functions in scope, in source order — the branches the model has -/
def modelledGuards : List (String × String) := [
  ("eventlog.TCGEventData.Unmarshal", "if size >= EventSignatureSize"),
  ("eventlog.TCGEventData.Unmarshal", "if !ok"),
  ("eventlog.TCGPCClientPCREvent.Unmarshal", "if err != nil || i != 20"),
  ("eventlog.CryptoAgileLog.Unmarshal", "for"),
  ("eventlog.CryptoAgileLog.Unmarshal", "if errors.Is(err, io.EOF)"),
  ("eventlog.CryptoAgileLog.Unmarshal", "if cr.n == 0"),
  ("eventlog.SP800155Event3.UnmarshalFromBytes", "range rest"),
  ("eventlog.SP800155Event3.UnmarshalFromBytes", "if r != 0"),
  ("eventlog.TaggedDigest.Unmarshal", "if !ok"),
  ("eventlog.TaggedDigest.Unmarshal", "if err != nil || n != int(algSize)"),
  ("eventlog.ByteSizedCStr.Unmarshal", "if len(data) == 0 || data[len(data) - 1] != 0"),
  ("eventlog.sizeValue", "case *byte"),
  ("eventlog.sizeValue", "case *uint32"),
  ("eventlog.readExact", "if size == 0"),
  ("eventlog.readExact", "if capacity > maxPrealloc"),
  ("eventlog.readExact", "for"),
  ("eventlog.readExact", "if err == io.EOF && read > 0"),
  ("eventlog.readExact", "if uint64(read) == want"),
  ("eventlog.readExact", "if capacity > want"),
  ("eventlog.Uint32SizedArrayT.Unmarshal", "for i < size"),
  ("eventlog.littleRead", "if ok"),
  ("eventlog.EfiGUID.Unmarshal", "if err != nil || i != 16"),
  ("exel.validateUCS2Codepoints", "for"),
  ("exel.validateUCS2Codepoints", "if err == io.EOF"),
  ("exel.validateUCS2Codepoints", "if r == 0xFFFD && n == 1"),
  ("exel.validateUCS2Codepoints", "if r > 0xFFFF"),
  ("exel.ucs2toUTF8", "if utf8encoding[len(utf8encoding) - 1] == 0"),
  ("exel.EfiVarFSReader.ReadVariable", "if len(contents) < 4"),
  ("exel.variableLocatorDecode", "if len(loc) <= 18"),
  ("exel.variableLocatorDecode", "if len(name) % 2 != 0"),
  ("exel.variableLocatorDecode", "if !(name[len(name) - 1] == 0 && name[len(name) - 2] == 0)"),
  ("exel.Locate", "switch locType"),
  ("exel.Locate", "case eventlog.RIMLocationRaw"),
  ("exel.Locate", "case eventlog.RIMLocationURI"),
  ("exel.Locate", "if opts.Getter == nil"),
  ("exel.Locate", "case eventlog.RIMLocationVariable"),
  ("exel.Locate", "if opts.UEFIVariableReader == nil"),
  ("exel.RIMEventsFromEventLog", "range el.Events"),
  ("exel.RIMEventsFromEventLog", "if evt.EventType != eventlog.EvNoAction || evt.EventData.Event == nil"),
  ("exel.RIMEventsFromEventLog", "if !ok"),
  ("extract.Options.fromEventLog", "if opts == nil"),
  ("extract.Options.fromEventLog", "if opts.EventLogLocation == \"\""),
  ("extract.Options.fromEventLog", "range [][]*eventlog.SP800155Event3{…}"),
  ("extract.Options.fromEventLog", "range evts"),
  ("extract.Options.fromEventLog", "if len(opts.FirmwareManufacturer) == 0 || evt.FirmwareManufacturerStr.Data == opts.FirmwareManufacturer")]

end GceTcb.EvlCost
