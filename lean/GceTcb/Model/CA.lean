/-
Model of the certificate authorities (sign/gcsca/gcsca.go, sign/memca/memca.go), of the storage write
helper (storage/ops/ops.go) and of the fault/crash semantics used by C10 and C11.  Core-only.

Abstractions
* A key is a name with a *material id* (`Nat`); a fresh id is drawn at every key generation, so a key
  that is re-generated under an old name is a different key.
* A certificate is a record: subject common name + subject serial (these form the object name), the
  subject public key (= material id of the certified key) and `sigBy`, the material id of the private key
  that produced the signature.  "Verifies under the certificate r" is `sigBy = r.pub`.
* A stored object is a DER certificate, a PEM certificate or a manifest (anything else never occurs:
  writes are object-granular, see the scope note in props/C10.json).
* Every external call (key manager, signer, authority, storage) consumes one position of a fault script
  `Nat → Fault`: `fail` = the call returns an error without effect, `crash` = the call takes effect and
  the process dies when it returns.
-/
namespace GceTcb.CA

/-! ### association lists (insert shadows, lookup takes the first match) -/

def lookup {α : Type} : List (String × α) → String → Option α
  | [], _ => none
  | (k, v) :: t, q => if k = q then some v else lookup t q

def erase {α : Type} : List (String × α) → String → List (String × α)
  | [], _ => []
  | (k, v) :: t, q => if k = q then erase t q else (k, v) :: erase t q

theorem lookup_erase_self {α : Type} (l : List (String × α)) (q : String) : lookup (erase l q) q = none := by
  induction l with
  | nil => rfl
  | cons h t ih =>
    obtain ⟨k, v⟩ := h
    by_cases hk : k = q
    · simp only [erase, hk, if_true]; exact ih
    · simp only [erase, hk, if_false, lookup]; exact ih

theorem lookup_erase_ne {α : Type} (l : List (String × α)) (q k : String) (h : k ≠ q) :
    lookup (erase l q) k = lookup l k := by
  induction l with
  | nil => rfl
  | cons hd t ih =>
    obtain ⟨k', v⟩ := hd
    by_cases hk : k' = q
    · have hne : k' ≠ k := by intro e; exact h (e ▸ hk)
      simp only [erase, hk, if_true, lookup]
      rw [if_neg (by intro e; exact h (e.symm ▸ rfl))]
      exact ih
    · by_cases hk2 : k' = k
      · subst hk2
        simp [erase, hk, lookup]
      · simp only [erase, hk, if_false, lookup, hk2]; exact ih

theorem lookup_append_none {α : Type} (l : List (String × α)) (k : String) (v : α)
    (h : lookup l k = none) : lookup (l ++ [(k, v)]) k = some v := by
  induction l with
  | nil => simp [lookup]
  | cons hd t ih =>
    obtain ⟨k', v'⟩ := hd
    by_cases hk : k' = k
    · simp [lookup, hk] at h
    · simp [lookup, hk] at h ⊢; exact ih h

theorem lookup_append_ne {α : Type} (l : List (String × α)) (k q : String) (v : α) (h : k ≠ q) :
    lookup (l ++ [(k, v)]) q = lookup l q := by
  induction l with
  | nil => simp [lookup, h]
  | cons hd t ih =>
    obtain ⟨k', v'⟩ := hd
    by_cases hk : k' = q
    · simp [lookup, hk]
    · simp [lookup, hk]; exact ih

/-! ### data -/

structure Cert where
  cn : String
  serial : Nat
  pub : Nat
  sigBy : Nat
deriving DecidableEq, Repr

/-- go: cpb.GCECertificateManifest -/
structure Manifest where
  entries : List (String × String)   -- key version name ↦ object path, in file order
  root : String
  signing : String
deriving DecidableEq, Repr

def Manifest.empty : Manifest := ⟨[], "", ""⟩

inductive Obj where
  | der (c : Cert)
  | pem (c : Cert)
  | manifest (m : Manifest)
deriving DecidableEq, Repr

abbrev Store := List (String × Obj)

/-- go: gcsca.ManifestObjectName -/
def manifestName : String := "keyManifest.textproto"

inductive Fault where
  | ok | fail | crash
deriving DecidableEq, Repr

/-- the external calls a rotation / bootstrap makes -/
inductive Call where
  | kmCreate | kmDestroy (k : String)
  | caPsk | caPrk | caBundle | caCert (k : String) | caFin
  | sgPub (k : String) | sgSign (k : String)
  | stR (o : String) | stE (o : String) | stW (o : String) | stWr (o : String) | stC (o : String)
  -- Cloud KMS client calls (keys/gcpkms): CreateCryptoKeyVersion, GetCryptoKeyVersion, GetPublicKey,
  -- AsymmetricSign, DestroyCryptoKeyVersion
  | kmsCreate | kmsGet (k : String) | kmsPub (k : String) | kmsSign (k : String) | kmsDestroy (k : String)
deriving DecidableEq, Repr

/-- state of a Cloud KMS key version that is NOT usable (an ENABLED version is an entry of `St.keys`):
    PENDING_GENERATION with the number of further polls that will still see it pending, DISABLED,
    DESTROY_SCHEDULED, DESTROYED, GENERATION_FAILED -/
inductive KState where
  | pending (n : Nat) | disabled | scheduled | destroyed | genFailed
deriving DecidableEq, Repr

inductive CAKind where
  | memca | gcsca
deriving DecidableEq, Repr

inductive KMKind where
  | memkm | localkm
deriving DecidableEq, Repr

/-- fixed parameters of one run -/
structure Cfg where
  ca : CAKind
  km : KMKind
  rootPath : String            -- gcsca.RootPath
  certDir : String             -- gcsca.SigningCertDirInGCS, with its trailing slash
  bump : String → String       -- memkm.BumpName
  pubPre : Nat                 -- crypto/x509.CreateCertificate: issuer Public() calls before Sign
  pubPost : Nat                -- … and after Sign
  overwrite : Bool             -- output.AllowOverwrite (keep_going is off: scope)

/-- the whole world of one run; `pos`/`log` number and record the external calls -/
structure St where
  pos : Nat
  log : List (Call × Fault)
  keys : List (String × Nat)        -- live private keys (key manager / signer), name ↦ material
  nextMat : Nat
  store : Store                      -- gcsca: durable objects
  cache : Option Manifest            -- gcsca: cached manifest of this authority instance
  memCerts : List (String × Cert)    -- memca
  memRoot : String
  memPrimary : String
  kcount : Nat := 0                       -- Cloud KMS: versions ever created under the signing cryptoKey
  kdead : List (String × KState) := []    -- Cloud KMS: versions that are not ENABLED (insert shadows)
deriving Repr

def St.init : St := ⟨0, [], [], 0, [], none, [], "", "", 0, []⟩

/-- Dropping everything that does not survive the process: a fresh authority instance over the same
    storage (no cached manifest) and a new call log.  (memca has no storage of its own: the instance
    is the authority; the key manager's keys are durable.) -/
def St.reload (s : St) : St := { s with pos := 0, log := [], cache := none }

def St.logged (s : St) (c : Call) (f : Fault) : St := { s with pos := s.pos + 1, log := s.log ++ [(c, f)] }

inductive Res (α : Type) where
  | ok (a : α) (s : St)
  | err (s : St)
  | crash (s : St)

def Res.state {α : Type} : Res α → St
  | .ok _ s => s
  | .err s => s
  | .crash s => s

def Run (α : Type) := (Nat → Fault) → St → Res α

instance : Monad Run where
  pure a := fun _ s => .ok a s
  bind m f := fun sc s =>
    match m sc s with
    | .ok a s' => f a sc s'
    | .err s' => .err s'
    | .crash s' => .crash s'

def getSt : Run St := fun _ s => .ok s s
def modSt (f : St → St) : Run Unit := fun _ s => .ok () (f s)
def throw {α : Type} : Run α := fun _ s => .err s
def ofOption {α : Type} : Option α → Run α
  | some a => pure a
  | none => throw

/-- One external call: consult the script at the current position, log the call, run its body. -/
def wrap {α : Type} (c : Call) (body : Run α) : Run α := fun sc s =>
  match sc s.pos with
  | .fail => .err (s.logged c .fail)
  | .ok => body sc (s.logged c .ok)
  | .crash =>
    match body sc (s.logged c .crash) with
    | .ok _ s' => .crash s'
    | .err s' => .crash s'
    | .crash s' => .crash s'

/-- an error of `m` is swallowed by the caller (`if _, err := …; err == nil {…}`) -/
def attempt {α : Type} (m : Run α) : Run (Option α) := fun sc s =>
  match m sc s with
  | .ok a s' => .ok (some a) s'
  | .err s' => .ok none s'
  | .crash s' => .crash s'

def repeatRun {α : Type} : Nat → Run α → Run (List α)
  | 0, _ => pure []
  | n + 1, m => do
    let a ← m
    let r ← repeatRun n m
    pure (a :: r)

def noFault : Nat → Fault := fun _ => .ok

/-! ### storage client and storage/ops -/

/-- go: storagei.Client.Reader (+ io.ReadAll): `none` = the object does not exist. -/
def stReader (o : String) : Run (Option Obj) :=
  wrap (.stR o) (do let s ← getSt; pure (lookup s.store o))

/-- go: storagei.Client.Exists -/
def stExists (o : String) : Run Bool :=
  wrap (.stE o) (do let s ← getSt; pure (lookup s.store o).isSome)

/-- go: ops.WriteFile — Writer, Write, Close; the object changes when Close completes; after a failed
    Write the writer is still closed and the object is left alone. -/
def writeFile (o : String) (data : Obj) : Run Unit := do
  wrap (.stW o) (pure ())
  let w ← attempt (wrap (.stWr o) (pure ()))
  match w with
  | none => do
    wrap (.stC o) (pure ())
    throw
  | some _ => wrap (.stC o) (modSt fun s => { s with store := (o, data) :: s.store })

/-! ### gcsca -/

/-- go: gcsca.getManifest / readManifest -/
def getManifest : Run Manifest := do
  let s ← getSt
  match s.cache with
  | some m => pure m
  | none => do
    let r ← stReader manifestName
    let m ← (match r with
      | none => pure Manifest.empty
      | some (.manifest m) => pure m
      | some _ => throw)
    modSt fun s => { s with cache := some m }
    pure m

/-- pending change of an authority — go: gcsca.certificateAuthorityMutation -/
structure Mut where
  primaryRoot : Option String := none
  primarySigning : Option String := none
  certs : List (String × Cert) := []    -- a Go map: Finalize visits it in an unspecified order
  rootCert : Option Cert := none
deriving Repr

/-- go: gcsca.certObjectName -/
def certObjectName (cfg : Cfg) (c : Cert) : String :=
  cfg.certDir ++ c.cn ++ "-" ++ toString c.serial ++ ".crt"

/-- go: gcsca.writeIfAllowed (keep_going off) -/
def writeIfAllowed (cfg : Cfg) (o : String) (data : Obj) : Run Bool := do
  let ex ← stExists o
  if ex && !cfg.overwrite then throw
  else do
    writeFile o data
    pure ex

/-- object a key version's certificate goes to: its existing manifest entry, else the name derived
    from the certificate — go: gcsca.upload, first half -/
def uploadName (cfg : Cfg) (m : Manifest) (kvn : String) (c : Cert) : String :=
  (lookup m.entries kvn).getD (certObjectName cfg c)

/-- the manifest after an upload: the entry is appended when the key version is new -/
def withEntry (m : Manifest) (kvn name : String) : Manifest :=
  if (lookup m.entries kvn).isNone then { m with entries := m.entries ++ [(kvn, name)] } else m

/-- go: gcsca.otherKeyVersionOf — the manifest records the object `name` for a key version other than
    `kvn` (every entry is looked at, also one shadowed by an earlier entry of the same key version) -/
def heldByOther (m : Manifest) (name kvn : String) : Bool :=
  m.entries.any fun e => e.2 == name && e.1 != kvn

/-- go: gcsca.upload — an object the manifest records for another key version is refused before any
    storage call; otherwise the object is written, then the entry is appended to the (cached) manifest
    when the key version is new.  (keep_going off: the refusal of an existing object that was left
    unwritten is the `throw` of `writeIfAllowed`.) -/
def upload (cfg : Cfg) (kvn : String) (c : Cert) : Run Unit := do
  let s ← getSt
  if heldByOther (s.cache.getD Manifest.empty) (uploadName cfg (s.cache.getD Manifest.empty) kvn c) kvn then throw
  else do
    let _ ← writeIfAllowed cfg (uploadName cfg (s.cache.getD Manifest.empty) kvn c) (.der c)
    modSt fun s => { s with cache := some (withEntry (s.cache.getD Manifest.empty) kvn
      (uploadName cfg (s.cache.getD Manifest.empty) kvn c)) }

def uploadAll (cfg : Cfg) : List (String × Cert) → Run Unit
  | [] => pure ()
  | (k, c) :: t => do
    upload cfg k c
    uploadAll cfg t

/-- gcsca.upload BEFORE the fix that added the refusal: whatever object the name resolves to is written
    (kept for the witness `C10_old_upload_clobbers_primary`). -/
def uploadNoGuard (cfg : Cfg) (kvn : String) (c : Cert) : Run Unit := do
  let s ← getSt
  let _ ← writeIfAllowed cfg (uploadName cfg (s.cache.getD Manifest.empty) kvn c) (.der c)
  modSt fun s => { s with cache := some (withEntry (s.cache.getD Manifest.empty) kvn
    (uploadName cfg (s.cache.getD Manifest.empty) kvn c)) }

def uploadAllNoGuard (cfg : Cfg) : List (String × Cert) → Run Unit
  | [] => pure ()
  | (k, c) :: t => do
    uploadNoGuard cfg k c
    uploadAllNoGuard cfg t

/-- go: gcsca.writeManifest -/
def writeManifest : Run Unit := do
  let s ← getSt
  writeFile manifestName (.manifest (s.cache.getD Manifest.empty))

def setRoot (r : Option String) (m : Manifest) : Manifest :=
  match r with
  | some r => if m.root ≠ r then { m with root := r } else m
  | none => m

def setSigning (k : Option String) (m : Manifest) : Manifest :=
  match k with
  | some k => if m.signing ≠ k then { m with signing := k } else m
  | none => m

/-- the manifest fields a mutation sets — go: gcsca.Finalize, first part -/
def applyPrimaries (mu : Mut) (m : Manifest) : Manifest :=
  setSigning mu.primarySigning (setRoot mu.primaryRoot m)

/-- go: gcsca.Finalize — the cached manifest is updated in place first; then the certificates are
    uploaded, then the root certificate, and the manifest is written last (when anything changed:
    a primary name differs or any certificate was uploaded).  `order` is the order in which the Go
    map of pending certificates happens to be visited. -/
def gcsFinalize (cfg : Cfg) (mu : Mut) (order : List (String × Cert)) : Run Unit := do
  let m ← getManifest
  modSt fun s => { s with cache := some (applyPrimaries mu m) }
  uploadAll cfg order
  (match mu.rootCert with
    | some rc => do let _ ← writeIfAllowed cfg cfg.rootPath (.pem rc); pure ()
    | none => pure ())
  if decide (applyPrimaries mu m ≠ m) || !order.isEmpty then writeManifest else pure ()

/-- gcsca.Finalize over the upload of before the fix -/
def gcsFinalizeNoGuard (cfg : Cfg) (mu : Mut) (order : List (String × Cert)) : Run Unit := do
  let m ← getManifest
  modSt fun s => { s with cache := some (applyPrimaries mu m) }
  uploadAllNoGuard cfg order
  (match mu.rootCert with
    | some rc => do let _ ← writeIfAllowed cfg cfg.rootPath (.pem rc); pure ()
    | none => pure ())
  if decide (applyPrimaries mu m ≠ m) || !order.isEmpty then writeManifest else pure ()

/-! ### the authority interface, both implementations -/

/-- go: CertificateAuthority.PrimarySigningKeyVersion -/
def caPsk (cfg : Cfg) : Run String :=
  wrap .caPsk (match cfg.ca with
    | .gcsca => do let m ← getManifest; pure m.signing
    | .memca => do let s ← getSt; pure s.memPrimary)

/-- go: CertificateAuthority.PrimaryRootKeyVersion -/
def caPrk (cfg : Cfg) : Run String :=
  wrap .caPrk (match cfg.ca with
    | .gcsca => do let m ← getManifest; pure m.root
    | .memca => do let s ← getSt; pure s.memRoot)

/-- go: sops.IssuerCertFromBundle ∘ CertificateAuthority.CABundle — the root certificate, parsed from PEM
    (SigningKeyPrefix is empty: the prefix test always passes). -/
def caIssuer (cfg : Cfg) : Run Cert :=
  wrap .caBundle (match cfg.ca with
    | .gcsca => do
      let r ← stReader cfg.rootPath
      match r with
      | some (.pem c) => pure c
      | _ => throw
    | .memca => do let s ← getSt; ofOption (lookup s.memCerts s.memRoot))

/-- go: CertificateAuthority.Certificate (parsed) -/
def caCert (cfg : Cfg) (kvn : String) : Run Cert :=
  wrap (.caCert kvn) (match cfg.ca with
    | .gcsca => do
      let m ← getManifest
      match lookup m.entries kvn with
      | none => throw
      | some path => do
        let r ← stReader path
        match r with
        | some (.der c) => pure c
        | _ => throw
    | .memca => do let s ← getSt; ofOption (lookup s.memCerts kvn))

/-- go: Mutation.AddSigningKeyCert — memca applies it at once, gcsca records it. -/
def mutAddCert (cfg : Cfg) (mu : Mut) (kvn : String) (c : Cert) : Run Mut :=
  match cfg.ca with
  | .gcsca => pure { mu with certs := (kvn, c) :: erase mu.certs kvn }
  | .memca => do
    modSt fun s => { s with memCerts := (kvn, c) :: s.memCerts }
    pure mu

/-- go: Mutation.SetPrimarySigningKeyVersion -/
def mutSetPrimary (cfg : Cfg) (mu : Mut) (kvn : String) : Run Mut :=
  match cfg.ca with
  | .gcsca => pure { mu with primarySigning := some kvn }
  | .memca => do
    modSt fun s => { s with memPrimary := kvn }
    pure mu

/-- go: Mutation.SetPrimaryRootKeyVersion -/
def mutSetRoot (cfg : Cfg) (mu : Mut) (kvn : String) : Run Mut :=
  match cfg.ca with
  | .gcsca => pure { mu with primaryRoot := some kvn }
  | .memca => do
    modSt fun s => { s with memRoot := kvn }
    pure mu

/-- go: Mutation.SetRootKeyCert -/
def mutSetRootCert (cfg : Cfg) (mu : Mut) (c : Cert) : Run Mut :=
  match cfg.ca with
  | .gcsca => pure { mu with rootCert := some c }
  | .memca => do
    modSt fun s => { s with memCerts := (s.memRoot, c) :: s.memCerts }
    pure mu

/-- go: CertificateAuthority.Finalize -/
def caFinalize (cfg : Cfg) (mu : Mut) (order : List (String × Cert)) : Run Unit :=
  wrap .caFin (match cfg.ca with
    | .gcsca => gcsFinalize cfg mu order
    | .memca => pure ())

def caFinalizeNoGuard (cfg : Cfg) (mu : Mut) (order : List (String × Cert)) : Run Unit :=
  wrap .caFin (match cfg.ca with
    | .gcsca => gcsFinalizeNoGuard cfg mu order
    | .memca => pure ())

/-! ### signer -/

/-- go: Signer.PublicKey -/
def sgPub (k : String) : Run Nat :=
  wrap (.sgPub k) (do let s ← getSt; ofOption (lookup s.keys k))

/-- go: Signer.Sign — returns the material that signed -/
def sgSign (k : String) : Run Nat :=
  wrap (.sgSign k) (do let s ← getSt; ofOption (lookup s.keys k))

end GceTcb.CA
