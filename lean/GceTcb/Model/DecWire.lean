import GceTcb.Model.DecTotal
import GceTcb.Model.ProtoWire
/-
C07, verifier-glue half, with protobuf no longer a parameter.

`Model/DecTotal.lean` takes the third-party decoders as a structure `Parsers`; two of its fields are
`proto.Unmarshal` into VMLaunchEndorsement / VMGoldenMeasurement.  Here they are the wire codec
(`Model/ProtoWire.lean`), mapped into the parse shapes of that model exactly as Go's Unmarshal leaves the
structs:

  * an embedded message (timestamp, sev_snp, tdx) is a pointer: `none` iff no length-delimited field with its
    number occurs in the input (an occurrence with empty contents gives a non-nil, empty message);
  * the SEV-SNP measurement map is `none` (nil) iff it has no entry: the map is allocated when the first
    entry is stored;
  * elements of the repeated TDX rows are never nil;
  * a `bytes` field is a Go slice that is nil both when the field is absent and when it is present with no
    contents (`append([]byte(nil), v...)`): the two are indistinguishable after Unmarshal, and the shapes
    carry `Bytes` (no nil / empty distinction).  (A map VALUE is the one place where they differ: nil when
    the entry has no value field, a non-nil empty slice when it has an empty one — measured by stream
    c07wire; the glue only takes `len` / `bytes.Equal` of a looked-up value, so `Bytes` loses nothing.)

and the COST of the two Unmarshal calls is part of the trace.  The instrumented decoders (`decode…M`) follow
the loop of impl.unmarshalPointer: one tick per field read, processing stops at the first field that is
malformed or whose embedded message is rejected (so the trace of a REJECTED input is the work done up to
that point, not zero); allocation is charged per byte copied (bytes fields, map values, unknown-field bytes)
plus `K` per heap object created (an embedded message, a map slot, a repeated-field element) — `K` is a
parameter: the largest such object of the generated code.  `Proofs/DecWire.lean` shows that their results
are those of the plain decoders and bounds ticks by |input| and allocation by K·|input|.

Core-only (linked into the driver: stream `c07wire`).
-/
namespace GceTcb.DecWire
open GceTcb GceTcb.ProtoWire GceTcb.DecTotal

/-! ## parse shapes from decoded records -/

def pSevOfWire (s : WSevSnp) : PSevSnp :=
  ⟨s.policy, s.svn, if s.measurements.isEmpty then none else some s.measurements, s.svsmMeasurement, s.caBundle⟩

def pTdxOfWire (d : WTdx) : PTdx := ⟨d.measurements.map fun r => some ⟨r.ramGib, r.mrtd⟩⟩

def pGoldenOfWire (w : WGolden) : PGolden :=
  ⟨w.timestamp.map fun t => ⟨t.seconds, t.nanos⟩, w.clSpec, w.commit, w.cert, w.digest, w.sevSnp.map pSevOfWire,
   w.tdx.map pTdxOfWire⟩

def pEndorsementOfWire (e : WEndorsement) : PEndorsement := ⟨e.serializedUefiGolden, e.signature⟩

/-- `P` with the two protobuf parsers of the endorsement instantiated by the codec -/
def wireParsers {Cert Roots Time : Type} (P : Parsers Cert Roots Time) : Parsers Cert Roots Time :=
  { P with
    unmarshalEndorsement := fun b => (decodeEndorsement b).map pEndorsementOfWire
    unmarshalGolden := fun b => (decodeGolden b).map pGoldenOfWire }

/-! ## the instrumented decoders -/

/-- the fields the loop reads before it stops: all of them when the input is a sequence of fields, else
    those in front of the first malformed one -/
def fieldsPrefixF : Nat → Bytes → List Field
  | 0, _ => []
  | n + 1, b =>
    match readField b with
    | none => []
    | some (f, r) => f :: fieldsPrefixF n r

def fieldsPrefix (b : Bytes) : List Field := fieldsPrefixF b.length b

def toOut {σ : Type} : Option σ → Outcome σ
  | none => .err "wire"
  | some m => .ok m

/-- one iteration: the plain step's result, with the trace `c` of that iteration -/
def stepWith {σ : Type} (step : σ → Field → Option σ) (c : σ → Field → Trace) (m : σ) (f : Field) : M σ :=
  ⟨toOut (step m f), c m f⟩

/-- the loop over the fields read: one tick per field, stop at the first failing step -/
def loopM {σ : Type} (stepM : σ → Field → M σ) : σ → List Field → M σ
  | m, [] => M.pure m
  | m, f :: fs => M.bind (tick 1) fun _ => M.bind (stepM m f) fun m' => loopM stepM m' fs

def decodeIntoM {σ : Type} (stepM : σ → Field → M σ) (init : σ) (b : Bytes) : M σ :=
  M.bind (loopM stepM init (fieldsPrefix b)) fun m =>
    if (parseFields b).isSome then M.pure m else fail "wire"

def allocT (n : Nat) : Trace := ⟨0, n, []⟩

/-- google.protobuf.Timestamp: only unknown fields allocate -/
def costTimestamp (_ : WTimestamp) (f : Field) : Trace :=
  match f.num, f.val with
  | 1, .varint _ => {}
  | 2, .varint _ => {}
  | _, _ => allocT f.unknownBytes.length

def decodeTimestampIntoM (m : WTimestamp) (b : Bytes) : M WTimestamp :=
  decodeIntoM (stepWith stepTimestamp costTimestamp) m b

/-- VMTdx.Measurement: the mrtd bytes are copied -/
def costRow (_ : WRow) (f : Field) : Trace :=
  match f.num, f.val with
  | 1, .varint _ => {}
  | 2, .varint _ => {}
  | 3, .len p => allocT p.length
  | _, _ => allocT f.unknownBytes.length

def decodeRowM (b : Bytes) : M WRow := decodeIntoM (stepWith stepRow costRow) .zero b

/-- VMTdx: every row is a new object appended to the repeated field -/
def costTdx (K : Nat) (_ : WTdx) (f : Field) : Trace :=
  match f.num, f.val with
  | 1, .varint _ => {}
  | 2, .len p => (allocT K).add (decodeRowM p).tr
  | _, _ => allocT f.unknownBytes.length

def decodeTdxIntoM (K : Nat) (m : WTdx) (b : Bytes) : M WTdx := decodeIntoM (stepWith stepTdx (costTdx K)) m b

/-- map entry: the value bytes are copied; anything else is skipped -/
def costEntry (_ : Nat × Bytes) (f : Field) : Trace :=
  match f.num, f.val with
  | 2, .len p => allocT p.length
  | _, _ => {}

def decodeEntryM (b : Bytes) : M (Nat × Bytes) := decodeIntoM (stepWith stepEntry costEntry) (0, []) b

/-- VMSevSnp: a map slot per entry, bytes fields copied -/
def costSevSnp (K : Nat) (_ : WSevSnp) (f : Field) : Trace :=
  match f.num, f.val with
  | 1, .varint _ => {}
  | 2, .len p => (allocT K).add (decodeEntryM p).tr
  | 3, .len p => allocT p.length
  | 4, .len p => allocT p.length
  | 5, .varint _ => {}
  | 6, .len p => allocT p.length
  | 7, .len p => allocT p.length
  | _, _ => allocT f.unknownBytes.length

def decodeSevSnpIntoM (K : Nat) (m : WSevSnp) (b : Bytes) : M WSevSnp :=
  decodeIntoM (stepWith stepSevSnp (costSevSnp K)) m b

/-- VMGoldenMeasurement: an embedded message is allocated at its first occurrence and merged into afterwards -/
def costGolden (K : Nat) (m : WGolden) (f : Field) : Trace :=
  match f.num, f.val with
  | 1, .len p => (allocT (if m.timestamp.isSome then 0 else K)).add (decodeTimestampIntoM (m.timestamp.getD .zero) p).tr
  | 2, .varint _ => {}
  | 3, .len p => allocT p.length
  | 4, .len p => allocT p.length
  | 5, .len p => allocT p.length
  | 6, .len p => allocT p.length
  | 7, .len p => (allocT (if m.sevSnp.isSome then 0 else K)).add (decodeSevSnpIntoM K (m.sevSnp.getD .zero) p).tr
  | 8, .len p => (allocT (if m.tdx.isSome then 0 else K)).add (decodeTdxIntoM K (m.tdx.getD .zero) p).tr
  | _, _ => allocT f.unknownBytes.length

/-- proto.Unmarshal(b, &epb.VMGoldenMeasurement{}) with its trace -/
def decodeGoldenM (K : Nat) (b : Bytes) : M WGolden := decodeIntoM (stepWith stepGolden (costGolden K)) .zero b

/-- VMLaunchEndorsement: payload and signature are copied -/
def costEndorsement (_ : WEndorsement) (f : Field) : Trace :=
  match f.num, f.val with
  | 1, .len p => allocT p.length
  | 2, .len p => allocT p.length
  | _, _ => allocT f.unknownBytes.length

/-- proto.Unmarshal(b, &epb.VMLaunchEndorsement{}) with its trace -/
def decodeEndorsementM (b : Bytes) : M WEndorsement := decodeIntoM (stepWith stepEndorsement costEndorsement) .zero b

/-! ## verify.Endorsement end to end -/

/-- the trace of the Unmarshal calls verify.Endorsement makes on `ser`: the container, then — when the
    container is accepted — the payload it carries (EndorsementProto unmarshals it exactly once) -/
def unmarshalTrace (K : Nat) (ser : Bytes) : Trace :=
  let u := decodeEndorsementM ser
  match u.out with
  | .ok e => u.tr.add (decodeGoldenM K e.serializedUefiGolden).tr
  | _ => u.tr

/-- go: verify.Endorsement(ser, opts), the unmarshalling included: the outcome is the glue model's over the
    codec instance, the trace is the unmarshalling's followed by the glue's. -/
def endorsementE2E {Cert Roots Time : Type} (K : Nat) (P : Parsers Cert Roots Time) (ser : Bytes)
    (opts : Option (Options Roots Time)) : M Unit :=
  let r := endorsement (wireParsers P) ser opts
  ⟨r.out, (unmarshalTrace K ser).add r.tr⟩

end GceTcb.DecWire
