import GceTcb.Base.Line
import GceTcb.Base.Outcome
/-
Model of the measuring and signing half of the endorse pipeline (C06, C15):
endorse.GoldenMeasurement, sev.UnsignedSnp / canonicalizeRequest / vmsaCounts /
generateAllPossibleLDs / generateVMSevSnp, tdx.UnsignedTDX / generateAllPossibleMRTDs,
endorse.SignDoc.  Core-only.

Parameters (`Prims`): SHA-384, the SEV-SNP launch digest (image → VMSA count → product), the TDX
MRTD (image → machine shape → mode), UUID parsing.  Tables (`Tables`): the supported VMSA counts,
the machine-shape table, the default family id and the production policy — regenerated from the
source into `Gen/C06Tables.lean` on every run.

The model follows the code as fixed by `fix: reject unknown TDX machine shapes …` (an unknown shape
is an error).  The dropped error of the second (early-accept) MRTD is modelled as written: on error
the row carries the zero value of `[48]byte`.
-/
namespace GceTcb.Endorse
open GceTcb

inductive TdxMode where
  | tdhobBug      -- LaunchOptionsDefaultTDHOBBug(shape): banks of the shape, all regions measured
  | earlyAccept   -- the same with DisableUnacceptedMemory
  | default       -- LaunchOptionsDefault("")
deriving Repr, DecidableEq

structure Prims where
  sha384 : Bytes → Bytes
  launchDigest : Bytes → Nat → Nat → Outcome Bytes     -- image, VMSAs at launch, product
  mrtd : Bytes → String → TdxMode → Outcome Bytes       -- image, machine shape, mode
  parseUuid : String → Option Bytes

structure Tables where
  vmsaCounts : List Nat
  shapes : List (String × Nat × Nat × Nat)
  familyId : String
  policy : Nat

structure SnpRequest where
  svn : Nat
  familyId : String
  imageId : String
  launchVmsas : Nat
  product : Nat
deriving Repr

structure TdxRequest where
  svn : Nat
  includeEarlyAccept : Bool
  machineShapes : List String
deriving Repr

/-- endorse.Context, measuring part.  `rndImageId` is the UUID the environment's random source
    yields if the request leaves the image id empty. -/
structure Ctx where
  snp : Option SnpRequest
  tdx : Option TdxRequest
  image : Bytes
  clSpec : Nat
  commit : Bytes
  svsmMeasurement : Bytes
  rndImageId : String

structure SnpDoc where
  svn : Nat
  familyId : Bytes
  imageId : Bytes
  policy : Nat
  measurements : List (Nat × Bytes)    -- Go map, in insertion order (compared sorted)
  svsm : Bytes
deriving Repr, DecidableEq

structure TdxRow where
  ramGib : Nat
  earlyAccept : Bool
  mrtd : Bytes
deriving Repr, DecidableEq

structure TdxDoc where
  svn : Nat
  rows : List TdxRow
deriving Repr, DecidableEq

structure Golden where
  digest : Bytes
  clSpec : Nat
  commit : Bytes
  snp : Option SnpDoc
  tdx : Option TdxDoc
  cert : Bytes
  caBundle : Bytes
  timestamp : Option (Int × Nat)
deriving Repr, DecidableEq

def zeros48 : Bytes := List.replicate 48 0

/-- go: sev.vmsaCounts -/
def vmsaCounts (T : Tables) (r : SnpRequest) : List Nat :=
  if r.launchVmsas = 0 then T.vmsaCounts else [r.launchVmsas]

/-- Go map assignment `m[k] = v` on an association list. -/
def mapInsert (m : List (Nat × Bytes)) (k : Nat) (v : Bytes) : List (Nat × Bytes) :=
  if m.any (fun p => p.1 == k) then m.map (fun p => if p.1 == k then (k, v) else p) else m ++ [(k, v)]

/-- go: sev.generateAllPossibleLDs — loop over the counts; the first failure aborts. -/
def generateLDs (P : Prims) (img : Bytes) (product : Nat) :
    List Nat → List (Nat × Bytes) → Outcome (List (Nat × Bytes))
  | [], acc => .ok acc
  | c :: cs, acc =>
    match P.launchDigest img c product with
    | .ok ld => generateLDs P img product cs (mapInsert acc c ld)
    | .err e => .err e
    | .panic s => .panic s

/-- go: sev.canonicalizeRequest (defaults) -/
def canonFamily (T : Tables) (r : SnpRequest) : String := if r.familyId = "" then T.familyId else r.familyId
def canonImage (rnd : String) (r : SnpRequest) : String := if r.imageId = "" then rnd else r.imageId

/-- go: sev.UnsignedSnp = canonicalizeRequest; generateAllPossibleLDs; generateVMSevSnp -/
def unsignedSnp (P : Prims) (T : Tables) (img : Bytes) (rnd : String) (r : SnpRequest) : Outcome SnpDoc :=
  match P.parseUuid (canonFamily T r) with
  | none => .err "family_id"
  | some fam =>
    match P.parseUuid (canonImage rnd r) with
    | none => .err "image_id"
    | some iid =>
      match generateLDs P img r.product (vmsaCounts T r) [] with
      | .ok lds => .ok ⟨r.svn, fam, iid, T.policy, lds, []⟩
      | .err e => .err e
      | .panic s => .panic s

/-- go: tdx.shapeDesc lookup -/
def shapeSize (T : Tables) (s : String) : Option Nat :=
  (T.shapes.find? (fun d => d.1 == s)).map (fun d => d.2.1)

/-- go: tdx.generateAllPossibleMRTDs -/
def generateMRTDs (P : Prims) (T : Tables) (img : Bytes) (early : Bool) :
    List String → List TdxRow → Outcome (List TdxRow)
  | [], acc =>
    match P.mrtd img "" .default with
    | .ok m => .ok (acc ++ [⟨0, false, m⟩])
    | .err e => .err e
    | .panic s => .panic s
  | s :: ss, acc =>
    match shapeSize T s with
    | none => .err "unknown-shape"
    | some sz =>
      match P.mrtd img s .tdhobBug with
      | .err e => .err e
      | .panic p => .panic p
      | .ok m =>
        if early then
          match P.mrtd img s .earlyAccept with
          | .panic p => .panic p
          | .ok m2 => generateMRTDs P T img early ss (acc ++ [⟨sz % 2^32, false, m⟩, ⟨sz % 2^32, true, m2⟩])
          | .err _ => generateMRTDs P T img early ss (acc ++ [⟨sz % 2^32, false, m⟩, ⟨sz % 2^32, true, zeros48⟩])
        else generateMRTDs P T img early ss (acc ++ [⟨sz % 2^32, false, m⟩])

/-- go: tdx.UnsignedTDX -/
def unsignedTdx (P : Prims) (T : Tables) (img : Bytes) (t : TdxRequest) : Outcome TdxDoc :=
  match generateMRTDs P T img t.includeEarlyAccept t.machineShapes [] with
  | .ok rows => .ok ⟨t.svn, rows⟩
  | .err e => .err e
  | .panic s => .panic s

def snpPart (P : Prims) (T : Tables) (c : Ctx) : Outcome (Option SnpDoc) :=
  match c.snp with
  | none => .ok none
  | some r =>
    match unsignedSnp P T c.image c.rndImageId r with
    | .ok d => .ok (some { d with svsm := c.svsmMeasurement })
    | .err e => .err e
    | .panic s => .panic s

def tdxPart (P : Prims) (T : Tables) (c : Ctx) : Outcome (Option TdxDoc) :=
  match c.tdx with
  | none => .ok none
  | some t =>
    match unsignedTdx P T c.image t with
    | .ok d => .ok (some d)
    | .err e => .err e
    | .panic s => .panic s

/-- go: endorse.GoldenMeasurement -/
def goldenMeasurement (P : Prims) (T : Tables) (c : Ctx) : Outcome Golden :=
  if c.tdx.isNone && c.snp.isNone then .err "no-technology"
  else
    match snpPart P T c with
    | .err e => .err e
    | .panic s => .panic s
    | .ok snp =>
      match tdxPart P T c with
      | .err e => .err e
      | .panic s => .panic s
      | .ok tdx => .ok ⟨P.sha384 c.image, c.clSpec, c.commit, snp, tdx, [], [], none⟩

/-! ### signing -/

structure CA where
  primary : Outcome String
  certificate : String → Outcome Bytes
  bundle : String → Outcome Bytes

/-- keys.Context as found in the context. -/
structure Keys where
  ca : Option CA
  signer : Option (String → Golden → Outcome Bytes)

inductive SignEff where
  | caPrimary | caCertificate (key : String) | caBundle (key : String)
  | sign (key : String) (doc : Golden)

/-- go: endorse.SignDoc with the calls it makes on the CA and the signer. -/
def signDocEff (keys : Option Keys) (ts : Int × Nat) (doc : Golden) :
    List SignEff × Outcome (Golden × Bytes) :=
  match keys with
  | none => ([], .err "no-keys-context")
  | some k =>
    match k.ca with
    | none => ([], .err "no-ca")
    | some ca =>
      match k.signer with
      | none => ([], .err "no-signer")
      | some signer =>
        match ca.primary with
        | .err e => ([.caPrimary], .err e)
        | .panic s => ([.caPrimary], .panic s)
        | .ok key =>
          match ca.certificate key with
          | .err e => ([.caPrimary, .caCertificate key], .err e)
          | .panic s => ([.caPrimary, .caCertificate key], .panic s)
          | .ok cert =>
            match ca.bundle key with
            | .err e => ([.caPrimary, .caCertificate key, .caBundle key], .err e)
            | .panic s => ([.caPrimary, .caCertificate key, .caBundle key], .panic s)
            | .ok bundle =>
              let d : Golden := { doc with cert := cert, caBundle := bundle, timestamp := some ts }
              match signer key d with
              | .err e => ([.caPrimary, .caCertificate key, .caBundle key, .sign key d], .err e)
              | .panic s => ([.caPrimary, .caCertificate key, .caBundle key, .sign key d], .panic s)
              | .ok sig => ([.caPrimary, .caCertificate key, .caBundle key, .sign key d], .ok (d, sig))

def signDoc (keys : Option Keys) (ts : Int × Nat) (doc : Golden) : Outcome (Golden × Bytes) :=
  (signDocEff keys ts doc).2

end GceTcb.Endorse
