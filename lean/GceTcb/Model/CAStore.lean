import GceTcb.Model.CA
/-
The storage side of gcsca.Finalize as a write log (C11): which objects it probes and writes, in which
order, for a given order of visiting the Go map of pending certificates; a crash is a prefix of the
writes (object granularity).  Core-only.  The same Finalize is modelled call by call in Model/CA.lean
(`gcsFinalize`); the driver cross-checks the two on every case.
-/
namespace GceTcb.CA

/-- go: the loop over `mut.certs` in gcsca.Finalize / gcsca.upload: the object each pending certificate
    goes to and the manifest (in memory) after the entries were appended. -/
def uploadWrites (cfg : Cfg) : Manifest → List (String × Cert) → List (String × Obj) × Manifest
  | m, [] => ([], m)
  | m, (k, c) :: t =>
    let r := uploadWrites cfg (withEntry m k (uploadName cfg m k c)) t
    ((uploadName cfg m k c, .der c) :: r.1, r.2)

def rootWrites (cfg : Cfg) (mu : Mut) : List (String × Obj) :=
  match mu.rootCert with
  | some rc => [(cfg.rootPath, .pem rc)]
  | none => []

def manifestChanged (mu : Mut) (m : Manifest) (order : List (String × Cert)) : Bool :=
  decide (applyPrimaries mu m ≠ m) || !order.isEmpty

/-- go: gcsca.Finalize — all object writes of one Finalize when nothing refuses: certificates in the
    visiting order, then the root certificate, then the manifest. -/
def fullWrites (cfg : Cfg) (m : Manifest) (mu : Mut) (order : List (String × Cert)) : List (String × Obj) :=
  (uploadWrites cfg (applyPrimaries mu m) order).1 ++ rootWrites cfg mu ++
    (if manifestChanged mu m order then
      [(manifestName, .manifest (uploadWrites cfg (applyPrimaries mu m) order).2)] else [])

def applyWrites (ws : List (String × Obj)) (st : Store) : Store :=
  ws.foldl (fun st w => w :: st) st

/-- the store after a crash that let exactly the first `k` writes through -/
def applyPrefix (k : Nat) (ws : List (String × Obj)) (st : Store) : Store :=
  applyWrites (ws.take k) st

inductive StoreOp where
  | ex (p : String)
  | wr (p : String) (o : Obj)
deriving DecidableEq, Repr

/-- the uploads of one Finalize as (claimed, object, content); claimed — go: the refusal at the head of
    gcsca.upload: the manifest, as it stands in memory when the certificate is visited, records the
    certificate's target object for another key version (`heldByOther`) -/
def uploadPlan (cfg : Cfg) : Manifest → List (String × Cert) → List (Bool × String × Obj)
  | _, [] => []
  | m, (k, c) :: t =>
    (heldByOther m (uploadName cfg m k c) k, uploadName cfg m k c, .der c) ::
      uploadPlan cfg (withEntry m k (uploadName cfg m k c)) t

/-- planned writes with their `Exists` probe (gcsca.writeIfAllowed probes, writeManifest does not) and, for
    certificate uploads, whether gcsca.upload refuses the object because another key version holds it:
    (probe, claimed, object, content) -/
def planned (cfg : Cfg) (m : Manifest) (mu : Mut) (order : List (String × Cert)) : List (Bool × Bool × String × Obj) :=
  (uploadPlan cfg (applyPrimaries mu m) order).map (fun w => (true, w)) ++
    (rootWrites cfg mu).map (fun w => (true, false, w)) ++
    (if manifestChanged mu m order then
      [(false, false, manifestName, .manifest (uploadWrites cfg (applyPrimaries mu m) order).2)] else [])

/-- the storage log of one Finalize: an upload whose object another key version holds ends it before any
    storage call; a probe that finds the object while overwriting is not allowed ends it after the probe
    (go: upload / writeIfAllowed return AlreadyExists; keep_going off). -/
def runPlan (ow : Bool) : Store → List (Bool × Bool × String × Obj) → List StoreOp
  | _, [] => []
  | st, (probe, claimed, p, o) :: t =>
    if claimed then []
    else if probe && (lookup st p).isSome && !ow then [.ex p]
    else (if probe then [.ex p] else []) ++ .wr p o :: runPlan ow ((p, o) :: st) t

def finalizeLog (cfg : Cfg) (st : Store) (m : Manifest) (mu : Mut) (order : List (String × Cert)) : List StoreOp :=
  runPlan cfg.overwrite st (planned cfg m mu order)

def writesOf : List StoreOp → List (String × Obj)
  | [] => []
  | .ex _ :: t => writesOf t
  | .wr p o :: t => (p, o) :: writesOf t

/-- go: gcsca.readManifest on a store: the manifest a fresh authority instance starts from -/
def storedManifest (st : Store) : Option Manifest :=
  match lookup st manifestName with
  | none => some Manifest.empty
  | some (.manifest m) => some m
  | some _ => none

def isDer (st : Store) (p : String) : Bool :=
  match lookup st p with
  | some (.der _) => true
  | _ => false

def primaryChainsB (cfg : Cfg) (st : Store) (m : Manifest) : Bool :=
  match lookup m.entries m.signing, lookup st cfg.rootPath with
  | some path, some (.pem r) =>
    (match lookup st path with
     | some (.der c) => c.sigBy == r.pub
     | _ => false)
  | _, _ => false

/-- executable consistency check (the harness evaluates the same clauses on the real store through a
    fresh authority): the manifest parses, every entry resolves to a DER certificate, and a recorded
    primary signing key has an entry whose certificate verifies under the stored PEM root. -/
def consistentB (cfg : Cfg) (st : Store) : Bool :=
  match lookup st manifestName with
  | none => true
  | some (.manifest m) => m.entries.all (fun e => isDer st e.2) && (m.signing == "" || primaryChainsB cfg st m)
  | some _ => false

/-- the mutation rotate.Bootstrap builds -/
def bootMut (rootK signK : String) (rc sc : Cert) : Mut :=
  { primaryRoot := some rootK, primarySigning := some signK, certs := [(rootK, rc), (signK, sc)], rootCert := some rc }

/-- the mutation rotate.Key builds -/
def rotMut (k : String) (c : Cert) : Mut :=
  { primarySigning := some k, certs := [(k, c)] }

end GceTcb.CA
