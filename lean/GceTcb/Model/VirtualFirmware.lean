import GceTcb.Model.Endorse
import GceTcb.Model.Commit
/-
Model of endorse.VirtualFirmware (C15): measure, then either print (measurement-only) or sign and
commit to every configured VersionControl, as an effect log over the four doubles
(CertificateAuthority, Signer, VersionControl/ChangeOps) and standard output.  Core-only.

`legacyNilOps = true` selects the code before `fix: dry run no longer dereferences a nil
ChangeOps`: tryChange handed the change function a nil interface, whose first method call panics.
-/
namespace GceTcb.VF
open GceTcb GceTcb.Endorse GceTcb.Manifest

inductive Eff where
  | caPrimary
  | caCertificate (key : String)
  | caBundle (key : String)
  | sign (key : String) (doc : Golden)
  | vcs (i : Nat) (ev : Commit.Ev)      -- a call on the i-th VersionControl or one of its workspaces
  | stdout (line : String)

def ofSignEff : SignEff → Eff
  | .caPrimary => .caPrimary
  | .caCertificate k => .caCertificate k
  | .caBundle k => .caBundle k
  | .sign k d => .sign k d

structure Flags where
  measurementOnly : Bool
  launchVmsas : Nat            -- ec.SevSnp.LaunchVmsas (0 when SNP is not requested)
  budget : Int                 -- ec.CommitRetries
  cfg : Commit.Cfg             -- dry-run, snapshot dir, overwrite, candidate name, paths, …

def insertSorted (x : Nat × Bytes) : List (Nat × Bytes) → List (Nat × Bytes)
  | [] => [x]
  | y :: ys => if x.1 ≤ y.1 then x :: y :: ys else y :: insertSorted x ys

def lookupMeas (m : List (Nat × Bytes)) (k : Nat) : Bytes :=
  match m.find? (fun p => p.1 == k) with
  | some p => p.2
  | none => []

/-- go: endorse.outputSevMeasurement (map iteration rendered in ascending key order) -/
def renderSnp (launchVmsas : Nat) : Option SnpDoc → List String
  | none => []
  | some s =>
    if launchVmsas ≠ 0 then [hexEncode (lookupMeas s.measurements launchVmsas)]
    else (s.measurements.foldr insertSorted []).map fun p => s!"{p.1} {hexEncode p.2}"

/-- go: endorse.outputTdxMeasurement -/
def renderTdx : Option TdxDoc → List String
  | none => []
  | some d => d.rows.map fun r =>
      s!"RAM:{r.ramGib} UnacceptedMemory:{if r.earlyAccept then "false" else "true"} MRTD:{hexEncode r.mrtd}"

def renderMeasurements (launchVmsas : Nat) (g : Golden) : List String :=
  renderSnp launchVmsas g.snp ++ renderTdx g.tdx

inductive CRes where
  | ok | err | panic
deriving Repr, DecidableEq

/-- go: endorse.commitEndorsement → RetrySubmit for one VersionControl. -/
def commitPhase (legacyNilOps : Bool) (c : Commit.Cfg) (e : Entry) (budget : Int)
    (script : List Commit.Attempt) : List Commit.Ev × CRes :=
  if c.dryRun && legacyNilOps then ([], .panic)       -- nil ChangeOps: fileExists / writeEndorsement
  else
    let r := Commit.retrySubmit c e budget script
    (r.1, if r.2 = .ok then .ok else .err)

/-- the loop over ec.VCSs (each with the identity of its double): stop at the first failure -/
def commitAll (legacyNilOps : Bool) (c : Commit.Cfg) (e : Entry) (budget : Int) :
    List (Nat × List Commit.Attempt) → List Eff × CRes
  | [] => ([], .ok)
  | (i, s) :: rest =>
    let r := commitPhase legacyNilOps c e budget s
    if r.2 = .ok then
      let n := commitAll legacyNilOps c e budget rest
      (r.1.map (Eff.vcs i) ++ n.1, n.2)
    else (r.1.map (Eff.vcs i), r.2)

/-- go: `if ec.VCS != nil && len(ec.VCSs) == 0 { ec.VCSs = append(ec.VCSs, ec.VCS) }`.
    The double in ec.VCS has identity 0, ec.VCSs[j] has identity j+1. -/
def effectiveVcss (vcs : Option (List Commit.Attempt)) (vcss : List (List Commit.Attempt)) :
    List (Nat × List Commit.Attempt) :=
  match vcs, vcss with
  | some s, [] => [(0, s)]
  | _, l => (List.range l.length).map (· + 1) |>.zip l

/-- go: endorse.snapshotEndorsement — the S_CRTM version file is written iff the SVN (SNP's if SNP is
    requested, else TDX's) is non-zero. -/
def scrtmOf (c : Ctx) : Bool :=
  match c.snp, c.tdx with
  | some r, _ => r.svn != 0
  | none, some t => t.svn != 0
  | none, none => false

structure Run where
  effects : List Eff
  result : Outcome Unit

/-- The manifest entry an endorse run adds: candidate file, hex digest of the image, timestamp. -/
def newEntry (P : Prims) (c : Ctx) (ts : Int × Nat) (cfg : Commit.Cfg) : Entry :=
  ⟨basename cfg.cand, hexEncode (P.sha384 c.image), toString ts.1⟩

/-- go: endorse.VirtualFirmware.  `vcs` / `vcss`: the backend scripts of ec.VCS and ec.VCSs. -/
def virtualFirmware (legacyNilOps : Bool) (P : Prims) (T : Tables) (c : Ctx) (keys : Option Keys)
    (ts : Int × Nat) (fl : Flags) (vcs : Option (List Commit.Attempt))
    (vcss : List (List Commit.Attempt)) : Run :=
  match goldenMeasurement P T c with
  | .err e => ⟨[], .err e⟩
  | .panic s => ⟨[], .panic s⟩
  | .ok g =>
    if fl.measurementOnly then ⟨(renderMeasurements fl.launchVmsas g).map Eff.stdout, .ok ()⟩
    else
      match signDocEff keys ts g with
      | (effs, .err e) => ⟨effs.map ofSignEff, .err e⟩
      | (effs, .panic s) => ⟨effs.map ofSignEff, .panic s⟩
      | (effs, .ok _) =>
        let r := commitAll legacyNilOps fl.cfg (newEntry P c ts fl.cfg) fl.budget (effectiveVcss vcs vcss)
        ⟨effs.map ofSignEff ++ r.1,
         match r.2 with
         | .ok => .ok ()
         | .err => .err "commit"
         | .panic => .panic "nil ChangeOps"⟩

end GceTcb.VF
