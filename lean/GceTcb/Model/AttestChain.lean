import GceTcb.Base.Codec
import GceTcb.Model.HexB64
import GceTcb.Model.DecTotal
import GceTcb.Model.Extract
/-
C16, quote path at byte level: `extract.Attestation` from the ORIGINAL bytes of the quote down to the
certificate-table entry that `extract.Endorsement` returns.

Modelled here (function by function):
  go-sev-guest v0.13.0 abi.CertTableHeaderEntry.Unmarshal, abi.ParseSnpCertTableHeader, abi.CertTable.Unmarshal
  (32-bit `Offset+Length` and `uint32(len(certs))` with explicit wrap; the slice expression is a checked
  operation), abi.CertTable.Proto (the four AMD GUIDs go to named fields, every other entry into the Extras
  map: a later entry with the same GUID overwrites an earlier one), abi.CertTable.GetByGUIDString (FIRST
  match), abi.ReportToProto's acceptance conditions (size, policy bit 17 / bits 63..21, signer info, the
  must-be-zero ranges — version ≥ 3 shortens one of them —, the signature tail when the algorithm is 1) and
  the measurement it reads, abi.ReportCertsToProto; extractsev.CheckCertTable / FromAttestation /
  FromCertTable; extract.Attestation (the four protobuf attempts, then hex, then base64, then report+table,
  table alone, raw TDX quote — in the order of the code) and extract.quoteToProto.
Parameters (`Protos`): proto.Unmarshal into attest.Attestation / sevsnp.Attestation / sevsnp.Report /
  tdx.QuoteV4 and go-tdx-guest abi.QuoteToProto, with the laws `ProtoLaws` the theorems use (a first byte
  below 8 is a tag with field number 0, which every proto.Unmarshal rejects; QuoteToProto refuses a header
  version other than 4).
Map keys: the Extras map is keyed by uuid.UUID.String() of the entry's 16 GUID bytes, which is injective,
  so the model keys on the 16 bytes; sev.GCEFwCertGUID is `gceGuid` in that form.
`Variant`: the real chain is `goVariant` (the caller's bytes reach every decoder untouched); the other
  variants are the seeded / mutated chains kept as counter-models.
Core-only.
-/
namespace GceTcb.AttestChain
open GceTcb GceTcb.Codec GceTcb.DecTotal
open GceTcb.HexB64 (b64Decode b64DecodeLoose trimSpace)

def u32 : Nat := 4294967296
/-- go: abi.ReportSize, abi.CertTableEntrySize -/
def reportSize : Nat := 1184
def entrySize : Nat := 24

/-! ## certificate table (go-sev-guest abi) -/

structure Hdr where
  guid : Bytes
  off : Nat
  len : Nat
deriving DecidableEq, Repr

def leU32 (s : Bytes) (off : Nat) : Nat := leVal ((s.drop off).take 4)

/-- go: abi.CertTableHeaderEntry.Unmarshal (the caller has checked len ≥ 24) -/
def readHdr (s : Bytes) : Hdr := ⟨s.take 16, leU32 s 16, leU32 s 20⟩

/-- `next.Offset == 0 && next.Length == 0 && findNonZero(next.GUID[:], 0, 16) == GUIDSize` -/
def Hdr.isZero (h : Hdr) : Bool := h.off == 0 && h.len == 0 && h.guid.all (· == 0)

/-- the `for` loop of abi.ParseSnpCertTableHeader; fuel ≥ number of entries + 1 (the caller passes the
    length of the table + 1: every iteration consumes 24 bytes) -/
def headerLoop : Nat → Bytes → Option (List Hdr)
  | 0, _ => none
  | f + 1, s =>
    if s.length < entrySize then none
    else if (readHdr s).isZero then some []
    else
      match headerLoop f (s.drop entrySize) with
      | some r => some (readHdr s :: r)
      | none => none

/-- go: abi.ParseSnpCertTableHeader.  `entry.Offset < uint32(index)` with index = 24·(entries+1). -/
def parseHeader (certs : Bytes) : Option (List Hdr) :=
  if certs.length = 0 then some []
  else
    match headerLoop (certs.length + 1) certs with
    | none => none
    | some es =>
      if es.all (fun e => decide (((es.length + 1) * entrySize) % u32 ≤ e.off)) then some es else none

/-- the loop of go: extractsev.CheckCertTable (64-bit sums); the second test is the repair of this property:
    a range must end below 2^32 also in a table longer than that -/
def checkRanges (tableLen : Nat) : Nat → List Hdr → Bool
  | _, [] => true
  | total, e :: rest =>
    if e.off + e.len > tableLen then false
    else if e.off + e.len > 4294967295 then false
    else if total + e.len > tableLen then false
    else checkRanges tableLen (total + e.len) rest

/-- the loop as it was before the repair -/
def checkRangesOld (tableLen : Nat) : Nat → List Hdr → Bool
  | _, [] => true
  | total, e :: rest =>
    if e.off + e.len > tableLen then false
    else if total + e.len > tableLen then false
    else checkRangesOld tableLen (total + e.len) rest

/-- go: extractsev.CheckCertTable(table) == nil -/
def checkCertTable (table : Bytes) : Bool :=
  match parseHeader table with
  | none => false
  | some es => checkRanges table.length 0 es

/-- one iteration of abi.CertTable.Unmarshal: the bounds check in 32 bits, then
    `copy(make([]byte, Length), certs[Offset:Offset+Length])` with the upper bound wrapped -/
def entryBlob (certs : Bytes) (e : Hdr) : Outcome Bytes :=
  if (e.off + e.len) % u32 > certs.length % u32 then .err "range"
  else if e.off > (e.off + e.len) % u32 then .panic "abi.CertTable.Unmarshal:slice"
  else .ok ((certs.drop e.off).take e.len)

def unmarshalEntries (certs : Bytes) : List Hdr → Outcome (List (Bytes × Bytes))
  | [] => .ok []
  | e :: rest =>
    match entryBlob certs e with
    | .ok b =>
      match unmarshalEntries certs rest with
      | .ok r => .ok ((e.guid, b) :: r)
      | .err c => .err c
      | .panic s => .panic s
    | .err c => .err c
    | .panic s => .panic s

/-- go: abi.CertTable.Unmarshal: the (GUID, RawCert) entries in table order -/
def unmarshal (certs : Bytes) : Outcome (List (Bytes × Bytes)) :=
  match parseHeader certs with
  | none => .err "header"
  | some es => unmarshalEntries certs es

/-- sev.GCEFwCertGUID = "9f4116cd-c503-4f5a-8f6f-fb68882f4ce2" as uuid.Parse lays it out -/
def gceGuid : Bytes := [0x9f, 0x41, 0x16, 0xcd, 0xc5, 0x03, 0x4f, 0x5a, 0x8f, 0x6f, 0xfb, 0x68, 0x88, 0x2f, 0x4c, 0xe2]
/-- abi.VcekGUID, VlekGUID, AskGUID, ArkGUID -/
def vcekGuid : Bytes := [0x63, 0xda, 0x75, 0x8d, 0xe6, 0x64, 0x45, 0x64, 0xad, 0xc5, 0xf4, 0xb9, 0x3b, 0xe8, 0xac, 0xcd]
def vlekGuid : Bytes := [0xa8, 0x07, 0x4b, 0xc2, 0xa2, 0x5a, 0x48, 0x3e, 0xaa, 0xe6, 0x39, 0xc0, 0x45, 0xa0, 0xb8, 0xa1]
def askGuid : Bytes := [0x4a, 0xb7, 0xb3, 0x79, 0xbb, 0xac, 0x4f, 0xe4, 0xa0, 0x2f, 0x05, 0xae, 0xf3, 0x27, 0xc7, 0x82]
def arkGuid : Bytes := [0xc0, 0xb4, 0x06, 0xa4, 0xa8, 0x03, 0x49, 0x52, 0x97, 0x43, 0x3f, 0xb6, 0x01, 0x4c, 0xd0, 0xae]

def isAmd (g : Bytes) : Bool := g == vcekGuid || g == vlekGuid || g == askGuid || g == arkGuid

/-- the map written by go: abi.CertTable.Proto, read at key `k`: the LAST entry with that GUID -/
def lookupLast : List (Bytes × Bytes) → Bytes → Option Bytes
  | [], _ => none
  | (g, b) :: rest, k =>
    match lookupLast rest k with
    | some x => some x
    | none => if g == k then some b else none

/-- go: CertificateChain.GetExtras()[guid] after abi.CertTable.Proto -/
def extrasGet (entries : List (Bytes × Bytes)) (k : Bytes) : Option Bytes :=
  if isAmd k then none else lookupLast entries k

/-- number of keys of the Extras map -/
def extrasCount (entries : List (Bytes × Bytes)) : Nat :=
  (((entries.map (·.1)).filter (fun g => !isAmd g)).eraseDups).length

/-- go: abi.CertTable.GetByGUIDString: the FIRST entry with that GUID -/
def lookupFirst : List (Bytes × Bytes) → Bytes → Option Bytes
  | [], _ => none
  | (g, b) :: rest, k => if g == k then some b else lookupFirst rest k

/-- go: extractsev.FromCertTable -/
def fromCertTable (table : Bytes) : Outcome Bytes :=
  if !checkCertTable table then .err "check"
  else
    match unmarshal table with
    | .ok es =>
      match lookupFirst es gceGuid with
      | some b => .ok b
      | none => .err "guid-not-found"
    | .err c => .err c
    | .panic s => .panic s

/-! ## attestation report (go-sev-guest abi.ReportToProto) -/

/-- go: abi.mbz(data, lo, hi) == nil -/
def mbz (data : Bytes) (lo hi : Nat) : Bool := ((data.drop lo).take (hi - lo)).all (· == 0)

def leU64 (s : Bytes) (off : Nat) : Nat := leVal ((s.drop off).take 8)

/-- go: abi.ParseSnpPolicy(p) succeeds: bit 17 is one, bits 63..21 are zero -/
def policyOk (p : Nat) : Bool := p / 131072 % 2 == 1 && p / 2097152 == 0

/-- go: abi.ParseSignerInfo(s) succeeds: bits 31..5 zero, signing key not in 2..6 -/
def signerOk (s : Nat) : Bool := s / 32 == 0 && !(1 < s / 4 % 8 && s / 4 % 8 < 7)

/-- go: abi.ReportToProto(data) returns a report (its measurement is data[0x90:0xC0]) -/
def reportAccepted (data : Bytes) : Bool :=
  decide (reportSize ≤ data.length) && policyOk (leU64 data 0x08) && signerOk (leU32 data 0x48)
    && mbz data 0x4C 0x50
    && mbz data (if leU32 data 0 ≥ 3 then 0x18B else 0x188) 0x1A0
    && mbz data 0x1EB 0x1EC && mbz data 0x1EF 0x1F0 && mbz data 0x1F8 0x2A0
    && (if leU32 data 0x34 == 1 then mbz data (0x2A0 + 144) reportSize else true)

def reportMeasurement (data : Bytes) : Bytes := (data.drop 0x90).take 48

/-! ## the chain -/

/-- what extract.Attestation returns -/
inductive Att where
  /-- one of the four protobuf readings (the parameter's result) -/
  | proto (t : Tee)
  /-- raw report + certificate table (measurement read from the report) or the table alone
      (`Measurement: []byte{0}`): the table's entries in order -/
  | sevRaw (measurement : Bytes) (entries : List (Bytes × Bytes))
  /-- raw TDX quote -/
  | tdxRaw (q : PQuote)
deriving Repr, DecidableEq

/-- third-party decoders that stay parameters -/
structure Protos where
  unmarshalTpm : Bytes → Option Tee
  unmarshalSevAtt : Bytes → Option PAtt
  unmarshalReport : Bytes → Option PReport
  unmarshalQuoteV4 : Bytes → Option PQuote
  /-- tabi.QuoteToProto: `ok none` = a quote that is not a *QuoteV4 -/
  quoteToProto : Bytes → Outcome (Option PQuote)

def protoRejects (X : Protos) (q : Bytes) : Prop :=
  X.unmarshalTpm q = none ∧ X.unmarshalSevAtt q = none ∧ X.unmarshalReport q = none ∧ X.unmarshalQuoteV4 q = none

def tdxRejects (X : Protos) (q : Bytes) : Prop := ∀ r, X.quoteToProto q ≠ .ok r

/-- facts about the parameters used by the theorems (each compared with the real functions by stream
    c16wire, op `law`) -/
structure ProtoLaws (X : Protos) : Prop where
  /-- a first byte below 8 is a complete tag with field number 0: proto.Unmarshal fails -/
  field0 : ∀ (c : UInt8) (rest : Bytes), c.toNat < 8 → protoRejects X (c :: rest)
  /-- go-tdx-guest determineQuoteFormat: fewer than two bytes, or a version other than 4 -/
  tdxVersion : ∀ q : Bytes, leVal (q.take 2) ≠ 4 → tdxRejects X q
  tdxShort : ∀ q : Bytes, q.length < 2 → tdxRejects X q

structure Variant where
  /-- applied to the quote before the hex / base64 attempt; its result replaces the quote -/
  pre : Bytes → Bytes
  b64 : Bytes → Option Bytes
  /-- `true`: the text attempts come AFTER the raw attempts (mutation) -/
  rawFirst : Bool := false

/-- the code as it is -/
def goVariant : Variant := { pre := id, b64 := b64Decode }
/-- seeded/C16-G: `quote = bytes.TrimSpace(quote)` before the hex attempt -/
def trimVariant : Variant := { pre := trimSpace, b64 := b64Decode }
/-- the streaming decoder when a padded quantum ends a chunk (see Model/HexB64) -/
def looseVariant : Variant := { pre := id, b64 := b64DecodeLoose }

/-- "If hex- or base64-encoded, decode it." -/
def textDecode (v : Variant) (quote : Bytes) : Bytes :=
  match HexB64.hexDecode (v.pre quote) with
  | some d => d
  | none =>
    match v.b64 (v.pre quote) with
    | some d => d
    | none => v.pre quote

/-- go: abi.ReportCertsToProto -/
def reportCertsToProto (data : Bytes) : Outcome Att :=
  if reportAccepted (if reportSize ≤ data.length then data.take reportSize else data) then
    match unmarshal (if reportSize ≤ data.length then data.drop reportSize else []) with
    | .ok es => .ok (.sevRaw (reportMeasurement data) es)
    | .err c => .err c
    | .panic s => .panic s
  else .err "report"

/-- go: extract.quoteToProto + the type switch of extract.Attestation -/
def rawTdx (X : Protos) (quote2 : Bytes) : Outcome Att :=
  match X.quoteToProto quote2 with
  | .ok (some q) => .ok (.tdxRaw q)
  | .ok none => .err "unknown-tdx-format"
  | .err _ => .err "unknown-format"
  | .panic _ => .err "unknown-format"          -- recovered

/-- "Attempt to decode as just the SEV-SNP certificate table." and what follows -/
def tableOrTdx (X : Protos) (quote2 : Bytes) : Outcome Att :=
  if checkCertTable quote2 then
    match unmarshal quote2 with
    | .ok es => .ok (.sevRaw [0] es)
    | .err _ => rawTdx X quote2
    | .panic s => .panic s
  else rawTdx X quote2

/-- the raw formats of go: extract.Attestation applied to `quote2` -/
def rawFormats (X : Protos) (quote2 : Bytes) : Outcome Att :=
  if checkCertTable (if reportSize ≤ quote2.length then quote2.drop reportSize else []) then
    match reportCertsToProto quote2 with
    | .ok a => .ok a
    | .err _ => tableOrTdx X quote2
    | .panic s => .panic s
  else tableOrTdx X quote2

def afterProtos (v : Variant) (X : Protos) (quote : Bytes) : Outcome Att :=
  if v.rawFirst then
    match rawFormats X quote with
    | .err _ => rawFormats X (textDecode v quote)
    | o => o
  else rawFormats X (textDecode v quote)

def afterSevAtt (v : Variant) (X : Protos) (quote : Bytes) : Outcome Att :=
  match X.unmarshalReport quote with
  | some r => .ok (.proto (.sev (some ⟨some r, none⟩)))
  | none =>
    match X.unmarshalQuoteV4 quote with
    | some q => .ok (.proto (.tdx (some q)))
    | none => afterProtos v X quote

/-- go: extract.Attestation -/
def attestationWith (v : Variant) (X : Protos) (quote : Bytes) : Outcome Att :=
  if quote.length = 0 then .err "quote-nil"
  else
    match X.unmarshalTpm quote with
    | some t => .ok (.proto t)
    | none =>
      match X.unmarshalSevAtt quote with
      | some sa =>
        if (PAtt.measurement (some sa)).length = measurementSize then .ok (.proto (.sev (some sa)))
        else afterSevAtt v X quote
      | none => afterSevAtt v X quote

def attestation (X : Protos) (quote : Bytes) : Outcome Att := attestationWith goVariant X quote

/-- what the rest of extract.Endorsement looks at (the `Tee` parameter of Model/Extract): technology,
    measurement, GCE entry.  `none`: an attest.Attestation without TEE attestation (ErrUnknownFormat). -/
def teeOf : Att → Option Extract.Tee
  | .proto .none => none
  | .proto (.sev a) => some (.sev (PAtt.measurement a) (slookup (PAtt.extras a) gceFwCertGUID))
  | .proto (.tdx q) => some (.tdx (PQuote.mrtd q))
  | .sevRaw m es => some (.sev m (extrasGet es gceGuid))
  | .tdxRaw q => some (.tdx (PQuote.mrtd (some q)))

/-- the `quote` / provider-quote field of Model/Extract.Options computed from the bytes -/
def quoteTee (v : Variant) (X : Protos) (quote : Bytes) : Option Extract.Tee :=
  match attestationWith v X quote with
  | .ok a => teeOf a
  | _ => none

/-! ## tables too long for the line protocol: a prefix followed by zero bytes -/

/-- `n` bytes from `off` of the table `prefix ++ zeros …` -/
def sparseRange (pre : Bytes) (off n : Nat) : Bytes := (List.range n).map (fun i => pre.getD (off + i) 0)

def entryBlobSparse (pre : Bytes) (len : Nat) (e : Hdr) : Outcome Bytes :=
  if (e.off + e.len) % u32 > len % u32 then .err "range"
  else if e.off > (e.off + e.len) % u32 then .panic "abi.CertTable.Unmarshal:slice"
  else .ok (sparseRange pre e.off e.len)

def unmarshalSparse (pre : Bytes) (len : Nat) : List Hdr → Outcome (List (Bytes × Bytes))
  | [] => .ok []
  | e :: rest =>
    match entryBlobSparse pre len e with
    | .ok b =>
      match unmarshalSparse pre len rest with
      | .ok r => .ok ((e.guid, b) :: r)
      | .err c => .err c
      | .panic s => .panic s
    | .err c => .err c
    | .panic s => .panic s

/-- go: extractsev.CheckCertTable / FromCertTable on a table of `len` bytes whose first bytes are `pre` (which
    holds the header and its terminator) and whose other bytes are zero: (the check passes, FromCertTable).
    `old` = the check before the repair. -/
def fromCertTableSparse (old : Bool) (pre : Bytes) (len : Nat) : Bool × Outcome Bytes :=
  match headerLoop (pre.length + 1) pre with
  | none => (false, .err "header")
  | some es =>
    if es.all (fun e => decide (((es.length + 1) * entrySize) % u32 ≤ e.off))
        && (if old then checkRangesOld len 0 es else checkRanges len 0 es) then
      (true,
        match unmarshalSparse pre len es with
        | .ok ents =>
          (match lookupFirst ents gceGuid with
           | some b => .ok b
           | none => .err "guid-not-found")
        | .err c => .err c
        | .panic s => .panic s)
    else (false, .err "check")

/-! ## a certificate table as a producer lays it out -/

def le32 (n : Nat) : Bytes := leBytes 4 n

def hdrBytes : List Hdr → Bytes
  | [] => []
  | e :: rest => e.guid ++ le32 e.off ++ le32 e.len ++ hdrBytes rest

def zeros (n : Nat) : Bytes := List.replicate n 0

/-- go: abi.CertTable.Marshal (cursor starts behind the header and the terminator) -/
def layoutHdrs : Nat → List (Bytes × Bytes) → List Hdr
  | _, [] => []
  | cur, (g, b) :: rest => ⟨g, cur, b.length⟩ :: layoutHdrs (cur + b.length) rest

def blobsOf : List (Bytes × Bytes) → Bytes
  | [] => []
  | (_, b) :: rest => b ++ blobsOf rest

def marshal (es : List (Bytes × Bytes)) : Bytes :=
  hdrBytes (layoutHdrs ((es.length + 1) * entrySize) es) ++ zeros entrySize ++ blobsOf es

end GceTcb.AttestChain
