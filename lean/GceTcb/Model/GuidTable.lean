import GceTcb.Base.Line
import GceTcb.Base.Codec
import GceTcb.Base.Outcome
import GceTcb.Model.Codecs
/-
C04 / C08 — executable model of ovmf/fw_guid_table_ops.go: the walk over OVMF's GUIDed table from the
end of the image.  Core-only.

Go semantics modelled explicitly:
* every slice expression `s[a:b]` is the checked operation `slice site s a b`, which panics exactly
  when Go would for a slice whose capacity equals its length (`0 ≤ a ≤ b ≤ len s`); the bounds are
  `Int` so that an index that Go computes as a negative `int` is a panic here too.  (For a slice with
  spare capacity Go checks against `cap ≥ len`: a model run without panic is a Go run without panic
  for every capacity; the harness passes exact-capacity images, so the two coincide in the
  correspondence.)
* `int` is 64 bits: `len(firmware)` and the uint16/uint32 values converted to `int` never wrap.
* the map `guid string → block` is an association list keyed by the 16 uuid bytes (uuid.String is
  injective on them), in insertion order; Go never iterates over it, it only looks keys up.

The loop of GetFwGUIDToBlockMap is well-founded recursion on the unprocessed length: Lean's
termination checker accepts it because one iteration (`walkStep`) removes at least 18 bytes
(`walkStep_decreases`).  `guidWalkTicks` counts the iterations of the same loop.
-/
namespace GceTcb.GuidTable
open GceTcb GceTcb.Codec GceTcb.Codecs

/-- Go `s[a:b]` (capacity = length). -/
def slice (site : String) (s : Bytes) (a b : Int) : Outcome Bytes :=
  if 0 ≤ a ∧ a ≤ b ∧ b ≤ (s.length : Int) then .ok ((s.drop a.toNat).take (b.toNat - a.toNat))
  else .panic site

/-- uuid bytes (RFC 4122 text order) of abi.FwGUIDTableFooterGUID 96b582de-1fb2-45f7-baea-a366c55a082d -/
def footerGuid : Bytes :=
  [0x96, 0xb5, 0x82, 0xde, 0x1f, 0xb2, 0x45, 0xf7, 0xba, 0xea, 0xa3, 0x66, 0xc5, 0x5a, 0x08, 0x2d]

/-- go: abi.FwGUIDEntry.PopulateFromBytes — `data[0:2]`, `data[2:SizeofFwGUIDEntry]` (two slice sites;
    the error of FromEFIGUID is impossible for 16 bytes and ignored by every caller). -/
def populateFromBytes (data : Bytes) : Outcome FwGuidEntry :=
  match slice "abi.FwGUIDEntry.PopulateFromBytes#0:slice" data 0 2 with
  | .ok _ =>
    match slice "abi.FwGUIDEntry.PopulateFromBytes#1:slice" data 2 18 with
    | .ok _ => .ok (fwGuidEntryRec.ofVals (decF fwGuidEntryRec.ws data))
    | .err e => .err e
    | .panic s => .panic s
  | .err e => .err e
  | .panic s => .panic s

/-- go: ovmf.GetFwGUIDTable -/
def getFwGUIDTable (fw : Bytes) : Outcome Bytes :=
  if fw.length < 50 then .err "fw-small"
  else
    match slice "ovmf.GetFwGUIDTable#0:slice" fw ((fw.length : Int) - 50) fw.length with
    | .ok ent =>
      match populateFromBytes ent with
      | .ok e =>
        if e.guid ≠ footerGuid then .err "no-footer"
        else if e.size < 18 ∨ fw.length < e.size + 32 then .err "table-size"
        else
          -- tableContentsLength := int(Size) - 18; tableStartOffset := len - 0x20 - int(Size)
          slice "ovmf.GetFwGUIDTable#1:slice" fw ((fw.length : Int) - 32 - e.size)
            ((fw.length : Int) - 32 - e.size + ((e.size : Int) - 18))
      | .err c => .err c
      | .panic s => .panic s
    | .err c => .err c
    | .panic s => .panic s

abbrev BlockMap := List (Bytes × Bytes)

def BlockMap.lookup (m : BlockMap) (g : Bytes) : Option Bytes :=
  match m.find? (fun p => p.1 == g) with
  | some p => some p.2
  | none => none

/-- One iteration of the loop of GetFwGUIDToBlockMap with `n = guidTableUnprocessedLength > 0`:
    the new unprocessed length and the extended map. -/
def walkStep (table : Bytes) (n : Nat) (acc : BlockMap) : Outcome (Nat × BlockMap) :=
  if n < 18 then .err "table-remaining"
  else
    -- entryPos := n - 18; guidTable[entryPos : entryPos+18]
    match slice "ovmf.GetFwGUIDToBlockMap#0:slice" table ((n : Int) - 18) ((n : Int) - 18 + 18) with
    | .ok eb =>
      match populateFromBytes eb with
      | .ok e =>
        if n < e.size ∨ e.size < 18 then .err "entry-size"
        else if (acc.lookup e.guid).isSome then .err "dup-guid"
        else
          -- blockStartOffset := n - size; guidTable[blockStartOffset : blockStartOffset+size]
          match slice "ovmf.GetFwGUIDToBlockMap#1:slice" table ((n : Int) - e.size) ((n : Int) - e.size + e.size) with
          | .ok blk => .ok (n - e.size, acc ++ [(e.guid, blk)])
          | .err c => .err c
          | .panic s => .panic s
      | .err c => .err c
      | .panic s => .panic s
    | .err c => .err c
    | .panic s => .panic s

/-- Every accepted entry has size ≥ 18, so the unprocessed length strictly decreases. -/
theorem walkStep_decreases {table : Bytes} {n : Nat} {acc : BlockMap} {n' : Nat} {acc' : BlockMap}
    (h : walkStep table n acc = .ok (n', acc')) : n' + 18 ≤ n := by
  unfold walkStep at h
  split at h
  · cases h
  · split at h
    · split at h
      · split at h
        · cases h
        · split at h
          · cases h
          · split at h
            · rename_i e _ hsz _ _ _
              cases h
              omega
            · cases h
            · cases h
      · cases h
      · cases h
    · cases h
    · cases h

/-- go: the `for guidTableUnprocessedLength > 0` loop of ovmf.GetFwGUIDToBlockMap -/
def guidWalk (table : Bytes) (n : Nat) (acc : BlockMap) : Outcome BlockMap :=
  if n = 0 then .ok acc
  else
    match h : walkStep table n acc with
    | .ok (n', acc') => guidWalk table n' acc'
    | .err c => .err c
    | .panic s => .panic s
termination_by n
decreasing_by have := walkStep_decreases h; omega

/-- loop iterations executed by `guidWalk` (the last, failing, iteration included) -/
def guidWalkTicks (table : Bytes) (n : Nat) (acc : BlockMap) : Nat :=
  if n = 0 then 0
  else
    match h : walkStep table n acc with
    | .ok (n', acc') => 1 + guidWalkTicks table n' acc'
    | .err _ => 1
    | .panic _ => 1
termination_by n
decreasing_by have := walkStep_decreases h; omega

/-- go: ovmf.GetFwGUIDToBlockMap -/
def getFwGUIDToBlockMap (fw : Bytes) : Outcome BlockMap :=
  match getFwGUIDTable fw with
  | .ok table => guidWalk table table.length []
  | .err c => .err c
  | .panic s => .panic s

def getFwGUIDToBlockMapTicks (fw : Bytes) : Nat :=
  match getFwGUIDTable fw with
  | .ok table => guidWalkTicks table table.length []
  | _ => 0

end GceTcb.GuidTable
