import GceTcb.Model.SevLd
import GceTcb.Gen.SevLayout
/- The model's configuration as regenerated from the Go source on every check run. -/
namespace GceTcb.SevLd

def genCfg : Cfg :=
  { layout := Gen.SevLayout.VmsaLayout, sizeofVmsa := Gen.SevLayout.SizeofVmsaCheck,
    template := Gen.SevLayout.VmsaTemplate, widths := Gen.SevLayout.BitWidths }

end GceTcb.SevLd
