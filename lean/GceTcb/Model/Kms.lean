import GceTcb.Base.Line
import GceTcb.Gen.Kms
/-
Model of keys/gcpkms (C20): sign.go (Signer.Sign), keys.go (destroyableState, wipeoutKey, Wipeout),
bootstrap.go (getEnabledOrPendingKeyVersion, waitForKeyGen, waitForKeyVersionGen, recreateKeyRing,
recreateCryptoKey, CreateNewRootKey, CreateFirstSigningKey), rotate.go (CreateNewSigningKeyVersion).
Core-only.

The Cloud KMS service is a parameter: listings are *pagers* (token ↦ page), the single-shot RPCs are scripted
answers, and `fail : Nat → Bool` says which calls (by global call index) return a service error.  The model
threads the visible service state (`state` of every key version) and the log of calls received.

The three listing loops exist in two styles: `Style.fixed` is the code in the tree (iterate until the next-page
token is empty); `Style.old ps` is the loop before the `fix:` commit (stop on a page shorter than `ps`,
otherwise follow the token), kept for the witness theorems `C20_old_loop_*`.
-/
namespace GceTcb.Kms

/-! ## CRC32C (Castagnoli), executable; validated against hash/crc32 by the correspondence run.
    The theorems never unfold it: they are stated over an abstract `crc : Bytes → Nat`. -/

def crcStep (c : UInt32) : UInt32 :=
  if c &&& 1 = 1 then (c >>> 1) ^^^ 0x82F63B78 else c >>> 1

def crcByte (c : UInt32) (b : UInt8) : UInt32 :=
  crcStep (crcStep (crcStep (crcStep (crcStep (crcStep (crcStep (crcStep (c ^^^ b.toUInt32))))))))

def crc32c (bs : Bytes) : Nat :=
  ((bs.foldl crcByte 0xFFFFFFFF) ^^^ 0xFFFFFFFF).toNat

/-- flip bit `i` (0 = least significant bit of the first byte) of a byte string -/
def flipBit : Bytes → Nat → Bytes
  | [], _ => []
  | b :: bs, i => if i < 8 then (b ^^^ (1 <<< i.toUInt8)) :: bs else b :: flipBit bs (i - 8)

/-! ## Signer.Sign -/

/-- The `crypto.SignerOpts` argument as far as Sign distinguishes it. -/
inductive SignerOpts where
  | other                            -- not a `*rsa.PSSOptions` (includes the nil interface): type assertion fails
  | nilPss                           -- `(*rsa.PSSOptions)(nil)`: the assertion succeeds and `*got` panics
  | pss (salt : Int) (hash : Nat)    -- `&rsa.PSSOptions{SaltLength: salt, Hash: hash}`
deriving DecidableEq, Repr

structure SignReq where
  name : String
  digest : Bytes       -- Digest.Sha256
  digestCrc : Int      -- DigestCrc32C (always set by Sign)
  dataCrc : Int        -- DataCrc32C   (always set by Sign: crc of no data)
deriving DecidableEq, Repr

structure SignResp where
  signature : Bytes
  sigCrc : Int         -- SignatureCrc32C.GetValue() (0 when the wrapper is absent)
  verifiedData : Bool
  verifiedDigest : Bool
  name : String
deriving DecidableEq, Repr

inductive SignOut where
  | sig (s : Bytes)
  | err (cls : String)
  | panic
deriving DecidableEq, Repr

structure SignResult where
  sent : Option SignReq    -- the request the service received, if any
  out : SignOut
deriving DecidableEq, Repr

/-- go: `got, ok := opts.(*rsa.PSSOptions); !ok || *got != wantOpts` (negated) -/
def optsOk : SignerOpts → Bool
  | .pss s h => s == Gen.Kms.wantSalt && h == Gen.Kms.wantHash
  | _ => false

/-- go: the `kmspb.AsymmetricSignRequest` literal in Sign -/
def mkSignReq (crc : Bytes → Nat) (name : String) (digest : Bytes) : SignReq :=
  ⟨name, digest, crc digest, crc []⟩

/-- go: the three response checks of Sign, in source order.  (`request.GetDataCrc32C() != nil` and
    `request.GetDigestCrc32C() != nil` are always true: Sign sets both wrappers.)  The response's `name`
    is not consulted. -/
def checkResp (crc : Bytes → Nat) (r : SignResp) : SignOut :=
  if (crc r.signature : Int) ≠ r.sigCrc then .err "signature_crc32c"
  else if r.verifiedData = false then .err "verified_data_crc32c"
  else if r.verifiedDigest = false then .err "verified_digest_crc32c"
  else .sig r.signature

/-- go: gcpkms.Signer.Sign.  `svc` is the AsymmetricSign RPC (`none` = RPC error). -/
def sign (crc : Bytes → Nat) (svc : SignReq → Option SignResp) (name : String) (digest : Bytes) :
    SignerOpts → SignResult
  | .other => ⟨none, .err "opts"⟩
  | .nilPss => ⟨none, .panic⟩
  | .pss s h =>
    if optsOk (.pss s h) = true then
      match svc (mkSignReq crc name digest) with
      | none => ⟨some (mkSignReq crc name digest), .err "rpc"⟩
      | some r => ⟨some (mkSignReq crc name digest), checkResp crc r⟩
    else ⟨none, .err "opts"⟩

/-! ## Key-version states and the destroyable table -/

abbrev stEnabled : Nat := Gen.Kms.stEnabled
abbrev stDisabled : Nat := Gen.Kms.stDisabled
abbrev stDestroyScheduled : Nat := Gen.Kms.stDestroyScheduled
abbrev stPending : Nat := Gen.Kms.stPendingGeneration

def lookupState : List (Nat × Bool) → Nat → Option Bool
  | [], _ => none
  | (k, v) :: rest, s => if k = s then some v else lookupState rest s

/-- go: gcpkms.destroyableState — `none` is the "unknown key state" error (with destroyable = false). -/
def destroyableState (s : Nat) : Option Bool := lookupState Gen.Kms.destroyableTable s

/-! ## Service model: pagers, calls, state -/

structure Page (α : Type) where
  items : List α
  next : String        -- next_page_token; "" = no further page
  total : Nat          -- total_size
deriving Repr, DecidableEq

abbrev Pager (α : Type) := String → Page α

/-- `Walk p tok pages`: following next-page tokens from `tok` the pager yields exactly `pages`
    (in order) and the last one carries the empty token. -/
def Walk {α : Type} (p : Pager α) : String → List (Page α) → Prop
  | _, [] => False
  | tok, [pg] => p tok = pg ∧ pg.next = ""
  | tok, pg :: pg' :: rest => p tok = pg ∧ pg.next ≠ "" ∧ Walk p pg.next (pg' :: rest)

def flatItems {α : Type} (pages : List (Page α)) : List α := pages.flatMap (·.items)

/-- A legal pager for the resource list `all`: following the tokens from "" takes finitely many pages,
    ends at "", and the pages' items concatenate to `all` (every item once, in order).  Pages may be
    short or empty while a token is present. -/
def LegalPager {α : Type} (p : Pager α) (all : List α) : Prop :=
  ∃ pages, Walk p "" pages ∧ flatItems pages = all

structure Ver where
  name : String
  state : Nat
deriving DecidableEq, Repr

inductive Call where
  | listKeys (tok : String)
  | listVers (key tok : String)
  | destroy (name : String)
  | createRing
  | createKey (id : String) (hsm : Bool)
  | createVer (parent : String)
  | get (name : String)
  | setIam (key : String)
deriving DecidableEq, Repr

structure Ev where
  call : Call
  ok : Bool            -- the service answered without error
deriving DecidableEq, Repr

structure Svc where
  keys : Pager String                    -- ListCryptoKeys: key names
  vers : String → Pager String           -- ListCryptoKeyVersions per key: version names
  fail : Nat → Bool                      -- call index ↦ the service returns an (ordinary) error
  ringExists : Bool                      -- CreateKeyRing answers AlreadyExists
  keyExists : Bool                       -- CreateCryptoKey answers AlreadyExists
  createVer : Ver                        -- answer of CreateCryptoKeyVersion
  gets : Nat → String → Option Ver       -- answer of the i-th GetCryptoKeyVersion for a requested name

structure St where
  state : String → Nat                   -- current state of every key version
  log : List Ev                          -- calls received, newest first

def St.push (st : St) (c : Call) (ok : Bool) : St := ⟨st.state, ⟨c, ok⟩ :: st.log⟩
def St.idx (st : St) : Nat := st.log.length

/-- The version objects a listing returns: names with their state at the time of the call. -/
def snapshot (st : St) (names : List String) : List Ver := names.map fun n => ⟨n, st.state n⟩

/-- Which loop exit the listing loops use. -/
inductive Style where
  | fixed               -- `pageToken = resp.GetNextPageToken(); if pageToken == "" { break }`
  | old (ps : Nat)      -- `if len(items) < keyPageSize { break }; pageToken = resp.GetNextPageToken()`
deriving DecidableEq, Repr

def Style.stop : Style → Nat → String → Bool
  | .fixed, _, next => next == ""
  | .old ps, len, _ => decide (len < ps)

/-! ## keys.go: wipeoutKey / Wipeout -/

/-- The service's DestroyCryptoKeyVersion: ENABLED/DISABLED become DESTROY_SCHEDULED, any other state is
    a FAILED_PRECONDITION error.  Returns the new state and whether the call succeeded. -/
def callDestroy (svc : Svc) (st : St) (name : String) : St × Bool :=
  if svc.fail st.idx = true then (st.push (.destroy name) false, false)
  else if st.state name = stEnabled ∨ st.state name = stDisabled then
    (⟨fun x => if x = name then stDestroyScheduled else st.state x, ⟨.destroy name, true⟩ :: st.log⟩, true)
  else (st.push (.destroy name) false, false)

/-- accumulator of the wipeout loops: service state + "multierr result is non-nil" -/
structure Acc where
  st : St
  failed : Bool

/-- go: the inner `for _, kver := range resp.GetCryptoKeyVersions()` of wipeoutKey -/
def destroyVersions (svc : Svc) : List Ver → Acc → Acc
  | [], a => a
  | v :: vs, a =>
    match destroyableState v.state with
    | none => destroyVersions svc vs ⟨a.st, true⟩
    | some false => destroyVersions svc vs a
    | some true =>
      destroyVersions svc vs ⟨(callDestroy svc a.st v.name).1, a.failed || !(callDestroy svc a.st v.name).2⟩

/-- one successfully listed page of wipeoutKey -/
def wipeoutKeyPage (svc : Svc) (key tok : String) (a : Acc) : Acc :=
  destroyVersions svc (snapshot a.st ((svc.vers key tok).items)) ⟨a.st.push (.listVers key tok) true, a.failed⟩

/-- go: gcpkms.Manager.wipeoutKey (the `for` loop; `none` = fuel exhausted).  A listing error returns
    that error at once. -/
def wipeoutKeyLoop (sty : Style) (svc : Svc) (key : String) : Nat → String → Acc → Option Acc
  | 0, _, _ => none
  | fuel + 1, tok, a =>
    if svc.fail a.st.idx = true then some ⟨a.st.push (.listVers key tok) false, true⟩
    else if sty.stop (svc.vers key tok).items.length (svc.vers key tok).next = true then
      some (wipeoutKeyPage svc key tok a)
    else wipeoutKeyLoop sty svc key fuel (svc.vers key tok).next (wipeoutKeyPage svc key tok a)

/-- go: the inner `for _, key := range resp.GetCryptoKeys()` of Wipeout
    (`result = multierr.Append(result, m.wipeoutKey(ctx, key.GetName()))`) -/
def wipeoutKeys (sty : Style) (svc : Svc) (fuel : Nat) : List String → Acc → Option Acc
  | [], a => some a
  | k :: ks, a =>
    match wipeoutKeyLoop sty svc k fuel "" ⟨a.st, false⟩ with
    | none => none
    | some r => wipeoutKeys sty svc fuel ks ⟨r.st, a.failed || r.failed⟩

/-- go: gcpkms.Manager.Wipeout (the `for` loop) -/
def wipeoutLoop (sty : Style) (svc : Svc) (fuelK : Nat) : Nat → String → Acc → Option Acc
  | 0, _, _ => none
  | fuel + 1, tok, a =>
    if svc.fail a.st.idx = true then some ⟨a.st.push (.listKeys tok) false, true⟩
    else
      match wipeoutKeys sty svc fuelK (svc.keys tok).items ⟨a.st.push (.listKeys tok) true, a.failed⟩ with
      | none => none
      | some a' =>
        if sty.stop (svc.keys tok).items.length (svc.keys tok).next = true then some a'
        else wipeoutLoop sty svc fuelK fuel (svc.keys tok).next a'

/-- go: gcpkms.Manager.Wipeout.  `none` = some loop ran out of fuel. -/
def wipeout (sty : Style) (svc : Svc) (fuel : Nat) (st : St) : Option Acc :=
  wipeoutLoop sty svc fuel fuel "" ⟨st, false⟩

/-! ## bootstrap.go -/

inductive Scan where
  | ret (v : Ver)                 -- `return v, nil` on the first ENABLED version
  | cont (pending : Option Ver)   -- page exhausted; latest PENDING_GENERATION seen so far
deriving DecidableEq, Repr

/-- go: the inner `for _, v := range vers.GetCryptoKeyVersions()` of getEnabledOrPendingKeyVersion -/
def scanPage : List Ver → Option Ver → Scan
  | [], pend => .cont pend
  | v :: vs, pend =>
    if v.state = stEnabled then .ret v
    else if v.state = stPending then scanPage vs (some v)
    else scanPage vs pend

inductive Gep where
  | found (v : Ver)
  | errList          -- listing error
  | errMissing       -- "new CryptoKey has missing initial version" (TotalSize == 0)
  | errNoVersions    -- ErrNoKeyVersions
  | diverged
deriving DecidableEq, Repr

def gepEnd : Option Ver → Gep
  | none => .errNoVersions
  | some v => .found v

/-- go: gcpkms.Manager.getEnabledOrPendingKeyVersion -/
def gepLoop (sty : Style) (svc : Svc) (key : String) : Nat → String → Option Ver → St → St × Gep
  | 0, _, _, st => (st, .diverged)
  | fuel + 1, tok, pend, st =>
    if svc.fail st.idx = true then (st.push (.listVers key tok) false, .errList)
    else if (svc.vers key tok).total = 0 then (st.push (.listVers key tok) true, .errMissing)
    else
      match scanPage (snapshot st (svc.vers key tok).items) pend with
      | .ret v => (st.push (.listVers key tok) true, .found v)
      | .cont pend' =>
        if sty.stop (svc.vers key tok).items.length (svc.vers key tok).next = true then
          (st.push (.listVers key tok) true, gepEnd pend')
        else gepLoop sty svc key fuel (svc.vers key tok).next pend' (st.push (.listVers key tok) true)

inductive Boot where
  | ok (name : String)
  | err (cls : String)
  | diverged
deriving DecidableEq, Repr

inductive PollStep where
  | done (r : Boot)
  | again               -- PENDING_GENERATION: wait and poll again
deriving DecidableEq, Repr

/-- go: one iteration of waitForKeyVersionGen up to the `select`; `i` is the poll number. -/
def pollOnce (svc : Svc) (name : String) (i : Nat) (st : St) : St × PollStep :=
  if svc.fail st.idx = true then (st.push (.get name) false, .done (.err "poll"))
  else
    match svc.gets i name with
    | none => (st.push (.get name) false, .done (.err "poll"))
    | some v =>
      if v.state = stEnabled then (st.push (.get name) true, .done (.ok v.name))
      else if v.state = stPending then (st.push (.get name) true, .again)
      else (st.push (.get name) true, .done (.err "unexpected-state"))

/-- go: gcpkms.Manager.waitForKeyVersionGen.  The fuel is the number of *further* polls the context's
    deadline allows after the first one (0 = context already done: one poll, then "timeout"). -/
def poll (svc : Svc) (name : String) : Nat → Nat → St → St × Boot
  | 0, i, st =>
    match pollOnce svc name i st with
    | (st', .done r) => (st', r)
    | (st', .again) => (st', .err "timeout")
  | fuel + 1, i, st =>
    match pollOnce svc name i st with
    | (st', .done r) => (st', r)
    | (st', .again) => poll svc name fuel (i + 1) st'

/-- the CreateCryptoKeyVersion RPC -/
def createVersion (svc : Svc) (key : String) (st : St) : St × Option Ver :=
  if svc.fail st.idx = true then (st.push (.createVer key) false, none)
  else (st.push (.createVer key) true, some svc.createVer)

/-- go: the tail of waitForKeyGen once a version is at hand -/
def awaitVersion (svc : Svc) (fuelP : Nat) (v : Ver) (st : St) : St × Boot :=
  if v.state = stEnabled then (st, .ok v.name) else poll svc v.name fuelP 0 st

/-- go: gcpkms.Manager.waitForKeyGen -/
def waitForKeyGen (sty : Style) (svc : Svc) (key : String) (fuelL fuelP : Nat) (st : St) : St × Boot :=
  match gepLoop sty svc key fuelL "" none st with
  | (st1, .diverged) => (st1, .diverged)
  | (st1, .found v) => awaitVersion svc fuelP v st1
  | (st1, .errNoVersions) =>
    match createVersion svc key st1 with
    | (st2, none) => (st2, .err "createver")
    | (st2, some v) => awaitVersion svc fuelP v st2
  | (st1, .errList) => (st1, .err "list")
  | (st1, .errMissing) => (st1, .err "missing-initial")

inductive CreateOut where
  | ok | alreadyExists | fail
deriving DecidableEq, Repr

/-- CreateKeyRing / CreateCryptoKey RPCs: an injected fault, AlreadyExists, or success -/
def callCreate (svc : Svc) (exists_ : Bool) (c : Call) (st : St) : St × CreateOut :=
  if svc.fail st.idx = true then (st.push c false, .fail)
  else if exists_ = true then (st.push c false, .alreadyExists)
  else (st.push c true, .ok)

/-- go: gcpkms.Manager.recreateCryptoKey (`keep` = output.AllowRecoverableError) -/
def recreateCryptoKey (sty : Style) (svc : Svc) (keep : Bool) (id key : String) (hsm : Bool)
    (fuelL fuelP : Nat) (st : St) : St × Boot :=
  match callCreate svc svc.keyExists (.createKey id hsm) st with
  | (st1, .fail) => (st1, .err "createkey")
  | (st1, .alreadyExists) =>
    if keep = true then waitForKeyGen sty svc key fuelL fuelP st1 else (st1, .err "createkey")
  | (st1, .ok) => waitForKeyGen sty svc key fuelL fuelP st1

/-- go: gcpkms.Manager.CreateNewRootKey (with recreateKeyRing: only AlreadyExists without keep_going is
    an error; any other CreateKeyRing error is dropped by the code) -/
def createNewRootKey (sty : Style) (svc : Svc) (keep : Bool) (id key : String) (fuelL fuelP : Nat)
    (st : St) : St × Boot :=
  match callCreate svc svc.ringExists .createRing st with
  | (st1, .alreadyExists) =>
    if keep = true then recreateCryptoKey sty svc keep id key true fuelL fuelP st1 else (st1, .err "ring")
  | (st1, _) => recreateCryptoKey sty svc keep id key true fuelL fuelP st1

/-- go: gcpkms.Manager.CreateFirstSigningKey (recreateCryptoKey, then grantSigningPermissions) -/
def createFirstSigningKey (sty : Style) (svc : Svc) (keep : Bool) (id key : String) (fuelL fuelP : Nat)
    (st : St) : St × Boot :=
  match recreateCryptoKey sty svc keep id key false fuelL fuelP st with
  | (st1, .ok name) =>
    if svc.fail st1.idx = true then (st1.push (.setIam key) false, .err "iam")
    else (st1.push (.setIam key) true, .ok name)
  | r => r

/-! ## rotate.go -/

/-- go: gcpkms.Manager.CreateNewSigningKeyVersion — always polls, even when the create answer is ENABLED -/
def createNewSigningKeyVersion (svc : Svc) (key : String) (fuelP : Nat) (st : St) : St × Boot :=
  match createVersion svc key st with
  | (st1, none) => (st1, .err "createver")
  | (st1, some v) => poll svc v.name fuelP 0 st1

end GceTcb.Kms
