import GceTcb.Model.Paths
/-
Model of endorse/commit.go: entryMaps, removeDigest, addEndorsementEntry, and an endorse run over a
file store (C13).  Core-only.

Two renderings of an endorse run: `endorseRun` below sees the output directory from inside (files keyed
by their cleaned name relative to the directory, one fixed directory, snapshot files elsewhere);
`Model/ManifestFS.lean` has the run over full paths (`endorseRunP`: arbitrary root, --out_dir,
--snapshot_dir and image name, every path computed with the model of Go's path.Clean / path.Join).
`Proofs/ManifestFS.lean` relates the two (`view_step`).

Go's pointer aliasing (`modify = oldPath; modify.Digest = …`) is rendered as a `map` that rewrites the
unique entry carrying the matched path (or digest).  That rendering is exact whenever `entryMaps`
succeeded (paths and digests unique), and the model follows the code in the other case as well:
when `entryMaps` fails both lookups miss and the entry is appended.
-/
namespace GceTcb.Manifest

structure Entry where
  path : String
  digest : String      -- hex of the SHA-384 of the firmware
  time : String        -- opaque creation time token
deriving Repr, DecidableEq, BEq

/-- go: endorse.entryMaps — succeeds iff no path and no digest occurs twice. -/
def entryMapsOk (m : List Entry) : Bool :=
  decide ((m.map (·.path)).Nodup) && decide ((m.map (·.digest)).Nodup)

/-- go: endorse.removeDigest -/
def removeDigest (m : List Entry) (d : String) : List Entry :=
  m.filter (fun x => x.digest != d)

/-- go: endorse.addEndorsementEntry -/
def addEntry (m : List Entry) (e : Entry) : List Entry :=
  if !(entryMapsOk m) then m ++ [e]
  else
    match m.find? (fun x => x.path == e.path), m.find? (fun x => x.digest == e.digest) with
    | none, none => m ++ [e]
    | some p, od =>
      let m' := if od.isSome && p.digest != e.digest then removeDigest m e.digest else m
      m'.map (fun x => if x.path == e.path then e else x)
    | none, some _ => m.map (fun x => if x.digest == e.digest then e else x)

/-- The visible store of one output directory: endorsement files (path ↦ firmware digest the
    signed document inside carries) and the manifest. -/
structure Store where
  files : List (String × String)
  manifest : List Entry
deriving Repr

def Store.empty : Store := ⟨[], []⟩

def lookup (fs : List (String × String)) (p : String) : Option String :=
  (fs.find? (fun q => q.1 == p)).map (·.2)

def writeFile (fs : List (String × String)) (p d : String) : List (String × String) :=
  (p, d) :: fs.filter (fun q => q.1 != p)

structure Run where
  cand : String       -- candidate name; "" means the default basename
  digest : String
  time : String
  overwrite : Bool
  snapshot : Bool := false   -- snapshot mode: files go to a separate snapshot directory, the manifest is not touched
deriving Repr

/-- go: endorse.defaultGenerateBasename — `path.Clean(release + "." + "binarypb")`: the name the
    endorsement file is written under and listed by, for ANY candidate name ("" = "endorsement"). -/
def basename (cand : String) : String := Paths.cleanBasename cand

/-- go: endorse.defaultGenerateBasename — the cleaned name must be neither rooted nor start with "../"
    (`fix: refuse candidate names that do not name a file below the output directory`). -/
def nameOk (cand : String) : Bool := Paths.localName (basename cand)

/-- go: endorse.ManifestFile -/
def manifestFile : String := "manifest.textproto"

/-- go: endorse.changeEndorsements/addEndorsement/defaultGenerateBasename for the manifest mode
    (not dry-run), seen from inside the output directory; a snapshot-mode run writes only under its own
    snapshot directory and leaves the output directory and the manifest alone.  Returns the new store
    and whether the run succeeded. -/
def endorseRun (s : Store) (r : Run) : Store × Bool :=
  let b := basename r.cand
  if r.snapshot then (s, true)
  else if !nameOk r.cand then (s, false)
  else if (lookup s.files b).isSome && !r.overwrite then (s, false)
  else
    ({ files := writeFile s.files b r.digest,
       manifest := addEntry s.manifest ⟨b, r.digest, r.time⟩ }, true)

def runAll (s : Store) (rs : List Run) : Store := rs.foldl (fun s r => (endorseRun s r).1) s

end GceTcb.Manifest
