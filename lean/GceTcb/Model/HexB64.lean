import GceTcb.Base.Line
/-
C16, quote path — the two text decoders `extract.Attestation` tries on a quote that is none of the
protobuf forms, over byte strings (Go strings / []byte; no UTF-8 reading is involved):

* `hexDecode`   go: encoding/hex.DecodeString(string(quote)) — pairs of [0-9a-fA-F]; an odd length or any
  other byte is an error (only `err == nil` is observed by the caller, so errors are one class: `none`);
* `b64Decode`   go: io.ReadAll(base64.NewDecoder(base64.StdEncoding, bytes.NewReader(quote))) — the
  streaming decoder first DROPS every '\r' and '\n' (newlineFilteringReader), then decodes the remaining
  bytes four at a time: a quantum of four alphabet characters gives three bytes; `xx==` / `xxx=` give one /
  two bytes (StdEncoding is not strict: the unused low bits of the last character are ignored) and must be
  the last thing; any other byte, '=' elsewhere, or a remainder of 1–3 characters is an error.
  DEVIATION, measured by stream c16wire (op `b64`, key `goacc`): the streaming decoder hands the filtered
  input to Encoding.Decode in chunks of whole quanta whose sizes follow io.ReadAll's buffer (680 characters
  first); a padded quantum is only required to end ITS CHUNK, so Go also accepts a text with `xx==`/`xxx=`
  in the interior when that quantum happens to end a chunk, and then continues.  `b64DecodeLoose` is what
  Go returns in that case (the pieces decoded one after the other); `b64Decode` (padding only at the very
  end) is what it returns for every text without interior padding.
* `hexEncode`/`hexEncodeUpper`/`b64Encode`: the producers' side (encoding/hex.EncodeToString, `xxd -p`,
  base64.StdEncoding.EncodeToString), for the round-trip theorems.
* `trimSpace`: bytes.TrimSpace on ASCII (the seeded variant of the chain uses it; bytes ≥ 0x80 are not
  white space here — Go would also strip UTF-8 encoded U+0085, U+00A0, … which never occur in hex/base64).
Core-only.
-/
namespace GceTcb.HexB64
open GceTcb

/-! ## hex -/

/-- go: encoding/hex.fromHexChar / reverseHexTable -/
def hexNib (c : UInt8) : Option Nat :=
  if 48 ≤ c.toNat ∧ c.toNat ≤ 57 then some (c.toNat - 48)
  else if 97 ≤ c.toNat ∧ c.toNat ≤ 102 then some (c.toNat - 87)
  else if 65 ≤ c.toNat ∧ c.toNat ≤ 70 then some (c.toNat - 55)
  else none

/-- go: encoding/hex.DecodeString on the bytes of the string -/
def hexDecode : Bytes → Option Bytes
  | [] => some []
  | [_] => none
  | a :: b :: rest =>
    match hexNib a, hexNib b with
    | some x, some y =>
      match hexDecode rest with
      | some t => some (UInt8.ofNat (x * 16 + y) :: t)
      | none => none
    | _, _ => none

/-- "0123456789abcdef"[k] -/
def hexCharL (k : Nat) : UInt8 := if k < 10 then UInt8.ofNat (48 + k) else UInt8.ofNat (87 + k)
/-- "0123456789ABCDEF"[k] -/
def hexCharU (k : Nat) : UInt8 := if k < 10 then UInt8.ofNat (48 + k) else UInt8.ofNat (55 + k)

/-- go: encoding/hex.EncodeToString (bytes of the result) -/
def hexEncode : Bytes → Bytes
  | [] => []
  | b :: rest => hexCharL (b.toNat / 16) :: hexCharL (b.toNat % 16) :: hexEncode rest

/-- upper-case hex (`xxd -u`, printf %X) -/
def hexEncodeUpper : Bytes → Bytes
  | [] => []
  | b :: rest => hexCharU (b.toNat / 16) :: hexCharU (b.toNat % 16) :: hexEncodeUpper rest

/-! ## base64 (StdEncoding) -/

/-- go: base64.StdEncoding.decodeMap: index in "A–Za–z0–9+/" -/
def b64Val (c : UInt8) : Option Nat :=
  if 65 ≤ c.toNat ∧ c.toNat ≤ 90 then some (c.toNat - 65)
  else if 97 ≤ c.toNat ∧ c.toNat ≤ 122 then some (c.toNat - 71)
  else if 48 ≤ c.toNat ∧ c.toNat ≤ 57 then some (c.toNat + 4)
  else if c.toNat = 43 then some 62
  else if c.toNat = 47 then some 63
  else none

/-- the alphabet: encodeStd[k] -/
def b64Char (k : Nat) : UInt8 :=
  if k < 26 then UInt8.ofNat (65 + k)
  else if k < 52 then UInt8.ofNat (71 + k)
  else if k < 62 then UInt8.ofNat (k - 4)
  else if k = 62 then 43 else 47

def padChar : UInt8 := 61

/-- go: newlineFilteringReader: '\r' and '\n' never reach the decoder -/
def dropNL (t : Bytes) : Bytes := t.filter (fun c => c != 13 && c != 10)

/-- one full quantum -/
def quantum (v0 v1 v2 v3 : Nat) : Bytes :=
  [UInt8.ofNat (v0 * 4 + v1 / 16), UInt8.ofNat (v1 % 16 * 16 + v2 / 4), UInt8.ofNat (v2 % 4 * 64 + v3)]

/-- go: Encoding.Decode on '\r\n'-free input that is handed over in one piece (or in pieces none of which
    ends in padding except the last): padding only in the last quantum. -/
def b64DecodeQ : Bytes → Option Bytes
  | [] => some []
  | c0 :: c1 :: c2 :: c3 :: rest =>
    match b64Val c0, b64Val c1 with
    | some v0, some v1 =>
      match b64Val c2, b64Val c3 with
      | some v2, some v3 =>
        match b64DecodeQ rest with
        | some t => some (quantum v0 v1 v2 v3 ++ t)
        | none => none
      | some v2, none =>
        if c3 == padChar && rest.isEmpty then some ((quantum v0 v1 v2 0).take 2) else none
      | none, _ =>
        if c2 == padChar && c3 == padChar && rest.isEmpty then some ((quantum v0 v1 0 0).take 1) else none
    | _, _ => none
  | _ => none

/-- the same when every padded quantum ends a chunk: decoding goes on after it -/
def b64DecodeLooseQ : Bytes → Option Bytes
  | [] => some []
  | c0 :: c1 :: c2 :: c3 :: rest =>
    match b64Val c0, b64Val c1 with
    | some v0, some v1 =>
      match b64DecodeLooseQ rest with
      | none => none
      | some t =>
        match b64Val c2, b64Val c3 with
        | some v2, some v3 => some (quantum v0 v1 v2 v3 ++ t)
        | some v2, none => if c3 == padChar then some ((quantum v0 v1 v2 0).take 2 ++ t) else none
        | none, _ => if c2 == padChar && c3 == padChar then some ((quantum v0 v1 0 0).take 1 ++ t) else none
    | _, _ => none
  | _ => none

/-- go: io.ReadAll(base64.NewDecoder(base64.StdEncoding, bytes.NewReader(t))) with `err == nil` -/
def b64Decode (t : Bytes) : Option Bytes := b64DecodeQ (dropNL t)

def b64DecodeLoose (t : Bytes) : Option Bytes := b64DecodeLooseQ (dropNL t)

/-- go: base64.StdEncoding.EncodeToString (bytes of the result) -/
def b64Encode : Bytes → Bytes
  | [] => []
  | [a] => [b64Char (a.toNat / 4), b64Char (a.toNat % 4 * 16), padChar, padChar]
  | [a, b] => [b64Char (a.toNat / 4), b64Char (a.toNat % 4 * 16 + b.toNat / 16), b64Char (b.toNat % 16 * 4), padChar]
  | a :: b :: d :: rest =>
    b64Char (a.toNat / 4) :: b64Char (a.toNat % 4 * 16 + b.toNat / 16)
      :: b64Char (b.toNat % 16 * 4 + d.toNat / 64) :: b64Char (d.toNat % 64) :: b64Encode rest

/-! ## bytes.TrimSpace / TrimRight (ASCII) — used by the variant chains only -/

/-- go: the asciiSpace table: '\t' '\n' '\v' '\f' '\r' ' ' -/
def isSpace (c : UInt8) : Bool := c == 9 || c == 10 || c == 11 || c == 12 || c == 13 || c == 32

def trimLeft : Bytes → Bytes
  | [] => []
  | c :: rest => if isSpace c then trimLeft rest else c :: rest

def trimRight (t : Bytes) : Bytes := (trimLeft t.reverse).reverse

/-- go: bytes.TrimSpace (ASCII white space) -/
def trimSpace (t : Bytes) : Bytes := trimRight (trimLeft t)

/-- go: bytes.ToLower on ASCII -/
def toLower (t : Bytes) : Bytes := t.map (fun c => if 65 ≤ c.toNat ∧ c.toNat ≤ 90 then c + 32 else c)

end GceTcb.HexB64
