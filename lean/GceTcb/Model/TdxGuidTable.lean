import GceTcb.Base.Line
import GceTcb.Base.Codec
import GceTcb.Base.Outcome
import GceTcb.Model.Codecs
/-
C05 / C08 (TDX half) — PRIVATE model of the GUID-table walk of ovmf/fw_guid_table_ops.go, needed only
to locate the TDX metadata offset block.  TO BE REPLACED BY Model/GuidTable.lean AT INTEGRATION (the
GUID-table half of C08 is owned by the SEV builder).  Core-only.

Byte slices are modelled with cap = len (the harness passes exact-capacity images).
-/
namespace GceTcb.TdxGuidTable
open GceTcb GceTcb.Codec GceTcb.Codecs

/-- `b[lo:hi]` once the Go bounds check has passed -/
def sliceOf (b : Bytes) (lo hi : Nat) : Bytes := (b.drop lo).take (hi - lo)

/-- Go slice expression `b[lo:hi]` (cap = len): panics unless `lo ≤ hi ≤ len(b)` -/
def goSlice (site : String) (b : Bytes) (lo hi : Nat) : Outcome Bytes :=
  if lo ≤ hi ∧ hi ≤ b.length then .ok (sliceOf b lo hi) else .panic site

/-- the 16 bytes of a uuid.UUID from its canonical text (uuid.MustParse of a constant) -/
def uuidOfString (s : String) : Bytes := (hexDecode (s.replace "-" "")).getD []

def footerUuid : Bytes := uuidOfString "96b582de-1fb2-45f7-baea-a366c55a082d"

/-- go: ovmf.GetFwGUIDTable -/
def getFwGuidTable (fw : Bytes) : Outcome Bytes :=
  if fw.length < 32 + 18 then .err "guidtable"
  else
    match fwGuidEntryFromBytes (fw.drop (fw.length - (32 + 18))) with
    | .ok e =>
      if e.guid ≠ footerUuid then .err "guidtable"
      else if e.size < 18 ∨ fw.length < e.size + 32 then .err "guidtable"
      else goSlice "GetFwGUIDTable:table" fw (fw.length - 32 - e.size) (fw.length - 32 - e.size + (e.size - 18))
    | .err _ => .err "guidtable"
    | .panic s => .panic s

structure WalkRes where
  blocks : List (Bytes × Bytes)   -- (uuid, block) in insertion order
  ticks : Nat

/-- go: the `for guidTableUnprocessedLength > 0` loop of ovmf.GetFwGUIDToBlockMap -/
def walk (table : Bytes) (unproc : Nat) (seen : List (Bytes × Bytes)) (ticks : Nat) : Outcome WalkRes :=
  if _h0 : unproc = 0 then .ok ⟨seen, ticks⟩
  else if unproc < 18 then .err "guidtable"
  else
    match goSlice "GetFwGUIDToBlockMap:entry" table (unproc - 18) (unproc - 18 + 18) with
    | .ok eb =>
      match fwGuidEntryFromBytes eb with
      | .ok e =>
        if _h : unproc < e.size ∨ e.size < 18 then .err "guidtable"
        else if seen.any (fun kv => kv.1 == e.guid) then .err "guidtable"
        else
          match goSlice "GetFwGUIDToBlockMap:block" table (unproc - e.size) (unproc - e.size + e.size) with
          | .ok blk => walk table (unproc - e.size) (seen ++ [(e.guid, blk)]) (ticks + 1)
          | .err c => .err c
          | .panic s => .panic s
      | .err _ => .err "guidtable"
      | .panic s => .panic s
    | .err c => .err c
    | .panic s => .panic s
termination_by unproc
decreasing_by omega

/-- go: ovmf.GetFwGUIDToBlockMap -/
def getFwGuidToBlockMap (fw : Bytes) : Outcome WalkRes :=
  match getFwGuidTable fw with
  | .ok t => walk t t.length [] 0
  | .err c => .err c
  | .panic s => .panic s

def lookup (blocks : List (Bytes × Bytes)) (uuid : Bytes) : Option Bytes :=
  (blocks.find? (fun kv => kv.1 == uuid)).map (·.2)

end GceTcb.TdxGuidTable
