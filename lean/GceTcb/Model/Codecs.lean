import GceTcb.Base.Line
import GceTcb.Base.Codec
import GceTcb.Base.Outcome
/-
C18 — executable model of the fixed-layout binary codecs of ovmf/abi/abi.go, ovmf/abi/pihob.go and
(lightly) sev/abi.go.  Core-only.

Every fixed-layout structure is a *record of little-endian fields* (`Rec`): a list of field widths
`ws`, the field values of a structure value (`toVals`, in source order of the Go `Put`/`WriteTo`
function) and the structure built from decoded field values (`ofVals`, the Go `…FromBytes`
function).  `encF`/`decF` are the only two functions that touch bytes; they are built on
`Base/Codec.lean`'s `leBytes`/`leVal`.  Byte-array fields (`[8]byte`, digests) are carried as the
little-endian number of their bytes (`leVal`/`leBytes n`), which is the identity on byte strings of
length `n`; big-endian reads (`binary.BigEndian.Uint32`) are `beVal`.

Go slices are modelled with `cap = len` (a sub-slice expression `data[a:b]` panics when
`b > len(data)`): the harness passes exact-capacity slices.
-/
namespace GceTcb.Codecs
open GceTcb GceTcb.Codec

/-! ## generic record of little-endian fields -/

/-- Concatenation of the little-endian encodings of `vs` with widths `ws` (bytes). Missing values
    are written as zero (never happens for the structures below: `toVals` has the length of `ws`). -/
def encF : List Nat → List Nat → Bytes
  | [], _ => []
  | w :: ws, [] => leBytes w 0 ++ encF ws []
  | w :: ws, v :: vs => leBytes w v ++ encF ws vs

/-- Successive little-endian fields of widths `ws` read from the front of `b`
    (`binary.LittleEndian.UintN(data[a:b])` for consecutive ranges). -/
def decF : List Nat → Bytes → List Nat
  | [], _ => []
  | w :: ws, b => leVal (b.take w) :: decF ws (b.drop w)

/-- Every value fits its field width. -/
def Fits : List Nat → List Nat → Prop
  | [], [] => True
  | w :: ws, v :: vs => v < 256 ^ w ∧ Fits ws vs
  | _, _ => False

instance : (ws vs : List Nat) → Decidable (Fits ws vs)
  | [], [] => isTrue trivial
  | [], _ :: _ => isFalse (fun h => h)
  | _ :: _, [] => isFalse (fun h => h)
  | w :: ws, v :: vs =>
    match Nat.decLt v (256 ^ w), instDecidableFits ws vs with
    | isTrue a, isTrue b => isTrue ⟨a, b⟩
    | isFalse a, _ => isFalse (fun h => a h.1)
    | _, isFalse b => isFalse (fun h => b h.2)

/-- A fixed-layout record codec. `valid` is the must-be-zero check on decoded reserved fields. -/
structure Rec (α : Type) where
  ws : List Nat
  toVals : α → List Nat
  ofVals : List Nat → α
  valid : List Nat → Bool := fun _ => true

/-- How the Go decoder treats the input length. -/
inductive Mode where
  | errShort    -- `if len(data) < Sizeof… { return nil, err }`, then reads the prefix
  | panicShort  -- no length check: `data[a:b]` panics on short input, reads the prefix otherwise
  | exact       -- `if len(data) != Sizeof… { return nil, err }`
deriving DecidableEq, Repr

namespace Rec
variable {α : Type}

def size (c : Rec α) : Nat := c.ws.sum

def enc (c : Rec α) (v : α) : Bytes := encF c.ws (c.toVals v)

/-- `Put(data)`: error when `data` is too small, otherwise the first `size` bytes are overwritten. -/
def put (c : Rec α) (v : α) (data : Bytes) : Outcome Bytes :=
  if data.length < c.size then .err "short" else .ok (c.enc v ++ data.drop c.size)

def decBody (c : Rec α) (b : Bytes) : Outcome α :=
  if c.valid (decF c.ws b) then .ok (c.ofVals (decF c.ws b)) else .err "reserved"

def dec (c : Rec α) (m : Mode) (b : Bytes) : Outcome α :=
  match m with
  | .errShort => if b.length < c.size then .err "short" else c.decBody b
  | .panicShort => if b.length < c.size then .panic "slice" else c.decBody b
  | .exact => if b.length ≠ c.size then .err "size" else c.decBody b

end Rec

/-! ## big-endian helpers (uuid.UUID is the big-endian text order) -/

def beBytes (n v : Nat) : Bytes := (leBytes n v).reverse   -- go: binary.BigEndian.PutUintN
def beVal (bs : Bytes) : Nat := leVal bs.reverse           -- go: binary.BigEndian.UintN

/-! ## EFI GUID -/

/-- go: abi.EFIGUID -/
structure EfiGuid where
  d1 : Nat
  d2 : Nat
  d3 : Nat
  d4 : Bytes
deriving DecidableEq, Repr

def EfiGuid.InRange (g : EfiGuid) : Prop :=
  g.d1 < 2 ^ 32 ∧ g.d2 < 2 ^ 16 ∧ g.d3 < 2 ^ 16 ∧ g.d4.length = 8

instance (g : EfiGuid) : Decidable g.InRange := by
  unfold EfiGuid.InRange; exact inferInstance


/-- go: EFIGUID.Put / abi.parseEFIGUID -/
def efiGuidRec : Rec EfiGuid where
  ws := [4, 2, 2, 8]
  toVals g := [g.d1, g.d2, g.d3, leVal g.d4]
  ofVals
    | [a, b, c, d] => ⟨a, b, c, leBytes 8 d⟩
    | _ => ⟨0, 0, 0, []⟩

/-- go: EFIGUID.Put -/
def efiGuidPut (g : EfiGuid) (data : Bytes) : Outcome Bytes := efiGuidRec.put g data
/-- go: abi.parseEFIGUID (`len(data) != 16` is an error) -/
def parseEFIGUID (b : Bytes) : Outcome EfiGuid := efiGuidRec.dec .exact b

/-- go: abi.convertEFIGUID — the uuid.UUID (16 bytes, text order) of an EFIGUID -/
def convertEFIGUID (g : EfiGuid) : Bytes :=
  beBytes 4 g.d1 ++ beBytes 2 g.d2 ++ beBytes 2 g.d3 ++ g.d4

/-- Field values that `PutUUID` writes for a uuid.UUID:
    `LittleEndian.PutUint32(data[0:4], BigEndian.Uint32(guid[0:4]))`, …, `copy(data[8:16], guid[8:16])`. -/
def uuidVals (u : Bytes) : List Nat :=
  [beVal (field u 0 4), beVal (field u 4 2), beVal (field u 6 2), leVal (field u 8 8)]

/-- The uuid.UUID that `FromEFIGUID` (= convertEFIGUID ∘ parseEFIGUID) builds from decoded fields. -/
def uuidOfVals (a b c d : Nat) : Bytes := beBytes 4 a ++ beBytes 2 b ++ beBytes 2 c ++ leBytes 8 d

/-- go: abi.PutUUID / abi.FromEFIGUID — a uuid.UUID (16 bytes) in EFI_GUID mixed-endian form -/
def uuidRec : Rec Bytes where
  ws := [4, 2, 2, 8]
  toVals := uuidVals
  ofVals
    | [a, b, c, d] => uuidOfVals a b c d
    | _ => []

/-- go: abi.PutUUID -/
def putUUID (u : Bytes) (data : Bytes) : Outcome Bytes := uuidRec.put u data
/-- go: abi.FromEFIGUID -/
def fromEFIGUID (b : Bytes) : Outcome Bytes :=
  match parseEFIGUID b with
  | .ok g => .ok (convertEFIGUID g)
  | .err e => .err e
  | .panic s => .panic s
/-- go: abi.FromUUID (PutUUID into a 16-byte array, then parseEFIGUID; errors impossible) -/
def fromUUID (u : Bytes) : EfiGuid :=
  match parseEFIGUID (uuidRec.enc u) with
  | .ok g => g
  | _ => ⟨0, 0, 0, []⟩

/-! ## ovmf/abi/abi.go records -/

/-- go: abi.FwGUIDEntry -/
structure FwGuidEntry where
  size : Nat
  guid : Bytes      -- uuid.UUID
deriving DecidableEq, Repr

def FwGuidEntry.InRange (e : FwGuidEntry) : Prop := e.size < 2 ^ 16 ∧ e.guid.length = 16

instance (e : FwGuidEntry) : Decidable e.InRange := by
  unfold FwGuidEntry.InRange; exact inferInstance


/-- go: FwGUIDEntry.Put / FwGUIDEntry.PopulateFromBytes -/
def fwGuidEntryRec : Rec FwGuidEntry where
  ws := [2, 4, 2, 2, 8]
  toVals e := e.size :: uuidVals e.guid
  ofVals
    | [s, a, b, c, d] => ⟨s, uuidOfVals a b c d⟩
    | _ => ⟨0, []⟩

def fwGuidEntryPut (e : FwGuidEntry) (data : Bytes) : Outcome Bytes := fwGuidEntryRec.put e data
/-- go: FwGUIDEntry.PopulateFromBytes — no length check: `data[0:2]`, `data[2:18]` panic on short input -/
def fwGuidEntryFromBytes (b : Bytes) : Outcome FwGuidEntry := fwGuidEntryRec.dec .panicShort b

/-- go: abi.SevMetadataSection -/
structure SevMetadataSection where
  address : Nat
  length : Nat
  kind : Nat
deriving DecidableEq, Repr

def SevMetadataSection.InRange (s : SevMetadataSection) : Prop :=
  s.address < 2 ^ 32 ∧ s.length < 2 ^ 32 ∧ s.kind < 2 ^ 32

instance (s : SevMetadataSection) : Decidable s.InRange := by
  unfold SevMetadataSection.InRange; exact inferInstance


/-- go: SevMetadataSection.Put / abi.SevMetadataSectionFromBytes -/
def sevMetadataSectionRec : Rec SevMetadataSection where
  ws := [4, 4, 4]
  toVals s := [s.address, s.length, s.kind]
  ofVals
    | [a, b, c] => ⟨a, b, c⟩
    | _ => ⟨0, 0, 0⟩

def sevMetadataSectionPut (s : SevMetadataSection) (data : Bytes) : Outcome Bytes := sevMetadataSectionRec.put s data
/-- go: abi.SevMetadataSectionFromBytes (no length check) -/
def sevMetadataSectionFromBytes (b : Bytes) : Outcome SevMetadataSection := sevMetadataSectionRec.dec .panicShort b

/-- go: abi.SevMetadata -/
structure SevMetadata where
  signature : Nat
  length : Nat
  version : Nat
  sections : Nat
deriving DecidableEq, Repr

def SevMetadata.InRange (s : SevMetadata) : Prop :=
  s.signature < 2 ^ 32 ∧ s.length < 2 ^ 32 ∧ s.version < 2 ^ 32 ∧ s.sections < 2 ^ 32

instance (s : SevMetadata) : Decidable s.InRange := by
  unfold SevMetadata.InRange; exact inferInstance


/-- go: SevMetadata.Put / abi.SevMetadataFromBytes -/
def sevMetadataRec : Rec SevMetadata where
  ws := [4, 4, 4, 4]
  toVals s := [s.signature, s.length, s.version, s.sections]
  ofVals
    | [a, b, c, d] => ⟨a, b, c, d⟩
    | _ => ⟨0, 0, 0, 0⟩

def sevMetadataPut (s : SevMetadata) (data : Bytes) : Outcome Bytes := sevMetadataRec.put s data
/-- go: abi.SevMetadataFromBytes (no length check) -/
def sevMetadataFromBytes (b : Bytes) : Outcome SevMetadata := sevMetadataRec.dec .panicShort b

/-- go: abi.MetadataOffset -/
structure MetadataOffset where
  offset : Nat
  entry : FwGuidEntry
deriving DecidableEq, Repr

def MetadataOffset.InRange (m : MetadataOffset) : Prop := m.offset < 2 ^ 32 ∧ m.entry.InRange

instance (m : MetadataOffset) : Decidable m.InRange := by
  unfold MetadataOffset.InRange; exact inferInstance


/-- go: MetadataOffset.Put / abi.MetadataOffsetFromBytes -/
def metadataOffsetRec : Rec MetadataOffset where
  ws := [4, 2, 4, 2, 2, 8]
  toVals m := m.offset :: m.entry.size :: uuidVals m.entry.guid
  ofVals
    | [o, s, a, b, c, d] => ⟨o, ⟨s, uuidOfVals a b c d⟩⟩
    | _ => ⟨0, ⟨0, []⟩⟩

def metadataOffsetPut (m : MetadataOffset) (data : Bytes) : Outcome Bytes := metadataOffsetRec.put m data
/-- go: abi.MetadataOffsetFromBytes (no length check; the inner FromEFIGUID gets exactly 16 bytes) -/
def metadataOffsetFromBytes (b : Bytes) : Outcome MetadataOffset := metadataOffsetRec.dec .panicShort b

/-- go: opb.SevEsResetBlock (Addr uint32, Size uint32, Guid []byte) -/
structure ResetBlock where
  addr : Nat
  size : Nat
  guid : Bytes
deriving DecidableEq, Repr

/-- the Go field types: `Addr`, `Size` are uint32 -/
def ResetBlock.TypeOK (r : ResetBlock) : Prop := r.addr < 2 ^ 32 ∧ r.size < 2 ^ 32
def ResetBlock.InRange (r : ResetBlock) : Prop := r.addr < 2 ^ 32 ∧ r.size < 2 ^ 16 ∧ r.guid.length = 16

instance (r : ResetBlock) : Decidable r.TypeOK := by
  unfold ResetBlock.TypeOK; exact inferInstance
instance (r : ResetBlock) : Decidable r.InRange := by
  unfold ResetBlock.InRange; exact inferInstance


def resetBlockRec : Rec ResetBlock where
  ws := [4, 2, 4, 2, 2, 8]
  toVals r := r.addr :: r.size :: uuidVals r.guid
  ofVals
    | [o, s, a, b, c, d] => ⟨o, s, uuidOfVals a b c d⟩
    | _ => ⟨0, 0, []⟩

/-- go: abi.PutSevEsResetBlock (with the repair: a `Size` that does not fit the 16-bit field is refused;
    `uuid.FromBytes` refuses a Guid that is not 16 bytes) -/
def putSevEsResetBlock (r : ResetBlock) (data : Bytes) : Outcome Bytes :=
  if data.length < resetBlockRec.size then .err "short"
  else if r.size ≥ 2 ^ 16 then .err "range"
  else if r.guid.length ≠ 16 then .err "guid"
  else .ok (resetBlockRec.enc r ++ data.drop resetBlockRec.size)

/-- go: abi.SevEsResetBlockFromBytes (`len(data) != 22` is an error) -/
def sevEsResetBlockFromBytes (b : Bytes) : Outcome ResetBlock := resetBlockRec.dec .exact b

/-- go: abi.TDXMetadataDescriptor -/
structure TdxDescriptor where
  signature : Nat
  length : Nat
  version : Nat
  sectionCount : Nat
deriving DecidableEq, Repr

def TdxDescriptor.InRange (s : TdxDescriptor) : Prop :=
  s.signature < 2 ^ 32 ∧ s.length < 2 ^ 32 ∧ s.version < 2 ^ 32 ∧ s.sectionCount < 2 ^ 32

instance (s : TdxDescriptor) : Decidable s.InRange := by
  unfold TdxDescriptor.InRange; exact inferInstance


/-- go: TDXMetadataDescriptor.Put / abi.TDXMetadataDescriptorFromBytes -/
def tdxDescriptorRec : Rec TdxDescriptor where
  ws := [4, 4, 4, 4]
  toVals s := [s.signature, s.length, s.version, s.sectionCount]
  ofVals
    | [a, b, c, d] => ⟨a, b, c, d⟩
    | _ => ⟨0, 0, 0, 0⟩

def tdxDescriptorPut (s : TdxDescriptor) (data : Bytes) : Outcome Bytes := tdxDescriptorRec.put s data
def tdxDescriptorFromBytes (b : Bytes) : Outcome TdxDescriptor := tdxDescriptorRec.dec .errShort b

/-- go: abi.TDXMetadataSection -/
structure TdxSection where
  dataOffset : Nat
  dataSize : Nat
  memoryBase : Nat
  memorySize : Nat
  sectionType : Nat
  attributes : Nat
deriving DecidableEq, Repr

def TdxSection.InRange (s : TdxSection) : Prop :=
  s.dataOffset < 2 ^ 32 ∧ s.dataSize < 2 ^ 32 ∧ s.memoryBase < 2 ^ 64 ∧ s.memorySize < 2 ^ 64 ∧
  s.sectionType < 2 ^ 32 ∧ s.attributes < 2 ^ 32

instance (s : TdxSection) : Decidable s.InRange := by
  unfold TdxSection.InRange; exact inferInstance


/-- go: TDXMetadataSection.Put / abi.TDXMetadataSectionFromBytes -/
def tdxSectionRec : Rec TdxSection where
  ws := [4, 4, 8, 8, 4, 4]
  toVals s := [s.dataOffset, s.dataSize, s.memoryBase, s.memorySize, s.sectionType, s.attributes]
  ofVals
    | [a, b, c, d, e, f] => ⟨a, b, c, d, e, f⟩
    | _ => ⟨0, 0, 0, 0, 0, 0⟩

def tdxSectionPut (s : TdxSection) (data : Bytes) : Outcome Bytes := tdxSectionRec.put s data
def tdxSectionFromBytes (b : Bytes) : Outcome TdxSection := tdxSectionRec.dec .errShort b

/-- go: abi.TDXMetadata (non-nil header and sections) -/
structure TdxMetadata where
  header : TdxDescriptor
  sections : List TdxSection
deriving DecidableEq, Repr

def TdxMetadata.InRange (m : TdxMetadata) : Prop :=
  m.header.InRange ∧ m.header.sectionCount = m.sections.length ∧ (∀ s ∈ m.sections, s.InRange) ∧
  16 + 32 * m.sections.length < 2 ^ 32

instance (m : TdxMetadata) : Decidable m.InRange := by
  unfold TdxMetadata.InRange; exact inferInstance


def tdxSectionsEnc : List TdxSection → Bytes
  | [] => []
  | s :: ss => tdxSectionRec.enc s ++ tdxSectionsEnc ss

def tdxMetadataEnc (m : TdxMetadata) : Bytes := tdxDescriptorRec.enc m.header ++ tdxSectionsEnc m.sections

/-- go: TDXMetadata.Size (uint32 arithmetic) -/
def tdxMetadataSize (m : TdxMetadata) : Nat := (16 + m.header.sectionCount * 32) % 2 ^ 32

/-- go: TDXMetadata.Put (header non-nil, sections non-nil; `len(data)` below 2^32) -/
def tdxMetadataPut (m : TdxMetadata) (data : Bytes) : Outcome Bytes :=
  if m.header.sectionCount ≠ m.sections.length then .err "count"
  else if data.length < tdxMetadataSize m then .err "short"
  else if (tdxMetadataEnc m).length ≤ data.length then .ok (tdxMetadataEnc m ++ data.drop (tdxMetadataEnc m).length)
  else .panic "slice"   -- only when Size() wrapped (≥ 2^27 sections)

/-- The loop of TDXMetadataFromBytes: `buf.Read(sectionBytes[:])` into a zeroed 32-byte array, then
    TDXMetadataSectionFromBytes; a short read leaves zeros (`decF` of a short string is `decF` of its
    zero-padded extension). -/
def tdxReadSections : Nat → Bytes → List TdxSection
  | 0, _ => []
  | n + 1, b => tdxSectionRec.ofVals (decF tdxSectionRec.ws (b.take 32)) :: tdxReadSections n (b.drop 32)

/-- go: abi.TDXMetadataFromBytes (with the repair: the expected size is computed without 32-bit wrap) -/
def tdxMetadataFromBytes (b : Bytes) : Outcome TdxMetadata :=
  match tdxDescriptorFromBytes b with
  | .ok hdr =>
    if hdr.sectionCount * 32 > b.length - 16 then .err "short"
    else .ok ⟨hdr, tdxReadSections hdr.sectionCount (b.drop 16)⟩
  | .err e => .err e
  | .panic s => .panic s

/-! ## sev/abi.go (light): PAGE_INFO and the VMCB segment encoder -/

/-- go: sev.PageInfo -/
structure PageInfo where
  digestCur : Bytes
  contents : Bytes
  length : Nat
  pageType : Nat
  imi : Nat
  vmpl1 : Nat
  vmpl2 : Nat
  vmpl3 : Nat
  gpa : Nat
deriving DecidableEq, Repr

def PageInfo.InRange (p : PageInfo) : Prop :=
  p.digestCur.length = 48 ∧ p.contents.length = 48 ∧ p.length < 2 ^ 16 ∧ p.pageType < 2 ^ 8 ∧ p.imi < 2 ^ 8 ∧
  p.vmpl1 < 2 ^ 8 ∧ p.vmpl2 < 2 ^ 8 ∧ p.vmpl3 < 2 ^ 8 ∧ p.gpa < 2 ^ 64

instance (p : PageInfo) : Decidable p.InRange := by
  unfold PageInfo.InRange; exact inferInstance


/-- go: PageInfo.Put. The permissions are written as one 32-bit word
    `(vmpl1 << 8) | (vmpl2 << 16) | (vmpl3 << 24)`; its low byte is the reserved byte 0x64.
    The decoder direction is the SNP ABI reading of the same table (no Go decoder exists). -/
def pageInfoRec : Rec PageInfo where
  ws := [48, 48, 2, 1, 1, 4, 8]
  toVals p := [leVal p.digestCur, leVal p.contents, p.length, p.pageType, p.imi,
    p.vmpl1 * 2 ^ 8 + p.vmpl2 * 2 ^ 16 + p.vmpl3 * 2 ^ 24, p.gpa]
  ofVals
    | [d, c, l, t, i, w, g] => ⟨leBytes 48 d, leBytes 48 c, l, t, i, w / 2 ^ 8 % 2 ^ 8, w / 2 ^ 16 % 2 ^ 8, w / 2 ^ 24, g⟩
    | _ => ⟨[], [], 0, 0, 0, 0, 0, 0, 0⟩
  valid
    | [_, _, _, _, _, w, _] => w % 2 ^ 8 == 0
    | _ => false

def pageInfoPut (p : PageInfo) (data : Bytes) : Outcome Bytes := pageInfoRec.put p data
/-- specification-side reader of a PAGE_INFO (reserved byte 0x64 must be zero) -/
def pageInfoDec (b : Bytes) : Outcome PageInfo := pageInfoRec.dec .errShort b

/-- go: spb.VmcbSeg (Selector, Attrib, Limit uint32; Base uint64) -/
structure VmcbSeg where
  selector : Nat
  attrib : Nat
  limit : Nat
  base : Nat
deriving DecidableEq, Repr

def VmcbSeg.TypeOK (s : VmcbSeg) : Prop := s.selector < 2 ^ 32 ∧ s.attrib < 2 ^ 32 ∧ s.limit < 2 ^ 32 ∧ s.base < 2 ^ 64
def VmcbSeg.InRange (s : VmcbSeg) : Prop := s.selector < 2 ^ 16 ∧ s.attrib < 2 ^ 16 ∧ s.limit < 2 ^ 32 ∧ s.base < 2 ^ 64

instance (s : VmcbSeg) : Decidable s.TypeOK := by
  unfold VmcbSeg.TypeOK; exact inferInstance
instance (s : VmcbSeg) : Decidable s.InRange := by
  unfold VmcbSeg.InRange; exact inferInstance


def vmcbSegRec : Rec VmcbSeg where
  ws := [2, 2, 4, 8]
  toVals s := [s.selector, s.attrib, s.limit, s.base]
  ofVals
    | [a, b, c, d] => ⟨a, b, c, d⟩
    | _ => ⟨0, 0, 0, 0⟩

/-- go: sev.putVmcbSeg -/
def putVmcbSeg (s : VmcbSeg) (data : Bytes) : Outcome Bytes :=
  if data.length < vmcbSegRec.size then .err "short"
  else if s.selector ≥ 2 ^ 16 then .err "range"
  else if s.attrib ≥ 2 ^ 16 then .err "range"
  else .ok (vmcbSegRec.enc s ++ data.drop vmcbSegRec.size)

/-- AMD APM vol. 2 reading of a VMCB segment register (no Go decoder exists) -/
def vmcbSegDec (b : Bytes) : Outcome VmcbSeg := vmcbSegRec.dec .errShort b

/-! ## ovmf/abi/pihob.go: PI hand-off blocks (writers only in Go; readers are the PI-spec reading) -/

/-- go: abi.EFIHOBGenericHeader -/
structure HobHeader where
  hobType : Nat
  hobLength : Nat
deriving DecidableEq, Repr

def HobHeader.InRange (h : HobHeader) : Prop := h.hobType < 2 ^ 16 ∧ h.hobLength < 2 ^ 16

instance (h : HobHeader) : Decidable h.InRange := by
  unfold HobHeader.InRange; exact inferInstance


/-- go: EFIHOBGenericHeader.WriteTo — HobType, HobLength, `reserved := uint32(0)` -/
def hobHeaderRec : Rec HobHeader where
  ws := [2, 2, 4]
  toVals h := [h.hobType, h.hobLength, 0]
  ofVals
    | [t, l, _] => ⟨t, l⟩
    | _ => ⟨0, 0⟩
  valid
    | [_, _, r] => r == 0
    | _ => false

def hobHeaderWriteTo (h : HobHeader) : Bytes := hobHeaderRec.enc h
def hobHeaderDec (b : Bytes) : Outcome HobHeader := hobHeaderRec.dec .errShort b

/-- go: abi.EFIHOBHandoffInfoTable -/
structure HandoffInfoTable where
  header : HobHeader
  version : Nat
  bootMode : Nat
  memoryTop : Nat
  memoryBottom : Nat
  freeMemoryTop : Nat
  freeMemoryBottom : Nat
  endOfHobList : Nat
deriving DecidableEq, Repr

def HandoffInfoTable.InRange (t : HandoffInfoTable) : Prop :=
  t.header.InRange ∧ t.version < 2 ^ 32 ∧ t.bootMode < 2 ^ 32 ∧ t.memoryTop < 2 ^ 64 ∧ t.memoryBottom < 2 ^ 64 ∧
  t.freeMemoryTop < 2 ^ 64 ∧ t.freeMemoryBottom < 2 ^ 64 ∧ t.endOfHobList < 2 ^ 64

instance (t : HandoffInfoTable) : Decidable t.InRange := by
  unfold HandoffInfoTable.InRange; exact inferInstance


/-- go: EFIHOBHandoffInfoTable.WriteTo -/
def handoffRec : Rec HandoffInfoTable where
  ws := [2, 2, 4, 4, 4, 8, 8, 8, 8, 8]
  toVals t := [t.header.hobType, t.header.hobLength, 0, t.version, t.bootMode, t.memoryTop, t.memoryBottom,
    t.freeMemoryTop, t.freeMemoryBottom, t.endOfHobList]
  ofVals
    | [ht, hl, _, v, bm, a, b, c, d, e] => ⟨⟨ht, hl⟩, v, bm, a, b, c, d, e⟩
    | _ => ⟨⟨0, 0⟩, 0, 0, 0, 0, 0, 0, 0⟩
  valid
    | [_, _, r, _, _, _, _, _, _, _] => r == 0
    | _ => false

def handoffWriteTo (t : HandoffInfoTable) : Bytes := handoffRec.enc t
def handoffDec (b : Bytes) : Outcome HandoffInfoTable := handoffRec.dec .errShort b

/-- go: abi.EFIHOBResourceDescriptor -/
structure ResourceDescriptor where
  header : HobHeader
  owner : EfiGuid
  resourceType : Nat
  resourceAttribute : Nat
  physicalStart : Nat
  resourceLength : Nat
deriving DecidableEq, Repr

def ResourceDescriptor.InRange (d : ResourceDescriptor) : Prop :=
  d.header.InRange ∧ d.owner.InRange ∧ d.resourceType < 2 ^ 32 ∧ d.resourceAttribute < 2 ^ 32 ∧
  d.physicalStart < 2 ^ 64 ∧ d.resourceLength < 2 ^ 64

instance (d : ResourceDescriptor) : Decidable d.InRange := by
  unfold ResourceDescriptor.InRange; exact inferInstance


/-- go: EFIHOBResourceDescriptor.WriteTo -/
def resourceRec : Rec ResourceDescriptor where
  ws := [2, 2, 4, 4, 2, 2, 8, 4, 4, 8, 8]
  toVals d := [d.header.hobType, d.header.hobLength, 0, d.owner.d1, d.owner.d2, d.owner.d3, leVal d.owner.d4,
    d.resourceType, d.resourceAttribute, d.physicalStart, d.resourceLength]
  ofVals
    | [ht, hl, _, a, b, c, d, rt, ra, ps, rl] => ⟨⟨ht, hl⟩, ⟨a, b, c, leBytes 8 d⟩, rt, ra, ps, rl⟩
    | _ => ⟨⟨0, 0⟩, ⟨0, 0, 0, []⟩, 0, 0, 0, 0⟩
  valid
    | [_, _, r, _, _, _, _, _, _, _, _] => r == 0
    | _ => false

def resourceWriteTo (d : ResourceDescriptor) : Bytes := resourceRec.enc d
def resourceDec (b : Bytes) : Outcome ResourceDescriptor := resourceRec.dec .errShort b

/-- go: abi.EFIHOBGUID -/
structure GuidHob where
  header : HobHeader
  guid : EfiGuid
  data : Bytes
deriving DecidableEq, Repr

/-- What `EFIHOBGUID.WriteTo` accepts. (8-byte alignment of the data is NOT required by WriteTo —
    the repository's tests write a 27-byte GUID HOB — it is established by CreateEFIHOBGUID.) -/
def GuidHob.InRange (h : GuidHob) : Prop :=
  h.header.hobType = 4 ∧ h.header.hobLength = 24 + h.data.length ∧ h.header.hobLength < 2 ^ 16 ∧ h.guid.InRange

instance (h : GuidHob) : Decidable h.InRange := by
  unfold GuidHob.InRange; exact inferInstance


/-- go: EFIHOBGUID.WriteTo -/
def guidHobWriteTo (h : GuidHob) : Outcome Bytes :=
  if h.header.hobType ≠ 4 then .err "type"
  else if h.header.hobLength ≠ 24 + h.data.length then .err "length"
  else .ok (hobHeaderRec.enc h.header ++ efiGuidRec.enc h.guid ++ h.data)

/-- PI-spec reading of an EFI_HOB_GUID_TYPE at the front of `b`: the generic header (type 4, reserved
    zero) gives the total length; the data is what follows the 16-byte name up to that length. -/
def guidHobDec (b : Bytes) : Outcome (GuidHob × Bytes) :=
  match hobHeaderDec b with
  | .ok hdr =>
    if hdr.hobType ≠ 4 then .err "type"
    else if hdr.hobLength < 24 then .err "length"
    else if b.length < hdr.hobLength then .err "short"
    else
      match parseEFIGUID (field b 8 16) with
      | .ok g => .ok (⟨hdr, g, field b 24 (hdr.hobLength - 24)⟩, b.drop hdr.hobLength)
      | .err e => .err e
      | .panic s => .panic s
  | .err e => .err e
  | .panic s => .panic s

def zeros (n : Nat) : Bytes := List.replicate n 0

/-- go: abi.MaxGUIDHOBDataSize (with the repair: the largest 8-aligned HobLength that fits 16 bits,
    0xFFF8, minus the 24-byte header) -/
def maxGuidHobDataSize : Nat := 0xFFF8 - 24

/-- go: abi.CreateEFIHOBGUID -/
def createEFIHOBGUID (uuid : Bytes) (data : Bytes) : Outcome GuidHob :=
  if (data.length + 7) / 8 * 8 > maxGuidHobDataSize then .err "long"
  else .ok ⟨⟨4, (24 + (data.length + 7) / 8 * 8) % 2 ^ 16⟩, fromUUID uuid,
            data ++ zeros ((data.length + 7) / 8 * 8 - data.length)⟩

end GceTcb.Codecs
