/-
C16 (confinement clause) — github.com/cyphar/filepath-securejoin v0.2.5 `SecureJoinVFS` and the
kernel's path resolution (what `os.Lstat`, `os.Readlink` and `os.ReadFile` do with a path), over an
ABSTRACT FILE SYSTEM. Core-only (linked into the driver).

The file system is observed only through `FS.look`: what is found at a *location* (a list of
component names from "/" downwards, free of ".", ".." and symbolic links): nothing, a regular file,
a directory, a symbolic link with its target text, or a fault (any errno other than ENOENT/ENOTDIR:
EACCES, ENAMETOOLONG, EIO, …). Nothing is assumed of that function (no well-formedness, no
finiteness): every finite tree of directories, files and links — absolute and relative targets,
dangling links, loops — is an instance (`Table.toFS`, `Tree.toFS`), and the theorems of
`Props/C16Fs.lean` hold for all of them.

Paths as texts are `List Char` (`PathStr`); a path is cut at '/' exactly like the kernel and
`strings.IndexRune(remainingPath, filepath.Separator)` do.

go: securejoin.SecureJoinVFS (join.go), path/filepath.Clean / Join (unix), os.ReadFile /
    os.Lstat / os.Readlink as path_lookupat(2) with and without LOOKUP_FOLLOW.
-/
namespace GceTcb.SecureJoin

abbrev Name := List Char
abbrev PathStr := List Char

/-- What a location holds. `file id`: a regular file (or any other non-directory, non-link object)
    with an identity — the harness uses the id to name the file whose bytes were returned. -/
inductive Entry where
  | file (id : Nat)
  | dir
  | link (target : PathStr)
deriving DecidableEq, Repr

inductive Look where
  | absent
  | fault
  | ent (e : Entry)
deriving DecidableEq, Repr

/-- The abstract file system at one instant. `look` is the directory lookup at a location; `reject`
    is the system-call layer refusing a whole path text before any lookup (Go: EINVAL for a NUL
    byte; kernel: ENAMETOOLONG at PATH_MAX). The location `[]` ("/") is a directory. -/
structure FS where
  look : List Name → Look
  reject : PathStr → Bool

inductive Errno where
  | noent | notdir | loop | fault
deriving DecidableEq, Repr

/-- Result of a path resolution: the location reached, what is there, and how many of the allowed
    symbolic-link expansions are left (book-keeping for the composition lemmas). -/
inductive Res where
  | ok (loc : List Name) (e : Entry) (left : Nat)
  | err (e : Errno)
deriving DecidableEq, Repr

/-- A path text or an error (results of Readlink and of SecureJoin). -/
inductive Joined where
  | ok (p : PathStr)
  | err (e : Errno)
deriving DecidableEq, Repr

/-- Cut a path text at every '/' ("a//b" has an empty component; "" is one empty component). -/
def splitSlash : PathStr → List Name
  | [] => [[]]
  | c :: cs =>
    if c = '/' then [] :: splitSlash cs
    else
      match splitSlash cs with
      | [] => [[c]]
      | p :: ps => (c :: p) :: ps

def isAbs (p : PathStr) : Bool := p.head? == some '/'

def dotdot : Name := ['.', '.']

/-! ## The kernel: path_lookupat -/

/-- One walk over the components still to be looked up, from the directory at `cur`. Empty and "."
    components stay; ".." goes to the parent (at "/" it stays); a directory is entered; a regular
    file must be the last component (ENOTDIR otherwise — also for a trailing slash, which leaves an
    empty component behind it); a symbolic link is expanded — unless it is the last component and the
    call does not follow (lstat, readlink) — by handing its target components followed by the
    remaining ones to `next`, from "/" for an absolute target and from the link's directory otherwise.
    `next` is the walk with one expansion less left. -/
def walkList (fs : FS) (follow : Bool) (b : Nat) (next : List Name → List Name → Res) :
    List Name → List Name → Res
  | cur, [] => .ok cur .dir b
  | cur, c :: rest =>
    if c = [] ∨ c = ['.'] then walkList fs follow b next cur rest
    else if c = dotdot then walkList fs follow b next cur.dropLast rest
    else
      match fs.look (cur ++ [c]) with
      | .absent => .err .noent
      | .fault => .err .fault
      | .ent .dir => walkList fs follow b next (cur ++ [c]) rest
      | .ent (.file i) => if rest = [] then .ok (cur ++ [c]) (.file i) b else .err .notdir
      | .ent (.link t) =>
        if rest = [] ∧ follow = false then .ok (cur ++ [c]) (.link t) b
        else next (if isAbs t then [] else cur) (splitSlash t ++ rest)

/-- The walk with `b` symbolic-link expansions allowed (Linux: MAXSYMLINKS = 40; the 41st → ELOOP). -/
def walk (fs : FS) (follow : Bool) : Nat → List Name → List Name → Res
  | 0 => walkList fs follow 0 (fun _ _ => .err .loop)
  | b + 1 => walkList fs follow (b + 1) (walk fs follow b)

/-- Resolution of a path text by a system call made in working directory `cwd` (a location).
    `follow = true`: open(2)/stat(2) (os.ReadFile); `false`: lstat(2)/readlink(2). -/
def resolve (fs : FS) (klim : Nat) (cwd : List Name) (follow : Bool) (p : PathStr) : Res :=
  if p = [] then .err .noent
  else if fs.reject p then .err .fault
  else walk fs follow klim (if isAbs p then [] else cwd) (splitSlash p)

/-- What a path text denotes for a following system call, the text checks of the system-call layer
    aside: the location and entry (or error) that the walk ends on. -/
def denote (fs : FS) (klim : Nat) (cwd : List Name) (p : PathStr) : Res :=
  walk fs true klim (if isAbs p then [] else cwd) (splitSlash p)

/-- os.Readlink after a successful Lstat: the target text, EINVAL (`fault`) for a non-link. -/
def readlink (fs : FS) (klim : Nat) (cwd : List Name) (p : PathStr) : Joined :=
  match resolve fs klim cwd false p with
  | .ok _ (.link t) _ => .ok t
  | .ok _ _ _ => .err .fault
  | .err e => .err e

/-- What os.ReadFile returns: the identity of the regular file opened; a directory opens but cannot
    be read (EISDIR). -/
inductive ReadRes where
  | data (loc : List Name) (id : Nat)
  | isdir
  | err (e : Errno)
deriving DecidableEq, Repr

def readFile (fs : FS) (klim : Nat) (cwd : List Name) (p : PathStr) : ReadRes :=
  match resolve fs klim cwd true p with
  | .ok loc (.file i) _ => .data loc i
  | .ok _ .dir _ => .isdir
  | .ok _ (.link _) _ => .err .loop  -- not reachable: a followed resolution never ends on a link
  | .err e => .err e

/-! ## path/filepath.Clean and Join (unix) -/

/-- One component applied to the stack of Clean (top of the stack first): rules 2–4 of the
    documentation of path.Clean. -/
def cleanStep (rooted : Bool) (rst : List Name) (c : Name) : List Name :=
  if c = [] ∨ c = ['.'] then rst
  else if c = dotdot then
    match rst with
    | [] => if rooted then [] else [dotdot]
    | t :: ts => if t = dotdot then dotdot :: t :: ts else ts
  else c :: rst

def cleanStack (p : PathStr) : List Name :=
  ((splitSlash p).foldl (cleanStep (isAbs p)) []).reverse

/-- "/" followed by the components, "/" alone for none: the text of a cleaned rooted path. -/
def renderAbs (comps : List Name) : PathStr :=
  if comps = [] then ['/'] else comps.flatMap ('/' :: ·)

def renderRel : List Name → PathStr
  | [] => ['.']
  | c :: cs => c ++ cs.flatMap ('/' :: ·)

def renderClean (rooted : Bool) (st : List Name) : PathStr :=
  if rooted then renderAbs st else renderRel st

/-- go: filepath.Clean -/
def clean (p : PathStr) : PathStr :=
  if p = [] then ['.'] else renderClean (isAbs p) (cleanStack p)

/-- go: filepath.Join(a, b) for a non-empty `b` (empty elements are ignored). -/
def goJoin (a b : PathStr) : PathStr :=
  if a = [] then clean b else clean (a ++ '/' :: b)

/-- go: filepath.Join(elem...) (unix): from the first non-empty element on, joined with '/' and
    cleaned; "" when every element is empty. -/
def joinElems (elems : List PathStr) : PathStr :=
  match elems.dropWhile (· = []) with
  | [] => []
  | e :: es => clean (e ++ es.flatMap ('/' :: ·))

/-- The text of `currentPath` for its component list: "" or the cleaned rooted path. -/
def curText (cur : List Name) : PathStr := if cur = [] then [] else renderAbs cur

/-! ## SecureJoinVFS

State of the loop: `currentPath` is "" or a cleaned rooted path; it is kept as its list of
components (`[]` for ""), `nextPath := filepath.Join("/", currentPath, part)` is `applyPart`
(`join_nextPath` in Proofs/SecureJoin.lean: it is `joinElems ["/", currentPath, part]`), and
`remainingPath` is kept cut at '/' (the text "" is `[[]]`; `dest + "/" + remainingPath` is
`splitSlash dest ++ remaining`). -/

/-- go: nextPath := filepath.Join(string(filepath.Separator), currentPath, part) on components. -/
def applyPart (cur : List Name) (part : Name) : List Name :=
  if part = [] ∨ part = ['.'] then cur
  else if part = dotdot then cur.dropLast
  else cur ++ [part]

/-- go: fullPath := root + string(filepath.Separator) + nextPath -/
def fullPath (root : PathStr) (next : List Name) : PathStr := root ++ '/' :: renderAbs next

inductive Step where
  | go (cur : List Name)
  | symlink
  | fail (e : Errno)
deriving DecidableEq, Repr

/-- The body of the loop up to the symlink test, for `nextPath = nx`:
    `nextPath == "/"` → currentPath = ""; Lstat error other than not-exist → return it;
    not-exist (ENOENT, ENOTDIR) or not a symlink → currentPath = nextPath; symlink → expansion. -/
def sjStep (fs : FS) (klim : Nat) (cwd : List Name) (root : PathStr) (nx : List Name) : Step :=
  if nx = [] then .go []
  else
    match resolve fs klim cwd false (fullPath root nx) with
    | .err .noent => .go nx
    | .err .notdir => .go nx
    | .err e => .fail e
    | .ok _ (.link _) _ => .symlink
    | .ok _ _ _ => .go nx

inductive SJ where
  | ok (cur : List Name)
  | err (e : Errno)
deriving DecidableEq, Repr

/-- The loop `for remainingPath != ""` over the cut remaining path. `onLink cur nx rest` is what
    happens from `linksWalked++` on, with one expansion less left. -/
def sjList (fs : FS) (klim : Nat) (cwd : List Name) (root : PathStr)
    (onLink : List Name → List Name → List Name → SJ) : List Name → List Name → SJ
  | cur, [] => .ok cur
  | cur, part :: rest =>
    if part = [] ∧ rest = [] then .ok cur
    else
      match sjStep fs klim cwd root (applyPart cur part) with
      | .fail e => .err e
      | .go cur' => sjList fs klim cwd root onLink cur' rest
      | .symlink => onLink cur (applyPart cur part) (if rest = [] then [[]] else rest)

/-- `b` expansions left (maxSymlinkLimit = 255; the 256th → ELOOP, before Readlink is called).
    Readlink; `remainingPath = dest + "/" + remainingPath`; an absolute dest resets currentPath. -/
def sj (fs : FS) (klim : Nat) (cwd : List Name) (root : PathStr) : Nat → List Name → List Name → SJ
  | 0 => sjList fs klim cwd root (fun _ _ _ => .err .loop)
  | b + 1 => sjList fs klim cwd root (fun cur nx rest =>
      match readlink fs klim cwd (fullPath root nx) with
      | .err e => .err e
      | .ok dest => sj fs klim cwd root b (if isAbs dest then [] else cur) (splitSlash dest ++ rest))

/-- go: securejoin.SecureJoinVFS(root, unsafePath, osVFS{}) on unix (FromSlash and VolumeName are
    the identity / empty): `filepath.Join(root, filepath.Join("/", currentPath))`. -/
def secureJoin (fs : FS) (klim lim : Nat) (cwd : List Name) (root unsafePath : PathStr) : Joined :=
  match sj fs klim cwd root lim [] (splitSlash unsafePath) with
  | .ok cur => .ok (goJoin root (renderAbs cur))
  | .err e => .err e

/-- The TOCTOU boundary: the file system SecureJoin walked (`fsJoin`) and the one os.ReadFile opens
    the returned path in (`fsRead`) show the same thing at every location. -/
def Unchanged (fsJoin fsRead : FS) : Prop := ∀ l, fsRead.look l = fsJoin.look l

/-! ## SecureJoinVFS, line by line on path texts

The same loop with `currentPath` and `remainingPath` as texts, every statement of join.go in its
place. `sjText_eq` (Proofs/SecureJoinText.lean) proves it equal to `sj` on the component
representation, so every theorem about `secureJoin` is a theorem about this transcription; the driver
runs both. -/

/-- go: `i := strings.IndexRune(remainingPath, '/')`; `part, remainingPath = remainingPath[:i],
    remainingPath[i+1:]`, or `remainingPath, ""` when there is no separator. -/
def cutSlash : PathStr → Name × PathStr
  | [] => ([], [])
  | c :: cs => if c = '/' then ([], cs) else ((c :: (cutSlash cs).1), (cutSlash cs).2)

theorem cutSlash_length (r : PathStr) (h : r ≠ []) : (cutSlash r).2.length < r.length := by
  induction r with
  | nil => exact absurd rfl h
  | cons c cs ih =>
    unfold cutSlash
    by_cases hc : c = '/'
    · simp [hc]
    · simp only [if_neg hc, List.length_cons]
      by_cases h0 : cs = []
      · subst h0; simp [cutSlash]
      · have := ih h0; omega

inductive SJT where
  | ok (currentPath : PathStr)
  | err (e : Errno)
deriving DecidableEq, Repr

/-- go: the loop of SecureJoinVFS; `b` = maxSymlinkLimit − linksWalked. -/
def sjText (fs : FS) (klim : Nat) (cwd : List Name) (root : PathStr) (b : Nat) (currentPath remainingPath : PathStr) : SJT :=
  if h : remainingPath = [] then .ok currentPath                                  -- for remainingPath != ""
  else
    -- part, remainingPath = cut at the first separator
    -- nextPath := filepath.Join("/", currentPath, part)
    if joinElems [['/'], currentPath, (cutSlash remainingPath).1] = ['/'] then    -- if nextPath == "/"
      sjText fs klim cwd root b [] (cutSlash remainingPath).2                     --   currentPath = ""; continue
    else
      -- fullPath := root + "/" + nextPath; fi, err := vfs.Lstat(fullPath)
      match resolve fs klim cwd false (root ++ '/' :: joinElems [['/'], currentPath, (cutSlash remainingPath).1]) with
      | .err .noent =>                                                            -- IsNotExist(err)
        sjText fs klim cwd root b (joinElems [['/'], currentPath, (cutSlash remainingPath).1]) (cutSlash remainingPath).2
      | .err .notdir =>                                                           -- IsNotExist(err) (ENOTDIR)
        sjText fs klim cwd root b (joinElems [['/'], currentPath, (cutSlash remainingPath).1]) (cutSlash remainingPath).2
      | .err e => .err e                                                          -- err != nil && !IsNotExist(err)
      | .ok _ (.link _) _ =>                                                      -- fi.Mode()&os.ModeSymlink != 0
        match b with
        | 0 => .err .loop                                                         -- linksWalked > maxSymlinkLimit
        | b' + 1 =>
          match readlink fs klim cwd (root ++ '/' :: joinElems [['/'], currentPath, (cutSlash remainingPath).1]) with
          | .err e => .err e
          | .ok dest =>                                                           -- remainingPath = dest + "/" + remainingPath
            sjText fs klim cwd root b' (if isAbs dest then [] else currentPath) (dest ++ '/' :: (cutSlash remainingPath).2)
      | .ok _ _ _ =>                                                              -- not a symlink
        sjText fs klim cwd root b (joinElems [['/'], currentPath, (cutSlash remainingPath).1]) (cutSlash remainingPath).2
termination_by (b, remainingPath.length)
decreasing_by
  all_goals first
    | exact Prod.Lex.right _ (cutSlash_length remainingPath h)
    | exact Prod.Lex.left _ _ (Nat.lt_succ_self _)

/-- go: SecureJoinVFS — `finalPath := filepath.Join("/", currentPath)`; `filepath.Join(root, finalPath)`. -/
def secureJoinText (fs : FS) (klim lim : Nat) (cwd : List Name) (root unsafePath : PathStr) : Joined :=
  match sjText fs klim cwd root lim [] unsafePath with
  | .ok cur => .ok (joinElems [root, joinElems [['/'], cur]])
  | .err e => .err e

def kernelLinkLimit : Nat := 40
def maxSymlinkLimit : Nat := 255

/-! ## Finite file systems -/

/-- A finite file system as a table location ↦ entry (what the harness serialises). -/
abbrev Table := List (List Name × Entry)

def utf8Len (n : Name) : Nat := (n.map Char.utf8Size).sum

/-- NAME_MAX: looking up a component longer than 255 bytes in a directory fails (ENAMETOOLONG).
    NUL: Go refuses the path text (EINVAL); PATH_MAX: the kernel refuses a text of 4096 bytes. -/
def Table.toFS (t : Table) : FS where
  look := fun l =>
    match l.getLast? with
    | none => .ent .dir
    | some n =>
      if utf8Len n > 255 then .fault
      else match t.lookup l with
        | some e => .ent e
        | none => .absent
  reject := fun p => p.contains (Char.ofNat 0) || utf8Len p ≥ 4096

/-- A finite tree of directories, regular files and symbolic links. -/
inductive Tree where
  | file (id : Nat)
  | link (target : PathStr)
  | dir (entries : List (Name × Tree))

mutual
def Tree.at : Tree → List Name → Look
  | .file i, [] => .ent (.file i)
  | .link t, [] => .ent (.link t)
  | .dir _, [] => .ent .dir
  | .dir es, n :: ns => Tree.atList es n ns
  | _, _ :: _ => .absent
def Tree.atList : List (Name × Tree) → Name → List Name → Look
  | [], _, _ => .absent
  | (m, t) :: es, n, ns => if m = n then Tree.at t ns else Tree.atList es n ns
end

/-- The tree whose top is "/" (a directory) as an abstract file system. -/
def Tree.toFS (entries : List (Name × Tree)) : FS where
  look := fun l => Tree.at (.dir entries) l
  reject := fun _ => false

end GceTcb.SecureJoin
