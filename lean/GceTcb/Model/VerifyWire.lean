import GceTcb.Model.Verify
import GceTcb.Model.ProtoWire
/-
The two protobuf primitives of the verification model (`Model/Verify.lean`: `Prims.unmarshalEndorsement`,
`Prims.unmarshalGolden`) instantiated by the wire codec (`Model/ProtoWire.lean`):

  proto.Unmarshal(serializedEndorsement, &epb.VMLaunchEndorsement{})      = decodeEndorsement
  proto.Unmarshal(endorsement.SerializedUefiGolden, &epb.VMGoldenMeasurement{}) = decodeGolden

followed by the projection of the decoded record onto the fields the verifier reads (`…OfWire`).  Everything
else of `Prims` (X.509 parsing and path building, RSA-PSS, the third-party validators, timeproto's nil case,
HTTP, files) stays a parameter: `wirePrims X` overrides exactly the two unmarshal fields of an arbitrary `X`.

Core-only (linked into the driver: stream `c01wire` runs `Verify.run (wirePrims X)` on raw container bytes).
-/
namespace GceTcb.VerifyWire
open GceTcb GceTcb.ProtoWire

def tsOfWire (t : WTimestamp) : Verify.Timestamp := ⟨t.seconds, t.nanos⟩

/-- golden.SevSnp as verify.SNP reads it; the association list is the Go map (`[]` = nil: proto.Unmarshal
    allocates the map when it stores the first entry, so "no entry" and "nil" coincide) -/
def sevOfWire (s : WSevSnp) : Verify.SevSnp := ⟨s.svsmMeasurement, s.measurements⟩

def tdxOfWire (d : WTdx) : Verify.Tdx := ⟨d.measurements.map fun r => (r.ramGib, r.mrtd)⟩

/-- the fields of the decoded VMGoldenMeasurement that verify.EndorsementProto / verify.SNP read;
    `other` carries the golden's own ca_bundle (never read by the verifier) -/
def goldenOfWire (w : WGolden) : Verify.Golden :=
  { timestamp := w.timestamp.map tsOfWire, clSpec := w.clSpec, commit := w.commit, cert := w.cert,
    digest := w.digest, sevSnp := w.sevSnp.map sevOfWire, tdx := w.tdx.map tdxOfWire, other := w.caBundle }

def endorsementOfWire (e : WEndorsement) : Verify.Endorsement := ⟨e.serializedUefiGolden, e.signature⟩

/-- go: proto.Unmarshal(b, &epb.VMLaunchEndorsement{}) -/
def unmarshalEndorsement (b : Bytes) : Option Verify.Endorsement := (decodeEndorsement b).map endorsementOfWire

/-- go: proto.Unmarshal(b, &epb.VMGoldenMeasurement{}) -/
def unmarshalGolden (b : Bytes) : Option Verify.Golden := (decodeGolden b).map goldenOfWire

/-- `X` with protobuf instantiated by the codec -/
def wirePrims {Cert Roots Time : Type} (X : Verify.Prims Cert Roots Time) : Verify.Prims Cert Roots Time :=
  { X with unmarshalEndorsement := unmarshalEndorsement, unmarshalGolden := unmarshalGolden }

end GceTcb.VerifyWire
