import GceTcb.Model.TdxHob
/-
C05 / C08 (TDX half) — executable model of tdx/measurement.go (pageAdd, mrExtend, InitMemoryRegion,
Finalize), tdx/mrtd_from_ovmf.go (regionsForShape, machineTypeToRAMBanks, LaunchOptions*, MRTD) and
tdx/endorsement.go (generateAllPossibleMRTDs / UnsignedTDX).  The hash is a parameter `H`.  Core-only.
-/
namespace GceTcb.Mrtd
open GceTcb GceTcb.Codec GceTcb.Codecs GceTcb.Intervals GceTcb.TdxMeta GceTcb.TdxHob

/-- the bytes of an ASCII string (kernel-reducible, unlike `String.toUTF8`) -/
def asciiBytes (s : String) : Bytes := s.toList.map (fun c => UInt8.ofNat c.toNat)

/-- `copy(buf[off:off+len(src)], src)` into a fixed-size array (the ranges are constants inside the array) -/
def writeAt (buf : Bytes) (off : Nat) (src : Bytes) : Bytes :=
  buf.take off ++ src ++ buf.drop (off + src.length)

/-- go: Measurement.pageAdd — the 128 bytes written to the digest -/
def pageAdd (gpa : Nat) : Bytes :=
  writeAt (writeAt (List.replicate 128 0) 0 (asciiBytes "MEM.PAGE.ADD")) 16 (leBytes 8 gpa)

/-- go: Measurement.mrExtend — `data` is the 256-byte chunk `data[i:i+256]`;
    `data[0:128]` and `data[128:]` are written after the header buffer -/
def mrExtend (gpa : Nat) (data : Bytes) : Bytes :=
  writeAt (writeAt (List.replicate 128 0) 0 (asciiBytes "MR.EXTEND")) 16 (leBytes 8 gpa)
    ++ data.take 128 ++ data.drop 128

/-- go: the loop of InitMemoryRegion.  `n` iterations remain, `i` is the loop variable, `rest` is
    `data[i:]` (only consulted when `measure`).  Returns the bytes written to the digest. -/
def initLoop (gpa : Nat) (measure : Bool) : (n i : Nat) → (rest : Bytes) → Bytes
  | 0, _, _ => []
  | n + 1, i, rest =>
    (if i % 4096 = 0 then pageAdd ((gpa + i) % 2 ^ 64) else [])
      ++ (if measure then mrExtend ((gpa + i) % 2 ^ 64) (rest.take 256) else [])
      ++ initLoop gpa measure n (i + 256) (rest.drop 256)

/-- the four checks of InitMemoryRegion; `measureAll` is `m.MeasureAllRegions` -/
def initChecks (measureAll : Bool) (r : Region) : Outcome Bool :=
  let measure := (r.attrs &&& 1 ≠ 0) || measureAll
  if measure ∧ r.gpr.len % 2 ^ 64 ≠ r.buf.length then .err "datasize"
  else if r.gpr.start % 2 ^ 64 % 4096 ≠ 0 then .err "alignstart"
  else if r.gpr.len % 2 ^ 64 % 4096 ≠ 0 then .err "alignlen"
  else if r.buf.length % 256 ≠ 0 then .err "chunk"
  -- `data[i:i+mrExtendChunkSize]` inside the loop: some iteration is out of range exactly when the
  -- buffer is shorter than the region (both are multiples of 256 here); evaluated only when measuring
  else if measure ∧ r.buf.length < r.gpr.len % 2 ^ 64 then .panic "InitMemoryRegion:data[i:i+256]"
  else .ok measure

/-- go: Measurement.InitMemoryRegion — the bytes it writes to the digest.  After the checks the loop
    `for i := 0; i < Length; i += 256` runs Length/256 times (Length is a multiple of 4096) and the
    slice `data[i:i+256]` is in range whenever it is evaluated (`measure` ⇒ len(data) = Length). -/
def initMemoryRegion (measureAll : Bool) (r : Region) : Outcome Bytes :=
  match initChecks measureAll r with
  | .ok measure =>
    .ok (initLoop (r.gpr.start % 2 ^ 64) measure (r.gpr.len % 2 ^ 64 / 256) 0 (if measure then r.buf.toBytes else []))
  | .err c => .err c
  | .panic p => .panic p

def initAll (measureAll : Bool) : List Region → Outcome Bytes
  | [] => .ok []
  | r :: rs =>
    match initMemoryRegion measureAll r with
    | .ok s =>
      match initAll measureAll rs with
      | .ok t => .ok (s ++ t)
      | .err c => .err c
      | .panic p => .panic p
    | .err c => .err c
    | .panic p => .panic p

/-- go: tdx.LaunchOptions (non-nil) -/
structure LaunchOptions where
  banks : List Gpr := []
  disableUnacceptedMemory : Bool := false
  measureAllRegions : Bool := false
deriving Repr, DecidableEq

/-- region extraction selected by tdx.MRTD -/
def mrtdRegions (o : LaunchOptions) (fw : Bytes) : Outcome (List Region) :=
  if o.disableUnacceptedMemory then extractNoUnacceptedMemory fw o.banks
  else if o.measureAllRegions then extractTDHOBBug fw o.banks
  else extractDefault fw

/-- go: tdx.MRTD — the byte stream hashed (Finalize copies the 48-byte sum) -/
def mrtdStream (o : LaunchOptions) (fw : Bytes) : Outcome Bytes :=
  match mrtdRegions o fw with
  | .ok regions => initAll o.measureAllRegions regions
  | .err c => .err c
  | .panic p => .panic p

/-- go: tdx.MRTD -/
def mrtd (H : Bytes → Bytes) (o : LaunchOptions) (fw : Bytes) : Outcome Bytes :=
  match mrtdStream o fw with
  | .ok s => .ok (H s)
  | .err c => .err c
  | .panic p => .panic p

/-- The outcome class of tdx.MRTD, computed without building the stream. -/
def initAllClass (measureAll : Bool) : List Region → Outcome Unit
  | [] => .ok ()
  | r :: rs =>
    match initChecks measureAll r with
    | .ok _ => initAllClass measureAll rs
    | .err c => .err c
    | .panic p => .panic p

def mrtdClass (o : LaunchOptions) (fw : Bytes) : Outcome Unit :=
  match mrtdRegions o fw with
  | .ok regions => initAllClass o.measureAllRegions regions
  | .err c => .err c
  | .panic p => .panic p

/-! ### machine shapes -/

/-- go: tdx.numaDesc -/
structure Shape where
  size : Nat
  nodes : Nat
  maxSizePerNode : Nat
deriving Repr, DecidableEq

def gib : Nat := 0x40000000
def mib : Nat := 0x100000
def mmioHoleStart : Nat := 3 * gib
def mmioHoleEnd : Nat := 4 * gib

/-- go: the `for node` loop of regionsForShape; `taken` is `MaxNodeSize - length` bookkeeping -/
def nodeBanks (maxNode : Nat) : (nodes : Nat) → (start size taken : Nat) → List Gpr
  | 0, _, _, _ => []
  | n + 1, start, size, taken =>
    let length := min ((maxNode + 2 ^ 64 - taken) % 2 ^ 64) size
    ⟨start, length⟩ :: nodeBanks maxNode n ((start + length) % 2 ^ 64) (size - length) 0

/-- go: tdx.regionsForShape (`int` is 64-bit; the products are converted to uint64) -/
def regionsForShape (s : Shape) : Outcome (List Gpr) :=
  let shapeSize := (s.size * gib) % 2 ^ 64
  let maxNode := (s.maxSizePerNode * gib) % 2 ^ 64
  if shapeSize < mmioHoleStart ∨ maxNode < mmioHoleStart then .panic "regionsForShape:bad shape constants"
  else .ok ([⟨0, mmioHoleStart⟩, ⟨4 * gib - 2 * mib, 2 * mib⟩]
            ++ nodeBanks maxNode s.nodes mmioHoleEnd (shapeSize - mmioHoleStart) mmioHoleStart)

def findShape (table : List (String × Nat × Nat × Nat)) (name : String) : Option Shape :=
  (table.find? (fun e => e.1 == name)).map (fun e => ⟨e.2.1, e.2.2.1, e.2.2.2⟩)

/-- go: tdx.machineTypeToRAMBanks -/
def machineTypeToRAMBanks (table : List (String × Nat × Nat × Nat)) (name : String) : Outcome (List Gpr) :=
  match findShape table name with
  | none => .err "shape"
  | some s => regionsForShape s

/-- one `epb.VMTdx_Measurement` -/
structure Measurement where
  ramGib : Nat
  earlyAccept : Bool
  mrtd : Bytes
deriving Repr, DecidableEq

/-- go: tdx.generateAllPossibleMRTDs.  NOTE `meas2, _ := MRTD(options, uefi)`: the error of the
    early-accept measurement is discarded and the zero array is endorsed (see `mrtd_modes_same_class`:
    it fails exactly when the first measurement failed, so the branch is dead). -/
def shapeMeasurements (H : Bytes → Bytes) (table : List (String × Nat × Nat × Nat)) (fw : Bytes)
    (includeEarlyAccept : Bool) : List String → Outcome (List Measurement)
  | [] => .ok []
  | name :: rest =>
    match machineTypeToRAMBanks table name with
    | .ok banks =>
      let size := ((findShape table name).map (·.size)).getD 0
      match mrtd H { banks := banks, measureAllRegions := true } fw with
      | .ok m1 =>
        let second : List Measurement :=
          if includeEarlyAccept then
            [⟨size % 2 ^ 32, true,
              match mrtd H { banks := banks, measureAllRegions := true, disableUnacceptedMemory := true } fw with
              | .ok m2 => m2
              | _ => List.replicate 48 0⟩]
          else []
        match shapeMeasurements H table fw includeEarlyAccept rest with
        | .ok ms => .ok (⟨size % 2 ^ 32, false, m1⟩ :: second ++ ms)
        | .err c => .err c
        | .panic p => .panic p
      | .err c => .err c
      | .panic p => .panic p
    | .err c => .err c
    | .panic p => .panic p

/-- go: tdx.UnsignedTDX (non-nil request): the measurement list of the VMTdx message -/
def unsignedTDX (H : Bytes → Bytes) (table : List (String × Nat × Nat × Nat)) (fw : Bytes)
    (includeEarlyAccept : Bool) (shapes : List String) : Outcome (List Measurement) :=
  match shapeMeasurements H table fw includeEarlyAccept shapes with
  | .ok ms =>
    match mrtd H {} fw with
    | .ok m => .ok (ms ++ [⟨0, false, m⟩])
    | .err c => .err c
    | .panic p => .panic p
  | .err c => .err c
  | .panic p => .panic p

/-! ### panic-capable expressions of the modelled functions

One entry per index / slice / make / integer conversion / Grow / explicit panic / MustParse / division
expression of the TDX firmware-analysis functions, in source order, with how the model treats it.
`C08_sites` demands that the keys equal the regenerated inventory `Gen.PanicSitesTdx.sites`, so a new
unchecked expression in the Go source breaks an obligation until it is modelled here. -/
def sitesTdx : List (String × Nat × String × String) := [
  ("tdx.regionsForShape", 0, "conv", "wrap: conversion modelled with the explicit % 2^32 / % 2^64 reduction (or value-preserving widening)"),
  ("tdx.regionsForShape", 1, "conv", "wrap: conversion modelled with the explicit % 2^32 / % 2^64 reduction (or value-preserving widening)"),
  ("tdx.regionsForShape", 2, "conv", "wrap: conversion modelled with the explicit % 2^32 / % 2^64 reduction (or value-preserving widening)"),
  ("tdx.regionsForShape", 3, "conv", "wrap: conversion modelled with the explicit % 2^32 / % 2^64 reduction (or value-preserving widening)"),
  ("tdx.regionsForShape", 4, "panic", "checked: regionsForShape:bad shape constants; excluded for the regenerated table by C05_shapes"),
  ("tdx.regionsForShape", 5, "conv", "wrap: conversion modelled with the explicit % 2^32 / % 2^64 reduction (or value-preserving widening)"),
  ("tdx.regionsForShape", 6, "conv", "wrap: conversion modelled with the explicit % 2^32 / % 2^64 reduction (or value-preserving widening)"),
  ("tdx.machineTypeToRAMBanks", 0, "index", "total: map index"),
  ("tdx.Measurement.pageAdd", 0, "slice", "const: constant range inside a fixed-size array / full slice"),
  ("tdx.Measurement.pageAdd", 1, "slice", "const: constant range inside a fixed-size array / full slice"),
  ("tdx.Measurement.pageAdd", 2, "slice", "const: constant range inside a fixed-size array / full slice"),
  ("tdx.Measurement.mrExtend", 0, "slice", "const: constant range inside a fixed-size array / full slice"),
  ("tdx.Measurement.mrExtend", 1, "slice", "const: constant range inside a fixed-size array / full slice"),
  ("tdx.Measurement.mrExtend", 2, "slice", "const: constant range inside a fixed-size array / full slice"),
  ("tdx.Measurement.mrExtend", 3, "slice", "const: chunk has 256 bytes (data[i:i+256])"),
  ("tdx.Measurement.mrExtend", 4, "slice", "const: chunk has 256 bytes (data[i:i+256])"),
  ("tdx.Measurement.InitMemoryRegion", 0, "conv", "wrap: conversion modelled with the explicit % 2^32 / % 2^64 reduction (or value-preserving widening)"),
  ("tdx.Measurement.InitMemoryRegion", 1, "divmod", "total: divisor is a non-zero constant"),
  ("tdx.Measurement.InitMemoryRegion", 2, "divmod", "total: divisor is a non-zero constant"),
  ("tdx.Measurement.InitMemoryRegion", 3, "divmod", "total: divisor is a non-zero constant"),
  ("tdx.Measurement.InitMemoryRegion", 4, "conv", "wrap: conversion modelled with the explicit % 2^32 / % 2^64 reduction (or value-preserving widening)"),
  ("tdx.Measurement.InitMemoryRegion", 5, "divmod", "total: divisor is a non-zero constant"),
  ("tdx.Measurement.InitMemoryRegion", 6, "slice", "checked: InitMemoryRegion:data[i:i+256] (initChecks_no_panic)"),
  ("tdx.Measurement.Finalize", 0, "slice", "const: constant range inside a fixed-size array / full slice"),
  ("tdx.generateAllPossibleMRTDs", 0, "conv", "wrap: conversion modelled with the explicit % 2^32 / % 2^64 reduction (or value-preserving widening)"),
  ("tdx.generateAllPossibleMRTDs", 1, "index", "total: map index"),
  ("tdx.generateAllPossibleMRTDs", 2, "slice", "const: constant range inside a fixed-size array / full slice"),
  ("tdx.generateAllPossibleMRTDs", 3, "conv", "wrap: conversion modelled with the explicit % 2^32 / % 2^64 reduction (or value-preserving widening)"),
  ("tdx.generateAllPossibleMRTDs", 4, "index", "total: map index"),
  ("tdx.generateAllPossibleMRTDs", 5, "slice", "const: constant range inside a fixed-size array / full slice"),
  ("tdx.generateAllPossibleMRTDs", 6, "slice", "const: constant range inside a fixed-size array / full slice"),
  ("ovmf.extractTDXMetadata", 0, "index", "total: map index"),
  ("ovmf.extractTDXMetadata", 1, "conv", "wrap: conversion modelled with the explicit % 2^32 / % 2^64 reduction (or value-preserving widening)"),
  ("ovmf.extractTDXMetadata", 2, "slice", "const: constant range inside a fixed-size array / full slice"),
  ("ovmf.extractTDXMetadata", 3, "mustparse", "total: constant GUID text (uuidOfString of the regenerated constant; C08_guid_constants)"),
  ("ovmf.extractTDXMetadata", 4, "conv", "wrap: conversion modelled with the explicit % 2^32 / % 2^64 reduction (or value-preserving widening)"),
  ("ovmf.extractTDXMetadata", 5, "slice", "checked: extractTDXMetadata:guid (locateMetadata_no_panic)"),
  ("ovmf.extractTDXMetadata", 6, "slice", "const: constant range inside a fixed-size array / full slice"),
  ("ovmf.extractTDXMetadata", 7, "slice", "const: constant range inside a fixed-size array / full slice"),
  ("ovmf.extractTDXMetadata", 8, "slice", "checked: extractTDXMetadata:descriptor (locateMetadata_no_panic)"),
  ("ovmf.extractTDXMetadata", 9, "conv", "wrap: conversion modelled with the explicit % 2^32 / % 2^64 reduction (or value-preserving widening)"),
  ("ovmf.validateTDXMetadataSections", 0, "conv", "wrap: conversion modelled with the explicit % 2^32 / % 2^64 reduction (or value-preserving widening)"),
  ("ovmf.validateTDXMetadataSections", 1, "conv", "wrap: conversion modelled with the explicit % 2^32 / % 2^64 reduction (or value-preserving widening)"),
  ("ovmf.validateTDXMetadataSections", 2, "conv", "wrap: conversion modelled with the explicit % 2^32 / % 2^64 reduction (or value-preserving widening)"),
  ("ovmf.tdxFwParser.parse", 0, "make", "alloc: PState.alloc; size bounded by the validated cap (makeslice cannot be out of range)"),
  ("ovmf.tdxFwParser.parse", 1, "slice", "checked: parse:fvExtend (parseStep_ok from the validated data range)"),
  ("ovmf.tdxFwParser.parse", 2, "conv", "wrap: conversion modelled with the explicit % 2^32 / % 2^64 reduction (or value-preserving widening)"),
  ("ovmf.tdxFwParser.parse", 3, "conv", "checked: parse:hobIndex (negative index panics); unreachable below 2^31 sections (parse_no_panic)"),
  ("ovmf.tdxFwParser.parse", 4, "index", "checked: parse:hobIndex"),
  ("ovmf.sortedGPRsCopy", 0, "make", "alloc: len(a) elements"),
  ("ovmf.unacceptedMemRanges", 0, "index", "guarded: loop condition privIndex < len (list head in the model)"),
  ("ovmf.unacceptedMemRanges", 1, "conv", "wrap: conversion modelled with the explicit % 2^32 / % 2^64 reduction (or value-preserving widening)"),
  ("ovmf.tdxFwParser.getTDHOBList", 0, "conv", "wrap: conversion modelled with the explicit % 2^32 / % 2^64 reduction (or value-preserving widening)"),
  ("ovmf.tdxFwParser.getTDHOBList", 1, "grow", "checked: getTDHOBList:Grow (negative count)"),
  ("ovmf.tdxFwParser.getTDHOBList", 2, "conv", "checked: getTDHOBList:Grow when >= 2^63; the cap of validateTDXMetadataSections excludes it (getTDHOBList_no_panic)"),
  ("ovmf.tdxFwParser.getTDHOBList", 3, "conv", "wrap: conversion modelled with the explicit % 2^32 / % 2^64 reduction (or value-preserving widening)"),
  ("ovmf.tdxFwParser.getTDHOBList", 4, "conv", "wrap: conversion modelled with the explicit % 2^32 / % 2^64 reduction (or value-preserving widening)"),
  ("ovmf.tdxFwParser.getTDHOBList", 5, "make", "alloc: int(gpr.Length)-Len() >= 0 after the overflow check"),
  ("ovmf.tdxFwParser.getTDHOBList", 6, "conv", "checked: getTDHOBList:Grow when >= 2^63; the cap of validateTDXMetadataSections excludes it (getTDHOBList_no_panic)"),
  ("ovmf.gprRange", 0, "conv", "wrap: conversion modelled with the explicit % 2^32 / % 2^64 reduction (or value-preserving widening)"),
  ("ovmf.gprRange", 1, "conv", "wrap: conversion modelled with the explicit % 2^32 / % 2^64 reduction (or value-preserving widening)"),
  ("ovmf.GuestPhysicalRegion.end", 0, "conv", "wrap: conversion modelled with the explicit % 2^32 / % 2^64 reduction (or value-preserving widening)"),
  ("ovmf.GuestPhysicalRegion.end", 1, "conv", "wrap: conversion modelled with the explicit % 2^32 / % 2^64 reduction (or value-preserving widening)"),
  ("ovmf.GuestPhysicalRegion.intersect", 0, "conv", "wrap: conversion modelled with the explicit % 2^32 / % 2^64 reduction (or value-preserving widening)"),
  ("ovmf.GuestPhysicalRegion.intersect", 1, "conv", "wrap: conversion modelled with the explicit % 2^32 / % 2^64 reduction (or value-preserving widening)"),
  ("abi.TDXMetadataDescriptorFromBytes", 0, "slice", "guarded: length check above (Codecs errShort)"),
  ("abi.TDXMetadataDescriptorFromBytes", 1, "slice", "guarded: length check above (Codecs errShort)"),
  ("abi.TDXMetadataDescriptorFromBytes", 2, "slice", "guarded: length check above (Codecs errShort)"),
  ("abi.TDXMetadataDescriptorFromBytes", 3, "slice", "guarded: length check above (Codecs errShort)"),
  ("abi.TDXMetadataSectionFromBytes", 0, "slice", "guarded: length check above (Codecs errShort)"),
  ("abi.TDXMetadataSectionFromBytes", 1, "slice", "guarded: length check above (Codecs errShort)"),
  ("abi.TDXMetadataSectionFromBytes", 2, "conv", "wrap: conversion modelled with the explicit % 2^32 / % 2^64 reduction (or value-preserving widening)"),
  ("abi.TDXMetadataSectionFromBytes", 3, "slice", "guarded: length check above (Codecs errShort)"),
  ("abi.TDXMetadataSectionFromBytes", 4, "slice", "guarded: length check above (Codecs errShort)"),
  ("abi.TDXMetadataSectionFromBytes", 5, "slice", "guarded: length check above (Codecs errShort)"),
  ("abi.TDXMetadataSectionFromBytes", 6, "slice", "guarded: length check above (Codecs errShort)"),
  ("abi.TDXMetadataFromBytes", 0, "conv", "wrap: conversion modelled with the explicit % 2^32 / % 2^64 reduction (or value-preserving widening)"),
  ("abi.TDXMetadataFromBytes", 1, "conv", "wrap: conversion modelled with the explicit % 2^32 / % 2^64 reduction (or value-preserving widening)"),
  ("abi.TDXMetadataFromBytes", 2, "slice", "guarded: descriptor parsed, so len(data) >= 16"),
  ("abi.TDXMetadataFromBytes", 3, "slice", "const: constant range inside a fixed-size array / full slice"),
  ("abi.TDXMetadataFromBytes", 4, "slice", "const: constant range inside a fixed-size array / full slice"),
  ("abi.EFIGUID.Put", 0, "slice", "const: constant range inside a fixed-size array / full slice"),
  ("abi.EFIGUID.Put", 1, "slice", "const: constant range inside a fixed-size array / full slice"),
  ("abi.EFIGUID.Put", 2, "slice", "const: constant range inside a fixed-size array / full slice"),
  ("abi.EFIGUID.Put", 3, "slice", "const: constant range inside a fixed-size array / full slice"),
  ("abi.EFIGUID.Put", 4, "slice", "const: constant range inside a fixed-size array / full slice"),
  ("abi.PutUUID", 0, "slice", "const: constant range inside a fixed-size array / full slice"),
  ("abi.PutUUID", 1, "slice", "const: constant range inside a fixed-size array / full slice"),
  ("abi.PutUUID", 2, "slice", "const: constant range inside a fixed-size array / full slice"),
  ("abi.PutUUID", 3, "slice", "const: constant range inside a fixed-size array / full slice"),
  ("abi.PutUUID", 4, "slice", "const: constant range inside a fixed-size array / full slice"),
  ("abi.PutUUID", 5, "slice", "const: constant range inside a fixed-size array / full slice"),
  ("abi.PutUUID", 6, "slice", "const: constant range inside a fixed-size array / full slice"),
  ("abi.PutUUID", 7, "slice", "const: constant range inside a fixed-size array / full slice"),
  ("abi.EFIHOBResourceDescriptor.WriteTo", 0, "slice", "const: constant range inside a fixed-size array / full slice"),
  ("abi.EFIHOBResourceDescriptor.WriteTo", 1, "slice", "const: constant range inside a fixed-size array / full slice")]

def siteKeys : List (String × Nat × String) := sitesTdx.map fun s => (s.1, s.2.1, s.2.2.1)

end GceTcb.Mrtd
