import GceTcb.Model.GuidTable
import GceTcb.Model.Intervals
/-
C05 / C08 (TDX half) — executable model of ovmf/tdx_data.go: extractTDXMetadata,
validateTDXMetadataSections (WITH the repair c490a61: the memory range of every section is bounded),
tdxFwParser.validateMetadataSectionGpr and the section loop of tdxFwParser.parse.  Core-only.

The GUID-table walk (ovmf.GetFwGUIDToBlockMap) is the shared model `Model/GuidTable.lean` (C04 / C08
SEV half); its error classes are folded into the one coarse class "guidtable" here.

Integers are `Nat` with the uint32 / uint64 reductions written out.  Byte slices have cap = len.
Error classes are the coarse classes the harness derives from the Go error texts.
-/
namespace GceTcb.TdxMeta
open GceTcb GceTcb.Codec GceTcb.Codecs GceTcb.GuidTable GceTcb.Intervals

/-- `b[lo:hi]` once the Go bounds check has passed -/
def sliceOf (b : Bytes) (lo hi : Nat) : Bytes := (b.drop lo).take (hi - lo)

/-- Go slice expression `b[lo:hi]` with unsigned bounds (cap = len): the shared checked slice
    `GuidTable.slice`; panics unless `lo ≤ hi ≤ len(b)` -/
def goSlice (site : String) (b : Bytes) (lo hi : Nat) : Outcome Bytes :=
  slice site b (lo : Int) (hi : Int)

/-- value of a hexadecimal digit (0 for anything else) -/
def hexDigit (c : Char) : Nat :=
  if 48 ≤ c.toNat ∧ c.toNat ≤ 57 then c.toNat - 48
  else if 97 ≤ c.toNat ∧ c.toNat ≤ 102 then c.toNat - 87
  else if 65 ≤ c.toNat ∧ c.toNat ≤ 70 then c.toNat - 55
  else 0

def hexPairs : List Char → Bytes
  | a :: b :: t => UInt8.ofNat (16 * hexDigit a + hexDigit b) :: hexPairs t
  | _ => []

/-- the 16 bytes of a uuid.UUID from its canonical text (uuid.MustParse of a constant); written over
    `String.toList` so that the kernel can evaluate it (`C08_guid_constants`) -/
def uuidOfString (s : String) : Bytes := hexPairs (s.toList.filter (fun c => c.toNat ≠ 45))

def tdxOffsetUuid : Bytes := uuidOfString "e47a6535-984a-4798-865e-4685a7bf8ec2"
def tdxMetadataUuid : Bytes := uuidOfString "e9eaf9f3-168e-44d5-a8eb-7f4d8738f6ae"
/-- `abi.PutUUID(metadataEFIGUID[:], uuid.MustParse(abi.TDXMetadataGUID))` -/
def tdxMetadataEfiGuid : Bytes := uuidRec.enc tdxMetadataUuid

def tdvfMagic : Nat := 0x46564454
def maxInitialMemory : Nat := 4 * 1024 * 1024 * 1024   -- go: ovmf.maxTDVFInitialMemory
def maxPhysBits : Nat := 52                             -- go: ovmf.maxTDVFPhysicalAddressBits

/-- State of the section loop of validateTDXMetadataSections. -/
structure VState where
  foundHob : Bool := false
  foundBfv : Bool := false
  fvSize : Nat := 0        -- uint32
  total : Nat := 0         -- uint64 (never wraps: bounded by maxInitialMemory)
deriving Repr, DecidableEq

/-- go: the closure `cfvCheck` -/
def cfvCheck (fwLen : Nat) (s : TdxSection) (st : VState) : Outcome VState :=
  if s.dataOffset > fwLen ∨ s.dataSize = 0 ∨ fwLen - s.dataOffset < s.dataSize then .err "fvrange"
  else if s.memorySize ≠ s.dataSize then .err "fvmem"
  else .ok { st with fvSize := (st.fvSize + s.dataSize) % 2 ^ 32 }

/-- go: one iteration of the section loop of validateTDXMetadataSections -/
def validateStep (fwLen : Nat) (s : TdxSection) (st : VState) : Outcome VState :=
  if s.memorySize > maxInitialMemory ∨ st.total > maxInitialMemory - s.memorySize ∨
      s.memoryBase > 2 ^ maxPhysBits - s.memorySize then .err "memrange"
  else
    let st := { st with total := st.total + s.memorySize }
    if s.sectionType = 0 then cfvCheck fwLen s { st with foundBfv := true }
    else if s.sectionType = 1 then cfvCheck fwLen s st
    else if s.sectionType = 2 then (if st.foundHob then .err "multihob" else .ok { st with foundHob := true })
    else if s.sectionType = 3 then .ok st
    else .err "type"

def validateLoop (fwLen : Nat) : List TdxSection → VState → Outcome VState
  | [], st => .ok st
  | s :: ss, st =>
    match validateStep fwLen s st with
    | .ok st' => validateLoop fwLen ss st'
    | .err c => .err c
    | .panic p => .panic p

/-- go: ovmf.validateTDXMetadataSections (`firmwareLen` is `uint32(len(firmware))`) -/
def validateTDXMetadataSections (fwLen : Nat) (md : TdxMetadata) : Outcome Unit :=
  if md.header.signature ≠ tdvfMagic then .err "sig"
  else if md.header.version ≠ 1 then .err "version"
  else if md.header.length ≠ (16 + 32 * md.header.sectionCount) % 2 ^ 32 then .err "length"
  else
    match validateLoop fwLen md.sections {} with
    | .ok st =>
      if ¬ st.foundHob then .err "nohob"
      else if ¬ st.foundBfv then .err "nobfv"
      else if st.fvSize ≠ fwLen then .err "fvsum"
      else .ok ()
    | .err c => .err c
    | .panic p => .panic p

/-- go: ovmf.extractTDXMetadata, from the block-size check to `metadataDescriptor := firmware[...:]`:
    the bytes handed to abi.TDXMetadataFromBytes. -/
def locateMetadata (fw block : Bytes) : Outcome Bytes :=
  if block.length < 4 + 18 then .err "blocksmall"
  else if leVal (block.take 4) > (fw.length - 16) % 2 ^ 32 ∨ leVal (block.take 4) < 16 then .err "offset"
  else
    match goSlice "extractTDXMetadata:guid" fw
        ((fw.length % 2 ^ 32 + 2 ^ 32 - leVal (block.take 4) + 2 ^ 32 - 16) % 2 ^ 32)
        (((fw.length % 2 ^ 32 + 2 ^ 32 - leVal (block.take 4) + 2 ^ 32 - 16) % 2 ^ 32 + 16) % 2 ^ 32) with
    | .ok got =>
      if got ≠ tdxMetadataEfiGuid then .err "guid"
      else goSlice "extractTDXMetadata:descriptor" fw
        (((fw.length % 2 ^ 32 + 2 ^ 32 - leVal (block.take 4) + 2 ^ 32 - 16) % 2 ^ 32 + 16) % 2 ^ 32) fw.length
    | .err c => .err c
    | .panic p => .panic p

/-- go: ovmf.extractTDXMetadata, from abi.TDXMetadataFromBytes on -/
def decodeAndValidate (fwLen : Nat) (desc : Bytes) : Outcome TdxMetadata :=
  match tdxMetadataFromBytes desc with
  | .ok md =>
    match validateTDXMetadataSections fwLen md with
    | .ok _ => .ok md
    | .err c => .err c
    | .panic p => .panic p
  | .err _ => .err "short"
  | .panic p => .panic p

/-- go: ovmf.extractTDXMetadata -/
def extractTDXMetadata (fw : Bytes) : Outcome TdxMetadata :=
  match getFwGUIDToBlockMap fw with
  | .ok m =>
    match m.lookup tdxOffsetUuid with
    | none => .err "noblock"
    | some block =>
      match locateMetadata fw block with
      | .ok desc => decodeAndValidate (fw.length % 2 ^ 32) desc
      | .err c => .err c
      | .panic p => .panic p
  | .err _ => .err "guidtable"
  | .panic p => .panic p

/-- `HostBuffer`: `data ++ zeros pad` (zero tails are kept symbolic so that outcome classes can be
    computed without materialising declared-but-empty memory). -/
structure HostBuf where
  data : Bytes := []
  pad : Nat := 0
deriving Repr, DecidableEq

def HostBuf.length (b : HostBuf) : Nat := b.data.length + b.pad
def HostBuf.toBytes (b : HostBuf) : Bytes := b.data ++ List.replicate b.pad 0

/-- go: ovmf.MaterialGuestPhysicalRegion -/
structure Region where
  gpr : Gpr
  buf : HostBuf
  attrs : Nat
deriving Repr, DecidableEq

/-- go: tdxFwParser.validateMetadataSectionGpr -/
def validateMetadataSectionGpr (regions : List Region) (gpr : Gpr) : Outcome Unit :=
  if regions.any (fun r => (intersect r.gpr gpr).len ≠ 0) then .err "overlap" else .ok ()

/-- State of the section loop of tdxFwParser.parse. -/
structure PState where
  regions : List Region := []
  priv : List Gpr := []
  hobIndex : Option Nat := none
  index : Nat := 0
  /-- bytes requested from `make` in the loop -/
  alloc : Nat := 0
  /-- iterations of the loop of validateMetadataSectionGpr -/
  ticks : Nat := 0
deriving Repr

/-- go: one iteration of the section loop of tdxFwParser.parse -/
def parseStep (measureAll : Bool) (fw : Bytes) (s : TdxSection) (st : PState) : Outcome PState :=
  let gpr : Gpr := ⟨s.memoryBase, s.memorySize⟩
  let attrs := if measureAll then s.attributes ||| 1 else s.attributes
  match validateMetadataSectionGpr st.regions gpr with
  | .ok _ =>
    let st1 := { st with priv := st.priv ++ [gpr], index := st.index + 1, ticks := st.ticks + st.regions.length }
    let zeroExtend : PState :=
      { st1 with regions := st.regions ++ [⟨gpr, ⟨[], if measureAll then s.memorySize else 0⟩, attrs⟩],
                 alloc := st.alloc + (if measureAll then s.memorySize else 0) }
    if s.sectionType = 2 then
      .ok { zeroExtend with hobIndex := some st.index }
    else if s.sectionType = 3 then .ok zeroExtend
    else if s.sectionType = 0 ∨ s.sectionType = 1 then
      match goSlice "parse:fvExtend" fw s.dataOffset ((s.dataOffset + s.memorySize % 2 ^ 32) % 2 ^ 32) with
      | .ok b => .ok { st1 with regions := st.regions ++ [⟨gpr, ⟨b, 0⟩, attrs⟩] }
      | .err c => .err c
      | .panic p => .panic p
    else .err "type"
  | .err c => .err c
  | .panic p => .panic p

def parseLoop (measureAll : Bool) (fw : Bytes) : List TdxSection → PState → Outcome PState
  | [], st => .ok st
  | s :: ss, st =>
    match parseStep measureAll fw s st with
    | .ok st' => parseLoop measureAll fw ss st'
    | .err c => .err c
    | .panic p => .panic p

end GceTcb.TdxMeta
