import GceTcb.Base.Line
/-
The protobuf wire format as Go's google.golang.org/protobuf (v1.34.2) reads and writes it, for the five
endorsement messages of proto/endorsement.proto:

  VMLaunchEndorsement, VMGoldenMeasurement, VMSevSnp (with `map<uint32, bytes> measurements`),
  VMTdx + VMTdx.Measurement rows, google.protobuf.Timestamp.

Core-only and executable.  None of the five messages has a `string`, `sint`, fixed-width, packed or
`optional` scalar field, so UTF-8 validation, zig-zag and packed decoding do not occur; everything else
the decoder can meet on the wire (all six wire types, groups, over-long varints, unknown fields, wrong
wire types for known fields, duplicated and split fields) is modelled.

Structure of the model (an observationally equivalent restructuring of impl.unmarshalPointer, which is
itself driven by a per-message field table):

  1. `readField` splits ONE field off the input exactly as the Go loop does: tag varint
     (protowire.ConsumeVarint: at most ten bytes, the tenth < 2; over-long encodings accepted),
     field number in 1 .. 2^29-1, then the value by wire type — what the typed consumer
     (consumeUint32, consumeBytes, consumeMessageInfo, …) reads when the wire type fits the field and
     what protowire.ConsumeFieldValue skips otherwise are the same bytes, so the split can be done
     before the dispatch.  End-group outside a group and wire types 6, 7 reject.
  2. `parseFields` = the loop `for len(b) > 0` (fuel = number of bytes; `parseFields_fuel` proves
     that this fuel is never exhausted).
  3. each message is a fold of its `step` function over the fields: known (number, wire type)
     pairs update the record (scalars: last wins, with Go's truncating conversion; embedded messages:
     merge into the existing value; repeated: append; map: SetMapIndex), every other field is
     appended to the message's unknown bytes as canonical tag ++ the value bytes as they appeared.

Go maps are represented by their association list sorted by key without duplicates (`mapSet`), the one
canonical representative of the map.  The marshaller's map iteration order is an input: `encode…Raw`
emits the entries in the order of the list it is given (proto.Marshal: Go map order, unspecified),
`encode…` first sorts (MarshalOptions{Deterministic: true}).
-/
namespace GceTcb.ProtoWire
open GceTcb

/-! ## varints (protowire.AppendVarint / ConsumeVarint) -/

def encodeVarintF : Nat → Nat → Bytes
  | 0, _ => []
  | f + 1, n =>
    if n < 128 then [UInt8.ofNat n] else UInt8.ofNat (n % 128 + 128) :: encodeVarintF f (n / 128)

/-- go: protowire.AppendVarint(b, v uint64) — the argument is a uint64, hence the reduction. -/
def encodeVarint (n : Nat) : Bytes := encodeVarintF 10 (n % 2 ^ 64)

/-- `f + 1` = number of bytes that may still be read; the last one (the tenth) must be 0 or 1. -/
def decodeVarintF : Nat → Bytes → Option (Nat × Bytes)
  | 0, _ => none
  | _ + 1, [] => none
  | f + 1, b :: rest =>
    if b.toNat < 128 then
      (if f = 0 ∧ 2 ≤ b.toNat then none else some (b.toNat, rest))
    else if f = 0 then none
    else
      match decodeVarintF f rest with
      | none => none
      | some (v, r) => some (b.toNat - 128 + 128 * v, r)

/-- go: protowire.ConsumeVarint — truncated input, an eleventh byte or a tenth byte ≥ 2 reject;
    non-minimal encodings are accepted. (The one- and two-byte fast paths of the callers compute the
    same value.) -/
def decodeVarint (b : Bytes) : Option (Nat × Bytes) := decodeVarintF 10 b

/-- go: protowire.ConsumeBytes — length varint, then that many bytes. -/
def decodeLen (b : Bytes) : Option (Bytes × Bytes) :=
  match decodeVarint b with
  | none => none
  | some (m, r) => if r.length < m then none else some (r.take m, r.drop m)

/-! ## fields -/

def maxValidNumber : Nat := 536870911     -- protowire.MaxValidNumber = 2^29 - 1
def maxInt32 : Nat := 2147483647
/-- protowire.DefaultRecursionLimit + 1: the number of groups that may be open at once while an
    unknown group is skipped (consumeFieldValueD starts at depth 10000 and rejects below 0). -/
def groupDepthLimit : Nat := 10001

inductive Val where
  | varint (v : Nat)
  | i64 (bs : Bytes)
  | len (bs : Bytes)
  | group
  | i32 (bs : Bytes)
deriving Repr, DecidableEq

def Val.wt : Val → Nat
  | .varint _ => 0 | .i64 _ => 1 | .len _ => 2 | .group => 3 | .i32 _ => 5

/-- One field as met on the wire: number, decoded value, and the value's bytes as they appeared
    (kept verbatim when the field is unknown). -/
structure Field where
  num : Nat
  val : Val
  raw : Bytes
deriving Repr, DecidableEq

def tagBytes (num wt : Nat) : Bytes := encodeVarint (num * 8 + wt)

/-- go: protowire.ConsumeTag, used inside groups: field number in 1 .. MaxInt32. -/
def consumeTag (b : Bytes) : Option (Nat × Nat × Bytes) :=
  match decodeVarint b with
  | none => none
  | some (v, r) => if maxInt32 < v / 8 ∨ v / 8 < 1 then none else some (v / 8, v % 8, r)

/-- go: protowire.consumeFieldValueD on a start-group, iteratively: `stack` = numbers of the open
    groups, innermost first; returns what follows the end-group that closes the outermost one. -/
def skipGroups : Nat → List Nat → Bytes → Option Bytes
  | _, [], b => some b
  | 0, _ :: _, _ => none
  | fuel + 1, g :: gs, b =>
    match consumeTag b with
    | none => none
    | some (num2, typ2, b1) =>
      match typ2 with
      | 0 => match decodeVarint b1 with
        | none => none
        | some (_, r) => skipGroups fuel (g :: gs) r
      | 1 => if b1.length < 8 then none else skipGroups fuel (g :: gs) (b1.drop 8)
      | 2 => match decodeLen b1 with
        | none => none
        | some (_, r) => skipGroups fuel (g :: gs) r
      | 3 => if groupDepthLimit ≤ gs.length + 1 then none else skipGroups fuel (num2 :: g :: gs) b1
      | 4 => if num2 = g then skipGroups fuel gs b1 else none
      | 5 => if b1.length < 4 then none else skipGroups fuel (g :: gs) (b1.drop 4)
      | _ => none

/-- the bytes of `b` in front of its suffix `r` -/
def consumed (b r : Bytes) : Bytes := b.take (b.length - r.length)

/-- One iteration of the loop of impl.unmarshalPointer up to the dispatch (also of the entry loop of
    impl.consumeMap, whose number range and error cases coincide). -/
def readField (b : Bytes) : Option (Field × Bytes) :=
  match decodeVarint b with
  | none => none
  | some (tag, b1) =>
    if tag / 8 < 1 ∨ maxValidNumber < tag / 8 then none
    else
      match tag % 8 with
      | 0 => match decodeVarint b1 with
        | none => none
        | some (v, r) => some (⟨tag / 8, .varint v, consumed b1 r⟩, r)
      | 1 => if b1.length < 8 then none else some (⟨tag / 8, .i64 (b1.take 8), b1.take 8⟩, b1.drop 8)
      | 2 => match decodeLen b1 with
        | none => none
        | some (p, r) => some (⟨tag / 8, .len p, consumed b1 r⟩, r)
      | 3 => match skipGroups b1.length [tag / 8] b1 with
        | none => none
        | some r => some (⟨tag / 8, .group, consumed b1 r⟩, r)
      | 5 => if b1.length < 4 then none else some (⟨tag / 8, .i32 (b1.take 4), b1.take 4⟩, b1.drop 4)
      | _ => none      -- 4: end-group outside a group; 6, 7: reserved

def parseFieldsF : Nat → Bytes → Option (List Field)
  | _, [] => some []
  | 0, _ :: _ => none
  | n + 1, b :: bs =>
    match readField (b :: bs) with
    | none => none
    | some (f, rest) =>
      match parseFieldsF n rest with
      | none => none
      | some fs => some (f :: fs)

/-- the loop `for len(b) > 0 { … }` -/
def parseFields (b : Bytes) : Option (List Field) := parseFieldsF b.length b

def foldFields {M : Type} (step : M → Field → Option M) : M → List Field → Option M
  | m, [] => some m
  | m, f :: fs =>
    match step m f with
    | none => none
    | some m' => foldFields step m' fs

/-- Unmarshal into an existing message (merge semantics). -/
def decodeInto {M : Type} (step : M → Field → Option M) (init : M) (b : Bytes) : Option M :=
  match parseFields b with
  | none => none
  | some fs => foldFields step init fs

/-- what impl.unmarshalPointer appends to the unknown-field bytes -/
def Field.unknownBytes (f : Field) : Bytes := tagBytes f.num f.val.wt ++ f.raw

/-! ### emitting -/

def fVarint (num v : Nat) : Field := ⟨num, .varint (v % 2 ^ 64), encodeVarint v⟩
def fLen (num : Nat) (p : Bytes) : Field := ⟨num, .len p, encodeVarint p.length ++ p⟩

def encField (f : Field) : Bytes := tagBytes f.num f.val.wt ++ f.raw

def encFields : List Field → Bytes
  | [] => []
  | f :: fs => encField f ++ encFields fs

/-- proto3 scalar without presence: the zero value is not emitted -/
def optVarint (num v : Nat) : List Field := if v % 2 ^ 64 = 0 then [] else [fVarint num v]
/-- proto3 bytes without presence: empty (nil or zero-length) is not emitted -/
def optBytes (num : Nat) (p : Bytes) : List Field := if p = [] then [] else [fLen num p]
/-- message field: emitted iff the pointer is non-nil, also when the message is empty -/
def optMsg (num : Nat) (o : Option Bytes) : List Field :=
  match o with
  | none => []
  | some p => [fLen num p]

/-! ### integer conversions -/

/-- go: uint64(x) for a signed x (two's complement) -/
def i64bits (x : Int) : Nat := (x % 18446744073709551616).toNat
/-- go: int64(v) -/
def toInt64 (v : Nat) : Int :=
  if v % 18446744073709551616 < 9223372036854775808 then (v % 18446744073709551616 : Nat)
  else ((v % 18446744073709551616 : Nat) : Int) - 18446744073709551616
/-- go: int32(v) for a uint64 v -/
def toInt32 (v : Nat) : Int :=
  if v % 4294967296 < 2147483648 then (v % 4294967296 : Nat) else ((v % 4294967296 : Nat) : Int) - 4294967296
def b2n (b : Bool) : Nat := if b then 1 else 0

/-! ### Go maps as sorted association lists -/

/-- go: m[k] = v -/
def mapSet : List (Nat × Bytes) → Nat → Bytes → List (Nat × Bytes)
  | [], k, v => [(k, v)]
  | (k', v') :: t, k, v =>
    if k < k' then (k, v) :: (k', v') :: t
    else if k = k' then (k, v) :: t
    else (k', v') :: mapSet t k v

/-- the map an association list denotes (later entries win), in canonical form -/
def normMap (l : List (Nat × Bytes)) : List (Nat × Bytes) :=
  l.foldl (fun acc p => mapSet acc p.1 p.2) []

/-! ## google.protobuf.Timestamp -/

structure WTimestamp where
  seconds : Int        -- int64 seconds = 1
  nanos : Int          -- int32 nanos = 2
  unknown : Bytes
deriving Repr, DecidableEq

def WTimestamp.zero : WTimestamp := ⟨0, 0, []⟩

def stepTimestamp (m : WTimestamp) (f : Field) : Option WTimestamp :=
  match f.num, f.val with
  | 1, .varint v => some { m with seconds := toInt64 v }
  | 2, .varint v => some { m with nanos := toInt32 v }
  | _, _ => some { m with unknown := m.unknown ++ f.unknownBytes }

def timestampFields (t : WTimestamp) : List Field :=
  optVarint 1 (i64bits t.seconds) ++ optVarint 2 (i64bits t.nanos)

def encodeTimestamp (t : WTimestamp) : Bytes := encFields (timestampFields t) ++ t.unknown
def decodeTimestampInto (m : WTimestamp) (b : Bytes) : Option WTimestamp := decodeInto stepTimestamp m b
def decodeTimestamp (b : Bytes) : Option WTimestamp := decodeTimestampInto .zero b

/-! ## VMTdx.Measurement -/

structure WRow where
  ramGib : Nat         -- uint32 ram_gib = 1
  earlyAccept : Bool   -- bool early_accept = 2
  mrtd : Bytes         -- bytes mrtd = 3
  unknown : Bytes
deriving Repr, DecidableEq

def WRow.zero : WRow := ⟨0, false, [], []⟩

def stepRow (m : WRow) (f : Field) : Option WRow :=
  match f.num, f.val with
  | 1, .varint v => some { m with ramGib := v % 4294967296 }
  | 2, .varint v => some { m with earlyAccept := decide (v ≠ 0) }
  | 3, .len p => some { m with mrtd := p }
  | _, _ => some { m with unknown := m.unknown ++ f.unknownBytes }

def rowFields (r : WRow) : List Field :=
  optVarint 1 r.ramGib ++ (optVarint 2 (b2n r.earlyAccept) ++ optBytes 3 r.mrtd)

def encodeRow (r : WRow) : Bytes := encFields (rowFields r) ++ r.unknown
def decodeRow (b : Bytes) : Option WRow := decodeInto stepRow .zero b

/-! ## VMTdx -/

structure WTdx where
  svn : Nat                   -- uint32 svn = 1
  measurements : List WRow    -- repeated Measurement measurements = 2
  unknown : Bytes
deriving Repr, DecidableEq

def WTdx.zero : WTdx := ⟨0, [], []⟩

def stepTdx (m : WTdx) (f : Field) : Option WTdx :=
  match f.num, f.val with
  | 1, .varint v => some { m with svn := v % 4294967296 }
  | 2, .len p =>
    match decodeRow p with
    | none => none
    | some r => some { m with measurements := m.measurements ++ [r] }
  | _, _ => some { m with unknown := m.unknown ++ f.unknownBytes }

def tdxFields (d : WTdx) : List Field :=
  optVarint 1 d.svn ++ d.measurements.map (fun r => fLen 2 (encodeRow r))

def encodeTdx (d : WTdx) : Bytes := encFields (tdxFields d) ++ d.unknown
def decodeTdxInto (m : WTdx) (b : Bytes) : Option WTdx := decodeInto stepTdx m b
def decodeTdx (b : Bytes) : Option WTdx := decodeTdxInto .zero b

/-! ## map<uint32, bytes> entry -/

/-- go: the loop of impl.consumeMap over one entry: key = 1 (uint32), value = 2 (bytes), both start
    at their zero values, last occurrence wins, anything else is skipped and dropped. -/
def stepEntry (m : Nat × Bytes) (f : Field) : Option (Nat × Bytes) :=
  match f.num, f.val with
  | 1, .varint v => some (v % 4294967296, m.2)
  | 2, .len p => some (m.1, p)
  | _, _ => some m

def decodeEntry (b : Bytes) : Option (Nat × Bytes) := decodeInto stepEntry (0, []) b

/-- go: impl.appendMapItem — key and value are both always emitted -/
def entryFields (k : Nat) (v : Bytes) : List Field := [fVarint 1 k, fLen 2 v]
def encodeEntry (k : Nat) (v : Bytes) : Bytes := encFields (entryFields k v)

/-! ## VMSevSnp -/

structure WSevSnp where
  svn : Nat                           -- uint32 svn = 1
  measurements : List (Nat × Bytes)   -- map<uint32, bytes> measurements = 2
  familyId : Bytes                    -- bytes family_id = 3
  imageId : Bytes                     -- bytes image_id = 4
  policy : Nat                        -- uint64 policy = 5
  caBundle : Bytes                    -- bytes ca_bundle = 6
  svsmMeasurement : Bytes             -- bytes svsm_measurement = 7
  unknown : Bytes
deriving Repr, DecidableEq

def WSevSnp.zero : WSevSnp := ⟨0, [], [], [], 0, [], [], []⟩

def stepSevSnp (m : WSevSnp) (f : Field) : Option WSevSnp :=
  match f.num, f.val with
  | 1, .varint v => some { m with svn := v % 4294967296 }
  | 2, .len p =>
    match decodeEntry p with
    | none => none
    | some (k, v) => some { m with measurements := mapSet m.measurements k v }
  | 3, .len p => some { m with familyId := p }
  | 4, .len p => some { m with imageId := p }
  | 5, .varint v => some { m with policy := v % 18446744073709551616 }
  | 6, .len p => some { m with caBundle := p }
  | 7, .len p => some { m with svsmMeasurement := p }
  | _, _ => some { m with unknown := m.unknown ++ f.unknownBytes }

def sevSnpFields (s : WSevSnp) : List Field :=
  optVarint 1 s.svn ++ (s.measurements.map (fun p => fLen 2 (encodeEntry p.1 p.2)) ++
  (optBytes 3 s.familyId ++ (optBytes 4 s.imageId ++ (optVarint 5 s.policy ++
  (optBytes 6 s.caBundle ++ optBytes 7 s.svsmMeasurement)))))

/-- proto.Marshal: map entries in the order given (Go's map iteration order) -/
def encodeSevSnpRaw (s : WSevSnp) : Bytes := encFields (sevSnpFields s) ++ s.unknown
def canonSevSnp (s : WSevSnp) : WSevSnp := { s with measurements := normMap s.measurements }
/-- proto.MarshalOptions{Deterministic: true}: map entries sorted by key -/
def encodeSevSnp (s : WSevSnp) : Bytes := encodeSevSnpRaw (canonSevSnp s)
def decodeSevSnpInto (m : WSevSnp) (b : Bytes) : Option WSevSnp := decodeInto stepSevSnp m b
def decodeSevSnp (b : Bytes) : Option WSevSnp := decodeSevSnpInto .zero b

/-! ## VMGoldenMeasurement -/

structure WGolden where
  timestamp : Option WTimestamp   -- google.protobuf.Timestamp timestamp = 1
  clSpec : Nat                    -- uint64 cl_spec = 2
  commit : Bytes                  -- bytes commit = 3
  cert : Bytes                    -- bytes cert = 4
  digest : Bytes                  -- bytes digest = 5
  caBundle : Bytes                -- bytes ca_bundle = 6
  sevSnp : Option WSevSnp         -- VMSevSnp sev_snp = 7
  tdx : Option WTdx               -- VMTdx tdx = 8
  unknown : Bytes
deriving Repr, DecidableEq

def WGolden.zero : WGolden := ⟨none, 0, [], [], [], [], none, none, []⟩

def stepGolden (m : WGolden) (f : Field) : Option WGolden :=
  match f.num, f.val with
  | 1, .len p =>
    match decodeTimestampInto (m.timestamp.getD .zero) p with
    | none => none
    | some t => some { m with timestamp := some t }
  | 2, .varint v => some { m with clSpec := v % 18446744073709551616 }
  | 3, .len p => some { m with commit := p }
  | 4, .len p => some { m with cert := p }
  | 5, .len p => some { m with digest := p }
  | 6, .len p => some { m with caBundle := p }
  | 7, .len p =>
    match decodeSevSnpInto (m.sevSnp.getD .zero) p with
    | none => none
    | some s => some { m with sevSnp := some s }
  | 8, .len p =>
    match decodeTdxInto (m.tdx.getD .zero) p with
    | none => none
    | some d => some { m with tdx := some d }
  | _, _ => some { m with unknown := m.unknown ++ f.unknownBytes }

def goldenFields (g : WGolden) : List Field :=
  optMsg 1 (g.timestamp.map encodeTimestamp) ++ (optVarint 2 g.clSpec ++ (optBytes 3 g.commit ++
  (optBytes 4 g.cert ++ (optBytes 5 g.digest ++ (optBytes 6 g.caBundle ++
  (optMsg 7 (g.sevSnp.map encodeSevSnpRaw) ++ optMsg 8 (g.tdx.map encodeTdx)))))))

def encodeGoldenRaw (g : WGolden) : Bytes := encFields (goldenFields g) ++ g.unknown
def canonGolden (g : WGolden) : WGolden := { g with sevSnp := g.sevSnp.map canonSevSnp }
def encodeGolden (g : WGolden) : Bytes := encodeGoldenRaw (canonGolden g)
def decodeGolden (b : Bytes) : Option WGolden := decodeInto stepGolden .zero b

/-! ## VMLaunchEndorsement -/

structure WEndorsement where
  serializedUefiGolden : Bytes    -- bytes serialized_uefi_golden = 1
  signature : Bytes               -- bytes signature = 2
  unknown : Bytes
deriving Repr, DecidableEq

def WEndorsement.zero : WEndorsement := ⟨[], [], []⟩

def stepEndorsement (m : WEndorsement) (f : Field) : Option WEndorsement :=
  match f.num, f.val with
  | 1, .len p => some { m with serializedUefiGolden := p }
  | 2, .len p => some { m with signature := p }
  | _, _ => some { m with unknown := m.unknown ++ f.unknownBytes }

def endorsementFields (e : WEndorsement) : List Field :=
  optBytes 1 e.serializedUefiGolden ++ optBytes 2 e.signature

def encodeEndorsement (e : WEndorsement) : Bytes := encFields (endorsementFields e) ++ e.unknown
def decodeEndorsement (b : Bytes) : Option WEndorsement := decodeInto stepEndorsement .zero b

end GceTcb.ProtoWire
