import GceTcb.Model.PathParse
import GceTcb.Spec.PathWalk
/-
Model of gcetcbendorsement/parsepath/access.go PathValues (C19), the typing of message values against
a schema, and the byte-form writers of presentation.go.  Core-only.  The message values and the
specification `walk` are in Spec/PathWalk.lean.

A map value carries the Go type class of its keys (Go's `Map.Get` panics on a key of another Go type).

Panics of the protoreflect API are checked steps: `Value.Message/List/Map` on a value of another
shape, `Message.Get` with a field descriptor of another message type, `List.Get` out of range,
`Map.Get` with a key of the wrong Go type.
-/
namespace GceTcb.Path

/-! ### access.go -/

/-- go: protoreflect.Value.Message (panics on another shape) followed by Message.Get(fd), which
    panics when fd does not belong to the message's type -/
def valueMessageGet (cur : Value) (fd : Field) : Outcome Value :=
  match cur with
  | .msg ty fs => if fd.parent = ty then .ok (msgGet fs fd) else .panic "message.get.wrong-descriptor"
  | _ => .panic "value.message"

/-- go: cursor.List() -/
def valueList (cur : Value) : Outcome (List Value) :=
  match cur with
  | .list xs => .ok xs
  | _ => .panic "value.list"

/-- go: cursor.Map().Get(key) — `none` is the invalid Value of a missing key -/
def valueMapGet (cur : Value) (k : Scalar) : Outcome (Option Value) :=
  match cur with
  | .map kc es => if k.cls = kc then .ok (lookupKey es k) else .panic "map.get.key-type"
  | _ => .panic "value.map"

def Desc.fullName : Desc → Str
  | .nil => []
  | .msg md => md.name
  | .field fd => fd.parent ++ asc "." ++ fd.name

/-- go: the loop body of PathValues for step number `i`; returns the new (descriptor, cursor). -/
def evalStep (V : Variant) (sch : Schema) (i : Nat) (desc : Desc) (cursor : Value) :
    Step → Outcome (Desc × Value)
  | .root name =>
    if i ≠ 0 then .err "root-index"
    else if name ≠ desc.fullName then .err "root-type"
    else .ok (desc, cursor)
  | .field fd => do
    let d1 ← (match desc with
      | .field f => f.message sch
      | d => .ok d)
    match d1 with
    | .msg md =>
      match md.byNumber fd.number with
      | none => .err "missing-field"
      | some f' => do
        let c ← valueMessageGet cursor fd
        .ok (.field f', c)
    | _ => .err "desc-not-message"
  | .listIndex index =>
    match desc with
    | .field fd =>
      if !fd.isList then .err "desc-not-list"
      else do
        let d' ← fd.message sch
        if index < 0 then .err "range"
        else do
          let xs ← valueList cursor
          if index ≥ (xs.length : Int) then .err "range"
          else match xs[index.toNat]? with
            | some x => .ok (d', x)
            | none => .panic "list.get.range"
    | _ => .err "desc-not-field"
  | .mapIndex k =>
    match desc with
    | .field fd =>
      if !fd.isMap then .err "desc-not-map"
      else do
        let r ← valueMapGet cursor k
        match r with
        | none => .err "key"
        | some x =>
          if V.advanceMapCursor then do
            let d' ← fd.mapValueMessage sch
            .ok (d', x)
          else .ok (desc, x)
    | _ => .err "desc-not-field"
  | .anyExpand name =>
    match desc with
    | .msg md => if md.name = name then .ok (desc, cursor) else .err "any"
    | _ => .err "any"
  | .unknown => .err "unknown-step"

def evalFrom (V : Variant) (sch : Schema) : List Step → Nat → Desc → Value → List Value → Outcome (List Value)
  | [], _, _, _, acc => .ok acc
  | s :: rest, i, desc, cur, acc =>
    match evalStep V sch i desc cur s with
    | .ok r => evalFrom V sch rest (i + 1) r.1 r.2 (acc ++ [r.2])
    | .err e => .err e
    | .panic p => .panic p

/-- go: parsepath.PathValues — the message's own descriptor starts the cursor. -/
def pathValuesV (V : Variant) (sch : Schema) (p : List Step) (m : Value) : Outcome (List Value) :=
  match m with
  | .msg ty _ =>
    match lookupMsg sch ty with
    | some md => evalFrom V sch p 0 (.msg md) m []
    | none => .err "schema"
  | _ => .panic "not-a-message"

/-- the repaired code -/
def pathValues (sch : Schema) (p : List Step) (m : Value) : Outcome (List Value) :=
  pathValuesV .fixed sch p m

/-! ### typing of values against the schema -/

inductive Ty
  | msg (name : Str)       -- a message of this type
  | fieldOf (fd : Field)   -- the value of field fd (element, list or map according to fd.card)
  | elemOf (fd : Field)    -- one element / map value of field fd

inductive Typed (sch : Schema) : Ty → Value → Prop
  | msg (name : Str) (fs : List (Nat × Value)) :
      (∀ md n x fd, lookupMsg sch name = some md → (n, x) ∈ fs → md.byNumber n = some fd →
          Typed sch (.fieldOf fd) x) →
      Typed sch (.msg name) (.msg name fs)
  | single (fd : Field) (v : Value) : fd.card = .single → Typed sch (.elemOf fd) v → Typed sch (.fieldOf fd) v
  | list (fd : Field) (xs : List Value) : fd.card = .list → (∀ x, x ∈ xs → Typed sch (.elemOf fd) x) →
      Typed sch (.fieldOf fd) (.list xs)
  | map (fd : Field) (kk : Kind) (kc : VClass) (es : List (Scalar × Value)) :
      fd.card = .map kk → kk.cls = some kc →
      (∀ k x, (k, x) ∈ es → k.cls = kc) → (∀ k x, (k, x) ∈ es → Typed sch (.elemOf fd) x) →
      Typed sch (.fieldOf fd) (.map kc es)
  | scalar (fd : Field) (s : Scalar) : fd.kind.cls = some s.cls → Typed sch (.elemOf fd) (.scalar s)
  | sub (fd : Field) (v : Value) : fd.kind.isMessage = true → Typed sch (.msg fd.ref) v → Typed sch (.elemOf fd) v

/-! ### executable type checker (sound for `Typed`, see Proofs/PathAccess.lean) -/

mutual
def typedElemB (sch : Schema) (fd : Field) : Value → Bool
  | .scalar s => fd.kind.cls == some s.cls
  | .msg ty fs => fd.kind.isMessage && ty == fd.ref && typedFieldsB sch (lookupMsg sch ty) fs
  | .list _ => false
  | .map _ _ => false
def typedFieldsB (sch : Schema) (omd : Option MsgDesc) : List (Nat × Value) → Bool
  | [] => true
  | (n, x) :: rest =>
    (match omd with
      | none => true
      | some md =>
        match md.byNumber n with
        | none => false
        | some fd => typedFieldB sch fd x) && typedFieldsB sch omd rest
def typedFieldB (sch : Schema) (fd : Field) : Value → Bool
  | .scalar s => fd.card == .single && fd.kind.cls == some s.cls
  | .msg ty fs =>
    fd.card == .single && fd.kind.isMessage && ty == fd.ref && typedFieldsB sch (lookupMsg sch ty) fs
  | .list xs => fd.card == .list && typedListB sch fd xs
  | .map kc es =>
    (match fd.card with
      | .map kk => kk.cls == some kc
      | _ => false) && typedEntriesB sch fd kc es
def typedListB (sch : Schema) (fd : Field) : List Value → Bool
  | [] => true
  | x :: r => typedElemB sch fd x && typedListB sch fd r
def typedEntriesB (sch : Schema) (fd : Field) (kc : VClass) : List (Scalar × Value) → Bool
  | [] => true
  | (k, x) :: r => k.cls == kc && typedElemB sch fd x && typedEntriesB sch fd kc r
end

/-- `v` is a well-typed message of type `root` (no unknown field numbers, every populated field has
    the shape its descriptor says) -/
def typedB (sch : Schema) (root : Str) : Value → Bool
  | .msg ty fs => ty == root && typedFieldsB sch (lookupMsg sch ty) fs
  | _ => false

/-! ### presentation.go: byte forms -/

-- go: gcetcbendorsement.BytesForm
inductive BytesForm
  | raw | hex | hexGuidify | base64 | auto
deriving DecidableEq, Repr

def hexChar (n : Nat) : Nat := if n < 10 then 48 + n else 87 + n

/-- go: encoding/hex -/
def hexEnc (b : Str) : Str := b.flatMap (fun x => [hexChar (x / 16 % 16), hexChar (x % 16)])

def b64Char (n : Nat) : Nat :=
  if n < 26 then 65 + n else if n < 52 then 97 + (n - 26) else if n < 62 then 48 + (n - 52)
  else if n = 62 then 43 else 47

/-- go: base64.StdEncoding (with padding) -/
def b64Enc : Str → Str
  | a :: b :: c :: rest =>
    [b64Char (a / 4 % 64), b64Char ((a % 4) * 16 + b / 16 % 16), b64Char ((b % 16) * 4 + c / 64 % 4), b64Char (c % 64)]
      ++ b64Enc rest
  | [a, b] => [b64Char (a / 4 % 64), b64Char ((a % 4) * 16 + b / 16 % 16), b64Char ((b % 16) * 4), 61]
  | [a] => [b64Char (a / 4 % 64), b64Char ((a % 4) * 16), 61, 61]
  | [] => []

/-- go: uuid.UUID.String of 16 bytes -/
def guidString (b : Str) : Str :=
  hexEnc (b.take 4) ++ [45] ++ hexEnc ((b.drop 4).take 2) ++ [45] ++ hexEnc ((b.drop 6).take 2) ++ [45]
    ++ hexEnc ((b.drop 8).take 2) ++ [45] ++ hexEnc (b.drop 10)

/-- go: gcetcbendorsement.WriteBytesForm — the bytes handed to the writer (`term` = w.IsTerminal()) -/
def writeBytesForm (bytes : Str) (form : BytesForm) (term : Bool) : Str :=
  match form with
  | .raw => bytes
  | .hex => hexEnc bytes
  | .hexGuidify => if bytes.length ≠ 16 then hexEnc bytes else guidString bytes
  | .base64 => b64Enc bytes
  | .auto => if term then b64Enc bytes else bytes

/-- decimal rendering of fmt's %v for integers -/
def natDigits : Nat → Nat → Str
  | 0, _ => [48]
  | fuel + 1, n => if n < 10 then [48 + n] else natDigits fuel (n / 10) ++ [48 + n % 10]

def intString (i : Int) : Str :=
  if i < 0 then 45 :: natDigits (i.natAbs + 1) i.natAbs else natDigits (i.natAbs + 1) i.natAbs

/-- go: MaskOptions.marshal restricted to the value shapes whose rendering does not go through
    prototext or fmt's float formatting: bytes, string, bool, integers, enum numbers.
    `none` = not modelled (messages, lists, maps, floats). -/
def marshalValue (v : Value) (form : BytesForm) (term : Bool) : Option Str :=
  match v with
  | .scalar s =>
    match s.cls with
    | .bytes => some (writeBytesForm s.str form term)
    | .str => some s.str
    | .bool => some (if s.num = 0 then asc "false" else asc "true")
    | .i32 | .i64 | .u32 | .u64 | .enum => some (intString s.num)
    | _ => none
  | _ => none

/-- go: MaskOptions.Mask over already-read path strings (PathRenderer not modelled: the caller does
    not pass the literal path "timestamp").  Result: bytes written, or the error class; the output
    is `none` once some addressed value has a rendering that is not modelled (later paths are still
    parsed and evaluated, so their errors are reported as in Go). -/
def maskPaths (sch : Schema) (root : Str) (src : Value) (form : BytesForm) (term : Bool) :
    List Str → Nat → Option Str → Outcome (Option Str)
  | [], _, out => .ok out
  | p :: rest, i, out => do
    let path ← parsePath sch root p
    let vs ← pathValues sch path src
    match vs.getLast? with
    | none => .panic "values.index"         -- vs.Index(-1) on an empty Values
    | some v =>
      match marshalValue v form term, out with
      | some r, some o => maskPaths sch root src form term rest (i + 1) (some (o ++ (if i ≠ 0 then [10] else []) ++ r))
      | _, _ => maskPaths sch root src form term rest (i + 1) none

end GceTcb.Path
