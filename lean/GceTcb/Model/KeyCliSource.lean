/-
The source Model/KeyCli.lean and Model/CliFlagTypes.lean were written from, as statement skeletons: conditions,
assignments and calls of the modelled functions with their nesting, error constructors abstracted (`<error>`),
composite literals elided (`{…}`).  The extractor regenerates the same skeletons from the current source
(`Gen.KeyFlags`); the obligation `C12_cli_source_skeleton` (Props/C12Cli.lean) states that they are equal, so that a
re-ordered check, a re-bound assignment, a new branch or a changed composition order in one of these functions has
to be met by a revision of the model.  Core-only, data only.
-/
namespace GceTcb.KeyCli.Source

def bootstrapOther : List String :=
  ["bc := &rotate.BootstrapContext{}",
   "cmd.SetContext(rotate.NewBootstrapContext(cmd.Context(), bc))"]
def bootstrapPreRunSteps : List String :=
  ["bc,err := rotate.FromBootstrapContext(cmd.Context())",
   "if err != nil {return err}",
   "if bc.Now.IsZero() {bc.Now = time.Now()}",
   "return nil"]
def bootstrapInitSteps : List String :=
  ["return ctx,nil"]
def rotateOther : List String :=
  ["skc := &rotate.SigningKeyContext{}",
   "cmd.SetContext(rotate.NewSigningKeyContext(cmd.Context(), skc))"]
def rotatePreRunSteps : List String :=
  ["skc,err := rotate.FromSigningKeyContext(cmd.Context())",
   "if err != nil {return err}",
   "if skc.Now.IsZero() {skc.Now = time.Now()}",
   "return nil"]
def rotateInitSteps : List String :=
  ["skc,err := rotate.FromSigningKeyContext(ctx)",
   "if err != nil {return nil,err}",
   "if skc.SigningKeySerial.Cmp(big.NewInt(0)) == 0 {skc.SigningKeySerial,err = sops.NextSigningKeySerial(ctx)}",
   "return ctx,err"]
def wipeoutOther : List String :=
  ["w := &rotate.WipeoutContext{}",
   "cmd.SetContext(rotate.NewWipeoutContext(cmd.Context(), w))"]
/-- the hooks wipeoutBase's PartialComponent defines (the others are no-ops) -/
def wipeoutBaseHooks : List String := ["FAddFlags"]
def outputAllowOverwriteSteps : List String :=
  ["o,_ := FromContext(ctx)",
   "return o != nil && o.Overwrite"]
def outputAllowRecoverableErrorSteps : List String :=
  ["o,_ := FromContext(ctx)",
   "return o != nil && o.KeepGoing"]
def localcaAddFlagsOther : List String :=
  ["if ca.CA == nil {ca.CA = &gcsca.CertificateAuthority{…}}",
   "if _,ok := ca.CA.Storage.(*local.StorageClient); !ok {output.Errorf(c.Context(), \"internal: localca storage is %T, want local.StorageClient\", ca.CA.Storage)}",
   "ca.CA.AddFlags(c)"]
def localkmPreRunSteps : List String :=
  ["info,err := os.Stat(k.KeyDir)",
   "if err != nil {return <error>}",
   "if !info.IsDir() {return <error>}",
   "return nil"]
def localkmInitSteps : List String :=
  ["if err := k.Init(ctx); err != nil {return nil,err}",
   "ctx1,err := k.T.InitContext(ctx)",
   "if err != nil {return nil,err}",
   "c,err := keys.FromContext(ctx)",
   "if err != nil {return nil,err}",
   "c.Manager = k",
   "return ctx1,nil"]
def localcaPreRunSteps : List String :=
  ["return ca.CA.PersistentPreRunE(cmd, args)"]
def localcaInitSteps : List String :=
  ["sto,ok := ca.CA.Storage.(*local.StorageClient)",
   "if !ok {return nil,errNoLocalStorage}",
   "certsPath := path.Join(sto.Root, ca.CA.SigningCertDirInGCS)",
   "if err := os.Mkdir(certsPath, 0755); err != nil && !os.IsExist(err) {return nil,<error>}",
   "if _,err := rotate.FromBootstrapContext(ctx); err != nil {if err := ca.checkCerts(ctx); err != nil {return nil,err}}",
   "return ca.CA.InitContext(ctx)"]
def localcaCheckCertsSteps : List String :=
  ["if ca.CA == nil {return keys.ErrNoCertificateAuthority}",
   "rootKeyVersionName,err := ca.CA.PrimaryRootKeyVersion(ctx)",
   "if err != nil {return err}",
   "if rootKeyVersionName == \"\" {return <error>}",
   "primarySigningKeyVersionName,err := ca.CA.PrimarySigningKeyVersion(ctx)",
   "if err != nil {return err}",
   "if primarySigningKeyVersionName == \"\" {return <error>}",
   "if _,err = sops.IssuerCertFromBundle(ctx, ca.CA, rootKeyVersionName); err != nil {return err}",
   "_,err = ca.CA.Certificate(ctx, primarySigningKeyVersionName)",
   "return err"]
def gcscaPreRunSteps : List String :=
  ["if ca.RootPath == \"\" {bc,err := rotate.FromBootstrapContext(c.Context()); if err == nil && bc.RootKeyCommonName != \"\" {ca.RootPath = fmt.Sprintf(\"%s.crt\", bc.RootKeyCommonName)}}",
   "return multierr.Combine(cmd.MustBeNonempty(\"bucket\", &ca.PrivateBucket), cmd.MustBeNonempty(\"root_path\", &ca.RootPath), cmd.MustBeNonempty(\"cert_dir\", &ca.SigningCertDirInGCS))"]
def bigintSetSteps : List String :=
  ["if value != \"\" {v,ok := new(big.Int).SetString(value, 10); if !ok {return <error>}; *b.v = v; return nil}",
   "return nil"]
def bigintVarSteps : List String :=
  ["f := &bigintFlag{…}",
   "defaultV,ok := new(big.Int).SetString(defaultValue, 10)",
   "if !ok {panic(fmt.Errorf(\"internal: bad default bigint value %q\", defaultValue))}",
   "*v = defaultV",
   "return &flag.Flag{…}"]
def timeSetSteps : List String :=
  ["if t.t == nil {return <error>}",
   "if !(*t.t).IsZero() {return ErrTimeAlreadySet}",
   "if value != \"\" {v,err := time.Parse(time.RFC3339, value); if err != nil {return <error>}; *t.t = v; return nil}",
   "return nil"]
def composedPreRunSteps : List String :=
  ["for _,cmp := range c.Components {if cmp == nil {continue}; if err := cmp.PersistentPreRunE(cmd, args); err != nil {return err}}",
   "return nil"]
def composedInitSteps : List String :=
  ["return ComposeInitContext(ctx, c.Components...)"]
def composeInitContextSteps : List String :=
  ["ctx = ctx0",
   "for _,c := range cmps {if c == nil {continue}; ctx,err = c.InitContext(ctx); if err != nil {return nil,err}}",
   "return ctx,nil"]
def composeRunSteps : List String :=
  ["ctx := cmd.Context()",
   "if cmp != nil {var err error; ctx,err = cmp.InitContext(cmd.Context()); if err != nil {return err}}",
   "return run(ctx)"]
def bootstrapCompose : List String := ["app.Global", "&BootstrapCommand{}", "app.Bootstrap"]
def bootstrapPersistentPreRunE : String := "cmp.PersistentPreRunE"
def bootstrapComposeRun : String := "cmp, rotate.Bootstrap"
def rotateCompose : List String := ["app.Global", "&RotateCommand{}", "app.Rotate"]
def rotatePersistentPreRunE : String := "cmp.PersistentPreRunE"
def rotateComposeRun : String := "cmp, <func>"
def rotateRunFnSteps : List String :=
  ["_,err := rotate.Key(ctx)",
   "return err"]
def wipeoutCompose : List String := ["app.Global", "wipeoutBase()", "app.Wipeout"]
def wipeoutPersistentPreRunE : String := "cmp.PersistentPreRunE"
def wipeoutRunESteps : List String :=
  ["ctx,err := cmp.InitContext(cmd.Context())",
   "if err != nil {return err}",
   "wc,err := rotate.FromWipeoutContext(ctx)",
   "if err != nil {return err}",
   "if len(args) == 0 || args[0] == \"ca\" {wc.CA = true}",
   "if len(args) == 0 || args[0] == \"keys\" {wc.Keys = true}",
   "return rotate.Wipeout(ctx)"]
/-- component types of testing/nonprod.localApp's Global, in composition order -/
def nonprodGlobal : List String := ["localkm.T", "localca.T"]
/-- which of Global / Bootstrap / Rotate / Wipeout localApp sets -/
def nonprodComponents : List String := ["Bootstrap=&cmd.PartialComponent{}", "Global"]



end GceTcb.KeyCli.Source
