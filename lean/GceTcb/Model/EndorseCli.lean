import GceTcb.Model.VirtualFirmware
import GceTcb.Model.ProtoWire
/-
Model of the command-line wiring of `endorse` (C06, C15): cmd/endorse.go (`endorseCommand.AddFlags`,
`PersistentPreRunE`, `InitContext`, `validateSnpFlags`, `scrtmMain`, `makeEndorseCmd`), the flag helpers of
cmd/flags.go (`timeFlag.Set`, `amdProductFlag.Set`, `addUefiFlag`, `addOutDirFlag`, `addDryRunFlag`,
`addTimeFlag`, `amdProductVar`), the composition of cmd/compose.go (`Compose`, `ComposedComponent`,
`ComposeRun`, `ComposeInitContext`) and the `--overwrite` option of cmd/output.  Core-only.

    command line × file system × environment  ──ecOf──▶  endorse.Context (+ overwrite)  ──requestOf──▶
        the request record consumed by the pipeline model  ──VF.virtualFirmware──▶  effect log

so that `cliRun = virtualFirmware ∘ requestOf ∘ ecOf` is the whole `endorse` command.

What is a PARAMETER (external code, `Params`): `kds.ParseProductLine`, `time.Parse(time.RFC3339, ·)`,
`proto.Unmarshal` into `SCRTMVersion` (instantiated below by the Lean wire codec, `unmarshalScrtmWire`),
`hex.DecodeString(strings.TrimSpace(·))`; `uuid.Parse` is `Endorse.Prims.parseUuid`.  cobra/pflag's own
tokenising of argv is not modelled: the model starts from the value(s) each flag was given.  For the two
flag types whose `Set` is repository code (`timeFlag`, `amdProductFlag`) the model takes EVERY occurrence
in command-line order; for pflag's built-in types it takes the final value, with pflag's range checks
(`uint32`, `uint64`, `int`) and its hex decoding of `--commit` (`BytesHex`) explicit.

The environment (`Env`): the file system as a read function (UEFI image, the two S_CRTM side-file
spellings, SVSM files), `time.Now()`, the UUID the random source yields, the VersionControl's release
path prefix, and whether the application's other two components (`app.Global`, `app.Endorse` — the
command is `Compose(app.Global, endorseCommand, app.Endorse)`) succeed in their hooks.
-/
namespace GceTcb.EndorseCli
open GceTcb GceTcb.Endorse GceTcb.VF

/-! ## the flag table (cmd/endorse.go AddFlags, cmd/flags.go, cmd/output AddFlags) -/

/-- (flag name, flag type, default as written in the source, Go destination).  Pinned to the source by
    the obligation `C06_cli_flag_table` against the table the extractor regenerates from the
    `cmd.PersistentFlags().…Var(&dest, "name", default, …)` calls. -/
def flagTable : List (String × String × String × String) :=
  [ ("add_snp", "Bool", "false", "f.AddSnp"),
    ("add_tdx", "Bool", "false", "f.AddTdx"),
    ("uefi", "String", "\"\"", "f.UefiPath"),
    ("svsm_path", "String", "\"\"", "f.SvsmPath"),
    ("svsm_snp_measurement_path", "String", "\"\"", "f.SvsmSnpMeasurementPath"),
    ("candidate_name", "String", "\"\"", "ec.CandidateName"),
    ("release_branch", "String", "\"\"", "ec.ReleaseBranch"),
    ("clspec", "Uint64", "0", "ec.ClSpec"),
    ("commit", "BytesHex", "[]byte{}", "ec.Commit"),
    ("commit_retries", "Int", "5", "ec.CommitRetries"),
    ("out_dir", "String", "\"\"", "ec.OutDir"),
    ("dry_run", "Bool", "false", "ec.DryRun"),
    ("timestamp", "timeFlag", "\"\"", "ec.Timestamp"),
    ("snp_family_id", "String", "\"\"", "ec.SevSnp.FamilyID"),
    ("snp_image_id", "String", "\"\"", "ec.SevSnp.ImageID"),
    ("snp_launch_vmsas", "Uint32", "0", "ec.SevSnp.LaunchVmsas"),
    ("snp_product", "amdProductFlag", "sgpb.SevProduct_SEV_PRODUCT_MILAN", "ec.SevSnp.Product"),
    ("tdx_include_early_accept", "Bool", "false", "ec.Tdx.IncludeEarlyAccept"),
    ("tdx_machine_shapes", "StringSlice", "nil", "ec.Tdx.MachineShapes"),
    ("measurement_only", "Bool", "false", "ec.MeasurementOnly"),
    ("snapshot_dir", "String", "\"\"", "ec.SnapshotDir"),
    ("quiet", "Bool", "false", "opts.Quiet"),
    ("verbose", "Bool", "false", "opts.Verbose"),
    ("use_logs", "Bool", "false", "opts.UseLogs"),
    ("overwrite", "Bool", "false", "opts.Overwrite"),
    ("keep_going", "Bool", "false", "opts.KeepGoing") ]

/-- `kds.ParseProductLine` as observed (the extractor evaluates the linked function on these and on
    near-miss spellings): product line name → `SevProduct_SevProductName`. -/
def productTable : List (String × Nat) := [("Milan", 1), ("Genoa", 2), ("Turin", 3)]

/-- `sgpb.SevProduct_SEV_PRODUCT_MILAN` -/
def defaultProduct : Nat := 1

/-- `crypto.SHA1.Size()` -/
def sha1Size : Nat := 20

/-- `sgabi.MeasurementSize` -/
def measurementSize : Nat := 48

/-! ## inputs -/

/-- The command line as cobra hands it to the flag values. -/
structure CliFlags where
  addSnp : Bool := false
  addTdx : Bool := false
  uefi : String := ""
  svsmPath : String := ""
  svsmSnpMeasurementPath : String := ""
  candidateName : String := ""
  releaseBranch : String := ""
  clspec : Nat := 0                   -- the number written; pflag rejects ≥ 2^64
  commit : String := ""               -- the text given to --commit ("" also when absent)
  commitRetries : Int := 5            -- the number written; pflag rejects outside int64
  outDir : String := ""
  dryRun : Bool := false
  timestamp : List String := []       -- every occurrence of --timestamp, in order
  snpFamilyId : String := ""
  snpImageId : String := ""
  snpLaunchVmsas : Nat := 0           -- the number written; pflag rejects ≥ 2^32
  snpProduct : List String := []      -- every occurrence of --snp_product, in order
  tdxIncludeEarlyAccept : Bool := false
  tdxMachineShapes : List String := []
  measurementOnly : Bool := false
  snapshotDir : String := ""
  overwrite : Bool := false

/-- The defaults of the model as (flag, rendering) rows, to be compared with the table's default column. -/
def renderDefaults (f : CliFlags) : List (String × String) :=
  let b (x : Bool) : String := if x then "true" else "false"
  let s (x : String) : String := "\"" ++ x ++ "\""
  [ ("add_snp", b f.addSnp), ("add_tdx", b f.addTdx), ("uefi", s f.uefi), ("svsm_path", s f.svsmPath),
    ("svsm_snp_measurement_path", s f.svsmSnpMeasurementPath), ("candidate_name", s f.candidateName),
    ("release_branch", s f.releaseBranch), ("clspec", toString f.clspec),
    ("commit", if f.commit = "" then "[]byte{}" else f.commit), ("commit_retries", toString f.commitRetries),
    ("out_dir", s f.outDir), ("dry_run", b f.dryRun),
    ("timestamp", if f.timestamp = [] then "\"\"" else "set"),
    ("snp_family_id", s f.snpFamilyId), ("snp_image_id", s f.snpImageId),
    ("snp_launch_vmsas", toString f.snpLaunchVmsas),
    ("snp_product", if f.snpProduct = [] then "sgpb.SevProduct_SEV_PRODUCT_MILAN" else "set"),
    ("tdx_include_early_accept", b f.tdxIncludeEarlyAccept),
    ("tdx_machine_shapes", if f.tdxMachineShapes = [] then "nil" else "set"),
    ("measurement_only", b f.measurementOnly), ("snapshot_dir", s f.snapshotDir),
    ("overwrite", b f.overwrite) ]

structure Params where
  parseProduct : String → Option Nat          -- kds.ParseProductLine(·).Name
  parseTime : String → Option (Int × Nat)     -- time.Parse(time.RFC3339, ·) as (Unix seconds, nanoseconds)
  unmarshalScrtm : Bytes → Option Nat         -- proto.Unmarshal(·, &SCRTMVersion) ; uint32(version.Version)
  decodeHexText : Bytes → Option Bytes        -- hex.DecodeString(strings.TrimSpace(string(·)))

structure Env where
  readFile : String → Option Bytes            -- os.ReadFile / ops.ReadFile; none = an error
  now : Int × Nat                             -- time.Now() when PersistentPreRunE runs
  rndImageId : String
  root : String                               -- VersionControl.ReleasePath prefix
  globalPre : Bool := true                    -- app.Global.PersistentPreRunE succeeds
  appPre : Bool := true                       -- app.Endorse.PersistentPreRunE succeeds
  globalInit : Bool := true                   -- app.Global.InitContext succeeds
  appInit : Bool := true                      -- app.Endorse.InitContext succeeds

/-! ## flag parsing -/

/-- Go's zero `time.Time` (January 1, year 1, 00:00:00 UTC) as (Unix seconds, nanoseconds). -/
def zeroTime : Int × Nat := (-62135596800, 0)

/-- go: cmd.timeFlag.Set — one occurrence of `--timestamp`: refused once a non-zero time is stored; an
    empty value leaves the stored time alone. -/
def timeSet (P : Params) (cur : Int × Nat) (v : String) : Outcome (Int × Nat) :=
  if cur = zeroTime then
    if v = "" then .ok cur
    else
      match P.parseTime v with
      | some t => .ok t
      | none => .err "parse:timestamp"
  else .err "parse:time-already-set"

def timeSetAll (P : Params) : Int × Nat → List String → Outcome (Int × Nat)
  | cur, [] => .ok cur
  | cur, v :: vs =>
    match timeSet P cur v with
    | .ok t => timeSetAll P t vs
    | .err e => .err e
    | .panic s => .panic s

/-- go: cmd.amdProductFlag.Set — one occurrence of `--snp_product`; an empty value keeps what is stored. -/
def productSet (P : Params) (cur : Nat) (v : String) : Outcome Nat :=
  if v = "" then .ok cur
  else
    match P.parseProduct v with
    | some p => .ok p
    | none => .err "parse:product"

def productSetAll (P : Params) : Nat → List String → Outcome Nat
  | cur, [] => .ok cur
  | cur, v :: vs =>
    match productSet P cur v with
    | .ok p => productSetAll P p vs
    | .err e => .err e
    | .panic s => .panic s

/-- What cobra's flag parsing leaves behind: `endorseCommand`, the `endorse.Context` allocated by AddFlags
    (both technology requests present) and `output.Options.Overwrite`. -/
structure Parsed where
  addSnp : Bool
  addTdx : Bool
  uefiPath : String
  svsmPath : String
  svsmSnpMeasurementPath : String
  snp : SnpRequest
  tdx : TdxRequest
  clSpec : Nat
  commit : Bytes
  candidateName : String
  releaseBranch : String
  commitRetries : Int
  outDir : String
  dryRun : Bool
  timestamp : Int × Nat
  measurementOnly : Bool
  snapshotDir : String
  overwrite : Bool

/-- The flag set after `cmd.ParseFlags`: pflag's numeric ranges, BytesHex, and the two repository flag
    types.  (Which failing flag is reported first depends on argv order; only the phase is observable.) -/
def parseFlags (P : Params) (f : CliFlags) : Outcome Parsed :=
  if 2 ^ 64 ≤ f.clspec then .err "parse:clspec"
  else if 2 ^ 32 ≤ f.snpLaunchVmsas then .err "parse:snp_launch_vmsas"
  else if f.commitRetries < -(2 ^ 63) ∨ 2 ^ 63 ≤ f.commitRetries then .err "parse:commit_retries"
  else
    match hexDecode f.commit with
    | none => .err "parse:commit"
    | some commit =>
      match timeSetAll P zeroTime f.timestamp with
      | .err e => .err e
      | .panic s => .panic s
      | .ok ts =>
        match productSetAll P defaultProduct f.snpProduct with
        | .err e => .err e
        | .panic s => .panic s
        | .ok prod =>
          .ok { addSnp := f.addSnp, addTdx := f.addTdx, uefiPath := f.uefi, svsmPath := f.svsmPath,
                svsmSnpMeasurementPath := f.svsmSnpMeasurementPath,
                snp := ⟨0, f.snpFamilyId, f.snpImageId, f.snpLaunchVmsas, prod⟩,
                tdx := ⟨0, f.tdxIncludeEarlyAccept, f.tdxMachineShapes⟩,
                clSpec := f.clspec, commit := commit, candidateName := f.candidateName,
                releaseBranch := f.releaseBranch, commitRetries := f.commitRetries, outDir := f.outDir,
                dryRun := f.dryRun, timestamp := ts, measurementOnly := f.measurementOnly,
                snapshotDir := f.snapshotDir, overwrite := f.overwrite }

/-! ## PersistentPreRunE -/

/-- go: strings.TrimSuffix(s, suf) -/
def trimSuffix (suf s : List Char) : List Char :=
  if suf.isSuffixOf s then s.take (s.length - suf.length) else s

/-- go: path.Base -/
def pathBase (s : String) : String :=
  if s = "" then "."
  else
    let t := (s.toList.reverse.dropWhile (· == '/')).reverse
    let b := (t.reverse.takeWhile (· != '/')).reverse
    if b = [] then "/" else String.ofList b

def hasFdSuffix (s : String) : Bool := ".fd".toList.isSuffixOf s.toList

/-- The two spellings of the S_CRTM side file, in lookup order: the path with its ".fd" suffix replaced by
    "_scrtm_ver.pb" (as fixed by `fix: the S_CRTM side file <stem>_scrtm_ver.pb is looked up beside the
    image`; before, the FIRST ".fd" anywhere in the path was replaced), then the path with ".scrtm.pb"
    appended. -/
def scrtmPaths (path : String) : List String :=
  [String.ofList (trimSuffix ".fd".toList path.toList) ++ "_scrtm_ver.pb", path ++ ".scrtm.pb"]

/-- The loop of scrtmMain: the first path that can be read supplies the bytes (also when they are empty —
    the second spelling is then NOT consulted); when none can, the bytes are empty. -/
def readFirst (E : Env) : List String → Bytes
  | [] => []
  | p :: ps =>
    match E.readFile p with
    | some b => b
    | none => readFirst E ps

/-- go: cmd.scrtmMain -/
def scrtmMain (P : Params) (E : Env) (path : String) : Outcome (Bool × Nat) :=
  if (readFirst E (scrtmPaths path)).length == 0 then .ok (false, 0)
  else
    match P.unmarshalScrtm (readFirst E (scrtmPaths path)) with
    | none => .err "prerun:scrtm"
    | some v => .ok (true, v)

/-- `id == "" || uuid.Parse(id) succeeds` -/
def idOk (U : String → Option Bytes) (id : String) : Bool := id == "" || (U id).isSome

/-- go: cmd.validateSnpFlags -/
def validateSnpFlags (U : String → Option Bytes) (r : SnpRequest) : Outcome Unit :=
  if !idOk U r.familyId then .err "prerun:family_id"
  else if !idOk U r.imageId then .err "prerun:image_id"
  else .ok ()

/-- `len(ec.Commit) == 0 || len(ec.Commit) == crypto.SHA1.Size()` -/
def commitLenOk (n : Nat) : Bool := n == 0 || n == sha1Size

/-- `if f.AddSnp { if err := validateSnpFlags(ec.SevSnp); err != nil { return err } … }`: the ids are
    checked only with --add_snp. -/
def snpCheck (U : String → Option Bytes) (addSnp : Bool) (r : SnpRequest) : Outcome Unit :=
  if addSnp then validateSnpFlags U r else .ok ()

/-- endorse.Context as the command fills it in. -/
structure EC where
  snp : Option SnpRequest
  tdx : Option TdxRequest
  image : Bytes
  clSpec : Nat
  commit : Bytes
  candidateName : String
  releaseBranch : String
  timestamp : Int × Nat
  commitRetries : Int
  outDir : String
  dryRun : Bool
  measurementOnly : Bool
  snapshotDir : String
  imageName : String
  svsmImage : Bytes
  svsmSnpMeasurement : Bytes

/-- `if ok { req.Svn = version }` -/
def snpWithSvn (r : SnpRequest) (ok : Bool) (version : Nat) : SnpRequest :=
  if ok then { r with svn := version } else r
def tdxWithSvn (t : TdxRequest) (ok : Bool) (version : Nat) : TdxRequest :=
  if ok then { t with svn := version } else t

/-- go: endorseCommand.PersistentPreRunE, statement by statement. -/
def preRunE (P : Params) (U : String → Option Bytes) (E : Env) (f : Parsed) : Outcome EC :=
  if f.uefiPath == "" then .err "prerun:no-uefi"
  else if !hasFdSuffix f.uefiPath then .err "prerun:uefi-suffix"
  else
    match scrtmMain P E f.uefiPath with
    | .err e => .err e
    | .panic s => .panic s
    | .ok (ok, version) =>
      match snpCheck U f.addSnp f.snp with
      | .err e => .err e
      | .panic s => .panic s
      | .ok _ =>
        if !commitLenOk f.commit.length then .err "prerun:commit-length"
        else
          .ok { snp := if f.addSnp then some (snpWithSvn f.snp ok version) else none,
                tdx := if f.addTdx then some (tdxWithSvn f.tdx ok version) else none,
                image := [], clSpec := f.clSpec, commit := f.commit, candidateName := f.candidateName,
                releaseBranch := f.releaseBranch,
                timestamp := if f.timestamp == zeroTime then E.now else f.timestamp,
                commitRetries := f.commitRetries, outDir := f.outDir, dryRun := f.dryRun,
                measurementOnly := f.measurementOnly, snapshotDir := f.snapshotDir,
                imageName := pathBase f.uefiPath, svsmImage := [], svsmSnpMeasurement := [] }

/-- go: ComposedComponent.PersistentPreRunE over (app.Global, endorseCommand, app.Endorse). -/
def composedPreRun (P : Params) (U : String → Option Bytes) (E : Env) (f : Parsed) : Outcome EC :=
  if !E.globalPre then .err "prerun:global"
  else
    match preRunE P U E f with
    | .err e => .err e
    | .panic s => .panic s
    | .ok ec => if !E.appPre then .err "prerun:app" else .ok ec

/-! ## InitContext -/

def readSvsm (E : Env) (path : String) : Outcome Bytes :=
  if path == "" then .ok []
  else
    match E.readFile path with
    | none => .err "init:read-svsm"
    | some b => .ok b

def readSvsmMeasurement (P : Params) (E : Env) (path : String) : Outcome Bytes :=
  if path == "" then .ok []
  else
    match E.readFile path with
    | none => .err "init:read-svsm-measurement"
    | some txt =>
      match P.decodeHexText txt with
      | none => .err "init:svsm-measurement-hex"
      | some m => if m.length == measurementSize then .ok m else .err "init:svsm-measurement-size"

/-- go: endorseCommand.InitContext -/
def initContext (P : Params) (E : Env) (f : Parsed) (ec : EC) : Outcome EC :=
  match E.readFile f.uefiPath with
  | none => .err "init:read-uefi"
  | some img =>
    match readSvsm E f.svsmPath with
    | .err e => .err e
    | .panic s => .panic s
    | .ok svsm =>
      match readSvsmMeasurement P E f.svsmSnpMeasurementPath with
      | .err e => .err e
      | .panic s => .panic s
      | .ok m => .ok { ec with image := img, svsmImage := svsm, svsmSnpMeasurement := m }

/-- go: ComposeRun → ComposedComponent.InitContext over (app.Global, endorseCommand, app.Endorse). -/
def composedInit (P : Params) (E : Env) (f : Parsed) (ec : EC) : Outcome EC :=
  if !E.globalInit then .err "init:global"
  else
    match initContext P E f ec with
    | .err e => .err e
    | .panic s => .panic s
    | .ok ec' => if !E.appInit then .err "init:app" else .ok ec'

/-- The endorse.Context (and the overwrite option) with which `endorse.VirtualFirmware` is entered, or the
    rejection.  Error classes carry the phase: `parse:…` (cobra), `prerun:…`, `init:…`. -/
def ecOf (P : Params) (U : String → Option Bytes) (E : Env) (fl : CliFlags) : Outcome (EC × Bool) :=
  match parseFlags P fl with
  | .err e => .err e
  | .panic s => .panic s
  | .ok f =>
    match composedPreRun P U E f with
    | .err e => .err e
    | .panic s => .panic s
    | .ok ec =>
      match composedInit P E f ec with
      | .err e => .err e
      | .panic s => .panic s
      | .ok ec' => .ok (ec', f.overwrite)

/-! ## hand-over to the pipeline model -/

/-- Exactly what `VF.virtualFirmware` consumes. -/
structure Request where
  ctx : Ctx
  ts : Int × Nat
  fl : Flags

def ctxOf (E : Env) (ec : EC) : Ctx :=
  ⟨ec.snp, ec.tdx, ec.image, ec.clSpec, ec.commit, ec.svsmSnpMeasurement, E.rndImageId⟩

def launchVmsasOf : Option SnpRequest → Nat
  | some r => r.launchVmsas
  | none => 0

def cfgOf (E : Env) (ow : Bool) (ec : EC) : Commit.Cfg :=
  { dryRun := ec.dryRun, snapshot := ec.snapshotDir != "", overwrite := ow,
    svsm := ec.svsmImage.length != 0, scrtm := scrtmOf (ctxOf E ec), cand := ec.candidateName,
    root := E.root, outDir := ec.outDir, snapDir := ec.snapshotDir, imageName := ec.imageName }

def requestOf (E : Env) (ow : Bool) (ec : EC) : Request :=
  ⟨ctxOf E ec, ec.timestamp, ⟨ec.measurementOnly, launchVmsasOf ec.snp, ec.commitRetries, cfgOf E ow ec⟩⟩

def contextOf (P : Params) (U : String → Option Bytes) (E : Env) (fl : CliFlags) : Outcome Request :=
  match ecOf P U E fl with
  | .ok (ec, ow) => .ok (requestOf E ow ec)
  | .err e => .err e
  | .panic s => .panic s

/-- The `endorse` command: RunE = ComposeRun(cmp, endorse.VirtualFirmware) after PersistentPreRunE. -/
def cliRun (P : Params) (Pr : Prims) (T : Tables) (E : Env) (fl : CliFlags) (keys : Option Keys)
    (vcs : Option (List Commit.Attempt)) (vcss : List (List Commit.Attempt)) : Run :=
  match contextOf P Pr.parseUuid E fl with
  | .ok r => virtualFirmware false Pr T r.ctx keys r.ts r.fl vcs vcss
  | .err e => ⟨[], .err e⟩
  | .panic s => ⟨[], .panic s⟩

/-! ## the SCRTMVersion message on the wire (proto/scrtmversion.proto: one enum field, number 1) -/

/-- Field 1 with wire type varint sets the enum (int32 truncation, then `uint32(·)`: the low 32 bits);
    anything else is an unknown field and is kept. -/
def scrtmStep (m : Nat) (f : ProtoWire.Field) : Option Nat :=
  match f.num, f.val with
  | 1, .varint v => some (v % 2 ^ 32)
  | _, _ => some m

def unmarshalScrtmWire (b : Bytes) : Option Nat := ProtoWire.decodeInto scrtmStep 0 b

/-! ## the source the model was written from, as statement skeletons

Conditions, assignments and calls of the modelled functions with their nesting, error constructors
abstracted (`<error>`).  The extractor regenerates the same skeletons from the current source
(`Gen.EndorseFlags`); the obligation `C06_cli_source_skeleton` states that they are equal, so that a
re-ordered check, a re-bound assignment or a new branch in one of these functions has to be met by a
revision of the model above (the file-level source hash escalates the correspondence run as well). -/
namespace Skeleton

/-- endorseCommand.PersistentPreRunE -/
def preRunSteps : List String :=
  ["if f.UefiPath == \"\" {return <error>}",
   "if !strings.HasSuffix(f.UefiPath, \".fd\") {return <error>}",
   "ec,err := endorse.FromContext(cmd.Context())",
   "if err != nil {return err}",
   "ec.ImageName = path.Base(f.UefiPath)",
   "ok,version,err := scrtmMain(f.UefiPath)",
   "if err != nil {return err}",
   "if f.AddSnp {if err := validateSnpFlags(ec.SevSnp); err != nil {return err}; if ok {ec.SevSnp.Svn = version}} else {ec.SevSnp = nil}",
   "if f.AddTdx {if ok {ec.Tdx.Svn = version}} else {ec.Tdx = nil}",
   "if len(ec.Commit) != 0 && len(ec.Commit) != crypto.SHA1.Size() {return <error>}",
   "if !f.AddSnp {ec.SevSnp = nil}",
   "if ec.Timestamp.IsZero() {ec.Timestamp = time.Now()}",
   "return nil"]

/-- endorseCommand.InitContext -/
def initSteps : List String :=
  ["ec,err := endorse.FromContext(ctx)",
   "if err != nil {return nil,err}",
   "ec.Image,err = os.ReadFile(f.UefiPath)",
   "if err != nil {return nil,<error>}",
   "if f.SvsmPath != \"\" {ec.SvsmImage,err = ops.ReadFile(ctx, f.Storage, noBucket, f.SvsmPath); if err != nil {return nil,<error>}}",
   "if f.SvsmSnpMeasurementPath != \"\" {snpMeasurementTxt,err := ops.ReadFile(ctx, f.Storage, noBucket, f.SvsmSnpMeasurementPath); if err != nil {return nil,<error>}; ec.SvsmSnpMeasurement,err = hex.DecodeString(strings.TrimSpace(string(snpMeasurementTxt))); if err != nil {return nil,<error>}; if len(ec.SvsmSnpMeasurement) != sgabi.MeasurementSize {return nil,<error>}}",
   "return ctx,nil"]

/-- scrtmMain -/
def scrtmSteps : List String :=
  ["var versionBytes []byte",
   "var err error",
   "for _,path := range []string{…} {versionBytes,err = os.ReadFile(path); if err == nil {break}}",
   "if len(versionBytes) == 0 {return false,0,nil}",
   "var version edk2pb.SCRTMVersion",
   "if err := proto.Unmarshal(versionBytes, &version); err != nil {return false,0,err}",
   "return true,uint32(version.Version),nil"]

/-- validateSnpFlags -/
def validateSnpSteps : List String :=
  ["if f.FamilyID != \"\" {_,err := uuid.Parse(f.FamilyID); if err != nil {return <error>}}",
   "if f.ImageID != \"\" {_,err := uuid.Parse(f.ImageID); if err != nil {return <error>}}",
   "return nil"]

/-- timeFlag.Set -/
def timeSetSteps : List String :=
  ["if t.t == nil {return <error>}",
   "if !(*t.t).IsZero() {return ErrTimeAlreadySet}",
   "if value != \"\" {v,err := time.Parse(time.RFC3339, value); if err != nil {return <error>}; *t.t = v; return nil}",
   "return nil"]

/-- amdProductFlag.Set -/
def productSetSteps : List String :=
  ["if value != \"\" {product,err := kds.ParseProductLine(value); if err != nil {return err}; *p.v = product.Name; return nil}",
   "return nil"]

def scrtmSpellings : List String := ["trimSuffix .fd append _scrtm_ver.pb", "append .scrtm.pb"]
def composeOrder : List String := ["app.Global", "endorseCommand", "app.Endorse"]
def composeRun : String := "cmp, endorse.VirtualFirmware"
def persistentPreRunE : String := "cmp.PersistentPreRunE"
def ecAllocated : List String := ["SevSnp", "Tdx"]
def uefiSuffix : String := ".fd"

end Skeleton

end GceTcb.EndorseCli
