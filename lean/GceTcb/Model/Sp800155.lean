import GceTcb.Base.Line
import GceTcb.Base.Codec
import GceTcb.Model.Extract
/-
C16 — model of the SP800-155 Event3 events the signer emits (`endorse/sp800155.go`) and of their
binary codec (`eventlog/tcg2.go`, `marshal.go`, `unmarshal.go`): the two events of `makeEvents`
(UEFI-variable locator and URI locator under one reference-manifest GUID) and the decoding that
`extract/eventlog` and `SP800155Event3.UnmarshalFromBytes` perform.

Parameters: the hash `H` of the image (SHA-384 in the driver), the UTF-8 encoding of a Lean string
(`strBytes`, Go's `[]byte(string)`), protobuf (the `Sp800155Events` wrapper is not modelled: the model
returns the list of event byte strings). Core-only.
-/
namespace GceTcb.Sp800155
open GceTcb GceTcb.Codec GceTcb.Extract

/-- go: eventlog.SP800155Event3 (strings as bytes; `guid` in RFC 4122 byte order like uuid.UUID). -/
structure Event3 where
  platformManufacturerID : Nat
  guid : Bytes
  platformManufacturerStr : Bytes
  platformModel : Bytes
  platformVersion : Bytes
  firmwareManufacturerStr : Bytes
  firmwareManufacturerID : Nat
  firmwareVersion : Bytes
  rimLocatorType : Nat
  rimLocator : Bytes
  platformCertLocatorType : Nat
  platformCertLocator : Bytes
deriving DecidableEq, Repr

/-! ### Marshal -/

/-- go: ByteSizedCStr.Marshal — one size byte, the data, a NUL; at most 255 bytes with the NUL. -/
def cstrBytes (d : Bytes) : Option Bytes :=
  if d.length + 1 > 255 then none else some (UInt8.ofNat (d.length + 1) :: (d ++ [0]))

/-- go: Uint32SizedArray.Marshal — little-endian uint32 length, then the data. -/
def arrBytes (d : Bytes) : Bytes := leBytes 4 d.length ++ d

/-- go: SP800155Event3.MarshalToBytes (16-byte signature first). -/
def marshalEvent3 (e : Event3) : Option Bytes :=
  match cstrBytes e.platformManufacturerStr, cstrBytes e.platformModel, cstrBytes e.platformVersion,
        cstrBytes e.firmwareManufacturerStr, cstrBytes e.firmwareVersion with
  | some s1, some s2, some s3, some s4, some s5 =>
    if (Gen.Names.event3Signature ++ (leBytes 4 e.platformManufacturerID ++ (efiSwap e.guid ++ (s1 ++ (s2 ++ (s3 ++ (s4 ++
        (leBytes 4 e.firmwareManufacturerID ++ (s5 ++ (leBytes 4 e.rimLocatorType ++ (arrBytes e.rimLocator ++
        (leBytes 4 e.platformCertLocatorType ++ arrBytes e.platformCertLocator)))))))))))).length > Gen.Names.maxGUIDHOBDataSize
    then none
    else some (Gen.Names.event3Signature ++ (leBytes 4 e.platformManufacturerID ++ (efiSwap e.guid ++ (s1 ++ (s2 ++ (s3 ++ (s4 ++
        (leBytes 4 e.firmwareManufacturerID ++ (s5 ++ (leBytes 4 e.rimLocatorType ++ (arrBytes e.rimLocator ++
        (leBytes 4 e.platformCertLocatorType ++ arrBytes e.platformCertLocator))))))))))))
  | _, _, _, _, _ => none

/-! ### Unmarshal (readers over the remaining bytes; `none` = error) -/

/-- go: binary.Read of a uint32 from a bytes.Buffer. -/
def readU32 (bs : Bytes) : Option (Nat × Bytes) :=
  if bs.length < 4 then none else some (leVal (bs.take 4), bs.drop 4)

/-- go: EfiGUID.Unmarshal — needs all 16 bytes. -/
def readGuid (bs : Bytes) : Option (Bytes × Bytes) :=
  if bs.length < 16 then none else some (efiSwap (bs.take 16), bs.drop 16)

/-- go: readSizedArray after the size has been read (repaired, commits 0790b01/0f6de9c): `readExact` —
    nothing is read for n = 0; otherwise all n bytes must be there (io.ReadFull), a short body is an
    error. -/
def readN (n : Nat) (bs : Bytes) : Option (Bytes × Bytes) :=
  if n = 0 then some ([], bs)
  else if bs.length < n then none
  else some (bs.take n, bs.drop n)

/-- go: ByteSizedCStr.Unmarshal -/
def readCStr (bs : Bytes) : Option (Bytes × Bytes) :=
  match bs with
  | [] => none
  | sz :: rest =>
    match readN sz.toNat rest with
    | none => none
    | some (d, rest') =>
      match d.getLast? with
      | some l => if l == 0 then some (d.dropLast, rest') else none
      | none => none

/-- go: Uint32SizedArray.Unmarshal -/
def readArr (bs : Bytes) : Option (Bytes × Bytes) :=
  match readU32 bs with
  | none => none
  | some (n, rest) => readN n rest

/-- go: SP800155Event3.UnmarshalFromBytes (input: the event data after the 16-byte signature);
    trailing bytes must all be zero. -/
def unmarshalEvent3 (bs : Bytes) : Option Event3 :=
  match readU32 bs with
  | none => none
  | some (pmid, r1) =>
  match readGuid r1 with
  | none => none
  | some (g, r2) =>
  match readCStr r2 with
  | none => none
  | some (pms, r3) =>
  match readCStr r3 with
  | none => none
  | some (pm, r4) =>
  match readCStr r4 with
  | none => none
  | some (pv, r5) =>
  match readCStr r5 with
  | none => none
  | some (fms, r6) =>
  match readU32 r6 with
  | none => none
  | some (fmid, r7) =>
  match readCStr r7 with
  | none => none
  | some (fv, r8) =>
  match readU32 r8 with
  | none => none
  | some (lt, r9) =>
  match readArr r9 with
  | none => none
  | some (loc, r10) =>
  match readU32 r10 with
  | none => none
  | some (ct, r11) =>
  match readArr r11 with
  | none => none
  | some (cl, r12) =>
    if r12.all (· == 0) then some ⟨pmid, g, pms, pm, pv, fms, fmid, fv, lt, loc, ct, cl⟩ else none

/-- go: TCGEventData.Unmarshal on one event's data: events whose first 16 bytes are the Event3
    signature are handed to UnmarshalFromBytes; `none` = not an Event3 or undecodable. -/
def parseEventData (chunk : Bytes) : Option Event3 :=
  if chunk.take 16 = Gen.Names.event3Signature then unmarshalEvent3 (chunk.drop 16) else none

/-! ### The emitted events -/

/-- go: endorse.googleSp800155Event -/
def googleEvent (rimGUID : Bytes) (locType : Nat) (loc : Bytes) : Event3 :=
  { platformManufacturerID := Gen.Names.eventPlatformManufacturerID
    guid := rimGUID
    platformManufacturerStr := Gen.Names.eventPlatformManufacturerStr
    platformModel := Gen.Names.eventPlatformModel
    platformVersion := Gen.Names.eventPlatformVersion
    firmwareManufacturerStr := Gen.Names.eventFirmwareManufacturerStr
    firmwareManufacturerID := Gen.Names.eventFirmwareManufacturerID
    firmwareVersion := Gen.Names.eventFirmwareVersion
    rimLocatorType := locType
    rimLocator := loc
    platformCertLocatorType := 0
    platformCertLocator := [] }

/-- Object name of the signed firmware the URI event points to.
    go: `fmt.Sprintf("ovmf_x64_csm/%s.fd.signed", hex.EncodeToString(digest))` in endorse.uriEvent -/
def signedFirmwareObject (digest : Bytes) : String :=
  Gen.Names.uriEventPrefix ++ "/" ++ hexEncode digest ++ Gen.Names.uriEventExt

/-- go: endorse.varEvent -/
def varEvent (rimGUID : Bytes) : Event3 :=
  googleEvent rimGUID Gen.Names.rimLocationVariable Gen.Names.rimVar

/-- go: endorse.uriEvent -/
def uriEvent (strBytes : String → Bytes) (rimGUID digest : Bytes) : Event3 :=
  googleEvent rimGUID Gen.Names.rimLocationURI (strBytes (gceTcbURL (signedFirmwareObject digest)))

/-- go: uuid.NewRandomFromReader — version 4, variant 10 over 16 random bytes. -/
def rimUUID : Bytes → Bytes
  | [a0, a1, a2, a3, a4, a5, a6, a7, a8, a9, a10, a11, a12, a13, a14, a15] =>
    [a0, a1, a2, a3, a4, a5, UInt8.ofNat (a6.toNat % 16 + 64), a7, UInt8.ofNat (a8.toNat % 64 + 128), a9, a10, a11, a12, a13, a14, a15]
  | g => g

/-- go: endorse.makeEvents — the two events (before the protobuf wrapper), for an image whose golden
    measurement carries `H image` as digest. `none` = a marshalling error. -/
def makeEvents (H : Bytes → Bytes) (strBytes : String → Bytes) (random image : Bytes) : Option (List Bytes) :=
  match marshalEvent3 (varEvent (rimUUID random)), marshalEvent3 (uriEvent strBytes (rimUUID random) (H image)) with
  | some v, some u => some [v, u]
  | _, _ => none

/-- UTF-8 bytes of a string (Go's `[]byte(s)`): the driver's instance of `strBytes`. -/
def utf8Bytes (s : String) : Bytes := s.toUTF8.toList

end GceTcb.Sp800155
