import GceTcb.Model.SevMeta
/-
C04 — a concrete 4 KiB firmware image (and ten edits of it) used for the kernel-evaluated non-vacuity
examples of Proofs/SnpExample.lean.  Core-only, so that the driver can print the very same bytes: the
harness builds the image independently (`c04Standard(0x1000, 0x80b004, secs, 0)`, zero fill), compares
the bytes with the driver's (`c04 op=example`) and runs the real sev.LaunchDigest on it.

Layout (what OVMF's build produces, in miniature):
  0x000  SEV metadata: header (signature 'ASEV', length 16+12n, version 1, n) and n 12-byte descriptors
  …      zero padding
  0xFA2  GUIDed table, 44 bytes: SEV metadata offset block (offset 4096 from the end of the image, entry
         size 22, GUID dc886566-…), SEV-ES reset block (AP reset vector 0x0080B004, entry size 22,
         GUID 00f771de-…)
  0xFCE  table footer entry (size 62 = 44 + 18, GUID 96b582de-…)
  0xFE0  32 trailing bytes (the reset vector code in a real image)
-/
namespace GceTcb.SevExample
open GceTcb GceTcb.Codec GceTcb.Codecs GceTcb.GuidTable GceTcb.SevMeta

/-- the SEV-ES reset block of the example: AP reset vector 0x0080B004 -/
def exRb : ResetBlock := ⟨0x80B004, 22, sevEsResetBlockGuid⟩

def metaOffBlock : Bytes := metadataOffsetRec.enc ⟨4096, ⟨22, sevMetadataOffsetGuid⟩⟩
def resetBlock : Bytes := resetBlockRec.enc exRb

/-- the GUIDed table contents (address order: the reset block is nearest to the footer) -/
def exTable : Bytes := metaOffBlock ++ resetBlock

def metaBytes (secs : List SevMetadataSection) : Bytes :=
  sevMetadataRec.enc ⟨sevSnpMetadataSignature, 16 + 12 * secs.length, 1, secs.length⟩ ++
    secs.flatMap sevMetadataSectionRec.enc

/-- the 4 KiB image declaring `secs` (for lists of up to 333 descriptors) -/
def fwOf (secs : List SevMetadataSection) : Bytes :=
  metaBytes secs ++ (List.replicate (4096 - (16 + 12 * secs.length) - 94) 0 ++ (exTable ++
    (fwGuidEntryRec.enc ⟨62, footerGuid⟩ ++ List.replicate 32 0)))

/-- Declared order is NOT ascending: secrets page, 9 unmeasured pages, CPUID page, SVSM calling area. -/
def exSecs : List SevMetadataSection :=
  [⟨0x80D000, 0x1000, kindSecret⟩, ⟨0x800000, 0x9000, kindUnmeasured⟩, ⟨0x80E000, 0x1000, kindCpuid⟩,
   ⟨0x80C000, 0x1000, kindSvsmCaa⟩]

def exFw : Bytes := fwOf exSecs

/-! The example with ONE descriptor edited, one edit per malformation the property names. -/

/-- the secrets page starts in the middle of a page -/
def vMisAddr : List SevMetadataSection :=
  [⟨0x810800, 0x1000, kindSecret⟩, ⟨0x800000, 0x9000, kindUnmeasured⟩, ⟨0x80E000, 0x1000, kindCpuid⟩, ⟨0x80C000, 0x1000, kindSvsmCaa⟩]
/-- the unmeasured range is 8.5 pages long -/
def vMisLen : List SevMetadataSection :=
  [⟨0x80D000, 0x1000, kindSecret⟩, ⟨0x800000, 0x8800, kindUnmeasured⟩, ⟨0x80E000, 0x1000, kindCpuid⟩, ⟨0x80C000, 0x1000, kindSvsmCaa⟩]
/-- the SVSM calling area has length 0 -/
def vEmpty : List SevMetadataSection :=
  [⟨0x80D000, 0x1000, kindSecret⟩, ⟨0x800000, 0x9000, kindUnmeasured⟩, ⟨0x80E000, 0x1000, kindCpuid⟩, ⟨0x80C000, 0, kindSvsmCaa⟩]
/-- the SVSM calling area lies inside the unmeasured range -/
def vOverlap : List SevMetadataSection :=
  [⟨0x80D000, 0x1000, kindSecret⟩, ⟨0x800000, 0x9000, kindUnmeasured⟩, ⟨0x80E000, 0x1000, kindCpuid⟩, ⟨0x808000, 0x1000, kindSvsmCaa⟩]
/-- a second CPUID page -/
def vDupCpuid : List SevMetadataSection :=
  [⟨0x80D000, 0x1000, kindSecret⟩, ⟨0x800000, 0x9000, kindUnmeasured⟩, ⟨0x80E000, 0x1000, kindCpuid⟩, ⟨0x80C000, 0x1000, kindCpuid⟩]
/-- a second secrets page -/
def vDupSecret : List SevMetadataSection :=
  [⟨0x80D000, 0x1000, kindSecret⟩, ⟨0x800000, 0x9000, kindUnmeasured⟩, ⟨0x80E000, 0x1000, kindCpuid⟩, ⟨0x80C000, 0x1000, kindSecret⟩]
/-- no unmeasured range -/
def vNoUnmeasured : List SevMetadataSection :=
  [⟨0x80D000, 0x1000, kindSecret⟩, ⟨0x800000, 0x9000, kindSvsmCaa⟩, ⟨0x80E000, 0x1000, kindCpuid⟩, ⟨0x80C000, 0x1000, kindSvsmCaa⟩]
/-- no secrets page -/
def vNoSecret : List SevMetadataSection :=
  [⟨0x80D000, 0x1000, kindUnmeasured⟩, ⟨0x800000, 0x9000, kindUnmeasured⟩, ⟨0x80E000, 0x1000, kindCpuid⟩, ⟨0x80C000, 0x1000, kindSvsmCaa⟩]
/-- no CPUID page -/
def vNoCpuid : List SevMetadataSection :=
  [⟨0x80D000, 0x1000, kindSecret⟩, ⟨0x800000, 0x9000, kindUnmeasured⟩, ⟨0x80E000, 0x1000, kindUnmeasured⟩, ⟨0x80C000, 0x1000, kindSvsmCaa⟩]
/-- descriptor kind 5 -/
def vUnknown : List SevMetadataSection :=
  [⟨0x80D000, 0x1000, kindSecret⟩, ⟨0x800000, 0x9000, kindUnmeasured⟩, ⟨0x80E000, 0x1000, kindCpuid⟩, ⟨0x80C000, 0x1000, 5⟩]

def variants : List (String × List SevMetadataSection) := [
  ("misaligned-address", vMisAddr),
  ("misaligned-length", vMisLen),
  ("empty", vEmpty),
  ("overlap", vOverlap),
  ("duplicate-cpuid", vDupCpuid),
  ("duplicate-secrets", vDupSecret),
  ("missing-unmeasured", vNoUnmeasured),
  ("missing-secrets", vNoSecret),
  ("missing-cpuid", vNoCpuid),
  ("unknown-kind", vUnknown)]

/-! Two 8 KiB images (4 KiB of zeros in front; the metadata stays 4096 bytes from the end) for the theorem
about product values that are not keys of `bitWidth` (`C04_unsupported_product_*`). -/

/-- metadata whose every range has at least two pages -/
def wideSecs : List SevMetadataSection :=
  [⟨0x80D000, 0x2000, kindSecret⟩, ⟨0x800000, 0x9000, kindUnmeasured⟩, ⟨0x80F000, 0x2000, kindCpuid⟩,
   ⟨0x80B000, 0x2000, kindSvsmCaa⟩]

/-- two ROM pages, every metadata range two pages or more -/
def wideFw : Bytes := List.replicate 4096 0 ++ fwOf wideSecs

/-- two ROM pages and the example's metadata (one-page secrets, CPUID and SVSM ranges, as OVMF declares them) -/
def twoPageFw : Bytes := List.replicate 4096 0 ++ exFw

end GceTcb.SevExample
