import GceTcb.Model.SecureJoin
/-
Go's package `path` (slash-only: Clean, Join, IsAbs) on `String`, as used by endorse/commit.go
(`import "path"`), and the path computations of that file built from them. Core-only.

`path.Clean` / `path.Join` and `path/filepath.Clean` / `Join` are the same functions on Unix (no volume
names, separator '/'); the model is the one of C16 (`SecureJoin.clean`, `SecureJoin.joinElems`, compared
with the real `filepath.Clean` by stream c16fs and with the real `path.Clean` / `path.Join` by stream
c13 op=clean / op=join). Texts are sequences of Unicode code points; Clean only looks at '/' and '.',
which are single bytes in UTF-8 and never part of another code point, so byte-wise and code-point-wise
cleaning agree on every valid UTF-8 text.
-/
namespace GceTcb.Paths
open GceTcb.SecureJoin

/-- go: path.Clean -/
def pclean (s : String) : String := String.ofList (clean s.toList)

/-- go: path.Join(elem...) -/
def pjoin (elems : List String) : String := String.ofList (joinElems (elems.map String.toList))

/-- go: path.IsAbs -/
def pisAbs (s : String) : Bool := isAbs s.toList

/-- go: strings.HasPrefix(s, "../") -/
def climbs (s : String) : Bool := ['.', '.', '/'].isPrefixOf s.toList

/-- go: the test of endorse.defaultGenerateBasename on the cleaned name:
    `!(path.IsAbs(basename) || strings.HasPrefix(basename, "../"))`. -/
def localName (b : String) : Bool := !pisAbs b && !climbs b

/-- go: endorse.defaultGenerateBasename — `path.Clean(fmt.Sprintf("%s.%s", release, "binarypb"))`, the
    release being the candidate name or "endorsement" for the empty one. -/
def cleanBasename (cand : String) : String :=
  pclean ((if cand == "" then "endorsement" else cand) ++ ".binarypb")

/-- How a VersionControl's ReleasePath turns a root-relative path into a full one:
    `concat`: root + "/" + p (the scripted double of streams c14/c15);
    `join`: path.Join(root, p) (testing/nonprod/localnonvcs). -/
inductive RelMode where
  | concat | join
deriving Repr, DecidableEq

/-- go: VersionControl.ReleasePath -/
def release (mode : RelMode) (root p : String) : String :=
  match mode with
  | .concat => root ++ "/" ++ p
  | .join => pjoin [root, p]

/-- go: endorse.releasePath — `ec.VCS.ReleasePath(ctx, path.Join(ec.OutDir, basename))` -/
def outPath (mode : RelMode) (root outDir b : String) : String := release mode root (pjoin [outDir, b])

/-- go: endorse.snapshotEndorsement — the signature files (`writeEndorsement` targets) for the firmware
    path `fw` and the SVSM path `sv`. -/
def snapSigs (fw sv : String) (svsm : Bool) : List String :=
  [fw ++ ".signed"] ++ (if svsm then [sv ++ ".signed"] else [])

/-- go: endorse.snapshotEndorsement — the other snapshot files in the order they are written. -/
def snapFiles (fw sv : String) (svsm scrtm : Bool) : List String :=
  [fw, fw ++ ".evts.pb"] ++ (if scrtm then [fw ++ ".scrtm.pb"] else []) ++
    (if svsm then [sv, sv ++ ".evts.pb"] ++ (if scrtm then [sv ++ ".scrtm.pb"] else []) else [])

end GceTcb.Paths
