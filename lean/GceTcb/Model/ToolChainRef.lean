import GceTcb.Model.ToolChain
import GceTcb.Model.VerifyWire
import GceTcb.Model.ProtoEndorse
import GceTcb.Model.EndorseTables
/-
An executable instance of `ToolChain.Kit` (used by the driver of stream `c03tools` and by the witnesses of
Props/C03Tools.lean): protobuf is the Lean wire codec of Model/ProtoWire.lean on both sides
(`ProtoEndorse.ofGolden` + `encodeGoldenRaw` / `encodeEndorsement` written, `VerifyWire.unmarshal…` read); a
certificate is written as its field list in ASCII behind a tag byte (DER) and behind a "PEM:" prefix (PEM) and read
back by splitting; a signature records the signing key and the message; path validation is the two-level check of
crypto/x509 for a leaf issued directly by a self-signed CA root, with inclusive validity bounds.  Core-only.
-/
namespace GceTcb.ToolChain.Ref
open GceTcb

def asciiBytes (s : String) : Bytes := s.toList.map fun c => UInt8.ofNat c.toNat
def bytesAscii (b : Bytes) : String := String.ofList (b.map fun x => Char.ofNat x.toNat)

def b01 (b : Bool) : String := if b then "1" else "0"

/-- the field list of a certificate as text (strings in hex so that `,` separates fields) -/
def certText (c : KeyHistory.Cert) : String :=
  ",".intercalate [toString c.certSerial, toString c.subjSerial, hexEncode (asciiBytes c.cn),
    hexEncode (asciiBytes c.issuerCn), toString c.issuerSerial, toString c.subjectKey, toString c.issuerKey,
    toString c.signerKey, b01 c.isCA, toString c.keyUsage, toString c.sigAlg, toString c.notBefore,
    toString c.notAfter]

def derTag : UInt8 := 0x30

def certDer (c : KeyHistory.Cert) : Bytes := derTag :: asciiBytes (certText c)

def parseCertText (s : String) : Option KeyHistory.Cert :=
  match s.splitOn "," with
  | [a, b, cn, icn, is, sk, ik, gk, ca, ku, sa, nb, na] => do
    let a ← a.toNat?
    let b ← b.toNat?
    let cn ← hexDecode cn
    let icn ← hexDecode icn
    let is ← is.toNat?
    let sk ← sk.toNat?
    let ik ← ik.toNat?
    let gk ← gk.toNat?
    let ku ← ku.toNat?
    let sa ← sa.toNat?
    let nb ← nb.toNat?
    let na ← na.toNat?
    pure ⟨a, b, bytesAscii cn, bytesAscii icn, is, sk, ik, gk, ca == "1", ku, sa, nb, na⟩
  | _ => none

def parseCert : Bytes → Option KeyHistory.Cert
  | [] => none
  | t :: rest => if t == derTag then parseCertText (bytesAscii rest) else none

def pemPrefix : Bytes := asciiBytes "PEM:"

def rootPem (c : KeyHistory.Cert) : Bytes := pemPrefix ++ certDer c

/-- CertPool.AppendCertsFromPEM: the CERTIFICATE blocks that parse (here: at most one) -/
def pemCerts (b : Bytes) : List KeyHistory.Cert :=
  if b.take 4 == pemPrefix then (match parseCert (b.drop 4) with | some c => [c] | none => []) else []

def signPss (k : Nat) (m : Bytes) : Bytes := asciiBytes (toString k) ++ (0x3a : UInt8) :: m

/-- crypto/x509 for a leaf issued directly by a self-signed CA root in the pool -/
def verifyChain (c : KeyHistory.Cert) (roots : List KeyHistory.Cert) (now : Nat) : Bool :=
  roots.any fun r =>
    c.signerKey == r.subjectKey && c.issuerCn == r.cn && c.issuerSerial == r.subjSerial &&
    r.isCA && r.signerKey == r.subjectKey &&
    decide (r.notBefore ≤ now) && decide (now ≤ r.notAfter) && decide (c.notBefore ≤ now) && decide (now ≤ c.notAfter)

def codec : Codec KeyHistory.Cert where
  certDer := certDer
  rootPem := rootPem
  certOf := id
  signPss := signPss
  marshalGolden := fun d => ProtoWire.encodeGoldenRaw (ProtoEndorse.ofGolden d)
  marshalEndorsement := fun e => ProtoWire.encodeEndorsement ⟨e.payload, e.signature, []⟩

/-- attestation files of the reference world: `S` ++ 48-byte measurement = an SEV-SNP report carrying it,
    `T` ++ … = a TDX quote -/
def parseAttestation : Bytes → Option Verify.TeeAttestation
  | 0x53 :: m => some (.sevSnp ⟨0, m, []⟩)
  | 0x54 :: _ => some (.tdx 0)
  | _ => none

def vprims : Verify.Prims KeyHistory.Cert (List KeyHistory.Cert) Nat where
  unmarshalEndorsement := VerifyWire.unmarshalEndorsement
  unmarshalGolden := VerifyWire.unmarshalGolden
  timeFromNil := some ⟨0, 0⟩
  parseCert := parseCert
  verifyChain := verifyChain
  checkSigPss256 := fun c m s => s == signPss c.subjectKey m
  objectURL := fun _ _ => ""
  loadRootPool := fun _ => none
  sevPolicyOptions := fun _ _ _ _ => some 0
  snpBaseChecks := fun _ _ => true
  tdxPolicyOptions := fun _ _ _ _ => some 0
  tdxQuoteChecks := fun _ _ => true
  tdxExtractEndorsement := fun _ => none

def rprims : RpCli.Prims KeyHistory.Cert (List KeyHistory.Cert) Nat Unit Unit where
  v := vprims
  pemCerts := pemCerts
  poolOf := id
  unmarshalSevPolicy := fun _ => none
  unmarshalTdxPolicy := fun _ => none
  parseAttestation := parseAttestation

def lex : RpCli.Lex := ⟨String.toNat?, String.toInt?⟩

def goldenOf (e : Verify.Endorsement) : Option ProtoWire.WGolden := ProtoWire.decodeGolden e.payload

def pprims : RpCli.PolicyPrims Unit Unit where
  pem := fun _ => none
  dflt := ⟨0, [], 0, [], [], ()⟩
  emptyQ := ()
  emptyR := ()
  goldenSev := fun e => (goldenOf e).map fun w => w.sevSnp.map ProtoEndorse.sevOfWire
  goldenTdx := fun e => (goldenOf e).map fun w => w.tdx.map fun d => d.measurements.map ProtoEndorse.rowOfWire

def world : RpCli.World KeyHistory.Cert (List KeyHistory.Cert) Nat Unit Unit :=
  { P := rprims, L := lex, G := pprims, tagS := fun _ => 0, tagT := fun _ => 0 }

/-- measurement primitives of the reference world: digests are functions of the image length, the VMSA count /
    the shape name (48 bytes each) -/
def meas (tag n : Nat) : Bytes := List.replicate 46 0 ++ [UInt8.ofNat tag, UInt8.ofNat n]

def eprims (uuid : String → Option Bytes) : Endorse.Prims where
  sha384 := fun img => meas 1 img.length
  launchDigest := fun _ n _ => .ok (meas 2 n)
  mrtd := fun _ s m => .ok (meas (match m with | .tdhobBug => 3 | .earlyAccept => 4 | .default => 5) s.length)
  parseUuid := uuid

def eparams (pt : String → Option (Int × Nat)) : EndorseCli.Params where
  parseProduct := fun s => (EndorseCli.productTable.find? (fun p => p.1 == s)).map (·.2)
  parseTime := pt
  unmarshalScrtm := EndorseCli.unmarshalScrtmWire
  decodeHexText := fun b => hexDecode (bytesAscii b)

/-- The shipped nonprod stack: localkm + localca→gcsca, the repaired upload. -/
def kit (seq : Bool) (pt : String → Option (Int × Nat)) (uuid : String → Option Bytes) :
    Kit KeyHistory.Cert (List KeyHistory.Cert) Unit Unit :=
  { W := ⟨.gcsca, .localkm, seq, true⟩, pt := pt, EP := eparams pt, Pr := eprims uuid,
    T := Endorse.genTables, RW := world, C := codec }

end GceTcb.ToolChain.Ref
