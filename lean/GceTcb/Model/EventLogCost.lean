import GceTcb.Model.EventLog
import GceTcb.Model.Extract
/-
C07 (event-log half) — checked, cost-instrumented model of the REPAIRED event-log readers
(eventlog/{unmarshal,event,tcg2,tpm}.go after commits 0790b01, 0f6de9c, 78982fd, bff5b71) and of the
locator decoding built on them (extract/eventlog/{eventlog,efivar}.go).  Core-only.

Every reader is a `Step`: its result (`XRes`: value + remaining input, `io.EOF`-class error, other
error, or a PANIC at a named site), the number of bytes it ALLOCATES (`make`, `&T{}`, `string(...)`,
`append` growth, `io.ReadAll`, the scratch of `binary.Read`) and loop/primitive `ticks`.  Every Go
expression that can panic (index, slice, `make(n)`, type assertion) is an explicit checked operation
(`xIndex`, `xSlice`, …) that returns `.panic site` exactly when Go would.  A site is named
`<pkg>.<function>#<ordinal>:<kind>`, the key it has in the inventory regenerated from the source
(Gen/PanicSitesEvl.lean); Model/EventLogSites.lean classifies every site of that inventory and
`C07_evl_sites` (Props/C07Evl.lean) is the obligation that the two lists are equal.

Values: `Proofs/EventLogCost.lean` proves `(xReadX b).res = lift (EventLog.readX ⟨true, k⟩ b)` for every
reader, i.e. this model refines the C18 model of the repaired code (`Cfg.strict = true`, any reader
kind) and never takes a panic branch.

Runtime parameters (`Runtime`): the allocation of `append` growth and of `io.ReadAll` belong to the Go
runtime / standard library; they are functions with explicit laws (`Runtime.Lawful`), measured by the
harness on the running toolchain (stream c07evl, `rtlaw` cases).  Not modelled: the text of error
messages (`fmt.Errorf` — O(length of the message), the messages that embed data print at most 255
bytes (`ByteSizedCStr`) or the locator name once) and the internals of x/text's UTF-16 decoder and of
filepath-securejoin; the harness's allocation meter covers them.  64-bit `int` is assumed.
-/
namespace GceTcb.EvlCost
open GceTcb GceTcb.Codec GceTcb.Codecs GceTcb.EventLog

/-! ## runtime parameters -/

structure Runtime where
  /-- total bytes allocated by `n` successive `s = append(s, p)` of pointers, starting from a nil slice -/
  appendPtr : Nat → Nat
  /-- bytes allocated by `io.ReadAll` over a `*bytes.Buffer` holding `n` bytes -/
  readAll : Nat → Nat

/-- laws of the Go runtime the bounds rest on (amortised slice growth; ReadAll's 512-byte start) -/
def Runtime.Lawful (rt : Runtime) : Prop :=
  (∀ n, rt.appendPtr n ≤ 64 * n) ∧ (∀ n, rt.readAll n ≤ 8 * n + 1024)

/-- the instance the driver evaluates: the laws' upper bounds -/
def Runtime.upper : Runtime := ⟨fun n => 64 * n, fun n => 8 * n + 1024⟩

/-! ## results and steps -/

inductive XRes (α : Type) where
  | ok (a : α) (rest : Bytes)
  | eof
  | fail
  | panic (site : String)
deriving DecidableEq, Repr

/-- embedding of the C18 model's results (which have no panic) -/
def lift {α : Type} : Res α → XRes α
  | .ok a r => .ok a r
  | .eof => .eof
  | .fail => .fail

def XRes.isPanic {α : Type} : XRes α → Bool
  | .panic _ => true
  | _ => false

structure Step (α : Type) where
  res : XRes α
  alloc : Nat
  ticks : Nat
deriving Repr

namespace Step
variable {α β : Type}

def total (s : Step α) : Nat := s.alloc + s.ticks

def pure (a : α) (rest : Bytes) : Step α := ⟨.ok a rest, 0, 0⟩
def failed : Step α := ⟨.fail, 0, 0⟩
def panicAt (site : String) : Step α := ⟨.panic site, 0, 0⟩

/-- sequencing: costs add up; errors and panics propagate -/
def andThen (s : Step α) (f : α → Bytes → Step β) : Step β :=
  match s.res with
  | .ok a rest => ⟨(f a rest).res, s.alloc + (f a rest).alloc, s.ticks + (f a rest).ticks⟩
  | .eof => ⟨.eof, s.alloc, s.ticks⟩
  | .fail => ⟨.fail, s.alloc, s.ticks⟩
  | .panic p => ⟨.panic p, s.alloc, s.ticks⟩

def map (f : α → β) (s : Step α) : Step β :=
  match s.res with
  | .ok a rest => ⟨.ok (f a) rest, s.alloc, s.ticks⟩
  | .eof => ⟨.eof, s.alloc, s.ticks⟩
  | .fail => ⟨.fail, s.alloc, s.ticks⟩
  | .panic p => ⟨.panic p, s.alloc, s.ticks⟩

/-- error wrapped with `%v`: never io.EOF any more -/
def noEof (s : Step α) : Step α :=
  match s.res with
  | .eof => ⟨.fail, s.alloc, s.ticks⟩
  | _ => s

/-- extra allocation / ticks spent around a step -/
def charge (a t : Nat) (s : Step α) : Step α := ⟨s.res, s.alloc + a, s.ticks + t⟩

end Step

/-! ## checked operations (the panic-capable Go expressions) -/

/-- go: `s[i]` — panics unless `i < len(s)` -/
def xIndex (s : Bytes) (i : Nat) (site : String) (rest : Bytes) : Step UInt8 :=
  match s[i]? with
  | some v => .pure v rest
  | none => .panicAt site

/-- go: `s[lo:hi]` with `cap(s) = len(s)` — panics unless `lo ≤ hi ≤ len(s)` -/
def xSlice (s : Bytes) (lo hi : Nat) (site : String) (rest : Bytes) : Step Bytes :=
  if lo ≤ hi ∧ hi ≤ s.length then .pure ((s.take hi).drop lo) rest else .panicAt site

/-- go: `make([]byte, n)` with `n` an unsigned value converted to int: panics from 2^63 (64-bit int);
    allocates `n` bytes -/
def xMake (n : Nat) (site : String) (rest : Bytes) : Step Unit :=
  if n < 2 ^ 63 then ⟨.ok () rest, n, 0⟩ else .panicAt site

/-! ## sizes of the structures the readers allocate (gc/amd64).  The literals below are what the cost
    theorems were proved with; `C07_evl_consts` (Props/C07Evl.lean) is the obligation that they equal the
    values regenerated from the source on every run (Gen/EvlConsts.lean: `allocs`, `eventFactoryTypes`,
    `maxPrealloc`, `eventSignatureSize`). -/

def sizeofTCGPCREvent2 : Nat := 48
def sizeofTaggedDigest : Nat := 32
def sizeofSP800155Event3 : Nat := 176
def sizeofUnknownEvent : Nat := 24
def sizeofCountingReader : Nat := 24
def sizeofBytesBuffer : Nat := 40
/-- go: eventlog.maxPrealloc -/
def maxPrealloc : Nat := 4096
/-- go: hex.EncodeToString of the 16-byte signature: a 32-byte buffer and the 32-byte string
    (= 4 · EventSignatureSize, obligation C07_evl_consts) -/
def hexKeyAlloc : Nat := 64

/-! ## primitive reads -/

/-- go: one `r.Read(p)` / `io.ReadFull` of `n > 0` bytes into memory of which `a` bytes are freshly
    allocated (binary.Read's scratch: a = n; a local array that escapes: a = n; a field of an existing
    struct: a = 0).  Result classes as `EventLog.readFull`. -/
def xReadFull (a n : Nat) (b : Bytes) : Step Bytes := ⟨lift (readFull n b), a, 1⟩

/-- go: binary.Read(r, binary.LittleEndian, &uintN) — allocates its n-byte scratch -/
def xReadLE (n : Nat) (b : Bytes) : Step Nat := ⟨lift (readLE n b), n, 1⟩

/-! ## eventlog/unmarshal.go: readExact -/

/-- go: `capacity = 2 * uint64(len(buf)); if capacity > want { capacity = want }` -/
def nextLen (size len : Nat) : Nat := if 2 * len > size then size else 2 * len

inductive Exact where
  | full                -- all `size` bytes read
  | short (read : Nat)  -- the reader ran dry after `read` bytes
  | panic (site : String)
deriving DecidableEq, Repr

structure ExactRun where
  out : Exact
  alloc : Nat
  ticks : Nat
deriving Repr

/-- The `for` loop of readExact. State: `read` bytes delivered so far (all of them into the buffer),
    `len = len(buf)`; `avail` = bytes the reader can still deliver at the start of readExact.
    One tick per `io.ReadFull(r, buf[read:])`; the buffer is re-allocated with `nextLen` when it is full
    and the item is not complete. `fuel` bounds the iterations (`size + 1` is never exhausted:
    `exactLoop_spec`). -/
def exactLoop (size avail : Nat) : Nat → Nat → Nat → ExactRun
  | 0, _, _ => ⟨.short 0, 0, 0⟩
  | fuel + 1, read, len =>
    if len < read then ⟨.panic "eventlog.readExact#2:slice", 0, 1⟩               -- buf[read:]
    else if avail < len then ⟨.short avail, 0, 1⟩                       -- io.ReadFull: err != nil
    else if len = size then ⟨.full, 0, 1⟩                               -- uint64(read) == want
    else if ¬ nextLen size len < 2 ^ 63 then ⟨.panic "eventlog.readExact#5:make", 0, 1⟩   -- make([]byte, capacity)
    else ⟨(exactLoop size avail fuel len (nextLen size len)).out,
          nextLen size len + (exactLoop size avail fuel len (nextLen size len)).alloc,
          1 + (exactLoop size avail fuel len (nextLen size len)).ticks⟩

/-- go: eventlog.readExact(r, size) over a reader that still holds `rest`.
    size 0: nil, nothing read. Otherwise the first buffer is `min(size, maxPrealloc)` bytes.
    `io.EOF` iff not one byte was read (`err == io.EOF && read > 0` becomes io.ErrUnexpectedEOF). -/
def xReadExact (size : Nat) (rest : Bytes) : Step Bytes :=
  if size = 0 then .pure [] rest
  else if ¬ (min size maxPrealloc) < 2 ^ 63 then .panicAt "eventlog.readExact#1:make"
  else
    match (exactLoop size rest.length (size + 1) 0 (min size maxPrealloc)).out with
    | .full =>
      ⟨.ok (rest.take size) (rest.drop size),
       min size maxPrealloc + (exactLoop size rest.length (size + 1) 0 (min size maxPrealloc)).alloc,
       (exactLoop size rest.length (size + 1) 0 (min size maxPrealloc)).ticks⟩
    | .short read =>
      ⟨if read = 0 then .eof else .fail,
       min size maxPrealloc + (exactLoop size rest.length (size + 1) 0 (min size maxPrealloc)).alloc,
       (exactLoop size rest.length (size + 1) 0 (min size maxPrealloc)).ticks⟩
    | .panic site =>
      ⟨.panic site,
       min size maxPrealloc + (exactLoop size rest.length (size + 1) 0 (min size maxPrealloc)).alloc,
       (exactLoop size rest.length (size + 1) 0 (min size maxPrealloc)).ticks⟩

/-- go: eventlog.readSizedArray (prefix of `w` bytes; sizeValue's type switch has exactly the two
    cases the callers use) -/
def xReadSizedArray (w : Nat) (b : Bytes) : Step Bytes :=
  (xReadLE w b).andThen fun size rest => xReadExact size rest

/-- go: ByteSizedCStr.Unmarshal — `len(data) == 0 || data[len(data)-1] != 0` is an error;
    `string(data[:len(data)-1])` allocates the string -/
def xReadCStr (b : Bytes) : Step Bytes :=
  (xReadSizedArray 1 b).andThen fun data rest =>
    if data.length = 0 then .failed
    else (xIndex data (data.length - 1) "eventlog.ByteSizedCStr.Unmarshal#1:index" rest).andThen fun last rest =>
      if last != 0 then .failed
      else ((xSlice data 0 (data.length - 1) "eventlog.ByteSizedCStr.Unmarshal#2:slice" rest).charge (data.length - 1) 0)

/-- go: Uint32SizedArray.Unmarshal -/
def xReadU32Array (b : Bytes) : Step Bytes := xReadSizedArray 4 b

/-- go: EfiGUID.Unmarshal — `var efiguid [16]byte` escapes through r.Read (16 bytes); `efiguid[:]` is a
    full slice of an array (cannot panic) -/
def xReadGuid (b : Bytes) : Step Bytes :=
  (xReadFull 16 16 b).map fun raw => uuidRec.ofVals (decF uuidRec.ws raw)

/-! ## eventlog/tpm.go -/

/-- go: TaggedDigest.Unmarshal — `make([]byte, algSize)` with algSize one of 20/32/48 -/
def xReadDigest (b : Bytes) : Step Digest :=
  (xReadLE 2 b).andThen fun alg rest =>
    match tpmAlgoSize alg with
    | none => .failed
    | some sz =>
      (xMake sz "eventlog.TaggedDigest.Unmarshal#1:make" rest).andThen fun _ rest =>
        ((xReadFull 0 sz rest).noEof).map fun d => ⟨alg, d⟩

/-- The element loop of Uint32SizedArrayT[*TaggedDigest].Unmarshal (repaired): one tick per element,
    `elem.Create().(T)` allocates the element (the type assertion cannot fail: `(*TaggedDigest).Create`
    returns a `*TaggedDigest`), errors are wrapped with `%v`. The `append` growth is charged by the
    caller (`xReadDigestArray`). -/
def xReadDigests : Nat → Bytes → Step (List Digest)
  | 0, b => .pure [] b
  | n + 1, b =>
    (((xReadDigest b).noEof).charge sizeofTaggedDigest 1).andThen fun d rest =>
      (xReadDigests n rest).map (d :: ·)

/-- number of elements the loop appends before it stops (all `n`, or those before the first error) -/
def digestsRead : Nat → Bytes → Nat
  | 0, _ => 0
  | n + 1, b =>
    match readDigest b with
    | .ok _ rest => 1 + digestsRead n rest
    | _ => 0

/-- go: Uint32SizedArrayT[*TaggedDigest].Unmarshal — the count is read with binary.Read (error wrapped
    with `%v`), the array grows by `append` -/
def xReadDigestArray (rt : Runtime) (b : Bytes) : Step (List Digest) :=
  ((xReadLE 4 b).noEof).andThen fun n rest =>
    (xReadDigests n rest).charge (rt.appendPtr (digestsRead n rest)) 0

/-! ## eventlog/tcg2.go: SP800-155 Event3 -/

def xReadEvent3Fields (b : Bytes) : Step Event3 :=
  (xReadLE 4 b).andThen fun pmid b =>
  (xReadGuid b).andThen fun guid b =>
  (xReadCStr b).andThen fun pmstr b =>
  (xReadCStr b).andThen fun model b =>
  (xReadCStr b).andThen fun ver b =>
  (xReadCStr b).andThen fun fmstr b =>
  (xReadLE 4 b).andThen fun fmid b =>
  (xReadCStr b).andThen fun fver b =>
  (xReadLE 4 b).andThen fun rimt b =>
  (xReadU32Array b).andThen fun rim b =>
  (xReadLE 4 b).andThen fun certt b =>
  (xReadU32Array b).andThen fun cert b =>
  .pure ⟨pmid, guid, pmstr, model, ver, fmstr, fmid, fver, rimt, rim, certt, cert⟩ b

/-- iterations of the padding loop `for _, r := range rest { if r != 0 { return … } }` -/
def padTicks (rest : Bytes) : Nat :=
  (rest.takeWhile (· == 0)).length + (if allZero rest then 0 else 1)

/-- go: SP800155Event3.UnmarshalFromBytes — `bytes.NewBuffer(data)`, the twelve fields,
    `io.ReadAll(r)` of what remains, the padding loop -/
def xUnmarshalEvent3 (rt : Runtime) (data : Bytes) : Step Event3 :=
  ((xReadEvent3Fields data).charge sizeofBytesBuffer 0).andThen fun e rest =>
    ⟨if allZero rest then .ok e [] else .fail, rt.readAll rest.length, padTicks rest⟩

/-! ## eventlog/event.go -/

/-- go: TCGEventData.Unmarshal (only the SP800-155 factory is registered: production state) -/
def xReadEventData (rt : Runtime) (b : Bytes) : Step EventData :=
  (xReadLE 4 b).andThen fun size rest =>
  (xReadExact size rest).andThen fun chunk rest =>
    if size ≥ 16 then
      (xSlice chunk 0 16 "eventlog.TCGEventData.Unmarshal#1:slice" rest).andThen fun sig rest =>   -- chunk[:EventSignatureSize]
        if sig == event3Signature then
          -- factory(): &SP800155Event3{}; chunk[EventSignatureSize:]
          ((xSlice chunk 16 chunk.length "eventlog.TCGEventData.Unmarshal#4:slice" rest).charge
              (hexKeyAlloc + sizeofSP800155Event3) 0).andThen fun payload rest =>
            match (xUnmarshalEvent3 rt payload).res with
            | .ok e _ => ⟨.ok (.event3 e) rest, (xUnmarshalEvent3 rt payload).alloc, (xUnmarshalEvent3 rt payload).ticks⟩
            | .eof => ⟨.eof, (xUnmarshalEvent3 rt payload).alloc, (xUnmarshalEvent3 rt payload).ticks⟩
            | .fail => ⟨.fail, (xUnmarshalEvent3 rt payload).alloc, (xUnmarshalEvent3 rt payload).ticks⟩
            | .panic p => ⟨.panic p, (xUnmarshalEvent3 rt payload).alloc, (xUnmarshalEvent3 rt payload).ticks⟩
        else ⟨.ok (.raw chunk) rest, hexKeyAlloc + sizeofUnknownEvent, 0⟩      -- &UnknownEvent{Data: chunk}
    else ⟨.ok (.raw chunk) rest, sizeofUnknownEvent, 0⟩

/-- go: TCGPCClientPCREvent.Unmarshal (the SHA1 digest is read into the struct: no allocation) -/
def xReadPcrEvent (rt : Runtime) (b : Bytes) : Step PcrEvent :=
  (xReadLE 4 b).andThen fun pcr b =>
  (xReadLE 4 b).andThen fun et b =>
  (xReadFull 0 20 b).andThen fun sha b =>
  (xReadEventData rt b).andThen fun d b =>
  .pure ⟨pcr, et, sha, d⟩ b

/-- go: TCGPCREvent2.Unmarshal -/
def xReadEvent2 (rt : Runtime) (b : Bytes) : Step Event2 :=
  (xReadLE 4 b).andThen fun pcr b =>
  (xReadLE 4 b).andThen fun et b =>
  (xReadDigestArray rt b).andThen fun ds b =>
  (xReadEventData rt b).andThen fun d b =>
  .pure ⟨pcr, et, ds, d⟩ b

/-- The `for` loop of CryptoAgileLog.Unmarshal (repaired): each iteration allocates the event and its
    countingReader and costs one tick; `io.EOF` ends the log only if the event reader consumed nothing
    (`cr.n == 0` ⇔ nothing remained). The `append` growth of `cel.Events` is charged by `xReadLog`. -/
def xReadEvents (rt : Runtime) : Nat → Bytes → Step (List Event2)
  | 0, _ => .failed
  | fuel + 1, b =>
    match (xReadEvent2 rt b).res with
    | .eof =>
      ⟨if b.isEmpty then .ok [] [] else .fail,
       (xReadEvent2 rt b).alloc + (sizeofTCGPCREvent2 + sizeofCountingReader), (xReadEvent2 rt b).ticks + 1⟩
    | .fail => ⟨.fail, (xReadEvent2 rt b).alloc + (sizeofTCGPCREvent2 + sizeofCountingReader), (xReadEvent2 rt b).ticks + 1⟩
    | .panic p => ⟨.panic p, (xReadEvent2 rt b).alloc + (sizeofTCGPCREvent2 + sizeofCountingReader), (xReadEvent2 rt b).ticks + 1⟩
    | .ok e rest =>
      (((xReadEvents rt fuel rest).map (e :: ·)).charge
        ((xReadEvent2 rt b).alloc + (sizeofTCGPCREvent2 + sizeofCountingReader)) ((xReadEvent2 rt b).ticks + 1))

/-- number of events the loop appends to `cel.Events` -/
def eventsRead : Nat → Bytes → Nat
  | 0, _ => 0
  | fuel + 1, b =>
    match readEvent2 ⟨true, .buffer⟩ b with
    | .ok _ rest => 1 + eventsRead fuel rest
    | _ => 0

/-- go: CryptoAgileLog.Unmarshal -/
def xReadLog (rt : Runtime) (b : Bytes) : Step Log :=
  (xReadPcrEvent rt b).andThen fun hdr rest =>
    ((xReadEvents rt (rest.length + 1) rest).map fun es => ⟨hdr, es⟩).charge
      (rt.appendPtr (eventsRead (rest.length + 1) rest)) 0

/-! ## extract/eventlog: locator decoding, efivarfs file, RIM event selection -/

/-- go: exel.variableLocatorDecode with its slice and index expressions checked:
    `loc[:16]`, `loc[16:]`, `name[len(name)-1]`, `name[len(name)-2]` -/
def xVariableLocatorDecode (loc : Bytes) : Outcome (Bytes × Bytes) :=
  if loc.length ≤ 18 then .err "short"
  else if ¬ 16 ≤ loc.length then .panic "exel.variableLocatorDecode#1:slice"       -- loc[:16]
  else if ¬ 16 ≤ loc.length then .panic "exel.variableLocatorDecode#2:slice"       -- loc[16:]
  else if (loc.drop 16).length % 2 ≠ 0 then .err "odd"
  else
    match (loc.drop 16)[(loc.drop 16).length - 1]?, (loc.drop 16)[(loc.drop 16).length - 2]? with
    | none, _ => .panic "exel.variableLocatorDecode#3:index"                        -- name[len(name)-1]
    | some _, none => .panic "exel.variableLocatorDecode#4:index"                   -- name[len(name)-2]
    | some l1, some l2 =>
      if l1 == 0 && l2 == 0 then .ok (Extract.efiSwap (loc.take 16), loc.drop 16) else .err "unterminated"

/-- go: eventlog.ucs2toUTF8 — C16's model already carries the one panic site
    (`utf8encoding[len(utf8encoding)-1]` on an empty decoding); here under its inventory name -/
def xUcs2toUTF8 (name : Bytes) : Outcome String :=
  match Extract.ucs2toUTF8 name with
  | .panic _ => .panic "exel.ucs2toUTF8#2:index"
  | r => r

/-- ticks of ucs2toUTF8: the decoder visits every code unit, validateUCS2Codepoints every rune -/
def ucs2Ticks (name : Bytes) : Nat := name.length + (Extract.decodeUtf16 name).length

/-- go: the parsing half of EfiVarFSReader.ReadVariable — `len(contents) < 4` is an error, then
    `contents[4:]` -/
def xEfiVarContents (contents : Bytes) : Outcome Bytes :=
  if contents.length < 4 then .err "illformed"
  else if ¬ 4 ≤ contents.length then .panic "exel.EfiVarFSReader.ReadVariable#1:slice"
  else .ok (contents.drop 4)

/-- go: what exel.Locate does with an untrusted (type, locator) before it touches the outside world:
    raw → the bytes; URI → the getter is asked for exactly these bytes; variable → decode, translate the
    name (`none` basename: not translated because decoding failed first); anything else → error -/
inductive LocateReq where
  | raw (d : Bytes)
  | uri (u : Bytes)
  | variable (guid name : Bytes) (basename : String)
deriving DecidableEq, Repr

def xLocateReq (locType : Nat) (loc : Bytes) : Outcome LocateReq :=
  if locType = Gen.Names.rimLocationRaw then .ok (.raw loc)
  else if locType = Gen.Names.rimLocationURI then .ok (.uri loc)
  else if locType = Gen.Names.rimLocationVariable then
    match xVariableLocatorDecode loc with
    | .ok (guid, name) =>
      match xUcs2toUTF8 name with
      | .ok s => .ok (.variable guid name s)
      | .err c => .err c
      | .panic p => .panic p
    | .err c => .err c
    | .panic p => .panic p
  else .err "unsupported"

/-- An SP800-155 event as RIMEventsFromEventLog / fromEventLog look at it -/
structure Rim where
  manufacturer : Bytes
  locType : Nat
  locator : Bytes
deriving DecidableEq, Repr

/-- go: exel.RIMEventsFromEventLog — events of type EV_NO_ACTION whose data is an SP800-155 Event3
    (the type assertion is the comma-ok form: no panic; `evt.EventData.Event` is never nil after
    Unmarshal), in log order -/
def rimsOf (l : Log) : List Rim :=
  l.events.filterMap fun e =>
    if e.eventType = Gen.Names.evNoAction then
      match e.data with
      | .event3 x => some ⟨x.firmwareManufacturerStr, x.rimLocatorType, x.rimLocator⟩
      | .raw _ => none
    else none

/-- go: the nested loops of extract.fromEventLog over the result of RIMEventsFromEventLog -/
def selectRim (mfr : Bytes) (rims : List Rim) : Option Rim :=
  Gen.Names.locatorPrecedence.findSome? fun t =>
    (rims.filter (fun e => e.locType == t)).find? (fun e => mfr.isEmpty || e.manufacturer == mfr)

/-- ticks of RIMEventsFromEventLog (one per event) and of the selection loops (at most one pass over
    the selected events per locator type) -/
def selectTicks (l : Log) : Nat := l.events.length + Gen.Names.locatorPrecedence.length * (rimsOf l).length

/-- go: elFromFile + RIMEventsFromEventLog + selection + the pure part of Locate, on the bytes of an
    event-log file -/
def xFromEventLog (rt : Runtime) (mfr : Bytes) (b : Bytes) : Outcome LocateReq :=
  match (xReadLog rt b).res with
  | .ok l _ =>
    match selectRim mfr (rimsOf l) with
    | some r => xLocateReq r.locType r.locator
    | none => .err "nomatch"
  | .eof => .err "eventlog"
  | .fail => .err "eventlog"
  | .panic p => .panic p

end GceTcb.EvlCost
