import GceTcb.Proofs.ToolChain
/-
A second instance of `ToolChain.Kit`, built only to show that the agreement hypotheses `Agree` are satisfiable
(non-vacuity of the theorems of Props/C03Tools.lean): every value is written in an unbounded unary / length-prefixed
form, so that the decoders are total inverses for ALL documents (no 64-bit ranges as in protobuf).
-/
namespace GceTcb.ToolChain.Toy
open GceTcb

def encNat (n : Nat) : Bytes := List.replicate n 1 ++ [0]

def decNat : Bytes → Option (Nat × Bytes)
  | [] => none
  | b :: r => if b = 0 then some (0, r) else (decNat r).map fun x => (x.1 + 1, x.2)

theorem decNat_enc (n : Nat) (r : Bytes) : decNat (encNat n ++ r) = some (n, r) := by
  induction n with
  | zero => simp [encNat, decNat]
  | succ k ih =>
    have : encNat (k + 1) ++ r = 1 :: (encNat k ++ r) := by simp [encNat, List.replicate_succ]
    rw [this]
    simp [decNat, ih]

def encB (b : Bytes) : Bytes := encNat b.length ++ b

def decB (x : Bytes) : Option (Bytes × Bytes) :=
  match decNat x with
  | some (n, r) => if n ≤ r.length then some (r.take n, r.drop n) else none
  | none => none

theorem decB_enc (b r : Bytes) : decB (encB b ++ r) = some (b, r) := by
  simp [decB, encB, List.append_assoc, decNat_enc]

def encInt (i : Int) : Bytes := if i < 0 then 1 :: encNat (-i).toNat else 0 :: encNat i.toNat

def decInt : Bytes → Option (Int × Bytes)
  | [] => none
  | s :: x =>
    match decNat x with
    | some (n, r) => some (if s = 0 then (n : Int) else -(n : Int), r)
    | none => none

theorem decInt_enc (i : Int) (r : Bytes) : decInt (encInt i ++ r) = some (i, r) := by
  unfold encInt
  by_cases h : i < 0
  · simp only [h, if_true, List.cons_append, decInt, decNat_enc]
    have : ((-i).toNat : Int) = -i := Int.toNat_of_nonneg (by omega)
    simp [this]
  · simp only [h, if_false, List.cons_append, decInt, decNat_enc]
    have : (i.toNat : Int) = i := Int.toNat_of_nonneg (by omega)
    simp [this]

def encRows : List (Nat × Bytes) → Bytes
  | [] => []
  | (k, v) :: t => encNat k ++ (encB v ++ encRows t)

def decRows : Nat → Bytes → Option (List (Nat × Bytes) × Bytes)
  | 0, x => some ([], x)
  | n + 1, x =>
    match decNat x with
    | none => none
    | some (k, r) =>
      match decB r with
      | none => none
      | some (v, r2) =>
        match decRows n r2 with
        | none => none
        | some (t, r3) => some ((k, v) :: t, r3)

theorem decRows_enc (l : List (Nat × Bytes)) (r : Bytes) : decRows l.length (encRows l ++ r) = some (l, r) := by
  induction l with
  | nil => simp [decRows, encRows]
  | cons a t ih =>
    obtain ⟨k, v⟩ := a
    simp [decRows, encRows, List.append_assoc, decNat_enc, decB_enc, ih]

def encList (l : List (Nat × Bytes)) : Bytes := encNat l.length ++ encRows l

def decList (x : Bytes) : Option (List (Nat × Bytes) × Bytes) :=
  match decNat x with
  | some (n, r) => decRows n r
  | none => none

theorem decList_enc (l : List (Nat × Bytes)) (r : Bytes) : decList (encList l ++ r) = some (l, r) := by
  simp [decList, encList, List.append_assoc, decNat_enc, decRows_enc]

/-- the document as the verifier reads it, field by field -/
def encGolden (g : Verify.Golden) : Bytes :=
  (match g.timestamp with | none => [0] | some t => 1 :: (encInt t.secs ++ encInt t.nanos)) ++
  (encNat g.clSpec ++ (encB g.commit ++ (encB g.cert ++ (encB g.digest ++ (encB g.other ++
  ((match g.sevSnp with | none => [0] | some s => 1 :: (encB s.svsmMeasurement ++ encList s.measurements)) ++
  (match g.tdx with | none => [0] | some t => 1 :: encList t.measurements)))))))

def decTs : Bytes → Option (Option Verify.Timestamp × Bytes)
  | [] => none
  | f :: x =>
    if f = 0 then some (none, x)
    else
      match decInt x with
      | none => none
      | some (s, r) =>
        match decInt r with
        | none => none
        | some (n, r2) => some (some ⟨s, n⟩, r2)

def decSev : Bytes → Option (Option Verify.SevSnp × Bytes)
  | [] => none
  | f :: x =>
    if f = 0 then some (none, x)
    else
      match decB x with
      | none => none
      | some (sv, r) =>
        match decList r with
        | none => none
        | some (m, r2) => some (some ⟨sv, m⟩, r2)

def decTdx : Bytes → Option (Option Verify.Tdx × Bytes)
  | [] => none
  | f :: x =>
    if f = 0 then some (none, x)
    else
      match decList x with
      | none => none
      | some (m, r2) => some (some ⟨m⟩, r2)

def decGolden (x : Bytes) : Option Verify.Golden := do
  let (ts, r1) ← decTs x
  let (cl, r2) ← decNat r1
  let (commit, r3) ← decB r2
  let (cert, r4) ← decB r3
  let (digest, r5) ← decB r4
  let (other, r6) ← decB r5
  let (sev, r7) ← decSev r6
  let (tdx, _) ← decTdx r7
  pure ⟨ts, cl, commit, cert, digest, sev, tdx, other⟩

theorem decGolden_enc (g : Verify.Golden) : decGolden (encGolden g) = some g := by
  obtain ⟨ts, cl, commit, cert, digest, sev, tdx, other⟩ := g
  have h1 : ∀ r, decTs ((match ts with | none => [0] | some t => 1 :: (encInt t.secs ++ encInt t.nanos)) ++ r) = some (ts, r) := by
    intro r
    cases ts with
    | none => simp [decTs]
    | some t => simp [decTs, List.append_assoc, decInt_enc]
  have h2 : ∀ r, decSev ((match sev with | none => [0] | some s => 1 :: (encB s.svsmMeasurement ++ encList s.measurements)) ++ r) = some (sev, r) := by
    intro r
    cases sev with
    | none => simp [decSev]
    | some s => simp [decSev, List.append_assoc, decB_enc, decList_enc]
  have h3 : decTdx (match tdx with | none => [0] | some t => 1 :: encList t.measurements) = some (tdx, []) := by
    cases tdx with
    | none => simp [decTdx]
    | some t =>
      have := decList_enc t.measurements []
      simp only [List.append_nil] at this
      simp [decTdx, this]
  simp only [decGolden, encGolden, h1, List.append_assoc, decNat_enc, decB_enc, h2, h3, Option.bind_eq_bind,
    Option.bind_some, Option.pure_def]

def encEndorsement (e : Verify.Endorsement) : Bytes := encB e.payload ++ encB e.signature

def decEndorsement (x : Bytes) : Option Verify.Endorsement :=
  match decB x with
  | none => none
  | some (p, r) =>
    match decB r with
    | none => none
    | some (s, _) => some ⟨p, s⟩

theorem decEndorsement_enc (e : Verify.Endorsement) : decEndorsement (encEndorsement e) = some e := by
  have := decB_enc e.signature []
  simp only [List.append_nil] at this
  simp [decEndorsement, encEndorsement, decB_enc, this]

/-- certificates are opaque on the reading side; every chain and every signature is accepted (the laws of `Agree`
    only say what MUST be accepted) -/
def codec : Codec Bytes where
  certDer := fun _ => [1]
  rootPem := fun _ => [1]
  certOf := fun _ => [1]
  signPss := fun _ _ => []
  marshalGolden := fun d => encGolden (viewGolden d)
  marshalEndorsement := encEndorsement

def vprims : Verify.Prims Bytes (List Bytes) Nat where
  unmarshalEndorsement := decEndorsement
  unmarshalGolden := decGolden
  timeFromNil := some ⟨0, 0⟩
  parseCert := some
  verifyChain := fun _ _ _ => true
  checkSigPss256 := fun _ _ _ => true
  objectURL := fun _ _ => ""
  loadRootPool := fun _ => none
  sevPolicyOptions := fun _ _ _ _ => some 0
  snpBaseChecks := fun _ _ => true
  tdxPolicyOptions := fun _ _ _ _ => some 0
  tdxQuoteChecks := fun _ _ => true
  tdxExtractEndorsement := fun _ => none

def world : RpCli.World Bytes (List Bytes) Nat Unit Unit :=
  { P := { v := vprims, pemCerts := fun b => [b], poolOf := id, unmarshalSevPolicy := fun _ => none,
           unmarshalTdxPolicy := fun _ => none, parseAttestation := fun _ => none }
    L := ⟨String.toNat?, String.toInt?⟩
    G := { pem := fun _ => none, dflt := ⟨0, [], 0, [], [], ()⟩, emptyQ := (), emptyR := (),
           goldenSev := fun _ => none, goldenTdx := fun _ => none }
    tagS := fun _ => 0, tagT := fun _ => 0 }

/-- any key-management / endorse side with this reading side -/
def kit (W : KeyCli.Wiring) (pt : String → Option (Int × Nat)) (EP : EndorseCli.Params) (Pr : Endorse.Prims)
    (T : Endorse.Tables) : Kit Bytes (List Bytes) Unit Unit :=
  { W := W, pt := pt, EP := EP, Pr := Pr, T := T, RW := world, C := codec }

/-- **`Agree` is satisfiable.** -/
theorem agree (W : KeyCli.Wiring) (pt : String → Option (Int × Nat)) (EP : EndorseCli.Params) (Pr : Endorse.Prims)
    (T : Endorse.Tables) : Agree (kit W pt EP Pr T) where
  endorsement_rt := decEndorsement_enc
  golden_rt := fun d => decGolden_enc (viewGolden d)
  der_nonempty := fun _ => rfl
  der_parse := fun _ => rfl
  pem_root := fun _ => rfl
  chain_ok := fun _ _ _ _ _ _ _ _ => rfl
  sig_ok := fun _ _ => rfl

end GceTcb.ToolChain.Toy
