import GceTcb.Proofs.ProtoWire
/-
Round trips of the five endorsement messages through the wire codec.  Core-only.
-/
namespace GceTcb.ProtoWire
open GceTcb

/-! ### shapes of emitted field lists -/

theorem numOk_lit {k : Nat} (h1 : 1 ≤ k) (h2 : k ≤ 536870911) : numOk k := ⟨h1, h2⟩

theorem shape_nil : ∀ f ∈ ([] : List Field), f.Shape := by intro f h; cases h

theorem shape_append {a b : List Field} (ha : ∀ f ∈ a, f.Shape) (hb : ∀ f ∈ b, f.Shape) :
    ∀ f ∈ a ++ b, f.Shape := by
  intro f hf
  rcases List.mem_append.mp hf with h | h
  · exact ha f h
  · exact hb f h

theorem shape_optVarint (num v : Nat) (hn : numOk num) : ∀ f ∈ optVarint num v, f.Shape := by
  intro f hf
  unfold optVarint at hf
  split at hf
  · cases hf
  · simp only [List.mem_singleton] at hf
    exact Or.inl ⟨num, v, hn, hf⟩

theorem shape_optBytes (num : Nat) (p : Bytes) (hn : numOk num) : ∀ f ∈ optBytes num p, f.Shape := by
  intro f hf
  unfold optBytes at hf
  split at hf
  · cases hf
  · simp only [List.mem_singleton] at hf
    exact Or.inr ⟨num, p, hn, hf⟩

theorem shape_optMsg (num : Nat) (o : Option Bytes) (hn : numOk num) : ∀ f ∈ optMsg num o, f.Shape := by
  intro f hf
  cases o with
  | none => cases hf
  | some p =>
    simp only [optMsg, List.mem_singleton] at hf
    exact Or.inr ⟨num, p, hn, hf⟩

theorem shape_map_fLen {α : Type} (num : Nat) (enc : α → Bytes) (l : List α) (hn : numOk num) :
    ∀ f ∈ l.map (fun x => fLen num (enc x)), f.Shape := by
  intro f hf
  obtain ⟨x, _, rfl⟩ := List.mem_map.mp hf
  exact Or.inr ⟨num, enc x, hn, rfl⟩

/-! ### `rest = []` forms of the fold lemmas -/

theorem fold_optVarint_last {M : Type} (step : M → Field → Option M) (num v : Nat) (s : M) (upd : Nat → M)
    (hstep : step s (fVarint num v) = some (upd (v % 2 ^ 64))) (hzero : upd 0 = s) :
    foldFields step s (optVarint num v) = some (upd (v % 2 ^ 64)) := by
  have := fold_optVarint step num v s upd [] hstep hzero
  simpa [foldFields] using this

theorem fold_optBytes_last {M : Type} (step : M → Field → Option M) (num : Nat) (p : Bytes) (s : M) (upd : Bytes → M)
    (hstep : step s (fLen num p) = some (upd p)) (hzero : upd [] = s) :
    foldFields step s (optBytes num p) = some (upd p) := by
  have := fold_optBytes step num p s upd [] hstep hzero
  simpa [foldFields] using this

theorem fold_optMsg_last {M : Type} (step : M → Field → Option M) (num : Nat) (o : Option Bytes) (s s' : M)
    (hsome : ∀ p, o = some p → step s (fLen num p) = some s') (hnone : o = none → s' = s) :
    foldFields step s (optMsg num o) = some s' := by
  have := fold_optMsg step num o s s' [] hsome hnone
  simpa [foldFields] using this

theorem fold_repeated_last {M α : Type} (step : M → Field → Option M) (num : Nat) (enc : α → Bytes) (acc : M → α → M)
    (l : List α) (hstep : ∀ s x, x ∈ l → step s (fLen num (enc x)) = some (acc s x)) (s : M) :
    foldFields step s (l.map (fun x => fLen num (enc x))) = some (l.foldl acc s) := by
  have := fold_repeated step num enc acc l hstep s []
  simpa [foldFields] using this

/-! ## Timestamp -/

structure WfTimestamp (t : WTimestamp) : Prop where
  seconds_lo : -9223372036854775808 ≤ t.seconds
  seconds_hi : t.seconds < 9223372036854775808
  nanos_lo : -2147483648 ≤ t.nanos
  nanos_hi : t.nanos < 2147483648
  no_unknown : t.unknown = []

theorem timestampFields_shape (t : WTimestamp) : ∀ f ∈ timestampFields t, f.Shape :=
  shape_append (shape_optVarint 1 _ (numOk_lit (by decide) (by decide)))
    (shape_optVarint 2 _ (numOk_lit (by decide) (by decide)))

theorem timestampFields_good (t : WTimestamp) : ∀ f ∈ timestampFields t, f.Good := by
  intro f hf
  rcases timestampFields_shape t f hf with ⟨num, v, hn, rfl⟩ | ⟨num, p, hn, rfl⟩
  · exact good_fVarint num v hn
  · exfalso
    unfold timestampFields optVarint at hf
    simp only [List.mem_append] at hf
    rcases hf with h | h <;> (split at h <;> simp [fVarint, fLen] at h)

theorem fold_timestamp (t : WTimestamp) (hw : WfTimestamp t) :
    foldFields stepTimestamp .zero (timestampFields t) = some t := by
  unfold timestampFields
  refine (fold_optVarint stepTimestamp 1 (i64bits t.seconds) .zero
    (fun x => ⟨toInt64 x, 0, []⟩) _ rfl rfl).trans ?_
  refine (fold_optVarint_last stepTimestamp 2 (i64bits t.nanos) _
    (fun x => ⟨toInt64 (i64bits t.seconds % 2 ^ 64), toInt32 x, []⟩) rfl rfl).trans ?_
  rw [toInt64_i64bits _ hw.seconds_lo hw.seconds_hi, toInt32_i64bits _ hw.nanos_lo hw.nanos_hi]
  cases t
  simp only [WTimestamp.mk.injEq, Option.some.injEq, true_and]
  exact hw.no_unknown.symm

theorem decodeTimestamp_encode (t : WTimestamp) (hw : WfTimestamp t) :
    decodeTimestamp (encodeTimestamp t) = some t := by
  unfold decodeTimestamp decodeTimestampInto encodeTimestamp
  rw [hw.no_unknown, List.append_nil, decodeInto_encFields _ _ _ (timestampFields_good t)]
  exact fold_timestamp t hw


/-! ## VMTdx.Measurement -/

structure WfRow (r : WRow) : Prop where
  ram : r.ramGib < 4294967296
  no_unknown : r.unknown = []

theorem rowFields_shape (r : WRow) : ∀ f ∈ rowFields r, f.Shape :=
  shape_append (shape_optVarint 1 _ (numOk_lit (by decide) (by decide)))
    (shape_append (shape_optVarint 2 _ (numOk_lit (by decide) (by decide)))
      (shape_optBytes 3 _ (numOk_lit (by decide) (by decide))))

theorem fold_row (r : WRow) (hw : WfRow r) : foldFields stepRow .zero (rowFields r) = some r := by
  unfold rowFields
  refine (fold_optVarint stepRow 1 r.ramGib .zero (fun x => ⟨x % 4294967296, false, [], []⟩) _ rfl rfl).trans ?_
  refine (fold_optVarint stepRow 2 (b2n r.earlyAccept) _
    (fun x => ⟨r.ramGib % 2 ^ 64 % 4294967296, decide (x ≠ 0), [], []⟩) _ rfl rfl).trans ?_
  refine (fold_optBytes_last stepRow 3 r.mrtd _
    (fun p => ⟨r.ramGib % 2 ^ 64 % 4294967296, decide (b2n r.earlyAccept % 2 ^ 64 ≠ 0), p, []⟩) rfl rfl).trans ?_
  have h1 : r.ramGib % 2 ^ 64 % 4294967296 = r.ramGib := by have := hw.ram; omega
  have h2 : decide (b2n r.earlyAccept % 2 ^ 64 ≠ 0) = r.earlyAccept := by
    cases r.earlyAccept <;> decide
  rw [h1, h2]
  cases r
  simp only [WRow.mk.injEq, Option.some.injEq, true_and]
  exact hw.no_unknown.symm

theorem decodeRow_encode (r : WRow) (hw : WfRow r) (hsz : (encodeRow r).length < 2 ^ 64) :
    decodeRow (encodeRow r) = some r := by
  unfold decodeRow encodeRow at *
  rw [hw.no_unknown, List.append_nil] at *
  rw [decodeInto_encFields _ _ _ (good_of_shape _ (rowFields_shape r) hsz)]
  exact fold_row r hw

/-! ## VMTdx -/

structure WfTdx (d : WTdx) : Prop where
  svn : d.svn < 4294967296
  rows : ∀ r ∈ d.measurements, WfRow r
  no_unknown : d.unknown = []

theorem tdxFields_shape (d : WTdx) : ∀ f ∈ tdxFields d, f.Shape :=
  shape_append (shape_optVarint 1 _ (numOk_lit (by decide) (by decide)))
    (shape_map_fLen 2 encodeRow _ (numOk_lit (by decide) (by decide)))

theorem foldl_snoc_rows (l : List WRow) : ∀ (s : WTdx),
    l.foldl (fun s r => (⟨s.svn, s.measurements ++ [r], s.unknown⟩ : WTdx)) s =
      ⟨s.svn, s.measurements ++ l, s.unknown⟩ := by
  induction l with
  | nil => intro s; simp
  | cons x xs ih => intro s; simp [ih]

theorem fold_tdx (d : WTdx) (hw : WfTdx d) (hsz : (encFields (tdxFields d)).length < 2 ^ 64) :
    foldFields stepTdx .zero (tdxFields d) = some d := by
  have hrow : ∀ (s : WTdx) (r : WRow), r ∈ d.measurements →
      stepTdx s (fLen 2 (encodeRow r)) = some ⟨s.svn, s.measurements ++ [r], s.unknown⟩ := by
    intro s r hr
    have hlen : (encodeRow r).length < 2 ^ 64 :=
      payload_lt (tdxFields d) 2 _ (by
        unfold tdxFields
        exact List.mem_append_right _ (List.mem_map_of_mem hr)) hsz
    have := decodeRow_encode r (hw.rows r hr) hlen
    simp only [stepTdx, fLen, this]
  unfold tdxFields
  refine (fold_optVarint stepTdx 1 d.svn .zero (fun x => ⟨x % 4294967296, [], []⟩) _ rfl rfl).trans ?_
  refine (fold_repeated_last stepTdx 2 encodeRow (fun s r => ⟨s.svn, s.measurements ++ [r], s.unknown⟩)
    d.measurements hrow _).trans ?_
  rw [foldl_snoc_rows]
  have h1 : d.svn % 2 ^ 64 % 4294967296 = d.svn := by have := hw.svn; omega
  simp only [h1, List.nil_append]
  cases d
  simp only [WTdx.mk.injEq, Option.some.injEq, true_and]
  exact hw.no_unknown.symm

theorem decodeTdx_encode (d : WTdx) (hw : WfTdx d) (hsz : (encodeTdx d).length < 2 ^ 64) :
    decodeTdx (encodeTdx d) = some d := by
  unfold decodeTdx decodeTdxInto encodeTdx at *
  rw [hw.no_unknown, List.append_nil] at *
  rw [decodeInto_encFields _ _ _ (good_of_shape _ (tdxFields_shape d) hsz)]
  exact fold_tdx d hw hsz


/-! ## map entries -/

theorem entryFields_shape (k : Nat) (v : Bytes) : ∀ f ∈ entryFields k v, f.Shape := by
  intro f hf
  simp only [entryFields, List.mem_cons, List.not_mem_nil, or_false] at hf
  rcases hf with rfl | rfl
  · exact Or.inl ⟨1, k, numOk_lit (by decide) (by decide), rfl⟩
  · exact Or.inr ⟨2, v, numOk_lit (by decide) (by decide), rfl⟩

theorem decodeEntry_encode (k : Nat) (v : Bytes) (hk : k < 4294967296) (hsz : (encodeEntry k v).length < 2 ^ 64) :
    decodeEntry (encodeEntry k v) = some (k, v) := by
  unfold decodeEntry encodeEntry at *
  rw [decodeInto_encFields _ _ _ (good_of_shape _ (entryFields_shape k v) hsz)]
  have h1 : k % 2 ^ 64 % 4294967296 = k := by omega
  simp only [entryFields, foldFields, stepEntry, fVarint, fLen, h1]

/-! ## VMSevSnp -/

structure WfSevSnp (s : WSevSnp) : Prop where
  svn : s.svn < 4294967296
  policy : s.policy < 18446744073709551616
  keys : ∀ p ∈ s.measurements, p.1 < 4294967296
  no_unknown : s.unknown = []

theorem sevSnpFields_shape (s : WSevSnp) : ∀ f ∈ sevSnpFields s, f.Shape :=
  shape_append (shape_optVarint 1 _ (numOk_lit (by decide) (by decide)))
  (shape_append (shape_map_fLen 2 (fun (p : Nat × Bytes) => encodeEntry p.1 p.2) _ (numOk_lit (by decide) (by decide)))
  (shape_append (shape_optBytes 3 _ (numOk_lit (by decide) (by decide)))
  (shape_append (shape_optBytes 4 _ (numOk_lit (by decide) (by decide)))
  (shape_append (shape_optVarint 5 _ (numOk_lit (by decide) (by decide)))
  (shape_append (shape_optBytes 6 _ (numOk_lit (by decide) (by decide)))
    (shape_optBytes 7 _ (numOk_lit (by decide) (by decide))))))))

theorem foldl_mapSet (l : List (Nat × Bytes)) : ∀ (s : WSevSnp),
    l.foldl (fun s p => (⟨s.svn, mapSet s.measurements p.1 p.2, s.familyId, s.imageId, s.policy, s.caBundle,
        s.svsmMeasurement, s.unknown⟩ : WSevSnp)) s =
      ⟨s.svn, l.foldl (fun a p => mapSet a p.1 p.2) s.measurements, s.familyId, s.imageId, s.policy, s.caBundle,
        s.svsmMeasurement, s.unknown⟩ := by
  induction l with
  | nil => intro s; simp
  | cons x xs ih => intro s; simp [ih]

theorem fold_sevSnp (s : WSevSnp) (hw : WfSevSnp s) (hsz : (encFields (sevSnpFields s)).length < 2 ^ 64) :
    foldFields stepSevSnp .zero (sevSnpFields s) = some (canonSevSnp s) := by
  have hentry : ∀ (m : WSevSnp) (p : Nat × Bytes), p ∈ s.measurements →
      stepSevSnp m (fLen 2 (encodeEntry p.1 p.2)) =
        some ⟨m.svn, mapSet m.measurements p.1 p.2, m.familyId, m.imageId, m.policy, m.caBundle,
          m.svsmMeasurement, m.unknown⟩ := by
    intro m p hp
    have hlen : (encodeEntry p.1 p.2).length < 2 ^ 64 :=
      payload_lt (sevSnpFields s) 2 _ (by
        unfold sevSnpFields
        exact List.mem_append_right _ (List.mem_append_left _
          (List.mem_map_of_mem (f := fun p => fLen 2 (encodeEntry p.1 p.2)) hp))) hsz
    have := decodeEntry_encode p.1 p.2 (hw.keys p hp) hlen
    simp only [stepSevSnp, fLen, this]
  unfold sevSnpFields
  refine (fold_optVarint stepSevSnp 1 s.svn .zero (fun x => ⟨x % 4294967296, [], [], [], 0, [], [], []⟩) _ rfl rfl).trans ?_
  refine (fold_repeated stepSevSnp 2 (fun p => encodeEntry p.1 p.2)
    (fun m p => ⟨m.svn, mapSet m.measurements p.1 p.2, m.familyId, m.imageId, m.policy, m.caBundle,
      m.svsmMeasurement, m.unknown⟩) s.measurements hentry _ _).trans ?_
  rw [foldl_mapSet]
  have h1 : s.svn % 2 ^ 64 % 4294967296 = s.svn := by have := hw.svn; omega
  have h5 : s.policy % 2 ^ 64 % 18446744073709551616 = s.policy := by have := hw.policy; omega
  refine (fold_optBytes stepSevSnp 3 s.familyId _
    (fun p => ⟨s.svn % 2 ^ 64 % 4294967296, normMap s.measurements, p, [], 0, [], [], []⟩) _ rfl rfl).trans ?_
  refine (fold_optBytes stepSevSnp 4 s.imageId _
    (fun p => ⟨s.svn % 2 ^ 64 % 4294967296, normMap s.measurements, s.familyId, p, 0, [], [], []⟩) _ rfl rfl).trans ?_
  refine (fold_optVarint stepSevSnp 5 s.policy _
    (fun x => ⟨s.svn % 2 ^ 64 % 4294967296, normMap s.measurements, s.familyId, s.imageId,
      x % 18446744073709551616, [], [], []⟩) _ rfl rfl).trans ?_
  refine (fold_optBytes stepSevSnp 6 s.caBundle _
    (fun p => ⟨s.svn % 2 ^ 64 % 4294967296, normMap s.measurements, s.familyId, s.imageId,
      s.policy % 2 ^ 64 % 18446744073709551616, p, [], []⟩) _ rfl rfl).trans ?_
  refine (fold_optBytes_last stepSevSnp 7 s.svsmMeasurement _
    (fun p => ⟨s.svn % 2 ^ 64 % 4294967296, normMap s.measurements, s.familyId, s.imageId,
      s.policy % 2 ^ 64 % 18446744073709551616, s.caBundle, p, []⟩) rfl rfl).trans ?_
  rw [h1, h5]
  cases s
  simp only [canonSevSnp, WSevSnp.mk.injEq, Option.some.injEq, true_and]
  exact hw.no_unknown.symm

/-- Unmarshal ∘ Marshal on VMSevSnp, the map entries emitted in ANY order: the result is the message
    with its map in canonical (sorted) form. -/
theorem decodeSevSnp_encodeRaw (s : WSevSnp) (hw : WfSevSnp s) (hsz : (encodeSevSnpRaw s).length < 2 ^ 64) :
    decodeSevSnp (encodeSevSnpRaw s) = some (canonSevSnp s) := by
  unfold decodeSevSnp decodeSevSnpInto encodeSevSnpRaw at *
  rw [hw.no_unknown, List.append_nil] at *
  rw [decodeInto_encFields _ _ _ (good_of_shape _ (sevSnpFields_shape s) hsz)]
  exact fold_sevSnp s hw hsz


/-! ## VMGoldenMeasurement -/

structure WfGolden (g : WGolden) : Prop where
  clSpec : g.clSpec < 18446744073709551616
  timestamp : ∀ t, g.timestamp = some t → WfTimestamp t
  sevSnp : ∀ s, g.sevSnp = some s → WfSevSnp s
  tdx : ∀ d, g.tdx = some d → WfTdx d
  no_unknown : g.unknown = []

theorem goldenFields_shape (g : WGolden) : ∀ f ∈ goldenFields g, f.Shape :=
  shape_append (shape_optMsg 1 _ (numOk_lit (by decide) (by decide)))
  (shape_append (shape_optVarint 2 _ (numOk_lit (by decide) (by decide)))
  (shape_append (shape_optBytes 3 _ (numOk_lit (by decide) (by decide)))
  (shape_append (shape_optBytes 4 _ (numOk_lit (by decide) (by decide)))
  (shape_append (shape_optBytes 5 _ (numOk_lit (by decide) (by decide)))
  (shape_append (shape_optBytes 6 _ (numOk_lit (by decide) (by decide)))
  (shape_append (shape_optMsg 7 _ (numOk_lit (by decide) (by decide)))
    (shape_optMsg 8 _ (numOk_lit (by decide) (by decide)))))))))

theorem mem_goldenFields_7 (g : WGolden) (p : Bytes) (h : g.sevSnp.map encodeSevSnpRaw = some p) :
    fLen 7 p ∈ goldenFields g := by
  unfold goldenFields
  simp [h, optMsg]

theorem mem_goldenFields_8 (g : WGolden) (p : Bytes) (h : g.tdx.map encodeTdx = some p) :
    fLen 8 p ∈ goldenFields g := by
  unfold goldenFields
  simp [h, optMsg]

theorem fold_golden (g : WGolden) (hw : WfGolden g) (hsz : (encFields (goldenFields g)).length < 2 ^ 64) :
    foldFields stepGolden .zero (goldenFields g) = some (canonGolden g) := by
  have h2 : g.clSpec % 2 ^ 64 % 18446744073709551616 = g.clSpec := by have := hw.clSpec; omega
  unfold goldenFields
  -- 1: timestamp
  refine (fold_optMsg stepGolden 1 (g.timestamp.map encodeTimestamp) .zero
    ⟨g.timestamp, 0, [], [], [], [], none, none, []⟩ _ ?_ ?_).trans ?_
  · intro p hp
    cases ht : g.timestamp with
    | none => rw [ht] at hp; cases hp
    | some t =>
      rw [ht] at hp
      simp only [Option.map_some, Option.some.injEq] at hp
      subst hp
      have := decodeTimestamp_encode t (hw.timestamp t ht)
      unfold decodeTimestamp at this
      simp only [stepGolden, fLen, WGolden.zero, Option.getD_none, this]
  · intro hn
    cases ht : g.timestamp with
    | none => rfl
    | some t => rw [ht] at hn; cases hn
  refine (fold_optVarint stepGolden 2 g.clSpec _
    (fun x => ⟨g.timestamp, x % 18446744073709551616, [], [], [], [], none, none, []⟩) _ rfl rfl).trans ?_
  refine (fold_optBytes stepGolden 3 g.commit _
    (fun p => ⟨g.timestamp, g.clSpec % 2 ^ 64 % 18446744073709551616, p, [], [], [], none, none, []⟩) _ rfl rfl).trans ?_
  refine (fold_optBytes stepGolden 4 g.cert _
    (fun p => ⟨g.timestamp, g.clSpec % 2 ^ 64 % 18446744073709551616, g.commit, p, [], [], none, none, []⟩) _ rfl rfl).trans ?_
  refine (fold_optBytes stepGolden 5 g.digest _
    (fun p => ⟨g.timestamp, g.clSpec % 2 ^ 64 % 18446744073709551616, g.commit, g.cert, p, [], none, none, []⟩) _ rfl rfl).trans ?_
  refine (fold_optBytes stepGolden 6 g.caBundle _
    (fun p => ⟨g.timestamp, g.clSpec % 2 ^ 64 % 18446744073709551616, g.commit, g.cert, g.digest, p, none, none, []⟩) _ rfl rfl).trans ?_
  -- 7: sev_snp
  refine (fold_optMsg stepGolden 7 (g.sevSnp.map encodeSevSnpRaw) _
    ⟨g.timestamp, g.clSpec % 2 ^ 64 % 18446744073709551616, g.commit, g.cert, g.digest, g.caBundle,
      g.sevSnp.map canonSevSnp, none, []⟩ _ ?_ ?_).trans ?_
  · intro p hp
    have hlen : p.length < 2 ^ 64 := payload_lt (goldenFields g) 7 p (mem_goldenFields_7 g p hp) hsz
    cases hs : g.sevSnp with
    | none => rw [hs] at hp; cases hp
    | some s =>
      rw [hs] at hp
      simp only [Option.map_some, Option.some.injEq] at hp
      subst hp
      have := decodeSevSnp_encodeRaw s (hw.sevSnp s hs) hlen
      unfold decodeSevSnp at this
      simp only [stepGolden, fLen, Option.getD_none, this, Option.map_some]
  · intro hn
    cases hs : g.sevSnp with
    | none => rfl
    | some s => rw [hs] at hn; cases hn
  -- 8: tdx
  refine (fold_optMsg_last stepGolden 8 (g.tdx.map encodeTdx) _
    ⟨g.timestamp, g.clSpec % 2 ^ 64 % 18446744073709551616, g.commit, g.cert, g.digest, g.caBundle,
      g.sevSnp.map canonSevSnp, g.tdx, []⟩ ?_ ?_).trans ?_
  · intro p hp
    have hlen : p.length < 2 ^ 64 := payload_lt (goldenFields g) 8 p (mem_goldenFields_8 g p hp) hsz
    cases hd : g.tdx with
    | none => rw [hd] at hp; cases hp
    | some d =>
      rw [hd] at hp
      simp only [Option.map_some, Option.some.injEq] at hp
      subst hp
      have := decodeTdx_encode d (hw.tdx d hd) hlen
      unfold decodeTdx at this
      simp only [stepGolden, fLen, Option.getD_none, this]
  · intro hn
    cases hd : g.tdx with
    | none => rfl
    | some d => rw [hd] at hn; cases hn
  rw [h2]
  cases g
  simp only [canonGolden, WGolden.mk.injEq, Option.some.injEq, true_and]
  exact hw.no_unknown.symm

/-- Unmarshal ∘ Marshal on VMGoldenMeasurement (proto.Marshal: the SEV-SNP measurement map emitted in
    whatever order the list has): the message, its map in canonical form. -/
theorem decodeGolden_encodeRaw (g : WGolden) (hw : WfGolden g) (hsz : (encodeGoldenRaw g).length < 2 ^ 64) :
    decodeGolden (encodeGoldenRaw g) = some (canonGolden g) := by
  unfold decodeGolden encodeGoldenRaw at *
  rw [hw.no_unknown, List.append_nil] at *
  rw [decodeInto_encFields _ _ _ (good_of_shape _ (goldenFields_shape g) hsz)]
  exact fold_golden g hw hsz

/-! ## VMLaunchEndorsement -/

structure WfEndorsement (e : WEndorsement) : Prop where
  no_unknown : e.unknown = []

theorem endorsementFields_shape (e : WEndorsement) : ∀ f ∈ endorsementFields e, f.Shape :=
  shape_append (shape_optBytes 1 _ (numOk_lit (by decide) (by decide)))
    (shape_optBytes 2 _ (numOk_lit (by decide) (by decide)))

theorem decodeEndorsement_encode (e : WEndorsement) (hw : WfEndorsement e)
    (hsz : (encodeEndorsement e).length < 2 ^ 64) : decodeEndorsement (encodeEndorsement e) = some e := by
  unfold decodeEndorsement encodeEndorsement at *
  rw [hw.no_unknown, List.append_nil] at *
  rw [decodeInto_encFields _ _ _ (good_of_shape _ (endorsementFields_shape e) hsz)]
  unfold endorsementFields
  refine (fold_optBytes stepEndorsement 1 e.serializedUefiGolden .zero (fun p => ⟨p, [], []⟩) _ rfl rfl).trans ?_
  refine (fold_optBytes_last stepEndorsement 2 e.signature _ (fun p => ⟨e.serializedUefiGolden, p, []⟩) rfl rfl).trans ?_
  cases e
  simp only [WEndorsement.mk.injEq, Option.some.injEq, true_and]
  exact hw.no_unknown.symm

end GceTcb.ProtoWire
