import GceTcb.Model.EndorseCli
import GceTcb.Proofs.VirtualFirmware
/-
Helper lemmas about the model of the `endorse` command line (Model/EndorseCli.lean): for each phase
(flag parsing, PersistentPreRunE, InitContext) exactly when it accepts and what record it yields; no
phase panics; a refused command line has no effect; an accepted one is the pipeline on its request.
-/
namespace GceTcb.EndorseCli
open GceTcb GceTcb.Endorse GceTcb.VF

/-! ### flag parsing -/


def parsedOf (fl : CliFlags) (commit : Bytes) (ts : Int × Nat) (prod : Nat) : Parsed :=
  { addSnp := fl.addSnp, addTdx := fl.addTdx, uefiPath := fl.uefi, svsmPath := fl.svsmPath,
    svsmSnpMeasurementPath := fl.svsmSnpMeasurementPath,
    snp := ⟨0, fl.snpFamilyId, fl.snpImageId, fl.snpLaunchVmsas, prod⟩,
    tdx := ⟨0, fl.tdxIncludeEarlyAccept, fl.tdxMachineShapes⟩,
    clSpec := fl.clspec, commit := commit, candidateName := fl.candidateName,
    releaseBranch := fl.releaseBranch, commitRetries := fl.commitRetries, outDir := fl.outDir,
    dryRun := fl.dryRun, timestamp := ts, measurementOnly := fl.measurementOnly,
    snapshotDir := fl.snapshotDir, overwrite := fl.overwrite }

def numericOk (fl : CliFlags) : Prop :=
  fl.clspec < 2 ^ 64 ∧ fl.snpLaunchVmsas < 2 ^ 32 ∧ -(2 ^ 63) ≤ fl.commitRetries ∧ fl.commitRetries < 2 ^ 63

theorem parseFlags_ok_iff (P : Params) (fl : CliFlags) (f : Parsed) :
    parseFlags P fl = .ok f ↔
      numericOk fl ∧ ∃ commit ts prod, hexDecode fl.commit = some commit ∧
        timeSetAll P zeroTime fl.timestamp = .ok ts ∧
        productSetAll P defaultProduct fl.snpProduct = .ok prod ∧ f = parsedOf fl commit ts prod := by
  unfold parseFlags numericOk
  by_cases h1 : 2 ^ 64 ≤ fl.clspec
  · simp only [h1, if_true]
    constructor
    · intro h; cases h
    · rintro ⟨⟨h, _⟩, _⟩; omega
  · simp only [h1, if_false]
    by_cases h2 : 2 ^ 32 ≤ fl.snpLaunchVmsas
    · simp only [h2, if_true]
      constructor
      · intro h; cases h
      · rintro ⟨⟨_, h, _⟩, _⟩; omega
    · simp only [h2, if_false]
      by_cases h3 : fl.commitRetries < -(2 ^ 63) ∨ 2 ^ 63 ≤ fl.commitRetries
      · simp only [h3, if_true]
        constructor
        · intro h; cases h
        · rintro ⟨⟨_, _, h, h'⟩, _⟩; omega
      · simp only [h3, if_false]
        have hnum : fl.clspec < 2 ^ 64 ∧ fl.snpLaunchVmsas < 2 ^ 32 ∧ -(2 ^ 63) ≤ fl.commitRetries ∧
            fl.commitRetries < 2 ^ 63 := by omega
        cases hc : hexDecode fl.commit with
        | none =>
          simp only
          constructor
          · intro h; cases h
          · rintro ⟨_, c, _, _, h, _⟩; cases h
        | some commit =>
          simp only
          cases ht : timeSetAll P zeroTime fl.timestamp with
          | err e =>
            simp only
            constructor
            · intro h; cases h
            · rintro ⟨_, _, _, _, _, h, _⟩; cases h
          | panic s =>
            simp only
            constructor
            · intro h; cases h
            · rintro ⟨_, _, _, _, _, h, _⟩; cases h
          | ok ts =>
            simp only
            cases hp : productSetAll P defaultProduct fl.snpProduct with
            | err e =>
              simp only
              constructor
              · intro h; cases h
              · rintro ⟨_, _, _, _, _, _, h, _⟩; cases h
            | panic s =>
              simp only
              constructor
              · intro h; cases h
              · rintro ⟨_, _, _, _, _, _, h, _⟩; cases h
            | ok prod =>
              simp only [Outcome.ok.injEq]
              constructor
              · intro h
                exact ⟨hnum, commit, ts, prod, rfl, rfl, rfl, by rw [← h]; rfl⟩
              · rintro ⟨_, c, t, p, h1', h2', h3', rfl⟩
                simp only [Option.some.injEq] at h1' h2' h3'
                subst h1' h2' h3'
                rfl


theorem timeSetAll_err (P : Params) : ∀ (l : List String) (cur : Int × Nat),
    (∀ s, timeSetAll P cur l ≠ .panic s) ∧
    (∀ e, timeSetAll P cur l = .err e → e = "parse:time-already-set" ∨ e = "parse:timestamp") := by
  intro l
  induction l with
  | nil =>
    intro cur
    constructor
    · intro s h; cases h
    · intro e h; cases h
  | cons v vs ih =>
    intro cur
    unfold timeSetAll timeSet
    by_cases h1 : cur = zeroTime
    · simp only [h1, if_true]
      by_cases h2 : v = ""
      · simp only [h2, if_true]
        exact ih zeroTime
      · simp only [h2, if_false]
        cases hp : P.parseTime v with
        | none =>
          simp only
          constructor
          · intro s h; cases h
          · intro e h; cases h; exact Or.inr rfl
        | some t => exact ih t
    · simp only [h1, if_false]
      constructor
      · intro s h; cases h
      · intro e h; cases h; exact Or.inl rfl

theorem productSetAll_err (P : Params) : ∀ (l : List String) (cur : Nat),
    (∀ s, productSetAll P cur l ≠ .panic s) ∧
    (∀ e, productSetAll P cur l = .err e → e = "parse:product") := by
  intro l
  induction l with
  | nil =>
    intro cur
    constructor
    · intro s h; cases h
    · intro e h; cases h
  | cons v vs ih =>
    intro cur
    unfold productSetAll productSet
    by_cases h2 : v = ""
    · simp only [h2, if_true]
      exact ih cur
    · simp only [h2, if_false]
      cases hp : P.parseProduct v with
      | none =>
        simp only
        constructor
        · intro s h; cases h
        · intro e h; cases h; rfl
      | some t => exact ih t

theorem validateSnpFlags_ok_iff (U : String → Option Bytes) (r : SnpRequest) :
    validateSnpFlags U r = .ok () ↔ idOk U r.familyId = true ∧ idOk U r.imageId = true := by
  unfold validateSnpFlags
  cases h1 : idOk U r.familyId <;> cases h2 : idOk U r.imageId <;> simp

theorem validateSnpFlags_cases (U : String → Option Bytes) (r : SnpRequest) :
    validateSnpFlags U r = .ok () ∨ validateSnpFlags U r = .err "prerun:family_id" ∨
      validateSnpFlags U r = .err "prerun:image_id" := by
  unfold validateSnpFlags
  cases h1 : idOk U r.familyId <;> cases h2 : idOk U r.imageId <;> simp

theorem scrtmMain_cases (P : Params) (E : Env) (path : String) :
    (∃ ok v, scrtmMain P E path = .ok (ok, v)) ∨ scrtmMain P E path = .err "prerun:scrtm" := by
  unfold scrtmMain
  split
  · exact Or.inl ⟨_, _, rfl⟩
  · cases P.unmarshalScrtm (readFirst E (scrtmPaths path)) with
    | none => exact Or.inr rfl
    | some v => exact Or.inl ⟨_, _, rfl⟩

/-! ### PersistentPreRunE -/

def ecAfterPreRun (E : Env) (f : Parsed) (ok : Bool) (version : Nat) : EC :=
  { snp := if f.addSnp then some (snpWithSvn f.snp ok version) else none,
    tdx := if f.addTdx then some (tdxWithSvn f.tdx ok version) else none,
    image := [], clSpec := f.clSpec, commit := f.commit, candidateName := f.candidateName,
    releaseBranch := f.releaseBranch,
    timestamp := if f.timestamp == zeroTime then E.now else f.timestamp,
    commitRetries := f.commitRetries, outDir := f.outDir, dryRun := f.dryRun,
    measurementOnly := f.measurementOnly, snapshotDir := f.snapshotDir,
    imageName := pathBase f.uefiPath, svsmImage := [], svsmSnpMeasurement := [] }

theorem preRunE_ok_iff (P : Params) (U : String → Option Bytes) (E : Env) (f : Parsed) (ec : EC) :
    preRunE P U E f = .ok ec ↔
      f.uefiPath ≠ "" ∧ hasFdSuffix f.uefiPath = true ∧
      ∃ ok version, scrtmMain P E f.uefiPath = .ok (ok, version) ∧
        snpCheck U f.addSnp f.snp = .ok () ∧
        commitLenOk f.commit.length = true ∧ ec = ecAfterPreRun E f ok version := by
  unfold preRunE
  by_cases h1 : f.uefiPath = ""
  · simp [h1]
  · have h1' : (f.uefiPath == "") = false := by simpa using h1
    simp only [h1', Bool.false_eq_true, if_false]
    cases h2 : hasFdSuffix f.uefiPath with
    | false => simp
    | true =>
      simp only [Bool.not_true, Bool.false_eq_true, if_false, ne_eq, h1, not_false_eq_true, true_and]
      rcases scrtmMain_cases P E f.uefiPath with ⟨ok, v, hs⟩ | hs
      · rw [hs]
        simp only [Outcome.ok.injEq, Prod.mk.injEq]
        change (match snpCheck U f.addSnp f.snp with
          | .err e => Outcome.err e
          | .panic s => Outcome.panic s
          | .ok _ => _) = _ ↔ _
        cases hv : snpCheck U f.addSnp f.snp with
        | err e => simp
        | panic s => simp
        | ok u =>
          simp only [true_and]
          cases hc : commitLenOk f.commit.length with
          | false => simp
          | true =>
            simp only [Bool.not_true, Bool.false_eq_true, if_false, Outcome.ok.injEq, true_and]
            constructor
            · intro h
              exact ⟨ok, v, ⟨rfl, rfl⟩, h.symm⟩
            · rintro ⟨ok', v', ⟨rfl, rfl⟩, rfl⟩
              rfl
      · rw [hs]
        simp

/-! ### InitContext and the composition -/


theorem readSvsm_no_panic (E : Env) (p : String) : ∀ s, readSvsm E p ≠ .panic s := by
  intro s h
  unfold readSvsm at h
  split at h
  · cases h
  · split at h <;> cases h

theorem readSvsmMeasurement_no_panic (P : Params) (E : Env) (p : String) :
    ∀ s, readSvsmMeasurement P E p ≠ .panic s := by
  intro s h
  unfold readSvsmMeasurement at h
  split at h
  · cases h
  · split at h
    · cases h
    · split at h
      · cases h
      · split at h <;> cases h

theorem initContext_ok_iff (P : Params) (E : Env) (f : Parsed) (ec0 ec : EC) :
    initContext P E f ec0 = .ok ec ↔
      ∃ img svsm m, E.readFile f.uefiPath = some img ∧ readSvsm E f.svsmPath = .ok svsm ∧
        readSvsmMeasurement P E f.svsmSnpMeasurementPath = .ok m ∧
        ec = { ec0 with image := img, svsmImage := svsm, svsmSnpMeasurement := m } := by
  unfold initContext
  cases hr : E.readFile f.uefiPath with
  | none => simp
  | some img =>
    simp only [Option.some.injEq]
    cases hs : readSvsm E f.svsmPath with
    | err e => simp
    | panic s => simp
    | ok svsm =>
      simp only [Outcome.ok.injEq]
      cases hm : readSvsmMeasurement P E f.svsmSnpMeasurementPath with
      | err e => simp
      | panic s => simp
      | ok m =>
        simp only [Outcome.ok.injEq]
        constructor
        · intro h; exact ⟨img, svsm, m, rfl, rfl, rfl, h.symm⟩
        · rintro ⟨_, _, _, rfl, rfl, rfl, rfl⟩; rfl

theorem initContext_no_panic (P : Params) (E : Env) (f : Parsed) (ec0 : EC) :
    ∀ s, initContext P E f ec0 ≠ .panic s := by
  intro s h
  unfold initContext at h
  cases hr : E.readFile f.uefiPath with
  | none => rw [hr] at h; cases h
  | some img =>
    rw [hr] at h
    simp only at h
    cases hs : readSvsm E f.svsmPath with
    | err e => rw [hs] at h; cases h
    | panic s2 => exact readSvsm_no_panic E _ s2 hs
    | ok svsm =>
      rw [hs] at h
      simp only at h
      cases hm : readSvsmMeasurement P E f.svsmSnpMeasurementPath with
      | err e => rw [hm] at h; cases h
      | panic s2 => exact readSvsmMeasurement_no_panic P E _ s2 hm
      | ok m => rw [hm] at h; cases h

theorem ecOf_ok_iff (P : Params) (U : String → Option Bytes) (E : Env) (fl : CliFlags) (ec : EC) (ow : Bool) :
    ecOf P U E fl = .ok (ec, ow) ↔
      ∃ f ec0, parseFlags P fl = .ok f ∧ E.globalPre = true ∧ preRunE P U E f = .ok ec0 ∧ E.appPre = true ∧
        E.globalInit = true ∧ initContext P E f ec0 = .ok ec ∧ E.appInit = true ∧ ow = f.overwrite := by
  unfold ecOf composedPreRun composedInit
  cases hp : parseFlags P fl with
  | err e => simp
  | panic s => simp
  | ok f =>
    simp only [Outcome.ok.injEq, exists_and_left, exists_eq_left']
    cases hg : E.globalPre with
    | false => simp
    | true =>
      simp only [Bool.not_true, Bool.false_eq_true, if_false, true_and]
      cases hpre : preRunE P U E f with
      | err e => simp
      | panic s => simp
      | ok ec0 =>
        simp only [Outcome.ok.injEq, exists_eq_left']
        cases ha : E.appPre with
        | false => simp
        | true =>
          simp only [Bool.not_true, Bool.false_eq_true, if_false, true_and]
          cases hgi : E.globalInit with
          | false => simp
          | true =>
            simp only [Bool.not_true, Bool.false_eq_true, if_false, true_and]
            cases hi : initContext P E f ec0 with
            | err e => simp
            | panic s => simp
            | ok ec1 =>
              simp only [Outcome.ok.injEq]
              cases hai : E.appInit with
              | false => simp
              | true =>
                simp only [Bool.not_true, Bool.false_eq_true, if_false, Outcome.ok.injEq, Prod.mk.injEq, true_and]
                constructor
                · rintro ⟨rfl, rfl⟩; exact ⟨rfl, rfl⟩
                · rintro ⟨rfl, rfl⟩; exact ⟨rfl, rfl⟩

/-! ### no phase of the command panics in its own code -/

theorem parseFlags_no_panic (P : Params) (fl : CliFlags) : ∀ s, parseFlags P fl ≠ .panic s := by
  intro s h
  unfold parseFlags at h
  split at h
  · cases h
  · split at h
    · cases h
    · split at h
      · cases h
      · cases hc : hexDecode fl.commit with
        | none => rw [hc] at h; cases h
        | some c =>
          rw [hc] at h
          simp only at h
          cases ht : timeSetAll P zeroTime fl.timestamp with
          | err e => rw [ht] at h; cases h
          | panic s2 => exact (timeSetAll_err P _ _).1 s2 ht
          | ok ts =>
            rw [ht] at h
            simp only at h
            cases hpr : productSetAll P defaultProduct fl.snpProduct with
            | err e => rw [hpr] at h; cases h
            | panic s2 => exact (productSetAll_err P _ _).1 s2 hpr
            | ok p => rw [hpr] at h; cases h

theorem snpCheck_cases (U : String → Option Bytes) (a : Bool) (r : SnpRequest) :
    snpCheck U a r = .ok () ∨ snpCheck U a r = .err "prerun:family_id" ∨
      snpCheck U a r = .err "prerun:image_id" := by
  unfold snpCheck
  cases a
  · exact Or.inl rfl
  · exact validateSnpFlags_cases U r

theorem preRunE_no_panic (P : Params) (U : String → Option Bytes) (E : Env) (f : Parsed) :
    ∀ s, preRunE P U E f ≠ .panic s := by
  intro s h
  unfold preRunE at h
  split at h
  · cases h
  · split at h
    · cases h
    · rcases scrtmMain_cases P E f.uefiPath with ⟨ok, v, hs⟩ | hs
      · rw [hs] at h
        simp only at h
        rcases snpCheck_cases U f.addSnp f.snp with hv | hv | hv
        · rw [hv] at h
          simp only at h
          split at h <;> cases h
        · rw [hv] at h; cases h
        · rw [hv] at h; cases h
      · rw [hs] at h; cases h

theorem composedPreRun_no_panic (P : Params) (U : String → Option Bytes) (E : Env) (f : Parsed) :
    ∀ s, composedPreRun P U E f ≠ .panic s := by
  intro s h
  unfold composedPreRun at h
  cases hg : E.globalPre with
  | false => rw [hg] at h; cases h
  | true =>
    rw [hg] at h
    simp only [Bool.not_true, Bool.false_eq_true, if_false] at h
    cases hpre : preRunE P U E f with
    | err e => rw [hpre] at h; cases h
    | panic s' => exact preRunE_no_panic P U E f s' hpre
    | ok ec0 =>
      rw [hpre] at h
      simp only at h
      split at h <;> cases h

theorem composedInit_no_panic (P : Params) (E : Env) (f : Parsed) (ec0 : EC) :
    ∀ s, composedInit P E f ec0 ≠ .panic s := by
  intro s h
  unfold composedInit at h
  cases hg : E.globalInit with
  | false => rw [hg] at h; cases h
  | true =>
    rw [hg] at h
    simp only [Bool.not_true, Bool.false_eq_true, if_false] at h
    cases hi : initContext P E f ec0 with
    | err e => rw [hi] at h; cases h
    | panic s' => exact initContext_no_panic P E f ec0 s' hi
    | ok ec1 =>
      rw [hi] at h
      simp only at h
      split at h <;> cases h

/-- The command never panics in its own code: every refusal is an error value. -/
theorem ecOf_no_panic (P : Params) (U : String → Option Bytes) (E : Env) (fl : CliFlags) :
    ∀ s, ecOf P U E fl ≠ .panic s := by
  intro s h
  unfold ecOf at h
  cases hp : parseFlags P fl with
  | err e => rw [hp] at h; cases h
  | panic s' => exact parseFlags_no_panic P fl s' hp
  | ok f =>
    rw [hp] at h
    simp only at h
    cases hpre : composedPreRun P U E f with
    | err e => rw [hpre] at h; cases h
    | panic s' => exact composedPreRun_no_panic P U E f s' hpre
    | ok ec0 =>
      rw [hpre] at h
      simp only at h
      cases hi : composedInit P E f ec0 with
      | err e => rw [hi] at h; cases h
      | panic s' => exact composedInit_no_panic P E f ec0 s' hi
      | ok ec1 => rw [hi] at h; cases h

/-! ### acceptance, explicitly -/


/-- The endorse.Context an accepted command line hands to the pipeline, from the command line `fl`, the
    three decoded flag values, the side-file result `(ok, v)` and the three file contents. -/
def ecFinal (E : Env) (fl : CliFlags) (commit : Bytes) (ts : Int × Nat) (prod : Nat) (ok : Bool) (v : Nat)
    (img svsm m : Bytes) : EC :=
  { ecAfterPreRun E (parsedOf fl commit ts prod) ok v with image := img, svsmImage := svsm, svsmSnpMeasurement := m }

/-- Everything an accepted command line has passed, phase by phase. -/
structure Accepted (P : Params) (U : String → Option Bytes) (E : Env) (fl : CliFlags)
    (commit : Bytes) (ts : Int × Nat) (prod : Nat) (ok : Bool) (v : Nat) (img svsm m : Bytes) : Prop where
  numeric : numericOk fl
  commitHex : hexDecode fl.commit = some commit
  time : timeSetAll P zeroTime fl.timestamp = .ok ts
  product : productSetAll P defaultProduct fl.snpProduct = .ok prod
  globalPre : E.globalPre = true
  uefiGiven : fl.uefi ≠ ""
  uefiSuffix : hasFdSuffix fl.uefi = true
  sideFile : scrtmMain P E fl.uefi = .ok (ok, v)
  ids : snpCheck U fl.addSnp ⟨0, fl.snpFamilyId, fl.snpImageId, fl.snpLaunchVmsas, prod⟩ = .ok ()
  commitLen : commitLenOk commit.length = true
  appPre : E.appPre = true
  globalInit : E.globalInit = true
  image : E.readFile fl.uefi = some img
  svsmImage : readSvsm E fl.svsmPath = .ok svsm
  svsmMeasurement : readSvsmMeasurement P E fl.svsmSnpMeasurementPath = .ok m
  appInit : E.appInit = true

theorem ecOf_ok_explicit (P : Params) (U : String → Option Bytes) (E : Env) (fl : CliFlags) (ec : EC) (ow : Bool) :
    ecOf P U E fl = .ok (ec, ow) ↔
      ∃ commit ts prod ok v img svsm m, Accepted P U E fl commit ts prod ok v img svsm m ∧
        ec = ecFinal E fl commit ts prod ok v img svsm m ∧ ow = fl.overwrite := by
  rw [ecOf_ok_iff]
  constructor
  · rintro ⟨f, ec0, hp, hg, hpre, ha, hgi, hi, hai, rfl⟩
    obtain ⟨hnum, commit, ts, prod, hc, ht, hpr, rfl⟩ := (parseFlags_ok_iff P fl f).mp hp
    obtain ⟨hu, hs, ok, v, hsm, hid, hcl, rfl⟩ := (preRunE_ok_iff P U E _ ec0).mp hpre
    obtain ⟨img, svsm, m, hr, hsv, hm, rfl⟩ := (initContext_ok_iff P E _ _ ec).mp hi
    exact ⟨commit, ts, prod, ok, v, img, svsm, m,
      ⟨hnum, hc, ht, hpr, hg, hu, hs, hsm, hid, hcl, ha, hgi, hr, hsv, hm, hai⟩, rfl, rfl⟩
  · rintro ⟨commit, ts, prod, ok, v, img, svsm, m, A, rfl, rfl⟩
    refine ⟨parsedOf fl commit ts prod, ecAfterPreRun E (parsedOf fl commit ts prod) ok v, ?_, A.globalPre, ?_,
      A.appPre, A.globalInit, ?_, A.appInit, rfl⟩
    · exact (parseFlags_ok_iff P fl _).mpr ⟨A.numeric, commit, ts, prod, A.commitHex, A.time, A.product, rfl⟩
    · exact (preRunE_ok_iff P U E _ _).mpr ⟨A.uefiGiven, A.uefiSuffix, ok, v, A.sideFile, A.ids, A.commitLen, rfl⟩
    · exact (initContext_ok_iff P E _ _ _).mpr ⟨img, svsm, m, A.image, A.svsmImage, A.svsmMeasurement, rfl⟩


theorem ecFinal_snp (E : Env) (fl : CliFlags) (commit : Bytes) (ts : Int × Nat) (prod : Nat) (ok : Bool) (v : Nat)
    (img svsm m : Bytes) :
    (ecFinal E fl commit ts prod ok v img svsm m).snp =
      if fl.addSnp = true then
        some ⟨if ok = true then v else 0, fl.snpFamilyId, fl.snpImageId, fl.snpLaunchVmsas, prod⟩
      else none := by
  cases ok <;> rfl

theorem ecFinal_tdx (E : Env) (fl : CliFlags) (commit : Bytes) (ts : Int × Nat) (prod : Nat) (ok : Bool) (v : Nat)
    (img svsm m : Bytes) :
    (ecFinal E fl commit ts prod ok v img svsm m).tdx =
      if fl.addTdx = true then
        some ⟨if ok = true then v else 0, fl.tdxIncludeEarlyAccept, fl.tdxMachineShapes⟩
      else none := by
  cases ok <;> rfl

theorem ecFinal_timestamp (E : Env) (fl : CliFlags) (commit : Bytes) (ts : Int × Nat) (prod : Nat) (ok : Bool)
    (v : Nat) (img svsm m : Bytes) :
    (ecFinal E fl commit ts prod ok v img svsm m).timestamp = if ts = zeroTime then E.now else ts := by
  show (if (ts == zeroTime) = true then E.now else ts) = _
  by_cases h : ts = zeroTime
  · simp [h]
  · simp [h]

/-! ### the run -/

/-- A refused command line has no effect at all. -/
theorem cliRun_refused (P : Params) (Pr : Prims) (T : Tables) (E : Env) (fl : CliFlags) (keys : Option Keys)
    (vcs : Option (List Commit.Attempt)) (vcss : List (List Commit.Attempt))
    (h : (ecOf P Pr.parseUuid E fl).isOk = false) :
    (cliRun P Pr T E fl keys vcs vcss).effects = [] ∧ (cliRun P Pr T E fl keys vcs vcss).result.isOk = false := by
  unfold cliRun contextOf
  cases he : ecOf P Pr.parseUuid E fl with
  | ok v => rw [he] at h; cases h
  | err e => exact ⟨rfl, rfl⟩
  | panic s => exact ⟨rfl, rfl⟩

/-- An accepted command line runs the pipeline on the request built from its endorse.Context. -/
theorem cliRun_accepted (P : Params) (Pr : Prims) (T : Tables) (E : Env) (fl : CliFlags) (keys : Option Keys)
    (vcs : Option (List Commit.Attempt)) (vcss : List (List Commit.Attempt)) (ec : EC) (ow : Bool)
    (h : ecOf P Pr.parseUuid E fl = .ok (ec, ow)) :
    cliRun P Pr T E fl keys vcs vcss =
      virtualFirmware false Pr T (ctxOf E ec) keys ec.timestamp
        ⟨ec.measurementOnly, launchVmsasOf ec.snp, ec.commitRetries, cfgOf E ow ec⟩ vcs vcss := by
  unfold cliRun contextOf
  rw [h]
  rfl

/-! ### definitions used in the statements and examples of Props/C06Cli and Props/C15Cli -/

/-- What the side files say: the version in the first spelling that can be read, 0 when neither can or that file
    is empty (an empty file IS the encoding of version 0). -/
def sideSvn (P : Params) (E : Env) (uefi : String) : Nat :=
  match scrtmMain P E uefi with
  | .ok (true, v) => v
  | _ => 0

def sidePath1 (uefi : String) : String := String.ofList (trimSuffix ".fd".toList uefi.toList) ++ "_scrtm_ver.pb"
def sidePath2 (uefi : String) : String := uefi ++ ".scrtm.pb"


/-! #### example command lines (non-vacuity) -/

def exParams : Params :=
  { parseProduct := fun s => (productTable.find? (fun q => q.1 == s)).map (·.2)
    parseTime := fun s => if s == "T" then some (1700000000, 5) else none
    unmarshalScrtm := unmarshalScrtmWire
    decodeHexText := fun b => some b }

def exEnv : Env :=
  { readFile := fun p =>
      if p == "d.fd.x/fw.fd" then some [0xAA]
      else if p == "d.fd.x/fw_scrtm_ver.pb" then some [8, 5]
      else if p == "d.fd.x/fw.fd.scrtm.pb" then some [8, 9]
      else none
    now := (42, 0), rndImageId := "$", root := "R" }

def exFlags : CliFlags :=
  { addSnp := true, addTdx := true, uefi := "d.fd.x/fw.fd", snpProduct := ["", "Genoa"], snpLaunchVmsas := 2,
    tdxMachineShapes := ["c3-standard-4"], clspec := 77, timestamp := [], outDir := "out", commit := "" }

def errClass (o : Outcome (EC × Bool)) : String :=
  match o with
  | .err e => e
  | .ok _ => "accepted"
  | .panic _ => "panic"

def exParams15 : Params :=
  { parseProduct := fun s => (productTable.find? (fun q => q.1 == s)).map (·.2)
    parseTime := fun _ => none
    unmarshalScrtm := unmarshalScrtmWire
    decodeHexText := fun b => some b }

def exEnv15 : Env :=
  { readFile := fun p => if p == "fw.fd" then some [9] else if p == "fw_scrtm_ver.pb" then some [8, 3] else none
    now := (5, 0), rndImageId := "87654321-dead-beef-c0de-123456789abc", root := "R" }

def exFlags15 (dry mo : Bool) : CliFlags :=
  { addSnp := true, addTdx := true, uefi := "fw.fd", tdxMachineShapes := ["c3-standard-4"], outDir := "out",
    candidateName := "rc0", dryRun := dry, measurementOnly := mo }


end GceTcb.EndorseCli
