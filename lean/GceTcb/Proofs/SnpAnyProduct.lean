import GceTcb.Proofs.SnpDigest
/-
C04 — what sev.LaunchDigest did, BEFORE the product-check fix, for ANY product value, supported or
not: every theorem here is about the model variant `SevLd.launchDigestOld` (the measurement without the
product check).  `bitWidth[product]` reads 0
for a product that is not a key of the map; `ProductHighAddress` is then 0 and the range check
`gpa > high + 0x1000 − len` is evaluated in wrapping uint64 arithmetic.  The general theorem
characterises acceptance by the three checks of checkUpdateDataGuestMemoryAlignment as the code
evaluates them, and the digest as the chain with every VMSA page at `ProductHighAddress`; the
corollary spells the checks out for width 0.  Core only.
-/
namespace GceTcb.Proofs.SnpAnyProduct
open GceTcb GceTcb.Codec GceTcb.GuidTable GceTcb.SevMeta GceTcb.SevLd
open GceTcb.Codecs (ResetBlock zeros)
open GceTcb.Proofs.SnpSections (Sec SectionsValid validateSections_ok_iff validateSections_no_panic)
open GceTcb.Proofs.SnpChain
open GceTcb.Proofs.SnpDigest (CfgIsSpec Accepts measureVmsa_cons measureVmsa_replicate prepareVmsas_eq)
open GceTcb.Proofs.SnpVmsa (bspVmsa apVmsa putVmsa_bsp putVmsa_ap)
open GceTcb.Spec.SnpLaunch (Page launchUpdate vmsaPage)

/-- the digest chain with the VMSA pages at guest-physical address `high`
    (`Spec.SnpLaunch.snpSpec` is this chain at `Spec.SnpLaunch.productHigh width`) -/
def chainAt (H : Bytes → Bytes) (fw : Bytes) (secs : List Spec.SnpLaunch.Section) (resetAddr vcpus high : Nat) : Bytes :=
  (Spec.SnpLaunch.romPages fw ++ secs.flatMap Spec.SnpLaunch.sectionPages ++
    Spec.SnpLaunch.vmsaPages resetAddr vcpus high).foldl (launchUpdate H) (Spec.SnpLaunch.zeros 48)

theorem snpSpec_eq_chainAt (H : Bytes → Bytes) (fw : Bytes) (secs : List Spec.SnpLaunch.Section) (resetAddr vcpus w : Nat) :
    Spec.SnpLaunch.snpSpec H fw secs resetAddr vcpus w = chainAt H fw secs resetAddr vcpus (Spec.SnpLaunch.productHigh w) := rfl

theorem productHigh_facts (w : Nat) : productHigh w % 4096 = 0 ∧ productHigh w < 2 ^ 64 := by
  unfold productHigh
  generalize 2 ^ w % 2 ^ 64 = P
  simp only
  omega

theorem checkAlign_none {high gpa len : Nat} (h : checkAlign high gpa len = none) :
    gpa % 4096 = 0 ∧ len % 4096 = 0 ∧ gpa ≤ (high + 0x1000 + 2 ^ 64 - len) % 2 ^ 64 := by
  unfold checkAlign at h
  split at h; · cases h
  split at h; · cases h
  split at h; · cases h
  omega

theorem checkAlign_none_iff (high gpa len : Nat) :
    checkAlign high gpa len = none ↔ gpa % 4096 = 0 ∧ len % 4096 = 0 ∧ gpa ≤ (high + 0x1000 + 2 ^ 64 - len) % 2 ^ 64 := by
  refine ⟨checkAlign_none, fun ⟨h1, h2, h3⟩ => ?_⟩
  unfold checkAlign
  rw [if_neg (by omega), if_neg (by omega), if_neg (by omega)]

theorem checkAlign_err {high gpa len : Nat} (h : checkAlign high gpa len ≠ none) : ∃ c, checkAlign high gpa len = some c := by
  cases hc : checkAlign high gpa len with
  | none => exact absurd hc h
  | some c => exact ⟨c, rfl⟩

/-- Update on the ROM for any `high`, images up to 4 GiB -/
theorem update_rom_any (H : Bytes → Bytes) (hH : ∀ x, (H x).length = 48) (high : Nat) (fw : Bytes) (hb : fw.length ≤ 2 ^ 32)
    (hc : checkAlign high (romBase fw.length) (fw.length % 2 ^ 32) = none) :
    update H high zeros48 (romBase fw.length) fw pageTypeNormal
      = .ok ((Spec.SnpLaunch.romPages fw).foldl (launchUpdate H) (Spec.SnpLaunch.zeros 48)) := by
  obtain ⟨_, ha, _⟩ := checkAlign_none hc
  unfold update
  rw [hc]
  simp only
  have hk : (fw.length + 4095) / 4096 = fw.length / 4096 := by omega
  rw [hk, updatePages_eq H hH pageTypeNormal _ (by decide) fw _ 0 zeros48 List.length_replicate (by omega),
    romPages_eq fw hb]
  rfl

theorem zeroContentUpdate_any (H : Bytes → Bytes) (hH : ∀ x, (H x).length = 48) (high : Nat) (s : Sec)
    (hk : KindKnown s) (ha : s.address < 2 ^ 32) (hl : s.length < 2 ^ 32) (d : Bytes) (hd : d.length = 48)
    (hc : checkAlign high s.address s.length = none) :
    zeroContentUpdate H high d s.address s.length (Spec.SnpLaunch.kindPageType s.kind)
      = .ok ((Spec.SnpLaunch.sectionPages (toSpec s)).foldl (launchUpdate H) d) := by
  obtain ⟨_, hlt, hn2, hn1, hin⟩ := sectionPageType_some s.kind hk
  obtain ⟨_, h5, _⟩ := checkAlign_none hc
  unfold zeroContentUpdate
  rw [if_neg hn2, if_neg hn1, if_neg (fun hn => hn hin), hc]
  simp only
  have ht : tripCount s.address ((s.address + s.length) % 2 ^ 64) = s.length / 4096 := by
    unfold tripCount; omega
  rw [ht, zeroPages_eq H hH _ hlt _ _ d hd (by omega)]
  rfl

/-- what the section loop requires of a descriptor, for the code's `high` -/
def SecPasses (high : Nat) (s : Sec) : Prop := KindKnown s ∧ checkAlign high s.address s.length = none

theorem measureSections_any (H : Bytes → Bytes) (hH : ∀ x, (H x).length = 48) (high : Nat)
    (secs : List Sec) (hr : ∀ s ∈ secs, SecInRange s) (d : Bytes) (hd : d.length = 48) (d' : Bytes) :
    measureSections H high secs d = .ok d' ↔
      (∀ s ∈ secs, SecPasses high s) ∧
      d' = ((secs.map toSpec).flatMap Spec.SnpLaunch.sectionPages).foldl (launchUpdate H) d := by
  induction secs generalizing d with
  | nil =>
    simp only [measureSections, List.not_mem_nil, false_implies, implies_true, true_and, List.map_nil,
      List.flatMap_nil, List.foldl_nil]
    constructor
    · intro h; cases h; rfl
    · rintro rfl; rfl
  | cons s rest ih =>
    have hrs := hr s List.mem_cons_self
    have hrr : ∀ x ∈ rest, SecInRange x := fun x hx => hr x (List.mem_cons_of_mem _ hx)
    unfold measureSections
    by_cases hk : KindKnown s
    · obtain ⟨hpt, _⟩ := sectionPageType_some s.kind hk
      rw [hpt]
      simp only
      by_cases hal : checkAlign high s.address s.length = none
      · rw [zeroContentUpdate_any H hH high s hk hrs.1 hrs.2 d hd hal]
        simp only
        rw [ih hrr _ (foldl_launchUpdate_length H hH _ d hd)]
        simp only [List.map_cons, List.flatMap_cons, List.foldl_append]
        constructor
        · rintro ⟨hm, rfl⟩
          refine ⟨?_, rfl⟩
          intro x hx
          rcases List.mem_cons.mp hx with rfl | hx
          · exact ⟨hk, hal⟩
          · exact hm x hx
        · rintro ⟨hm, rfl⟩
          exact ⟨fun x hx => hm x (List.mem_cons_of_mem _ hx), rfl⟩
      · have hz : ∃ c, zeroContentUpdate H high d s.address s.length (Spec.SnpLaunch.kindPageType s.kind) = .err c := by
          obtain ⟨_, hlt, hn2, hn1, hin⟩ := sectionPageType_some s.kind hk
          obtain ⟨c, hc⟩ := checkAlign_err hal
          unfold zeroContentUpdate
          rw [if_neg hn2, if_neg hn1, if_neg (fun hn => hn hin), hc]
          exact ⟨c, rfl⟩
        obtain ⟨c, hz⟩ := hz
        rw [hz]
        simp only
        constructor
        · intro h; cases h
        · rintro ⟨hm, _⟩
          exact absurd (hm s List.mem_cons_self).2 hal
    · rw [sectionPageType_none s.kind hk]
      simp only
      constructor
      · intro h; cases h
      · rintro ⟨hm, _⟩
        exact absurd (hm s List.mem_cons_self).1 hk

/-- what sev.LaunchDigest requires for the address `high` it computes from the product -/
structure AcceptsAt (high : Nat) (o : Opts) (fw : Bytes) (rb : ResetBlock) (secs : List Sec) : Prop where
  vcpus : 1 ≤ o.vcpus
  parsed : extractFromFirmware true true fw = .ok (some rb, some secs)
  rom : checkAlign high (romBase fw.length) (fw.length % 2 ^ 32) = none
  valid : SectionsValid secs
  measurable : ∀ s ∈ secs, SecPasses high s

/-- **The pre-repair sev.LaunchDigest for every product value** (images up to 4 GiB): it returns `d` exactly when the vCPU
    count is at least 1, the image parses, the ROM range and every section range pass the three checks of
    checkUpdateDataGuestMemoryAlignment evaluated at `high = ProductHighAddress(product)` in uint64
    arithmetic, the metadata is valid and every kind known — and `d` is the digest chain with all VMSA pages
    at `high`. -/
theorem launchDigestOld_any (H : Bytes → Bytes) (hH : ∀ x, (H x).length = 48) (c : Cfg) (hc : CfgIsSpec c)
    (o : Opts) (fw : Bytes) (hfw : fw.length ≤ 2 ^ 32) (d : Bytes) :
    launchDigestOld H c o fw = .ok d ↔
      ∃ rb secs, AcceptsAt (productHigh (c.width o.product)) o fw rb secs ∧
        d = chainAt H fw (secs.map toSpec) rb.addr o.vcpus.toNat (productHigh (c.width o.product)) := by
  unfold launchDigestOld launchDigestBody
  by_cases hv : o.vcpus < 1
  · rw [if_pos hv]
    constructor
    · intro h; cases h
    · rintro ⟨rb, secs, ha, _⟩; have := ha.vcpus; omega
  · rw [if_neg hv]
    rcases SnpTotal.extractFromFirmware_tt fw with ⟨e, he⟩ | ⟨rb, secs, hp, _, hr⟩
    · rw [he]
      constructor
      · intro h; cases h
      · rintro ⟨rb, secs, ha, _⟩; have := ha.parsed; rw [he] at this; cases this
    · rw [hp]
      simp only
      have hrange : ∀ s ∈ secs, SecInRange s := fun s hs => ⟨(hr s hs).1, (hr s hs).2.1⟩
      have huniq : ∀ rb' secs', AcceptsAt (productHigh (c.width o.product)) o fw rb' secs' → rb' = rb ∧ secs' = secs := by
        intro rb' secs' ha
        have := ha.parsed; rw [hp] at this
        injection this with this
        injection this with h1 h2
        injection h1 with h1; injection h2 with h2
        exact ⟨h1.symm, h2.symm⟩
      obtain ⟨h4, hlt⟩ := productHigh_facts (c.width o.product)
      generalize productHigh (c.width o.product) = high at *
      unfold measureUefi
      by_cases hrom : checkAlign high (romBase fw.length) (fw.length % 2 ^ 32) = none
      · rw [update_rom_any H hH high fw hfw hrom]
        simp only [measureZeroContentUefiPages, Option.getD_some]
        have hd0 : ((Spec.SnpLaunch.romPages fw).foldl (launchUpdate H) (Spec.SnpLaunch.zeros 48)).length = 48 :=
          foldl_launchUpdate_length H hH _ _ List.length_replicate
        cases hvs : validateSections secs with
        | panic p => exact absurd hvs (validateSections_no_panic secs p)
        | err e =>
          simp only
          constructor
          · intro h; cases h
          · rintro ⟨rb', secs', ha, _⟩
            obtain ⟨_, rfl⟩ := huniq rb' secs' ha
            have := (validateSections_ok_iff secs').mpr ha.valid
            rw [hvs] at this; cases this
        | ok u =>
          have hvalid := (validateSections_ok_iff secs).mp (by rw [hvs])
          simp only
          cases hms : measureSections H high secs
              ((Spec.SnpLaunch.romPages fw).foldl (launchUpdate H) (Spec.SnpLaunch.zeros 48)) with
          | panic p => exact absurd hms (measureSections_no_panic H _ secs _ p)
          | err e =>
            simp only
            constructor
            · intro h; cases h
            · rintro ⟨rb', secs', ha, _⟩
              obtain ⟨_, rfl⟩ := huniq rb' secs' ha
              have := (measureSections_any H hH high secs' hrange _ hd0 _).mpr ⟨ha.measurable, rfl⟩
              rw [hms] at this; cases this
          | ok d1 =>
            obtain ⟨hm, hd1⟩ := (measureSections_any H hH high secs hrange _ hd0 d1).mp hms
            simp only
            have hvc : 1 ≤ o.vcpus := by omega
            rw [prepareVmsas_eq c.template hc.template o.vcpus hvc rb]
            simp only
            have hd1l : d1.length = 48 := by rw [hd1]; exact foldl_launchUpdate_length H hH _ _ hd0
            have hb : putVmsa c.layout c.sizeofVmsa bspVmsa zeroPage = .ok (Spec.SnpLaunch.vmsaBytes Spec.SnpLaunch.bspState) := by
              rw [hc.layout, hc.size, zeroPage_eq]; exact putVmsa_bsp
            have hap : putVmsa c.layout c.sizeofVmsa (apVmsa rb) zeroPage = .ok (Spec.SnpLaunch.vmsaBytes (Spec.SnpLaunch.apState rb.addr)) := by
              rw [hc.layout, hc.size, zeroPage_eq]; exact putVmsa_ap rb
            rw [measureVmsa_cons H hH c _ h4 hlt bspVmsa _ hb _ d1 hd1l,
              measureVmsa_replicate H hH c _ h4 hlt (apVmsa rb) _ hap _ _ (launchUpdate_length H hH _ _)]
            have hspec : chainAt H fw (secs.map toSpec) rb.addr o.vcpus.toNat high
                = (List.replicate (o.vcpus.toNat - 1) (vmsaPage high (Spec.SnpLaunch.apState rb.addr))).foldl
                    (launchUpdate H) (launchUpdate H d1 (vmsaPage high Spec.SnpLaunch.bspState)) := by
              unfold chainAt Spec.SnpLaunch.vmsaPages
              rw [List.foldl_append, List.foldl_append, ← hd1]
              rfl
            constructor
            · intro h
              injection h with h
              refine ⟨rb, secs, ⟨hvc, hp, hrom, hvalid, hm⟩, ?_⟩
              rw [hspec, ← h]
            · rintro ⟨rb', secs', ha, hd⟩
              obtain ⟨rfl, rfl⟩ := huniq rb' secs' ha
              rw [hd, hspec]
      · obtain ⟨e, he⟩ := checkAlign_err hrom
        have : update H high zeros48 (romBase fw.length) fw pageTypeNormal = .err e := by
          unfold update; rw [he]
        rw [this]
        simp only
        constructor
        · intro h; cases h
        · rintro ⟨rb', secs', ha, _⟩
          exact absurd ha.rom hrom

/-! ### width 0: a product that is not a key of `bitWidth` -/

theorem productHigh_zero : productHigh 0 = 0 := by decide

/-- the ROM check at `high = 0`: whole pages, and at least TWO of them (for one page `0 + 0x1000 − 0x1000 = 0`
    and the ROM's address is above 0; from two pages on the right-hand side wraps around 2^64) -/
theorem checkAlign_rom_zero (len : Nat) (hlen : len ≤ 2 ^ 32) :
    checkAlign 0 (romBase len) (len % 2 ^ 32) = none ↔ len % 4096 = 0 ∧ 0x2000 ≤ len := by
  rw [checkAlign_none_iff]
  unfold romBase
  omega

/-- a section range at `high = 0`: page-aligned, and either at least two pages long, or one page at address 0,
    or empty at address 0 or 0x1000 -/
theorem checkAlign_sec_zero (a l : Nat) (ha : a < 2 ^ 32) (hl : l < 2 ^ 32) :
    checkAlign 0 a l = none ↔ a % 4096 = 0 ∧ l % 4096 = 0 ∧ (0x2000 ≤ l ∨ (l = 0x1000 ∧ a = 0) ∨ (l = 0 ∧ a ≤ 0x1000)) := by
  rw [checkAlign_none_iff]
  omega

/-- **An unsupported product** (`bitWidth[product]` reads 0), images up to 4 GiB: the pre-repair
    sev.LaunchDigest did not refuse the product.  It returned a digest exactly for the images `Accepts` describes whose ROM has at least
    two pages and whose every metadata range has at least two pages or starts at address 0 — and the digest is
    the chain with all VMSA pages at guest-physical address 0 (`snpSpec … 0`), which is the launch digest of no
    AMD product.  Every other image is refused (one-page ranges above address 0 with the message "address range
    is larger than the product can represent"). -/
theorem launchDigestOld_width_zero (H : Bytes → Bytes) (hH : ∀ x, (H x).length = 48) (c : Cfg) (hc : CfgIsSpec c)
    (o : Opts) (hw0 : c.width o.product = 0) (fw : Bytes) (hfw : fw.length ≤ 2 ^ 32) (d : Bytes) :
    launchDigestOld H c o fw = .ok d ↔
      ∃ rb secs, Accepts o fw rb secs ∧ 0x2000 ≤ fw.length ∧ (∀ s ∈ secs, 0x2000 ≤ s.length ∨ s.address = 0) ∧
        d = Spec.SnpLaunch.snpSpec H fw (secs.map toSpec) rb.addr o.vcpus.toNat 0 := by
  rw [launchDigestOld_any H hH c hc o fw hfw d, hw0, productHigh_zero]
  have hsp : Spec.SnpLaunch.productHigh 0 = 0 := by decide
  have hinr : ∀ rb secs, extractFromFirmware true true fw = .ok (some rb, some secs) →
      ∀ s ∈ secs, s.address < 2 ^ 32 ∧ s.length < 2 ^ 32 := by
    intro rb secs hp
    rcases SnpTotal.extractFromFirmware_tt fw with ⟨e, he⟩ | ⟨rb', secs', hp', _, hr⟩
    · rw [he] at hp; cases hp
    · rw [hp] at hp'
      injection hp' with hp'; injection hp' with _ h2; injection h2 with h2; subst h2
      exact fun s hs => ⟨(hr s hs).1, (hr s hs).2.1⟩
  constructor
  · rintro ⟨rb, secs, ha, rfl⟩
    have hrom := (checkAlign_rom_zero fw.length hfw).mp ha.rom
    have hr := hinr rb secs ha.parsed
    refine ⟨rb, secs, ⟨ha.vcpus, ha.parsed, hrom.1, hfw, ha.valid, ?_⟩, hrom.2, ?_, ?_⟩
    · intro s hs
      obtain ⟨hk, hca⟩ := ha.measurable s hs
      exact ⟨hk, ((checkAlign_sec_zero _ _ (hr s hs).1 (hr s hs).2).mp hca).1⟩
    · intro s hs
      obtain ⟨_, hca⟩ := ha.measurable s hs
      have h := (checkAlign_sec_zero _ _ (hr s hs).1 (hr s hs).2).mp hca
      have hl := ha.valid.lengths s hs
      unfold SnpSections.LenOK at hl
      omega
    · rw [snpSpec_eq_chainAt, hsp]
  · rintro ⟨rb, secs, ha, h2, hs2, rfl⟩
    have hr := hinr rb secs ha.parsed
    refine ⟨rb, secs, ⟨ha.vcpus, ha.parsed, (checkAlign_rom_zero fw.length hfw).mpr ⟨ha.romAligned, h2⟩, ha.valid, ?_⟩, ?_⟩
    · intro s hs
      refine ⟨(ha.measurable s hs).1, (checkAlign_sec_zero _ _ (hr s hs).1 (hr s hs).2).mpr ?_⟩
      have hl := ha.valid.lengths s hs
      have h3 := hs2 s hs
      have h4 := (ha.measurable s hs).2
      unfold SnpSections.LenOK at hl
      omega
    · rw [snpSpec_eq_chainAt, hsp]

end GceTcb.Proofs.SnpAnyProduct
