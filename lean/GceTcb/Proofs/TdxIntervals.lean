import GceTcb.Model.Intervals
import GceTcb.Spec.Intervals
/-
C05 — proofs about ovmf.unacceptedMemRanges: the literal wrap-faithful loop (`Model/Intervals.lean`)
equals, when no region overflows 64 bits, the structurally recursive no-wrap form `scan`
(DESIGN Appendix B.1), which is characterised pointwise and shown to emit a canonical list; the
specification's fold of cuts is canonical with the same points; canonical lists with the same points
are equal.  Core-only.
-/
namespace GceTcb.Intervals
open GceTcb.Spec.Intervals

/-! ## predicates -/

/-- `x` lies in the region (mathematical reading, no wrap) -/
def Gpr.mem (x : Nat) (g : Gpr) : Prop := g.start ≤ x ∧ x < g.start + g.len

def Covered (x : Nat) (l : List Gpr) : Prop := ∃ g ∈ l, g.mem x

/-- no region reaches 2^64 (so `end()` does not wrap) -/
def NoOverflow (l : List Gpr) : Prop := ∀ g ∈ l, g.start + g.len < 2 ^ 64

/-- no two regions of the list share an address -/
def DisjointL (l : List Gpr) : Prop := l.Pairwise (fun a b => ∀ x, ¬ (a.mem x ∧ b.mem x))

/-- what `slices.SortFunc(b, gprCmp)` establishes -/
def SortedByStart (l : List Gpr) : Prop := l.Pairwise (fun a b => a.start ≤ b.start)

/-- consequence of sorted + disjoint used by the loop: non-empty regions follow each other -/
def Srt (l : List Gpr) : Prop := l.Pairwise (fun a b => a.len ≠ 0 → b.len ≠ 0 → a.start + a.len ≤ b.start)

/-- non-empty, ascending, strictly separated -/
def Canon (l : List Gpr) : Prop :=
  (∀ a ∈ l, a.len ≠ 0) ∧ l.Pairwise (fun a b => a.start + a.len < b.start)

theorem covered_nil (x : Nat) : ¬ Covered x [] := by simp [Covered]

theorem covered_cons (x : Nat) (p : Gpr) (l : List Gpr) :
    Covered x (p :: l) ↔ p.mem x ∨ Covered x l := by
  simp [Covered]

theorem covered_append (x : Nat) (a b : List Gpr) :
    Covered x (a ++ b) ↔ Covered x a ∨ Covered x b := by
  simp only [Covered, List.mem_append]
  constructor
  · rintro ⟨r, hr | hr, h⟩
    · exact Or.inl ⟨r, hr, h⟩
    · exact Or.inr ⟨r, hr, h⟩
  · rintro (⟨r, hr, h⟩ | ⟨r, hr, h⟩)
    · exact ⟨r, Or.inl hr, h⟩
    · exact ⟨r, Or.inr hr, h⟩

theorem covered_perm {x : Nat} {a b : List Gpr} (h : a.Perm b) : Covered x a ↔ Covered x b := by
  simp only [Covered]
  constructor
  · rintro ⟨g, hg, hx⟩; exact ⟨g, h.mem_iff.mp hg, hx⟩
  · rintro ⟨g, hg, hx⟩; exact ⟨g, h.mem_iff.mpr hg, hx⟩

theorem srt_of_sorted_disjoint {l : List Gpr} (hs : SortedByStart l) (hd : DisjointL l) : Srt l := by
  unfold Srt SortedByStart DisjointL at *
  induction l with
  | nil => exact List.Pairwise.nil
  | cons a t ih =>
    rw [List.pairwise_cons] at hs hd ⊢
    refine ⟨?_, ih hs.2 hd.2⟩
    intro b hb ha0 hb0
    have h1 := hs.1 b hb
    have h2 := hd.1 b hb b.start
    simp only [Gpr.mem] at h2
    omega

/-! ## the no-wrap form of the inner loop (DESIGN Appendix B.1) -/

/-- (rest, ram, out) -/
def scan (r : Gpr) : List Gpr → List Gpr × Gpr × List Gpr
  | [] => ([], r, [])
  | p :: ps =>
    if p.len = 0 then scan r ps
    else if p.start + p.len ≤ r.start then scan r ps
    else if p.start ≥ r.start + r.len then (p :: ps, r, [])
    else
      if r.start + r.len - min (r.start + r.len) (p.start + p.len) = 0 then
        (p :: ps, ⟨min (r.start + r.len) (p.start + p.len), 0⟩,
          if p.start > r.start then [⟨r.start, p.start - r.start⟩] else [])
      else
        ((scan ⟨min (r.start + r.len) (p.start + p.len), r.start + r.len - min (r.start + r.len) (p.start + p.len)⟩ ps).1,
         (scan ⟨min (r.start + r.len) (p.start + p.len), r.start + r.len - min (r.start + r.len) (p.start + p.len)⟩ ps).2.1,
         (if p.start > r.start then [⟨r.start, p.start - r.start⟩] else []) ++
         (scan ⟨min (r.start + r.len) (p.start + p.len), r.start + r.len - min (r.start + r.len) (p.start + p.len)⟩ ps).2.2)

theorem scan_skip (r p : Gpr) (ps : List Gpr) (h : p.start + p.len ≤ r.start) : scan r (p :: ps) = scan r ps := by
  by_cases h0 : p.len = 0
  · simp [scan, h0]
  · simp [scan, h0, h]

/-! ### in-range simplifications -/

theorem end_of_lt {g : Gpr} (h : g.start + g.len < 2 ^ 64) : g.end_ = g.start + g.len := by
  unfold Gpr.end_; omega

theorem norm_of_lt {g : Gpr} (h : g.start + g.len < 2 ^ 64) : g.norm = g := by
  apply Gpr.norm_of_inRange; unfold Gpr.InRange; omega

/-- In the loop body, without overflow, the intersection, the emitted piece and the shrunk bank are the
    mathematical ones. -/
theorem body_no_wrap (r p : Gpr) (hr : r.start + r.len < 2 ^ 64) (hp : p.start + p.len < 2 ^ 64)
    (hr0 : r.len ≠ 0) (h0 : p.len ≠ 0) (h1 : ¬ p.start + p.len ≤ r.start) (h2 : ¬ p.start ≥ r.start + r.len) :
    shrink r (intersect r p) =
        ⟨min (r.start + r.len) (p.start + p.len), r.start + r.len - min (r.start + r.len) (p.start + p.len)⟩ ∧
    prePiece r (intersect r p) = (if p.start > r.start then [⟨r.start, p.start - r.start⟩] else []) := by
  have er := end_of_lt hr
  have ep := end_of_lt hp
  have hrl : r.len % 2 ^ 64 ≠ 0 := by omega
  have hpl : ¬ p.len % 2 ^ 64 = 0 := by omega
  have g1 : ¬ p.end_ ≤ r.start % 2 ^ 64 := by rw [ep]; omega
  have g2 : ¬ p.start % 2 ^ 64 ≥ r.end_ := by rw [er]; omega
  have hi := intersect_in_body r p hrl hpl g1 g2
  have he := intersect_end_in_body r p hrl hpl g1 g2
  constructor
  · simp only [shrink, he, er, ep]
    congr 1
    omega
  · simp only [prePiece, hi, gprRange]
    by_cases hgt : p.start > r.start
    · have c1 : max (r.start % 2 ^ 64) (p.start % 2 ^ 64) % 2 ^ 64 > r.start % 2 ^ 64 := by omega
      have c2 : (max (r.start % 2 ^ 64) (p.start % 2 ^ 64) % 2 ^ 64 + 2 ^ 64 - r.start % 2 ^ 64) % 2 ^ 64 ≠ 0 := by omega
      simp only [c1, c2, hgt, if_true, ne_eq, not_false_eq_true]
      congr 2 <;> omega
    · have c1 : ¬ max (r.start % 2 ^ 64) (p.start % 2 ^ 64) % 2 ^ 64 > r.start % 2 ^ 64 := by omega
      simp only [c1, hgt, if_false]

/-- The literal loop equals the structurally recursive form when nothing overflows. -/
theorem inner_eq_scan (ps : List Gpr) (r : Gpr) (h : r.len % 2 ^ 64 ≠ 0)
    (hps : NoOverflow ps) (hr : r.start + r.len < 2 ^ 64) :
    (inner ps r h).rest = (scan r ps).1 ∧ (inner ps r h).ram = (scan r ps).2.1 ∧
    (inner ps r h).out = (scan r ps).2.2 := by
  fun_induction inner ps r h with
  | case1 r h => simp [scan, norm_of_lt hr]
  | case2 r h p ps' h0 x ih =>
    have := ih (fun g hg => hps g (List.mem_cons_of_mem _ hg)) hr
    have hp := hps p (List.mem_cons_self ..)
    have : p.len = 0 := by omega
    simpa [scan, this] using ih (fun g hg => hps g (List.mem_cons_of_mem _ hg)) hr
  | case3 r h p ps' h0 h1 x ih =>
    have hp := hps p (List.mem_cons_self ..)
    rw [end_of_lt hp] at h1
    have h0' : ¬ p.len = 0 := by omega
    have h1' : p.start + p.len ≤ r.start := by omega
    simpa [scan, h0', h1'] using ih (fun g hg => hps g (List.mem_cons_of_mem _ hg)) hr
  | case4 r h p ps' h0 h1 h2 =>
    have hp := hps p (List.mem_cons_self ..)
    rw [end_of_lt hp] at h1
    rw [end_of_lt hr] at h2
    have h0' : ¬ p.len = 0 := by omega
    have h1' : ¬ p.start + p.len ≤ r.start := by omega
    have h2' : p.start ≥ r.start + r.len := by omega
    simp [scan, h0', h1', h2', norm_of_lt hr]
  | case5 r h p ps' h0 h1 h2 h3 =>
    have hp := hps p (List.mem_cons_self ..)
    rw [end_of_lt hp] at h1
    rw [end_of_lt hr] at h2
    have h0' : ¬ p.len = 0 := by omega
    have h1' : ¬ p.start + p.len ≤ r.start := by omega
    have h2' : ¬ p.start ≥ r.start + r.len := by omega
    obtain ⟨hs, hpre⟩ := body_no_wrap r p hr hp (by omega) h0' h1' h2'
    rw [hs] at h3
    simp only [] at h3
    simp [scan, h0', h1', h2', h3, hs, hpre]
  | case6 r h p ps' h0 h1 h2 h3 x ih =>
    have hp := hps p (List.mem_cons_self ..)
    rw [end_of_lt hp] at h1
    rw [end_of_lt hr] at h2
    have h0' : ¬ p.len = 0 := by omega
    have h1' : ¬ p.start + p.len ≤ r.start := by omega
    have h2' : ¬ p.start ≥ r.start + r.len := by omega
    obtain ⟨hs, hpre⟩ := body_no_wrap r p hr hp (by omega) h0' h1' h2'
    have h3' : ¬ (r.start + r.len - min (r.start + r.len) (p.start + p.len) = 0) := by
      intro hc; apply h3; rw [hs]; exact hc
    have hr' : (shrink r (intersect r p)).start + (shrink r (intersect r p)).len < 2 ^ 64 := by
      rw [hs]; simp only []; omega
    have IH := ih hps hr'
    have hskip : scan (shrink r (intersect r p)) (p :: ps') = scan (shrink r (intersect r p)) ps' := by
      apply scan_skip; rw [hs]; simp only []; omega
    rw [hskip] at IH
    have hsc : scan (shrink r (intersect r p)) ps' =
        scan ⟨min (r.start + r.len) (p.start + p.len), r.start + r.len - min (r.start + r.len) (p.start + p.len)⟩ ps' := by
      rw [hs]
    rw [hsc] at IH
    simp only [scan, h0', h1', h2', h3', if_false]
    exact ⟨IH.1, IH.2.1, by rw [hpre, IH.2.2]⟩

/-! ## what `scan` computes -/

theorem covered_pre (x : Nat) (r p : Gpr) :
    Covered x (if p.start > r.start then [⟨r.start, p.start - r.start⟩] else []) ↔ (r.start ≤ x ∧ x < p.start) := by
  by_cases h : p.start > r.start
  · simp only [h, if_true, Covered, List.mem_singleton, exists_eq_left, Gpr.mem]; omega
  · simp only [h, if_false, Covered, List.not_mem_nil, false_and, exists_false, false_iff]; omega

/-- Pointwise: what is emitted plus what remains of the bank is the bank minus the private ranges. -/
theorem scan_spec (ps : List Gpr) : ∀ (r : Gpr), r.len ≠ 0 → Srt ps →
    ∀ x, (Covered x (scan r ps).2.2 ∨ (scan r ps).2.1.mem x) ↔ (r.mem x ∧ ¬ Covered x ps) := by
  induction ps with
  | nil => intro r _ _ x; simp [scan, Covered]
  | cons p ps' ih =>
    intro r hr hs x
    unfold Srt at hs
    rw [List.pairwise_cons] at hs
    obtain ⟨hp, hs'⟩ := hs
    rw [covered_cons]
    -- a later range covering x starts after p ends
    have later : p.len ≠ 0 → Covered x ps' → p.start + p.len ≤ x := by
      rintro h0 ⟨q, hq, hqx⟩
      have := hp q hq h0 (by simp only [Gpr.mem] at hqx; omega)
      simp only [Gpr.mem] at hqx; omega
    unfold scan
    by_cases h0 : p.len = 0
    · simp only [h0, if_true]
      rw [ih r hr hs' x]
      simp only [Gpr.mem, h0]; constructor
      · rintro ⟨h1, h2⟩; exact ⟨h1, fun hh => hh.elim (fun h => by omega) h2⟩
      · rintro ⟨h1, h2⟩; exact ⟨h1, fun hh => h2 (Or.inr hh)⟩
    · simp only [h0, if_false]
      by_cases h1 : p.start + p.len ≤ r.start
      · simp only [h1, if_true]
        rw [ih r hr hs' x]
        simp only [Gpr.mem]; constructor
        · rintro ⟨h1', h2⟩; exact ⟨h1', fun hh => hh.elim (fun h => by omega) h2⟩
        · rintro ⟨h1', h2⟩; exact ⟨h1', fun hh => h2 (Or.inr hh)⟩
      · simp only [h1, if_false]
        by_cases h2 : p.start ≥ r.start + r.len
        · simp only [h2, if_true]
          constructor
          · rintro (hc | hm)
            · exact absurd hc (covered_nil x)
            · refine ⟨hm, ?_⟩
              rintro (hpx | hc)
              · simp only [Gpr.mem] at hm hpx; omega
              · have := later h0 hc; simp only [Gpr.mem] at hm; omega
          · rintro ⟨hm, _⟩; exact Or.inr hm
        · simp only [h2, if_false]
          by_cases h3 : r.start + r.len - min (r.start + r.len) (p.start + p.len) = 0
          · simp only [h3, if_true, covered_pre]
            simp only [Gpr.mem]
            constructor
            · rintro (hc | hm)
              · refine ⟨by omega, ?_⟩
                rintro (hpx | hcq)
                · omega
                · have := later h0 hcq; omega
              · omega
            · rintro ⟨hm, hn⟩
              left
              have : ¬ (p.start ≤ x ∧ x < p.start + p.len) := fun h => hn (Or.inl h)
              omega
          · simp only [h3, if_false, covered_append, covered_pre]
            have IH := ih ⟨min (r.start + r.len) (p.start + p.len), r.start + r.len - min (r.start + r.len) (p.start + p.len)⟩ h3 hs' x
            constructor
            · rintro ((hc | hc) | hm)
              · simp only [Gpr.mem]
                refine ⟨by omega, ?_⟩
                rintro (hpx | hcq)
                · omega
                · have := later h0 hcq; omega
              · have := IH.mp (Or.inl hc)
                simp only [Gpr.mem] at this ⊢
                refine ⟨by omega, ?_⟩
                rintro (hpx | hcq)
                · omega
                · exact this.2 hcq
              · have := IH.mp (Or.inr hm)
                simp only [Gpr.mem] at this ⊢
                refine ⟨by omega, ?_⟩
                rintro (hpx | hcq)
                · omega
                · exact this.2 hcq
            · rintro ⟨hm, hn⟩
              have hnp : ¬ p.mem x := fun h => hn (Or.inl h)
              have hnc : ¬ Covered x ps' := fun h => hn (Or.inr h)
              simp only [Gpr.mem] at hm hnp
              by_cases hlt : x < p.start
              · left; left; omega
              · have hmem : (Gpr.mk (min (r.start + r.len) (p.start + p.len)) (r.start + r.len - min (r.start + r.len) (p.start + p.len))).mem x := by
                  simp only [Gpr.mem]; omega
                rcases IH.mpr ⟨hmem, hnc⟩ with h | h
                · left; right; exact h
                · right; exact h

/-- Shape of the result: the remainder keeps the bank's end; the emitted pieces are non-empty, lie at or
    after the bank's start, end strictly before the remainder and are strictly separated. -/
theorem scan_struct (ps : List Gpr) : ∀ (r : Gpr), r.len ≠ 0 →
    (scan r ps).2.1.start + (scan r ps).2.1.len = r.start + r.len ∧ r.start ≤ (scan r ps).2.1.start ∧
    (∀ c ∈ (scan r ps).2.2, c.len ≠ 0 ∧ r.start ≤ c.start ∧ c.start + c.len < (scan r ps).2.1.start) ∧
    (scan r ps).2.2.Pairwise (fun a b => a.start + a.len < b.start) := by
  induction ps with
  | nil => intro r _; simp [scan]
  | cons p ps' ih =>
    intro r hr
    unfold scan
    by_cases h0 : p.len = 0
    · simp only [h0, if_true]; exact ih r hr
    · simp only [h0, if_false]
      by_cases h1 : p.start + p.len ≤ r.start
      · simp only [h1, if_true]; exact ih r hr
      · simp only [h1, if_false]
        by_cases h2 : p.start ≥ r.start + r.len
        · simp [h2]
        · simp only [h2, if_false]
          by_cases h3 : r.start + r.len - min (r.start + r.len) (p.start + p.len) = 0
          · simp only [h3, if_true]
            refine ⟨by omega, by omega, ?_, ?_⟩
            · intro c hc
              by_cases hgt : p.start > r.start
              · simp only [hgt, if_true, List.mem_singleton] at hc; subst hc; simp only []; omega
              · simp only [hgt, if_false, List.not_mem_nil] at hc
            · by_cases hgt : p.start > r.start <;> simp [hgt]
          · simp only [h3, if_false]
            obtain ⟨i1, i2, i3, i4⟩ := ih ⟨min (r.start + r.len) (p.start + p.len), r.start + r.len - min (r.start + r.len) (p.start + p.len)⟩ h3
            simp only [] at i1 i2 i3 i4
            refine ⟨by omega, by omega, ?_, ?_⟩
            · intro c hc
              rw [List.mem_append] at hc
              rcases hc with hc | hc
              · by_cases hgt : p.start > r.start
                · simp only [hgt, if_true, List.mem_singleton] at hc; subst hc; simp only []; omega
                · simp only [hgt, if_false, List.not_mem_nil] at hc
              · have := i3 c hc; omega
            · rw [List.pairwise_append]
              refine ⟨?_, i4, ?_⟩
              · by_cases hgt : p.start > r.start <;> simp [hgt]
              · intro a ha b hb
                have := i3 b hb
                by_cases hgt : p.start > r.start
                · simp only [hgt, if_true, List.mem_singleton] at ha; subst ha; simp only []; omega
                · simp only [hgt, if_false, List.not_mem_nil] at ha

/-- The private ranges the loop has moved past all end at or before the bank's end. -/
theorem scan_rest (ps : List Gpr) : ∀ (r : Gpr), r.len ≠ 0 →
    ∃ d, ps = d ++ (scan r ps).1 ∧ ∀ g ∈ d, g.len ≠ 0 → g.start + g.len ≤ r.start + r.len := by
  induction ps with
  | nil => intro r _; exact ⟨[], by simp [scan], by simp⟩
  | cons p ps' ih =>
    intro r hr
    unfold scan
    by_cases h0 : p.len = 0
    · simp only [h0, if_true]
      obtain ⟨d, hd, hd'⟩ := ih r hr
      refine ⟨p :: d, by rw [List.cons_append, ← hd], ?_⟩
      intro g hg hg0
      rcases List.mem_cons.mp hg with rfl | hg
      · exact absurd h0 hg0
      · exact hd' g hg hg0
    · simp only [h0, if_false]
      by_cases h1 : p.start + p.len ≤ r.start
      · simp only [h1, if_true]
        obtain ⟨d, hd, hd'⟩ := ih r hr
        refine ⟨p :: d, by rw [List.cons_append, ← hd], ?_⟩
        intro g hg hg0
        rcases List.mem_cons.mp hg with rfl | hg
        · omega
        · exact hd' g hg hg0
      · simp only [h1, if_false]
        by_cases h2 : p.start ≥ r.start + r.len
        · simp only [h2, if_true]; exact ⟨[], by simp, by simp⟩
        · simp only [h2, if_false]
          by_cases h3 : r.start + r.len - min (r.start + r.len) (p.start + p.len) = 0
          · simp only [h3, if_true]; exact ⟨[], by simp, by simp⟩
          · simp only [h3, if_false]
            obtain ⟨d, hd, hd'⟩ := ih ⟨min (r.start + r.len) (p.start + p.len), r.start + r.len - min (r.start + r.len) (p.start + p.len)⟩ h3
            refine ⟨p :: d, by rw [List.cons_append, ← hd], ?_⟩
            intro g hg hg0
            rcases List.mem_cons.mp hg with rfl | hg
            · omega
            · have := hd' g hg hg0; simp only [] at this; omega

end GceTcb.Intervals

/-! ## the specification: fold of cuts -/
namespace GceTcb.Spec.Intervals

def CoveredIv (x : Nat) (l : List Iv) : Prop := ∃ i ∈ l, i.mem x

/-- non-empty, ascending, strictly separated -/
def CanonIv (l : List Iv) : Prop := (∀ a ∈ l, a.lo < a.hi) ∧ l.Pairwise (fun a b => a.hi < b.lo)

theorem coveredIv_append (x : Nat) (a b : List Iv) : CoveredIv x (a ++ b) ↔ CoveredIv x a ∨ CoveredIv x b := by
  simp only [CoveredIv, List.mem_append]
  constructor
  · rintro ⟨r, hr | hr, h⟩
    · exact Or.inl ⟨r, hr, h⟩
    · exact Or.inr ⟨r, hr, h⟩
  · rintro (⟨r, hr, h⟩ | ⟨r, hr, h⟩)
    · exact ⟨r, Or.inl hr, h⟩
    · exact ⟨r, Or.inr hr, h⟩

theorem coveredIv_cons (x : Nat) (a : Iv) (l : List Iv) : CoveredIv x (a :: l) ↔ a.mem x ∨ CoveredIv x l := by
  simp [CoveredIv]

theorem cut_mem (q p : Iv) (x : Nat) : CoveredIv x (cut q p) ↔ q.mem x ∧ ¬ p.mem x := by
  unfold cut
  by_cases h : p.hi ≤ p.lo ∨ p.hi ≤ q.lo ∨ q.hi ≤ p.lo
  · simp only [h, if_true, CoveredIv, List.mem_singleton, exists_eq_left, Iv.mem]; omega
  · simp only [h, if_false, coveredIv_append]
    by_cases h1 : q.lo < p.lo <;> by_cases h2 : p.hi < q.hi <;>
      simp only [h1, h2, if_true, if_false, CoveredIv, List.mem_singleton, exists_eq_left, List.not_mem_nil,
        false_and, exists_false, Iv.mem, or_false, false_or, false_iff] <;> omega

theorem cut_within (q p c : Iv) (hc : c ∈ cut q p) (hq : q.lo < q.hi) :
    c.lo < c.hi ∧ q.lo ≤ c.lo ∧ c.hi ≤ q.hi := by
  unfold cut at hc
  by_cases h : p.hi ≤ p.lo ∨ p.hi ≤ q.lo ∨ q.hi ≤ p.lo
  · simp only [h, if_true, List.mem_singleton] at hc; subst hc; omega
  · simp only [h, if_false, List.mem_append] at hc
    rcases hc with hc | hc
    · by_cases h1 : q.lo < p.lo
      · simp only [h1, if_true, List.mem_singleton] at hc; subst hc; simp only []; omega
      · simp only [h1, if_false, List.not_mem_nil] at hc
    · by_cases h2 : p.hi < q.hi
      · simp only [h2, if_true, List.mem_singleton] at hc; subst hc; simp only []; omega
      · simp only [h2, if_false, List.not_mem_nil] at hc

theorem cut_pairwise (q p : Iv) : (cut q p).Pairwise (fun a b => a.hi < b.lo) := by
  unfold cut
  by_cases h : p.hi ≤ p.lo ∨ p.hi ≤ q.lo ∨ q.hi ≤ p.lo
  · simp [h]
  · by_cases h1 : q.lo < p.lo <;> by_cases h2 : p.hi < q.hi <;> simp [h, h1, h2]
    omega

theorem minus_mem (qs : List Iv) (p : Iv) (x : Nat) : CoveredIv x (minus qs p) ↔ CoveredIv x qs ∧ ¬ p.mem x := by
  induction qs with
  | nil => simp [minus, CoveredIv]
  | cons q qs ih =>
    have : minus (q :: qs) p = cut q p ++ minus qs p := by simp [minus]
    rw [this, coveredIv_append, cut_mem, ih, coveredIv_cons]
    constructor
    · rintro (⟨a, b⟩ | ⟨a, b⟩)
      · exact ⟨Or.inl a, b⟩
      · exact ⟨Or.inr a, b⟩
    · rintro ⟨a | a, b⟩
      · exact Or.inl ⟨a, b⟩
      · exact Or.inr ⟨a, b⟩

theorem minus_within (qs : List Iv) (p c : Iv) (hq : ∀ q ∈ qs, q.lo < q.hi) (hc : c ∈ minus qs p) :
    c.lo < c.hi ∧ ∃ q ∈ qs, q.lo ≤ c.lo ∧ c.hi ≤ q.hi := by
  simp only [minus, List.mem_flatMap] at hc
  obtain ⟨q, hq', hc⟩ := hc
  have := cut_within q p c hc (hq q hq')
  exact ⟨this.1, q, hq', this.2⟩

theorem minus_canon (qs : List Iv) (p : Iv) (h : CanonIv qs) : CanonIv (minus qs p) := by
  refine ⟨fun c hc => (minus_within qs p c h.1 hc).1, ?_⟩
  obtain ⟨hne, hpw⟩ := h
  induction qs with
  | nil => simp [minus]
  | cons q qs ih =>
    have : minus (q :: qs) p = cut q p ++ minus qs p := by simp [minus]
    rw [this, List.pairwise_append]
    rw [List.pairwise_cons] at hpw
    refine ⟨cut_pairwise q p, ih (fun a ha => hne a (List.mem_cons_of_mem _ ha)) hpw.2, ?_⟩
    intro a ha b hb
    have h1 := cut_within q p a ha (hne q (List.mem_cons_self ..))
    obtain ⟨_, q', hq', h2⟩ := minus_within qs p b (fun a ha => hne a (List.mem_cons_of_mem _ ha)) hb
    have := hpw.1 q' hq'
    omega

theorem foldl_minus_mem (priv : List Iv) : ∀ (qs : List Iv) (x : Nat),
    CoveredIv x (priv.foldl minus qs) ↔ CoveredIv x qs ∧ ∀ p ∈ priv, ¬ p.mem x := by
  induction priv with
  | nil => intro qs x; simp
  | cons p ps ih =>
    intro qs x
    rw [List.foldl_cons, ih, minus_mem]
    simp only [List.mem_cons, forall_eq_or_imp]
    constructor
    · rintro ⟨⟨a, b⟩, c⟩; exact ⟨a, b, c⟩
    · rintro ⟨a, b, c⟩; exact ⟨⟨a, b⟩, c⟩

theorem foldl_minus_canon (priv : List Iv) : ∀ (qs : List Iv), CanonIv qs → CanonIv (priv.foldl minus qs) := by
  induction priv with
  | nil => intro qs h; exact h
  | cons p ps ih => intro qs h; rw [List.foldl_cons]; exact ih _ (minus_canon qs p h)

/-- The specification of one bank, pointwise. -/
theorem subtract_mem (b : Iv) (priv : List Iv) (x : Nat) :
    CoveredIv x (subtract b priv) ↔ b.mem x ∧ ∀ p ∈ priv, ¬ p.mem x := by
  unfold subtract
  rw [foldl_minus_mem]
  simp [CoveredIv]

theorem subtract_canon (b : Iv) (priv : List Iv) (hb : b.lo < b.hi) : CanonIv (subtract b priv) := by
  unfold subtract
  apply foldl_minus_canon
  exact ⟨by simpa using hb, by simp⟩

theorem subtract_within (b : Iv) (priv : List Iv) (c : Iv) (hc : c ∈ subtract b priv) : b.lo ≤ c.lo ∧ c.hi ≤ b.hi := by
  have : ∀ (priv : List Iv) (qs : List Iv), (∀ q ∈ qs, q.lo < q.hi ∧ b.lo ≤ q.lo ∧ q.hi ≤ b.hi) →
      ∀ c ∈ priv.foldl minus qs, c.lo < c.hi ∧ b.lo ≤ c.lo ∧ c.hi ≤ b.hi := by
    intro priv
    induction priv with
    | nil => intro qs h c hc; exact h c hc
    | cons p ps ih =>
      intro qs h c hc
      rw [List.foldl_cons] at hc
      refine ih (minus qs p) ?_ c hc
      intro q hq
      obtain ⟨h1, q', hq', h2⟩ := minus_within qs p q (fun a ha => (h a ha).1) hq
      have := h q' hq'
      exact ⟨h1, by omega, by omega⟩
  by_cases hb : b.lo < b.hi
  · exact (this priv [b] (by simpa using hb) c hc).2
  · -- an empty bank: every cut of it is the bank itself or nothing
    have hall : ∀ (priv : List Iv) (qs : List Iv), (∀ q ∈ qs, q = b) → ∀ c ∈ priv.foldl minus qs, c = b := by
      intro priv
      induction priv with
      | nil => intro qs h c hc; exact h c hc
      | cons p ps ih =>
        intro qs h c hc
        rw [List.foldl_cons] at hc
        refine ih (minus qs p) ?_ c hc
        intro q hq
        simp only [minus, List.mem_flatMap] at hq
        obtain ⟨q', hq', hq⟩ := hq
        have := h q' hq'; subst this
        unfold cut at hq
        by_cases h' : p.hi ≤ p.lo ∨ p.hi ≤ q'.lo ∨ q'.hi ≤ p.lo
        · simpa [h'] using hq
        · have h1 : ¬ q'.lo < p.lo := by omega
          have h2 : ¬ p.hi < q'.hi := by omega
          simp [h', h1, h2] at hq
    have := hall priv [b] (by simp) c hc
    subst this; omega

/-- Canonical lists with the same points are equal. -/
theorem canon_unique : ∀ (a b : List Iv), CanonIv a → CanonIv b → (∀ x, CoveredIv x a ↔ CoveredIv x b) → a = b := by
  intro a
  induction a with
  | nil =>
    intro b _ hb h
    cases b with
    | nil => rfl
    | cons y b' =>
      have hy := hb.1 y (List.mem_cons_self ..)
      have := (h y.lo).mpr ⟨y, List.mem_cons_self .., by simp only [Iv.mem]; omega⟩
      simp [CoveredIv] at this
  | cons x a' ih =>
    intro b ha hb h
    cases b with
    | nil =>
      have hx := ha.1 x (List.mem_cons_self ..)
      have := (h x.lo).mp ⟨x, List.mem_cons_self .., by simp only [Iv.mem]; omega⟩
      simp [CoveredIv] at this
    | cons y b' =>
      have hx := ha.1 x (List.mem_cons_self ..)
      have hy := hb.1 y (List.mem_cons_self ..)
      have hpa := ha.2; have hpb := hb.2
      rw [List.pairwise_cons] at hpa hpb
      -- every point of a list lies at or after its head's lo; points of the tail lie after the head's hi
      have key : ∀ (z : Iv) (l : List Iv) (w : Nat), (∀ c ∈ l, z.hi < c.lo) → CoveredIv w l → z.hi < w := by
        rintro z l w hz ⟨c, hc, hcw⟩
        have := hz c hc; simp only [Iv.mem] at hcw; omega
      have lo_eq : x.lo = y.lo := by
        have h1 := (h x.lo).mp ⟨x, List.mem_cons_self .., by simp only [Iv.mem]; omega⟩
        have h2 := (h y.lo).mpr ⟨y, List.mem_cons_self .., by simp only [Iv.mem]; omega⟩
        rw [coveredIv_cons] at h1 h2
        have a1 : y.lo ≤ x.lo := by
          rcases h1 with h1 | h1
          · simp only [Iv.mem] at h1; omega
          · have := key y b' x.lo hpb.1 h1; omega
        have a2 : x.lo ≤ y.lo := by
          rcases h2 with h2 | h2
          · simp only [Iv.mem] at h2; omega
          · have := key x a' y.lo hpa.1 h2; omega
        omega
      have hi_eq : x.hi = y.hi := by
        have a1 : ¬ x.hi < y.hi := by
          intro hlt
          have h2 := (h x.hi).mpr ⟨y, List.mem_cons_self .., by simp only [Iv.mem]; omega⟩
          rw [coveredIv_cons] at h2
          rcases h2 with h2 | h2
          · simp only [Iv.mem] at h2; omega
          · have := key x a' x.hi hpa.1 h2; omega
        have a2 : ¬ y.hi < x.hi := by
          intro hlt
          have h1 := (h y.hi).mp ⟨x, List.mem_cons_self .., by simp only [Iv.mem]; omega⟩
          rw [coveredIv_cons] at h1
          rcases h1 with h1 | h1
          · simp only [Iv.mem] at h1; omega
          · have := key y b' y.hi hpb.1 h1; omega
        omega
      have hxy : x = y := by cases x; cases y; simp only [Iv.mk.injEq] at *; omega
      subst hxy
      congr 1
      apply ih b' ⟨fun c hc => ha.1 c (List.mem_cons_of_mem _ hc), hpa.2⟩ ⟨fun c hc => hb.1 c (List.mem_cons_of_mem _ hc), hpb.2⟩
      intro w
      have hw := h w
      rw [coveredIv_cons, coveredIv_cons] at hw
      constructor
      · intro hc
        have := key x a' w hpa.1 hc
        rcases hw.mp (Or.inr hc) with h1 | h1
        · simp only [Iv.mem] at h1; omega
        · exact h1
      · intro hc
        have := key x b' w hpb.1 hc
        rcases hw.mpr (Or.inr hc) with h1 | h1
        · simp only [Iv.mem] at h1; omega
        · exact h1

end GceTcb.Spec.Intervals

/-! ## code = specification -/
namespace GceTcb.Intervals
open GceTcb.Spec.Intervals

def toIv (g : Gpr) : Iv := ⟨g.start, g.start + g.len⟩
def ofIv (i : Iv) : Gpr := ⟨i.lo, i.hi - i.lo⟩

theorem ofIv_toIv (g : Gpr) : ofIv (toIv g) = g := by
  cases g; simp only [toIv, ofIv]; congr 1; omega

theorem map_ofIv_toIv (l : List Gpr) : (l.map toIv).map ofIv = l := by
  rw [List.map_map]
  conv => rhs; rw [← List.map_id l]
  apply List.map_congr_left
  intro g _; exact ofIv_toIv g

theorem mem_toIv (x : Nat) (g : Gpr) : (toIv g).mem x ↔ g.mem x := by
  simp [toIv, Iv.mem, Gpr.mem]

theorem covered_toIv (x : Nat) (l : List Gpr) : CoveredIv x (l.map toIv) ↔ Covered x l := by
  simp only [CoveredIv, Covered, List.mem_map]
  constructor
  · rintro ⟨i, ⟨g, hg, rfl⟩, hx⟩; exact ⟨g, hg, (mem_toIv x g).mp hx⟩
  · rintro ⟨g, hg, hx⟩; exact ⟨toIv g, ⟨g, hg, rfl⟩, (mem_toIv x g).mpr hx⟩

theorem canon_toIv (l : List Gpr) (h : Canon l) : CanonIv (l.map toIv) := by
  obtain ⟨h1, h2⟩ := h
  constructor
  · intro a ha
    obtain ⟨g, hg, rfl⟩ := List.mem_map.mp ha
    have := h1 g hg; simp only [toIv]; omega
  · rw [List.pairwise_map]
    exact h2.imp (fun {a b} hab => by simp only [toIv]; exact hab)

/-- what the loop appends for one bank -/
def bankOut (r : Gpr) (ps : List Gpr) : List Gpr :=
  (scan r ps).2.2 ++ (if (scan r ps).2.1.len ≠ 0 then [(scan r ps).2.1] else [])

theorem bankOut_canon (r : Gpr) (ps : List Gpr) (hr : r.len ≠ 0) : Canon (bankOut r ps) := by
  obtain ⟨_, _, h3, h4⟩ := scan_struct ps r hr
  unfold bankOut Canon
  constructor
  · intro a ha
    rw [List.mem_append] at ha
    rcases ha with ha | ha
    · exact (h3 a ha).1
    · by_cases hz : (scan r ps).2.1.len ≠ 0
      · rw [if_pos hz, List.mem_singleton] at ha; subst ha; exact hz
      · rw [if_neg hz] at ha; exact absurd ha (List.not_mem_nil)
  · rw [List.pairwise_append]
    refine ⟨h4, ?_, ?_⟩
    · by_cases hz : (scan r ps).2.1.len ≠ 0
      · rw [if_pos hz]; exact List.pairwise_singleton _ _
      · rw [if_neg hz]; exact List.Pairwise.nil
    · intro a ha b hb
      by_cases hz : (scan r ps).2.1.len ≠ 0
      · rw [if_pos hz, List.mem_singleton] at hb; subst hb; exact (h3 a ha).2.2
      · rw [if_neg hz] at hb; exact absurd hb (List.not_mem_nil)

theorem bankOut_covered (r : Gpr) (ps : List Gpr) (hr : r.len ≠ 0) (hs : Srt ps) (x : Nat) :
    Covered x (bankOut r ps) ↔ (r.mem x ∧ ¬ Covered x ps) := by
  rw [← scan_spec ps r hr hs x]
  unfold bankOut
  rw [covered_append]
  by_cases hz : (scan r ps).2.1.len ≠ 0
  · rw [if_pos hz]
    simp [Covered]
  · rw [if_neg hz]
    have : ¬ (scan r ps).2.1.mem x := by simp only [Gpr.mem]; omega
    simp [this, covered_nil]

/-- One bank: the loop's output equals the specification's fold of cuts over ANY list with the same
    coverage inside the bank. -/
theorem bank_eq (r : Gpr) (ps P : List Gpr) (hr : r.len ≠ 0) (hs : Srt ps)
    (hP : ∀ x, r.mem x → (Covered x ps ↔ Covered x P)) :
    (bankOut r ps).map toIv = subtract (toIv r) (P.map toIv) := by
  apply canon_unique
  · exact canon_toIv _ (bankOut_canon r ps hr)
  · apply subtract_canon; simp only [toIv]; omega
  · intro x
    rw [covered_toIv, bankOut_covered r ps hr hs, subtract_mem, mem_toIv]
    constructor
    · rintro ⟨h1, h2⟩
      refine ⟨h1, ?_⟩
      intro p hp hpx
      obtain ⟨g, hg, rfl⟩ := List.mem_map.mp hp
      exact h2 ((hP x h1).mpr ⟨g, hg, (mem_toIv x g).mp hpx⟩)
    · rintro ⟨h1, h2⟩
      refine ⟨h1, ?_⟩
      intro hc
      obtain ⟨g, hg, hgx⟩ := (hP x h1).mp hc
      exact h2 (toIv g) (List.mem_map.mpr ⟨g, hg, rfl⟩) ((mem_toIv x g).mpr hgx)

theorem srt_of_append_right {a b : List Gpr} (h : Srt (a ++ b)) : Srt b := by
  unfold Srt at *; rw [List.pairwise_append] at h; exact h.2.1

/-- The loop over the banks: bank by bank the specification's cut of the bank by all of `P`. -/
theorem outer_eq (P : List Gpr) : ∀ (rs ps : List Gpr), NoOverflow rs → NoOverflow ps → Srt rs → Srt ps →
    (∀ b ∈ rs, b.len ≠ 0 → ∀ x, b.mem x → (Covered x ps ↔ Covered x P)) →
    ((outer ps rs).out).map toIv =
      (rs.filter (fun b => b.len ≠ 0)).flatMap (fun b => subtract (toIv b) (P.map toIv)) := by
  intro rs
  induction rs with
  | nil => intro ps _ _ _ _ _; simp [outer]
  | cons r rs' ih =>
    intro ps hnr hnp hsr hsp hcov
    have hr64 := hnr r (List.mem_cons_self ..)
    have hnr' : NoOverflow rs' := fun g hg => hnr g (List.mem_cons_of_mem _ hg)
    have hsr' : Srt rs' := by unfold Srt at *; exact (List.pairwise_cons.mp hsr).2
    rw [outer]
    by_cases hz : r.len % 2 ^ 64 = 0
    · have hz' : r.len = 0 := by omega
      simp only [hz, dite_true]
      rw [List.filter_cons_of_neg (by simp [hz'])]
      exact ih ps hnr' hnp hsr' hsp (fun b hb => hcov b (List.mem_cons_of_mem _ hb))
    · have hz' : r.len ≠ 0 := by omega
      simp only [hz, dite_false]
      rw [List.filter_cons_of_pos (by simp [hz'])]
      obtain ⟨e1, e2, e3⟩ := inner_eq_scan ps r hz hnp hr64
      rw [e1, e2, e3, List.flatMap_cons, List.map_append]
      obtain ⟨d, hd, hd'⟩ := scan_rest ps r hz'
      congr 1
      · exact bank_eq r ps P hz' hsp (hcov r (List.mem_cons_self ..) hz')
      · apply ih (scan r ps).1 hnr'
        · intro g hg; apply hnp g; rw [hd]; exact List.mem_append_right _ hg
        · exact hsr'
        · rw [hd] at hsp; exact srt_of_append_right hsp
        · intro b hb hb0 x hbx
          rw [← hcov b (List.mem_cons_of_mem _ hb) hb0 x hbx]
          conv => rhs; rw [hd, covered_append]
          constructor
          · intro h; exact Or.inr h
          · rintro (⟨g, hg, hgx⟩ | h)
            · exfalso
              have hg0 : g.len ≠ 0 := by simp only [Gpr.mem] at hgx; omega
              have h1 := hd' g hg hg0
              have h2 : r.start + r.len ≤ b.start := by
                unfold Srt at hsr
                exact (List.pairwise_cons.mp hsr).1 b hb hz' hb0
              simp only [Gpr.mem] at hgx hbx; omega
            · exact h

/-! ### sorting and permutations -/

theorem perm_strict_sorted_eq : ∀ (l1 l2 : List Iv), l1.Perm l2 →
    l1.Pairwise (fun a b => a.lo < b.lo) → l2.Pairwise (fun a b => a.lo < b.lo) → l1 = l2 := by
  intro l1
  induction l1 with
  | nil => intro l2 hp _ _; exact (List.Perm.nil_eq hp)
  | cons a t ih =>
    intro l2 hp h1 h2
    cases l2 with
    | nil => exact absurd hp.symm (by simp)
    | cons b u =>
      rw [List.pairwise_cons] at h1 h2
      have hab : a = b := by
        have ha : a ∈ b :: u := hp.mem_iff.mp (List.mem_cons_self ..)
        have hb : b ∈ a :: t := hp.mem_iff.mpr (List.mem_cons_self ..)
        rcases List.mem_cons.mp ha with rfl | ha
        · rfl
        · rcases List.mem_cons.mp hb with rfl | hb
          · rfl
          · have := h1.1 b hb; have := h2.1 a ha; omega
      subst hab
      congr 1
      exact ih u (List.Perm.cons_inv hp) h1.2 h2.2

theorem insertAsc_perm (a : Iv) (l : List Iv) : (insertAsc a l).Perm (a :: l) := by
  induction l with
  | nil => simp [insertAsc]
  | cons b t ih =>
    have e : insertAsc a (b :: t) = if b.lo < a.lo then b :: insertAsc a t else a :: b :: t := rfl
    rw [e]
    by_cases h : b.lo < a.lo
    · simp only [h, if_true]
      exact (List.Perm.cons b ih).trans (List.Perm.swap a b t)
    · simp only [h, if_false]; exact List.Perm.refl _

theorem sortAsc_perm (l : List Iv) : (sortAsc l).Perm l := by
  induction l with
  | nil => exact List.Perm.refl _
  | cons a t ih => exact (insertAsc_perm a (sortAsc t)).trans (List.Perm.cons a ih)

theorem insertAsc_sorted (a : Iv) (l : List Iv) (h : l.Pairwise (fun x y => x.lo ≤ y.lo)) :
    (insertAsc a l).Pairwise (fun x y => x.lo ≤ y.lo) := by
  induction l with
  | nil => simp [insertAsc]
  | cons b t ih =>
    rw [List.pairwise_cons] at h
    have e : insertAsc a (b :: t) = if b.lo < a.lo then b :: insertAsc a t else a :: b :: t := rfl
    rw [e]
    by_cases hb : b.lo < a.lo
    · simp only [hb, if_true]
      rw [List.pairwise_cons]
      refine ⟨?_, ih h.2⟩
      intro c hc
      rcases List.mem_cons.mp ((insertAsc_perm a t).mem_iff.mp hc) with rfl | hc
      · omega
      · exact h.1 c hc
    · simp only [hb, if_false]
      rw [List.pairwise_cons, List.pairwise_cons]
      refine ⟨?_, h⟩
      intro c hc
      rcases List.mem_cons.mp hc with rfl | hc
      · omega
      · have := h.1 c hc; omega

theorem sortAsc_sorted (l : List Iv) : (sortAsc l).Pairwise (fun x y => x.lo ≤ y.lo) := by
  induction l with
  | nil => simp [sortAsc]
  | cons a t ih => exact insertAsc_sorted a _ ih


theorem disjoint_perm {a b : List Gpr} (h : a.Perm b) (hd : DisjointL a) : DisjointL b :=
  (h.pairwise_iff (fun hxy z hz => hxy z ⟨hz.2, hz.1⟩)).mp hd

theorem noOverflow_perm {a b : List Gpr} (h : a.Perm b) (hn : NoOverflow a) : NoOverflow b :=
  fun g hg => hn g (h.mem_iff.mpr hg)

theorem filter_toIv (l : List Gpr) :
    (l.map toIv).filter Iv.nonempty = (l.filter (fun b => b.len ≠ 0)).map toIv := by
  induction l with
  | nil => rfl
  | cons g t ih =>
    by_cases h : g.len = 0
    · have h1 : Iv.nonempty (toIv g) = false := by simp [Iv.nonempty, toIv, h]
      simp [h1, h, ih]
    · have h1 : Iv.nonempty (toIv g) = true := by simp [Iv.nonempty, toIv]; omega
      simp [h1, h, ih]

theorem flatMap_map_toIv (l : List Gpr) (f : Iv → List Iv) :
    (l.map toIv).flatMap f = l.flatMap (fun b => f (toIv b)) := by
  induction l with
  | nil => rfl
  | cons g t ih => simp [List.flatMap_cons, ih]

theorem flatMap_congr' {f g : Gpr → List Iv} : ∀ (l : List Gpr), (∀ b ∈ l, f b = g b) → l.flatMap f = l.flatMap g := by
  intro l
  induction l with
  | nil => intro _; rfl
  | cons a t ih =>
    intro h
    rw [List.flatMap_cons, List.flatMap_cons, h a (List.mem_cons_self ..), ih (fun b hb => h b (List.mem_cons_of_mem _ hb))]

theorem coveredIv_flatMap (x : Nat) (l : List Gpr) (f : Gpr → List Iv) :
    CoveredIv x (l.flatMap f) ↔ ∃ b ∈ l, CoveredIv x (f b) := by
  simp only [CoveredIv, List.mem_flatMap]
  constructor
  · rintro ⟨i, ⟨b, hb, hi⟩, hx⟩; exact ⟨b, hb, i, hi, hx⟩
  · rintro ⟨b, hb, i, hi, hx⟩; exact ⟨i, ⟨b, hb, hi⟩, hx⟩

/-- strictly ascending starts of the non-empty banks of a sorted, disjoint bank list -/
theorem filter_strict {l : List Gpr} (h : Srt l) :
    ((l.filter (fun b => b.len ≠ 0)).map toIv).Pairwise (fun a b => a.lo < b.lo) := by
  rw [List.pairwise_map]
  have h' : (l.filter (fun b => b.len ≠ 0)).Pairwise
      (fun a b => a.len ≠ 0 → b.len ≠ 0 → a.start + a.len ≤ b.start) := List.Pairwise.filter _ h
  refine List.Pairwise.imp_of_mem ?_ h'
  intro a b ha hb hab
  have ha0 : a.len ≠ 0 := by simpa using (List.mem_filter.mp ha).2
  have hb0 : b.len ≠ 0 := by simpa using (List.mem_filter.mp hb).2
  have := hab ha0 hb0
  simp only [toIv]; omega

/-- The loop on sorted lists, bank by bank (the form every later statement is read off). -/
theorem core_form (ps' rs' : List Gpr) (hsp : SortedByStart ps') (hsr : SortedByStart rs')
    (hnp : NoOverflow ps') (hnr : NoOverflow rs') (hdp : DisjointL ps') (hdr : DisjointL rs') :
    (unacceptedCore ps' rs').map toIv =
      (rs'.filter (fun b => b.len ≠ 0)).flatMap (fun b => subtract (toIv b) (ps'.map toIv)) :=
  outer_eq ps' rs' ps' hnr hnp (srt_of_sorted_disjoint hsr hdr) (srt_of_sorted_disjoint hsp hdp)
    (fun _ _ _ _ _ => Iff.rfl)

/-- MAIN THEOREM.  For any start-sorted arrangements `ps'`, `rs'` of the private ranges and the banks
    (whatever the unstable Go sort produced), if no region overflows 64 bits and each list is pairwise
    disjoint, the loop returns the specification's difference. -/
theorem unacceptedCore_eq_difference (ps rs ps' rs' : List Gpr)
    (hpp : ps'.Perm ps) (hsp : SortedByStart ps') (hrp : rs'.Perm rs) (hsr : SortedByStart rs')
    (hnp : NoOverflow ps) (hnr : NoOverflow rs) (hdp : DisjointL ps) (hdr : DisjointL rs) :
    unacceptedCore ps' rs' = (difference (rs.map toIv) (ps.map toIv)).map ofIv := by
  have hnp' := noOverflow_perm hpp.symm hnp
  have hnr' := noOverflow_perm hrp.symm hnr
  have hdp' := disjoint_perm hpp.symm hdp
  have hdr' := disjoint_perm hrp.symm hdr
  have key := core_form ps' rs' hsp hsr hnp' hnr' hdp' hdr'
  -- the private ranges enter the specification only through their points
  have h1 : ∀ b : Gpr, b.len ≠ 0 → subtract (toIv b) (ps'.map toIv) = subtract (toIv b) (ps.map toIv) := by
    intro b hb
    have hb' : (toIv b).lo < (toIv b).hi := by simp only [toIv]; omega
    apply canon_unique _ _ (subtract_canon _ _ hb') (subtract_canon _ _ hb')
    intro x
    rw [subtract_mem, subtract_mem]
    have : ∀ i, i ∈ ps'.map toIv ↔ i ∈ ps.map toIv := fun i => (hpp.map toIv).mem_iff
    constructor
    · rintro ⟨a, c⟩; exact ⟨a, fun p hp => c p ((this p).mpr hp)⟩
    · rintro ⟨a, c⟩; exact ⟨a, fun p hp => c p ((this p).mp hp)⟩
  -- the non-empty banks in ascending order are determined by the bank set
  have h2 : (rs'.filter (fun b => b.len ≠ 0)).map toIv = sortAsc ((rs.map toIv).filter Iv.nonempty) := by
    have hperm : ((rs'.filter (fun b => b.len ≠ 0)).map toIv).Perm (sortAsc ((rs.map toIv).filter Iv.nonempty)) := by
      rw [filter_toIv]
      exact ((hrp.filter _).map toIv).trans (sortAsc_perm _).symm
    have hs1 := filter_strict (srt_of_sorted_disjoint hsr hdr')
    apply perm_strict_sorted_eq _ _ hperm hs1
    have hne : (sortAsc ((rs.map toIv).filter Iv.nonempty)).Pairwise (fun a b => a.lo ≠ b.lo) :=
      (hperm.pairwise_iff (fun hxy => Ne.symm hxy)).mp (hs1.imp (fun {a b} hab => by omega))
    exact ((sortAsc_sorted _).and hne).imp (fun {a b} hab => by omega)
  unfold difference
  rw [← map_ofIv_toIv (unacceptedCore ps' rs'), key, ← h2, flatMap_map_toIv]
  congr 1
  apply flatMap_congr'
  intro b hb
  exact h1 b (by simpa using (List.mem_filter.mp hb).2)

/-- Pointwise reading of the result. -/
theorem unacceptedCore_pointwise (ps rs ps' rs' : List Gpr)
    (hpp : ps'.Perm ps) (hsp : SortedByStart ps') (hrp : rs'.Perm rs) (hsr : SortedByStart rs')
    (hnp : NoOverflow ps) (hnr : NoOverflow rs) (hdp : DisjointL ps) (hdr : DisjointL rs) (x : Nat) :
    Covered x (unacceptedCore ps' rs') ↔ (Covered x rs ∧ ¬ Covered x ps) := by
  have key := core_form ps' rs' hsp hsr (noOverflow_perm hpp.symm hnp) (noOverflow_perm hrp.symm hnr)
    (disjoint_perm hpp.symm hdp) (disjoint_perm hrp.symm hdr)
  rw [← covered_toIv, key, coveredIv_flatMap, ← covered_perm hrp, ← covered_perm hpp]
  constructor
  · rintro ⟨b, hb, hx⟩
    rw [subtract_mem, mem_toIv] at hx
    refine ⟨⟨b, (List.mem_filter.mp hb).1, hx.1⟩, ?_⟩
    rintro ⟨g, hg, hgx⟩
    exact hx.2 (toIv g) (List.mem_map.mpr ⟨g, hg, rfl⟩) ((mem_toIv x g).mpr hgx)
  · rintro ⟨⟨b, hb, hbx⟩, hn⟩
    have hb0 : b.len ≠ 0 := by simp only [Gpr.mem] at hbx; omega
    refine ⟨b, List.mem_filter.mpr ⟨hb, by simpa using hb0⟩, ?_⟩
    rw [subtract_mem, mem_toIv]
    refine ⟨hbx, ?_⟩
    intro p hp hpx
    obtain ⟨g, hg, rfl⟩ := List.mem_map.mp hp
    exact hn ⟨g, hg, (mem_toIv x g).mp hpx⟩

/-- The result is ascending, pairwise disjoint and has no empty range. -/
theorem unacceptedCore_sorted (ps' rs' : List Gpr) (hsp : SortedByStart ps') (hsr : SortedByStart rs')
    (hnp : NoOverflow ps') (hnr : NoOverflow rs') (hdp : DisjointL ps') (hdr : DisjointL rs') :
    (∀ a ∈ unacceptedCore ps' rs', a.len ≠ 0) ∧
    (unacceptedCore ps' rs').Pairwise (fun a b => a.start + a.len ≤ b.start) := by
  have key := core_form ps' rs' hsp hsr hnp hnr hdp hdr
  have hsrt := srt_of_sorted_disjoint hsr hdr
  -- the statement on the interval side, by induction over the non-empty banks
  have gen : ∀ (l : List Gpr), (∀ b ∈ l, b.len ≠ 0) → Srt l →
      (∀ c ∈ l.flatMap (fun b => subtract (toIv b) (ps'.map toIv)), c.lo < c.hi ∧ ∃ b ∈ l, b.start ≤ c.lo ∧ c.hi ≤ b.start + b.len) ∧
      (l.flatMap (fun b => subtract (toIv b) (ps'.map toIv))).Pairwise (fun a b => a.hi ≤ b.lo) := by
    intro l
    induction l with
    | nil => intro _ _; simp
    | cons b t ih =>
      intro hne hs
      unfold Srt at hs
      rw [List.pairwise_cons] at hs
      obtain ⟨i1, i2⟩ := ih (fun c hc => hne c (List.mem_cons_of_mem _ hc)) hs.2
      have hb0 := hne b (List.mem_cons_self ..)
      have hb' : (toIv b).lo < (toIv b).hi := by simp only [toIv]; omega
      have hc := subtract_canon (toIv b) (ps'.map toIv) hb'
      have hw := subtract_within (toIv b) (ps'.map toIv)
      rw [List.flatMap_cons]
      constructor
      · intro c hcm
        rcases List.mem_append.mp hcm with hcm | hcm
        · have := hw c hcm
          simp only [toIv] at this
          exact ⟨hc.1 c hcm, b, List.mem_cons_self .., this⟩
        · obtain ⟨h1, b', hb', h2⟩ := i1 c hcm
          exact ⟨h1, b', List.mem_cons_of_mem _ hb', h2⟩
      · rw [List.pairwise_append]
        refine ⟨hc.2.imp (fun {a b} hab => by omega), i2, ?_⟩
        intro a ha c hcm
        have h1 := hw a ha
        obtain ⟨_, b', hb'm, h2⟩ := i1 c hcm
        have := hs.1 b' hb'm hb0 (hne b' (List.mem_cons_of_mem _ hb'm))
        simp only [toIv] at h1
        omega
  obtain ⟨g1, g2⟩ := gen (rs'.filter (fun b => b.len ≠ 0))
    (fun b hb => by simpa using (List.mem_filter.mp hb).2) (List.Pairwise.filter _ hsrt)
  rw [← key] at g1 g2
  constructor
  · intro a ha
    have := (g1 (toIv a) (List.mem_map.mpr ⟨a, ha, rfl⟩)).1
    simp only [toIv] at this; omega
  · rw [List.pairwise_map] at g2
    exact g2.imp (fun {a b} hab => by simpa [toIv] using hab)

/-! ### the model's own sort produces a start-sorted permutation -/

theorem insertByStart_perm (a : Gpr) (l : List Gpr) : (insertByStart a l).Perm (a :: l) := by
  induction l with
  | nil => simp [insertByStart]
  | cons b t ih =>
    have e : insertByStart a (b :: t) = if startLt b a then b :: insertByStart a t else a :: b :: t := rfl
    rw [e]
    by_cases h : startLt b a
    · rw [if_pos h]
      exact (List.Perm.cons b ih).trans (List.Perm.swap a b t)
    · rw [if_neg h]

theorem sortByStart_perm (l : List Gpr) : (sortByStart l).Perm l := by
  induction l with
  | nil => exact List.Perm.refl _
  | cons a t ih => exact (insertByStart_perm a (sortByStart t)).trans (List.Perm.cons a ih)

theorem insertByStart_sorted (a : Gpr) (l : List Gpr) (ha : a.start < 2 ^ 64) (hl : ∀ g ∈ l, g.start < 2 ^ 64)
    (h : SortedByStart l) : SortedByStart (insertByStart a l) := by
  unfold SortedByStart at *
  induction l with
  | nil => simp [insertByStart]
  | cons b t ih =>
    rw [List.pairwise_cons] at h
    have hb := hl b (List.mem_cons_self ..)
    have e : insertByStart a (b :: t) = if startLt b a then b :: insertByStart a t else a :: b :: t := rfl
    rw [e]
    by_cases hlt : startLt b a
    · have hlt' : b.start < a.start := by simp only [startLt, decide_eq_true_eq] at hlt; omega
      rw [if_pos hlt, List.pairwise_cons]
      refine ⟨?_, ih (fun g hg => hl g (List.mem_cons_of_mem _ hg)) h.2⟩
      intro c hc
      rcases List.mem_cons.mp ((insertByStart_perm a t).mem_iff.mp hc) with rfl | hc
      · omega
      · exact h.1 c hc
    · have hlt' : a.start ≤ b.start := by simp only [startLt, decide_eq_true_eq] at hlt; omega
      rw [if_neg hlt, List.pairwise_cons, List.pairwise_cons]
      refine ⟨?_, h⟩
      intro c hc
      rcases List.mem_cons.mp hc with rfl | hc
      · omega
      · have := h.1 c hc; omega

theorem sortByStart_sorted (l : List Gpr) (hl : ∀ g ∈ l, g.start < 2 ^ 64) : SortedByStart (sortByStart l) := by
  induction l with
  | nil => exact List.Pairwise.nil
  | cons a t ih =>
    have hall : ∀ g ∈ sortByStart t, g.start < 2 ^ 64 :=
      fun g hg => hl g (List.mem_cons_of_mem _ ((sortByStart_perm t).mem_iff.mp hg))
    exact insertByStart_sorted a _ (hl a (List.mem_cons_self ..)) hall
      (ih (fun g hg => hl g (List.mem_cons_of_mem _ hg)))

end GceTcb.Intervals
