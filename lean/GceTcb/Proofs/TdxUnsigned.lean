import GceTcb.Proofs.TdxNoPanic
import GceTcb.Proofs.TdxShapes
/-
C08 (TDX half) — tdx.UnsignedTDX / generateAllPossibleMRTDs never panic when every entry of the shape
table is well formed (C05_shapes).  Core-only.
-/
namespace GceTcb.Mrtd
open GceTcb GceTcb.Intervals

theorem machineType_no_panic (table : List (String × Nat × Nat × Nat))
    (ht : ∀ e ∈ table, ShapeOK (shapeOfEntry e)) (name : String) :
    ¬ (machineTypeToRAMBanks table name).isPanic := by
  cases hf : findShape table name with
  | none => unfold machineTypeToRAMBanks; rw [hf]; simp [Outcome.isPanic]
  | some s =>
    obtain ⟨banks, hb, _⟩ := shapeOK_of_table table ht name s hf
    rw [hb]; simp [Outcome.isPanic]

/-- parametric in "tdx.MRTD does not panic on this image" -/
theorem shapeMeasurements_no_panic' (H : Bytes → Bytes) (table : List (String × Nat × Nat × Nat))
    (ht : ∀ e ∈ table, ShapeOK (shapeOfEntry e)) (fw : Bytes) (hmr : ∀ o, ¬ (mrtd H o fw).isPanic) (early : Bool) :
    ∀ (names : List String), ¬ (shapeMeasurements H table fw early names).isPanic := by
  intro names
  induction names with
  | nil => simp [shapeMeasurements, Outcome.isPanic]
  | cons name rest ih =>
    unfold shapeMeasurements
    have h1 := machineType_no_panic table ht name
    cases hb : machineTypeToRAMBanks table name with
    | panic p => rw [hb] at h1; simp [Outcome.isPanic] at h1
    | err c => simp [Outcome.isPanic]
    | ok banks =>
      simp only []
      have h2 := hmr { banks := banks, measureAllRegions := true }
      cases hm : mrtd H { banks := banks, measureAllRegions := true } fw with
      | panic p => rw [hm] at h2; simp [Outcome.isPanic] at h2
      | err c => simp [Outcome.isPanic]
      | ok m1 =>
        simp only []
        cases hr : shapeMeasurements H table fw early rest with
        | panic p => rw [hr] at ih; simp [Outcome.isPanic] at ih
        | err c => simp [Outcome.isPanic]
        | ok ms => simp [Outcome.isPanic]

theorem unsignedTDX_no_panic' (H : Bytes → Bytes) (table : List (String × Nat × Nat × Nat))
    (ht : ∀ e ∈ table, ShapeOK (shapeOfEntry e)) (fw : Bytes) (hmr : ∀ o, ¬ (mrtd H o fw).isPanic) (early : Bool)
    (names : List String) : ¬ (unsignedTDX H table fw early names).isPanic := by
  unfold unsignedTDX
  have h1 := shapeMeasurements_no_panic' H table ht fw hmr early names
  cases hs : shapeMeasurements H table fw early names with
  | panic p => rw [hs] at h1; simp [Outcome.isPanic] at h1
  | err c => simp [Outcome.isPanic]
  | ok ms =>
    simp only []
    have h2 := hmr {}
    cases hm : mrtd H {} fw with
    | panic p => rw [hm] at h2; simp [Outcome.isPanic] at h2
    | err c => simp [Outcome.isPanic]
    | ok m => simp [Outcome.isPanic]

theorem unsignedTDX_no_panic (H : Bytes → Bytes) (table : List (String × Nat × Nat × Nat))
    (ht : ∀ e ∈ table, ShapeOK (shapeOfEntry e)) (fw : Bytes) (hfw : fw.length < 2 ^ 36) (early : Bool)
    (names : List String) : ¬ (unsignedTDX H table fw early names).isPanic :=
  unsignedTDX_no_panic' H table ht fw (fun o => mrtd_no_panic H o fw hfw) early names

end GceTcb.Mrtd
