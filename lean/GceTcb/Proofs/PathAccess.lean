import GceTcb.Proofs.PathParse
/-
Helper lemmas for C19: on well-typed values the descriptor-tracking evaluator of access.go (with the
cursor fix) agrees step by step with the descriptor-free specification `walk`.
-/
namespace GceTcb.Path
open GceTcb

def DescTyped (sch : Schema) : Desc → Value → Prop
  | .nil, _ => True
  | .msg md, v => Typed sch (.msg md.name) v
  | .field fd, v => Typed sch (.fieldOf fd) v

theorem typed_msg_inv {sch : Schema} {n : Str} {v : Value} (h : Typed sch (.msg n) v) :
    ∃ fs, v = .msg n fs ∧ ∀ md k x fd, lookupMsg sch n = some md → (k, x) ∈ fs → md.byNumber k = some fd →
      Typed sch (.fieldOf fd) x := by
  cases h with
  | msg _ fs hf => exact ⟨fs, rfl, hf⟩

theorem typed_field_single {sch : Schema} {fd : Field} {v : Value} (h : Typed sch (.fieldOf fd) v)
    (hc : fd.card = .single) : Typed sch (.elemOf fd) v := by
  cases h with
  | single _ _ _ he => exact he
  | list _ _ hc' _ => rw [hc] at hc'; cases hc'
  | map _ _ _ _ hc' _ _ _ => rw [hc] at hc'; cases hc'

theorem typed_field_list {sch : Schema} {fd : Field} {v : Value} (h : Typed sch (.fieldOf fd) v)
    (hc : fd.card = .list) : ∃ xs, v = .list xs ∧ ∀ x, x ∈ xs → Typed sch (.elemOf fd) x := by
  cases h with
  | single _ _ hc' _ => rw [hc] at hc'; cases hc'
  | list _ xs _ he => exact ⟨xs, rfl, he⟩
  | map _ _ _ _ hc' _ _ _ => rw [hc] at hc'; cases hc'

theorem typed_field_map {sch : Schema} {fd : Field} {kk : Kind} {v : Value} (h : Typed sch (.fieldOf fd) v)
    (hc : fd.card = .map kk) : ∃ kc es, v = .map kc es ∧ kk.cls = some kc ∧
      (∀ k x, (k, x) ∈ es → k.cls = kc) ∧ (∀ k x, (k, x) ∈ es → Typed sch (.elemOf fd) x) := by
  cases h with
  | single _ _ hc' _ => rw [hc] at hc'; cases hc'
  | list _ _ hc' _ => rw [hc] at hc'; cases hc'
  | map _ kk' kc es hc' hk h1 h2 =>
    rw [hc] at hc'
    cases hc'
    exact ⟨kc, es, rfl, hk, h1, h2⟩

theorem typed_elem_msg {sch : Schema} {fd : Field} {v : Value} (h : Typed sch (.elemOf fd) v)
    (hk : fd.kind.isMessage = true) : Typed sch (.msg fd.ref) v := by
  cases h with
  | scalar _ s hs => rw [isMessage_cls hk] at hs; cases hs
  | sub _ _ _ hm => exact hm

/-- the default `Message.Get` returns for an unpopulated field is well typed -/
theorem default_typed {sch : Schema} {md : MsgDesc} (hwf : md.wf = true) {fd : Field} (hfd : fd ∈ md.fields) :
    Typed sch (.fieldOf fd) (defaultOf fd) := by
  unfold defaultOf
  cases hc : fd.card with
  | single =>
    simp only
    apply Typed.single _ _ hc
    unfold defaultElem
    cases hk : fd.kind.cls with
    | some c => exact .scalar _ _ (by simp [zeroScalar, hk])
    | none =>
      have hm : fd.kind.isMessage = true := by
        cases hm' : fd.kind.isMessage with
        | true => rfl
        | false => obtain ⟨c, hc'⟩ := not_isMessage_cls hm'; rw [hk] at hc'; cases hc'
      exact .sub _ _ hm (.msg _ _ (by intro _ _ _ _ _ hmem; simp at hmem))
  | list => exact .list _ _ hc (by intro x hx; simp at hx)
  | map kk =>
    obtain ⟨kc, hkc⟩ := wf_mapKey hwf hfd hc
    simp only [hkc, Option.getD_some]
    exact .map _ kk kc _ hc hkc (by intro _ _ h; simp at h) (by intro _ _ h; simp at h)

theorem lookupField_mem {fs : List (Nat × Value)} {n : Nat} {x : Value} (h : lookupField fs n = some x) :
    (n, x) ∈ fs := by
  unfold lookupField at h
  split at h
  · rename_i p hp
    simp only [Option.some.injEq] at h
    have h1 := List.find?_some hp
    have h2 := List.mem_of_find?_eq_some hp
    simp only [beq_iff_eq] at h1
    rw [← h1, ← h]; exact h2
  · simp at h

theorem lookupKey_mem {es : List (Scalar × Value)} {k : Scalar} {x : Value} (h : lookupKey es k = some x) :
    (k, x) ∈ es := by
  unfold lookupKey at h
  split at h
  · rename_i p hp
    simp only [Option.some.injEq] at h
    have h1 := List.find?_some hp
    have h2 := List.mem_of_find?_eq_some hp
    simp only [beq_iff_eq] at h1
    rw [← h1, ← h]; exact h2
  · simp at h

theorem msgGet_typed {sch : Schema} (hwf : sch.wf = true) {md : MsgDesc} (hl : Linked sch md) {fd : Field}
    (hfd : fd ∈ md.fields) {fs : List (Nat × Value)}
    (hf : ∀ md' k x fd', lookupMsg sch md.name = some md' → (k, x) ∈ fs → md'.byNumber k = some fd' →
      Typed sch (.fieldOf fd') x) :
    Typed sch (.fieldOf fd) (msgGet fs fd) := by
  have hmwf := wf_of_linked hwf hl
  unfold msgGet
  cases hlk : lookupField fs fd.number with
  | some x => exact hf md _ _ fd hl (lookupField_mem hlk) (wf_byNumber hmwf hfd)
  | none => exact default_typed hmwf hfd

/-- the cursor value at a field-access target is a message of the target type -/
theorem target_value {sch : Schema} {d : Desc} {md : MsgDesc} {cur : Value} (ht : Target sch d md)
    (hv : DescTyped sch d cur) : Typed sch (.msg md.name) cur := by
  cases ht with
  | msg _ _ => exact hv
  | field f _ hc hm =>
    have hs := single_flags hc
    have he := typed_field_single hv hc
    unfold Field.message at hm
    rw [hs.2] at hm
    simp only [Bool.false_eq_true, if_false] at hm
    rcases resolveRef_ok hm with ⟨hk, md', hd, hlk⟩ | ⟨_, hd⟩
    · cases hd
      have := typed_elem_msg he hk
      rw [(lookupMsg_some hlk).1]; exact this
    · cases hd

theorem elem_desc_typed {sch : Schema} {fd : Field} {d' : Desc} {x : Value}
    (hr : resolveRef sch fd.kind fd.ref = .ok d') (hx : Typed sch (.elemOf fd) x) : DescTyped sch d' x := by
  rcases resolveRef_ok hr with ⟨hk, md, hd, hlk⟩ | ⟨_, hd⟩
  · subst hd
    have := typed_elem_msg hx hk
    simp only [DescTyped]
    rw [(lookupMsg_some hlk).1]; exact this
  · subst hd; trivial

theorem getElem?_of_lt_int {xs : List Value} {i : Int} (h0 : 0 ≤ i) (h1 : ¬ i ≥ (xs.length : Int)) :
    ∃ x, xs[i.toNat]? = some x ∧ x ∈ xs := by
  have : i.toNat < xs.length := by omega
  exact ⟨xs[i.toNat], List.getElem?_eq_getElem this, List.getElem_mem this⟩

/-- One step of a well-typed path on a well-typed cursor: evaluator and specification agree, and the
    new cursor is again well typed for the new descriptor. -/
theorem evalStep_eq_walkStep {sch : Schema} (hwf : sch.wf = true) {d d' : Desc} {s : Step}
    (hs : StepOK sch d s d') {cur : Value} (hv : DescTyped sch d cur) (i : Nat) :
    (∃ c, evalStep .fixed sch i d cur s = .ok (d', c) ∧ walkStep cur s = .ok c ∧ DescTyped sch d' c) ∨
    (∃ e, evalStep .fixed sch i d cur s = .err e ∧ walkStep cur s = .err e) := by
  cases hs with
  | field _ md fd ht hfd =>
    left
    have hl := target_linked ht
    have hmwf := wf_of_linked hwf hl
    obtain ⟨fs, hcur, hf⟩ := typed_msg_inv (target_value ht hv)
    subst hcur
    refine ⟨msgGet fs fd, ?_, rfl, msgGet_typed hwf hl hfd hf⟩
    cases ht with
    | msg _ _ =>
      simp only [evalStep, Outcome.bind_ok, wf_byNumber hmwf hfd, valueMessageGet, wf_parent hmwf hfd, if_true]
    | field f _ _ hm =>
      simp only [evalStep, hm, Outcome.bind_ok, wf_byNumber hmwf hfd, valueMessageGet, wf_parent hmwf hfd, if_true]
  | list fd idx _ hc h0 hm =>
    obtain ⟨xs, hcur, hx⟩ := typed_field_list hv hc
    subst hcur
    have hfl := isList_of_card hc
    have hr : resolveRef sch fd.kind fd.ref = .ok d' := by
      unfold Field.message at hm; rw [hfl.2] at hm; simpa using hm
    simp only [evalStep, hfl.1, Bool.not_true, Bool.false_eq_true, if_false, hm, Outcome.bind_ok, valueList,
      show ¬ idx < 0 by omega, walkStep, false_or]
    by_cases hge : idx ≥ (xs.length : Int)
    · right; exact ⟨"range", by simp [hge], by simp [hge]⟩
    · left
      obtain ⟨x, hxe, hxm⟩ := getElem?_of_lt_int h0 hge
      exact ⟨x, by simp [hge, hxe], by simp [hge, hxe], elem_desc_typed hr (hx x hxm)⟩
  | map fd kk k _ hc hk hm =>
    obtain ⟨kc, es, hcur, hkc, hkeys, hvals⟩ := typed_field_map hv hc
    subst hcur
    have hmap := isMap_of_card hc
    have hr : resolveRef sch fd.kind fd.ref = .ok d' := by
      unfold Field.mapValueMessage at hm; rw [hmap] at hm; simpa using hm
    have hkc' : k.cls = kc := by rw [hkc] at hk; exact (Option.some.inj hk).symm
    simp only [evalStep, hmap, Bool.not_true, Bool.false_eq_true, if_false, valueMapGet, hkc', if_true,
      Outcome.bind_ok, walkStep]
    cases hlk : lookupKey es k with
    | none => right; exact ⟨"key", rfl, rfl⟩
    | some x =>
      left
      refine ⟨x, ?_, rfl, elem_desc_typed hr (hvals k x (lookupKey_mem hlk))⟩
      simp only [Variant.fixed, if_true, hm, Outcome.bind_ok]

theorem evalFrom_eq_walkFrom {sch : Schema} (hwf : sch.wf = true) {d d' : Desc} {steps : List Step}
    (hp : PathOK sch d steps d') :
    ∀ (i : Nat) (cur : Value) (acc : List Value), DescTyped sch d cur →
      evalFrom .fixed sch steps i d cur acc = walkFrom steps cur acc := by
  induction hp with
  | nil d => intro i cur acc _; rfl
  | cons d d1 d2 s rest hs _ ih =>
    intro i cur acc hv
    unfold evalFrom walkFrom
    rcases evalStep_eq_walkStep hwf hs hv i with ⟨c, he, hw, ht⟩ | ⟨e, he, hw⟩
    · rw [he, hw]; exact ih (i + 1) c (acc ++ [c]) ht
    · rw [he, hw]

theorem walkStep_not_panic (cur : Value) (s : Step) : (walkStep cur s).isPanic = false := by
  unfold walkStep
  repeat' split
  all_goals rfl

theorem walkFrom_not_panic : ∀ (steps : List Step) (cur : Value) (acc : List Value),
    (walkFrom steps cur acc).isPanic = false := by
  intro steps
  induction steps with
  | nil => intro cur acc; rfl
  | cons s rest ih =>
    intro cur acc
    unfold walkFrom
    have := walkStep_not_panic cur s
    cases hws : walkStep cur s with
    | ok c => exact ih c _
    | err e => rfl
    | panic p => rw [hws] at this; simp [Outcome.isPanic] at this

/-! ### soundness of the executable type checker -/

theorem typedFieldsB_mem {sch : Schema} {md : MsgDesc} : ∀ (fs : List (Nat × Value)),
    typedFieldsB sch (some md) fs = true → ∀ n x fd, (n, x) ∈ fs → md.byNumber n = some fd →
      typedFieldB sch fd x = true := by
  intro fs
  induction fs with
  | nil => intro _ n x fd h; simp at h
  | cons p rest ih =>
    intro h n x fd hm hb
    obtain ⟨pn, px⟩ := p
    simp only [typedFieldsB, Bool.and_eq_true] at h
    rcases List.mem_cons.mp hm with he | hr
    · cases he
      rw [hb] at h
      exact h.1
    · exact ih h.2 n x fd hr hb

theorem typedListB_mem {sch : Schema} {fd : Field} : ∀ (xs : List Value),
    typedListB sch fd xs = true → ∀ x, x ∈ xs → typedElemB sch fd x = true := by
  intro xs
  induction xs with
  | nil => intro _ x h; simp at h
  | cons a r ih =>
    intro h x hm
    simp only [typedListB, Bool.and_eq_true] at h
    rcases List.mem_cons.mp hm with rfl | hr
    · exact h.1
    · exact ih h.2 x hr

theorem typedEntriesB_mem {sch : Schema} {fd : Field} {kc : VClass} : ∀ (es : List (Scalar × Value)),
    typedEntriesB sch fd kc es = true → ∀ k x, (k, x) ∈ es → k.cls = kc ∧ typedElemB sch fd x = true := by
  intro es
  induction es with
  | nil => intro _ k x h; simp at h
  | cons p r ih =>
    intro h k x hm
    obtain ⟨pk, px⟩ := p
    simp only [typedEntriesB, Bool.and_eq_true, beq_iff_eq] at h
    rcases List.mem_cons.mp hm with he | hr
    · cases he; exact ⟨h.1.1, h.1.2⟩
    · exact ih h.2 k x hr

def SoundAt (sch : Schema) (v : Value) : Prop :=
  (∀ fd, typedElemB sch fd v = true → Typed sch (.elemOf fd) v) ∧
  (∀ fd, typedFieldB sch fd v = true → Typed sch (.fieldOf fd) v)

theorem typed_msg_of_fields {sch : Schema} {ty : Str} {fs : List (Nat × Value)}
    (ih : ∀ p, p ∈ fs → SoundAt sch p.2) (h : typedFieldsB sch (lookupMsg sch ty) fs = true) :
    Typed sch (.msg ty) (.msg ty fs) := by
  apply Typed.msg
  intro md n x fd hl hm hb
  rw [hl] at h
  exact (ih (n, x) hm).2 fd (typedFieldsB_mem fs h n x fd hm hb)

theorem typedB_sound_all (sch : Schema) (v : Value) : SoundAt sch v := by
  refine Value.rec (motive_1 := fun v => SoundAt sch v)
    (motive_2 := fun fs => ∀ p, p ∈ fs → SoundAt sch p.2)
    (motive_3 := fun xs => ∀ x, x ∈ xs → SoundAt sch x)
    (motive_4 := fun es => ∀ p, p ∈ es → SoundAt sch p.2)
    (motive_5 := fun p => SoundAt sch p.2)
    (motive_6 := fun p => SoundAt sch p.2)
    ?_ ?_ ?_ ?_ ?_ ?_ ?_ ?_ ?_ ?_ ?_ ?_ v
  · -- scalar
    intro s
    constructor
    · intro fd h
      simp only [typedElemB, beq_iff_eq] at h
      exact .scalar _ _ h
    · intro fd h
      simp only [typedFieldB, Bool.and_eq_true, beq_iff_eq] at h
      exact .single _ _ h.1 (.scalar _ _ h.2)
  · -- msg
    intro ty fs ih
    constructor
    · intro fd h
      simp only [typedElemB, Bool.and_eq_true, beq_iff_eq] at h
      obtain ⟨⟨hk, hty⟩, hf⟩ := h
      subst hty
      exact .sub _ _ hk (typed_msg_of_fields ih hf)
    · intro fd h
      simp only [typedFieldB, Bool.and_eq_true, beq_iff_eq] at h
      obtain ⟨⟨⟨hc, hk⟩, hty⟩, hf⟩ := h
      subst hty
      exact .single _ _ hc (.sub _ _ hk (typed_msg_of_fields ih hf))
  · -- list
    intro xs ih
    constructor
    · intro fd h; simp [typedElemB] at h
    · intro fd h
      simp only [typedFieldB, Bool.and_eq_true, beq_iff_eq] at h
      exact .list _ _ h.1 (fun x hx => (ih x hx).1 fd (typedListB_mem xs h.2 x hx))
  · -- map
    intro kc es ih
    constructor
    · intro fd h; simp [typedElemB] at h
    · intro fd h
      simp only [typedFieldB, Bool.and_eq_true] at h
      cases hc : fd.card with
      | single => rw [hc] at h; simp at h
      | list => rw [hc] at h; simp at h
      | map kk =>
        rw [hc] at h
        simp only [beq_iff_eq] at h
        exact .map _ kk kc es hc h.1
          (fun k x hm => (typedEntriesB_mem es h.2 k x hm).1)
          (fun k x hm => (ih (k, x) hm).1 fd (typedEntriesB_mem es h.2 k x hm).2)
  · intro p h; simp at h
  · intro hd tl ihh iht p hp
    rcases List.mem_cons.mp hp with rfl | h
    · exact ihh
    · exact iht p h
  · intro p h; simp at h
  · intro hd tl ihh iht p hp
    rcases List.mem_cons.mp hp with rfl | h
    · exact ihh
    · exact iht p h
  · intro p h; simp at h
  · intro hd tl ihh iht p hp
    rcases List.mem_cons.mp hp with rfl | h
    · exact ihh
    · exact iht p h
  · intro _ _ ih; exact ih
  · intro _ _ ih; exact ih

/-- The executable checker is sound for the typing judgement. -/
theorem typedB_sound {sch : Schema} {root : Str} {v : Value} (h : typedB sch root v = true) :
    Typed sch (.msg root) v := by
  cases v with
  | msg ty fs =>
    simp only [typedB, Bool.and_eq_true, beq_iff_eq] at h
    obtain ⟨hty, hf⟩ := h
    subst hty
    exact typed_msg_of_fields (fun p _ => typedB_sound_all sch p.2) hf
  | scalar _ => simp [typedB] at h
  | list _ => simp [typedB] at h
  | map _ _ => simp [typedB] at h

end GceTcb.Path
