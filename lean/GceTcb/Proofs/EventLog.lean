import GceTcb.Model.EventLog
import GceTcb.Proofs.Codecs
/-
Helper lemmas for C18 (event-log codecs). Core-only.
-/
namespace GceTcb.EventLog
open GceTcb GceTcb.Codec GceTcb.Codecs

/-! ## Res -/

@[simp] theorem andThen_ok {α β : Type} (a : α) (r : Bytes) (f : α → Bytes → Res β) : (Res.ok a r).andThen f = f a r := rfl
@[simp] theorem andThen_eof {α β : Type} (f : α → Bytes → Res β) : (Res.eof : Res α).andThen f = .eof := rfl
@[simp] theorem andThen_fail {α β : Type} (f : α → Bytes → Res β) : (Res.fail : Res α).andThen f = .fail := rfl

theorem andThen_ok_inv {α β : Type} {r : Res α} {f : α → Bytes → Res β} {v : β} {rest : Bytes}
    (h : r.andThen f = .ok v rest) : ∃ a b, r = .ok a b ∧ f a b = .ok v rest := by
  cases r with
  | ok a b => exact ⟨a, b, rfl, h⟩
  | eof => cases h
  | fail => cases h

theorem map_ok_inv {α β : Type} {r : Res α} {f : α → β} {v : β} {rest : Bytes}
    (h : r.map f = .ok v rest) : ∃ a, r = .ok a rest ∧ f a = v := by
  cases r with
  | ok a b => simp only [Res.map] at h; injection h with h1 h2; exact ⟨a, by rw [h2], h1⟩
  | eof => cases h
  | fail => cases h

theorem noEof_ok_inv {α : Type} {r : Res α} {v : α} {rest : Bytes} (h : r.noEof = .ok v rest) : r = .ok v rest := by
  cases r with
  | ok a b => exact h
  | eof => cases h
  | fail => cases h

/-! ## primitive reads -/

theorem readFull_append (x t : Bytes) (n : Nat) (h : x.length = n) : readFull n (x ++ t) = .ok x t := by
  simp only [readFull]
  rw [if_pos (by simp; omega), List.take_left' h, List.drop_left' h]

theorem readFull_ok_inv {n : Nat} {b x rest : Bytes} (h : readFull n b = .ok x rest) :
    b = x ++ rest ∧ x.length = n := by
  simp only [readFull] at h
  by_cases hn : n ≤ b.length
  · rw [if_pos hn] at h
    injection h with h1 h2
    subst h1; subst h2
    exact ⟨(List.take_append_drop n b).symm, by simp [List.length_take]; omega⟩
  · rw [if_neg hn] at h
    split at h <;> cases h

theorem readFull_short {n : Nat} {b : Bytes} (h : b.length < n) : (readFull n b).isOk = false := by
  simp only [readFull]
  rw [if_neg (by omega)]
  split <;> rfl

theorem readLE_append (n v : Nat) (t : Bytes) (h : v < 256 ^ n) : readLE n (leBytes n v ++ t) = .ok v t := by
  simp only [readLE, readFull_append _ t n (leBytes_length n v), Res.map, leVal_leBytes_of_lt n v h]

theorem readLE_ok_inv {n v : Nat} {b rest : Bytes} (h : readLE n b = .ok v rest) :
    b = leBytes n v ++ rest ∧ v < 256 ^ n := by
  obtain ⟨x, hx, hv⟩ := map_ok_inv h
  obtain ⟨hb, hl⟩ := readFull_ok_inv hx
  subst hv
  refine ⟨?_, ?_⟩
  · rw [← hl, leBytes_leVal]; exact hb
  · have := leVal_lt x; rwa [hl] at this

theorem readLE_short {n : Nat} {b : Bytes} (h : b.length < n) : (readLE n b).isOk = false := by
  have := readFull_short h
  simp only [readLE]
  cases hr : readFull n b with
  | ok a r => rw [hr] at this; cases this
  | eof => rfl
  | fail => rfl

/-! ## size-prefixed bodies -/

/-- The reader is not asked for a zero-length read at end of input (or answers it with nil). -/
def NoEmptyEofRead (cfg : Cfg) (d t : Bytes) : Prop :=
  cfg.strict = true ∨ cfg.kind = .buffer ∨ d ++ t ≠ []

theorem readBody_append (cfg : Cfg) (zf : Bool) (d t : Bytes) (h : NoEmptyEofRead cfg d t) :
    readBody cfg zf d.length (d ++ t) = .ok d t := by
  simp only [readBody]
  by_cases hs : cfg.strict = true
  · rw [if_pos hs]
    by_cases h0 : d.length = 0
    · rw [if_pos h0]
      have : d = [] := List.eq_nil_of_length_eq_zero h0
      subst this; rfl
    · rw [if_neg h0]; exact readFull_append d t _ rfl
  · rw [if_neg hs]
    have he : rawReadEof cfg.kind d.length (d ++ t) = false := by
      simp only [rawReadEof]
      rcases h with h | h | h
      · exact absurd h hs
      · simp [h]
        intro h1 h2; subst h1; rfl
      · cases hdt : d ++ t with
        | nil => exact absurd hdt h
        | cons x xs => rfl
    rw [he]
    simp only [Bool.false_eq_true, if_false]
    have e1 : (d ++ t).take d.length = d := List.take_left' rfl
    have e2 : (d ++ t).drop d.length = t := List.drop_left' rfl
    cases zf with
    | true =>
      simp only [if_true, e1, e2]
      have : d.length - (d ++ t).length = 0 := by simp
      rw [this]; simp [zeros]
    | false =>
      simp only [Bool.false_eq_true, if_false, e1, e2]
      rw [if_neg (by simp)]

/-- Whenever the count is checked (strict readers, or TCGEventData's original read) an accepted body
    is exactly the next `size` bytes of the input. -/
theorem readBody_ok_inv {cfg : Cfg} {zf : Bool} {size : Nat} {rest d r : Bytes}
    (hc : cfg.strict = true ∨ zf = false) (h : readBody cfg zf size rest = .ok d r) :
    rest = d ++ r ∧ d.length = size := by
  simp only [readBody] at h
  by_cases hs : cfg.strict = true
  · rw [if_pos hs] at h
    by_cases h0 : size = 0
    · rw [if_pos h0] at h
      injection h with h1 h2
      subst h1; subst h2; exact ⟨rfl, h0.symm⟩
    · rw [if_neg h0] at h; exact readFull_ok_inv h
  · rw [if_neg hs] at h
    have hz : zf = false := by rcases hc with h | h; exact absurd h hs; exact h
    subst hz
    by_cases he : rawReadEof cfg.kind size rest = true
    · rw [if_pos he] at h; cases h
    · rw [if_neg he] at h
      simp only [Bool.false_eq_true, if_false] at h
      by_cases hl : rest.length < size
      · rw [if_pos hl] at h; cases h
      · rw [if_neg hl] at h
        injection h with h1 h2
        subst h1; subst h2
        exact ⟨(List.take_append_drop size rest).symm, by simp [List.length_take]; omega⟩

/-- The original readSizedArray, when the input is long enough. -/
theorem readBody_ok_inv_long {cfg : Cfg} {size : Nat} {rest d r : Bytes}
    (hl : size ≤ rest.length) (h : readBody cfg true size rest = .ok d r) :
    rest = d ++ r ∧ d.length = size := by
  by_cases hs : cfg.strict = true
  · exact readBody_ok_inv (Or.inl hs) h
  · simp only [readBody] at h
    rw [if_neg hs] at h
    by_cases he : rawReadEof cfg.kind size rest = true
    · rw [if_pos he] at h; cases h
    · rw [if_neg he] at h
      simp only [if_true] at h
      injection h with h1 h2
      subst h1; subst h2
      have : size - rest.length = 0 := by omega
      rw [this]
      simp only [zeros, List.replicate_zero, List.append_nil]
      exact ⟨(List.take_append_drop size rest).symm, by simp [List.length_take]; omega⟩

/-- The repaired readers refuse a declared size that exceeds what remains. -/
theorem readBody_strict_short {cfg : Cfg} {zf : Bool} {size : Nat} {rest : Bytes}
    (hs : cfg.strict = true) (hl : rest.length < size) : (readBody cfg zf size rest).isOk = false := by
  simp only [readBody]
  rw [if_pos hs, if_neg (by omega)]
  exact readFull_short hl

/-! ## sized arrays, strings, GUIDs, digests -/

def encSized (w : Nat) (d : Bytes) : Bytes := leBytes w d.length ++ d

theorem writeSizedArray_eq (w : Nat) (d : Bytes) (h : d.length < 256 ^ w) : writeSizedArray w d = some (encSized w d) := by
  simp [writeSizedArray, h, encSized]

theorem writeSizedArray_long (w : Nat) (d : Bytes) (h : ¬ d.length < 256 ^ w) : writeSizedArray w d = none := by
  simp [writeSizedArray, h]

theorem readSizedArray_enc (cfg : Cfg) (w : Nat) (d t : Bytes) (h : d.length < 256 ^ w) (he : NoEmptyEofRead cfg d t) :
    readSizedArray cfg w (encSized w d ++ t) = .ok d t := by
  simp only [readSizedArray, encSized, List.append_assoc]
  rw [readLE_append w d.length _ h, andThen_ok, readBody_append cfg true d t he]

theorem readSizedArray_canon {cfg : Cfg} {w : Nat} {b d rest : Bytes} (hs : cfg.strict = true)
    (h : readSizedArray cfg w b = .ok d rest) : b = encSized w d ++ rest ∧ d.length < 256 ^ w := by
  obtain ⟨size, r1, h1, h2⟩ := andThen_ok_inv h
  obtain ⟨hb, hlt⟩ := readLE_ok_inv h1
  obtain ⟨hr, hl⟩ := readBody_ok_inv (Or.inl hs) h2
  subst hl
  exact ⟨by rw [hb, hr, encSized, List.append_assoc], hlt⟩

theorem readSizedArray_canon_long {cfg : Cfg} {w : Nat} {b d rest : Bytes}
    (hl : leVal (b.take w) ≤ b.length - w)
    (h : readSizedArray cfg w b = .ok d rest) : b = encSized w d ++ rest ∧ d.length < 256 ^ w := by
  obtain ⟨size, r1, h1, h2⟩ := andThen_ok_inv h
  obtain ⟨hb, hlt⟩ := readLE_ok_inv h1
  have hsz : leVal (b.take w) = size ∧ b.length - w = r1.length := by
    rw [hb]
    have := leBytes_length w size
    rw [List.take_left' this, leVal_leBytes_of_lt w size hlt]
    simp
  obtain ⟨hr, hl'⟩ := readBody_ok_inv_long (by omega) h2
  subst hl'
  exact ⟨by rw [hb, hr, encSized, List.append_assoc], hlt⟩

theorem readSizedArray_strict_short {cfg : Cfg} {w : Nat} {b : Bytes} (hs : cfg.strict = true)
    (hl : b.length < w ∨ b.length - w < leVal (b.take w)) : (readSizedArray cfg w b).isOk = false := by
  simp only [readSizedArray]
  cases h1 : readLE w b with
  | eof => rfl
  | fail => rfl
  | ok size r1 =>
    obtain ⟨hb, hlt⟩ := readLE_ok_inv h1
    have hsz : leVal (b.take w) = size ∧ b.length - w = r1.length ∧ w ≤ b.length := by
      rw [hb]
      have := leBytes_length w size
      rw [List.take_left' this, leVal_leBytes_of_lt w size hlt]
      simp
    rw [andThen_ok]
    exact readBody_strict_short hs (by omega)

/-- encoding of a C string: size byte, the bytes, the terminator -/
def encCStr (s : Bytes) : Bytes := leBytes 1 (s.length + 1) ++ (s ++ [0])

theorem writeCStr_eq (s : Bytes) (h : s.length ≤ 254) : writeCStr s = some (encCStr s) := by
  simp only [writeCStr, encCStr]; rw [if_neg (by omega)]

theorem writeCStr_long (s : Bytes) (h : 254 < s.length) : writeCStr s = none := by
  simp only [writeCStr]; rw [if_pos (by omega)]

theorem encCStr_eq (s : Bytes) : encCStr s = encSized 1 (s ++ [0]) := by simp [encCStr, encSized]

theorem readCStr_enc (cfg : Cfg) (s t : Bytes) (h : s.length ≤ 254) : readCStr cfg (encCStr s ++ t) = .ok s t := by
  simp only [readCStr, encCStr_eq]
  rw [readSizedArray_enc cfg 1 (s ++ [0]) t (by simp; omega) (Or.inr (Or.inr (by simp)))]
  simp

theorem readCStr_canon {cfg : Cfg} {b s rest : Bytes} (hs : cfg.strict = true) (h : readCStr cfg b = .ok s rest) :
    b = encCStr s ++ rest ∧ s.length ≤ 254 := by
  obtain ⟨data, r1, h1, h2⟩ := andThen_ok_inv h
  obtain ⟨hb, hlt⟩ := readSizedArray_canon hs h1
  by_cases hc : (data.isEmpty || data.getLast? != some 0) = true
  · rw [if_pos hc] at h2; cases h2
  · rw [if_neg hc] at h2
    injection h2 with e1 e2
    subst e1; subst e2
    simp only [Bool.or_eq_true, not_or, Bool.not_eq_true, bne_eq_false_iff_eq] at hc
    have hne : data ≠ [] := by intro h; simp [h] at hc
    have hlast : data = data.dropLast ++ [0] := by
      obtain ⟨ys, hys⟩ := List.getLast?_eq_some_iff.mp hc.2
      rw [hys]; simp
    refine ⟨?_, ?_⟩
    · rw [encCStr_eq, ← hlast]; exact hb
    · have : data.length = data.dropLast.length + 1 := by
        conv => lhs; rw [hlast]
        simp
      simp at hlt; omega

theorem readCStr_strict_terminator (cfg : Cfg) (data t : Bytes) (h : data.length < 256) (hne : data ≠ [])
    (hl : data.getLast? ≠ some 0) : readCStr cfg (encSized 1 data ++ t) = .fail := by
  simp only [readCStr]
  rw [readSizedArray_enc cfg 1 data t (by simpa using h) (Or.inr (Or.inr (by simp [hne])))]
  simp [hl]

theorem readGuid_enc (u t : Bytes) (h : u.length = 16) : readGuid (writeGuid u ++ t) = .ok u t := by
  simp only [readGuid, writeGuid]
  rw [readFull_append _ t 16 (Rec.enc_length uuidRec u)]
  simp only [Res.map]
  have := decF_encF uuidRec.ws (uuidRec.toVals u) [] (uuidLaws.fits u h)
  rw [List.append_nil] at this
  show Res.ok (uuidRec.ofVals (decF uuidRec.ws (encF uuidRec.ws (uuidRec.toVals u)))) t = _
  rw [this, uuidLaws.of_to u h]

theorem readGuid_canon {b u rest : Bytes} (h : readGuid b = .ok u rest) : b = writeGuid u ++ rest ∧ u.length = 16 := by
  obtain ⟨raw, h1, h2⟩ := map_ok_inv h
  obtain ⟨hb, hl⟩ := readFull_ok_inv h1
  subst h2
  refine ⟨?_, uuidLaws.inr raw rfl⟩
  simp only [writeGuid, Rec.enc]
  rw [uuidLaws.to_of raw rfl, encF_decF _ _ (by rw [hl]; exact Nat.le_refl 16)]
  have : raw.take uuidRec.ws.sum = raw := List.take_of_length_le (by rw [hl]; exact Nat.le_refl 16)
  rw [this]; exact hb

def Digest.InRange (d : Digest) : Prop := tpmAlgoSize d.alg = some d.digest.length

instance (d : Digest) : Decidable d.InRange := by unfold Digest.InRange; exact inferInstance

def encDigest (d : Digest) : Bytes := leBytes 2 d.alg ++ d.digest

theorem tpmAlgoSize_lt {alg sz : Nat} (h : tpmAlgoSize alg = some sz) : alg < 256 ^ 2 ∧ 0 < sz ∧ sz ≤ 48 := by
  simp only [tpmAlgoSize] at h
  split at h
  · injection h with h; omega
  · split at h
    · injection h with h; omega
    · split at h
      · injection h with h; omega
      · cases h

theorem writeDigest_eq (d : Digest) (h : d.InRange) : writeDigest d = some (encDigest d) := by
  simp only [writeDigest, Digest.InRange] at *
  rw [h]; simp [encDigest]

theorem writeDigest_strict (d : Digest) (h : ¬ d.InRange) : writeDigest d = none := by
  simp only [writeDigest, Digest.InRange] at *
  cases ha : tpmAlgoSize d.alg with
  | none => rfl
  | some sz =>
    simp only
    rw [if_neg]
    intro hl; apply h; rw [ha, hl]

theorem readDigest_enc (d : Digest) (t : Bytes) (h : d.InRange) : readDigest (encDigest d ++ t) = .ok d t := by
  simp only [readDigest, encDigest, List.append_assoc]
  rw [readLE_append 2 d.alg _ (tpmAlgoSize_lt h).1, andThen_ok]
  simp only [Digest.InRange] at h
  rw [h]
  simp only
  rw [readFull_append d.digest t _ rfl]
  rfl

theorem readDigest_canon {b rest : Bytes} {d : Digest} (h : readDigest b = .ok d rest) :
    b = encDigest d ++ rest ∧ d.InRange := by
  obtain ⟨alg, r1, h1, h2⟩ := andThen_ok_inv h
  obtain ⟨hb, _⟩ := readLE_ok_inv h1
  cases ha : tpmAlgoSize alg with
  | none => rw [ha] at h2; cases h2
  | some sz =>
    rw [ha] at h2
    simp only at h2
    obtain ⟨x, h3, h4⟩ := map_ok_inv h2
    obtain ⟨hr, hl⟩ := readFull_ok_inv (noEof_ok_inv h3)
    subst h4
    refine ⟨by rw [hb, hr, encDigest, List.append_assoc], ?_⟩
    simp only [Digest.InRange]; rw [ha, hl]

theorem readDigest_unknown_alg (b : Bytes) (h : b.length ≥ 2) (hu : tpmAlgoSize (leVal (b.take 2)) = none) :
    readDigest b = .fail := by
  simp only [readDigest, readLE, readFull]
  rw [if_pos h]
  simp only [Res.map, andThen_ok, hu]

/-! ## digest arrays -/

def encDigests : List Digest → Bytes
  | [] => []
  | d :: ds => encDigest d ++ encDigests ds

def encDigestArray (ds : List Digest) : Bytes := leBytes 4 ds.length ++ encDigests ds

theorem writeDigests_eq (ds : List Digest) (h : ∀ d ∈ ds, d.InRange) : writeDigests ds = some (encDigests ds) := by
  induction ds with
  | nil => rfl
  | cons d ds ih =>
    simp only [writeDigests, encDigests]
    rw [writeDigest_eq d (h d (by simp)), ih (fun x hx => h x (by simp [hx]))]

theorem writeDigestArray_eq (ds : List Digest) (h : ∀ d ∈ ds, d.InRange) :
    writeDigestArray ds = some (encDigestArray ds) := by
  simp only [writeDigestArray, writeDigests_eq ds h, encDigestArray]

theorem writeDigests_strict (ds : List Digest) (h : ¬ ∀ d ∈ ds, d.InRange) : writeDigests ds = none := by
  induction ds with
  | nil => exact absurd (by intro d hd; cases hd) h
  | cons d ds ih =>
    simp only [writeDigests]
    by_cases hd : d.InRange
    · have : ¬ ∀ x ∈ ds, x.InRange := by
        intro hh; apply h; intro x hx
        rcases List.mem_cons.mp hx with e | e
        · rw [e]; exact hd
        · exact hh x e
      rw [ih this]
      cases writeDigest d <;> rfl
    · rw [writeDigest_strict d hd]

theorem readDigests_enc (ds : List Digest) (t : Bytes) (h : ∀ d ∈ ds, d.InRange) :
    readDigests ds.length (encDigests ds ++ t) = .ok ds t := by
  induction ds with
  | nil => rfl
  | cons d ds ih =>
    simp only [List.length_cons, readDigests, encDigests, List.append_assoc]
    rw [readDigest_enc d _ (h d (by simp))]
    simp only [Res.noEof, andThen_ok]
    rw [ih (fun x hx => h x (by simp [hx]))]
    rfl

theorem readDigests_canon {n : Nat} {b rest : Bytes} {ds : List Digest} (h : readDigests n b = .ok ds rest) :
    b = encDigests ds ++ rest ∧ ds.length = n ∧ ∀ d ∈ ds, d.InRange := by
  induction n generalizing b ds with
  | zero =>
    simp only [readDigests] at h
    injection h with h1 h2
    subst h1; subst h2
    exact ⟨rfl, rfl, by intro d hd; cases hd⟩
  | succ n ih =>
    simp only [readDigests] at h
    obtain ⟨d, r1, h1, h2⟩ := andThen_ok_inv h
    obtain ⟨tl, h3, h4⟩ := map_ok_inv h2
    obtain ⟨hb, hd⟩ := readDigest_canon (noEof_ok_inv h1)
    obtain ⟨hr, hl, hall⟩ := ih h3
    subst h4
    refine ⟨by rw [hb, hr, encDigests, List.append_assoc], by simp [hl], ?_⟩
    intro x hx
    rcases List.mem_cons.mp hx with e | e
    · rw [e]; exact hd
    · exact hall x e

theorem readDigestArray_enc (ds : List Digest) (t : Bytes) (hn : ds.length < 2 ^ 32) (h : ∀ d ∈ ds, d.InRange) :
    readDigestArray (encDigestArray ds ++ t) = .ok ds t := by
  simp only [readDigestArray, encDigestArray, List.append_assoc]
  rw [readLE_append 4 ds.length _ (by omega)]
  simp only [Res.noEof, andThen_ok]
  by_cases h0 : ds.length = 0
  · rw [if_pos h0]
    have : ds = [] := List.eq_nil_of_length_eq_zero h0
    subst this; rfl
  · rw [if_neg h0]; exact readDigests_enc ds t h

theorem readDigestArray_canon {b rest : Bytes} {ds : List Digest} (h : readDigestArray b = .ok ds rest) :
    b = encDigestArray ds ++ rest ∧ ds.length < 2 ^ 32 ∧ ∀ d ∈ ds, d.InRange := by
  obtain ⟨n, r1, h1, h2⟩ := andThen_ok_inv h
  obtain ⟨hb, hlt⟩ := readLE_ok_inv (noEof_ok_inv h1)
  by_cases h0 : n = 0
  · rw [if_pos h0] at h2
    injection h2 with e1 e2
    subst e1; subst e2; subst h0
    exact ⟨by rw [hb]; rfl, by simp, by intro d hd; cases hd⟩
  · rw [if_neg h0] at h2
    obtain ⟨hr, hl, hall⟩ := readDigests_canon h2
    subst hl
    exact ⟨by rw [hb, hr, encDigestArray, List.append_assoc], by omega, hall⟩

theorem readDigests_not_eof (n : Nat) (b : Bytes) : readDigests n b ≠ .eof := by
  induction n generalizing b with
  | zero => simp [readDigests]
  | succ n ih =>
    simp only [readDigests]
    cases readDigest b with
    | eof => simp [Res.noEof]
    | fail => simp [Res.noEof]
    | ok d r2 =>
      simp only [Res.noEof, andThen_ok]
      have := ih r2
      cases h : readDigests n r2 with
      | eof => exact absurd h this
      | fail => simp [Res.map]
      | ok a r => simp [Res.map]

/-- a digest array is never the clean end of a log: its errors are not EOF -/
theorem readDigestArray_not_eof (b : Bytes) : readDigestArray b ≠ .eof := by
  simp only [readDigestArray]
  cases h1 : readLE 4 b with
  | eof => simp [Res.noEof]
  | fail => simp [Res.noEof]
  | ok n r =>
    simp only [Res.noEof, andThen_ok]
    split
    · intro h; cases h
    · exact readDigests_not_eof n r

/-! ## SP800-155 Event3 -/

def Event3.InRange (e : Event3) : Prop :=
  e.platformManufacturerId < 2 ^ 32 ∧ e.referenceManifestGuid.length = 16 ∧
  e.platformManufacturerStr.length ≤ 254 ∧ e.platformModel.length ≤ 254 ∧ e.platformVersion.length ≤ 254 ∧
  e.firmwareManufacturerStr.length ≤ 254 ∧ e.firmwareManufacturerId < 2 ^ 32 ∧ e.firmwareVersion.length ≤ 254 ∧
  e.rimLocatorType < 2 ^ 32 ∧ e.rimLocator.length < 2 ^ 32 ∧
  e.platformCertLocatorType < 2 ^ 32 ∧ e.platformCertLocator.length < 2 ^ 32

instance (e : Event3) : Decidable e.InRange := by unfold Event3.InRange; exact inferInstance

def encEvent3Fields (e : Event3) : Bytes :=
  leBytes 4 e.platformManufacturerId ++ (writeGuid e.referenceManifestGuid ++ (encCStr e.platformManufacturerStr ++
  (encCStr e.platformModel ++ (encCStr e.platformVersion ++ (encCStr e.firmwareManufacturerStr ++
  (leBytes 4 e.firmwareManufacturerId ++ (encCStr e.firmwareVersion ++ (leBytes 4 e.rimLocatorType ++
  (encSized 4 e.rimLocator ++ (leBytes 4 e.platformCertLocatorType ++ encSized 4 e.platformCertLocator))))))))))

theorem writeEvent3Fields_eq (e : Event3) (h : e.InRange) : writeEvent3Fields e = some (encEvent3Fields e) := by
  obtain ⟨_, _, h3, h4, h5, h6, _, h8, _, h10, _, h12⟩ := h
  simp only [writeEvent3Fields, writeU32Array, writeCStr_eq _ h3, writeCStr_eq _ h4, writeCStr_eq _ h5,
    writeCStr_eq _ h6, writeCStr_eq _ h8, writeSizedArray_eq 4 _ (by omega : e.rimLocator.length < 256 ^ 4),
    writeSizedArray_eq 4 _ (by omega : e.platformCertLocator.length < 256 ^ 4), optAppend, encEvent3Fields]

theorem readEvent3Fields_enc (cfg : Cfg) (e : Event3) (t : Bytes) (h : e.InRange)
    (he : NoEmptyEofRead cfg e.platformCertLocator t) :
    readEvent3Fields cfg (encEvent3Fields e ++ t) = .ok e t := by
  obtain ⟨h1, h2, h3, h4, h5, h6, h7, h8, h9, h10, h11, h12⟩ := h
  simp only [readEvent3Fields, encEvent3Fields, List.append_assoc, readU32Array]
  rw [readLE_append 4 _ _ (by omega), andThen_ok, readGuid_enc _ _ h2, andThen_ok,
    readCStr_enc cfg _ _ h3, andThen_ok, readCStr_enc cfg _ _ h4, andThen_ok, readCStr_enc cfg _ _ h5, andThen_ok,
    readCStr_enc cfg _ _ h6, andThen_ok, readLE_append 4 _ _ (by omega), andThen_ok, readCStr_enc cfg _ _ h8, andThen_ok,
    readLE_append 4 _ _ (by omega), andThen_ok,
    readSizedArray_enc cfg 4 e.rimLocator _ (by omega) (Or.inr (Or.inr (by
      have : (leBytes 4 e.platformCertLocatorType).length = 4 := leBytes_length _ _
      intro hc
      have := congrArg List.length hc
      simp at this))), andThen_ok,
    readLE_append 4 _ _ (by omega), andThen_ok,
    readSizedArray_enc cfg 4 e.platformCertLocator t (by omega) he, andThen_ok]

theorem readEvent3Fields_canon {cfg : Cfg} {b rest : Bytes} {e : Event3} (hs : cfg.strict = true)
    (h : readEvent3Fields cfg b = .ok e rest) : b = encEvent3Fields e ++ rest ∧ e.InRange := by
  simp only [readEvent3Fields, readU32Array] at h
  obtain ⟨v1, b1, r1, h⟩ := andThen_ok_inv h
  obtain ⟨v2, b2, r2, h⟩ := andThen_ok_inv h
  obtain ⟨v3, b3, r3, h⟩ := andThen_ok_inv h
  obtain ⟨v4, b4, r4, h⟩ := andThen_ok_inv h
  obtain ⟨v5, b5, r5, h⟩ := andThen_ok_inv h
  obtain ⟨v6, b6, r6, h⟩ := andThen_ok_inv h
  obtain ⟨v7, b7, r7, h⟩ := andThen_ok_inv h
  obtain ⟨v8, b8, r8, h⟩ := andThen_ok_inv h
  obtain ⟨v9, b9, r9, h⟩ := andThen_ok_inv h
  obtain ⟨v10, b10, r10, h⟩ := andThen_ok_inv h
  obtain ⟨v11, b11, r11, h⟩ := andThen_ok_inv h
  obtain ⟨v12, b12, r12, h⟩ := andThen_ok_inv h
  injection h with e1 e2
  subst e1; subst e2
  obtain ⟨q1, p1⟩ := readLE_ok_inv r1
  obtain ⟨q2, p2⟩ := readGuid_canon r2
  obtain ⟨q3, p3⟩ := readCStr_canon hs r3
  obtain ⟨q4, p4⟩ := readCStr_canon hs r4
  obtain ⟨q5, p5⟩ := readCStr_canon hs r5
  obtain ⟨q6, p6⟩ := readCStr_canon hs r6
  obtain ⟨q7, p7⟩ := readLE_ok_inv r7
  obtain ⟨q8, p8⟩ := readCStr_canon hs r8
  obtain ⟨q9, p9⟩ := readLE_ok_inv r9
  obtain ⟨q10, p10⟩ := readSizedArray_canon hs r10
  obtain ⟨q11, p11⟩ := readLE_ok_inv r11
  obtain ⟨q12, p12⟩ := readSizedArray_canon hs r12
  refine ⟨?_, ⟨by omega, p2, p3, p4, p5, p6, by omega, p8, by omega, by omega, by omega, by omega⟩⟩
  simp only [encEvent3Fields, List.append_assoc]
  rw [q1, q2, q3, q4, q5, q6, q7, q8, q9, q10, q11, q12]

theorem allZero_zeros (k : Nat) : allZero (zeros k) = true := by
  simp [allZero, zeros]

theorem allZero_eq {b : Bytes} (h : allZero b = true) : b = zeros b.length := by
  induction b with
  | nil => rfl
  | cons x xs ih =>
    simp only [allZero, List.all_cons, Bool.and_eq_true, beq_iff_eq] at h
    have := ih (by simpa [allZero] using h.2)
    simp only [zeros, List.length_cons, List.replicate_succ]
    rw [h.1]; congr 1

theorem unmarshalEvent3_enc (strict : Bool) (e : Event3) (k : Nat) (h : e.InRange) :
    unmarshalEvent3 strict (encEvent3Fields e ++ zeros k) = .ok e [] := by
  simp only [unmarshalEvent3]
  rw [readEvent3Fields_enc ⟨strict, .buffer⟩ e (zeros k) h (Or.inr (Or.inl rfl)), andThen_ok, allZero_zeros]
  rfl

theorem unmarshalEvent3_canon {data r : Bytes} {e : Event3} (h : unmarshalEvent3 true data = .ok e r) :
    r = [] ∧ e.InRange ∧ ∃ k, data = encEvent3Fields e ++ zeros k := by
  obtain ⟨e', rest, h1, h2⟩ := andThen_ok_inv h
  by_cases hz : allZero rest = true
  · rw [if_pos hz] at h2
    injection h2 with e1 e2
    subst e1
    obtain ⟨hb, hr⟩ := readEvent3Fields_canon (cfg := ⟨true, .buffer⟩) rfl h1
    exact ⟨e2.symm, hr, rest.length, by rw [hb, ← allZero_eq hz]⟩
  · rw [if_neg hz] at h2; cases h2

theorem unmarshalEvent3_strict_padding (strict : Bool) (e : Event3) (pad : Bytes) (h : e.InRange)
    (hp : allZero pad = false) : unmarshalEvent3 strict (encEvent3Fields e ++ pad) = .fail := by
  simp only [unmarshalEvent3]
  have hne : pad ≠ [] := by intro h; subst h; simp [allZero] at hp
  rw [readEvent3Fields_enc ⟨strict, .buffer⟩ e pad h (Or.inr (Or.inl rfl)), andThen_ok, hp]
  rfl

/-! ## event data -/

def Good (cfg : Cfg) : Prop := cfg.strict = true ∨ cfg.kind = .buffer

theorem Good.noEmpty {cfg : Cfg} (g : Good cfg) (d t : Bytes) : NoEmptyEofRead cfg d t := by
  rcases g with g | g
  · exact Or.inl g
  · exact Or.inr (Or.inl g)

def HasSig (x : Bytes) : Prop := 16 ≤ x.length ∧ x.take 16 = event3Signature

instance (x : Bytes) : Decidable (HasSig x) := by unfold HasSig; exact inferInstance

/-- `padded k`: the payload of an Event3 may carry `k` trailing zero bytes (counted by the size prefix) -/
def EventData.InRangePad (k : Nat) : EventData → Prop
  | .raw x => x.length < 2 ^ 32 ∧ ¬ HasSig x
  | .event3 e => e.InRange ∧ 16 + (encEvent3Fields e).length + k < 2 ^ 32

instance (k : Nat) (d : EventData) : Decidable (d.InRangePad k) := by
  cases d <;> (unfold EventData.InRangePad; exact inferInstance)

def encEventDataPad (d : EventData) (k : Nat) : Bytes :=
  match d with
  | .raw x => leBytes 4 x.length ++ x
  | .event3 e => leBytes 4 (16 + (encEvent3Fields e).length + k) ++ (event3Signature ++ (encEvent3Fields e ++ zeros k))

def EventData.InRange (d : EventData) : Prop :=
  match d with
  | .raw x => x.length < 2 ^ 32 ∧ ¬ HasSig x
  | .event3 e => e.InRange ∧ 16 + (encEvent3Fields e).length ≤ maxGuidHobDataSize

instance (d : EventData) : Decidable d.InRange := by
  cases d <;> (unfold EventData.InRange; exact inferInstance)

theorem EventData.InRange.pad {d : EventData} (h : d.InRange) : d.InRangePad 0 := by
  cases d with
  | raw x => exact h
  | event3 e =>
    have : maxGuidHobDataSize = 65504 := rfl
    exact ⟨h.1, by have := h.2; omega⟩

theorem sig_length : event3Signature.length = 16 := rfl

theorem writeEventData_eq (d : EventData) (h : d.InRange) : writeEventData d = some (encEventDataPad d 0) := by
  cases d with
  | raw x => rfl
  | event3 e =>
    obtain ⟨h1, h2⟩ := h
    simp only [writeEventData, marshalEvent3, writeEvent3Fields_eq e h1]
    rw [if_neg (by simp only [List.length_append, sig_length]; omega)]
    simp [encEventDataPad, zeros, sig_length]

theorem writeEventData_strict_large (e : Event3) (h : e.InRange)
    (hl : 16 + (encEvent3Fields e).length > maxGuidHobDataSize) : writeEventData (.event3 e) = none := by
  simp only [writeEventData, marshalEvent3, writeEvent3Fields_eq e h]
  rw [if_pos (by simp only [List.length_append, sig_length]; omega)]

theorem readEventData_enc (cfg : Cfg) (d : EventData) (k : Nat) (t : Bytes) (g : Good cfg) (h : d.InRangePad k) :
    readEventData cfg (encEventDataPad d k ++ t) = .ok d t := by
  cases d with
  | raw x =>
    obtain ⟨h1, h2⟩ := h
    simp only [readEventData, encEventDataPad, List.append_assoc]
    rw [readLE_append 4 _ _ (by omega), andThen_ok, readBody_append cfg false x t (g.noEmpty x t), andThen_ok]
    rw [if_neg]
    intro hc
    simp only [Bool.and_eq_true, decide_eq_true_eq, beq_iff_eq] at hc
    exact h2 ⟨hc.1, hc.2⟩
  | event3 e =>
    obtain ⟨h1, h2⟩ := h
    simp only [readEventData, encEventDataPad, List.append_assoc]
    rw [readLE_append 4 _ _ (by omega), andThen_ok]
    have hlen : (event3Signature ++ (encEvent3Fields e ++ zeros k)).length = 16 + (encEvent3Fields e).length + k := by
      simp [sig_length, zeros_length]; omega
    have := readBody_append cfg false (event3Signature ++ (encEvent3Fields e ++ zeros k)) t (g.noEmpty _ t)
    rw [hlen] at this
    simp only [List.append_assoc] at this
    rw [this, andThen_ok]
    have ht : (event3Signature ++ (encEvent3Fields e ++ zeros k)).take 16 = event3Signature := List.take_left' sig_length
    have hd : (event3Signature ++ (encEvent3Fields e ++ zeros k)).drop 16 = encEvent3Fields e ++ zeros k := List.drop_left' sig_length
    rw [if_pos (by simp only [Bool.and_eq_true, decide_eq_true_eq, beq_iff_eq]; exact ⟨by omega, ht⟩)]
    rw [hd, unmarshalEvent3_enc cfg.strict e k h1]

theorem readEventData_canon {cfg : Cfg} {b rest : Bytes} {d : EventData} (hs : cfg.strict = true)
    (h : readEventData cfg b = .ok d rest) : ∃ k, b = encEventDataPad d k ++ rest ∧ d.InRangePad k := by
  obtain ⟨size, r1, h1, h2⟩ := andThen_ok_inv h
  obtain ⟨chunk, r2, h3, h4⟩ := andThen_ok_inv h2
  obtain ⟨hb, hlt⟩ := readLE_ok_inv h1
  obtain ⟨hr, hl⟩ := readBody_ok_inv (Or.inl hs) h3
  by_cases hc : (decide (size ≥ 16) && chunk.take 16 == event3Signature) = true
  · rw [if_pos hc] at h4
    simp only [Bool.and_eq_true, decide_eq_true_eq, beq_iff_eq] at hc
    rw [hs] at h4
    cases hu : unmarshalEvent3 true (chunk.drop 16) with
    | eof => rw [hu] at h4; cases h4
    | fail => rw [hu] at h4; cases h4
    | ok e r =>
      rw [hu] at h4
      injection h4 with e1 e2
      subst e1; subst e2
      obtain ⟨_, hin, k, hk⟩ := unmarshalEvent3_canon hu
      have hchunk : chunk = event3Signature ++ (encEvent3Fields e ++ zeros k) := by
        rw [← hk, ← hc.2, List.take_append_drop]
      refine ⟨k, ?_, hin, ?_⟩
      · have hlen : chunk.length = 16 + (encEvent3Fields e).length + k := by
          rw [hchunk]; simp [sig_length, zeros_length]; omega
        rw [hb, hr, encEventDataPad, ← hl, hlen, hchunk]
        simp only [List.append_assoc]
      · have hlen : chunk.length = 16 + (encEvent3Fields e).length + k := by
          rw [hchunk]; simp [sig_length, zeros_length]; omega
        omega
  · rw [if_neg hc] at h4
    injection h4 with e1 e2
    subst e1; subst e2
    refine ⟨0, by rw [hb, hr, encEventDataPad, hl, List.append_assoc], by omega, ?_⟩
    intro hsig
    apply hc
    simp only [Bool.and_eq_true, decide_eq_true_eq, beq_iff_eq]
    exact ⟨by have := hsig.1; omega, hsig.2⟩

/-! ## TCG_PCClientPCREvent and TCG_PCR_EVENT2 -/

def PcrEvent.InRangePad (k : Nat) (e : PcrEvent) : Prop :=
  e.pcrIndex < 2 ^ 32 ∧ e.eventType < 2 ^ 32 ∧ e.sha1.length = 20 ∧ e.data.InRangePad k
def PcrEvent.InRange (e : PcrEvent) : Prop :=
  e.pcrIndex < 2 ^ 32 ∧ e.eventType < 2 ^ 32 ∧ e.sha1.length = 20 ∧ e.data.InRange

instance (k : Nat) (e : PcrEvent) : Decidable (e.InRangePad k) := by unfold PcrEvent.InRangePad; exact inferInstance
instance (e : PcrEvent) : Decidable e.InRange := by unfold PcrEvent.InRange; exact inferInstance

def encPcrEventPad (e : PcrEvent) (k : Nat) : Bytes :=
  leBytes 4 e.pcrIndex ++ (leBytes 4 e.eventType ++ (e.sha1 ++ encEventDataPad e.data k))

theorem writePcrEvent_eq (e : PcrEvent) (h : e.InRange) : writePcrEvent e = some (encPcrEventPad e 0) := by
  simp only [writePcrEvent, writeEventData_eq e.data h.2.2.2, optAppend, encPcrEventPad, List.append_assoc]

theorem readPcrEvent_enc (cfg : Cfg) (e : PcrEvent) (k : Nat) (t : Bytes) (g : Good cfg) (h : e.InRangePad k) :
    readPcrEvent cfg (encPcrEventPad e k ++ t) = .ok e t := by
  obtain ⟨h1, h2, h3, h4⟩ := h
  simp only [readPcrEvent, encPcrEventPad, List.append_assoc]
  rw [readLE_append 4 _ _ (by omega), andThen_ok, readLE_append 4 _ _ (by omega), andThen_ok,
    readFull_append _ _ 20 h3, andThen_ok, readEventData_enc cfg e.data k t g h4, andThen_ok]

theorem readPcrEvent_canon {cfg : Cfg} {b rest : Bytes} {e : PcrEvent} (hs : cfg.strict = true)
    (h : readPcrEvent cfg b = .ok e rest) : ∃ k, b = encPcrEventPad e k ++ rest ∧ e.InRangePad k := by
  simp only [readPcrEvent] at h
  obtain ⟨v1, b1, r1, h⟩ := andThen_ok_inv h
  obtain ⟨v2, b2, r2, h⟩ := andThen_ok_inv h
  obtain ⟨v3, b3, r3, h⟩ := andThen_ok_inv h
  obtain ⟨v4, b4, r4, h⟩ := andThen_ok_inv h
  injection h with e1 e2
  subst e1; subst e2
  obtain ⟨q1, p1⟩ := readLE_ok_inv r1
  obtain ⟨q2, p2⟩ := readLE_ok_inv r2
  obtain ⟨q3, p3⟩ := readFull_ok_inv r3
  obtain ⟨k, q4, p4⟩ := readEventData_canon hs r4
  refine ⟨k, ?_, by omega, by omega, p3, p4⟩
  simp only [encPcrEventPad, List.append_assoc]
  rw [q1, q2, q3, q4]

def Event2.InRangePad (k : Nat) (e : Event2) : Prop :=
  e.pcrIndex < 2 ^ 32 ∧ e.eventType < 2 ^ 32 ∧ e.digests.length < 2 ^ 32 ∧ (∀ d ∈ e.digests, d.InRange) ∧ e.data.InRangePad k
def Event2.InRange (e : Event2) : Prop :=
  e.pcrIndex < 2 ^ 32 ∧ e.eventType < 2 ^ 32 ∧ e.digests.length < 2 ^ 32 ∧ (∀ d ∈ e.digests, d.InRange) ∧ e.data.InRange

instance (k : Nat) (e : Event2) : Decidable (e.InRangePad k) := by unfold Event2.InRangePad; exact inferInstance
instance (e : Event2) : Decidable e.InRange := by unfold Event2.InRange; exact inferInstance

def encEvent2Pad (e : Event2) (k : Nat) : Bytes :=
  leBytes 4 e.pcrIndex ++ (leBytes 4 e.eventType ++ (encDigestArray e.digests ++ encEventDataPad e.data k))

theorem writeEvent2_eq (e : Event2) (h : e.InRange) : writeEvent2 e = some (encEvent2Pad e 0) := by
  simp only [writeEvent2, writeDigestArray_eq e.digests h.2.2.2.1, writeEventData_eq e.data h.2.2.2.2, optAppend,
    encEvent2Pad, List.append_assoc]

theorem Event2.InRange.pad {e : Event2} (h : e.InRange) : e.InRangePad 0 :=
  ⟨h.1, h.2.1, h.2.2.1, h.2.2.2.1, h.2.2.2.2.pad⟩
theorem PcrEvent.InRange.pad {e : PcrEvent} (h : e.InRange) : e.InRangePad 0 :=
  ⟨h.1, h.2.1, h.2.2.1, h.2.2.2.pad⟩

theorem readEvent2_enc (cfg : Cfg) (e : Event2) (k : Nat) (t : Bytes) (g : Good cfg) (h : e.InRangePad k) :
    readEvent2 cfg (encEvent2Pad e k ++ t) = .ok e t := by
  obtain ⟨h1, h2, h3, h4, h5⟩ := h
  simp only [readEvent2, encEvent2Pad, List.append_assoc]
  rw [readLE_append 4 _ _ (by omega), andThen_ok, readLE_append 4 _ _ (by omega), andThen_ok,
    readDigestArray_enc _ _ h3 h4, andThen_ok, readEventData_enc cfg e.data k t g h5, andThen_ok]

theorem readEvent2_canon {cfg : Cfg} {b rest : Bytes} {e : Event2} (hs : cfg.strict = true)
    (h : readEvent2 cfg b = .ok e rest) : ∃ k, b = encEvent2Pad e k ++ rest ∧ e.InRangePad k := by
  simp only [readEvent2] at h
  obtain ⟨v1, b1, r1, h⟩ := andThen_ok_inv h
  obtain ⟨v2, b2, r2, h⟩ := andThen_ok_inv h
  obtain ⟨v3, b3, r3, h⟩ := andThen_ok_inv h
  obtain ⟨v4, b4, r4, h⟩ := andThen_ok_inv h
  injection h with e1 e2
  subst e1; subst e2
  obtain ⟨q1, p1⟩ := readLE_ok_inv r1
  obtain ⟨q2, p2⟩ := readLE_ok_inv r2
  obtain ⟨q3, p3, p3'⟩ := readDigestArray_canon r3
  obtain ⟨k, q4, p4⟩ := readEventData_canon hs r4
  refine ⟨k, ?_, by omega, by omega, p3, p3', p4⟩
  simp only [encEvent2Pad, List.append_assoc]
  rw [q1, q2, q3, q4]

theorem encEvent2Pad_length_pos (e : Event2) (k : Nat) : 0 < (encEvent2Pad e k).length := by
  simp [encEvent2Pad]; omega

theorem readEvent2_nil (cfg : Cfg) : readEvent2 cfg [] = .eof := rfl

/-! ## crypto-agile log -/

def Log.InRange (l : Log) : Prop := l.header.InRange ∧ ∀ e ∈ l.events, e.InRange

instance (l : Log) : Decidable l.InRange := by unfold Log.InRange; exact inferInstance

def encEvents : List Event2 → Bytes
  | [] => []
  | e :: es => encEvent2Pad e 0 ++ encEvents es

def encLog (l : Log) : Bytes := encPcrEventPad l.header 0 ++ encEvents l.events

/-- `bs` is an encoding of the events, each Event3 payload possibly zero-padded -/
def EventsEnc : List Event2 → Bytes → Prop
  | [], bs => bs = []
  | e :: es, bs => ∃ k tl, bs = encEvent2Pad e k ++ tl ∧ e.InRangePad k ∧ EventsEnc es tl

/-- `bs` is an encoding of the log (header event, then the events), up to Event3 zero padding -/
def LogEnc (l : Log) (bs : Bytes) : Prop :=
  ∃ k tl, bs = encPcrEventPad l.header k ++ tl ∧ l.header.InRangePad k ∧ EventsEnc l.events tl

theorem writeEvents_eq (es : List Event2) (h : ∀ e ∈ es, e.InRange) : writeEvents es = some (encEvents es) := by
  induction es with
  | nil => rfl
  | cons e es ih =>
    simp only [writeEvents, encEvents]
    rw [writeEvent2_eq e (h e (by simp)), ih (fun x hx => h x (by simp [hx]))]
    rfl

theorem writeLog_eq (l : Log) (h : l.InRange) : writeLog l = some (encLog l) := by
  simp only [writeLog, writePcrEvent_eq l.header h.1, writeEvents_eq l.events h.2, optAppend, encLog]

theorem encEvents_length (es : List Event2) : es.length ≤ (encEvents es).length := by
  induction es with
  | nil => simp [encEvents]
  | cons e es ih =>
    simp only [encEvents, List.length_cons, List.length_append]
    have := encEvent2Pad_length_pos e 0
    omega

theorem readEvents_enc (cfg : Cfg) (g : Good cfg) (es : List Event2) (fuel : Nat) (hf : es.length < fuel)
    (h : ∀ e ∈ es, e.InRange) : readEvents cfg fuel (encEvents es) = .ok es [] := by
  induction es generalizing fuel with
  | nil =>
    cases fuel with
    | zero => omega
    | succ f => simp [readEvents, encEvents, readEvent2_nil]
  | cons e es ih =>
    cases fuel with
    | zero => omega
    | succ f =>
      simp only [readEvents, encEvents]
      rw [readEvent2_enc cfg e 0 _ g (h e (by simp)).pad]
      simp only
      rw [ih f (by simp at hf; omega) (fun x hx => h x (by simp [hx]))]
      rfl

theorem readLog_enc (cfg : Cfg) (g : Good cfg) (l : Log) (h : l.InRange) : readLog cfg (encLog l) = .ok l [] := by
  simp only [readLog, encLog]
  rw [readPcrEvent_enc cfg l.header 0 _ g h.1.pad, andThen_ok,
    readEvents_enc cfg g l.events _ (by have := encEvents_length l.events; omega) h.2]
  rfl

/-- What an accepted log looks like with the repaired code: the input is an encoding of exactly the
    returned events (up to Event3 padding) — no tail is dropped. -/
theorem readEvents_canon {cfg : Cfg} (hs : cfg.strict = true) (fuel : Nat) {b r : Bytes} {es : List Event2}
    (h : readEvents cfg fuel b = .ok es r) : EventsEnc es b := by
  induction fuel generalizing b es r with
  | zero => cases h
  | succ f ih =>
    simp only [readEvents] at h
    cases he : readEvent2 cfg b with
    | eof =>
      rw [he] at h
      simp only [hs, if_true] at h
      cases b with
      | nil =>
        simp only [List.isEmpty_nil, if_true] at h
        injection h with e1 e2
        subst e1
        rfl
      | cons x xs => simp at h
    | fail => rw [he] at h; cases h
    | ok e rest =>
      rw [he] at h
      simp only at h
      obtain ⟨tl, h1, h2⟩ := map_ok_inv h
      obtain ⟨k, hb, hin⟩ := readEvent2_canon hs he
      have henc := ih h1
      subst h2
      exact ⟨k, rest, hb, hin, henc⟩

theorem readLog_canon {cfg : Cfg} (hs : cfg.strict = true) {b r : Bytes} {l : Log} (h : readLog cfg b = .ok l r) :
    LogEnc l b := by
  obtain ⟨hdr, rest, h1, h2⟩ := andThen_ok_inv h
  obtain ⟨es, h3, h4⟩ := map_ok_inv h2
  obtain ⟨k, hb, hin⟩ := readPcrEvent_canon hs h1
  have henc := readEvents_canon hs _ h3
  subst h4
  exact ⟨k, rest, hb, hin, henc⟩

/-- fuel adequacy: with `length + 1` fuel the loop never stops for lack of fuel -/
theorem readEvent2_consumes {cfg : Cfg} {b rest : Bytes} {e : Event2} (h : readEvent2 cfg b = .ok e rest) :
    rest.length < b.length := by
  simp only [readEvent2] at h
  obtain ⟨v1, b1, r1, h⟩ := andThen_ok_inv h
  obtain ⟨v2, b2, r2, h⟩ := andThen_ok_inv h
  obtain ⟨v3, b3, r3, h⟩ := andThen_ok_inv h
  obtain ⟨v4, b4, r4, h⟩ := andThen_ok_inv h
  injection h with e1 e2
  rw [← e2]
  obtain ⟨q1, _⟩ := readLE_ok_inv r1
  obtain ⟨q2, _⟩ := readLE_ok_inv r2
  obtain ⟨q3, _⟩ := readDigestArray_canon r3
  obtain ⟨sz, c1, c2, c3⟩ := andThen_ok_inv r4
  obtain ⟨q4, _⟩ := readLE_ok_inv c2
  obtain ⟨ch, c4, c5, c6⟩ := andThen_ok_inv c3
  have hc4 : b4.length ≤ c4.length := by
    split at c6
    · split at c6
      · injection c6 with _ e; rw [e]; exact Nat.le_refl _
      · cases c6
      · cases c6
    · injection c6 with _ e; rw [e]; exact Nat.le_refl _
  have hc1 : c4.length ≤ c1.length := by
    simp only [readBody] at c5
    split at c5
    · split at c5
      · injection c5 with _ e; rw [e]; exact Nat.le_refl _
      · obtain ⟨q, _⟩ := readFull_ok_inv c5
        rw [q]; simp
    · split at c5
      · cases c5
      · simp only [Bool.false_eq_true, if_false] at c5
        split at c5
        · cases c5
        · injection c5 with _ e; rw [← e]; simp
  rw [q1, q2, q3, q4]
  simp only [List.length_append, leBytes_length]
  omega

theorem readEvents_fuel (cfg : Cfg) (fuel : Nat) (b : Bytes) (hf : b.length < fuel) (extra : Nat) :
    readEvents cfg (fuel + extra) b = readEvents cfg fuel b := by
  induction fuel generalizing b with
  | zero => omega
  | succ f ih =>
    rw [show f + 1 + extra = (f + extra) + 1 by omega]
    simp only [readEvents]
    cases he : readEvent2 cfg b with
    | eof => rfl
    | fail => rfl
    | ok e rest =>
      simp only
      have := readEvent2_consumes he
      rw [ih rest (by omega)]

/-! ## the repaired readers do not depend on the reader kind -/

theorem readBody_kind (k k' : RKind) (zf : Bool) (size : Nat) (b : Bytes) :
    readBody ⟨true, k⟩ zf size b = readBody ⟨true, k'⟩ zf size b := by
  simp [readBody]

theorem readSizedArray_kind (k k' : RKind) (w : Nat) (b : Bytes) :
    readSizedArray ⟨true, k⟩ w b = readSizedArray ⟨true, k'⟩ w b := by
  simp only [readSizedArray, readBody_kind k k']

theorem readEventData_kind (k k' : RKind) (b : Bytes) : readEventData ⟨true, k⟩ b = readEventData ⟨true, k'⟩ b := by
  simp only [readEventData, readBody_kind k k']

theorem readPcrEvent_kind (k k' : RKind) (b : Bytes) : readPcrEvent ⟨true, k⟩ b = readPcrEvent ⟨true, k'⟩ b := by
  simp only [readPcrEvent, readEventData_kind k k']

theorem readEvent2_kind (k k' : RKind) (b : Bytes) : readEvent2 ⟨true, k⟩ b = readEvent2 ⟨true, k'⟩ b := by
  simp only [readEvent2, readEventData_kind k k']

theorem readEvents_kind (k k' : RKind) (fuel : Nat) (b : Bytes) :
    readEvents ⟨true, k⟩ fuel b = readEvents ⟨true, k'⟩ fuel b := by
  induction fuel generalizing b with
  | zero => rfl
  | succ f ih =>
    simp only [readEvents, readEvent2_kind k k']
    cases readEvent2 ⟨true, k'⟩ b with
    | eof => rfl
    | fail => rfl
    | ok e rest => simp only [ih]

/-- repaired code: no zero-length Read is issued, so bytes.Buffer / os.File / bytes.Reader agree -/
theorem readLog_kind_irrelevant (k k' : RKind) (b : Bytes) : readLog ⟨true, k⟩ b = readLog ⟨true, k'⟩ b := by
  simp only [readLog, readPcrEvent_kind k k', readEvents_kind k k']

end GceTcb.EventLog
