import GceTcb.Proofs.AttestChain
import GceTcb.Proofs.DecTotal
/- The byte-level chain (Model/AttestChain) is the chain of Model/DecTotal (C07: totality, cost) with that
   model's third-party parameters for hex, base64 and the certificate table instantiated. -/
namespace GceTcb.AttestChain
open GceTcb GceTcb.Codec GceTcb.DecTotal

variable {Cert Roots Time : Type}

/-- the Extras map as Model/DecTotal holds it: keyed by uuid.UUID.String(); the last entry with a key first -/
def extrasOf (es : List (Bytes × Bytes)) : List (String × Bytes) :=
  ((es.filter (fun e => !isAmd e.1)).reverse).map (fun e => (Extract.uuidString e.1, e.2))

def toTee : Att → Tee
  | .proto t => t
  | .sevRaw m es => .sev (some ⟨some ⟨m⟩, some ⟨some (extrasOf es)⟩⟩)
  | .tdxRaw q => .tdx (some q)

def mapOut {α β : Type} (f : α → β) : Outcome α → Outcome β
  | .ok a => .ok (f a)
  | .err c => .err c
  | .panic s => .panic s

/-- Model/DecTotal's parameters for the text decoders and the certificate table, instantiated -/
def wireParsers (P : Parsers Cert Roots Time) : Parsers Cert Roots Time :=
  { P with
    hexDecode := fun t => HexB64.hexDecode t
    base64Decode := fun t => HexB64.b64Decode t
    certTableHeader := fun t => (parseHeader t).map (fun es => es.map (fun h => (h.off, h.len)))
    reportCertsToProto := fun d =>
      match AttestChain.reportCertsToProto d with
      | .ok a => (match toTee a with | .sev x => x | _ => none)
      | _ => none
    certTableProto := fun t =>
      match unmarshal t with
      | .ok es => some ⟨some (extrasOf es)⟩
      | _ => none
    certTableGet := fun t =>
      match unmarshal t with
      | .ok es => some (lookupFirst es gceGuid)
      | _ => none }

def protosOf (P : Parsers Cert Roots Time) : Protos :=
  ⟨P.unmarshalTpm, P.unmarshalSevAtt, P.unmarshalReport, P.unmarshalQuoteV4, P.quoteToProto⟩

theorem bind_out {α β : Type} (x : M α) (f : α → M β) :
    (M.bind x f).out = match x.out with
      | .ok a => (f a).out
      | .err c => .err c
      | .panic s => .panic s := by
  simp only [M.bind]; split <;> simp_all

def okB : Outcome Unit → Outcome Bool
  | .ok _ => .ok true
  | .err _ => .ok false
  | .panic s => .panic s

theorem passes_out (x : M Unit) : (passes x).out = okB x.out := by
  simp only [passes, okB]; split <;> simp_all

theorem checkRanges_out (n : Nat) (hn : n < u32) : ∀ (es : List Hdr) (total : Nat),
    okB (DecTotal.checkRanges n total (es.map (fun h => (h.off, h.len)))).out
      = .ok (AttestChain.checkRanges n total es)
  | [], _ => rfl
  | e :: rest, total => by
    have ih := checkRanges_out n hn rest (total + e.len)
    simp only [List.map_cons, DecTotal.checkRanges, AttestChain.checkRanges, bind_def, bind_out, tick]
    by_cases h1 : e.off + e.len > n
    · simp only [h1, if_true, fail, okB]
    · have h3 : ¬ e.off + e.len > 4294967295 := by simp only [u32] at hn; omega
      by_cases h2 : total + e.len > n
      · simp only [h1, h2, h3, if_true, if_false, fail, okB]
      · simp only [h1, h2, h3, if_false]
        exact ih

theorem checkCertTable_out (P : Parsers Cert Roots Time) (t : Bytes) (ht : t.length < u32) :
    (passes (DecTotal.checkCertTable (wireParsers P) t)).out = .ok (AttestChain.checkCertTable t) := by
  rw [passes_out]
  simp only [DecTotal.checkCertTable, AttestChain.checkCertTable, wireParsers]
  cases h : parseHeader t with
  | none => simp only [Option.map_none, fail, okB]
  | some es => simp only [Option.map_some]; exact checkRanges_out _ ht es 0

theorem decodeQuote_out (P : Parsers Cert Roots Time) (q : Bytes) :
    (decodeQuote (wireParsers P) q).out = .ok (textDecode goVariant q) := by
  simp only [decodeQuote, textDecode, goVariant, id, wireParsers, bind_def, bind_out, allocate]
  cases HexB64.hexDecode q with
  | some d => simp only [bind_def, bind_out, M.pure]
  | none =>
    cases HexB64.b64Decode q with
    | some d => simp only [bind_def, bind_out, M.pure]
    | none => simp only [M.pure]

theorem reportCertsOf_out (q : Bytes) :
    (reportCertsOf q).out = .ok (if reportSize ≤ q.length then q.drop reportSize else []) := by
  simp only [reportCertsOf, DecTotal.reportSize, AttestChain.reportSize, sliceFrom]
  by_cases h : 1184 ≤ q.length <;> simp only [h, if_true, if_false, M.pure]

theorem tail_bridge (P : Parsers Cert Roots Time) (q : Bytes) (hs : q.length < u32) :
    ((passes (DecTotal.checkCertTable (wireParsers P) q)).bind fun ok2 =>
          match if ok2 = true then (wireParsers P).certTableProto q else none with
          | some chain => M.pure (Tee.sev (some { report := some { measurement := [0] }, chain := some chain }))
          | none =>
            match quoteToProto (wireParsers P) q with
            | some (some q) => M.pure (Tee.tdx (some q))
            | some none => fail "unknown-tdx-format"
            | none => fail "unknown-format").out
      = mapOut toTee (tableOrTdx (protosOf P) q) := by
  have htdx : (match quoteToProto (wireParsers P) q with
            | some (some q) => M.pure (Tee.tdx (some q))
            | some none => fail "unknown-tdx-format"
            | none => (fail "unknown-format" : M Tee)).out = mapOut toTee (rawTdx (protosOf P) q) := by
    simp only [quoteToProto, rawTdx, protosOf, wireParsers]
    cases P.quoteToProto q with
    | ok r => cases r <;> simp only [M.pure, fail, mapOut, toTee]
    | err c => simp only [fail, mapOut]
    | panic s => simp only [fail, mapOut]
  simp only [bind_out, checkCertTable_out P q hs, tableOrTdx]
  by_cases h2 : AttestChain.checkCertTable q = true
  · obtain ⟨es, he⟩ := unmarshal_ok_of_check q h2 hs
    have hp : (wireParsers P).certTableProto q = some ⟨some (extrasOf es)⟩ := by
      simp only [wireParsers, he]
    simp only [h2, if_true, hp, he, M.pure, mapOut, toTee]
  · simp only [h2, Bool.false_eq_true, if_false]
    exact htdx

/-- the raw formats: Model/DecTotal's with the instantiated parameters give the same reading (the panic of
    go-sev-guest's 32-bit slice bound on 4 GiB is outside Model/DecTotal's parameter types: below 4 GiB) -/
theorem rawFormats_bridge (P : Parsers Cert Roots Time) (q : Bytes) (hs : q.length < u32) :
    (DecTotal.rawFormats (wireParsers P) q).out = mapOut toTee (AttestChain.rawFormats (protosOf P) q) := by
  have hcerts : (if AttestChain.reportSize ≤ q.length then q.drop AttestChain.reportSize else []).length < u32 := by
    split
    · simp only [List.length_drop]; omega
    · simp [u32]
  simp only [DecTotal.rawFormats, bind_def, bind_out, reportCertsOf_out, checkCertTable_out P _ hcerts, AttestChain.rawFormats]
  by_cases h1 : AttestChain.checkCertTable (if AttestChain.reportSize ≤ q.length then q.drop AttestChain.reportSize else []) = true
  · obtain ⟨es1, he1⟩ := unmarshal_ok_of_check _ h1 hcerts
    simp only [h1, if_true]
    by_cases ha : reportAccepted (if AttestChain.reportSize ≤ q.length then q.take AttestChain.reportSize else q) = true
    · have hr : AttestChain.reportCertsToProto q = .ok (.sevRaw (reportMeasurement q) es1) := by
        simp only [AttestChain.reportCertsToProto, ha, if_true, he1]
      have hw : (wireParsers P).reportCertsToProto q = some ⟨some ⟨reportMeasurement q⟩, some ⟨some (extrasOf es1)⟩⟩ := by
        simp only [wireParsers, hr, toTee]
      simp only [hw, hr, M.pure, mapOut, toTee]
    · have hr : AttestChain.reportCertsToProto q = .err "report" := by
        simp only [AttestChain.reportCertsToProto, ha, Bool.false_eq_true, if_false]
      have hw : (wireParsers P).reportCertsToProto q = none := by
        simp only [wireParsers, hr]
      simp only [hw, hr]
      exact tail_bridge P q hs
  · simp only [h1, Bool.false_eq_true, if_false]
    exact tail_bridge P q hs

/-- extract.Attestation: the chain of Model/DecTotal (the subject of C07's totality and cost theorems), with
    hex, base64 and the certificate table no longer parameters, is the byte-level chain of this module. -/
theorem attestation_bridge (P : Parsers Cert Roots Time) (q : Bytes) (hs : q.length < u32) :
    (DecTotal.attestation (wireParsers P) q).out = mapOut toTee (AttestChain.attestation (protosOf P) q) := by
  have hraw : (DecTotal.attestation.attestationRest (wireParsers P) q none).out
      = mapOut toTee (afterSevAtt goVariant (protosOf P) q) ∧
      ∀ x, (DecTotal.attestation.attestationRest (wireParsers P) q x).out
        = (DecTotal.attestation.attestationRest (wireParsers P) q none).out := by
    constructor
    · simp only [DecTotal.attestation.attestationRest, afterSevAtt, afterProtos, goVariant, protosOf, wireParsers]
      cases P.unmarshalReport q with
      | some r => simp only [M.pure, mapOut, toTee]
      | none =>
        cases P.unmarshalQuoteV4 q with
        | some x => simp only [M.pure, mapOut, toTee]
        | none =>
          simp only [bind_def, bind_out, Bool.false_eq_true, if_false]
          have := decodeQuote_out P q
          simp only [wireParsers, goVariant] at this
          rw [this]
          have h2 := rawFormats_bridge P (textDecode goVariant q) (Nat.lt_of_le_of_lt (textDecode_length q) hs)
          simp only [wireParsers, goVariant, protosOf] at h2
          exact h2
    · intro x; rfl
  simp only [DecTotal.attestation, AttestChain.attestation, attestationWith]
  by_cases h0 : q.length = 0
  · simp only [h0, beq_self_eq_true, if_true, fail, mapOut]
  · have h0' : (q.length == 0) = false := by simpa using h0
    simp only [h0, h0', Bool.false_eq_true, if_false]
    have e1 : (wireParsers P).unmarshalTpm = P.unmarshalTpm := rfl
    have e2 : (wireParsers P).unmarshalSevAtt = P.unmarshalSevAtt := rfl
    have e3 : (protosOf P).unmarshalTpm = P.unmarshalTpm := rfl
    have e4 : (protosOf P).unmarshalSevAtt = P.unmarshalSevAtt := rfl
    rw [e1, e2, e3, e4]
    cases P.unmarshalTpm q with
    | some t => simp only [M.pure, mapOut, toTee]
    | none =>
      cases P.unmarshalSevAtt q with
      | some sa =>
        by_cases hm : (PAtt.measurement (some sa)).length = measurementSize
        · have hm' : ((PAtt.measurement (some sa)).length == measurementSize) = true := by simpa using hm
          show (if _ then _ else _ : M Tee).out = mapOut toTee (if _ then _ else _)
          rw [if_pos hm', if_pos hm]; rfl
        · have hm' : ((PAtt.measurement (some sa)).length == measurementSize) = false := by simpa using hm
          show (if _ then _ else _ : M Tee).out = mapOut toTee (if _ then _ else _)
          rw [if_neg (by simpa using hm), if_neg hm]
          rw [hraw.2]; exact hraw.1
      | none => exact hraw.1

end GceTcb.AttestChain
