import GceTcb.Model.DecTotal
/-
Helper lemmas for C07 (verifier-glue half): the no-panic predicate and the cost bound on the
result-with-trace monad `M`, and their behaviour under `bind`.
-/
namespace GceTcb.DecTotal
open GceTcb

/-- the computation does not end in a Go run-time panic -/
def NoPanic {α : Type} (x : M α) : Prop := ∀ s, x.out ≠ .panic s

/-- the recorded cost (loop iterations + bytes the glue allocates) is at most `n` -/
def CostLe {α : Type} (x : M α) (n : Nat) : Prop := x.tr.cost ≤ n

@[simp] theorem bind_def {α β : Type} (x : M α) (f : α → M β) : (x >>= f) = M.bind x f := rfl
@[simp] theorem pure_def {α : Type} (a : α) : (Pure.pure a : M α) = M.pure a := rfl

theorem noPanic_pure {α : Type} (a : α) : NoPanic (M.pure a) := by
  intro s h; simp [M.pure] at h
theorem noPanic_fail {α : Type} (c : String) : NoPanic (fail c : M α) := by
  intro s h; simp [fail] at h
theorem noPanic_tick (n : Nat) : NoPanic (tick n) := by
  intro s h; simp [tick] at h
theorem noPanic_allocate (n : Nat) : NoPanic (allocate n) := by
  intro s h; simp [allocate] at h
theorem noPanic_httpGet (g : Url → Option Bytes) (u : Url) : NoPanic (httpGet g u) := by
  intro s h; simp [httpGet] at h
theorem noPanic_deref {α : Type} (site : String) (a : α) : NoPanic (deref site (some a)) := by
  intro s h; simp [deref, M.pure] at h
theorem noPanic_deref_of_eq {α : Type} {site : String} {o : Option α} {a : α} (h : o = some a) :
    NoPanic (deref site o) := by
  subst h; exact noPanic_deref _ _
theorem noPanic_assertType {α : Type} (site : String) (a : α) : NoPanic (assertType site (some a)) := by
  intro s h; simp [assertType, M.pure] at h
theorem noPanic_sliceFrom (site : String) (b : Bytes) (n : Nat) (h : n ≤ b.length) :
    NoPanic (sliceFrom site b n) := by
  intro s hs; simp [sliceFrom, h, M.pure] at hs

theorem noPanic_bind {α β : Type} {x : M α} {f : α → M β} (hx : NoPanic x)
    (hf : ∀ a, x.out = .ok a → NoPanic (f a)) : NoPanic (M.bind x f) := by
  intro s h
  unfold M.bind at h
  cases hxo : x.out with
  | ok a => rw [hxo] at h; exact hf a hxo s (by simpa using h)
  | err c => rw [hxo] at h; simp at h
  | panic p => exact hx p hxo

/-- `bind` when the second computation is panic-free whatever the first yields -/
theorem noPanic_bind' {α β : Type} {x : M α} {f : α → M β} (hx : NoPanic x)
    (hf : ∀ a, NoPanic (f a)) : NoPanic (M.bind x f) :=
  noPanic_bind hx (fun a _ => hf a)

theorem deref_out_ok {α : Type} {site : String} {o : Option α} {a : α} (h : (deref site o).out = .ok a) :
    o = some a := by
  cases o with
  | none => simp [deref, crash] at h
  | some b => simp [deref, M.pure] at h; rw [h]

theorem noPanic_passes {x : M Unit} (h : NoPanic x) : NoPanic (passes x) := by
  intro s hs
  unfold passes at hs
  cases hx : x.out with
  | ok a => rw [hx] at hs; simp at hs
  | err c => rw [hx] at hs; simp at hs
  | panic p => exact h p hx

theorem noPanic_catchErr {α : Type} {x : M α} (h : NoPanic x) : NoPanic (catchErr x) := by
  intro s hs
  unfold catchErr at hs
  cases hx : x.out with
  | ok a => rw [hx] at hs; simp at hs
  | err c => rw [hx] at hs; simp at hs
  | panic p => exact h p hx

/-! ### cost -/

theorem cost_add (a b : Trace) : (a.add b).cost = a.cost + b.cost := by
  simp [Trace.add, Trace.cost]; omega

theorem costLe_pure {α : Type} (a : α) : CostLe (M.pure a) 0 := by simp [CostLe, M.pure, Trace.cost]
theorem costLe_fail {α : Type} (c : String) : CostLe (fail c : M α) 0 := by simp [CostLe, fail, Trace.cost]
theorem costLe_crash {α : Type} (c : String) : CostLe (crash c : M α) 0 := by simp [CostLe, crash, Trace.cost]
theorem costLe_tick (n : Nat) : CostLe (tick n) n := by simp [CostLe, tick, Trace.cost]
theorem costLe_allocate (n : Nat) : CostLe (allocate n) n := by simp [CostLe, allocate, Trace.cost]
theorem costLe_httpGet (g : Url → Option Bytes) (u : Url) : CostLe (httpGet g u) 0 := by
  simp [CostLe, httpGet, Trace.cost]
theorem costLe_deref {α : Type} (site : String) (o : Option α) : CostLe (deref site o) 0 := by
  cases o <;> simp [deref, CostLe, M.pure, crash, Trace.cost]
theorem costLe_assertType {α : Type} (site : String) (o : Option α) : CostLe (assertType site o) 0 := by
  cases o <;> simp [assertType, CostLe, M.pure, crash, Trace.cost]
theorem costLe_sliceFrom (site : String) (b : Bytes) (n : Nat) : CostLe (sliceFrom site b n) 0 := by
  unfold sliceFrom; split <;> simp [CostLe, M.pure, crash, Trace.cost]

theorem costLe_mono {α : Type} {x : M α} {n m : Nat} (h : CostLe x n) (hnm : n ≤ m) : CostLe x m :=
  Nat.le_trans h hnm

theorem costLe_bind {α β : Type} {x : M α} {f : α → M β} {n m : Nat} (hx : CostLe x n)
    (hf : ∀ a, x.out = .ok a → CostLe (f a) m) : CostLe (M.bind x f) (n + m) := by
  unfold CostLe M.bind
  cases hxo : x.out with
  | ok a =>
    simp only [cost_add]
    have := hf a hxo
    unfold CostLe at hx this
    omega
  | err c => simp only; unfold CostLe at hx; omega
  | panic p => simp only; unfold CostLe at hx; omega

theorem costLe_bind' {α β : Type} {x : M α} {f : α → M β} {n m : Nat} (hx : CostLe x n)
    (hf : ∀ a, CostLe (f a) m) : CostLe (M.bind x f) (n + m) :=
  costLe_bind hx (fun a _ => hf a)

theorem costLe_passes {x : M Unit} {n : Nat} (h : CostLe x n) : CostLe (passes x) n := by
  unfold passes CostLe; cases x.out <;> simpa [CostLe] using h

theorem costLe_catchErr {α : Type} {x : M α} {n : Nat} (h : CostLe x n) : CostLe (catchErr x) n := by
  unfold catchErr CostLe; cases x.out <;> simpa [CostLe] using h

end GceTcb.DecTotal
