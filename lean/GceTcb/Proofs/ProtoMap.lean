import GceTcb.Proofs.ProtoWireMsg
/-
Go maps as sorted association lists: `mapSet` keeps the list strictly sorted by key, `normMap` is the
identity on sorted lists and idempotent, and yields the same map for every order in which the entries of
a duplicate-free list are presented.  Core-only.
-/
namespace GceTcb.ProtoWire
open GceTcb

/-- strictly ascending keys: the canonical representative of a Go map -/
def SortedKeys (l : List (Nat × Bytes)) : Prop := l.Pairwise (fun a b => a.1 < b.1)

theorem mapSet_snoc (l : List (Nat × Bytes)) (k : Nat) (v : Bytes) (h : ∀ p ∈ l, p.1 < k) :
    mapSet l k v = l ++ [(k, v)] := by
  induction l with
  | nil => rfl
  | cons a t ih =>
    obtain ⟨k', v'⟩ := a
    have hk : k' < k := h (k', v') (by simp)
    have h1 : ¬ k < k' := by omega
    have h2 : ¬ k = k' := by omega
    simp only [mapSet, h1, h2, if_false, List.cons_append]
    rw [ih (fun p hp => h p (by simp [hp]))]

theorem foldl_mapSet_sorted (l : List (Nat × Bytes)) : ∀ (acc : List (Nat × Bytes)),
    SortedKeys l → (∀ a ∈ acc, ∀ p ∈ l, a.1 < p.1) →
    l.foldl (fun a p => mapSet a p.1 p.2) acc = acc ++ l := by
  induction l with
  | nil => intro acc _ _; simp
  | cons x xs ih =>
    intro acc hs hlt
    have hs' := List.pairwise_cons.mp hs
    simp only [List.foldl_cons]
    rw [mapSet_snoc acc x.1 x.2 (fun a ha => hlt a ha x (by simp))]
    rw [ih (acc ++ [(x.1, x.2)]) hs'.2 (by
      intro a ha p hp
      rcases List.mem_append.mp ha with h | h
      · exact hlt a h p (by simp [hp])
      · simp only [List.mem_singleton] at h
        subst h
        exact hs'.1 p hp)]
    simp

/-- a map already in canonical form is left alone -/
theorem normMap_sorted (l : List (Nat × Bytes)) (h : SortedKeys l) : normMap l = l := by
  unfold normMap
  rw [foldl_mapSet_sorted l [] h (by intro a ha; cases ha)]
  simp

theorem mem_mapSet (l : List (Nat × Bytes)) (k : Nat) (v : Bytes) :
    ∀ p ∈ mapSet l k v, p = (k, v) ∨ p ∈ l := by
  induction l with
  | nil => intro p hp; simp only [mapSet, List.mem_singleton] at hp; exact Or.inl hp
  | cons a t ih =>
    obtain ⟨k', v'⟩ := a
    intro p hp
    unfold mapSet at hp
    split at hp
    · rcases List.mem_cons.mp hp with h | h
      · exact Or.inl h
      · exact Or.inr h
    · split at hp
      · rcases List.mem_cons.mp hp with h | h
        · exact Or.inl h
        · exact Or.inr (by simp [h])
      · rcases List.mem_cons.mp hp with h | h
        · exact Or.inr (by simp [h])
        · rcases ih p h with h' | h'
          · exact Or.inl h'
          · exact Or.inr (by simp [h'])

theorem mapSet_sorted (l : List (Nat × Bytes)) (k : Nat) (v : Bytes) (h : SortedKeys l) :
    SortedKeys (mapSet l k v) := by
  induction l with
  | nil => simp [mapSet, SortedKeys]
  | cons a t ih =>
    obtain ⟨k', v'⟩ := a
    have h' := List.pairwise_cons.mp h
    unfold mapSet
    split
    · rename_i hlt
      refine List.pairwise_cons.mpr ⟨?_, h⟩
      intro p hp
      rcases List.mem_cons.mp hp with rfl | hp'
      · exact hlt
      · have := h'.1 p hp'; simp only at this ⊢; omega
    · split
      · rename_i _ heq
        subst heq
        exact List.pairwise_cons.mpr ⟨h'.1, h'.2⟩
      · rename_i h1 h2
        refine List.pairwise_cons.mpr ⟨?_, ih h'.2⟩
        intro p hp
        rcases mem_mapSet t k v p hp with rfl | hp'
        · simp only; omega
        · exact h'.1 p hp'

theorem foldl_mapSet_inv (l : List (Nat × Bytes)) : ∀ (acc : List (Nat × Bytes)), SortedKeys acc →
    SortedKeys (l.foldl (fun a p => mapSet a p.1 p.2) acc) ∧
    ∀ p ∈ l.foldl (fun a p => mapSet a p.1 p.2) acc, p ∈ acc ∨ p ∈ l := by
  induction l with
  | nil => intro acc h; exact ⟨h, fun p hp => Or.inl hp⟩
  | cons x xs ih =>
    intro acc h
    simp only [List.foldl_cons]
    obtain ⟨h1, h2⟩ := ih (mapSet acc x.1 x.2) (mapSet_sorted acc x.1 x.2 h)
    refine ⟨h1, ?_⟩
    intro p hp
    rcases h2 p hp with h3 | h3
    · rcases mem_mapSet acc x.1 x.2 p h3 with rfl | h4
      · exact Or.inr (by simp)
      · exact Or.inl h4
    · exact Or.inr (by simp [h3])

/-- decoded maps are always in canonical form … -/
theorem normMap_is_sorted (l : List (Nat × Bytes)) : SortedKeys (normMap l) :=
  (foldl_mapSet_inv l [] List.Pairwise.nil).1

/-- … and contain only entries that were presented -/
theorem mem_normMap (l : List (Nat × Bytes)) : ∀ p ∈ normMap l, p ∈ l := by
  intro p hp
  rcases (foldl_mapSet_inv l [] List.Pairwise.nil).2 p hp with h | h
  · cases h
  · exact h

theorem normMap_idem (l : List (Nat × Bytes)) : normMap (normMap l) = normMap l :=
  normMap_sorted _ (normMap_is_sorted l)

theorem canonSevSnp_idem (s : WSevSnp) : canonSevSnp (canonSevSnp s) = canonSevSnp s := by
  simp [canonSevSnp, normMap_idem]

theorem canonGolden_idem (g : WGolden) : canonGolden (canonGolden g) = canonGolden g := by
  cases g with
  | mk ts cl co ce di cab sev tdx unk =>
    cases sev with
    | none => rfl
    | some s => simp [canonGolden, canonSevSnp_idem]

theorem wf_canonSevSnp (s : WSevSnp) (h : WfSevSnp s) : WfSevSnp (canonSevSnp s) :=
  ⟨h.svn, h.policy, fun p hp => h.keys p (mem_normMap _ p hp), h.no_unknown⟩

theorem wf_canonGolden (g : WGolden) (h : WfGolden g) : WfGolden (canonGolden g) := by
  refine ⟨h.clSpec, h.timestamp, ?_, h.tdx, h.no_unknown⟩
  intro s hs
  simp only [canonGolden, Option.map_eq_some_iff] at hs
  obtain ⟨s0, h0, rfl⟩ := hs
  exact wf_canonSevSnp s0 (h.sevSnp s0 h0)

/-! ### the order in which a map's entries are presented does not matter -/

theorem mem_mapSet_self (l : List (Nat × Bytes)) (k : Nat) (v : Bytes) : (k, v) ∈ mapSet l k v := by
  induction l with
  | nil => simp [mapSet]
  | cons a t ih =>
    obtain ⟨k', v'⟩ := a
    unfold mapSet
    split
    · simp
    · split
      · simp
      · simp [ih]

theorem mem_mapSet_other (l : List (Nat × Bytes)) (k : Nat) (v : Bytes) (q : Nat × Bytes) (hq : q ∈ l)
    (hne : q.1 ≠ k) : q ∈ mapSet l k v := by
  induction l with
  | nil => cases hq
  | cons a t ih =>
    obtain ⟨k', v'⟩ := a
    unfold mapSet
    split
    · exact List.mem_cons_of_mem _ hq
    · split
      · rename_i _ heq
        rcases List.mem_cons.mp hq with rfl | h
        · exact absurd heq.symm hne
        · exact List.mem_cons_of_mem _ h
      · rcases List.mem_cons.mp hq with rfl | h
        · simp
        · exact List.mem_cons_of_mem _ (ih h)

theorem mem_foldl_mapSet (l : List (Nat × Bytes)) : ∀ (acc : List (Nat × Bytes)) (q : Nat × Bytes),
    (l.map (·.1)).Nodup → (q ∈ l ∨ (q ∈ acc ∧ q.1 ∉ l.map (·.1))) →
    q ∈ l.foldl (fun a p => mapSet a p.1 p.2) acc := by
  induction l with
  | nil =>
    intro acc q _ h
    rcases h with h | h
    · cases h
    · exact h.1
  | cons x xs ih =>
    intro acc q hn h
    simp only [List.map_cons, List.nodup_cons] at hn
    simp only [List.foldl_cons]
    apply ih _ q hn.2
    rcases h with h | h
    · rcases List.mem_cons.mp h with rfl | h'
      · right
        exact ⟨mem_mapSet_self acc _ _, hn.1⟩
      · left; exact h'
    · right
      simp only [List.map_cons, List.mem_cons, not_or] at h
      exact ⟨mem_mapSet_other acc x.1 x.2 q h.1 h.2.1, h.2.2⟩

/-- without duplicate keys nothing is overwritten: the canonical form has exactly the entries given -/
theorem mem_normMap_iff (l : List (Nat × Bytes)) (hn : (l.map (·.1)).Nodup) (q : Nat × Bytes) :
    q ∈ normMap l ↔ q ∈ l :=
  ⟨mem_normMap l q, fun h => mem_foldl_mapSet l [] q hn (Or.inl h)⟩

theorem sorted_ext : ∀ (a b : List (Nat × Bytes)), SortedKeys a → SortedKeys b → (∀ q, q ∈ a ↔ q ∈ b) → a = b := by
  intro a
  induction a with
  | nil =>
    intro b _ _ h
    cases b with
    | nil => rfl
    | cons y ys => exact absurd ((h y).mpr (by simp)) (by simp)
  | cons x xs ih =>
    intro b ha hb h
    cases b with
    | nil => exact absurd ((h x).mp (by simp)) (by simp)
    | cons y ys =>
      have ha' := List.pairwise_cons.mp ha
      have hb' := List.pairwise_cons.mp hb
      have hxy : x = y := by
        rcases List.mem_cons.mp ((h x).mp (by simp)) with h1 | h1
        · exact h1
        · rcases List.mem_cons.mp ((h y).mpr (by simp)) with h2 | h2
          · exact h2.symm
          · have := ha'.1 y h2
            have := hb'.1 x h1
            omega
      subst hxy
      congr 1
      apply ih ys ha'.2 hb'.2
      intro q
      constructor
      · intro hq
        rcases List.mem_cons.mp ((h q).mp (List.mem_cons_of_mem _ hq)) with rfl | h1
        · have := ha'.1 q hq; omega
        · exact h1
      · intro hq
        rcases List.mem_cons.mp ((h q).mpr (List.mem_cons_of_mem _ hq)) with rfl | h1
        · have := hb'.1 q hq; omega
        · exact h1

/-- Go's map iteration order is irrelevant: every permutation of a duplicate-free entry list denotes
    the same map. -/
theorem normMap_perm (l l' : List (Nat × Bytes)) (hn : (l.map (·.1)).Nodup) (hp : l'.Perm l) :
    normMap l' = normMap l := by
  have hn' : (l'.map (·.1)).Nodup := (hp.map (·.1)).nodup_iff.mpr hn
  apply sorted_ext _ _ (normMap_is_sorted l') (normMap_is_sorted l)
  intro q
  rw [mem_normMap_iff l' hn', mem_normMap_iff l hn]
  exact hp.mem_iff

theorem sortedKeys_nodup (l : List (Nat × Bytes)) (h : SortedKeys l) : (l.map (·.1)).Nodup := by
  induction l with
  | nil => simp
  | cons x xs ih =>
    have h' := List.pairwise_cons.mp h
    simp only [List.map_cons, List.nodup_cons]
    refine ⟨?_, ih h'.2⟩
    intro hm
    obtain ⟨p, hp, he⟩ := List.mem_map.mp hm
    have := h'.1 p hp
    omega

end GceTcb.ProtoWire
