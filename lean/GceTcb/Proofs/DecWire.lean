import GceTcb.Model.DecWire
import GceTcb.Proofs.DecTotal
import GceTcb.Proofs.ProtoWireLast
/-
Lemmas for C07 over the codec instance (Props/C07Wire.lean):

* every field read from the wire occupies at least as many bytes as its canonical re-encoding
  (`readField_weight`: a canonical tag is never longer than the tag that was read), hence the weights
  `wireW f = |canonical tag| + |value bytes|` of the fields read sum to at most the input length;
* the instrumented decoders return what the plain decoders return (`…M_out`);
* their ticks are at most |input| and their allocation at most K·|input| (`…M_cost`), for every input,
  accepted or rejected;
* the size law of the glue's linear bounds: map entries + rows of a decoded golden measurement ≤ |input|,
  carried payload ≤ |container|.
Core-only.
-/
namespace GceTcb.DecWire
open GceTcb GceTcb.ProtoWire GceTcb.DecTotal

/-! ## a canonical varint is the shortest encoding -/

theorem encodeVarintF_minimal (f : Nat) : ∀ (b : Bytes) (v : Nat) (r : Bytes), decodeVarintF f b = some (v, r) →
    (encodeVarintF f v).length + r.length ≤ b.length := by
  induction f with
  | zero => intro b v r h; simp [decodeVarintF] at h
  | succ f ih =>
    intro b v r h
    cases b with
    | nil => simp [decodeVarintF] at h
    | cons x xs =>
      rw [decodeVarintF] at h
      split at h
      · rename_i hx
        split at h
        · cases h
        · simp only [Option.some.injEq, Prod.mk.injEq] at h
          obtain ⟨rfl, rfl⟩ := h
          simp [encodeVarintF, hx]
          omega
      · rename_i hx
        split at h
        · cases h
        · cases hd : decodeVarintF f xs with
          | none => rw [hd] at h; cases h
          | some p =>
            obtain ⟨v', r'⟩ := p
            rw [hd] at h
            simp only [Option.some.injEq, Prod.mk.injEq] at h
            obtain ⟨rfl, rfl⟩ := h
            have := ih xs v' r' hd
            have hx2 := x.toNat_lt
            rw [encodeVarintF]
            split
            · simp only [List.length_cons, List.length_nil]
              have := encodeVarintF_length_le f v'
              omega
            · have e : (x.toNat - 128 + 128 * v') / 128 = v' := by omega
              simp only [List.length_cons, e]
              omega

theorem encodeVarint_minimal (b : Bytes) (v : Nat) (r : Bytes) (h : decodeVarint b = some (v, r)) :
    (encodeVarint v).length + r.length ≤ b.length := by
  have hb := decodeVarint_bound b v r h
  unfold encodeVarint
  rw [Nat.mod_eq_of_lt hb]
  exact encodeVarintF_minimal 10 b v r h

theorem consumed_length (b r : Bytes) (h : r.length ≤ b.length) : (consumed b r).length + r.length = b.length := by
  simp [consumed]; omega

/-! ## the weight of a field read from the wire -/

/-- canonical tag + value bytes as they appeared: what the field contributes to the unknown-field bytes, and
    a lower bound of the bytes it occupied on the wire -/
def wireW (f : Field) : Nat := f.unknownBytes.length

/-- the field that was read occupies at least `wireW f` bytes -/
theorem readField_weight (b : Bytes) (f : Field) (r : Bytes) (h : readField b = some (f, r)) :
    wireW f + r.length ≤ b.length := by
  unfold readField at h
  cases hd : decodeVarint b with
  | none => rw [hd] at h; cases h
  | some q =>
    obtain ⟨tag, b1⟩ := q
    rw [hd] at h
    have hmin := encodeVarint_minimal b tag b1 hd
    have htag : ∀ wt, tag % 8 = wt → tagBytes (tag / 8) wt = encodeVarint tag := by
      intro wt hwt; unfold tagBytes; congr 1; omega
    simp only at h
    split at h
    · cases h
    · split at h
      · rename_i hw
        cases hv : decodeVarint b1 with
        | none => rw [hv] at h; cases h
        | some q2 =>
          obtain ⟨v, r2⟩ := q2
          rw [hv] at h
          simp only [Option.some.injEq, Prod.mk.injEq] at h
          obtain ⟨rfl, rfl⟩ := h
          have hc := consumed_length b1 r2 (Nat.le_of_lt (decodeVarint_lt b1 v r2 hv))
          simp only [wireW, Field.unknownBytes, Val.wt, htag 0 hw, List.length_append]
          omega
      · rename_i hw
        split at h
        · cases h
        · rename_i hl
          simp only [Option.some.injEq, Prod.mk.injEq] at h
          obtain ⟨rfl, rfl⟩ := h
          simp only [wireW, Field.unknownBytes, Val.wt, htag 1 hw, List.length_append, List.length_take,
            List.length_drop]
          omega
      · rename_i hw
        cases hv : decodeLen b1 with
        | none => rw [hv] at h; cases h
        | some q2 =>
          obtain ⟨p, r2⟩ := q2
          rw [hv] at h
          simp only [Option.some.injEq, Prod.mk.injEq] at h
          obtain ⟨rfl, rfl⟩ := h
          have hc := consumed_length b1 r2 (Nat.le_of_lt (decodeLen_lt b1 p r2 hv))
          simp only [wireW, Field.unknownBytes, Val.wt, htag 2 hw, List.length_append]
          omega
      · rename_i hw
        cases hv : skipGroups b1.length [tag / 8] b1 with
        | none => rw [hv] at h; cases h
        | some r2 =>
          rw [hv] at h
          simp only [Option.some.injEq, Prod.mk.injEq] at h
          obtain ⟨rfl, rfl⟩ := h
          have hc := consumed_length b1 r2 (skipGroups_le _ _ _ _ hv)
          simp only [wireW, Field.unknownBytes, Val.wt, htag 3 hw, List.length_append]
          omega
      · rename_i hw
        split at h
        · cases h
        · rename_i hl
          simp only [Option.some.injEq, Prod.mk.injEq] at h
          obtain ⟨rfl, rfl⟩ := h
          simp only [wireW, Field.unknownBytes, Val.wt, htag 5 hw, List.length_append, List.length_take,
            List.length_drop]
          omega
      · cases h

theorem wireW_pos (f : Field) : 1 ≤ wireW f := by
  have := (encodeVarint_length (f.num * 8 + f.val.wt)).1
  simp only [wireW, Field.unknownBytes, tagBytes, List.length_append]
  omega

/-- a length-delimited field occupies its payload, a length prefix and a tag -/
theorem readField_len_weight (b : Bytes) (f : Field) (r : Bytes) (p : Bytes) (h : readField b = some (f, r))
    (hp : f.val = .len p) : p.length + 2 ≤ wireW f := by
  have htagpos : ∀ n wt, 1 ≤ (tagBytes n wt).length := fun n wt => (encodeVarint_length _).1
  unfold readField at h
  cases hd : decodeVarint b with
  | none => rw [hd] at h; cases h
  | some q =>
    obtain ⟨tag, b1⟩ := q
    rw [hd] at h
    simp only at h
    split at h
    · cases h
    · split at h
      · cases hv : decodeVarint b1 with
        | none => rw [hv] at h; cases h
        | some q2 =>
          obtain ⟨v, r2⟩ := q2
          rw [hv] at h
          simp only [Option.some.injEq, Prod.mk.injEq] at h
          obtain ⟨rfl, rfl⟩ := h
          cases hp
      · split at h
        · cases h
        · simp only [Option.some.injEq, Prod.mk.injEq] at h
          obtain ⟨rfl, rfl⟩ := h
          cases hp
      · cases hv : decodeLen b1 with
        | none => rw [hv] at h; cases h
        | some q2 =>
          obtain ⟨p2, r2⟩ := q2
          rw [hv] at h
          simp only [Option.some.injEq, Prod.mk.injEq] at h
          obtain ⟨rfl, rfl⟩ := h
          simp only [Val.len.injEq] at hp
          subst hp
          -- consumed b1 r2 = length prefix ++ payload
          have hc := consumed_length b1 r2 (Nat.le_of_lt (decodeLen_lt b1 p2 r2 hv))
          unfold decodeLen at hv
          cases hdv : decodeVarint b1 with
          | none => rw [hdv] at hv; cases hv
          | some q3 =>
            obtain ⟨m, r1⟩ := q3
            rw [hdv] at hv
            simp only at hv
            split at hv
            · cases hv
            · simp only [Option.some.injEq, Prod.mk.injEq] at hv
              obtain ⟨rfl, rfl⟩ := hv
              have h1 := decodeVarint_lt b1 m r1 hdv
              have := htagpos (tag / 8) 2
              simp only [wireW, Field.unknownBytes, Val.wt, List.length_append, List.length_take, List.length_drop] at hc ⊢
              omega
      · cases hv : skipGroups b1.length [tag / 8] b1 with
        | none => rw [hv] at h; cases h
        | some r2 =>
          rw [hv] at h
          simp only [Option.some.injEq, Prod.mk.injEq] at h
          obtain ⟨rfl, rfl⟩ := h
          cases hp
      · split at h
        · cases h
        · simp only [Option.some.injEq, Prod.mk.injEq] at h
          obtain ⟨rfl, rfl⟩ := h
          cases hp
      · cases h

/-- every field the loop reads is a field some `readField` returned -/
def ReadOff (f : Field) : Prop := ∃ b r, readField b = some (f, r)

def wsum (fs : List Field) : Nat := (fs.map wireW).sum

theorem fieldsPrefixF_weight (n : Nat) : ∀ (b : Bytes), wsum (fieldsPrefixF n b) ≤ b.length ∧
    ∀ f ∈ fieldsPrefixF n b, ReadOff f := by
  induction n with
  | zero => intro b; simp [fieldsPrefixF, wsum]
  | succ n ih =>
    intro b
    rw [fieldsPrefixF]
    cases hr : readField b with
    | none => simp [wsum]
    | some q =>
      obtain ⟨f, r⟩ := q
      have hw := readField_weight b f r hr
      obtain ⟨h1, h2⟩ := ih r
      simp only [wsum, List.map_cons, List.sum_cons] at h1 ⊢
      refine ⟨by omega, ?_⟩
      intro g hg
      rcases List.mem_cons.mp hg with rfl | hg'
      · exact ⟨b, r, hr⟩
      · exact h2 g hg'

theorem fieldsPrefix_weight (b : Bytes) : wsum (fieldsPrefix b) ≤ b.length := (fieldsPrefixF_weight _ b).1
theorem fieldsPrefix_readOff (b : Bytes) : ∀ f ∈ fieldsPrefix b, ReadOff f := (fieldsPrefixF_weight _ b).2

/-- on a well-formed input the prefix is the whole sequence of fields -/
theorem fieldsPrefixF_of_parse (n : Nat) : ∀ (b : Bytes) (fs : List Field), b.length ≤ n →
    parseFieldsF n b = some fs → fieldsPrefixF n b = fs := by
  induction n with
  | zero =>
    intro b fs hn h
    have hb : b = [] := List.eq_nil_of_length_eq_zero (by omega)
    subst hb
    simp only [parseFieldsF, Option.some.injEq] at h
    subst h; rfl
  | succ n ih =>
    intro b fs hn h
    cases b with
    | nil =>
      simp only [parseFieldsF, Option.some.injEq] at h
      subst h
      simp [fieldsPrefixF, readField, decodeVarint, decodeVarintF]
    | cons x xs =>
      rw [parseFieldsF] at h
      rw [fieldsPrefixF]
      cases hr : readField (x :: xs) with
      | none => rw [hr] at h; cases h
      | some q =>
        obtain ⟨f, r⟩ := q
        rw [hr] at h
        simp only at h ⊢
        cases hp : parseFieldsF n r with
        | none => rw [hp] at h; cases h
        | some fs' =>
          rw [hp] at h
          simp only [Option.some.injEq] at h
          subst h
          have hlt := readField_lt _ f r hr
          simp only [List.length_cons] at hlt hn
          rw [ih r fs' (by omega) hp]

theorem fieldsPrefix_of_parse (b : Bytes) (fs : List Field) (h : parseFields b = some fs) : fieldsPrefix b = fs :=
  fieldsPrefixF_of_parse b.length b fs (Nat.le_refl _) h

theorem parseFields_weight (b : Bytes) (fs : List Field) (h : parseFields b = some fs) : wsum fs ≤ b.length := by
  rw [← fieldsPrefix_of_parse b fs h]; exact fieldsPrefix_weight b

theorem parseFields_readOff (b : Bytes) (fs : List Field) (h : parseFields b = some fs) : ∀ f ∈ fs, ReadOff f := by
  rw [← fieldsPrefix_of_parse b fs h]; exact fieldsPrefix_readOff b

theorem readOff_len (f : Field) (p : Bytes) (h : ReadOff f) (hp : f.val = .len p) : p.length + 2 ≤ wireW f := by
  obtain ⟨b, r, hr⟩ := h
  exact readField_len_weight b f r p hr hp

/-! ## the instrumented loop: same result, bounded trace -/

theorem loopM_out {σ : Type} (step : σ → Field → Option σ) (stepM : σ → Field → M σ)
    (hs : ∀ m f, (stepM m f).out = toOut (step m f)) (fs : List Field) : ∀ (m : σ),
    (loopM stepM m fs).out = toOut (foldFields step m fs) := by
  induction fs with
  | nil => intro m; rfl
  | cons f fs ih =>
    intro m
    simp only [loopM, foldFields, M.bind, tick]
    have := hs m f
    cases hst : step m f with
    | none => rw [hst] at this; simp only [toOut] at this; rw [this]; rfl
    | some m' => rw [hst] at this; simp only [toOut] at this; rw [this]; exact ih m'

/-- the instrumented decoder returns what the plain decoder returns (`err "wire"` for `none`) -/
theorem decodeIntoM_out {σ : Type} (step : σ → Field → Option σ) (stepM : σ → Field → M σ)
    (hs : ∀ m f, (stepM m f).out = toOut (step m f)) (init : σ) (b : Bytes) :
    (decodeIntoM stepM init b).out = toOut (decodeInto step init b) := by
  unfold decodeIntoM decodeInto
  cases hp : parseFields b with
  | some fs =>
    rw [fieldsPrefix_of_parse b fs hp]
    simp only [M.bind, Option.isSome_some, if_true]
    have := loopM_out step stepM hs fs init
    cases hf : foldFields step init fs with
    | none => rw [hf] at this; simp only [toOut] at this ⊢; rw [this]
    | some m => rw [hf] at this; simp only [toOut] at this ⊢; rw [this]; rfl
  | none =>
    simp only [M.bind, Option.isSome_none, Bool.false_eq_true, if_false, toOut]
    have := loopM_out step stepM hs (fieldsPrefix b) init
    cases hl : (loopM stepM init (fieldsPrefix b)).out with
    | ok m => rfl
    | err c =>
      rw [hl] at this
      cases hf : foldFields step init (fieldsPrefix b) with
      | none => rw [hf] at this; simp only [toOut] at this; cases this; rfl
      | some m => rw [hf] at this; simp [toOut] at this
    | panic s =>
      rw [hl] at this
      cases hf : foldFields step init (fieldsPrefix b) <;> (rw [hf] at this; simp [toOut] at this)

theorem stepWith_out {σ : Type} (step : σ → Field → Option σ) (c : σ → Field → Trace) (m : σ) (f : Field) :
    (stepWith step c m f).out = toOut (step m f) := rfl

/-- per-iteration charges within `w f` ticks (the loop's own tick included) and `K·w f` allocation give the
    loop a trace within `Σ w` and `K·Σ w` -/
theorem loopM_cost {σ : Type} (stepM : σ → Field → M σ) (K : Nat) (fs : List Field)
    (hc : ∀ m, ∀ f ∈ fs, (stepM m f).tr.ticks + 1 ≤ wireW f ∧ (stepM m f).tr.alloc ≤ K * wireW f) : ∀ (m : σ),
    (loopM stepM m fs).tr.ticks ≤ wsum fs ∧ (loopM stepM m fs).tr.alloc ≤ K * wsum fs := by
  induction fs with
  | nil => intro m; simp [loopM, M.pure, wsum]
  | cons f fs ih =>
    intro m
    obtain ⟨h1, h2⟩ := hc m f (List.mem_cons_self)
    have ih' := ih (fun m g hg => hc m g (List.mem_cons_of_mem _ hg))
    simp only [loopM, M.bind, tick, wsum, List.map_cons, List.sum_cons]
    cases hst : (stepM m f).out with
    | ok m' =>
      obtain ⟨i1, i2⟩ := ih' m'
      simp only [Trace.add, wsum] at i1 i2 ⊢
      rw [Nat.mul_add]
      omega
    | err c =>
      simp only [Trace.add]
      rw [Nat.mul_add]
      omega
    | panic s =>
      simp only [Trace.add]
      rw [Nat.mul_add]
      omega

theorem decodeIntoM_cost {σ : Type} (stepM : σ → Field → M σ) (K : Nat) (init : σ) (b : Bytes)
    (hc : ∀ m f, ReadOff f → (stepM m f).tr.ticks + 1 ≤ wireW f ∧ (stepM m f).tr.alloc ≤ K * wireW f) :
    (decodeIntoM stepM init b).tr.ticks ≤ b.length ∧ (decodeIntoM stepM init b).tr.alloc ≤ K * b.length := by
  have hl := loopM_cost stepM K (fieldsPrefix b) (fun m f hf => hc m f (fieldsPrefix_readOff b f hf)) init
  have hw := fieldsPrefix_weight b
  have hkw : K * wsum (fieldsPrefix b) ≤ K * b.length := Nat.mul_le_mul_left K hw
  unfold decodeIntoM
  simp only [M.bind]
  cases (loopM stepM init (fieldsPrefix b)).out with
  | ok m =>
    simp only
    split <;> simp only [M.pure, fail, Trace.add] <;> omega
  | err c => simp only; omega
  | panic s => simp only; omega

/-! ## the five messages -/

/-- the bound a step has to meet -/
def StepOk (K : Nat) (t : Trace) (f : Field) : Prop := t.ticks + 1 ≤ wireW f ∧ t.alloc ≤ K * wireW f

theorem stepOk_zero (K : Nat) (f : Field) : StepOk K {} f := by
  have := wireW_pos f
  exact ⟨by show 0 + 1 ≤ wireW f; omega, Nat.zero_le _⟩

theorem stepOk_unknown (K : Nat) (hK : 1 ≤ K) (f : Field) : StepOk K (allocT f.unknownBytes.length) f := by
  have := wireW_pos f
  have h : wireW f ≤ K * wireW f := Nat.le_mul_of_pos_left _ hK
  exact ⟨by show 0 + 1 ≤ wireW f; omega, h⟩

theorem stepOk_bytes (K : Nat) (hK : 1 ≤ K) (f : Field) (p : Bytes) (hf : ReadOff f) (hp : f.val = .len p) :
    StepOk K (allocT p.length) f := by
  have := readOff_len f p hf hp
  have h : wireW f ≤ K * wireW f := Nat.le_mul_of_pos_left _ hK
  exact ⟨by show 0 + 1 ≤ wireW f; omega, by show p.length ≤ K * wireW f; omega⟩

/-- an embedded message: at most one new object, then the nested decoder's trace -/
theorem stepOk_nested (K k : Nat) (hk : k ≤ K) (f : Field) (p : Bytes) (t : Trace) (hf : ReadOff f)
    (hp : f.val = .len p) (ht : t.ticks ≤ p.length) (ha : t.alloc ≤ K * p.length) :
    StepOk K ((allocT k).add t) f := by
  have hw := readOff_len f p hf hp
  have h1 : K * (p.length + 2) ≤ K * wireW f := Nat.mul_le_mul_left K hw
  rw [Nat.mul_add] at h1
  refine ⟨?_, ?_⟩
  · show 0 + t.ticks + 1 ≤ wireW f; omega
  · show k + t.alloc ≤ K * wireW f; omega

theorem costTimestamp_ok (K : Nat) (hK : 1 ≤ K) (m : WTimestamp) (f : Field) : StepOk K (costTimestamp m f) f := by
  unfold costTimestamp
  split
  · exact stepOk_zero K f
  · exact stepOk_zero K f
  · exact stepOk_unknown K hK f

theorem decodeTimestampIntoM_cost (K : Nat) (hK : 1 ≤ K) (m : WTimestamp) (b : Bytes) :
    (decodeTimestampIntoM m b).tr.ticks ≤ b.length ∧ (decodeTimestampIntoM m b).tr.alloc ≤ K * b.length :=
  decodeIntoM_cost _ K m b (fun m f _ => costTimestamp_ok K hK m f)

theorem costRow_ok (K : Nat) (hK : 1 ≤ K) (m : WRow) (f : Field) (hf : ReadOff f) : StepOk K (costRow m f) f := by
  unfold costRow
  split
  · exact stepOk_zero K f
  · exact stepOk_zero K f
  · rename_i h1 h2; exact stepOk_bytes K hK f _ hf h2
  · exact stepOk_unknown K hK f

theorem decodeRowM_cost (K : Nat) (hK : 1 ≤ K) (b : Bytes) :
    (decodeRowM b).tr.ticks ≤ b.length ∧ (decodeRowM b).tr.alloc ≤ K * b.length :=
  decodeIntoM_cost _ K _ b (fun m f hf => costRow_ok K hK m f hf)

theorem costTdx_ok (K : Nat) (hK : 1 ≤ K) (m : WTdx) (f : Field) (hf : ReadOff f) : StepOk K (costTdx K m f) f := by
  unfold costTdx
  split
  · exact stepOk_zero K f
  · rename_i p h1 h2
    exact stepOk_nested K K (Nat.le_refl _) f p _ hf h2 (decodeRowM_cost K hK p).1 (decodeRowM_cost K hK p).2
  · exact stepOk_unknown K hK f

theorem decodeTdxIntoM_cost (K : Nat) (hK : 1 ≤ K) (m : WTdx) (b : Bytes) :
    (decodeTdxIntoM K m b).tr.ticks ≤ b.length ∧ (decodeTdxIntoM K m b).tr.alloc ≤ K * b.length :=
  decodeIntoM_cost _ K m b (fun m f hf => costTdx_ok K hK m f hf)

theorem costEntry_ok (K : Nat) (hK : 1 ≤ K) (m : Nat × Bytes) (f : Field) (hf : ReadOff f) :
    StepOk K (costEntry m f) f := by
  unfold costEntry
  split
  · rename_i h1 h2; exact stepOk_bytes K hK f _ hf h2
  · exact stepOk_zero K f

theorem decodeEntryM_cost (K : Nat) (hK : 1 ≤ K) (b : Bytes) :
    (decodeEntryM b).tr.ticks ≤ b.length ∧ (decodeEntryM b).tr.alloc ≤ K * b.length :=
  decodeIntoM_cost _ K _ b (fun m f hf => costEntry_ok K hK m f hf)

theorem costSevSnp_ok (K : Nat) (hK : 1 ≤ K) (m : WSevSnp) (f : Field) (hf : ReadOff f) :
    StepOk K (costSevSnp K m f) f := by
  unfold costSevSnp
  split
  · exact stepOk_zero K f
  · rename_i p h1 h2
    exact stepOk_nested K K (Nat.le_refl _) f p _ hf h2 (decodeEntryM_cost K hK p).1 (decodeEntryM_cost K hK p).2
  · rename_i h1 h2; exact stepOk_bytes K hK f _ hf h2
  · rename_i h1 h2; exact stepOk_bytes K hK f _ hf h2
  · exact stepOk_zero K f
  · rename_i h1 h2; exact stepOk_bytes K hK f _ hf h2
  · rename_i h1 h2; exact stepOk_bytes K hK f _ hf h2
  · exact stepOk_unknown K hK f

theorem decodeSevSnpIntoM_cost (K : Nat) (hK : 1 ≤ K) (m : WSevSnp) (b : Bytes) :
    (decodeSevSnpIntoM K m b).tr.ticks ≤ b.length ∧ (decodeSevSnpIntoM K m b).tr.alloc ≤ K * b.length :=
  decodeIntoM_cost _ K m b (fun m f hf => costSevSnp_ok K hK m f hf)

theorem ite_le (c : Prop) [Decidable c] (K : Nat) : (if c then 0 else K) ≤ K := by split <;> omega

theorem costGolden_ok (K : Nat) (hK : 1 ≤ K) (m : WGolden) (f : Field) (hf : ReadOff f) :
    StepOk K (costGolden K m f) f := by
  unfold costGolden
  split
  · rename_i p h1 h2
    exact stepOk_nested K _ (ite_le _ K) f p _ hf h2 (decodeTimestampIntoM_cost K hK _ p).1
      (decodeTimestampIntoM_cost K hK _ p).2
  · exact stepOk_zero K f
  · rename_i h1 h2; exact stepOk_bytes K hK f _ hf h2
  · rename_i h1 h2; exact stepOk_bytes K hK f _ hf h2
  · rename_i h1 h2; exact stepOk_bytes K hK f _ hf h2
  · rename_i h1 h2; exact stepOk_bytes K hK f _ hf h2
  · rename_i p h1 h2
    exact stepOk_nested K _ (ite_le _ K) f p _ hf h2 (decodeSevSnpIntoM_cost K hK _ p).1
      (decodeSevSnpIntoM_cost K hK _ p).2
  · rename_i p h1 h2
    exact stepOk_nested K _ (ite_le _ K) f p _ hf h2 (decodeTdxIntoM_cost K hK _ p).1
      (decodeTdxIntoM_cost K hK _ p).2
  · exact stepOk_unknown K hK f

/-- Unmarshal of a golden measurement, ALL nesting levels together: at most one loop iteration per input
    byte, at most K·|input| bytes allocated — whether the input is accepted or rejected. -/
theorem decodeGoldenM_cost (K : Nat) (hK : 1 ≤ K) (b : Bytes) :
    (decodeGoldenM K b).tr.ticks ≤ b.length ∧ (decodeGoldenM K b).tr.alloc ≤ K * b.length :=
  decodeIntoM_cost _ K _ b (fun m f hf => costGolden_ok K hK m f hf)

theorem costEndorsement_ok (m : WEndorsement) (f : Field) (hf : ReadOff f) : StepOk 1 (costEndorsement m f) f := by
  unfold costEndorsement
  split
  · rename_i h1 h2; exact stepOk_bytes 1 (Nat.le_refl _) f _ hf h2
  · rename_i h1 h2; exact stepOk_bytes 1 (Nat.le_refl _) f _ hf h2
  · exact stepOk_unknown 1 (Nat.le_refl _) f

/-- Unmarshal of the container: no heap object besides the copies — at most |input| ticks and |input| bytes -/
theorem decodeEndorsementM_cost (b : Bytes) :
    (decodeEndorsementM b).tr.ticks ≤ b.length ∧ (decodeEndorsementM b).tr.alloc ≤ b.length := by
  have := decodeIntoM_cost (stepWith stepEndorsement costEndorsement) 1 .zero b
    (fun m f hf => costEndorsement_ok m f hf)
  simpa [decodeEndorsementM] using this

/-! ### same results as the plain decoders -/

theorem decodeGoldenM_out (K : Nat) (b : Bytes) : (decodeGoldenM K b).out = toOut (decodeGolden b) :=
  decodeIntoM_out stepGolden _ (fun _ _ => rfl) .zero b

theorem decodeEndorsementM_out (b : Bytes) : (decodeEndorsementM b).out = toOut (decodeEndorsement b) :=
  decodeIntoM_out stepEndorsement _ (fun _ _ => rfl) .zero b

theorem decodeSevSnpIntoM_out (K : Nat) (m : WSevSnp) (b : Bytes) :
    (decodeSevSnpIntoM K m b).out = toOut (decodeSevSnpInto m b) :=
  decodeIntoM_out stepSevSnp _ (fun _ _ => rfl) m b

theorem decodeTdxIntoM_out (K : Nat) (m : WTdx) (b : Bytes) : (decodeTdxIntoM K m b).out = toOut (decodeTdxInto m b) :=
  decodeIntoM_out stepTdx _ (fun _ _ => rfl) m b

theorem decodeTimestampIntoM_out (m : WTimestamp) (b : Bytes) :
    (decodeTimestampIntoM m b).out = toOut (decodeTimestampInto m b) :=
  decodeIntoM_out stepTimestamp _ (fun _ _ => rfl) m b

theorem decodeRowM_out (b : Bytes) : (decodeRowM b).out = toOut (decodeRow b) :=
  decodeIntoM_out stepRow _ (fun _ _ => rfl) .zero b

theorem decodeEntryM_out (b : Bytes) : (decodeEntryM b).out = toOut (decodeEntry b) :=
  decodeIntoM_out stepEntry _ (fun _ _ => rfl) (0, []) b


/-! ## the size law of the glue's linear bounds, for the codec -/

theorem mem_le_wsum (fs : List Field) (f : Field) (h : f ∈ fs) : wireW f ≤ wsum fs := by
  induction fs with
  | nil => cases h
  | cons g gs ih =>
    simp only [wsum, List.map_cons, List.sum_cons]
    rcases List.mem_cons.mp h with rfl | h'
    · omega
    · have := ih h'
      simp only [wsum] at this
      omega

theorem foldFields_measure {σ : Type} (step : σ → Field → Option σ) (μ : σ → Nat)
    (hstep : ∀ m f m', ReadOff f → step m f = some m' → μ m' ≤ μ m + wireW f) (fs : List Field) :
    ∀ (m m' : σ), (∀ f ∈ fs, ReadOff f) → foldFields step m fs = some m' → μ m' ≤ μ m + wsum fs := by
  induction fs with
  | nil =>
    intro m m' _ h
    simp only [foldFields, Option.some.injEq] at h
    subst h; simp [wsum]
  | cons f fs ih =>
    intro m m' hro h
    simp only [foldFields] at h
    cases hs : step m f with
    | none => rw [hs] at h; cases h
    | some m1 =>
      rw [hs] at h
      have h1 := hstep m f m1 (hro f List.mem_cons_self) hs
      have h2 := ih m1 m' (fun g hg => hro g (List.mem_cons_of_mem _ hg)) h
      simp only [wsum, List.map_cons, List.sum_cons] at h2 ⊢
      omega

theorem decodeInto_measure {σ : Type} (step : σ → Field → Option σ) (μ : σ → Nat)
    (hstep : ∀ m f m', ReadOff f → step m f = some m' → μ m' ≤ μ m + wireW f) (init m' : σ) (b : Bytes)
    (h : decodeInto step init b = some m') : μ m' ≤ μ init + b.length := by
  obtain ⟨fs, hp, hf⟩ := decodeInto_parses step init m' b h
  have := foldFields_measure step μ hstep fs init m' (parseFields_readOff b fs hp) hf
  have := parseFields_weight b fs hp
  omega

theorem mapSet_length (l : List (Nat × Bytes)) (k : Nat) (v : Bytes) : (mapSet l k v).length ≤ l.length + 1 := by
  induction l with
  | nil => simp [mapSet]
  | cons p t ih =>
    obtain ⟨k', v'⟩ := p
    unfold mapSet
    split
    · simp
    · split
      · simp
      · simp only [List.length_cons]; omega

theorem stepSevSnp_entries (m : WSevSnp) (f : Field) (m' : WSevSnp) (_ : ReadOff f) (h : stepSevSnp m f = some m') :
    m'.measurements.length ≤ m.measurements.length + wireW f := by
  have hw := wireW_pos f
  unfold stepSevSnp at h
  split at h
  · simp only [Option.some.injEq] at h; subst h; simp
  · split at h
    · cases h
    · rename_i k v _
      simp only [Option.some.injEq] at h; subst h
      have := mapSet_length m.measurements k v
      simp only at this ⊢
      omega
  all_goals (simp only [Option.some.injEq] at h; subst h; simp)

/-- entries of the measurement map after unmarshalling `b` into a VMSevSnp ≤ entries before + |b| -/
theorem decodeSevSnpInto_entries (m s : WSevSnp) (b : Bytes) (h : decodeSevSnpInto m b = some s) :
    s.measurements.length ≤ m.measurements.length + b.length :=
  decodeInto_measure stepSevSnp (·.measurements.length) stepSevSnp_entries m s b h

theorem stepTdx_rows (m : WTdx) (f : Field) (m' : WTdx) (_ : ReadOff f) (h : stepTdx m f = some m') :
    m'.measurements.length ≤ m.measurements.length + wireW f := by
  have hw := wireW_pos f
  unfold stepTdx at h
  split at h
  · simp only [Option.some.injEq] at h; subst h; simp
  · split at h
    · cases h
    · simp only [Option.some.injEq] at h; subst h
      simp only [List.length_append, List.length_cons, List.length_nil]
      omega
  · simp only [Option.some.injEq] at h; subst h; simp

theorem decodeTdxInto_rows (m d : WTdx) (b : Bytes) (h : decodeTdxInto m b = some d) :
    d.measurements.length ≤ m.measurements.length + b.length :=
  decodeInto_measure stepTdx (·.measurements.length) stepTdx_rows m d b h

/-- map entries + TDX rows held by a golden measurement -/
def entriesRows (g : WGolden) : Nat :=
  ((g.sevSnp.map (·.measurements.length)).getD 0) + ((g.tdx.map (·.measurements.length)).getD 0)

theorem stepGolden_entriesRows (m : WGolden) (f : Field) (m' : WGolden) (hf : ReadOff f)
    (h : stepGolden m f = some m') : entriesRows m' ≤ entriesRows m + wireW f := by
  unfold stepGolden at h
  split at h
  · split at h
    · cases h
    · simp only [Option.some.injEq] at h; subst h; simp [entriesRows]
  · simp only [Option.some.injEq] at h; subst h; simp [entriesRows]
  · simp only [Option.some.injEq] at h; subst h; simp [entriesRows]
  · simp only [Option.some.injEq] at h; subst h; simp [entriesRows]
  · simp only [Option.some.injEq] at h; subst h; simp [entriesRows]
  · simp only [Option.some.injEq] at h; subst h; simp [entriesRows]
  · rename_i p h1 h2
    split at h
    · cases h
    · rename_i s hs
      simp only [Option.some.injEq] at h; subst h
      have h3 := decodeSevSnpInto_entries _ s p hs
      have h4 := readOff_len f p hf h2
      have h5 : (m.sevSnp.getD WSevSnp.zero).measurements.length = (m.sevSnp.map (·.measurements.length)).getD 0 := by
        cases m.sevSnp <;> rfl
      simp only [entriesRows, Option.map_some, Option.getD_some] at h3 ⊢
      omega
  · rename_i p h1 h2
    split at h
    · cases h
    · rename_i d hd
      simp only [Option.some.injEq] at h; subst h
      have h3 := decodeTdxInto_rows _ d p hd
      have h4 := readOff_len f p hf h2
      have h5 : (m.tdx.getD WTdx.zero).measurements.length = (m.tdx.map (·.measurements.length)).getD 0 := by
        cases m.tdx <;> rfl
      simp only [entriesRows, Option.map_some, Option.getD_some] at h3 ⊢
      omega
  · simp only [Option.some.injEq] at h; subst h; simp [entriesRows]

/-- size law, golden measurement: a decoded golden measurement has no more map entries and rows than its
    encoding has bytes -/
theorem decodeGolden_entriesRows (b : Bytes) (g : WGolden) (h : decodeGolden b = some g) :
    entriesRows g ≤ b.length := by
  have := decodeInto_measure stepGolden entriesRows stepGolden_entriesRows .zero g b h
  simpa [entriesRows, WGolden.zero] using this

theorem lastD_mem {α : Type} (sel : Field → Option α) (d : α) (fs : List Field) :
    lastD sel d fs = d ∨ ∃ f ∈ fs, sel f = some (lastD sel d fs) := by
  induction fs generalizing d with
  | nil => exact Or.inl rfl
  | cons f fs ih =>
    simp only [lastD]
    rcases ih ((sel f).getD d) with h | ⟨g, hg, hs⟩
    · rw [h]
      cases hsel : sel f with
      | none => exact Or.inl rfl
      | some a => exact Or.inr ⟨f, List.mem_cons_self, by simp [hsel]⟩
    · exact Or.inr ⟨g, List.mem_cons_of_mem _ hg, hs⟩

theorem isLen_val (num : Nat) (f : Field) (p : Bytes) (h : isLen num f = some p) : f.val = .len p := by
  unfold isLen at h
  split at h
  · split at h
    · simp only [Option.some.injEq] at h; subst h; assumption
    · cases h
  · cases h

theorem lastLenD_length (num : Nat) (fs : List Field) (hro : ∀ f ∈ fs, ReadOff f) :
    (lastLenD num [] fs).length ≤ wsum fs := by
  rcases lastD_mem (isLen num) [] fs with h | ⟨f, hf, hs⟩
  · simp only [lastLenD]; rw [h]; simp
  · have h1 := readOff_len f _ (hro f hf) (isLen_val num f _ hs)
    have h2 := mem_le_wsum fs f hf
    simp only [lastLenD]
    omega

/-- size law, container: the payload and the signature it carries are no longer than the container -/
theorem decodeEndorsement_sizes (b : Bytes) (e : WEndorsement) (h : decodeEndorsement b = some e) :
    e.serializedUefiGolden.length ≤ b.length ∧ e.signature.length ≤ b.length := by
  obtain ⟨fs, hp, _⟩ := decodeInto_parses stepEndorsement .zero e b h
  have hsh := decodeEndorsement_fields b fs hp
  rw [h] at hsh
  have he := Option.some.inj hsh
  have hw := parseFields_weight b fs hp
  have hro := parseFields_readOff b fs hp
  have h1 := lastLenD_length 1 fs hro
  have h2 := lastLenD_length 2 fs hro
  rw [he]
  simp only
  omega


/-! ## the size of the decoded structure

Bytes held by the byte-string fields and the unknown-field bytes at every level, plus ONE per heap object
(embedded message, repeated element, map entry): at most the number of input bytes.  This is a statement
about the decoded VALUE alone, independent of the cost accounting above. -/

def heldTs (t : WTimestamp) : Nat := t.unknown.length
def heldRow (r : WRow) : Nat := r.mrtd.length + r.unknown.length
def heldRows (l : List WRow) : Nat := (l.map fun r => heldRow r + 1).sum
def heldTdx (d : WTdx) : Nat := heldRows d.measurements + d.unknown.length
def heldMap (l : List (Nat × Bytes)) : Nat := (l.map fun p => p.2.length + 1).sum
def heldSnp (s : WSevSnp) : Nat :=
  heldMap s.measurements + s.familyId.length + s.imageId.length + s.caBundle.length + s.svsmMeasurement.length +
    s.unknown.length
def heldOpt {α : Type} (h : α → Nat) : Option α → Nat
  | none => 0
  | some a => h a + 1
def heldGolden (g : WGolden) : Nat :=
  g.commit.length + g.cert.length + g.digest.length + g.caBundle.length + g.unknown.length +
    heldOpt heldTs g.timestamp + heldOpt heldSnp g.sevSnp + heldOpt heldTdx g.tdx
def heldEndorsement (e : WEndorsement) : Nat :=
  e.serializedUefiGolden.length + e.signature.length + e.unknown.length

theorem heldOpt_some {α : Type} (h : α → Nat) (a : α) : heldOpt h (some a) = h a + 1 := rfl

theorem heldOpt_getD {α : Type} (h : α → Nat) (z : α) (hz : h z = 0) (o : Option α) :
    h (o.getD z) + 1 ≤ heldOpt h o + 1 ∧ heldOpt h o ≤ h (o.getD z) + 1 := by
  cases o with
  | none => simp [heldOpt, hz]
  | some a => simp [heldOpt]

theorem stepTimestamp_held (m : WTimestamp) (f : Field) (m' : WTimestamp) (_ : ReadOff f)
    (h : stepTimestamp m f = some m') : heldTs m' ≤ heldTs m + wireW f := by
  unfold stepTimestamp at h
  split at h
  · simp only [Option.some.injEq] at h; subst h; simp [heldTs]
  · simp only [Option.some.injEq] at h; subst h; simp [heldTs]
  · simp only [Option.some.injEq] at h; subst h; simp [heldTs, wireW]

theorem decodeTimestampInto_held (m t : WTimestamp) (b : Bytes) (h : decodeTimestampInto m b = some t) :
    heldTs t ≤ heldTs m + b.length := decodeInto_measure stepTimestamp heldTs stepTimestamp_held m t b h

theorem stepRow_held (m : WRow) (f : Field) (m' : WRow) (hf : ReadOff f) (h : stepRow m f = some m') :
    heldRow m' ≤ heldRow m + wireW f := by
  unfold stepRow at h
  split at h
  · simp only [Option.some.injEq] at h; subst h; simp [heldRow]
  · simp only [Option.some.injEq] at h; subst h; simp [heldRow]
  · rename_i p h1 h2
    simp only [Option.some.injEq] at h; subst h
    have := readOff_len f p hf h2
    simp only [heldRow]; omega
  · simp only [Option.some.injEq] at h; subst h; simp only [heldRow, wireW, List.length_append]; omega

theorem decodeRow_held (r : WRow) (b : Bytes) (h : decodeRow b = some r) : heldRow r ≤ b.length := by
  have := decodeInto_measure stepRow heldRow stepRow_held .zero r b h
  simpa [heldRow, WRow.zero] using this

theorem heldRows_append (a b : List WRow) : heldRows (a ++ b) = heldRows a + heldRows b := by
  simp [heldRows, List.sum_append]

theorem stepTdx_held (m : WTdx) (f : Field) (m' : WTdx) (hf : ReadOff f) (h : stepTdx m f = some m') :
    heldTdx m' ≤ heldTdx m + wireW f := by
  unfold stepTdx at h
  split at h
  · simp only [Option.some.injEq] at h; subst h; simp [heldTdx]
  · rename_i p h1 h2
    split at h
    · cases h
    · rename_i r hr
      simp only [Option.some.injEq] at h; subst h
      have h3 := decodeRow_held r p hr
      have h4 := readOff_len f p hf h2
      simp only [heldTdx, heldRows_append]
      simp only [heldRows, List.map_cons, List.map_nil, List.sum_cons, List.sum_nil]
      omega
  · simp only [Option.some.injEq] at h; subst h; simp only [heldTdx, wireW, List.length_append]; omega

theorem decodeTdxInto_held (m d : WTdx) (b : Bytes) (h : decodeTdxInto m b = some d) :
    heldTdx d ≤ heldTdx m + b.length := decodeInto_measure stepTdx heldTdx stepTdx_held m d b h

theorem stepEntry_held (m : Nat × Bytes) (f : Field) (m' : Nat × Bytes) (hf : ReadOff f)
    (h : stepEntry m f = some m') : m'.2.length ≤ m.2.length + wireW f := by
  unfold stepEntry at h
  split at h
  · simp only [Option.some.injEq] at h; subst h; simp
  · rename_i p h1 h2
    simp only [Option.some.injEq] at h; subst h
    have := readOff_len f p hf h2
    simp only; omega
  · simp only [Option.some.injEq] at h; subst h; simp

theorem decodeEntry_held (e : Nat × Bytes) (b : Bytes) (h : decodeEntry b = some e) : e.2.length ≤ b.length := by
  have := decodeInto_measure stepEntry (·.2.length) stepEntry_held (0, []) e b h
  simpa using this

theorem mapSet_held (l : List (Nat × Bytes)) (k : Nat) (v : Bytes) : heldMap (mapSet l k v) ≤ heldMap l + v.length + 1 := by
  induction l with
  | nil => simp [mapSet, heldMap]
  | cons p t ih =>
    obtain ⟨k', v'⟩ := p
    unfold mapSet
    split
    · simp [heldMap]; omega
    · split
      · simp [heldMap]; omega
      · simp only [heldMap, List.map_cons, List.sum_cons] at ih ⊢; omega

theorem stepSevSnp_held (m : WSevSnp) (f : Field) (m' : WSevSnp) (hf : ReadOff f) (h : stepSevSnp m f = some m') :
    heldSnp m' ≤ heldSnp m + wireW f := by
  unfold stepSevSnp at h
  split at h
  · simp only [Option.some.injEq] at h; subst h; simp [heldSnp]
  · rename_i p h1 h2
    split at h
    · cases h
    · rename_i k v he
      simp only [Option.some.injEq] at h; subst h
      have h3 := decodeEntry_held (k, v) p he
      have h4 := readOff_len f p hf h2
      have h5 := mapSet_held m.measurements k v
      simp only [heldSnp] at h3 ⊢
      omega
  · rename_i p h1 h2
    simp only [Option.some.injEq] at h; subst h
    have := readOff_len f p hf h2
    simp only [heldSnp]; omega
  · rename_i p h1 h2
    simp only [Option.some.injEq] at h; subst h
    have := readOff_len f p hf h2
    simp only [heldSnp]; omega
  · simp only [Option.some.injEq] at h; subst h; simp [heldSnp]
  · rename_i p h1 h2
    simp only [Option.some.injEq] at h; subst h
    have := readOff_len f p hf h2
    simp only [heldSnp]; omega
  · rename_i p h1 h2
    simp only [Option.some.injEq] at h; subst h
    have := readOff_len f p hf h2
    simp only [heldSnp]; omega
  · simp only [Option.some.injEq] at h; subst h; simp only [heldSnp, wireW, List.length_append]; omega

theorem decodeSevSnpInto_held (m s : WSevSnp) (b : Bytes) (h : decodeSevSnpInto m b = some s) :
    heldSnp s ≤ heldSnp m + b.length := decodeInto_measure stepSevSnp heldSnp stepSevSnp_held m s b h

theorem stepGolden_held (m : WGolden) (f : Field) (m' : WGolden) (hf : ReadOff f) (h : stepGolden m f = some m') :
    heldGolden m' ≤ heldGolden m + wireW f := by
  unfold stepGolden at h
  split at h
  · rename_i p h1 h2
    split at h
    · cases h
    · rename_i t ht
      simp only [Option.some.injEq] at h; subst h
      have h3 := decodeTimestampInto_held _ t p ht
      have h4 := readOff_len f p hf h2
      have h5 := (heldOpt_getD heldTs WTimestamp.zero rfl m.timestamp).1
      simp only [heldGolden, heldOpt_some] at h3 ⊢
      omega
  · simp only [Option.some.injEq] at h; subst h; simp [heldGolden]
  · rename_i p h1 h2
    simp only [Option.some.injEq] at h; subst h
    have := readOff_len f p hf h2
    simp only [heldGolden]; omega
  · rename_i p h1 h2
    simp only [Option.some.injEq] at h; subst h
    have := readOff_len f p hf h2
    simp only [heldGolden]; omega
  · rename_i p h1 h2
    simp only [Option.some.injEq] at h; subst h
    have := readOff_len f p hf h2
    simp only [heldGolden]; omega
  · rename_i p h1 h2
    simp only [Option.some.injEq] at h; subst h
    have := readOff_len f p hf h2
    simp only [heldGolden]; omega
  · rename_i p h1 h2
    split at h
    · cases h
    · rename_i s hs
      simp only [Option.some.injEq] at h; subst h
      have h3 := decodeSevSnpInto_held _ s p hs
      have h4 := readOff_len f p hf h2
      have h5 := (heldOpt_getD heldSnp WSevSnp.zero rfl m.sevSnp).1
      simp only [heldGolden, heldOpt_some] at h3 ⊢
      omega
  · rename_i p h1 h2
    split at h
    · cases h
    · rename_i d hd
      simp only [Option.some.injEq] at h; subst h
      have h3 := decodeTdxInto_held _ d p hd
      have h4 := readOff_len f p hf h2
      have h5 := (heldOpt_getD heldTdx WTdx.zero rfl m.tdx).1
      simp only [heldGolden, heldOpt_some] at h3 ⊢
      omega
  · simp only [Option.some.injEq] at h; subst h; simp only [heldGolden, wireW, List.length_append]; omega

/-- the decoded golden measurement — bytes held at every level plus one per heap object — is no larger than
    its encoding -/
theorem decodeGolden_held (b : Bytes) (g : WGolden) (h : decodeGolden b = some g) : heldGolden g ≤ b.length := by
  have := decodeInto_measure stepGolden heldGolden stepGolden_held .zero g b h
  simpa [heldGolden, heldOpt, WGolden.zero] using this

theorem stepEndorsement_held (m : WEndorsement) (f : Field) (m' : WEndorsement) (hf : ReadOff f)
    (h : stepEndorsement m f = some m') : heldEndorsement m' ≤ heldEndorsement m + wireW f := by
  unfold stepEndorsement at h
  split at h
  · rename_i p h1 h2
    simp only [Option.some.injEq] at h; subst h
    have := readOff_len f p hf h2
    simp only [heldEndorsement]; omega
  · rename_i p h1 h2
    simp only [Option.some.injEq] at h; subst h
    have := readOff_len f p hf h2
    simp only [heldEndorsement]; omega
  · simp only [Option.some.injEq] at h; subst h; simp only [heldEndorsement, wireW, List.length_append]; omega

theorem decodeEndorsement_held (b : Bytes) (e : WEndorsement) (h : decodeEndorsement b = some e) :
    heldEndorsement e ≤ b.length := by
  have := decodeInto_measure stepEndorsement heldEndorsement stepEndorsement_held .zero e b h
  simpa [heldEndorsement, WEndorsement.zero] using this


end GceTcb.DecWire
