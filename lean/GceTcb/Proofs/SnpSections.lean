import GceTcb.Model.SevMeta
/-
C04 — validateSections accepts exactly the section lists that are well-formed in the property's
sense (`SectionsValid`, declarative); the verdict of its sort-based overlap check equals pairwise
disjointness and does not depend on which sorted permutation `sort.Slice` returns.  Core only.
-/
namespace GceTcb.Proofs.SnpSections
open GceTcb GceTcb.Codecs GceTcb.SevMeta

abbrev Sec := SevMetadataSection

/-- two ranges `[address, address+length)` have no byte in common (64-bit ends) -/
def Disjoint (a b : Sec) : Prop := a.address + a.length ≤ b.address ∨ b.address + b.length ≤ a.address

def LenOK (s : Sec) : Prop := s.length % 4096 = 0 ∧ s.length ≠ 0

instance : DecidableRel Disjoint := fun a b => by unfold Disjoint; exact inferInstance
instance : DecidablePred LenOK := fun s => by unfold LenOK; exact inferInstance

/-- number of sections of a kind -/
def count (k : Nat) (secs : List Sec) : Nat := secs.countP (fun s => s.kind == k)

/-- The property's well-formedness of SNP metadata (everything validateSections looks at). -/
structure SectionsValid (secs : List Sec) : Prop where
  lengths : ∀ s ∈ secs, LenOK s
  oneSecret : count kindSecret secs ≤ 1
  oneCpuid : count kindCpuid secs ≤ 1
  hasUnmeasured : 1 ≤ count kindUnmeasured secs
  hasSecret : 1 ≤ count kindSecret secs
  hasCpuid : 1 ≤ count kindCpuid secs
  disjoint : secs.Pairwise Disjoint

/-! ### the overlap check on a sorted list -/

theorem disjoint_symm {a b : Sec} (h : Disjoint a b) : Disjoint b a := h.symm

/-- on a list sorted by start address whose ranges are non-empty: no adjacent overlap ↔ pairwise disjoint -/
theorem overlapSorted_false_iff (l : List Sec) (hs : l.Pairwise (fun a b => a.address ≤ b.address))
    (hl : ∀ s ∈ l, 0 < s.length) : overlapSorted l = false ↔ l.Pairwise Disjoint := by
  induction l with
  | nil => simp [overlapSorted]
  | cons a t ih =>
    cases t with
    | nil => simp [overlapSorted]
    | cons b r =>
      have hs' := (List.pairwise_cons.mp hs)
      have hl' : ∀ s ∈ b :: r, 0 < s.length := fun s h => hl s (List.mem_cons_of_mem _ h)
      have ih' := ih hs'.2 hl'
      simp only [overlapSorted, Bool.or_eq_false_iff, decide_eq_false_iff_not, Nat.not_lt]
      rw [ih', List.pairwise_cons (a := a)]
      constructor
      · rintro ⟨hab, hp⟩
        refine ⟨?_, hp⟩
        intro c hc
        left
        rcases List.mem_cons.mp hc with rfl | hcr
        · exact hab
        · -- b.start ≤ c.start by sortedness of the tail
          have hbc := (List.pairwise_cons.mp hs'.2).1 c hcr
          have hb := hl b (List.mem_cons_of_mem _ List.mem_cons_self)
          -- disjointness of b and c, with b before c
          have hd := (List.pairwise_cons.mp hp).1 c hcr
          rcases hd with hd | hd
          · omega
          · have hc0 := hl c (List.mem_cons_of_mem _ hc)
            omega
      · rintro ⟨ha, hp⟩
        refine ⟨?_, hp⟩
        have hab := hs'.1 b List.mem_cons_self
        have hb := hl b (List.mem_cons_of_mem _ List.mem_cons_self)
        rcases ha b List.mem_cons_self with h | h
        · exact h
        · omega

theorem startLe_trans (a b c : Sec) (h1 : startLe a b = true) (h2 : startLe b c = true) : startLe a c = true := by
  simp only [startLe, decide_eq_true_eq] at *; omega

theorem startLe_total (a b : Sec) : (startLe a b || startLe b a) = true := by
  simp only [startLe, Bool.or_eq_true, decide_eq_true_eq]; omega

/-- The overlap verdict for ANY permutation of the sections that is sorted by start address — so the
    model's choice of `mergeSort` for `sort.Slice` is immaterial.

    What is assumed about Go's `sort.Slice(x, less)` (pattern-defeating quicksort, NOT stable) is exactly its
    documented contract for a strict weak ordering `less`: the result `l` is a rearrangement of the input
    (`l.Perm secs`) in which no later element is `less` than an earlier one.  Here `less a b` is
    `a.start < b.start`, so "not `less l[j] l[i]` for i < j" reads `l[i].address ≤ l[j].address` — the
    hypothesis `hs`.  Ties (equal start addresses) may come out in EITHER order; the lemma covers both, because
    two non-empty ranges with the same start overlap whichever comes first (`hl`: lengths were checked to be
    positive by the first loop before the sort is reached). -/
theorem overlapSorted_perm_invariant (secs l : List Sec) (hp : l.Perm secs)
    (hs : l.Pairwise (fun a b => a.address ≤ b.address)) (hl : ∀ s ∈ secs, 0 < s.length) :
    overlapSorted l = false ↔ secs.Pairwise Disjoint := by
  rw [overlapSorted_false_iff l hs (fun s h => hl s (hp.mem_iff.mp h))]
  exact hp.pairwise_iff (fun h => disjoint_symm h)

theorem overlap_mergeSort (secs : List Sec) (hl : ∀ s ∈ secs, 0 < s.length) :
    overlapSorted (secs.mergeSort startLe) = false ↔ secs.Pairwise Disjoint := by
  apply overlapSorted_perm_invariant secs _ (List.mergeSort_perm secs startLe) _ hl
  have := List.pairwise_mergeSort startLe_trans startLe_total secs
  exact this.imp (fun h => by simpa [startLe] using h)

/-! ### the first loop -/

def ind (b : Bool) : Nat := if b then 1 else 0

theorem checkSections_ok_iff (secs : List Sec) (seen : List Nat) (out : List Nat) :
    checkSections secs seen = .ok out ↔
      (∀ s ∈ secs, LenOK s) ∧
      (∀ k, k = kindSecret ∨ k = kindCpuid → count k secs + ind (seen.contains k) ≤ 1) ∧
      out = (secs.map (·.kind)).reverse ++ seen := by
  induction secs generalizing seen with
  | nil =>
    simp only [checkSections, List.not_mem_nil, false_implies, implies_true, true_and, List.map_nil,
      List.reverse_nil, List.nil_append, count, List.countP_nil, Nat.zero_add]
    constructor
    · intro h; cases h
      exact ⟨fun k _ => by unfold ind; split <;> omega, rfl⟩
    · rintro ⟨_, rfl⟩; rfl
  | cons s rest ih =>
    unfold checkSections
    by_cases hdup : seen.contains s.kind = true ∧ (s.kind = kindSecret ∨ s.kind = kindCpuid)
    · rw [if_pos hdup]
      constructor
      · intro h; cases h
      · rintro ⟨_, hk, _⟩
        have := hk s.kind hdup.2
        simp only [count, List.countP_cons, beq_self_eq_true, if_true, ind, hdup.1] at this
        omega
    · rw [if_neg hdup]
      by_cases hlen : s.length % 4096 ≠ 0 ∨ s.length = 0
      · rw [if_pos hlen]
        constructor
        · intro h; cases h
        · rintro ⟨hl, _⟩
          have := hl s List.mem_cons_self
          unfold LenOK at this
          omega
      · rw [if_neg hlen, ih]
        have hs : LenOK s := by unfold LenOK; omega
        constructor
        · rintro ⟨hl, hk, rfl⟩
          refine ⟨?_, ?_, by simp⟩
          · intro x hx
            rcases List.mem_cons.mp hx with rfl | hx
            · exact hs
            · exact hl x hx
          · intro k hk2
            have := hk k hk2
            simp only [count, List.countP_cons, List.contains_cons, ind] at this ⊢
            by_cases hsk : s.kind == k
            · have hks : k = s.kind := (beq_iff_eq.mp hsk).symm
              have : seen.contains k = false := by
                cases hc : seen.contains k
                · rfl
                · exfalso; apply hdup; subst hks; exact ⟨hc, hk2⟩
              have hks' : (k == s.kind) = true := by rw [hks]; exact beq_self_eq_true _
              simp only [hsk, this, hks', Bool.true_or, if_true, Bool.false_eq_true, if_false] at *
              omega
            · have hks' : (k == s.kind) = false := by
                cases h : k == s.kind
                · rfl
                · exfalso; apply hsk; rw [beq_iff_eq.mp h]; exact beq_self_eq_true _
              simp only [hsk, hks', Bool.false_or, if_false, Bool.false_eq_true] at *
              omega
        · rintro ⟨hl, hk, rfl⟩
          refine ⟨fun x hx => hl x (List.mem_cons_of_mem _ hx), ?_, by simp⟩
          intro k hk2
          have := hk k hk2
          simp only [count, List.countP_cons, List.contains_cons, ind] at this ⊢
          by_cases hsk : s.kind == k
          · have hks' : (k == s.kind) = true := by rw [← beq_iff_eq.mp hsk]; exact beq_self_eq_true _
            simp only [hsk, hks', Bool.true_or, if_true] at *
            split at this <;> omega
          · have hks' : (k == s.kind) = false := by
              cases h : k == s.kind
              · rfl
              · exfalso; apply hsk; rw [beq_iff_eq.mp h]; exact beq_self_eq_true _
            simp only [hsk, hks', Bool.false_or, if_false, Bool.false_eq_true] at *
            omega

theorem checkSections_no_panic (secs : List Sec) (seen : List Nat) (site : String) :
    checkSections secs seen ≠ .panic site := by
  induction secs generalizing seen with
  | nil => simp [checkSections]
  | cons s rest ih =>
    unfold checkSections
    split
    · simp
    · split
      · simp
      · exact ih _

theorem contains_kinds (secs : List Sec) (k : Nat) :
    ((secs.map (·.kind)).reverse ++ ([] : List Nat)).contains k = true ↔ 1 ≤ count k secs := by
  simp only [List.append_nil, List.contains_reverse, count]
  induction secs with
  | nil => simp
  | cons s rest ih =>
    simp only [List.map_cons, List.contains_cons, List.countP_cons, Bool.or_eq_true]
    by_cases h : s.kind == k
    · have : (k == s.kind) = true := by rw [beq_iff_eq.mp h]; exact beq_self_eq_true _
      simp [h, this]
    · have : (k == s.kind) = false := by
        cases h' : k == s.kind
        · rfl
        · exfalso; apply h; rw [beq_iff_eq.mp h']; exact beq_self_eq_true _
      simp only [this, h, Bool.false_eq_true, false_or, if_false, Nat.add_zero]
      exact ih

theorem validateSections_no_panic (secs : List Sec) (site : String) : validateSections secs ≠ .panic site := by
  unfold validateSections
  split
  · simp
  · split
    · repeat (first | split | simp)
    · simp
    · rename_i s h; exact absurd h (checkSections_no_panic _ _ _)

/-- go: validateSections returns nil exactly on well-formed metadata -/
theorem validateSections_ok_iff (secs : List Sec) : validateSections secs = .ok () ↔ SectionsValid secs := by
  unfold validateSections
  by_cases hnil : secs = []
  · subst hnil
    simp only [if_true]
    constructor
    · intro h; cases h
    · intro h; have := h.hasUnmeasured; simp [count] at this
  · rw [if_neg hnil]
    cases hc : checkSections secs [] with
    | err c =>
      simp only
      constructor
      · intro h; cases h
      · intro h
        exfalso
        have : checkSections secs [] = .ok ((secs.map (·.kind)).reverse ++ []) := by
          rw [checkSections_ok_iff]
          refine ⟨h.lengths, ?_, rfl⟩
          intro k hk
          simp only [List.contains_nil, ind, Bool.false_eq_true, if_false, Nat.add_zero]
          rcases hk with rfl | rfl
          · exact h.oneSecret
          · exact h.oneCpuid
        rw [hc] at this; cases this
    | panic s => exact absurd hc (checkSections_no_panic _ _ _)
    | ok seen =>
      have hiff := (checkSections_ok_iff secs [] seen).mp hc
      obtain ⟨hlen, hk, hseen⟩ := hiff
      have hpos : ∀ s ∈ secs, 0 < s.length := fun s hs => by have := hlen s hs; unfold LenOK at this; omega
      simp only
      have hU := contains_kinds secs kindUnmeasured
      have hS := contains_kinds secs kindSecret
      have hC := contains_kinds secs kindCpuid
      rw [← hseen] at hU hS hC
      have hov := overlap_mergeSort secs hpos
      constructor
      · intro h
        split at h; · cases h
        split at h; · cases h
        split at h; · cases h
        split at h; · cases h
        rename_i h1 h2 h3 h4
        simp only [Bool.not_eq_true', Bool.not_eq_false] at h1 h2 h3
        simp only [Bool.not_eq_true] at h4
        have k1 := hk kindSecret (Or.inl rfl)
        have k2 := hk kindCpuid (Or.inr rfl)
        simp only [List.contains_nil, ind, Bool.false_eq_true, if_false, Nat.add_zero] at k1 k2
        exact ⟨hlen, k1, k2, hU.mp (by simpa using h1), hS.mp (by simpa using h2), hC.mp (by simpa using h3), hov.mp h4⟩
      · intro h
        rw [if_neg (by rw [hU.mpr h.hasUnmeasured]; decide), if_neg (by rw [hS.mpr h.hasSecret]; decide),
          if_neg (by rw [hC.mpr h.hasCpuid]; decide), if_neg (by rw [hov.mpr h.disjoint]; decide)]

/-! ### `sort.Slice` as a parameter -/

/-- go: the `less` function handed to sort.Slice: `checkData[i].start < checkData[j].start` -/
def startLt (a b : Sec) : Bool := a.address < b.address

/-- The contract of `sort.Slice(x, less)` for a strict weak ordering `less` (package sort: "sorts the slice x
    given the provided less function … The sort is not guaranteed to be stable"): a rearrangement in which no
    later element is `less` than an earlier one.  Nothing else is assumed — in particular not which of the
    admissible rearrangements pdqsort produces, nor anything about elements that compare equal. -/
structure SortsBy (less : Sec → Sec → Bool) (sort : List Sec → List Sec) : Prop where
  perm : ∀ l, (sort l).Perm l
  sorted : ∀ l, (sort l).Pairwise (fun a b => less b a = false)

/-- validateSections with the library sort as a parameter -/
def validateSectionsWith (sort : List Sec → List Sec) (secs : List Sec) : Outcome Unit :=
  if secs = [] then .err "no-metadata"
  else
    match checkSections secs [] with
    | .ok seen =>
      if !seen.contains kindUnmeasured then .err "no-unmeasured"
      else if !seen.contains kindSecret then .err "no-secret"
      else if !seen.contains kindCpuid then .err "no-cpuid"
      else if overlapSorted (sort secs) then .err "overlap"
      else .ok ()
    | .err c => .err c
    | .panic s => .panic s

/-- the model's stand-in meets the contract -/
theorem mergeSort_sortsBy : SortsBy startLt (fun l => l.mergeSort startLe) where
  perm l := List.mergeSort_perm l startLe
  sorted l := (List.pairwise_mergeSort startLe_trans startLe_total l).imp (fun h => by
    simp only [startLe, startLt, decide_eq_true_eq, decide_eq_false_iff_not] at h ⊢; omega)

/-- **The result of validateSections does not depend on the sorting algorithm**: with ANY function meeting the
    contract of `sort.Slice` in place of the model's merge sort — stable or not, whatever it does with equal
    start addresses — validateSections returns the same outcome (same verdict, same error class) on every
    descriptor list. -/
theorem validateSectionsWith_eq (sort : List Sec → List Sec) (h : SortsBy startLt sort) (secs : List Sec) :
    validateSectionsWith sort secs = validateSections secs := by
  unfold validateSectionsWith validateSections
  by_cases hnil : secs = []
  · rw [if_pos hnil, if_pos hnil]
  · rw [if_neg hnil, if_neg hnil]
    cases hc : checkSections secs [] with
    | err c => rfl
    | panic s => rfl
    | ok seen =>
      simp only
      have hpos : ∀ s ∈ secs, 0 < s.length := by
        intro s hs
        have := ((checkSections_ok_iff secs [] seen).mp hc).1 s hs
        unfold LenOK at this; omega
      have hs : (sort secs).Pairwise (fun a b => a.address ≤ b.address) :=
        (h.sorted secs).imp (fun hh => by simp only [startLt, decide_eq_false_iff_not] at hh; omega)
      have e1 := overlapSorted_perm_invariant secs (sort secs) (h.perm secs) hs hpos
      have e2 := overlap_mergeSort secs hpos
      have : overlapSorted (sort secs) = overlapSorted (secs.mergeSort startLe) := by
        cases h1 : overlapSorted (sort secs) <;> cases h2 : overlapSorted (secs.mergeSort startLe)
        · rfl
        · exact absurd (e2.mpr (e1.mp h1)) (by rw [h2]; decide)
        · exact absurd (e1.mpr (e2.mp h2)) (by rw [h1]; decide)
        · rfl
      rw [this]

/-- an unstable sort is covered: reversing each run of equal start addresses of the merge-sorted list still
    meets the contract (two descriptors with the same start may come out in either order) -/
theorem tie_order_immaterial (a b : Sec) (hab : a.address = b.address) (ha : 0 < a.length) (hb : 0 < b.length)
    (rest : List Sec) : overlapSorted (a :: b :: rest) = true ∧ overlapSorted (b :: a :: rest) = true := by
  simp only [overlapSorted, Bool.or_eq_true, decide_eq_true_eq]
  constructor <;> left <;> omega

end GceTcb.Proofs.SnpSections
