import GceTcb.Proofs.SnpChain
import GceTcb.Proofs.SnpTotal
/-
C04 — sev.LaunchDigest computes the launch digest of Spec/SnpLaunch.lean exactly on the images it
accepts, and accepts exactly the images characterised by `Accepts`.  Core only.
-/
namespace GceTcb.Proofs.SnpDigest
open GceTcb GceTcb.Codec GceTcb.GuidTable GceTcb.SevMeta GceTcb.SevLd
open GceTcb.Codecs (ResetBlock zeros)
open GceTcb.Proofs.SnpSections (Sec SectionsValid validateSections_ok_iff validateSections_no_panic)
open GceTcb.Proofs.SnpChain
open GceTcb.Proofs.SnpVmsa (bspVmsa apVmsa putVmsa_bsp putVmsa_ap)
open GceTcb.Spec.SnpLaunch (Page launchUpdate vmsaPage)

/-- the regenerated tables the model is run with are the specification's -/
structure CfgIsSpec (c : Cfg) : Prop where
  layout : c.layout = Spec.SnpLaunch.vmsaLayout
  size : c.sizeofVmsa = Spec.SnpLaunch.sizeofVmsa
  template : c.template = Spec.SnpLaunch.gceResetState
  widths : c.widths = Spec.SnpLaunch.productWidths

set_option maxRecDepth 100000 in
theorem symVmsa_length : Spec.SnpLaunch.symVmsa.length = 4096 := by decide +kernel

theorem vmsaBytes_length (f : String → Nat) : (Spec.SnpLaunch.vmsaBytes f).length = 4096 :=
  (List.length_map _).trans symVmsa_length

theorem measureVmsa_cons (H : Bytes → Bytes) (hH : ∀ x, (H x).length = 48) (c : Cfg) (high : Nat)
    (h4 : high % 4096 = 0) (hlt : high < 2 ^ 64) (v : Vmsa) (f : String → Nat)
    (hv : putVmsa c.layout c.sizeofVmsa v zeroPage = .ok (Spec.SnpLaunch.vmsaBytes f))
    (rest : List Vmsa) (d : Bytes) (hd : d.length = 48) :
    measureVmsa H c high (v :: rest) d = measureVmsa H c high rest (launchUpdate H d (vmsaPage high f)) := by
  rw [measureVmsa]
  unfold measureOneVmsa
  rw [hv]
  simp only
  have hl := vmsaBytes_length f
  have hu : update H high d high (Spec.SnpLaunch.vmsaBytes f) pageTypeVmsa
      = .ok (launchUpdate H d (vmsaPage high f)) := by
    unfold update
    have hc : checkAlign high high ((Spec.SnpLaunch.vmsaBytes f).length % 2 ^ 32) = none := by
      rw [hl]; unfold checkAlign
      rw [if_neg (by omega), if_neg (by decide), if_neg (by omega)]
    rw [hc]
    simp only
    rw [hl, updatePages_eq H hH pageTypeVmsa high (by decide) _ 1 0 d hd (by omega)]
    have : dataPages pageTypeVmsa high (Spec.SnpLaunch.vmsaBytes f) 0 1 = [vmsaPage high f] := by
      simp only [dataPages, List.range_succ_eq_map, List.range_zero, List.map_nil, List.map_cons, Nat.mul_zero,
        Nat.add_zero, List.drop_zero, vmsaPage]
      rw [Nat.mod_eq_of_lt hlt, List.take_of_length_le (by omega)]
      rfl
    rw [this]; rfl
  rw [hu]

theorem measureVmsa_replicate (H : Bytes → Bytes) (hH : ∀ x, (H x).length = 48) (c : Cfg) (high : Nat)
    (h4 : high % 4096 = 0) (hlt : high < 2 ^ 64) (v : Vmsa) (f : String → Nat)
    (hv : putVmsa c.layout c.sizeofVmsa v zeroPage = .ok (Spec.SnpLaunch.vmsaBytes f))
    (n : Nat) (d : Bytes) (hd : d.length = 48) :
    measureVmsa H c high (List.replicate n v) d
      = .ok ((List.replicate n (vmsaPage high f)).foldl (launchUpdate H) d) := by
  induction n generalizing d with
  | zero => rfl
  | succ n ih =>
    rw [List.replicate_succ, measureVmsa_cons H hH c high h4 hlt v f hv _ d hd,
      ih _ (launchUpdate_length H hH _ _), List.replicate_succ, List.foldl_cons]

theorem prepareVmsas_eq (T : List (String × Nat)) (hT : T = Spec.SnpLaunch.gceResetState) (vcpus : Int)
    (hv : 1 ≤ vcpus) (rb : ResetBlock) :
    prepareVmsas T vcpus (some rb) = .ok (bspVmsa :: List.replicate (vcpus.toNat - 1) (apVmsa rb)) := by
  subst hT
  unfold prepareVmsas
  by_cases h1 : vcpus = 1
  · subst h1; simp [bspVmsa]
  · simp only [h1, if_false]
    have : (vcpus - 1).toNat = vcpus.toNat - 1 := by omega
    rw [this]
    rfl

/-- What sev.LaunchDigest requires of the launch options and the image (`rb`, `secs`: what
    ExtractFromFirmware parsed from it). -/
structure Accepts (o : Opts) (fw : Bytes) (rb : ResetBlock) (secs : List Sec) : Prop where
  vcpus : 1 ≤ o.vcpus
  parsed : extractFromFirmware true true fw = .ok (some rb, some secs)
  romAligned : fw.length % 4096 = 0
  romFits : fw.length ≤ 2 ^ 32
  valid : SectionsValid secs
  measurable : ∀ s ∈ secs, KindKnown s ∧ s.address % 4096 = 0

/-- the measurement of LaunchDigest (no product check: `launchDigestOld`) for an address width in range -/
theorem launchDigestOld_iff (H : Bytes → Bytes) (hH : ∀ x, (H x).length = 48) (c : Cfg) (hc : CfgIsSpec c)
    (o : Opts) (hw : WidthOK (c.width o.product)) (fw : Bytes) (hfw : fw.length < 2 ^ 63) (d : Bytes) :
    launchDigestOld H c o fw = .ok d ↔
      ∃ rb secs, Accepts o fw rb secs ∧
        d = Spec.SnpLaunch.snpSpec H fw (secs.map toSpec) rb.addr o.vcpus.toNat (c.width o.product) := by
  unfold launchDigestOld launchDigestBody
  by_cases hv : o.vcpus < 1
  · rw [if_pos hv]
    constructor
    · intro h; cases h
    · rintro ⟨rb, secs, ha, _⟩; have := ha.vcpus; omega
  · rw [if_neg hv]
    rcases SnpTotal.extractFromFirmware_tt fw with ⟨e, he⟩ | ⟨rb, secs, hp, _, hr⟩
    · rw [he]
      constructor
      · intro h; cases h
      · rintro ⟨rb, secs, ha, _⟩; have := ha.parsed; rw [he] at this; cases this
    · rw [hp]
      simp only
      have hrange : ∀ s ∈ secs, SecInRange s := fun s hs => ⟨(hr s hs).1, (hr s hs).2.1⟩
      -- any accepted parse is this one
      have huniq : ∀ rb' secs', Accepts o fw rb' secs' → rb' = rb ∧ secs' = secs := by
        intro rb' secs' ha
        have := ha.parsed; rw [hp] at this
        injection this with this
        injection this with h1 h2
        injection h1 with h1; injection h2 with h2
        exact ⟨h1.symm, h2.symm⟩
      generalize c.width o.product = w at *
      have hhigh := productHigh_eq w hw
      obtain ⟨p1, p2, p3⟩ := pow_facts w hw
      unfold measureUefi
      by_cases hrom : fw.length % 4096 = 0 ∧ fw.length ≤ 2 ^ 32
      · rw [update_rom H hH w hw fw hrom.1 hrom.2]
        simp only [measureZeroContentUefiPages, Option.getD_some]
        have hd0 : ((Spec.SnpLaunch.romPages fw).foldl (launchUpdate H) (Spec.SnpLaunch.zeros 48)).length = 48 :=
          foldl_launchUpdate_length H hH _ _ List.length_replicate
        cases hvs : validateSections secs with
        | panic p => exact absurd hvs (validateSections_no_panic secs p)
        | err e =>
          simp only
          constructor
          · intro h; cases h
          · rintro ⟨rb', secs', ha, _⟩
            obtain ⟨_, rfl⟩ := huniq rb' secs' ha
            have := (validateSections_ok_iff secs').mpr ha.valid
            rw [hvs] at this; cases this
        | ok u =>
          have hvalid := (validateSections_ok_iff secs).mp (by rw [hvs])
          simp only
          cases hms : measureSections H (productHigh w) secs
              ((Spec.SnpLaunch.romPages fw).foldl (launchUpdate H) (Spec.SnpLaunch.zeros 48)) with
          | panic p => exact absurd hms (measureSections_no_panic H _ secs _ p)
          | err e =>
            simp only
            constructor
            · intro h; cases h
            · rintro ⟨rb', secs', ha, _⟩
              obtain ⟨_, rfl⟩ := huniq rb' secs' ha
              have hm : ∀ s ∈ secs', SecMeasurable s := fun s hs =>
                ⟨(ha.measurable s hs).1, (ha.measurable s hs).2, (ha.valid.lengths s hs).1⟩
              have := (measureSections_eq H hH w hw secs' hrange _ hd0 _).mpr ⟨hm, rfl⟩
              rw [hms] at this; cases this
          | ok d1 =>
            obtain ⟨hm, hd1⟩ := (measureSections_eq H hH w hw secs hrange _ hd0 d1).mp hms
            simp only
            have hvc : 1 ≤ o.vcpus := by omega
            rw [prepareVmsas_eq c.template hc.template o.vcpus hvc rb]
            simp only
            have hd1l : d1.length = 48 := by rw [hd1]; exact foldl_launchUpdate_length H hH _ _ hd0
            have h4 : productHigh w % 4096 = 0 := by rw [hhigh]; omega
            have hlt : productHigh w < 2 ^ 64 := by rw [hhigh]; omega
            have hb : putVmsa c.layout c.sizeofVmsa bspVmsa zeroPage = .ok (Spec.SnpLaunch.vmsaBytes Spec.SnpLaunch.bspState) := by
              rw [hc.layout, hc.size, zeroPage_eq]; exact putVmsa_bsp
            have hap : putVmsa c.layout c.sizeofVmsa (apVmsa rb) zeroPage = .ok (Spec.SnpLaunch.vmsaBytes (Spec.SnpLaunch.apState rb.addr)) := by
              rw [hc.layout, hc.size, zeroPage_eq]; exact putVmsa_ap rb
            rw [measureVmsa_cons H hH c _ h4 hlt bspVmsa _ hb _ d1 hd1l,
              measureVmsa_replicate H hH c _ h4 hlt (apVmsa rb) _ hap _ _ (launchUpdate_length H hH _ _)]
            have hspec : Spec.SnpLaunch.snpSpec H fw (secs.map toSpec) rb.addr o.vcpus.toNat w
                = (List.replicate (o.vcpus.toNat - 1) (vmsaPage (productHigh w) (Spec.SnpLaunch.apState rb.addr))).foldl
                    (launchUpdate H) (launchUpdate H d1 (vmsaPage (productHigh w) Spec.SnpLaunch.bspState)) := by
              unfold Spec.SnpLaunch.snpSpec Spec.SnpLaunch.vmsaPages
              rw [List.foldl_append, List.foldl_append, ← hd1, specProductHigh_eq w hw, ← hhigh]
              rfl
            constructor
            · intro h
              injection h with h
              refine ⟨rb, secs, ⟨hvc, hp, hrom.1, hrom.2, hvalid, fun s hs => ⟨(hm s hs).1, (hm s hs).2.1⟩⟩, ?_⟩
              rw [hspec, ← h]
            · rintro ⟨rb', secs', ha, hd⟩
              obtain ⟨rfl, rfl⟩ := huniq rb' secs' ha
              rw [hd, hspec]
      · have : ∃ e, update H (productHigh w) zeros48 (romBase fw.length) fw pageTypeNormal = .err e := by
          unfold update
          cases hca : checkAlign (productHigh w) (romBase fw.length) (fw.length % 2 ^ 32) with
          | none => exact absurd ((checkAlign_rom w hw fw.length hfw).mp hca) hrom
          | some e => exact ⟨e, rfl⟩
        obtain ⟨e, he⟩ := this
        rw [he]
        simp only
        constructor
        · intro h; cases h
        · rintro ⟨rb', secs', ha, _⟩
          exact absurd ⟨ha.romAligned, ha.romFits⟩ hrom

/-! ### the product check (repair: LaunchDigest refuses a product without a known address width) -/

/-- for a product with a `bitWidth` entry LaunchDigest is the measurement -/
theorem launchDigest_supported (H : Bytes → Bytes) (c : Cfg) (o : Opts) (fw : Bytes) (h : c.supported o.product = true) :
    launchDigest H c o fw = launchDigestOld H c o fw := by
  unfold launchDigest launchDigestOld
  simp [h]

/-- any other product is refused, whatever the image -/
theorem launchDigest_unsupported (H : Bytes → Bytes) (c : Cfg) (o : Opts) (fw : Bytes) (hv : 1 ≤ o.vcpus)
    (h : c.supported o.product = false) : launchDigest H c o fw = .err "product" := by
  unfold launchDigest
  rw [if_neg (by omega)]
  simp [h]

/-- a width in range is the width of a product with an entry (a missing key reads as 0) -/
theorem widthOK_supported (c : Cfg) (p : Nat) (hw : WidthOK (c.width p)) : c.supported p = true := by
  unfold Cfg.supported
  cases hf : c.widths.find? (fun q => q.1 == p) with
  | some q => rfl
  | none =>
    have h0 : c.width p = 0 := by unfold Cfg.width; rw [hf]; rfl
    have := hw.lo
    omega

/-- with the specification's width table: the products with an entry are Milan (1) and Genoa (2), and their
    widths are in range -/
theorem supported_iff (c : Cfg) (hc : CfgIsSpec c) (p : Nat) : c.supported p = true ↔ p = 1 ∨ p = 2 := by
  unfold Cfg.supported
  rw [hc.widths]
  unfold Spec.SnpLaunch.productWidths
  by_cases h1 : p = 1
  · subst h1; simp [List.find?]
  · by_cases h2 : p = 2
    · subst h2; simp [List.find?]
    · have e1 : ((1 : Nat) == p) = false := by simp; omega
      have e2 : ((2 : Nat) == p) = false := by simp; omega
      simp [List.find?, e1, e2, h1, h2]

theorem width_of_supported (c : Cfg) (hc : CfgIsSpec c) (p : Nat) (h : p = 1 ∨ p = 2) : WidthOK (c.width p) := by
  unfold Cfg.width
  rw [hc.widths]
  rcases h with rfl | rfl <;> exact ⟨by decide, by decide⟩

/-- sev.LaunchDigest for a product whose address width is in range (hence has an entry) -/
theorem launchDigest_iff (H : Bytes → Bytes) (hH : ∀ x, (H x).length = 48) (c : Cfg) (hc : CfgIsSpec c)
    (o : Opts) (hw : WidthOK (c.width o.product)) (fw : Bytes) (hfw : fw.length < 2 ^ 63) (d : Bytes) :
    launchDigest H c o fw = .ok d ↔
      ∃ rb secs, Accepts o fw rb secs ∧
        d = Spec.SnpLaunch.snpSpec H fw (secs.map toSpec) rb.addr o.vcpus.toNat (c.width o.product) := by
  rw [launchDigest_supported H c o fw (widthOK_supported c _ hw)]
  exact launchDigestOld_iff H hH c hc o hw fw hfw d

/-- **sev.LaunchDigest, total over product values**: a digest is returned exactly when the product is Milan or
    Genoa, the image is accepted, and the digest is the specification's chain. -/
theorem launchDigest_total (H : Bytes → Bytes) (hH : ∀ x, (H x).length = 48) (c : Cfg) (hc : CfgIsSpec c)
    (o : Opts) (fw : Bytes) (hfw : fw.length < 2 ^ 63) (d : Bytes) :
    launchDigest H c o fw = .ok d ↔
      (o.product = 1 ∨ o.product = 2) ∧ ∃ rb secs, Accepts o fw rb secs ∧
        d = Spec.SnpLaunch.snpSpec H fw (secs.map toSpec) rb.addr o.vcpus.toNat (c.width o.product) := by
  by_cases hp : o.product = 1 ∨ o.product = 2
  · rw [launchDigest_iff H hH c hc o (width_of_supported c hc _ hp) fw hfw d]
    exact ⟨fun h => ⟨hp, h⟩, fun h => h.2⟩
  · have hs : c.supported o.product = false := by
      cases h : c.supported o.product with
      | false => rfl
      | true => exact absurd ((supported_iff c hc _).mp h) hp
    constructor
    · intro h
      by_cases hv : 1 ≤ o.vcpus
      · rw [launchDigest_unsupported H c o fw hv hs] at h; cases h
      · unfold launchDigest at h; rw [if_pos (by omega)] at h; cases h
    · rintro ⟨h, _⟩; exact absurd h hp

end GceTcb.Proofs.SnpDigest
