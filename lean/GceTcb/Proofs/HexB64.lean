import GceTcb.Model.HexB64
/- Round trips and rejection lemmas for the text decoders of the quote path (C16 wire). -/
namespace GceTcb.HexB64
open GceTcb

theorem hexNib_charL : ∀ k, k < 16 → hexNib (hexCharL k) = some k := by decide
theorem hexNib_charU : ∀ k, k < 16 → hexNib (hexCharU k) = some k := by decide
theorem b64Val_char : ∀ k, k < 64 → b64Val (b64Char k) = some k := by decide
theorem b64Char_notNL : ∀ k, k < 64 → ((b64Char k != 13 && b64Char k != 10) = true) := by decide

theorem byte_split (b : UInt8) : UInt8.ofNat (b.toNat / 16 * 16 + b.toNat % 16) = b := by
  have : b.toNat / 16 * 16 + b.toNat % 16 = b.toNat := by omega
  rw [this]; exact UInt8.ofNat_toNat

/-- hex.DecodeString(hex.EncodeToString(b)) = b, for every byte string -/
theorem hexDecode_hexEncode (b : Bytes) : hexDecode (hexEncode b) = some b := by
  induction b with
  | nil => rfl
  | cons x rest ih =>
    have hx := x.toNat_lt
    simp only [hexEncode, hexDecode, hexNib_charL _ (show x.toNat / 16 < 16 by omega),
      hexNib_charL _ (show x.toNat % 16 < 16 by omega), ih, byte_split]

theorem hexDecode_hexEncodeUpper (b : Bytes) : hexDecode (hexEncodeUpper b) = some b := by
  induction b with
  | nil => rfl
  | cons x rest ih =>
    have hx := x.toNat_lt
    simp only [hexEncodeUpper, hexDecode, hexNib_charU _ (show x.toNat / 16 < 16 by omega),
      hexNib_charU _ (show x.toNat % 16 < 16 by omega), ih, byte_split]

theorem hexEncode_length (b : Bytes) : (hexEncode b).length = 2 * b.length := by
  induction b with
  | nil => rfl
  | cons x rest ih => simp only [hexEncode, List.length_cons, ih]; omega

/-- a byte that is no hex digit anywhere in the text makes hex.DecodeString fail -/
theorem hexDecode_none_of_mem : ∀ (t : Bytes) (c : UInt8), c ∈ t → hexNib c = none → hexDecode t = none
  | [], _, h, _ => by cases h
  | [a], c, h, hc => by simp [hexDecode]
  | a :: b :: rest, c, h, hc => by
    simp only [List.mem_cons] at h
    rcases h with h | h | h
    · subst h; simp only [hexDecode, hc]
    · subst h; cases ha : hexNib a <;> simp only [hexDecode, ha, hc]
    · have ih := hexDecode_none_of_mem rest c h hc
      cases ha : hexNib a <;> cases hb : hexNib b <;> simp only [hexDecode, ha, hb, ih]

theorem hexDecode_odd : ∀ (t : Bytes), t.length % 2 = 1 → hexDecode t = none
  | [], h => by simp at h
  | [a], _ => rfl
  | a :: b :: rest, h => by
    have ih := hexDecode_odd rest (by simp only [List.length_cons] at h; omega)
    cases ha : hexNib a <;> cases hb : hexNib b <;> simp only [hexDecode, ha, hb, ih]

theorem q3 (a b d : UInt8) :
    quantum (a.toNat / 4) (a.toNat % 4 * 16 + b.toNat / 16) (b.toNat % 16 * 4 + d.toNat / 64) (d.toNat % 64)
      = [a, b, d] := by
  have ha := a.toNat_lt; have hb := b.toNat_lt; have hd := d.toNat_lt
  have e0 : a.toNat / 4 * 4 + (a.toNat % 4 * 16 + b.toNat / 16) / 16 = a.toNat := by omega
  have e1 : (a.toNat % 4 * 16 + b.toNat / 16) % 16 * 16 + (b.toNat % 16 * 4 + d.toNat / 64) / 4 = b.toNat := by omega
  have e2 : (b.toNat % 16 * 4 + d.toNat / 64) % 4 * 64 + d.toNat % 64 = d.toNat := by omega
  simp only [quantum, e0, e1, e2, UInt8.ofNat_toNat]

theorem q2 (a b : UInt8) :
    (quantum (a.toNat / 4) (a.toNat % 4 * 16 + b.toNat / 16) (b.toNat % 16 * 4) 0).take 2 = [a, b] := by
  have ha := a.toNat_lt; have hb := b.toNat_lt
  have e0 : a.toNat / 4 * 4 + (a.toNat % 4 * 16 + b.toNat / 16) / 16 = a.toNat := by omega
  have e1 : (a.toNat % 4 * 16 + b.toNat / 16) % 16 * 16 + (b.toNat % 16 * 4) / 4 = b.toNat := by omega
  simp only [quantum, e0, e1, UInt8.ofNat_toNat, List.take]

theorem q1 (a : UInt8) : (quantum (a.toNat / 4) (a.toNat % 4 * 16) 0 0).take 1 = [a] := by
  have ha := a.toNat_lt
  have e0 : a.toNat / 4 * 4 + (a.toNat % 4 * 16) / 16 = a.toNat := by omega
  simp only [quantum, e0, UInt8.ofNat_toNat, List.take]

theorem b64Val_pad : b64Val padChar = none := by decide

/-- Encoding.Decode(Encoding.Encode(b)) = b -/
theorem b64DecodeQ_encode : ∀ (b : Bytes), b64DecodeQ (b64Encode b) = some b
  | [] => rfl
  | [a] => by
    have ha := a.toNat_lt
    simp only [b64Encode, b64DecodeQ, b64Val_char _ (show a.toNat / 4 < 64 by omega),
      b64Val_char _ (show a.toNat % 4 * 16 < 64 by omega), b64Val_pad, q1]
    simp
  | [a, b] => by
    have ha := a.toNat_lt; have hb := b.toNat_lt
    simp only [b64Encode, b64DecodeQ, b64Val_char _ (show a.toNat / 4 < 64 by omega),
      b64Val_char _ (show a.toNat % 4 * 16 + b.toNat / 16 < 64 by omega),
      b64Val_char _ (show b.toNat % 16 * 4 < 64 by omega), b64Val_pad, q2]
    simp
  | a :: b :: d :: rest => by
    have ha := a.toNat_lt; have hb := b.toNat_lt; have hd := d.toNat_lt
    have ih := b64DecodeQ_encode rest
    simp only [b64Encode, b64DecodeQ, b64Val_char _ (show a.toNat / 4 < 64 by omega),
      b64Val_char _ (show a.toNat % 4 * 16 + b.toNat / 16 < 64 by omega),
      b64Val_char _ (show b.toNat % 16 * 4 + d.toNat / 64 < 64 by omega),
      b64Val_char _ (show d.toNat % 64 < 64 by omega), ih, q3]
    rfl

theorem dropNL_encode : ∀ (b : Bytes), dropNL (b64Encode b) = b64Encode b
  | [] => rfl
  | [a] => by
    have ha := a.toNat_lt
    simp only [b64Encode, dropNL, List.filter, b64Char_notNL _ (show a.toNat / 4 < 64 by omega),
      b64Char_notNL _ (show a.toNat % 4 * 16 < 64 by omega)]
    rfl
  | [a, b] => by
    have ha := a.toNat_lt; have hb := b.toNat_lt
    simp only [b64Encode, dropNL, List.filter, b64Char_notNL _ (show a.toNat / 4 < 64 by omega),
      b64Char_notNL _ (show a.toNat % 4 * 16 + b.toNat / 16 < 64 by omega),
      b64Char_notNL _ (show b.toNat % 16 * 4 < 64 by omega)]
    rfl
  | a :: b :: d :: rest => by
    have ha := a.toNat_lt; have hb := b.toNat_lt; have hd := d.toNat_lt
    have ih := dropNL_encode rest
    simp only [dropNL] at ih
    simp only [b64Encode, dropNL, List.filter, b64Char_notNL _ (show a.toNat / 4 < 64 by omega),
      b64Char_notNL _ (show a.toNat % 4 * 16 + b.toNat / 16 < 64 by omega),
      b64Char_notNL _ (show b.toNat % 16 * 4 + d.toNat / 64 < 64 by omega),
      b64Char_notNL _ (show d.toNat % 64 < 64 by omega), ih]

/-- the streaming decoder on any text that is the encoding with '\r' / '\n' inserted anywhere -/
theorem b64Decode_of_dropNL (t b : Bytes) (h : dropNL t = b64Encode b) : b64Decode t = some b := by
  simp only [b64Decode, h, b64DecodeQ_encode]

theorem b64Decode_b64Encode (b : Bytes) : b64Decode (b64Encode b) = some b :=
  b64Decode_of_dropNL _ _ (dropNL_encode b)

/-- a byte outside the alphabet, '=', '\r', '\n' anywhere makes the decoder fail -/
def b64Legal (c : UInt8) : Bool := (b64Val c).isSome || c == padChar || c == 13 || c == 10

theorem b64DecodeQ_none_of_mem : ∀ (t : Bytes) (c : UInt8), c ∈ t → (b64Val c = none) → c ≠ padChar →
    b64DecodeQ t = none
  | [], _, h, _, _ => by cases h
  | [_], _, _, _, _ => rfl
  | [_, _], _, _, _, _ => rfl
  | [_, _, _], _, _, _, _ => rfl
  | c0 :: c1 :: c2 :: c3 :: rest, c, h, hv, hp => by
    have hpb : (c == padChar) = false := by simpa using hp
    simp only [List.mem_cons] at h
    rcases h with h | h | h | h | h
    · subst h; simp only [b64DecodeQ, hv]
    · subst h; cases h0 : b64Val c0 <;> simp only [b64DecodeQ, h0, hv]
    · subst h
      cases h0 : b64Val c0 <;> cases h1 : b64Val c1 <;> simp only [b64DecodeQ, h0, h1, hv, hpb, Bool.false_and]
      simp
    · subst h
      cases h0 : b64Val c0 <;> cases h1 : b64Val c1 <;> cases h2 : b64Val c2 <;>
        simp only [b64DecodeQ, h0, h1, h2, hv, hpb, Bool.false_and, Bool.and_false]
      all_goals simp
    · have ih := b64DecodeQ_none_of_mem rest c h hv hp
      have hne : rest.isEmpty = false := by cases rest with | nil => cases h | cons _ _ => rfl
      cases h0 : b64Val c0 <;> cases h1 : b64Val c1 <;> cases h2 : b64Val c2 <;> cases h3 : b64Val c3 <;>
        simp only [b64DecodeQ, h0, h1, h2, h3, ih, hne, Bool.and_false]
      all_goals simp

theorem b64Decode_none_of_mem (t : Bytes) (c : UInt8) (h : c ∈ t) (hl : b64Legal c = false) :
    b64Decode t = none := by
  simp only [b64Legal, Bool.or_eq_false_iff] at hl
  obtain ⟨⟨⟨h1, h2⟩, h3⟩, h4⟩ := hl
  apply b64DecodeQ_none_of_mem (dropNL t) c
  · simp only [dropNL, List.mem_filter, h, true_and, h3, h4, bne, Bool.not_false, Bool.and_self]
  · cases hv : b64Val c with
    | none => rfl
    | some _ => simp [hv] at h1
  · simpa using h2

/-- strict acceptance implies the loose reading agrees -/
theorem loose_of_strict : ∀ (t d : Bytes), b64DecodeQ t = some d → b64DecodeLooseQ t = some d
  | [], d, h => by simpa [b64DecodeQ, b64DecodeLooseQ] using h
  | [_], _, h => by simp [b64DecodeQ] at h
  | [_, _], _, h => by simp [b64DecodeQ] at h
  | [_, _, _], _, h => by simp [b64DecodeQ] at h
  | c0 :: c1 :: c2 :: c3 :: rest, d, h => by
    cases h0 : b64Val c0 <;> cases h1 : b64Val c1 <;> simp only [b64DecodeQ, h0, h1] at h <;> try cases h
    cases h2 : b64Val c2 <;> cases h3 : b64Val c3 <;> simp only [h2, h3] at h
    · split at h
      · rename_i hc; simp only [Bool.and_eq_true, List.isEmpty_iff] at hc
        obtain ⟨⟨hc2, hc3⟩, hr⟩ := hc; subst hr
        simp only [b64DecodeLooseQ, h0, h1, h2, h3, hc2, hc3, Bool.and_self, if_true, List.append_nil]; exact h
      · cases h
    · split at h
      · rename_i hc; simp only [Bool.and_eq_true, List.isEmpty_iff] at hc
        obtain ⟨⟨hc2, hc3⟩, hr⟩ := hc; subst hr
        simp only [b64DecodeLooseQ, h0, h1, h2, h3, hc2, hc3, Bool.and_self, if_true, List.append_nil]; exact h
      · cases h
    · split at h
      · rename_i hc; simp only [Bool.and_eq_true, List.isEmpty_iff] at hc
        obtain ⟨hc3, hr⟩ := hc; subst hr
        simp only [b64DecodeLooseQ, h0, h1, h2, h3, hc3, if_true, List.append_nil]; exact h
      · cases h
    · cases hr : b64DecodeQ rest with
      | none => simp only [hr] at h; cases h
      | some t =>
        simp only [hr] at h
        simp only [b64DecodeLooseQ, h0, h1, h2, h3, loose_of_strict rest t hr]; exact h

end GceTcb.HexB64
