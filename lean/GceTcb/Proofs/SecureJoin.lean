import GceTcb.Model.SecureJoin
/-
Lemmas for C16 (confinement clause): cutting paths at '/', composition of the kernel's walk,
the walk below a root that meets no symbolic link, the invariant of SecureJoinVFS's loop, Clean/Join
of a root with cleaned components. Core-only.
-/
namespace GceTcb.SecureJoin

/-! ## Cutting at '/' -/

theorem splitSlash_ne_nil (l : PathStr) : splitSlash l ≠ [] := by
  induction l with
  | nil => simp [splitSlash]
  | cons c cs ih =>
    unfold splitSlash
    by_cases hc : c = '/'
    · simp [hc]
    · rw [if_neg hc]
      cases hs : splitSlash cs with
      | nil => simp
      | cons p ps => simp

theorem splitSlash_append_slash (a b : PathStr) :
    splitSlash (a ++ '/' :: b) = splitSlash a ++ splitSlash b := by
  induction a with
  | nil => simp [splitSlash]
  | cons c cs ih =>
    by_cases hc : c = '/'
    · simp only [List.cons_append, splitSlash, hc, if_true, ih, List.cons_append]
    · simp only [List.cons_append, splitSlash, if_neg hc, ih]
      cases hs : splitSlash cs with
      | nil => exact absurd hs (splitSlash_ne_nil cs)
      | cons p ps => simp

theorem splitSlash_noslash (c : Name) (h : '/' ∉ c) : splitSlash c = [c] := by
  induction c with
  | nil => rfl
  | cons x xs ih =>
    have hx : x ≠ '/' := fun e => h (by simp [e])
    have hxs : '/' ∉ xs := fun e => h (List.mem_cons_of_mem _ e)
    simp only [splitSlash, if_neg hx, ih hxs]

theorem splitSlash_no_slash (l : PathStr) : ∀ p ∈ splitSlash l, '/' ∉ p := by
  induction l with
  | nil => intro p hp; simp [splitSlash] at hp; rw [hp]; simp
  | cons c cs ih =>
    intro p hp
    unfold splitSlash at hp
    by_cases hc : c = '/'
    · rw [if_pos hc] at hp
      rcases List.mem_cons.mp hp with h | h
      · rw [h]; simp
      · exact ih p h
    · rw [if_neg hc] at hp
      cases hs : splitSlash cs with
      | nil => rw [hs] at hp; simp at hp; rw [hp]; simp; exact fun h => hc h.symm
      | cons q qs =>
        rw [hs] at hp ih
        rcases List.mem_cons.mp hp with h | h
        · rw [h]
          intro hm
          rcases List.mem_cons.mp hm with h' | h'
          · exact hc h'.symm
          · exact ih q List.mem_cons_self h'
        · exact ih p (List.mem_cons_of_mem _ h)

/-- Components '/'-free: the text `a` followed by "/c" for each of them cuts into the pieces of `a`
    followed by the components. -/
theorem splitSlash_append_flatMap (a : PathStr) (comps : List Name) (h : ∀ c ∈ comps, '/' ∉ c) :
    splitSlash (a ++ comps.flatMap ('/' :: ·)) = splitSlash a ++ comps := by
  induction comps generalizing a with
  | nil => simp
  | cons c cs ih =>
    have hc : '/' ∉ c := h c List.mem_cons_self
    have hcs : ∀ x ∈ cs, '/' ∉ x := fun x hx => h x (List.mem_cons_of_mem _ hx)
    simp only [List.flatMap_cons, List.cons_append]
    rw [splitSlash_append_slash, ih c hcs, splitSlash_noslash c hc]
    simp

/-! ## Normal components -/

/-- A component that Clean keeps: not empty, not ".", not "..", '/'-free. -/
def Normal (c : Name) : Prop := c ≠ [] ∧ c ≠ ['.'] ∧ c ≠ dotdot ∧ '/' ∉ c

def AllNormal (l : List Name) : Prop := ∀ c ∈ l, Normal c

theorem AllNormal.nil : AllNormal [] := by intro c hc; simp at hc

theorem AllNormal.dropLast {l : List Name} (h : AllNormal l) : AllNormal l.dropLast :=
  fun c hc => h c (List.dropLast_subset _ hc)

theorem AllNormal.snoc {l : List Name} {c : Name} (h : AllNormal l) (hc : Normal c) : AllNormal (l ++ [c]) := by
  intro x hx
  rcases List.mem_append.mp hx with h' | h'
  · exact h x h'
  · simp only [List.mem_singleton] at h'; rw [h']; exact hc

theorem AllNormal.noslash {l : List Name} (h : AllNormal l) : ∀ c ∈ l, '/' ∉ c := fun c hc => (h c hc).2.2.2

/-! ## The kernel's walk -/

/-- What a symbolic link hands over to at level `b`. -/
def nextOf (fs : FS) (f : Bool) : Nat → List Name → List Name → Res
  | 0 => fun _ _ => .err .loop
  | b + 1 => walk fs f b

theorem walk_eq (fs : FS) (f : Bool) (b : Nat) : walk fs f b = walkList fs f b (nextOf fs f b) := by
  cases b <;> rfl

theorem walk_nil (fs : FS) (f : Bool) (b : Nat) (cur : List Name) : walk fs f b cur [] = .ok cur .dir b := by
  rw [walk_eq]; rfl

theorem walk_cons (fs : FS) (f : Bool) (b : Nat) (cur : List Name) (c : Name) (rest : List Name) :
    walk fs f b cur (c :: rest) =
      if c = [] ∨ c = ['.'] then walk fs f b cur rest
      else if c = dotdot then walk fs f b cur.dropLast rest
      else
        match fs.look (cur ++ [c]) with
        | .absent => .err .noent
        | .fault => .err .fault
        | .ent .dir => walk fs f b (cur ++ [c]) rest
        | .ent (.file i) => if rest = [] then .ok (cur ++ [c]) (.file i) b else .err .notdir
        | .ent (.link t) =>
          if rest = [] ∧ f = false then .ok (cur ++ [c]) (.link t) b
          else nextOf fs f b (if isAbs t then [] else cur) (splitSlash t ++ rest) := by
  rw [walk_eq]; rfl

theorem walk_noop (fs : FS) (f : Bool) (b : Nat) (cur : List Name) (c : Name) (rest : List Name)
    (h : c = [] ∨ c = ['.']) : walk fs f b cur (c :: rest) = walk fs f b cur rest := by
  rw [walk_cons, if_pos h]

/-- How a resolution continues with the components `X` after a prefix has been resolved. -/
def contWalk (fs : FS) (f : Bool) (X : List Name) : Res → Res
  | .ok R .dir b' => walk fs f b' R X
  | .ok _ (.file _) _ => .err .notdir
  | .ok _ (.link _) _ => .err .loop
  | .err e => .err e

/-- Composition: resolving `A` followed by at least one more component is resolving `A` as a
    followed prefix and continuing from the directory reached (a file there: ENOTDIR; an error stays). -/
theorem walk_append (fs : FS) (f : Bool) (X : List Name) (hX : X ≠ []) :
    ∀ (b : Nat) (A cur : List Name), walk fs f b cur (A ++ X) = contWalk fs f X (walk fs true b cur A) := by
  intro b
  induction b with
  | zero =>
    intro A
    induction A with
    | nil => intro cur; simp [walk_nil, contWalk]
    | cons c A' ih =>
      intro cur
      have hne : A' ++ X ≠ [] := by simp [hX]
      simp only [List.cons_append, walk_cons]
      by_cases h1 : c = [] ∨ c = ['.']
      · simp only [if_pos h1]; exact ih cur
      · simp only [if_neg h1]
        by_cases h2 : c = dotdot
        · simp only [if_pos h2]; exact ih _
        · simp only [if_neg h2]
          cases fs.look (cur ++ [c]) with
          | absent => simp [contWalk]
          | fault => simp [contWalk]
          | ent e =>
            cases e with
            | dir => exact ih _
            | file i =>
              by_cases h3 : A' = []
              · simp [h3, hX, contWalk]
              · simp [h3, hX, contWalk]
            | link t => simp [hne, nextOf, contWalk]
  | succ b ihb =>
    intro A
    induction A with
    | nil => intro cur; simp [walk_nil, contWalk]
    | cons c A' ih =>
      intro cur
      have hne : A' ++ X ≠ [] := by simp [hX]
      simp only [List.cons_append, walk_cons]
      by_cases h1 : c = [] ∨ c = ['.']
      · simp only [if_pos h1]; exact ih cur
      · simp only [if_neg h1]
        by_cases h2 : c = dotdot
        · simp only [if_pos h2]; exact ih _
        · simp only [if_neg h2]
          cases fs.look (cur ++ [c]) with
          | absent => simp [contWalk]
          | fault => simp [contWalk]
          | ent e =>
            cases e with
            | dir => exact ih _
            | file i =>
              by_cases h3 : A' = []
              · simp [h3, hX, contWalk]
              · simp [h3, hX, contWalk]
            | link t =>
              simp only [hne, false_and, if_false, nextOf, Bool.true_eq_false, and_false]
              rw [← List.append_assoc]
              exact ihb _ _

/-! ## Below a directory, along components that meet no symbolic link -/

/-- Walking the (normal) components `comps` down from the directory at `loc` meets no symbolic link:
    each one is a directory that is entered, or the walk stops there (absent, regular file, fault). -/
def NoLink (fs : FS) : List Name → List Name → Prop
  | _, [] => True
  | loc, c :: rest =>
    match fs.look (loc ++ [c]) with
    | .ent .dir => NoLink fs (loc ++ [c]) rest
    | .ent (.link _) => False
    | _ => True

theorem NoLink.prefix (fs : FS) : ∀ (a b loc : List Name), NoLink fs loc (a ++ b) → NoLink fs loc a := by
  intro a
  induction a with
  | nil => intro b loc _; trivial
  | cons c a' ih =>
    intro b loc h
    simp only [List.cons_append, NoLink] at h ⊢
    cases hl : fs.look (loc ++ [c]) with
    | absent => trivial
    | fault => trivial
    | ent e =>
      rw [hl] at h
      cases e with
      | dir => exact ih b _ h
      | file i => trivial
      | link t => exact h

theorem NoLink.dropLast (fs : FS) (loc cur : List Name) (h : NoLink fs loc cur) : NoLink fs loc cur.dropLast := by
  have : cur = cur.dropLast ++ (cur.drop (cur.length - 1)) := by
    rw [List.dropLast_eq_take]; exact (List.take_append_drop _ _).symm
  rw [this] at h
  exact NoLink.prefix fs _ _ loc h

/-- Below `loc`, normal components that meet no link resolve — if at all — to a location below `loc`,
    without using up any expansion. -/
theorem walk_nolink (fs : FS) (f : Bool) (b : Nat) :
    ∀ (comps loc : List Name), AllNormal comps → NoLink fs loc comps →
      ∀ loc' e b', walk fs f b loc comps = .ok loc' e b' → loc <+: loc' ∧ b' = b := by
  intro comps
  induction comps with
  | nil =>
    intro loc _ _ loc' e b' h
    rw [walk_nil] at h
    simp only [Res.ok.injEq] at h
    exact ⟨by rw [← h.1]; exact List.prefix_refl _, h.2.2.symm⟩
  | cons c rest ih =>
    intro loc hn hl loc' e b' h
    have hc := hn c List.mem_cons_self
    have hrest : AllNormal rest := fun x hx => hn x (List.mem_cons_of_mem _ hx)
    rw [walk_cons, if_neg (by intro h'; rcases h' with h' | h'; exact hc.1 h'; exact hc.2.1 h'), if_neg hc.2.2.1] at h
    simp only [NoLink] at hl
    cases hlk : fs.look (loc ++ [c]) with
    | absent => rw [hlk] at h; simp at h
    | fault => rw [hlk] at h; simp at h
    | ent en =>
      rw [hlk] at h hl
      cases en with
      | dir =>
        obtain ⟨hp, hb⟩ := ih (loc ++ [c]) hrest hl loc' e b' h
        exact ⟨List.IsPrefix.trans (List.prefix_append loc [c]) hp, hb⟩
      | file i =>
        simp only at h
        split at h
        · simp only [Res.ok.injEq] at h
          exact ⟨by rw [← h.1]; exact List.prefix_append loc [c], h.2.2.symm⟩
        · simp at h
      | link t => exact absurd hl (by simp)

/-- The step that extends the current path: after `cur` (no link met), if lstat of `cur/part` is
    ENOENT, ENOTDIR or anything but a symbolic link, then `cur/part` meets no link either. -/
theorem NoLink.snoc (fs : FS) (b : Nat) (part : Name) (hp : Normal part) :
    ∀ (cur loc : List Name), AllNormal cur → NoLink fs loc cur →
      (walk fs false b loc (cur ++ [part]) = .err .noent ∨ walk fs false b loc (cur ++ [part]) = .err .notdir ∨
        (∃ l e b', walk fs false b loc (cur ++ [part]) = .ok l e b' ∧ ∀ t, e ≠ .link t)) →
      NoLink fs loc (cur ++ [part]) := by
  have hpn : ¬ (part = [] ∨ part = ['.']) := by intro h'; rcases h' with h' | h'; exact hp.1 h'; exact hp.2.1 h'
  intro cur
  induction cur with
  | nil =>
    intro loc _ _ h
    simp only [List.nil_append, NoLink]
    rw [List.nil_append, walk_cons, if_neg hpn, if_neg hp.2.2.1] at h
    cases hlk : fs.look (loc ++ [part]) with
    | absent => trivial
    | fault => trivial
    | ent en =>
      cases en with
      | dir => trivial
      | file i => trivial
      | link t =>
        rw [hlk] at h
        simp at h
        obtain ⟨l, e, ⟨_, he⟩, hne⟩ := h
        exact absurd he.symm (hne t)
  | cons c rest ih =>
    intro loc hn hl h
    have hc := hn c List.mem_cons_self
    have hrest : AllNormal rest := fun x hx => hn x (List.mem_cons_of_mem _ hx)
    simp only [List.cons_append, NoLink] at hl ⊢
    rw [List.cons_append, walk_cons, if_neg (by intro h'; rcases h' with h' | h'; exact hc.1 h'; exact hc.2.1 h'), if_neg hc.2.2.1] at h
    cases hlk : fs.look (loc ++ [c]) with
    | absent => trivial
    | fault => trivial
    | ent en =>
      rw [hlk] at h hl
      cases en with
      | dir => exact ih _ hrest hl h
      | file i => trivial
      | link t => exact absurd hl (by simp)

/-! ## The loop of SecureJoinVFS -/

theorem applyPart_normal (cur : List Name) (part : Name) (hc : AllNormal cur) (hp : '/' ∉ part) :
    AllNormal (applyPart cur part) := by
  unfold applyPart
  by_cases h1 : part = [] ∨ part = ['.']
  · rw [if_pos h1]; exact hc
  · rw [if_neg h1]
    by_cases h2 : part = dotdot
    · rw [if_pos h2]; exact hc.dropLast
    · rw [if_neg h2]
      exact hc.snoc ⟨fun e => h1 (Or.inl e), fun e => h1 (Or.inr e), h2, hp⟩

theorem sjStep_go_eq (fs : FS) (klim : Nat) (cwd : List Name) (root : PathStr) (nx cur' : List Name)
    (h : sjStep fs klim cwd root nx = .go cur') : cur' = nx := by
  unfold sjStep at h
  by_cases h0 : nx = []
  · rw [if_pos h0] at h; simp only [Step.go.injEq] at h; rw [h0, h]
  · rw [if_neg h0] at h
    split at h <;> first | (simp only [Step.go.injEq] at h; exact h.symm) | (simp at h)

/-- When the step keeps `nextPath`, lstat said ENOENT, ENOTDIR or "not a symbolic link". -/
theorem sjStep_go_lstat (fs : FS) (klim : Nat) (cwd : List Name) (root : PathStr) (nx cur' : List Name)
    (h0 : nx ≠ []) (h : sjStep fs klim cwd root nx = .go cur') :
    resolve fs klim cwd false (fullPath root nx) = .err .noent ∨
    resolve fs klim cwd false (fullPath root nx) = .err .notdir ∨
    ∃ l e b', resolve fs klim cwd false (fullPath root nx) = .ok l e b' ∧ ∀ t, e ≠ .link t := by
  unfold sjStep at h
  rw [if_neg h0] at h
  split at h
  · next h' => exact Or.inl h'
  · next h' => exact Or.inr (Or.inl h')
  · simp at h
  · simp at h
  · next l e b' hne h' => exact Or.inr (Or.inr ⟨l, e, b', h', fun t ht => hne t ht⟩)

theorem sj_zero (fs : FS) (klim : Nat) (cwd : List Name) (root : PathStr) :
    sj fs klim cwd root 0 = sjList fs klim cwd root (fun _ _ _ => .err .loop) := rfl

theorem sj_succ (fs : FS) (klim : Nat) (cwd : List Name) (root : PathStr) (b : Nat) :
    sj fs klim cwd root (b + 1) = sjList fs klim cwd root (fun cur nx rest =>
      match readlink fs klim cwd (fullPath root nx) with
      | .err e => .err e
      | .ok dest => sj fs klim cwd root b (if isAbs dest then [] else cur) (splitSlash dest ++ rest)) := rfl

/-- Invariants of the loop: a property of `currentPath` that holds of "", is kept by every step that
    keeps `nextPath`, and is therefore kept by the whole join (symlink expansions restart from
    `currentPath` or from ""). -/
theorem sjList_inv (fs : FS) (klim : Nat) (cwd : List Name) (root : PathStr) (I : List Name → Prop)
    (onLink : List Name → List Name → List Name → SJ)
    (hstep : ∀ cur part cur', I cur → '/' ∉ part → sjStep fs klim cwd root (applyPart cur part) = .go cur' → I cur')
    (hlink : ∀ cur nx rest fin, I cur → (∀ p ∈ rest, '/' ∉ p) → onLink cur nx rest = .ok fin → I fin) :
    ∀ (rem cur fin : List Name), I cur → (∀ p ∈ rem, '/' ∉ p) →
      sjList fs klim cwd root onLink cur rem = .ok fin → I fin := by
  intro rem
  induction rem with
  | nil => intro cur fin hI _ h; simp only [sjList, SJ.ok.injEq] at h; rw [← h]; exact hI
  | cons part rest ih =>
    intro cur fin hI hrem h
    have hpart : '/' ∉ part := hrem part List.mem_cons_self
    have hrest : ∀ p ∈ rest, '/' ∉ p := fun p hp => hrem p (List.mem_cons_of_mem _ hp)
    unfold sjList at h
    split at h
    · simp only [SJ.ok.injEq] at h; rw [← h]; exact hI
    · split at h
      · simp at h
      · next cur' hs => exact ih cur' fin (hstep cur part cur' hI hpart hs) hrest h
      · refine hlink cur _ _ fin hI ?_ h
        split
        · intro p hp; simp only [List.mem_singleton] at hp; rw [hp]; simp
        · exact hrest

theorem sj_inv (fs : FS) (klim : Nat) (cwd : List Name) (root : PathStr) (I : List Name → Prop) (h0 : I [])
    (hstep : ∀ cur part cur', I cur → '/' ∉ part → sjStep fs klim cwd root (applyPart cur part) = .go cur' → I cur') :
    ∀ (b : Nat) (rem cur fin : List Name), I cur → (∀ p ∈ rem, '/' ∉ p) →
      sj fs klim cwd root b cur rem = .ok fin → I fin := by
  intro b
  induction b with
  | zero =>
    intro rem cur fin hI hrem h
    rw [sj_zero] at h
    exact sjList_inv fs klim cwd root I _ hstep (by intro _ _ _ _ _ _ h'; simp at h') rem cur fin hI hrem h
  | succ b ih =>
    intro rem cur fin hI hrem h
    rw [sj_succ] at h
    refine sjList_inv fs klim cwd root I _ hstep ?_ rem cur fin hI hrem h
    intro cur nx rest fin hI hrest h'
    split at h'
    · simp at h'
    · next dest _ =>
      refine ih _ _ fin ?_ ?_ h'
      · split
        · exact h0
        · exact hI
      · intro p hp
        rcases List.mem_append.mp hp with hp | hp
        · exact splitSlash_no_slash dest p hp
        · exact hrest p hp

/-- The lexical invariant: `currentPath` consists of normal components. -/
theorem sj_normal (fs : FS) (klim : Nat) (cwd : List Name) (root : PathStr) (b : Nat) (rem fin : List Name)
    (hrem : ∀ p ∈ rem, '/' ∉ p) (h : sj fs klim cwd root b [] rem = .ok fin) : AllNormal fin := by
  refine sj_inv fs klim cwd root AllNormal AllNormal.nil ?_ b rem [] fin AllNormal.nil hrem h
  intro cur part cur' hI hp hs
  rw [sjStep_go_eq fs klim cwd root _ cur' hs]
  exact applyPart_normal cur part hI hp

/-! ## lstat below the root -/

theorem isAbs_append (a b : PathStr) (h : a ≠ []) : isAbs (a ++ b) = isAbs a := by
  cases a with
  | nil => exact absurd rfl h
  | cons x xs => rfl

theorem renderAbs_ne_nil (l : List Name) : renderAbs l ≠ [] := by
  unfold renderAbs
  split
  · simp
  · next h =>
    cases l with
    | nil => exact absurd rfl h
    | cons c cs => simp

theorem splitSlash_renderAbs (nx : List Name) (hn : AllNormal nx) (h0 : nx ≠ []) :
    splitSlash (renderAbs nx) = [] :: nx := by
  unfold renderAbs
  rw [if_neg h0]
  have := splitSlash_append_flatMap [] nx hn.noslash
  simpa [splitSlash] using this

theorem contWalk_noop (fs : FS) (f : Bool) (X : List Name) (r : Res) :
    contWalk fs f ([] :: X) r = contWalk fs f X r := by
  cases r with
  | err e => rfl
  | ok R e b =>
    cases e with
    | dir => simp only [contWalk]; exact walk_noop fs f b R [] X (Or.inl rfl)
    | file i => rfl
    | link t => rfl

/-- SecureJoin's Lstat(root + "/" + nextPath): the root as the kernel resolves it, then nextPath. -/
theorem resolve_fullPath (fs : FS) (klim : Nat) (cwd : List Name) (root : PathStr) (nx : List Name) (f : Bool)
    (hroot : root ≠ []) (hn : AllNormal nx) (h0 : nx ≠ []) :
    resolve fs klim cwd f (fullPath root nx) =
      if fs.reject (fullPath root nx) then .err .fault else contWalk fs f nx (denote fs klim cwd root) := by
  unfold resolve
  have hne : fullPath root nx ≠ [] := by unfold fullPath; simp [hroot]
  rw [if_neg hne]
  by_cases hr : fs.reject (fullPath root nx) = true
  · simp [hr]
  · simp only [hr, if_false, Bool.false_eq_true]
    unfold fullPath denote
    rw [isAbs_append root _ hroot, splitSlash_append_slash, splitSlash_renderAbs nx hn h0,
      walk_append fs f ([] :: nx) (by simp), contWalk_noop]

/-- The invariant that gives confinement: below the directory the root denotes, `currentPath`
    consists of normal components and meets no symbolic link. -/
theorem sj_nolink (fs : FS) (klim : Nat) (cwd : List Name) (root : PathStr) (hroot : root ≠ [])
    (R : List Name) (bR : Nat) (hR : denote fs klim cwd root = .ok R .dir bR)
    (b : Nat) (rem fin : List Name) (hrem : ∀ p ∈ rem, '/' ∉ p)
    (h : sj fs klim cwd root b [] rem = .ok fin) : AllNormal fin ∧ NoLink fs R fin := by
  refine sj_inv fs klim cwd root (fun cur => AllNormal cur ∧ NoLink fs R cur) ⟨AllNormal.nil, trivial⟩ ?_
    b rem [] fin ⟨AllNormal.nil, trivial⟩ hrem h
  intro cur part cur' hI hp hs
  have hcur' := sjStep_go_eq fs klim cwd root _ cur' hs
  have hnorm : AllNormal (applyPart cur part) := applyPart_normal cur part hI.1 hp
  rw [hcur']
  refine ⟨hnorm, ?_⟩
  by_cases h1 : part = [] ∨ part = ['.']
  · simp only [applyPart, if_pos h1]; exact hI.2
  · by_cases h2 : part = dotdot
    · simp only [applyPart, if_neg h1, if_pos h2]; exact NoLink.dropLast fs R cur hI.2
    · have happ : applyPart cur part = cur ++ [part] := by simp only [applyPart, if_neg h1, if_neg h2]
      have hpn : Normal part := ⟨fun e => h1 (Or.inl e), fun e => h1 (Or.inr e), h2, hp⟩
      rw [happ] at hs hnorm ⊢
      have hl := sjStep_go_lstat fs klim cwd root (cur ++ [part]) cur' (by simp) hs
      rw [resolve_fullPath fs klim cwd root (cur ++ [part]) false hroot hnorm (by simp), hR] at hl
      by_cases hrj : fs.reject (fullPath root (cur ++ [part])) = true
      · simp [hrj] at hl
      · simp only [hrj, if_false, Bool.false_eq_true, contWalk] at hl
        exact NoLink.snoc fs bR part hpn cur R hI.1 hI.2 hl

/-! ## Clean and Join -/

theorem foldl_cleanStep_normal (r : Bool) (comps : List Name) (h : AllNormal comps) :
    ∀ st, comps.foldl (cleanStep r) st = comps.reverse ++ st := by
  induction comps with
  | nil => intro st; rfl
  | cons c cs ih =>
    intro st
    have hc := h c List.mem_cons_self
    have hcs : AllNormal cs := fun x hx => h x (List.mem_cons_of_mem _ hx)
    have : cleanStep r st c = c :: st := by
      unfold cleanStep
      rw [if_neg (by intro h'; rcases h' with h' | h'; exact hc.1 h'; exact hc.2.1 h'), if_neg hc.2.2.1]
    simp only [List.foldl_cons, this, ih hcs, List.reverse_cons, List.append_assoc, List.singleton_append]

theorem cleanStep_noop (r : Bool) (st : List Name) : cleanStep r st [] = st := by
  simp [cleanStep]

theorem cleanStack_fullPath (root : PathStr) (hroot : root ≠ []) (fin : List Name) (hn : AllNormal fin) :
    cleanStack (root ++ '/' :: renderAbs fin) = cleanStack root ++ fin := by
  unfold cleanStack
  rw [isAbs_append root _ hroot, splitSlash_append_slash, List.foldl_append]
  by_cases h0 : fin = []
  · subst h0
    have : splitSlash (renderAbs []) = [[], []] := by simp [renderAbs, splitSlash]
    rw [this]
    simp [cleanStep_noop]
  · rw [splitSlash_renderAbs fin hn h0]
    simp only [List.foldl_cons, cleanStep_noop]
    rw [foldl_cleanStep_normal _ fin hn]
    simp

theorem cleanStack_nil : cleanStack [] = [] := by
  simp [cleanStack, splitSlash, cleanStep_noop]

theorem cleanStack_renderAbs (fin : List Name) (hn : AllNormal fin) : cleanStack (renderAbs fin) = fin := by
  by_cases h0 : fin = []
  · subst h0; simp [cleanStack, renderAbs, splitSlash, cleanStep_noop]
  · unfold cleanStack
    rw [splitSlash_renderAbs fin hn h0]
    simp only [List.foldl_cons, cleanStep_noop]
    rw [foldl_cleanStep_normal _ fin hn]
    simp

theorem isAbs_renderAbs (fin : List Name) : isAbs (renderAbs fin) = true := by
  unfold renderAbs
  split
  · rfl
  · next h =>
    cases fin with
    | nil => exact absurd rfl h
    | cons c cs => rfl

/-- What SecureJoin returns for a final `currentPath` of normal components: the cleaned root
    extended by them ("" counts as "/"). -/
theorem goJoin_renderAbs (root : PathStr) (fin : List Name) (hn : AllNormal fin) :
    goJoin root (renderAbs fin) = renderClean (isAbs root || root == []) (cleanStack root ++ fin) := by
  unfold goJoin
  by_cases hroot : root = []
  · subst hroot
    simp only [if_true, clean, if_neg (renderAbs_ne_nil fin), isAbs_renderAbs, cleanStack_renderAbs fin hn,
      cleanStack_nil, List.nil_append]
    rfl
  · rw [if_neg hroot]
    have hne : root ++ '/' :: renderAbs fin ≠ [] := by simp [hroot]
    simp only [clean, if_neg hne, isAbs_append root _ hroot, cleanStack_fullPath root hroot fin hn]
    have : (root == []) = false := by simp [hroot]
    rw [this, Bool.or_false]

theorem clean_ne_nil_of_fixed (root : PathStr) (h : clean root = root) : root ≠ [] := by
  intro h0
  rw [h0] at h
  simp [clean] at h

theorem flatMap_isAbs (c : Name) (cs : List Name) (t : PathStr) : isAbs ((c :: cs).flatMap ('/' :: ·) ++ t) = true := rfl

theorem isAbs_normal_append (c : Name) (t : PathStr) (hc : Normal c) : isAbs (c ++ t) = false := by
  cases c with
  | nil => exact absurd rfl hc.1
  | cons x xs =>
    have : x ≠ '/' := fun e => hc.2.2.2 (by simp [e])
    simp [isAbs, this]

/-- For a cleaned root and at least one normal component, the text SecureJoin returns starts where
    the root starts and is walked by the kernel exactly like the root's components followed by the
    joined ones. -/
theorem walk_out (root : PathStr) (hclean : clean root = root) (fin : List Name) (hn : AllNormal fin) (h0 : fin ≠ []) :
    isAbs (goJoin root (renderAbs fin)) = isAbs root ∧
    ∀ (fs : FS) (f : Bool) (b : Nat) (cur : List Name),
      walk fs f b cur (splitSlash (goJoin root (renderAbs fin))) = walk fs f b cur (splitSlash root ++ fin) := by
  have hroot := clean_ne_nil_of_fixed root hclean
  rw [goJoin_renderAbs root fin hn]
  have hb : (root == []) = false := by simp [hroot]
  rw [hb, Bool.or_false]
  have hform : root = renderClean (isAbs root) (cleanStack root) := by
    have := hclean
    unfold clean at this
    rw [if_neg hroot] at this
    exact this.symm
  generalize hS : cleanStack root = S at hform ⊢
  generalize hr : isAbs root = r at hform ⊢
  obtain ⟨c, cs, rfl⟩ : ∃ c cs, fin = c :: cs := by
    cases fin with
    | nil => exact absurd rfl h0
    | cons c cs => exact ⟨c, cs, rfl⟩
  have hns := hn.noslash
  cases r with
  | true =>
    cases S with
    | nil =>
      -- root = "/"
      have hroot' : root = ['/'] := by rw [hform]; rfl
      subst hroot'
      refine ⟨rfl, ?_⟩
      intro fs f b cur
      have h1 : splitSlash (renderClean true ([] ++ c :: cs)) = [] :: c :: cs := by
        have := splitSlash_append_flatMap [] (c :: cs) hns
        simpa [renderClean, renderAbs, splitSlash] using this
      have h2 : splitSlash ['/'] = [[], []] := by simp [splitSlash]
      rw [h1, h2]
      simp only [List.cons_append, List.nil_append]
      rw [walk_noop fs f b cur [] _ (Or.inl rfl), walk_noop fs f b cur [] _ (Or.inl rfl), walk_noop fs f b cur [] _ (Or.inl rfl)]
    | cons s ss =>
      have hout : renderClean true (s :: ss ++ c :: cs) = root ++ (c :: cs).flatMap ('/' :: ·) := by
        rw [hform]
        simp [renderClean, renderAbs]
      rw [hout]
      refine ⟨?_, ?_⟩
      · rw [isAbs_append root _ hroot, hr]
      · intro fs f b cur
        rw [splitSlash_append_flatMap root (c :: cs) hns]
  | false =>
    cases S with
    | nil =>
      -- root = "."
      have hroot' : root = ['.'] := by rw [hform]; rfl
      subst hroot'
      have hout : renderClean false ([] ++ c :: cs) = c ++ cs.flatMap ('/' :: ·) := rfl
      rw [hout]
      refine ⟨isAbs_normal_append c _ (hn c List.mem_cons_self), ?_⟩
      intro fs f b cur
      have h1 : splitSlash (c ++ cs.flatMap ('/' :: ·)) = c :: cs := by
        rw [splitSlash_append_flatMap c cs (fun x hx => hns x (List.mem_cons_of_mem _ hx)),
          splitSlash_noslash c (hns c List.mem_cons_self)]
        rfl
      have h2 : splitSlash ['.'] = [['.']] := by simp [splitSlash]
      rw [h1, h2]
      simp only [List.cons_append, List.nil_append]
      rw [walk_noop fs f b cur ['.'] _ (Or.inr rfl)]
    | cons s ss =>
      have hout : renderClean false (s :: ss ++ c :: cs) = root ++ (c :: cs).flatMap ('/' :: ·) := by
        rw [hform]
        simp [renderClean, renderRel]
      rw [hout]
      refine ⟨?_, ?_⟩
      · rw [isAbs_append root _ hroot, hr]
      · intro fs f b cur
        rw [splitSlash_append_flatMap root (c :: cs) hns]

/-- With nothing joined, SecureJoin returns the cleaned root. -/
theorem goJoin_root (root : PathStr) (hclean : clean root = root) : goJoin root (renderAbs []) = root := by
  have hroot := clean_ne_nil_of_fixed root hclean
  rw [goJoin_renderAbs root [] AllNormal.nil]
  have hb : (root == []) = false := by simp [hroot]
  rw [hb, Bool.or_false, List.append_nil]
  have := hclean
  unfold clean at this
  rw [if_neg hroot] at this
  exact this

theorem secureJoin_ok (fs : FS) (klim lim : Nat) (cwd : List Name) (root p out : PathStr)
    (h : secureJoin fs klim lim cwd root p = .ok out) :
    ∃ fin, sj fs klim cwd root lim [] (splitSlash p) = .ok fin ∧ out = goJoin root (renderAbs fin) := by
  unfold secureJoin at h
  split at h
  · next fin hs => simp only [Joined.ok.injEq] at h; exact ⟨fin, hs, h.symm⟩
  · simp at h

/-- What `root` extended by the normal components `fin` denotes lies below what the (cleaned) root
    denotes, provided the components meet no symbolic link below it. -/
theorem denote_under_below (fs : FS) (klim : Nat) (cwd : List Name) (root : PathStr)
    (hclean : clean root = root) (fin : List Name) (hn : AllNormal fin)
    (hnl : ∀ R lR, denote fs klim cwd root = .ok R .dir lR → NoLink fs R fin)
    (loc : List Name) (e : Entry) (l : Nat)
    (hd : denote fs klim cwd (goJoin root (renderAbs fin)) = .ok loc e l) :
    ∃ R eR lR, denote fs klim cwd root = .ok R eR lR ∧ R <+: loc := by
  by_cases h0 : fin = []
  · subst h0
    rw [goJoin_root root hclean] at hd
    exact ⟨loc, e, l, hd, List.prefix_refl _⟩
  · obtain ⟨habs, hw⟩ := walk_out root hclean fin hn h0
    unfold denote at hd hnl ⊢
    rw [habs, hw, walk_append fs true fin h0] at hd
    cases hroot' : walk fs true klim (if isAbs root = true then [] else cwd) (splitSlash root) with
    | err er => rw [hroot'] at hd; simp [contWalk] at hd
    | ok R eR lR =>
      rw [hroot'] at hd
      cases eR with
      | file i => simp [contWalk] at hd
      | link t => simp [contWalk] at hd
      | dir =>
        simp only [contWalk] at hd
        exact ⟨R, .dir, lR, rfl, (walk_nolink fs true lR fin R hn (hnl R lR hroot') loc e l hd).1⟩

/-- The core of confinement (one file system): whatever the joined path denotes lies below what the
    (cleaned) root denotes. -/
theorem denote_join_below (fs : FS) (klim lim : Nat) (cwd : List Name) (root p out : PathStr)
    (hclean : clean root = root) (hj : secureJoin fs klim lim cwd root p = .ok out)
    (loc : List Name) (e : Entry) (l : Nat) (hd : denote fs klim cwd out = .ok loc e l) :
    ∃ R eR lR, denote fs klim cwd root = .ok R eR lR ∧ R <+: loc := by
  obtain ⟨fin, hs, hout⟩ := secureJoin_ok fs klim lim cwd root p out hj
  have hroot := clean_ne_nil_of_fixed root hclean
  have hrem := splitSlash_no_slash p
  have hn := sj_normal fs klim cwd root lim _ fin hrem hs
  rw [hout] at hd
  exact denote_under_below fs klim cwd root hclean fin hn
    (fun R lR hR => (sj_nolink fs klim cwd root hroot R lR hR lim _ fin hrem hs).2) loc e l hd

/-! ## Lexical form of the result -/

/-- "Lexically inside root": the cleaned root ("" counting as "/") extended by normal components. -/
def LexInside (root out : PathStr) : Prop :=
  ∃ comps, AllNormal comps ∧ out = renderClean (isAbs root || root == []) (cleanStack root ++ comps)

theorem secureJoin_lexInside (fs : FS) (klim lim : Nat) (cwd : List Name) (root p out : PathStr)
    (hj : secureJoin fs klim lim cwd root p = .ok out) : LexInside root out := by
  obtain ⟨fin, hs, hout⟩ := secureJoin_ok fs klim lim cwd root p out hj
  have hn := sj_normal fs klim cwd root lim _ fin (splitSlash_no_slash p) hs
  exact ⟨fin, hn, by rw [hout, goJoin_renderAbs root fin hn]⟩

/-- For a cleaned root other than "/" and ".", lexically inside is: the root's text followed by
    "/c" for each of the normal components. -/
theorem LexInside.clean_root {root out : PathStr} (h : LexInside root out) (hclean : clean root = root)
    (h1 : root ≠ ['/']) (h2 : root ≠ ['.']) :
    ∃ comps, AllNormal comps ∧ out = root ++ comps.flatMap ('/' :: ·) := by
  obtain ⟨comps, hn, hout⟩ := h
  refine ⟨comps, hn, ?_⟩
  have hroot := clean_ne_nil_of_fixed root hclean
  have hb : (root == []) = false := by simp [hroot]
  rw [hb, Bool.or_false] at hout
  have hform : root = renderClean (isAbs root) (cleanStack root) := by
    have := hclean
    unfold clean at this
    rw [if_neg hroot] at this
    exact this.symm
  rw [hout]
  generalize cleanStack root = S at hform ⊢
  generalize isAbs root = r at hform ⊢
  cases r with
  | true =>
    cases S with
    | nil => exact absurd (by rw [hform]; rfl) h1
    | cons s ss => rw [hform]; simp [renderClean, renderAbs]
  | false =>
    cases S with
    | nil => exact absurd (by rw [hform]; rfl) h2
    | cons s ss => rw [hform]; simp [renderClean, renderRel]

/-! ## Two instants of the file system -/

theorem walk_congr (fs₁ fs₂ : FS) (h : ∀ l, fs₂.look l = fs₁.look l) (f : Bool) :
    ∀ (b : Nat) (L cur : List Name), walk fs₂ f b cur L = walk fs₁ f b cur L := by
  intro b
  induction b with
  | zero =>
    intro L
    induction L with
    | nil => intro cur; simp [walk_nil]
    | cons c rest ih =>
      intro cur
      simp only [walk_cons, ih, h, nextOf]
  | succ b ihb =>
    intro L
    induction L with
    | nil => intro cur; simp [walk_nil]
    | cons c rest ih =>
      intro cur
      simp only [walk_cons, ih, h, nextOf, ihb]

theorem denote_congr (fs₁ fs₂ : FS) (h : ∀ l, fs₂.look l = fs₁.look l) (klim : Nat) (cwd : List Name) (p : PathStr) :
    denote fs₂ klim cwd p = denote fs₁ klim cwd p := by
  unfold denote; exact walk_congr fs₁ fs₂ h true klim _ _

theorem resolve_follow_ok (fs : FS) (klim : Nat) (cwd : List Name) (p : PathStr) (loc : List Name) (e : Entry) (l : Nat)
    (h : resolve fs klim cwd true p = .ok loc e l) : denote fs klim cwd p = .ok loc e l := by
  unfold resolve at h
  split at h
  · simp at h
  · split at h
    · simp at h
    · exact h

theorem readFile_data (fs : FS) (klim : Nat) (cwd : List Name) (p : PathStr) (loc : List Name) (i : Nat)
    (h : readFile fs klim cwd p = .data loc i) : ∃ l, resolve fs klim cwd true p = .ok loc (.file i) l := by
  unfold readFile at h
  split at h
  · next loc' i' l' hr => simp only [ReadRes.data.injEq] at h; exact ⟨l', by rw [hr, h.1, h.2]⟩
  · simp at h
  · simp at h
  · simp at h

/-- A resolution that ends on a regular file ends where the file system shows that file. -/
theorem walk_file_look (fs : FS) (f : Bool) :
    ∀ (b : Nat) (L cur loc : List Name) (i l : Nat), walk fs f b cur L = .ok loc (.file i) l → fs.look loc = .ent (.file i) := by
  intro b
  induction b with
  | zero =>
    intro L
    induction L with
    | nil => intro cur loc i l h; simp [walk_nil] at h
    | cons c rest ih =>
      intro cur loc i l h
      rw [walk_cons] at h
      split at h
      · exact ih _ _ _ _ h
      · split at h
        · exact ih _ _ _ _ h
        · split at h
          · simp at h
          · simp at h
          · exact ih _ _ _ _ h
          · next j hl =>
            split at h
            · simp only [Res.ok.injEq, Entry.file.injEq] at h; rw [← h.1, ← h.2.1]; exact hl
            · simp at h
          · split at h
            · simp at h
            · simp [nextOf] at h
  | succ b ihb =>
    intro L
    induction L with
    | nil => intro cur loc i l h; simp [walk_nil] at h
    | cons c rest ih =>
      intro cur loc i l h
      rw [walk_cons] at h
      split at h
      · exact ih _ _ _ _ h
      · split at h
        · exact ih _ _ _ _ h
        · split at h
          · simp at h
          · simp at h
          · exact ih _ _ _ _ h
          · next j hl =>
            split at h
            · simp only [Res.ok.injEq, Entry.file.injEq] at h; rw [← h.1, ← h.2.1]; exact hl
            · simp at h
          · split at h
            · simp at h
            · exact ihb _ _ _ _ _ h

theorem resolve_file_look (fs : FS) (klim : Nat) (cwd : List Name) (f : Bool) (p : PathStr) (loc : List Name) (i l : Nat)
    (h : resolve fs klim cwd f p = .ok loc (.file i) l) : fs.look loc = .ent (.file i) := by
  unfold resolve at h
  split at h
  · simp at h
  · split at h
    · simp at h
    · exact walk_file_look fs f klim _ _ loc i l h

/-! ## The component representation of `currentPath` is faithful to filepath.Join -/

theorem splitSlash_curText (cur : List Name) (hn : AllNormal cur) :
    splitSlash (curText cur) = [] :: cur := by
  unfold curText
  by_cases h0 : cur = []
  · subst h0; rfl
  · rw [if_neg h0]; exact splitSlash_renderAbs cur hn h0

theorem cleanStep_last (cur : List Name) (hn : AllNormal cur) (part : Name) :
    (cleanStep true cur.reverse part).reverse = applyPart cur part := by
  unfold cleanStep applyPart
  by_cases h1 : part = [] ∨ part = ['.']
  · simp [h1]
  · rw [if_neg h1, if_neg h1]
    by_cases h2 : part = dotdot
    · rw [if_pos h2, if_pos h2]
      cases hr : cur.reverse with
      | nil =>
        have : cur = [] := by simpa using hr
        subst this; rfl
      | cons t ts =>
        have hcur : cur = ts.reverse ++ [t] := by
          have := congrArg List.reverse hr
          simpa using this
        have ht : t ≠ dotdot := (hn t (by rw [hcur]; simp)).2.2.1
        simp only [if_neg ht]
        rw [hcur]
        simp
    · rw [if_neg h2, if_neg h2]
      simp

/-- go: `nextPath := filepath.Join("/", currentPath, part)` is `applyPart` on the components. -/
theorem join_nextPath (cur : List Name) (hn : AllNormal cur) (part : Name) (hp : '/' ∉ part) :
    joinElems [['/'], curText cur, part] = renderAbs (applyPart cur part) := by
  have hdw : List.dropWhile (fun x : PathStr => decide (x = [])) [['/'], curText cur, part] = [['/'], curText cur, part] := by
    simp [List.dropWhile]
  unfold joinElems
  rw [hdw]
  simp only [List.flatMap_cons, List.flatMap_nil, List.append_nil, List.cons_append, List.nil_append]
  have hne : ('/' :: '/' :: (curText cur ++ '/' :: part)) ≠ [] := by simp
  unfold clean
  rw [if_neg hne]
  have habs : isAbs ('/' :: '/' :: (curText cur ++ '/' :: part)) = true := rfl
  rw [habs]
  simp only [renderClean, if_true]
  congr 1
  unfold cleanStack
  rw [habs]
  have hs : splitSlash ('/' :: '/' :: (curText cur ++ '/' :: part)) = [] :: [] :: [] :: (cur ++ [part]) := by
    simp only [splitSlash, if_true]
    rw [splitSlash_append_slash, splitSlash_curText cur hn, splitSlash_noslash part hp]
    simp
  rw [hs]
  simp only [List.foldl_cons, cleanStep_noop, List.foldl_append, List.foldl_nil]
  rw [foldl_cleanStep_normal true cur hn, List.append_nil]
  exact cleanStep_last cur hn part

/-- go: `finalPath := filepath.Join("/", currentPath)` is the text of the components. -/
theorem join_finalPath (cur : List Name) (hn : AllNormal cur) :
    joinElems [['/'], curText cur] = renderAbs cur := by
  have hdw : List.dropWhile (fun x : PathStr => decide (x = [])) [['/'], curText cur] = [['/'], curText cur] := by
    simp [List.dropWhile]
  unfold joinElems
  rw [hdw]
  simp only [List.flatMap_cons, List.flatMap_nil, List.append_nil, List.cons_append, List.nil_append]
  have hne : ('/' :: '/' :: curText cur) ≠ [] := by simp
  unfold clean
  rw [if_neg hne]
  have habs : isAbs ('/' :: '/' :: curText cur) = true := rfl
  rw [habs]
  simp only [renderClean, if_true]
  congr 1
  unfold cleanStack
  rw [habs]
  have hs : splitSlash ('/' :: '/' :: curText cur) = [] :: [] :: [] :: cur := by
    simp only [splitSlash, if_true]
    rw [splitSlash_curText cur hn]
  rw [hs]
  simp only [List.foldl_cons, cleanStep_noop]
  rw [foldl_cleanStep_normal true cur hn, List.append_nil, List.reverse_reverse]

/-- go: `filepath.Join(root, finalPath)` for the non-empty finalPath is `goJoin`. -/
theorem goJoin_eq_joinElems (a b : PathStr) (hb : b ≠ []) : goJoin a b = joinElems [a, b] := by
  unfold goJoin joinElems
  by_cases ha : a = []
  · subst ha; simp [List.dropWhile, hb]
  · simp [List.dropWhile, ha]

end GceTcb.SecureJoin
