import GceTcb.Proofs.SecureJoin
/-
C16 (confinement clause): the line-by-line transcription of SecureJoinVFS on path texts (`sjText`,
`secureJoinText`) computes what the component model (`sj`, `secureJoin`) computes. Core-only.
-/
namespace GceTcb.SecureJoin

/-- The cut at the first separator against the cut at every separator. -/
theorem cutSlash_spec (r : PathStr) :
    '/' ∉ (cutSlash r).1 ∧
    (('/' ∈ r ∧ splitSlash r = (cutSlash r).1 :: splitSlash (cutSlash r).2) ∨
     ('/' ∉ r ∧ (cutSlash r).1 = r ∧ (cutSlash r).2 = [] ∧ splitSlash r = [r])) := by
  induction r with
  | nil => simp [cutSlash, splitSlash]
  | cons c cs ih =>
    by_cases hc : c = '/'
    · subst hc
      simp [cutSlash, splitSlash]
    · obtain ⟨h1, h2⟩ := ih
      have hc' : ¬ '/' = c := fun e => hc e.symm
      refine ⟨by simp [cutSlash, hc, hc', h1], ?_⟩
      rcases h2 with ⟨hm, hs⟩ | ⟨hm, hp, hr, hs⟩
      · left
        refine ⟨List.mem_cons_of_mem _ hm, ?_⟩
        simp only [cutSlash, splitSlash, if_neg hc, hs]
      · right
        refine ⟨by simp [hc', hm], by simp [cutSlash, hc, hp], by simp [cutSlash, hc, hr], ?_⟩
        simp only [splitSlash, if_neg hc, hs]

/-- What happens from `linksWalked++` on, with `b` expansions left. -/
def onLinkOf (fs : FS) (klim : Nat) (cwd : List Name) (root : PathStr) : Nat → List Name → List Name → List Name → SJ
  | 0 => fun _ _ _ => .err .loop
  | b + 1 => fun cur nx rest =>
      match readlink fs klim cwd (fullPath root nx) with
      | .err e => .err e
      | .ok dest => sj fs klim cwd root b (if isAbs dest then [] else cur) (splitSlash dest ++ rest)

theorem sj_eq (fs : FS) (klim : Nat) (cwd : List Name) (root : PathStr) (b : Nat) :
    sj fs klim cwd root b = sjList fs klim cwd root (onLinkOf fs klim cwd root b) := by
  cases b <;> rfl

/-- One turn of the loop on the component representation, for a non-empty remaining text. -/
theorem sj_turn (fs : FS) (klim : Nat) (cwd : List Name) (root : PathStr) (b : Nat) (cur : List Name)
    (rem : PathStr) (hrem : rem ≠ []) :
    sj fs klim cwd root b cur (splitSlash rem) =
      match sjStep fs klim cwd root (applyPart cur (cutSlash rem).1) with
      | .fail e => .err e
      | .go cur' => sj fs klim cwd root b cur' (splitSlash (cutSlash rem).2)
      | .symlink => onLinkOf fs klim cwd root b cur (applyPart cur (cutSlash rem).1) (splitSlash (cutSlash rem).2) := by
  rw [sj_eq]
  obtain ⟨_, h⟩ := cutSlash_spec rem
  rcases h with ⟨_, hs⟩ | ⟨_, hp, hr, hs⟩
  · rw [hs]
    have hne : splitSlash (cutSlash rem).2 ≠ [] := splitSlash_ne_nil _
    rw [sjList]
    simp only [hne, and_false, if_false]
    cases sjStep fs klim cwd root (applyPart cur (cutSlash rem).1) with
    | fail e => rfl
    | symlink => rfl
    | go cur' => rfl
  · rw [hs, hr, hp]
    have : splitSlash [] = [[]] := rfl
    rw [this, sjList]
    simp only [hrem, false_and, if_false, if_true]
    cases sjStep fs klim cwd root (applyPart cur rem) with
    | fail e => rfl
    | symlink => rfl
    | go cur' => simp [sjList]

def mapSJ : SJ → SJT
  | .ok c => .ok (curText c)
  | .err e => .err e

theorem renderAbs_eq_slash (nx : List Name) (hn : AllNormal nx) : renderAbs nx = ['/'] ↔ nx = [] := by
  constructor
  · intro h
    cases nx with
    | nil => rfl
    | cons c cs =>
      have hc := (hn c List.mem_cons_self).1
      cases c with
      | nil => exact absurd rfl hc
      | cons x xs => simp [renderAbs] at h
  · intro h; subst h; rfl

theorem curText_of_ne (nx : List Name) (h : nx ≠ []) : curText nx = renderAbs nx := by
  unfold curText; rw [if_neg h]

/-- The transcription on texts and the loop on components agree at every state. -/
theorem sjText_eq (fs : FS) (klim : Nat) (cwd : List Name) (root : PathStr) :
    ∀ (b n : Nat) (rem : PathStr) (cur : List Name), rem.length ≤ n → AllNormal cur →
      sjText fs klim cwd root b (curText cur) rem = mapSJ (sj fs klim cwd root b cur (splitSlash rem)) := by
  intro b
  induction b with
  | zero =>
    intro n
    induction n with
    | zero =>
      intro rem cur hlen _
      have : rem = [] := List.length_eq_zero_iff.mp (Nat.le_zero.mp hlen)
      subst this
      rw [sjText]; simp [sj_eq, sjList, splitSlash, mapSJ]
    | succ n ih =>
      intro rem cur hlen hn
      by_cases hrem : rem = []
      · subst hrem; rw [sjText]; simp [sj_eq, sjList, splitSlash, mapSJ]
      · have hlt := cutSlash_length rem hrem
        have hp := (cutSlash_spec rem).1
        have hnx := applyPart_normal cur (cutSlash rem).1 hn hp
        rw [sjText, dif_neg hrem, sj_turn fs klim cwd root 0 cur rem hrem, join_nextPath cur hn _ hp]
        simp only [renderAbs_eq_slash _ hnx]
        unfold sjStep
        by_cases h0 : applyPart cur (cutSlash rem).1 = []
        · simp only [h0, if_true]
          exact ih _ [] (by omega) AllNormal.nil
        · simp only [h0, if_false]
          have hih := ih (cutSlash rem).2 _ (by omega) hnx
          rw [curText_of_ne _ h0] at hih
          unfold fullPath
          cases resolve fs klim cwd false (root ++ '/' :: renderAbs (applyPart cur (cutSlash rem).1)) with
          | err e => cases e <;> simp [hih, mapSJ]
          | ok loc e l => cases e <;> simp [hih, mapSJ, onLinkOf]
  | succ b ihb =>
    intro n
    induction n with
    | zero =>
      intro rem cur hlen _
      have : rem = [] := List.length_eq_zero_iff.mp (Nat.le_zero.mp hlen)
      subst this
      rw [sjText]; simp [sj_eq, sjList, splitSlash, mapSJ]
    | succ n ih =>
      intro rem cur hlen hn
      by_cases hrem : rem = []
      · subst hrem; rw [sjText]; simp [sj_eq, sjList, splitSlash, mapSJ]
      · have hlt := cutSlash_length rem hrem
        have hp := (cutSlash_spec rem).1
        have hnx := applyPart_normal cur (cutSlash rem).1 hn hp
        rw [sjText, dif_neg hrem, sj_turn fs klim cwd root (b + 1) cur rem hrem, join_nextPath cur hn _ hp]
        simp only [renderAbs_eq_slash _ hnx]
        unfold sjStep
        by_cases h0 : applyPart cur (cutSlash rem).1 = []
        · simp only [h0, if_true]
          exact ih _ [] (by omega) AllNormal.nil
        · simp only [h0, if_false]
          have hih := ih (cutSlash rem).2 _ (by omega) hnx
          rw [curText_of_ne _ h0] at hih
          unfold fullPath
          cases resolve fs klim cwd false (root ++ '/' :: renderAbs (applyPart cur (cutSlash rem).1)) with
          | err e => cases e <;> simp [hih, mapSJ]
          | ok loc e l =>
            cases e with
            | file i => simp [hih, mapSJ]
            | dir => simp [hih, mapSJ]
            | link t =>
              simp only [onLinkOf, fullPath]
              cases readlink fs klim cwd (root ++ '/' :: renderAbs (applyPart cur (cutSlash rem).1)) with
              | err e => simp [mapSJ]
              | ok dest =>
                simp only
                have := ihb (dest ++ '/' :: (cutSlash rem).2).length (dest ++ '/' :: (cutSlash rem).2)
                  (if isAbs dest then [] else cur) (Nat.le_refl _) (by split; exact AllNormal.nil; exact hn)
                rw [splitSlash_append_slash] at this
                rw [← this]
                congr 1
                split <;> rfl

/-- The transcription of SecureJoinVFS on texts returns what the component model returns. -/
theorem secureJoinText_eq (fs : FS) (klim lim : Nat) (cwd : List Name) (root p : PathStr) :
    secureJoinText fs klim lim cwd root p = secureJoin fs klim lim cwd root p := by
  unfold secureJoinText secureJoin
  have h := sjText_eq fs klim cwd root lim p.length p [] (Nat.le_refl _) AllNormal.nil
  have h0 : curText [] = [] := rfl
  rw [h0] at h
  rw [h]
  cases hs : sj fs klim cwd root lim [] (splitSlash p) with
  | err e => rfl
  | ok fin =>
    have hn := sj_normal fs klim cwd root lim _ fin (splitSlash_no_slash p) hs
    simp only [mapSJ]
    rw [join_finalPath fin hn, goJoin_eq_joinElems root _ (renderAbs_ne_nil fin)]

end GceTcb.SecureJoin
