import GceTcb.Proofs.TdxGlue
/-
C05 — assembly of the end-to-end statement: tdx.MRTD returns a digest exactly on the images with valid
TDVF metadata (`Valid`) whose hand-off block fits, and the digest is then the hash of the specification's
record stream over the declared sections in declared order.  Core-only.
-/
namespace GceTcb.Mrtd
open GceTcb GceTcb.Codec GceTcb.Codecs GceTcb.Intervals GceTcb.TdxMeta GceTcb.TdxHob
open GceTcb.Spec.Mrtd GceTcb.Spec.Intervals

/-! ### Option.mapM over a mapped list -/

theorem mapM_option_some {α β γ : Type} (k : γ → α) (f : α → Option β) (g : γ → β) : ∀ l : List γ,
    (∀ a ∈ l, f (k a) = some (g a)) → (l.map k).mapM f = some (l.map g) := by
  intro l
  induction l with
  | nil => intro _; simp
  | cons a t ih =>
    intro h
    rw [List.map_cons, List.mapM_cons, h a (List.mem_cons_self ..), ih (fun b hb => h b (List.mem_cons_of_mem _ hb))]
    rfl

theorem mapM_option_none {α β γ : Type} (k : γ → α) (f : α → Option β) : ∀ l : List γ,
    (∃ a ∈ l, f (k a) = none) → (l.map k).mapM f = none := by
  intro l
  induction l with
  | nil => rintro ⟨a, h, _⟩; cases h
  | cons a t ih =>
    rintro ⟨b, hb, hn⟩
    rw [List.map_cons, List.mapM_cons]
    rcases List.mem_cons.mp hb with rfl | hb
    · rw [hn]; rfl
    · rw [ih ⟨b, hb, hn⟩]
      cases f (k a) <;> rfl

/-! ### InitMemoryRegion over a region list, both directions -/

/-- tdx.MRTD's loop over the regions succeeds exactly when every region passes the checks of
    InitMemoryRegion, and the bytes hashed are then the specification's records of the regions. -/
theorem initAll_iff (m : Bool) : ∀ (rs : List Region) (s : Bytes),
    (∀ r ∈ rs, r.gpr.start + r.gpr.len ≤ 2 ^ 52) →
    (initAll m rs = .ok s ↔
      (∀ r ∈ rs, ∃ x, initChecks m r = .ok x) ∧ s = rs.flatMap (fun r => sectionRecs (specSectionOf m r))) := by
  intro rs
  induction rs with
  | nil =>
    intro s _
    simp only [initAll, List.not_mem_nil, false_imp_iff, implies_true, true_and, List.flatMap_nil]
    exact ⟨fun h => by injection h with h; exact h.symm, fun h => by rw [h]⟩
  | cons r rs ih =>
    intro s hr
    have hrr := hr r (List.mem_cons_self ..)
    have ih' := fun t => ih t (fun x hx => hr x (List.mem_cons_of_mem _ hx))
    unfold initAll
    cases hc : initChecks m r with
    | err c =>
      have : initMemoryRegion m r = .err c := by unfold initMemoryRegion; rw [hc]
      rw [this]
      refine ⟨(fun h => by cases h), ?_⟩
      rintro ⟨h1, _⟩
      obtain ⟨x, hx⟩ := h1 r (List.mem_cons_self ..)
      rw [hc] at hx; cases hx
    | panic p =>
      have : initMemoryRegion m r = .panic p := by unfold initMemoryRegion; rw [hc]
      rw [this]
      refine ⟨(fun h => by cases h), ?_⟩
      rintro ⟨h1, _⟩
      obtain ⟨x, hx⟩ := h1 r (List.mem_cons_self ..)
      rw [hc] at hx; cases hx
    | ok x =>
      have ha : ∃ a, initMemoryRegion m r = .ok a := by unfold initMemoryRegion; rw [hc]; exact ⟨_, rfl⟩
      obtain ⟨a, ha⟩ := ha
      have ea : a = sectionRecs (specSectionOf m r) :=
        initMemoryRegion_eq_spec m r a (by omega) (by omega) (by omega) ha
      rw [ha]; simp only []
      cases ht : initAll m rs with
      | ok t =>
        obtain ⟨i1, i2⟩ := (ih' t).mp ht
        simp only []
        constructor
        · intro h; injection h with h
          refine ⟨?_, ?_⟩
          · intro y hy
            rcases List.mem_cons.mp hy with rfl | hy
            · exact ⟨x, hc⟩
            · exact i1 y hy
          · rw [← h, List.flatMap_cons, ea, i2]
        · rintro ⟨_, h2⟩
          rw [h2, List.flatMap_cons, ea, i2]
      | err c =>
        simp only []
        refine ⟨(fun h => by cases h), ?_⟩
        rintro ⟨h1, _⟩
        have := (ih' _).mpr ⟨fun y hy => h1 y (List.mem_cons_of_mem _ hy), rfl⟩
        rw [ht] at this; cases this
      | panic p =>
        simp only []
        refine ⟨(fun h => by cases h), ?_⟩
        rintro ⟨h1, _⟩
        have := (ih' _).mpr ⟨fun y hy => h1 y (List.mem_cons_of_mem _ hy), rfl⟩
        rw [ht] at this; cases this

/-! ### the checks of InitMemoryRegion on the regions parse returns -/

theorem finalRegion_gpr (ma : Bool) (fw : Bytes) (b : HostBuf) (s : TdxSection) :
    (finalRegion ma fw b s).gpr = gprOf s := by
  unfold finalRegion; split <;> rfl

theorem finalRegion_attrs (ma : Bool) (fw : Bytes) (b : HostBuf) (s : TdxSection) :
    (finalRegion ma fw b s).attrs = attrsOf ma s := by
  unfold finalRegion; split <;> rfl

theorem isHob_iff (s : TdxSection) : isHob s = true ↔ s.sectionType = 2 := by simp [isHob]

/-- the host buffer of a returned region: the hand-off block, the firmware-volume bytes, or zeros / nothing -/
theorem finalRegion_buf (ma : Bool) (fw : Bytes) (b : HostBuf) (s : TdxSection) :
    (finalRegion ma fw b s).buf =
      if s.sectionType = 2 then b
      else if s.sectionType = 0 ∨ s.sectionType = 1 then ⟨sliceOf fw s.dataOffset (s.dataOffset + s.dataSize), 0⟩
      else ⟨[], if ma then s.memorySize else 0⟩ := by
  unfold finalRegion
  by_cases t2 : s.sectionType = 2
  · rw [if_pos ((isHob_iff s).mpr t2), if_pos t2]
  · have : ¬ isHob s = true := fun h => t2 ((isHob_iff s).mp h)
    rw [if_neg this, if_neg t2]; rfl

theorem finalRegion_buf_length (ma : Bool) (fw : Bytes) (b : HostBuf) (s : TdxSection)
    (hs : SecOK (fw.length % 2 ^ 32) s) (hb : s.sectionType = 2 → b.length = s.memorySize) :
    (finalRegion ma fw b s).buf.length = if s.sectionType = 3 ∧ ma = false then 0 else s.memorySize := by
  obtain ⟨_, _, s3, s4⟩ := hs
  rw [finalRegion_buf]
  by_cases t2 : s.sectionType = 2
  · rw [if_pos t2, hb t2, if_neg (by omega)]
  · rw [if_neg t2]
    by_cases t01 : s.sectionType = 0 ∨ s.sectionType = 1
    · obtain ⟨f1, f2, _⟩ := s4 t01
      have hle : fw.length % 2 ^ 32 ≤ fw.length := Nat.mod_le _ _
      rw [if_pos t01, if_neg (by omega)]
      simp only [HostBuf.length, sliceOf_length _ _ _ (show s.dataOffset ≤ s.dataOffset + s.dataSize ∧
        s.dataOffset + s.dataSize ≤ fw.length by omega)]
      omega
    · rw [if_neg t01]
      have t3 : s.sectionType = 3 := by omega
      cases ma <;> simp [HostBuf.length, t3]

/-- measured-or-not, as InitMemoryRegion derives it from the attribute the parser passes on -/
theorem measure_final (m ma : Bool) (hm : m = true → ma = true) (s : TdxSection) :
    ((attrsOf ma s &&& 1 ≠ 0) || m) = decide (s.attributes % 2 = 1 ∨ ma = true) := by
  unfold attrsOf
  cases ma with
  | true => simp
  | false =>
    have : m = false := by cases m <;> simp_all
    subst this
    simp only [Bool.false_eq_true, if_false, Bool.or_false, or_false, Nat.and_one_is_mod]
    by_cases h : s.attributes % 2 = 1
    · simp [h]
    · have : s.attributes % 2 = 0 := by omega
      simp [this]

theorem measureOf_final (m ma : Bool) (hm : m = true → ma = true) (fw : Bytes) (b : HostBuf) (s : TdxSection) :
    measureOf m (finalRegion ma fw b s) = decide (s.attributes % 2 = 1 ∨ ma = true) := by
  unfold measureOf
  rw [finalRegion_attrs]
  exact measure_final m ma hm s

/-- A returned region passes InitMemoryRegion exactly when its section is page-aligned and — when not
    everything is measured — a temporary-memory section flagged for extension is empty (parse gives
    such a section no buffer, so there is nothing InitMemoryRegion could extend with). -/
theorem initChecks_final (m ma : Bool) (hm : m = true → ma = true) (fw : Bytes) (b : HostBuf) (s : TdxSection)
    (hs : SecOK (fw.length % 2 ^ 32) s) (hb : s.sectionType = 2 → b.length = s.memorySize) :
    (∃ x, initChecks m (finalRegion ma fw b s) = .ok x) ↔
      (s.memoryBase % 4096 = 0 ∧ s.memorySize % 4096 = 0) ∧
      (ma = false → s.sectionType = 3 → s.attributes % 2 = 1 → s.memorySize = 0) := by
  have hL := finalRegion_buf_length ma fw b s hs hb
  have hM := measure_final m ma hm s
  obtain ⟨s1, s2, _, _⟩ := hs
  have hmax : maxInitialMemory = 2 ^ 32 := by decide
  have hbase : s.memoryBase % 2 ^ 64 = s.memoryBase := Nat.mod_eq_of_lt (by omega)
  have hsize : s.memorySize % 2 ^ 64 = s.memorySize := Nat.mod_eq_of_lt (by omega)
  unfold initChecks
  simp only [finalRegion_gpr, finalRegion_attrs, gprOf, hL, hM, hbase, hsize]
  generalize hMd : decide (s.attributes % 2 = 1 ∨ ma = true) = M
  have hMt : M = true ↔ (s.attributes % 2 = 1 ∨ ma = true) := by rw [← hMd]; simp
  by_cases c1 : M = true ∧ s.memorySize ≠ (if s.sectionType = 3 ∧ ma = false then 0 else s.memorySize)
  · rw [if_pos c1]
    refine ⟨(fun ⟨x, h⟩ => by cases h), ?_⟩
    rintro ⟨_, h2⟩
    exfalso
    obtain ⟨c1a, c1b⟩ := c1
    by_cases hc : s.sectionType = 3 ∧ ma = false
    · rw [if_pos hc] at c1b
      rcases hMt.mp c1a with h | h
      · exact c1b (h2 hc.2 hc.1 h)
      · rw [hc.2] at h; cases h
    · rw [if_neg hc] at c1b; exact c1b rfl
  · rw [if_neg c1]
    by_cases c2 : s.memoryBase % 4096 ≠ 0
    · rw [if_pos c2]
      exact ⟨(fun ⟨x, h⟩ => by cases h), fun ⟨⟨a, _⟩, _⟩ => absurd a c2⟩
    · rw [if_neg c2]
      by_cases c3 : s.memorySize % 4096 ≠ 0
      · rw [if_pos c3]
        exact ⟨(fun ⟨x, h⟩ => by cases h), fun ⟨⟨_, a⟩, _⟩ => absurd a c3⟩
      · rw [if_neg c3]
        have c4 : ¬ (if s.sectionType = 3 ∧ ma = false then 0 else s.memorySize) % 256 ≠ 0 := by
          split <;> omega
        rw [if_neg c4]
        have c5 : ¬ (M = true ∧ (if s.sectionType = 3 ∧ ma = false then 0 else s.memorySize) < s.memorySize) := by
          rintro ⟨a, b'⟩; apply c1; exact ⟨a, by omega⟩
        rw [if_neg c5]
        refine ⟨fun _ => ⟨⟨by omega, by omega⟩, ?_⟩, fun _ => ⟨_, rfl⟩⟩
        intro hma t3 hat
        apply Classical.byContradiction
        intro hne
        apply c1
        refine ⟨hMt.mpr (Or.inl hat), ?_⟩
        rw [if_pos ⟨t3, hma⟩]; exact hne

/-! ### the hand-off block against the specification, without a bound on the number of descriptors -/

theorem flatMap_length_const' {α : Type} (f : α → Bytes) (k : Nat) (l : List α) (h : ∀ a, (f a).length = k) :
    (l.flatMap f).length = k * l.length := by
  induction l with
  | nil => simp
  | cons a t ih => simp [List.flatMap_cons, ih, h]; rw [Nat.mul_add]; omega

theorem hobList_length (base : Nat) (secs un : List (Nat × Nat)) (dea : Bool) :
    (Spec.TdHob.hobList base secs un dea).length = 64 + 48 * (secs.length + un.length) := by
  have hr : ∀ rt at' st ln, (Spec.TdHob.resource rt at' st ln).length = 48 := by
    intro rt at' st ln
    simp [Spec.TdHob.resource, Spec.TdHob.header, Spec.TdHob.u16, Spec.TdHob.u32, Spec.TdHob.u64,
      Spec.TdHob.zeros, leBytes_length]
  unfold Spec.TdHob.hobList
  simp only [List.length_append]
  rw [flatMap_length_const' _ 48 secs (fun a => hr _ _ _ _), flatMap_length_const' _ 48 un (fun a => hr _ _ _ _)]
  simp [Spec.TdHob.phit, Spec.TdHob.endMarker, Spec.TdHob.header, Spec.TdHob.u16, Spec.TdHob.u32,
    Spec.TdHob.u64, leBytes_length]
  omega

theorem getTDHOBList_ok_length (hob : Gpr) (priv un : List Gpr) (dea : Bool) (b : HostBuf)
    (h : hob.len < 2 ^ 63) (hb : getTDHOBList hob priv un dea = .ok b) : b.length = hob.len := by
  have hl : hob.len % 2 ^ 64 = hob.len := Nat.mod_eq_of_lt (by omega)
  unfold getTDHOBList at hb
  rw [hl, if_neg (by omega)] at hb
  simp only [] at hb
  by_cases hfit : (hobContent hob priv un dea).length > hob.len
  · rw [if_pos hfit] at hb; cases hb
  · rw [if_neg hfit] at hb
    injection hb with hb
    rw [← hb]; simp only [HostBuf.length]; omega

/-- getTDHOBList against the specification's hand-off block for a TD_HOB section of validated metadata
    (at most 4 GiB, inside the 52-bit space) and unaccepted ranges that do not overflow: accepted exactly
    when the specification's block fits, and then byte-identical.  No bound on the number of
    descriptors is needed: when the 32-bit descriptor arithmetic could wrap, the list is longer than
    4 GiB and both sides refuse it. -/
theorem getTDHOBList_spec (hob : Gpr) (priv un : List Gpr) (dea : Bool)
    (h1 : hob.len ≤ 2 ^ 32) (h2 : hob.start + hob.len ≤ 2 ^ 52) (hun : NoOverflow un) :
    (∀ b, getTDHOBList hob priv un dea = .ok b →
      Spec.TdHob.tdHob hob.start hob.len (priv.map pair) (un.map pair) dea = some b.toBytes) ∧
    (∀ x, Spec.TdHob.tdHob hob.start hob.len (priv.map pair) (un.map pair) dea = some x →
      ∃ b, getTDHOBList hob priv un dea = .ok b ∧ b.toBytes = x) := by
  have hl : hob.len % 2 ^ 64 = hob.len := Nat.mod_eq_of_lt (by omega)
  have hg : ¬ hob.len ≥ 2 ^ 63 := by omega
  have hlen := hobContent_length hob priv un dea
  have hslen := hobList_length hob.start (priv.map pair) (un.map pair) dea
  simp only [List.length_map] at hslen
  unfold Spec.TdHob.tdHob getTDHOBList
  simp only [hl]
  rw [if_neg hg]
  by_cases hc : 48 * (un.length + priv.length) + 56 < 2 ^ 32
  · have hcont := hobContent_eq hob priv un dea hc (by omega) hun
    rw [← hcont]
    by_cases hfit : (hobContent hob priv un dea).length ≤ hob.len
    · have hnf : ¬ (hobContent hob priv un dea).length > hob.len := by omega
      rw [if_pos hfit, if_neg hnf]
      constructor
      · intro b hb; injection hb with hb; rw [← hb]; rfl
      · intro x hx; injection hx with hx
        exact ⟨_, rfl, hx⟩
    · have hnf : (hobContent hob priv un dea).length > hob.len := by omega
      rw [if_neg hfit, if_pos hnf]
      exact ⟨(fun b hb => by cases hb), (fun x hx => by cases hx)⟩
  · have hnf : (hobContent hob priv un dea).length > hob.len := by omega
    have hnf' : ¬ (Spec.TdHob.hobList hob.start (priv.map pair) (un.map pair) dea).length ≤ hob.len := by omega
    rw [if_pos hnf, if_neg hnf']
    exact ⟨(fun b hb => by cases hb), (fun x hx => by cases hx)⟩

/-! ### sections of the metadata as sections of the specification -/

/-- a TDVF metadata section entry as the specification reads it -/
def metaOf (s : TdxSection) : MetaSection :=
  ⟨s.dataOffset, s.dataSize, s.memoryBase, s.memorySize, s.sectionType, s.attributes⟩

/-- the specification's loaded section for a metadata section, `hb` being the hand-off block -/
def specSec (ma : Bool) (fw hb : Bytes) (s : TdxSection) : Section :=
  ⟨s.memoryBase, s.memorySize / 4096, decide (s.attributes % 2 = 1 ∨ ma = true),
    if s.sectionType = 0 ∨ s.sectionType = 1 then sub fw s.dataOffset s.memorySize
    else if s.sectionType = 2 then hb else Spec.Mrtd.zeros s.memorySize⟩

theorem toSection_eq (mode : Spec.Mrtd.Mode) (fw : Bytes) (sb : List (Nat × Nat)) (secs : List MetaSection) (hb : Bytes)
    (s : TdxSection)
    (hh : s.sectionType = 2 → Spec.TdHob.tdHob s.memoryBase s.memorySize
      (secs.map fun t => (t.memoryAddress, t.memoryDataSize)) (unaccepted mode sb secs) mode.disableEarlyAccept = some hb) :
    toSection mode fw sb secs (metaOf s) = some (specSec mode.measuresAll fw hb s) := by
  unfold toSection content metaOf specSec
  simp only []
  by_cases t01 : s.sectionType = 0 ∨ s.sectionType = 1
  · rw [if_pos t01, if_pos t01]; rfl
  · rw [if_neg t01, if_neg t01]
    by_cases t2 : s.sectionType = 2
    · rw [if_pos t2, if_pos t2, hh t2]; rfl
    · rw [if_neg t2, if_neg t2]; rfl

theorem toSection_none (mode : Spec.Mrtd.Mode) (fw : Bytes) (sb : List (Nat × Nat)) (secs : List MetaSection)
    (s : TdxSection) (t2 : s.sectionType = 2)
    (hh : Spec.TdHob.tdHob s.memoryBase s.memorySize
      (secs.map fun t => (t.memoryAddress, t.memoryDataSize)) (unaccepted mode sb secs) mode.disableEarlyAccept = none) :
    toSection mode fw sb secs (metaOf s) = none := by
  unfold toSection content metaOf
  simp only []
  rw [if_neg (by omega), if_pos t2, hh]; rfl

theorem toBytes_nil (n : Nat) : (⟨[], n⟩ : HostBuf).toBytes = Spec.Mrtd.zeros n := by
  simp [HostBuf.toBytes, Spec.Mrtd.zeros]

/-- The records InitMemoryRegion writes for a returned region are the specification's records of the
    section: same base, pages and measured flag; same contents wherever the contents are measured. -/
theorem recs_eq (m ma : Bool) (hm : m = true → ma = true) (fw : Bytes) (b : HostBuf) (hb : Bytes) (s : TdxSection)
    (hs : SecOK (fw.length % 2 ^ 32) s) (hbh : s.sectionType = 2 → b.toBytes = hb)
    (htemp : ma = false → s.sectionType = 3 → s.attributes % 2 = 1 → s.memorySize = 0) :
    sectionRecs (specSectionOf m (finalRegion ma fw b s)) = sectionRecs (specSec ma fw hb s) := by
  obtain ⟨_, _, s3, s4⟩ := hs
  unfold specSectionOf specSec
  rw [measureOf_final m ma hm, finalRegion_gpr, finalRegion_buf]
  simp only [gprOf]
  by_cases t2 : s.sectionType = 2
  · rw [if_pos t2, if_neg (by omega), if_pos t2, hbh t2]
  · rw [if_neg t2]
    by_cases t01 : s.sectionType = 0 ∨ s.sectionType = 1
    · obtain ⟨f1, _, _⟩ := s4 t01
      rw [if_pos t01, if_pos t01]
      congr 2
      simp only [HostBuf.toBytes, sliceOf, sub, List.replicate_zero, List.append_nil, f1]
      congr 1; omega
    · rw [if_neg t01, if_neg t01, if_neg t2]
      have t3 : s.sectionType = 3 := by omega
      cases ma with
      | true => simp only [if_true, toBytes_nil]
      | false =>
        simp only [Bool.false_eq_true, if_false, toBytes_nil, or_false]
        by_cases ha : s.attributes % 2 = 1
        · rw [htemp rfl t3 ha]
        · have : decide (s.attributes % 2 = 1) = false := by simp [ha]
          rw [this, sectionRecs_not_extended, sectionRecs_not_extended]

theorem flatMap_congr_mem' {α : Type} {f g : α → Bytes} : ∀ (l : List α), (∀ a ∈ l, f a = g a) → l.flatMap f = l.flatMap g := by
  intro l
  induction l with
  | nil => intro _; rfl
  | cons a t ih =>
    intro h
    rw [List.flatMap_cons, List.flatMap_cons, h a (List.mem_cons_self ..), ih (fun b hb => h b (List.mem_cons_of_mem _ hb))]

/-! ### valid TDVF metadata, and the end-to-end equivalence for one parser configuration -/

/-- **Valid TDVF metadata** of image `fw` for a launch mode — everything tdx.MRTD demands before it
    returns a digest, stated on the image and the section list:
    * `located`: the GUIDed table at the end of the image has the TDX metadata offset block, the
      metadata GUID precedes the descriptor at that offset, and descriptor + section entries decode to `md`;
    * `wellFormed`: `MetaValid` (magic, version, length, section ranges, one TD_HOB, a BFV, sizes add up);
    * `disjoint`: no address belongs to two declared memory ranges;
    * `hobIndex`: the TD_HOB section is among the first 2^31 section entries (the parser keeps its index
      in an int32; with 32 bytes per entry this can only fail for an image of 64 GiB or more — see
      `parse_panic_iff` for what happens then);
    * `aligned`: every memory range starts and ends on a 4 KiB page boundary;
    * `tempMem`: unless everything is measured, a temporary-memory section flagged for extension is
      empty (the parser attaches no buffer to it, so InitMemoryRegion refuses it otherwise). -/
structure Valid (mode : Spec.Mrtd.Mode) (fw : Bytes) (md : TdxMetadata) : Prop where
  located : readTDXMetadata fw = .ok md
  wellFormed : MetaValid (fw.length % 2 ^ 32) md
  disjoint : DisjointL (md.sections.map gprOf)
  hobIndex : md.sections.findIdx isHob < 2 ^ 31
  aligned : ∀ s ∈ md.sections, s.memoryBase % 4096 = 0 ∧ s.memorySize % 4096 = 0
  tempMem : mode.measuresAll = false →
    ∀ s ∈ md.sections, s.sectionType = 3 → s.attributes % 2 = 1 → s.memorySize = 0

theorem pairs_eq (ss : List TdxSection) :
    ((ss.map metaOf).map fun t => (t.memoryAddress, t.memoryDataSize)) = (ss.map gprOf).map pair := by
  rw [List.map_map, List.map_map]; rfl

/-- One parser configuration (`po`, the banks it is given, the Measurement flag `m`) against one mode
    of the specification.  `hun` is the interval theorem for that mode. -/
theorem stream_iff (po : ParserOpts) (m : Bool) (mode : Spec.Mrtd.Mode) (fw : Bytes) (banks : List Gpr)
    (sb : List (Nat × Nat)) (hm : m = true → po.measureAll = true)
    (h1 : mode.measuresAll = po.measureAll) (h2 : mode.disableEarlyAccept = po.disableEarlyAccept)
    (hun : ∀ ss : List TdxSection, NoOverflow (ss.map gprOf) → DisjointL (ss.map gprOf) →
      unaccepted mode sb (ss.map metaOf) = (unacceptedMemRanges (ss.map gprOf) banks).map pair ∧
      NoOverflow (unacceptedMemRanges (ss.map gprOf) banks))
    (s : Bytes) :
    (∃ regions, parse po fw banks = .ok regions ∧ initAll m regions = .ok s) ↔
      ∃ md, Valid mode fw md ∧ stream mode fw sb (md.sections.map metaOf) = some s := by
  -- everything that follows from accepted metadata with disjoint sections
  have common : ∀ md, extractTDXMetadata fw = .ok md → DisjointL (md.sections.map gprOf) →
      ∃ h, md.sections.find? isHob = some h ∧ h ∈ md.sections ∧ h.sectionType = 2 ∧
        (∀ x ∈ md.sections, x.sectionType = 2 → x = h) ∧
        (∀ x ∈ md.sections, SecOK (fw.length % 2 ^ 32) x) ∧
        (∀ b, getTDHOBList (gprOf h) (md.sections.map gprOf) (unacceptedMemRanges (md.sections.map gprOf) banks)
            po.disableEarlyAccept = .ok b →
          b.length = h.memorySize ∧
          stream mode fw sb (md.sections.map metaOf) =
            some ((md.sections.map (specSec po.measureAll fw b.toBytes)).flatMap sectionRecs)) ∧
        ((∀ b, getTDHOBList (gprOf h) (md.sections.map gprOf) (unacceptedMemRanges (md.sections.map gprOf) banks)
            po.disableEarlyAccept ≠ .ok b) → stream mode fw sb (md.sections.map metaOf) = none) := by
    intro md hmd hd
    obtain ⟨hv, _, _⟩ := extract_ok fw md hmd
    have hmv := ((extract_iff_valid fw md).mp hmd).2
    obtain ⟨h, e1, e2, e3, e4, _, _⟩ := hob_unique md.sections hmv.oneHob
    have ht2 : h.sectionType = 2 := (isHob_iff h).mp e3
    have huniq : ∀ x ∈ md.sections, x.sectionType = 2 → x = h := fun x hx t => e4 x hx ((isHob_iff x).mpr t)
    have hno : NoOverflow (md.sections.map gprOf) := by
      intro g hg
      obtain ⟨x, hx, rfl⟩ := List.mem_map.mp hg
      have := (hv.secs x hx).2.1
      simp only [gprOf]; omega
    obtain ⟨hu1, hu2⟩ := hun md.sections hno hd
    obtain ⟨k1, k2, _, _⟩ := hv.secs h e2
    have hmax : maxInitialMemory = 2 ^ 32 := by decide
    obtain ⟨sp1, sp2⟩ := getTDHOBList_spec (gprOf h) (md.sections.map gprOf)
      (unacceptedMemRanges (md.sections.map gprOf) banks) po.disableEarlyAccept
      (by simp only [gprOf]; omega) (by simp only [gprOf]; omega) hu2
    refine ⟨h, e1, e2, ht2, huniq, hv.secs, ?_, ?_⟩
    · intro b hb
      refine ⟨getTDHOBList_ok_length _ _ _ _ b (by simp only [gprOf]; omega) hb, ?_⟩
      have hsp := sp1 b hb
      unfold stream
      rw [mapM_option_some metaOf _ (specSec po.measureAll fw b.toBytes) md.sections]
      · rfl
      · intro x hx
        rw [← h1]
        apply toSection_eq
        intro t2
        rw [huniq x hx t2, pairs_eq, hu1, h2]
        exact hsp
    · intro hnone
      unfold stream
      rw [mapM_option_none metaOf _ md.sections ⟨h, e2, ?_⟩]
      · rfl
      · apply toSection_none _ _ _ _ _ ht2
        rw [pairs_eq, hu1, h2]
        cases hsp : Spec.TdHob.tdHob h.memoryBase h.memorySize ((md.sections.map gprOf).map pair)
            ((unacceptedMemRanges (md.sections.map gprOf) banks).map pair) po.disableEarlyAccept with
        | none => rfl
        | some x =>
          obtain ⟨b, hb, _⟩ := sp2 x hsp
          exact absurd hb (hnone b)
  -- the records of the returned regions are the specification's records of the sections
  have flat : ∀ (ss : List TdxSection) (b : HostBuf), (∀ x ∈ ss, SecOK (fw.length % 2 ^ 32) x) →
      (∀ x ∈ ss, po.measureAll = false → x.sectionType = 3 → x.attributes % 2 = 1 → x.memorySize = 0) →
      (ss.map (finalRegion po.measureAll fw b)).flatMap (fun r => sectionRecs (specSectionOf m r)) =
        (ss.map (specSec po.measureAll fw b.toBytes)).flatMap sectionRecs := by
    intro ss b hs ht
    rw [List.flatMap_map, List.flatMap_map]
    apply flatMap_congr_mem'
    intro x hx
    exact recs_eq m po.measureAll hm fw b b.toBytes x (hs x hx) (fun _ => rfl) (ht x hx)
  have ranges : ∀ (ss : List TdxSection) (b : HostBuf), (∀ x ∈ ss, SecOK (fw.length % 2 ^ 32) x) →
      ∀ r ∈ ss.map (finalRegion po.measureAll fw b), r.gpr.start + r.gpr.len ≤ 2 ^ 52 := by
    intro ss b hs r hr
    obtain ⟨x, hx, rfl⟩ := List.mem_map.mp hr
    rw [finalRegion_gpr]
    exact (hs x hx).2.1
  constructor
  · rintro ⟨regions, hparse, hinit⟩
    obtain ⟨md, h, b, hmd, hd, e1, hi31, hg, hreg⟩ := (parse_iff po fw banks regions).mp hparse
    obtain ⟨h', e1', e2, ht2, huniq, hsecs, c1, _⟩ := common md hmd hd
    rw [e1] at e1'; injection e1' with e1'; subst e1'
    obtain ⟨hblen, hstream⟩ := c1 b hg
    subst hreg
    obtain ⟨i1, i2⟩ := (initAll_iff m _ s (ranges md.sections b hsecs)).mp hinit
    have hchk : ∀ x ∈ md.sections, (x.memoryBase % 4096 = 0 ∧ x.memorySize % 4096 = 0) ∧
        (po.measureAll = false → x.sectionType = 3 → x.attributes % 2 = 1 → x.memorySize = 0) := by
      intro x hx
      apply (initChecks_final m po.measureAll hm fw b x (hsecs x hx) (fun t2 => by rw [huniq x hx t2]; exact hblen)).mp
      exact i1 _ (List.mem_map.mpr ⟨x, hx, rfl⟩)
    have hmv := (extract_iff_valid fw md).mp hmd
    refine ⟨md, ⟨hmv.1, hmv.2, hd, hi31, fun x hx => (hchk x hx).1, fun hma x hx => (hchk x hx).2 (by rw [← h1]; exact hma)⟩, ?_⟩
    rw [hstream, i2, flat md.sections b hsecs (fun x hx => (hchk x hx).2)]
  · rintro ⟨md, hvalid, hstream⟩
    have hmd := (extract_iff_valid fw md).mpr ⟨hvalid.located, hvalid.wellFormed⟩
    obtain ⟨h, e1, e2, ht2, huniq, hsecs, c1, c2⟩ := common md hmd hvalid.disjoint
    -- the hand-off block fits, otherwise the specification has no stream
    have hex : ∃ b, getTDHOBList (gprOf h) (md.sections.map gprOf) (unacceptedMemRanges (md.sections.map gprOf) banks)
        po.disableEarlyAccept = .ok b := by
      apply Classical.byContradiction
      intro hne
      have := c2 (fun b hb => hne ⟨b, hb⟩)
      rw [this] at hstream; cases hstream
    obtain ⟨b, hg⟩ := hex
    obtain ⟨hblen, hstream'⟩ := c1 b hg
    have htemp : ∀ x ∈ md.sections, po.measureAll = false → x.sectionType = 3 → x.attributes % 2 = 1 → x.memorySize = 0 :=
      fun x hx hma => hvalid.tempMem (by rw [h1]; exact hma) x hx
    refine ⟨md.sections.map (finalRegion po.measureAll fw b),
      (parse_iff po fw banks _).mpr ⟨md, h, b, hmd, hvalid.disjoint, e1, hvalid.hobIndex, hg, rfl⟩, ?_⟩
    rw [initAll_iff m _ s (ranges md.sections b hsecs)]
    refine ⟨?_, ?_⟩
    · intro r hr
      obtain ⟨x, hx, rfl⟩ := List.mem_map.mp hr
      exact (initChecks_final m po.measureAll hm fw b x (hsecs x hx) (fun t2 => by rw [huniq x hx t2]; exact hblen)).mpr
        ⟨hvalid.aligned x hx, htemp x hx⟩
    · rw [hstream'] at hstream
      injection hstream with hstream
      rw [← hstream, flat md.sections b hsecs htemp]

/-! ### the interval theorem in the form the modes need -/

theorem unaccepted_model_eq (ps rs : List Gpr)
    (hnp : NoOverflow ps) (hnr : NoOverflow rs) (hdp : DisjointL ps) (hdr : DisjointL rs) :
    unacceptedMemRanges ps rs = (difference (rs.map toIv) (ps.map toIv)).map ofIv :=
  unacceptedCore_eq_difference ps rs _ _ (sortByStart_perm ps)
    (sortByStart_sorted ps (fun g hg => by have := hnp g hg; omega)) (sortByStart_perm rs)
    (sortByStart_sorted rs (fun g hg => by have := hnr g hg; omega)) hnp hnr hdp hdr

/-- the unaccepted ranges lie inside the banks, so they do not overflow either -/
theorem unaccepted_noOverflow (ps rs : List Gpr)
    (hnp : NoOverflow ps) (hnr : NoOverflow rs) (hdp : DisjointL ps) (hdr : DisjointL rs) :
    NoOverflow (unacceptedMemRanges ps rs) := by
  have hsp := sortByStart_sorted ps (fun g hg => by have := hnp g hg; omega)
  have hsr := sortByStart_sorted rs (fun g hg => by have := hnr g hg; omega)
  have hpt := unacceptedCore_pointwise ps rs _ _ (sortByStart_perm ps) hsp (sortByStart_perm rs) hsr hnp hnr hdp hdr
  have hne := (unacceptedCore_sorted _ _ hsp hsr (noOverflow_perm (sortByStart_perm ps).symm hnp)
    (noOverflow_perm (sortByStart_perm rs).symm hnr) (disjoint_perm (sortByStart_perm ps).symm hdp)
    (disjoint_perm (sortByStart_perm rs).symm hdr)).1
  intro a ha
  have ha0 := hne a ha
  have hcov : Covered (a.start + a.len - 1) (unacceptedCore (sortByStart ps) (sortByStart rs)) :=
    ⟨a, ha, by simp only [Gpr.mem]; omega⟩
  obtain ⟨⟨g, hg, hgx⟩, _⟩ := (hpt _).mp hcov
  have := hnr g hg
  simp only [Gpr.mem] at hgx
  omega

theorem spec_unaccepted_eq (mode : Spec.Mrtd.Mode) (hmode : mode ≠ .default) (banks : List Gpr)
    (hnb : NoOverflow banks) (hdb : DisjointL banks) (ss : List TdxSection)
    (hno : NoOverflow (ss.map gprOf)) (hd : DisjointL (ss.map gprOf)) :
    unaccepted mode (banks.map pair) (ss.map metaOf) = (unacceptedMemRanges (ss.map gprOf) banks).map pair ∧
    NoOverflow (unacceptedMemRanges (ss.map gprOf) banks) := by
  refine ⟨?_, unaccepted_noOverflow _ _ hno hnb hd hdb⟩
  rw [unaccepted_model_eq _ _ hno hnb hd hdb]
  have e1 : ((banks.map pair).map fun b => (⟨b.1, b.1 + b.2⟩ : Iv)) = banks.map toIv := by
    rw [List.map_map]; rfl
  have e2 : ((ss.map metaOf).map fun s => (⟨s.memoryAddress, s.memoryAddress + s.memoryDataSize⟩ : Iv)) =
      (ss.map gprOf).map toIv := by
    rw [List.map_map, List.map_map]; rfl
  have e3 : ∀ l : List Iv, (l.map fun i => (i.lo, i.hi - i.lo)) = (l.map ofIv).map pair := by
    intro l; rw [List.map_map]; rfl
  cases mode with
  | default => exact absurd rfl hmode
  | measureAll => simp only [unaccepted]; rw [e1, e2, e3]
  | measureAllEarly => simp only [unaccepted]; rw [e1, e2, e3]

theorem unaccepted_no_banks (ps : List Gpr) : unacceptedMemRanges ps [] = [] := rfl

/-! ### tdx.MRTD -/

/-- the launch mode tdx.MRTD selects: DisableUnacceptedMemory wins over MeasureAllRegions -/
def modeOf (o : LaunchOptions) : Spec.Mrtd.Mode :=
  if o.disableUnacceptedMemory then .measureAllEarly else if o.measureAllRegions then .measureAll else .default

theorem mrtd_ok_iff (H : Bytes → Bytes) (o : LaunchOptions) (fw d : Bytes) :
    mrtd H o fw = .ok d ↔
      ∃ s, (∃ regions, mrtdRegions o fw = .ok regions ∧ initAll o.measureAllRegions regions = .ok s) ∧ H s = d := by
  unfold mrtd mrtdStream
  cases hr : mrtdRegions o fw with
  | err c => simp
  | panic p => simp
  | ok regions =>
    simp only []
    cases hi : initAll o.measureAllRegions regions with
    | err c => simp [hi]
    | panic p => simp [hi]
    | ok s => simp [hi]

/-- **End-to-end.**  tdx.MRTD returns `d` exactly when the image has valid TDVF metadata `md` for the
    selected mode and `d` is the hash of the specification's record stream (which exists exactly when
    the generated hand-off block fits its section).  Every hash, every image (no size bound), every
    option combination; the banks are only constrained in the modes that use them. -/
theorem mrtd_iff (H : Bytes → Bytes) (o : LaunchOptions) (fw d : Bytes)
    (hb : modeOf o ≠ .default → NoOverflow o.banks ∧ DisjointL o.banks) :
    mrtd H o fw = .ok d ↔
      ∃ md, Valid (modeOf o) fw md ∧
        mrtdOf H (modeOf o) fw (o.banks.map pair) (md.sections.map metaOf) = some d := by
  rw [mrtd_ok_iff]
  have hrhs : (∃ md, Valid (modeOf o) fw md ∧
        mrtdOf H (modeOf o) fw (o.banks.map pair) (md.sections.map metaOf) = some d) ↔
      ∃ s, (∃ md, Valid (modeOf o) fw md ∧ stream (modeOf o) fw (o.banks.map pair) (md.sections.map metaOf) = some s) ∧
        H s = d := by
    unfold mrtdOf
    constructor
    · rintro ⟨md, hv, h⟩
      cases hs : stream (modeOf o) fw (o.banks.map pair) (md.sections.map metaOf) with
      | none => rw [hs] at h; cases h
      | some s => rw [hs] at h; injection h with h; exact ⟨s, ⟨md, hv, hs⟩, h⟩
    · rintro ⟨s, ⟨md, hv, hs⟩, h⟩
      exact ⟨md, hv, by rw [hs]; simp [h]⟩
  rw [hrhs]
  suffices hcore : ∀ s, (∃ regions, mrtdRegions o fw = .ok regions ∧ initAll o.measureAllRegions regions = .ok s) ↔
      ∃ md, Valid (modeOf o) fw md ∧ stream (modeOf o) fw (o.banks.map pair) (md.sections.map metaOf) = some s by
    constructor
    · rintro ⟨s, h1, h2⟩; exact ⟨s, (hcore s).mp h1, h2⟩
    · rintro ⟨s, h1, h2⟩; exact ⟨s, (hcore s).mpr h1, h2⟩
  intro s
  unfold mrtdRegions extractNoUnacceptedMemory extractTDHOBBug extractDefault
  by_cases hdu : o.disableUnacceptedMemory = true
  · have hmode : modeOf o = .measureAllEarly := by simp [modeOf, hdu]
    rw [hmode] at hb ⊢
    obtain ⟨hnb, hdb⟩ := hb (by decide)
    rw [if_pos hdu]
    exact stream_iff { measureAll := true } o.measureAllRegions .measureAllEarly fw o.banks _ (fun _ => rfl) rfl rfl
      (fun ss hno hd => spec_unaccepted_eq .measureAllEarly (by decide) o.banks hnb hdb ss hno hd) s
  · rw [if_neg hdu]
    by_cases hma : o.measureAllRegions = true
    · have hmode : modeOf o = .measureAll := by simp [modeOf, hdu, hma]
      rw [hmode] at hb ⊢
      obtain ⟨hnb, hdb⟩ := hb (by decide)
      rw [if_pos hma]
      exact stream_iff { disableEarlyAccept := true, measureAll := true } o.measureAllRegions .measureAll fw o.banks _
        (fun _ => rfl) rfl rfl
        (fun ss hno hd => spec_unaccepted_eq .measureAll (by decide) o.banks hnb hdb ss hno hd) s
    · have hmode : modeOf o = .default := by simp [modeOf, hdu, hma]
      rw [hmode, if_neg hma]
      exact stream_iff { disableEarlyAccept := true } o.measureAllRegions .default fw [] _
        (fun h => absurd h hma) rfl rfl (fun ss _ _ => ⟨rfl, fun g hg => by cases hg⟩) s

end GceTcb.Mrtd
