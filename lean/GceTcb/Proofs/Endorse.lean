import GceTcb.Model.Endorse
import GceTcb.Spec.Endorse
/- Helper lemmas for C06. -/
namespace GceTcb.Endorse
open GceTcb GceTcb.Endorse.Spec

/-! ### Paired -/

theorem paired_append {α β : Type} {R : α → β → Prop} {as₁ as₂ : List α} {bs₁ bs₂ : List β}
    (h₁ : Paired R as₁ bs₁) (h₂ : Paired R as₂ bs₂) : Paired R (as₁ ++ as₂) (bs₁ ++ bs₂) := by
  induction h₁ with
  | nil => exact h₂
  | cons h _ ih => exact Paired.cons h ih

theorem paired_imp_mem {α β : Type} {R S : α → β → Prop} {as : List α} {bs : List β}
    (h : Paired R as bs) (himp : ∀ a b, a ∈ as → R a b → S a b) : Paired S as bs := by
  induction h with
  | nil => exact Paired.nil
  | cons h _ ih =>
    refine Paired.cons (himp _ _ (by simp) h) (ih ?_)
    intro a b ha; exact himp a b (by simp [ha])

theorem paired_exists {α β : Type} {R : α → β → Prop} {as : List α} {bs : List β}
    (h : Paired R as bs) (a : α) (ha : a ∈ as) : ∃ b ∈ bs, R a b := by
  induction h with
  | nil => cases ha
  | cons h _ ih =>
    rcases List.mem_cons.mp ha with rfl | ha
    · exact ⟨_, by simp, h⟩
    · obtain ⟨b, hb, hr⟩ := ih ha
      exact ⟨b, by simp [hb], hr⟩

theorem paired_length {α β : Type} {R : α → β → Prop} {as : List α} {bs : List β}
    (h : Paired R as bs) : as.length = bs.length := by
  induction h with
  | nil => rfl
  | cons _ _ ih => simp [ih]

/-! ### launch digests -/

theorem mapInsert_fresh (m : List (Nat × Bytes)) (k : Nat) (v : Bytes) (h : k ∉ m.map (·.1)) :
    mapInsert m k v = m ++ [(k, v)] := by
  unfold mapInsert
  have : m.any (fun p => p.1 == k) = false := by
    rw [List.any_eq_false]
    intro p hp hk
    exact h (List.mem_map.mpr ⟨p, hp, by simpa using hk⟩)
  simp [this]

theorem generateLDs_ok (P : Prims) (img : Bytes) (pr : Nat) :
    ∀ (cs : List Nat) (acc m : List (Nat × Bytes)), cs.Nodup → (∀ c ∈ cs, c ∉ acc.map (·.1)) →
      generateLDs P img pr cs acc = .ok m →
      m.map (·.1) = acc.map (·.1) ++ cs ∧
      ∀ p ∈ m, p ∈ acc ∨ (p.1 ∈ cs ∧ P.launchDigest img p.1 pr = .ok p.2) := by
  intro cs
  induction cs with
  | nil =>
    intro acc m _ _ h
    simp only [generateLDs, Outcome.ok.injEq] at h
    subst h
    exact ⟨by simp, fun p hp => Or.inl hp⟩
  | cons c cs ih =>
    intro acc m hn hd h
    unfold generateLDs at h
    cases hl : P.launchDigest img c pr with
    | err e => rw [hl] at h; cases h
    | panic s => rw [hl] at h; cases h
    | ok ld =>
      rw [hl] at h
      simp only at h
      rw [mapInsert_fresh acc c ld (hd c (by simp))] at h
      have hn' := (List.nodup_cons.mp hn)
      obtain ⟨k1, k2⟩ := ih (acc ++ [(c, ld)]) m hn'.2 (by
        intro x hx
        simp only [List.map_append, List.map_cons, List.map_nil, List.mem_append, List.mem_singleton, not_or]
        exact ⟨hd x (by simp [hx]), fun hxc => hn'.1 (hxc ▸ hx)⟩) h
      refine ⟨by simpa using k1, ?_⟩
      intro p hp
      rcases k2 p hp with hacc | ⟨hc, hv⟩
      · rcases List.mem_append.mp hacc with h1 | h1
        · exact Or.inl h1
        · simp only [List.mem_singleton] at h1
          subst h1
          exact Or.inr ⟨by simp, hl⟩
      · exact Or.inr ⟨by simp [hc], hv⟩

theorem generateLDs_isOk (P : Prims) (img : Bytes) (pr : Nat) :
    ∀ (cs : List Nat) (acc : List (Nat × Bytes)),
      (generateLDs P img pr cs acc).isOk = true ↔ ∀ c ∈ cs, (P.launchDigest img c pr).isOk = true := by
  intro cs
  induction cs with
  | nil => intro acc; simp [generateLDs, Outcome.isOk]
  | cons c cs ih =>
    intro acc
    unfold generateLDs
    cases hl : P.launchDigest img c pr with
    | err e => simp [Outcome.isOk, hl]
    | panic s => simp [Outcome.isOk, hl]
    | ok ld =>
      simp only [List.mem_cons, forall_eq_or_imp, hl]
      rw [ih]
      simp [Outcome.isOk]


/-! ### MRTD rows -/

theorem tdxConfigs_nil (early : Bool) : tdxConfigs [] early = [("", .default)] := rfl

theorem tdxConfigs_cons (s : String) (ss : List String) (early : Bool) :
    tdxConfigs (s :: ss) early =
      (if early then [(s, TdxMode.tdhobBug), (s, TdxMode.earlyAccept)] else [(s, TdxMode.tdhobBug)]) ++
        tdxConfigs ss early := by
  simp [tdxConfigs]

theorem generateMRTDs_ok (P : Prims) (T : Tables) (img : Bytes) (early : Bool) :
    ∀ (ss : List String) (acc rows : List TdxRow), generateMRTDs P T img early ss acc = .ok rows →
      ∃ tail, rows = acc ++ tail ∧ Paired (WrittenRow P T img) (tdxConfigs ss early) tail := by
  intro ss
  induction ss with
  | nil =>
    intro acc rows h
    unfold generateMRTDs at h
    cases hm : P.mrtd img "" .default with
    | err e => rw [hm] at h; cases h
    | panic s => rw [hm] at h; cases h
    | ok m =>
      rw [hm] at h
      simp only [Outcome.ok.injEq] at h
      refine ⟨[⟨0, false, m⟩], h.symm, ?_⟩
      rw [tdxConfigs_nil]
      exact Paired.cons ⟨⟨rfl, rfl⟩, Or.inl hm⟩ Paired.nil
  | cons s ss ih =>
    intro acc rows h
    unfold generateMRTDs at h
    cases hs : shapeSize T s with
    | none => rw [hs] at h; cases h
    | some sz =>
      rw [hs] at h
      simp only at h
      cases hm : P.mrtd img s .tdhobBug with
      | err e => rw [hm] at h; cases h
      | panic p => rw [hm] at h; cases h
      | ok m =>
        rw [hm] at h
        simp only at h
        have row1 : WrittenRow P T img (s, .tdhobBug) ⟨sz % 2^32, false, m⟩ :=
          ⟨⟨⟨sz, hs, rfl⟩, rfl⟩, Or.inl hm⟩
        cases early with
        | false =>
          simp only [Bool.false_eq_true, if_false] at h
          obtain ⟨tail, ht, hp⟩ := ih _ rows h
          refine ⟨⟨sz % 2^32, false, m⟩ :: tail, by rw [ht]; simp, ?_⟩
          rw [tdxConfigs_cons]
          exact Paired.cons row1 hp
        | true =>
          simp only [if_true] at h
          cases hm2 : P.mrtd img s .earlyAccept with
          | panic p => rw [hm2] at h; cases h
          | ok m2 =>
            rw [hm2] at h
            simp only at h
            obtain ⟨tail, ht, hp⟩ := ih _ rows h
            refine ⟨⟨sz % 2^32, false, m⟩ :: ⟨sz % 2^32, true, m2⟩ :: tail, by rw [ht]; simp, ?_⟩
            rw [tdxConfigs_cons]
            exact Paired.cons row1 (Paired.cons ⟨⟨⟨sz, hs, rfl⟩, rfl⟩, Or.inl hm2⟩ hp)
          | err e =>
            rw [hm2] at h
            simp only at h
            obtain ⟨tail, ht, hp⟩ := ih _ rows h
            refine ⟨⟨sz % 2^32, false, m⟩ :: ⟨sz % 2^32, true, zeros48⟩ :: tail, by rw [ht]; simp, ?_⟩
            rw [tdxConfigs_cons]
            exact Paired.cons row1 (Paired.cons ⟨⟨⟨sz, hs, rfl⟩, rfl⟩, Or.inr ⟨rfl, ⟨e, hm2⟩, rfl⟩⟩ hp)

theorem generateMRTDs_isOk (P : Prims) (T : Tables) (img : Bytes) (early : Bool) :
    ∀ (ss : List String) (acc : List TdxRow),
      (generateMRTDs P T img early ss acc).isOk = true ↔
        (∀ s ∈ ss, (shapeSize T s).isSome = true ∧ (P.mrtd img s .tdhobBug).isOk = true ∧
            (early = true → (P.mrtd img s .earlyAccept).isPanic = false)) ∧
        (P.mrtd img "" .default).isOk = true := by
  intro ss
  induction ss with
  | nil =>
    intro acc
    unfold generateMRTDs
    cases hm : P.mrtd img "" .default <;> simp [Outcome.isOk]
  | cons s ss ih =>
    intro acc
    unfold generateMRTDs
    simp only [List.mem_cons, forall_eq_or_imp]
    cases hs : shapeSize T s with
    | none => simp [Outcome.isOk]
    | some sz =>
      simp only
      cases hm : P.mrtd img s .tdhobBug with
      | err e => simp [Outcome.isOk]
      | panic p => simp [Outcome.isOk]
      | ok m =>
        simp only
        cases early with
        | false =>
          simp only [Bool.false_eq_true, if_false]
          rw [ih]
          simp [Outcome.isOk]
        | true =>
          simp only [if_true]
          cases hm2 : P.mrtd img s .earlyAccept with
          | panic p => simp [Outcome.isOk, Outcome.isPanic]
          | ok m2 => simp only; rw [ih]; simp [Outcome.isOk, Outcome.isPanic]
          | err e => simp only; rw [ih]; simp [Outcome.isOk, Outcome.isPanic]


theorem mem_tdxConfigs_early (s : String) (ss : List String) (early : Bool) :
    (s, TdxMode.earlyAccept) ∈ tdxConfigs ss early ↔ early = true ∧ s ∈ ss := by
  induction ss with
  | nil => simp [tdxConfigs_nil]
  | cons x xs ih =>
    rw [tdxConfigs_cons, List.mem_append, ih]
    cases early <;> simp

/-! ### inversion of GoldenMeasurement -/

theorem goldenMeasurement_ok (P : Prims) (T : Tables) (c : Ctx) (g : Golden)
    (h : goldenMeasurement P T c = .ok g) :
    (c.tdx.isNone && c.snp.isNone) = false ∧
    ∃ snp tdx, snpPart P T c = .ok snp ∧ tdxPart P T c = .ok tdx ∧
      g = ⟨P.sha384 c.image, c.clSpec, c.commit, snp, tdx, [], [], none⟩ := by
  unfold goldenMeasurement at h
  split at h
  · cases h
  · rename_i hn
    refine ⟨by cases hb : (c.tdx.isNone && c.snp.isNone) with
      | false => rfl
      | true => exact absurd hb hn, ?_⟩
    cases hs : snpPart P T c with
    | err e => rw [hs] at h; cases h
    | panic s => rw [hs] at h; cases h
    | ok snp =>
      rw [hs] at h
      simp only at h
      cases ht : tdxPart P T c with
      | err e => rw [ht] at h; cases h
      | panic s => rw [ht] at h; cases h
      | ok tdx =>
        rw [ht] at h
        simp only [Outcome.ok.injEq] at h
        exact ⟨snp, tdx, rfl, rfl, h.symm⟩

theorem snpPart_some (P : Prims) (T : Tables) (c : Ctx) (r : SnpRequest) (hr : c.snp = some r)
    (o : Option SnpDoc) (h : snpPart P T c = .ok o) :
    ∃ fam iid lds, P.parseUuid (canonFamily T r) = some fam ∧
      P.parseUuid (canonImage c.rndImageId r) = some iid ∧
      generateLDs P c.image r.product (vmsaCounts T r) [] = .ok lds ∧
      o = some ⟨r.svn, fam, iid, T.policy, lds, c.svsmMeasurement⟩ := by
  unfold snpPart at h
  rw [hr] at h
  simp only at h
  unfold unsignedSnp at h
  cases hf : P.parseUuid (canonFamily T r) with
  | none => rw [hf] at h; cases h
  | some fam =>
    rw [hf] at h
    simp only at h
    cases hi : P.parseUuid (canonImage c.rndImageId r) with
    | none => rw [hi] at h; cases h
    | some iid =>
      rw [hi] at h
      simp only at h
      cases hl : generateLDs P c.image r.product (vmsaCounts T r) [] with
      | err e => rw [hl] at h; cases h
      | panic s => rw [hl] at h; cases h
      | ok lds =>
        rw [hl] at h
        simp only [Outcome.ok.injEq] at h
        exact ⟨fam, iid, lds, rfl, rfl, rfl, h.symm⟩

theorem tdxPart_some (P : Prims) (T : Tables) (c : Ctx) (t : TdxRequest) (ht : c.tdx = some t)
    (o : Option TdxDoc) (h : tdxPart P T c = .ok o) :
    ∃ rows, generateMRTDs P T c.image t.includeEarlyAccept t.machineShapes [] = .ok rows ∧
      o = some ⟨t.svn, rows⟩ := by
  unfold tdxPart at h
  rw [ht] at h
  simp only at h
  unfold unsignedTdx at h
  cases hm : generateMRTDs P T c.image t.includeEarlyAccept t.machineShapes [] with
  | err e => rw [hm] at h; cases h
  | panic s => rw [hm] at h; cases h
  | ok rows =>
    rw [hm] at h
    simp only [Outcome.ok.injEq] at h
    exact ⟨rows, rfl, h.symm⟩

theorem snpPart_isOk (P : Prims) (T : Tables) (c : Ctx) :
    (snpPart P T c).isOk = true ↔
      ∀ r, c.snp = some r →
        (P.parseUuid (canonFamily T r)).isSome = true ∧
        (P.parseUuid (canonImage c.rndImageId r)).isSome = true ∧
        ∀ k ∈ vmsaCounts T r, (P.launchDigest c.image k r.product).isOk = true := by
  unfold snpPart
  cases hs : c.snp with
  | none => simp [Outcome.isOk]
  | some r =>
    simp only [Option.some.injEq, forall_eq']
    unfold unsignedSnp
    cases hf : P.parseUuid (canonFamily T r) with
    | none => simp [Outcome.isOk]
    | some fam =>
      cases hi : P.parseUuid (canonImage c.rndImageId r) with
      | none => simp [Outcome.isOk]
      | some iid =>
        have := generateLDs_isOk P c.image r.product (vmsaCounts T r) []
        cases hl : generateLDs P c.image r.product (vmsaCounts T r) [] with
        | err e => rw [hl] at this; simp [Outcome.isOk] at this ⊢; exact this
        | panic s => rw [hl] at this; simp [Outcome.isOk] at this ⊢; exact this
        | ok lds => rw [hl] at this; simp [Outcome.isOk] at this ⊢; exact this

theorem tdxPart_isOk (P : Prims) (T : Tables) (c : Ctx) :
    (tdxPart P T c).isOk = true ↔
      ∀ t, c.tdx = some t →
        (∀ s ∈ t.machineShapes, (shapeSize T s).isSome = true ∧ (P.mrtd c.image s .tdhobBug).isOk = true ∧
            (t.includeEarlyAccept = true → (P.mrtd c.image s .earlyAccept).isPanic = false)) ∧
        (P.mrtd c.image "" .default).isOk = true := by
  unfold tdxPart
  cases hs : c.tdx with
  | none => simp [Outcome.isOk]
  | some t =>
    simp only [Option.some.injEq, forall_eq']
    unfold unsignedTdx
    have := generateMRTDs_isOk P T c.image t.includeEarlyAccept t.machineShapes []
    cases hm : generateMRTDs P T c.image t.includeEarlyAccept t.machineShapes [] with
    | err e => rw [hm] at this; simp only [Outcome.isOk] at this ⊢; exact this
    | panic s => rw [hm] at this; simp only [Outcome.isOk] at this ⊢; exact this
    | ok rows => rw [hm] at this; simp only [Outcome.isOk] at this ⊢; exact this

/-! ### concrete inputs used by the non-vacuity examples of the property file -/

/-- toy primitives: digests are tagged copies of their inputs; counts above 100 and the shape
    "c3-standard-8" in early-accept mode fail -/
def exPrims : Prims :=
  { sha384 := fun b => 0xAA :: b
    launchDigest := fun img k pr => if k ≤ 100 then .ok (UInt8.ofNat k :: UInt8.ofNat pr :: img) else .err "ld"
    mrtd := fun img s m =>
      if s == "c3-standard-8" && m == .earlyAccept then .err "mrtd"
      else .ok (UInt8.ofNat s.length :: (match m with | .tdhobBug => 1 | .earlyAccept => 2 | .default => 3) :: img)
    parseUuid := fun s => if s.length == 36 then some [UInt8.ofNat s.length] else none }

def exTables : Tables := ⟨[1, 2, 4], [("c3-standard-4", 16, 1, 176), ("c3-standard-8", 32, 1, 176)], "f73a6949-e8f3-473b-9553-e40e056fa3a2", 7⟩

def exCtx (vm : Nat) (shapes : List String) : Ctx :=
  { snp := some ⟨5, "", "", vm, 1⟩, tdx := some ⟨6, true, shapes⟩, image := [9], clSpec := 77, commit := [1, 2],
    svsmMeasurement := [3], rndImageId := "87654321-dead-beef-c0de-123456789abc" }

end GceTcb.Endorse
