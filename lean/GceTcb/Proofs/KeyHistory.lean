import GceTcb.Model.KeyHistory
import GceTcb.Spec.KeyHistory
/-
Helper lemmas for C12 (key-management histories): association lists, certificate creation,
gcsca.Finalize, and the invariants carried through command histories.  Core-only.
-/
namespace GceTcb.KeyHistory
open GceTcb.Gen

/-! ### association lists -/

section assoc
variable {κ α : Type} [DecidableEq κ]

theorem get_put (l : List (κ × α)) (k k' : κ) (v : α) :
    get (put l k v) k' = if k' = k then some v else get l k' := by
  induction l with
  | nil => simp [put, get]
  | cons h t ih =>
    obtain ⟨hk, hv⟩ := h
    by_cases h1 : k = hk
    · subst h1; simp only [put, if_true, get]
      by_cases h2 : k' = k <;> simp [h2]
    · simp only [put, h1, if_false, get, ih]
      by_cases h2 : k' = hk
      · subst h2
        have : ¬ k' = k := fun e => h1 e.symm
        simp [this]
      · simp [h2]

theorem get_put_self (l : List (κ × α)) (k : κ) (v : α) : get (put l k v) k = some v := by
  simp [get_put]

theorem get_put_ne (l : List (κ × α)) (k k' : κ) (v : α) (h : k' ≠ k) : get (put l k v) k' = get l k' := by
  simp [get_put, h]

theorem get_erase (l : List (κ × α)) (k k' : κ) :
    get (erase l k) k' = if k' = k then none else get l k' := by
  induction l with
  | nil => simp [erase, get]
  | cons h t ih =>
    obtain ⟨hk, hv⟩ := h
    by_cases h1 : k = hk
    · subst h1; simp only [erase, if_true, ih, get]
      by_cases h2 : k' = k <;> simp [h2]
    · simp only [erase, h1, if_false, get, ih]
      by_cases h2 : k' = hk
      · subst h2
        have : ¬ k' = k := fun e => h1 e.symm
        simp [this]
      · simp [h2]

theorem get_nil (k : κ) : get ([] : List (κ × α)) k = none := rfl

end assoc

/-! ### regenerated constants and names -/

theorem bump_idx (k : KName) : (bump k).idx = k.idx + 1 := rfl
theorem bump_base (k : KName) : (bump k).base = k.base := rfl

theorem bump_ne_root (k : KName) : bump k ≠ rootName := by
  intro h
  have : (bump k).idx = rootName.idx := by rw [h]
  simp [bump_idx, rootName] at this

theorem bump_ne_noName (k : KName) : bump k ≠ noName := by
  intro h
  have : (bump k).idx = noName.idx := by rw [h]
  simp [bump_idx, noName] at this

theorem bump_ne_self (k : KName) : bump k ≠ k := by
  intro h
  have : (bump k).idx = k.idx := by rw [h]
  simp [bump_idx] at this

theorem firstName_ne_root : firstName ≠ rootName := by decide
theorem firstName_ne_noName : firstName ≠ noName := by decide
theorem rootName_ne_noName : rootName ≠ noName := by decide

/-! ### certificate creation -/

/-- What x509.CreateCertificate copies from the template, and the issuer it records. -/
theorem signCert_some {km : KM} {parent : Option Cert} {n : KName} {t : Tmpl} {c : Cert}
    (h : signCert km parent n t = some c) :
    c.certSerial = t.certSerial ∧ c.subjSerial = t.subjSerial ∧ c.cn = t.cn ∧ c.subjectKey = t.subjectKey ∧
    c.isCA = t.isCA ∧ c.keyUsage = t.keyUsage ∧ c.sigAlg = t.sigAlg ∧ c.notBefore = t.notBefore ∧
    c.notAfter = t.notAfter ∧ c.signerKey = c.issuerKey ∧ get km.live n = some c.signerKey ∧
    (match parent with
      | none => c.issuerKey = t.subjectKey ∧ c.issuerCn = t.cn ∧ c.issuerSerial = t.subjSerial
      | some p => c.issuerKey = p.subjectKey ∧ c.issuerCn = p.cn ∧ c.issuerSerial = p.subjSerial) := by
  unfold signCert at h
  cases hk : get km.live n with
  | none => simp [hk] at h
  | some sk =>
    simp only [hk] at h
    cases parent with
    | none =>
      by_cases e : sk = t.subjectKey
      · simp only [e, if_true, Option.some.injEq] at h
        subst h; simp [e]
      · simp [e] at h
    | some p =>
      by_cases e : sk = p.subjectKey
      · simp only [e, if_true, Option.some.injEq] at h
        subst h; simp [e]
      · simp [e] at h

/-! ### templates -/

def TmplRootOK (t : Tmpl) : Prop :=
  t.isCA = true ∧ t.keyUsage &&& 32 = 32 ∧ t.notAfter = t.notBefore + rootLifetime

def TmplSignOK (t : Tmpl) : Prop :=
  t.isCA = false ∧ t.keyUsage = 1 ∧ t.sigAlg = 13 ∧ t.notAfter = t.notBefore + signLifetime ∧
  t.certSerial = t.subjSerial

theorem google_root_ok (cn : String) (serial now key : Nat) : TmplRootOK (Tmpl.google true cn serial now key) := by
  exact ⟨rfl, (by show (96 : Nat) &&& 32 = 32; decide), rfl⟩

theorem google_sign_ok (cn : String) (serial now key : Nat) : TmplSignOK (Tmpl.google false cn serial now key) := by
  exact ⟨rfl, rfl, rfl, rfl, rfl⟩

theorem fromCert_root_ok (old : Cert) (cn : String) (serial now key : Nat)
    (h1 : old.isCA = true) (h2 : old.keyUsage &&& 32 = 32) : TmplRootOK (Tmpl.fromCert old cn serial now key) := by
  refine ⟨h1, h2, ?_⟩
  show now + (if old.isCA = true then _ else _) * daySeconds = now + rootLifetime
  rw [if_pos h1]; rfl

theorem fromCert_sign_ok (old : Cert) (cn : String) (serial now key : Nat)
    (h : SignProfile old) : TmplSignOK (Tmpl.fromCert old cn serial now key) := by
  obtain ⟨h1, h2, h3, _, _⟩ := h
  refine ⟨h1, h2, h3, ?_, rfl⟩
  show now + (if old.isCA = true then _ else _) * daySeconds = now + signLifetime
  rw [if_neg (by simp [h1])]; rfl

/-- The root template of a bootstrap is a root-profile template for the new key, whenever the root
    certificate it may be cloned from is a CA certificate with certificate-signing usage. -/
theorem rootTemplate_ok {cfg : Cfg} {view : CA} {a : BootArgs} {key : Nat} {t : Tmpl}
    (hb : ∀ r, bundle cfg view = some r → r.isCA = true ∧ r.keyUsage &&& 32 = 32)
    (h : rootTemplate cfg view (.boot a) key = some t) : TmplRootOK t ∧ t.subjectKey = key := by
  unfold rootTemplate at h
  cases hr : bundle cfg view with
  | none =>
    simp only [hr, CertCtx.rootInfo, Option.some.injEq] at h
    subst h; exact ⟨google_root_ok _ _ _ _, rfl⟩
  | some r =>
    obtain ⟨h1, h2⟩ := hb r hr
    simp only [hr, templateFromCert, h1, if_true, CertCtx.rootInfo, Option.some.injEq] at h
    subst h; exact ⟨fromCert_root_ok _ _ _ _ _ h1 h2, rfl⟩

theorem rootTemplate_boot_isSome (cfg : Cfg) (view : CA) (a : BootArgs) (key : Nat) :
    (rootTemplate cfg view (.boot a) key).isSome = true := by
  unfold rootTemplate
  cases bundle cfg view with
  | none => simp [CertCtx.rootInfo]
  | some r =>
    simp only [templateFromCert, CertCtx.rootInfo]
    by_cases h : r.isCA = true <;> simp [h]

/-- The signing template is a signing-profile template for the requested name, serial and time,
    whenever the certificate it may be cloned from has the signing profile. -/
theorem signingTemplate_ok {view : CA} {ctx : CertCtx} {key : Nat} {t : Tmpl}
    (hp : ∀ p, certificate view view.primarySigning = some p → SignProfile p)
    (h : signingTemplate view ctx key = some t) :
    TmplSignOK t ∧ t.subjectKey = key ∧ t.cn = ctx.signInfo.1 ∧ t.subjSerial = ctx.signInfo.2.1 ∧
    t.notBefore = ctx.signInfo.2.2 := by
  unfold signingTemplate at h
  cases hc : certificate view view.primarySigning with
  | none =>
    simp only [hc, Option.some.injEq] at h
    subst h; exact ⟨google_sign_ok _ _ _ _, rfl, rfl, rfl, rfl⟩
  | some p =>
    have hsp := hp p hc
    have hca : p.isCA = false := hsp.1
    simp only [hc, templateFromCert, hca, Bool.false_eq_true, if_false, Option.some.injEq] at h
    subst h; exact ⟨fromCert_sign_ok _ _ _ _ _ hsp, rfl, rfl, rfl, rfl⟩

/-- Whatever certificate the signing template is cloned from: subject name, serial and time are the
    requested ones, and (Gen: fromCertSerialIsSubject, googleSerialIsSubject) the certificate serial is
    the subject serial. -/
theorem signingTemplate_serial {view : CA} {ctx : CertCtx} {key : Nat} {t : Tmpl}
    (h : signingTemplate view ctx key = some t) :
    (t.subjSerial = ctx.signInfo.2.1 ∧ t.certSerial = t.subjSerial) ∨
    (∃ p, certificate view view.primarySigning = some p ∧ p.isCA = true) := by
  unfold signingTemplate at h
  cases hc : certificate view view.primarySigning with
  | none =>
    simp only [hc, Option.some.injEq] at h
    subst h; left; exact ⟨rfl, rfl⟩
  | some p =>
    by_cases hca : p.isCA = true
    · right; exact ⟨p, rfl, hca⟩
    · simp [hc, templateFromCert, hca] at h
      subst h; left; exact ⟨rfl, rfl⟩

/-! ### gcsca.Finalize -/

theorem put_same {κ α : Type} [DecidableEq κ] (l : List (κ × α)) (k : κ) (v : α) (h : get l k = some v) :
    put l k v = l := by
  induction l with
  | nil => simp [get] at h
  | cons hd t ih =>
    obtain ⟨hk, hv⟩ := hd
    by_cases h1 : k = hk
    · subst h1; simp only [get, if_true, Option.some.injEq] at h; subst h; simp [put]
    · simp only [get, h1, if_false] at h; simp [put, h1, ih h]

/-- What upload/uploadAll never touch, and what they keep when overwrite is not allowed. -/
def Ext (f : Flags) (ca ca' : CA) : Prop :=
  ca'.primaryRoot = ca.primaryRoot ∧ ca'.primarySigning = ca.primarySigning ∧ ca'.rootObj = ca.rootObj ∧
  (f.overwrite = false → ∀ p c, get ca.objects p = some c → get ca'.objects p = some c)

theorem Ext.refl (f : Flags) (ca : CA) : Ext f ca ca := ⟨rfl, rfl, rfl, fun _ _ _ h => h⟩

theorem Ext.trans {f : Flags} {a b c : CA} (h1 : Ext f a b) (h2 : Ext f b c) : Ext f a c :=
  ⟨h2.1.trans h1.1, h2.2.1.trans h1.2.1, h2.2.2.1.trans h1.2.2.1,
   fun ho p x hx => h2.2.2.2 ho p x (h1.2.2.2 ho p x hx)⟩

theorem writeIfAllowed_cases {f : Flags} {ca ca' : CA} {p : ObjKey} {c : Cert}
    (h : writeIfAllowed f ca p c = some ca') :
    (ca' = ca ∧ (get ca.objects p).isSome = true ∧ f.overwrite = false ∧ f.keepGoing = true) ∨
    (ca' = { ca with objects := put ca.objects p c } ∧ ((get ca.objects p).isSome = false ∨ f.overwrite = true)) := by
  unfold writeIfAllowed at h
  by_cases h1 : ((get ca.objects p).isSome && !f.overwrite) = true
  · simp only [h1, if_true] at h
    by_cases h2 : f.keepGoing = true
    · simp only [h2, if_true, Option.some.injEq] at h
      simp only [Bool.and_eq_true, Bool.not_eq_true'] at h1
      left; exact ⟨h.symm, h1.1, h1.2, h2⟩
    · simp [h2] at h
  · simp only [h1] at h
    simp only [Bool.false_eq_true, if_false, Option.some.injEq] at h
    right; refine ⟨h.symm, ?_⟩
    cases ho : f.overwrite <;> cases hg : (get ca.objects p).isSome <;> simp_all

theorem writeIfAllowed_none {f : Flags} {ca : CA} {p : ObjKey} {c : Cert}
    (h : writeIfAllowed f ca p c = none) :
    (get ca.objects p).isSome = true ∧ f.overwrite = false ∧ f.keepGoing = false := by
  unfold writeIfAllowed at h
  by_cases h1 : ((get ca.objects p).isSome && !f.overwrite) = true
  · simp only [h1, if_true] at h
    simp only [Bool.and_eq_true, Bool.not_eq_true'] at h1
    by_cases h2 : f.keepGoing = true
    · simp [h2] at h
    · exact ⟨h1.1, h1.2, by simpa using h2⟩
  · simp [h1] at h

theorem writeIfAllowed_ext {f : Flags} {ca ca' : CA} {p : ObjKey} {c : Cert}
    (h : writeIfAllowed f ca p c = some ca') : Ext f ca ca' ∧ ca'.entries = ca.entries := by
  rcases writeIfAllowed_cases h with ⟨e, _⟩ | ⟨e, hc⟩
  · subst e; exact ⟨Ext.refl _ _, rfl⟩
  · subst e
    refine ⟨⟨rfl, rfl, rfl, ?_⟩, rfl⟩
    intro ho q x hx
    rcases hc with hc | hc
    · have : q ≠ p := by
        intro e; subst e; simp [hx] at hc
      simp [get_put_ne _ _ _ _ this, hx]
    · simp [ho] at hc

/-- The two ways an upload can succeed. -/
def caSkip (ca : CA) (n : KName) (p : ObjKey) : CA := { ca with entries := put ca.entries n p }
def caWrite (ca : CA) (n : KName) (p : ObjKey) (c : Cert) : CA :=
  { ca with entries := put ca.entries n p, objects := put ca.objects p c }

def entryPath (ca : CA) (n : KName) (c : Cert) : ObjKey :=
  match get ca.entries n with
  | some p => p
  | none => certPath c

theorem upload_cases {g : Bool} {f : Flags} {ca ca' : CA} {n : KName} {c : Cert} (h : upload g f ca n c = some ca') :
    (ca' = caSkip ca n (entryPath ca n c) ∧ f.keepGoing = true ∧
      ((get ca.entries n).isSome = true ∨
        ((get ca.objects (entryPath ca n c)).isSome = true ∧ f.overwrite = false ∧ g = false))) ∨
    (ca' = caWrite ca n (entryPath ca n c) c ∧
      ((get ca.objects (entryPath ca n c)).isSome = false ∨ f.overwrite = true) ∧
      ((get ca.entries n).isSome = false ∨ f.keepGoing = false) ∧
      (g = true → heldByOther ca (entryPath ca n c) n = false)) := by
  unfold upload at h
  cases he : get ca.entries n with
  | some p =>
    have hp : entryPath ca n c = p := by simp [entryPath, he]
    simp only [he] at h
    by_cases hk : f.keepGoing = true
    · simp only [hk, if_true, Option.some.injEq] at h
      left; refine ⟨?_, hk, Or.inl rfl⟩
      rw [hp, ← h]; simp [caSkip, put_same _ _ _ he]
    · simp only [hk] at h
      by_cases hh : (g && heldByOther ca p n) = true
      · simp [hh] at h
      · simp only [hh] at h
        rcases writeIfAllowed_cases h with ⟨_, _, _, e4⟩ | ⟨e, hc⟩
        · exact absurd e4 hk
        · right; refine ⟨?_, by rw [hp]; exact hc, Or.inr (by simpa using hk), ?_⟩
          · rw [hp, e]; simp [caWrite, put_same _ _ _ he]
          · intro hg; rw [hp]; rw [hg] at hh; simpa using hh
  | none =>
    have hp : entryPath ca n c = certPath c := by simp [entryPath, he]
    simp only [he] at h
    by_cases hh : (g && heldByOther ca (certPath c) n) = true
    · simp [hh] at h
    · simp only [hh] at h
      cases hw : writeIfAllowed f ca (certPath c) c with
      | none => simp [hw] at h
      | some ca1 =>
        simp only [hw] at h
        by_cases h2 : (g && (get ca.objects (certPath c)).isSome && !f.overwrite) = true
        · simp [h2] at h
        · simp only [h2] at h
          simp only [Bool.false_eq_true, if_false, Option.some.injEq] at h
          rcases writeIfAllowed_cases hw with ⟨e, e2, e3, e4⟩ | ⟨e, hc⟩
          · left; subst e
            refine ⟨?_, e4, Or.inr ⟨by rw [hp]; exact e2, e3, ?_⟩⟩
            · rw [hp, ← h]; rfl
            · rw [e2, e3] at h2; simpa using h2
          · right; subst e
            refine ⟨?_, by rw [hp]; exact hc, Or.inl rfl, ?_⟩
            · rw [hp, ← h]; rfl
            · intro hg; rw [hp]; rw [hg] at hh; simpa using hh

theorem upload_ext {g : Bool} {f : Flags} {ca ca' : CA} {n : KName} {c : Cert} (h : upload g f ca n c = some ca') :
    Ext f ca ca' := by
  rcases upload_cases h with ⟨e, _, _⟩ | ⟨e, hc, _⟩
  · subst e; exact ⟨rfl, rfl, rfl, fun _ _ _ hx => hx⟩
  · subst e
    refine ⟨rfl, rfl, rfl, ?_⟩
    intro ho q x hx
    rcases hc with hc | hc
    · have : q ≠ entryPath ca n c := by
        intro e; subst e; simp [hx] at hc
      simp [caWrite, get_put_ne _ _ _ _ this, hx]
    · simp [ho] at hc

theorem uploadAll_ext (g : Bool) (f : Flags) (l : List (KName × Cert)) (ca : CA) : Ext f ca (uploadAll g f ca l).1 := by
  induction l generalizing ca with
  | nil => exact Ext.refl _ _
  | cons hd t ih =>
    obtain ⟨n, c⟩ := hd
    unfold uploadAll
    cases hu : upload g f ca n c with
    | none => exact Ext.refl _ _
    | some ca' => exact (upload_ext hu).trans (ih ca')

theorem abortTo_self (ca : CA) : abortTo ca ca = ca := by cases ca; rfl

/-- Finalize keeps every existing certificate object when overwrite is not allowed, and changes the
    root object only to the mutation's root certificate. -/
theorem gcsFinalize_ext (g : Bool) (f : Flags) (ca : CA) (m : Mut) :
    (f.overwrite = false → ∀ p c, get ca.objects p = some c → get (gcsFinalize g f ca m).1.objects p = some c) ∧
    ((gcsFinalize g f ca m).1.rootObj = ca.rootObj ∨
      (∃ r, m.root = some r ∧ (gcsFinalize g f ca m).1.rootObj = some r ∧ (ca.rootObj = none ∨ f.overwrite = true))) := by
  have hx := uploadAll_ext g f m.certs { ca with primaryRoot := m.pr.getD ca.primaryRoot,
                                                 primarySigning := m.ps.getD ca.primarySigning }
  unfold gcsFinalize
  cases hu : uploadAll g f { ca with primaryRoot := m.pr.getD ca.primaryRoot,
                                     primarySigning := m.ps.getD ca.primarySigning } m.certs with
  | mk ca1 ok =>
    rw [hu] at hx
    cases ok with
    | false => exact ⟨fun ho p c hp => hx.2.2.2 ho p c hp, Or.inl hx.2.2.1⟩
    | true =>
      cases hr : m.root with
      | none => exact ⟨fun ho p c hp => hx.2.2.2 ho p c hp, Or.inl hx.2.2.1⟩
      | some r =>
        simp only []
        unfold writeRoot
        by_cases h1 : (ca1.rootObj.isSome && !f.overwrite) = true
        · simp only [h1, if_true]
          by_cases h2 : f.keepGoing = true
          · simp only [h2, if_true]
            exact ⟨fun ho p c hp => hx.2.2.2 ho p c hp, Or.inl hx.2.2.1⟩
          · simp only [h2]
            exact ⟨fun ho p c hp => hx.2.2.2 ho p c hp, Or.inl hx.2.2.1⟩
        · simp only [h1]
          refine ⟨fun ho p c hp => hx.2.2.2 ho p c hp, Or.inr ⟨r, rfl, rfl, ?_⟩⟩
          have h3 : ca1.rootObj = ca.rootObj := hx.2.2.1
          rw [h3] at h1
          cases ho : f.overwrite <;> cases hg : ca.rootObj <;> simp_all

/-! ### the root certificate served by the authority (all histories) -/

def MemRootInv (ca : CA) : Prop :=
  (∀ r, certificate ca rootName = some r → RootProfile r) ∧
  (∀ n p, get ca.entries n = some p → p = .byName n) ∧
  get ca.entries noName = none ∧
  (ca.primaryRoot = rootName ∨ ca.primaryRoot = noName)

def GcsRootInv (ca : CA) : Prop := ∀ r, ca.rootObj = some r → RootProfile r

def RootInv (cfg : Cfg) (ca : CA) : Prop :=
  (cfg.ca = .memca → MemRootInv ca) ∧ (cfg.ca = .gcsca → GcsRootInv ca)

theorem RootInv.mem {cfg : Cfg} {ca : CA} (hc : cfg.ca = .memca) (h : MemRootInv ca) : RootInv cfg ca :=
  ⟨fun _ => h, fun e => (by rw [hc] at e; cases e)⟩

theorem RootInv.gcs {cfg : Cfg} {ca : CA} (hc : cfg.ca = .gcsca) (h : GcsRootInv ca) : RootInv cfg ca :=
  ⟨fun e => (by rw [hc] at e; cases e), fun _ => h⟩

theorem certificate_empty (n : KName) : certificate CA.empty n = none := rfl

theorem RootInv_empty (cfg : Cfg) : RootInv cfg CA.empty :=
  ⟨fun _ => ⟨fun r h => by simp [certificate_empty] at h, fun n p h => by simp [CA.empty, get] at h, rfl, Or.inr rfl⟩,
   fun _ r h => by simp [CA.empty] at h⟩

theorem RootInv_bundle {cfg : Cfg} {ca : CA} (h : RootInv cfg ca) {r : Cert} (hb : bundle cfg ca = some r) :
    RootProfile r := by
  unfold bundle at hb
  cases hc : cfg.ca with
  | gcsca => rw [hc] at hb; exact h.2 hc r hb
  | memca =>
    rw [hc] at hb
    obtain ⟨h1, _, h3, h4⟩ := h.1 hc
    rcases h4 with e | e
    · rw [e] at hb; exact h1 r hb
    · rw [e] at hb; simp [certificate, h3] at hb

theorem certificate_memPut (ca : CA) (n m : KName) (c : Cert)
    (hs : ∀ k p, get ca.entries k = some p → p = .byName k) :
    certificate (memPut ca n c) m = if m = n then some c else certificate ca m := by
  unfold certificate memPut
  by_cases e : m = n
  · subst e; simp [get_put_self]
  · simp only [get_put_ne _ _ _ _ e, e, if_false]
    cases hm : get ca.entries m with
    | none => rfl
    | some p =>
      have := hs m p hm
      subst this
      have : ObjKey.byName m ≠ ObjKey.byName n := by intro h; injection h with h; exact e h
      simp [get_put_ne _ _ _ _ this]

theorem MemRootInv_memPut {ca : CA} (h : MemRootInv ca) (n : KName) (c : Cert)
    (hn : n ≠ noName) (hc : n = rootName → RootProfile c) : MemRootInv (memPut ca n c) := by
  obtain ⟨h1, h2, h3, h4⟩ := h
  refine ⟨?_, ?_, ?_, h4⟩
  · intro r hr
    rw [certificate_memPut _ _ _ _ h2] at hr
    by_cases e : rootName = n
    · simp only [e, if_true, Option.some.injEq] at hr; subst hr; exact hc e.symm
    · simp only [e, if_false] at hr; exact h1 r hr
  · intro k p hk
    simp only [memPut, get_put] at hk
    by_cases e : k = n
    · simp only [e, if_true, Option.some.injEq] at hk; rw [e, ← hk]
    · simp only [e, if_false] at hk; exact h2 k p hk
  · simp only [memPut]
    rw [get_put_ne _ _ _ _ (fun e => hn e.symm)]; exact h3

theorem MemRootInv_setSigning {ca : CA} (h : MemRootInv ca) (k : KName) :
    MemRootInv { ca with primarySigning := k } := h

theorem RootInv_caAfterRotate {cfg : Cfg} {ca : CA} (h : RootInv cfg ca) (f : Flags) (kver : KName)
    (oc : Option Cert) (h1 : kver ≠ rootName) (h2 : kver ≠ noName) :
    RootInv cfg (caAfterRotate cfg f ca kver oc).1 := by
  unfold caAfterRotate
  cases hc : cfg.ca with
  | memca =>
    apply RootInv.mem hc
    have hm := h.1 hc
    cases oc with
    | none => exact hm
    | some c => exact MemRootInv_setSigning (MemRootInv_memPut hm kver c h2 (fun e => absurd e h1)) kver
  | gcsca =>
    apply RootInv.gcs hc
    have hg := h.2 hc
    have key := (gcsFinalize_ext cfg.guard f ca ⟨none, some kver, rotCerts kver oc, none⟩).2
    intro r hr
    rcases key with e | ⟨r', e, _⟩
    · simp only [] at hr; rw [e] at hr; exact hg r hr
    · simp at e

theorem rotateKey_ca (cfg : Cfg) (f : Flags) (s : State) (cn : String) (n now : Nat) :
    (rotateKey cfg f s cn n now).1.ca = s.ca ∨
    ∃ oc, (rotateKey cfg f s cn n now).1.ca = (caAfterRotate cfg f s.ca (bump s.ca.primarySigning) oc).1 := by
  unfold rotateKey
  by_cases hs : cfg.seq = true
  · simp only [hs, if_true]
    unfold rotateSeq
    cases hr : rotCert cfg s cn n now with
    | none => left; rfl
    | some c =>
      simp only []
      by_cases hf : (caAfterRotate cfg f s.ca (bump s.ca.primarySigning) (some c)).2 = true
      · simp only [hf, if_true]; right; exact ⟨some c, rfl⟩
      · simp only [hf]; right; exact ⟨some c, rfl⟩
  · simp only [hs]
    unfold rotateEager
    by_cases hg : rotGuard cfg s.ca = true
    · simp only [hg, if_true]; right; exact ⟨_, rfl⟩
    · simp only [hg]; left; rfl

theorem RootInv_bootView {cfg : Cfg} {ca : CA} (h : RootInv cfg ca) : RootInv cfg (bootView cfg ca) := by
  unfold bootView
  cases hc : cfg.ca with
  | memca =>
    apply RootInv.mem hc
    obtain ⟨h1, h2, h3, _⟩ := h.1 hc
    exact ⟨h1, h2, h3, Or.inl rfl⟩
  | gcsca => exact RootInv.gcs hc (h.2 hc)

theorem RootInv_bootPutRoot {cfg : Cfg} {ca : CA} (h : RootInv cfg ca) (rc : Cert) (hrc : RootProfile rc) :
    RootInv cfg (bootPutRoot cfg ca rc) := by
  unfold bootPutRoot
  cases hc : cfg.ca with
  | memca =>
    exact RootInv.mem hc (MemRootInv_memPut (h.1 hc) rootName rc rootName_ne_noName (fun _ => hrc))
  | gcsca => exact RootInv.gcs hc (h.2 hc)

theorem rootProfile_of_signed {km : KM} {n : KName} {t : Tmpl} {c : Cert} (ht : TmplRootOK t)
    (h : signCert km none n t = some c) : RootProfile c := by
  obtain ⟨_, h2, h3, h4, h5, h6, _, h8, h9, h10, _, h12⟩ := signCert_some h
  simp only at h12
  obtain ⟨k1, k2, k3⟩ := h12
  refine ⟨by rw [h5]; exact ht.1, by rw [h6]; exact ht.2.1, ?_, ?_, ?_, ?_, ?_⟩
  · rw [h10, k1, h4]
  · rw [k1, h4]
  · rw [k2, h3]
  · rw [k3, h2]
  · rw [h9, h8]; exact ht.2.2

theorem RootInv_bootCerts {cfg : Cfg} {stored : CA} (h : RootInv cfg stored) (f : Flags) (a : BootArgs)
    (km : KM) (rk fk : Nat) : RootInv cfg (bootCerts cfg f a km rk fk stored).1 := by
  have hv := RootInv_bootView h
  unfold bootCerts
  cases hrt : rootTemplate cfg (bootView cfg stored) (.boot a) rk with
  | none => exact hv
  | some rt =>
    have hrtok := (rootTemplate_ok (fun r hr => ⟨(RootInv_bundle hv hr).1, (RootInv_bundle hv hr).2.1⟩) hrt).1
    simp only []
    cases hrc : signCert km none rootName rt with
    | none => exact hv
    | some rc =>
      have hprof := rootProfile_of_signed hrtok hrc
      have hv2 := RootInv_bootPutRoot hv rc hprof
      simp only []
      cases hst : signingTemplate (bootPutRoot cfg (bootView cfg stored) rc) (.boot a) fk with
      | none => exact hv2
      | some st =>
        simp only []
        cases hsc : signCert km (some rc) rootName st with
        | none => exact hv2
        | some sc =>
          simp only []
          unfold bootCommit
          cases hc : cfg.ca with
          | memca =>
            apply RootInv.mem hc
            exact MemRootInv_memPut (hv2.1 hc) firstName sc firstName_ne_noName (fun e => absurd e firstName_ne_root)
          | gcsca =>
            apply RootInv.gcs hc
            have key := (gcsFinalize_ext cfg.guard f stored ⟨some rootName, some firstName, [(rootName, rc), (firstName, sc)], some rc⟩).2
            intro r hr
            simp only [] at hr
            rcases key with e | ⟨r', e1, e2, _⟩
            · rw [e] at hr; exact h.2 hc r hr
            · simp only [Option.some.injEq] at e1; subst e1
              rw [e2] at hr; simp only [Option.some.injEq] at hr; subst hr; exact hprof

theorem RootInv_step {cfg : Cfg} {s : State} (h : RootInv cfg s.ca) (c : Cmd) : RootInv cfg (step cfg s c).1.ca := by
  cases c with
  | bootstrap f a =>
    simp only [step, bootstrap]
    by_cases h1 : keyExists f s.km rootName = true
    · simp only [h1, if_true]; exact h
    · simp only [h1]
      by_cases h2 : keyExists f (s.km.gen rootName) firstName = true
      · simp only [h2, if_true]; exact h
      · simp only [h2]; exact RootInv_bootCerts h f a _ _ _
  | rotate f a =>
    simp only [step]
    by_cases hb : cliBlocked cfg s.ca = true
    · simp only [hb, if_true]; exact h
    · simp only [hb]
      cases hr : resolveSerial s.ca a.serial with
      | none => exact h
      | some n =>
        show RootInv cfg (rotateKey cfg f s a.cn n a.now).1.ca
        rcases rotateKey_ca cfg f s a.cn n a.now with e | ⟨oc, e⟩
        · rw [e]; exact h
        · rw [e]; exact RootInv_caAfterRotate h f _ oc (bump_ne_root _) (bump_ne_noName _)
  | wipeout f c k =>
    simp only [step]
    by_cases hb : cliBlocked cfg s.ca = true
    · simp only [hb, if_true]; exact h
    · simp only [hb]
      simp only [wipeout]
      cases c with
      | true => exact RootInv_empty cfg
      | false => exact h

theorem RootInv_run (cfg : Cfg) (h : List Cmd) : ∀ s : State, RootInv cfg s.ca → RootInv cfg (run cfg s h).ca := by
  induction h with
  | nil => intro s hs; exact hs
  | cons c t ih => intro s hs; exact ih _ (RootInv_step hs c)

/-! ### one rotation (any state) -/

theorem signingTemplate_rot {view : CA} {cn : String} {n now key : Nat} {t : Tmpl}
    (h : signingTemplate view (.rot cn n now) key = some t) :
    t.subjSerial = n ∧ t.certSerial = n ∧ t.cn = cn ∧ t.notBefore = now ∧ t.subjectKey = key := by
  unfold signingTemplate at h
  cases hc : certificate view view.primarySigning with
  | none =>
    simp only [hc, Option.some.injEq] at h
    subst h; exact ⟨rfl, rfl, rfl, rfl, rfl⟩
  | some p =>
    by_cases hca : p.isCA = true
    · simp [hc, templateFromCert, hca, CertCtx.rootInfo] at h
    · simp [hc, templateFromCert, hca] at h
      subst h; exact ⟨rfl, rfl, rfl, rfl, rfl⟩

theorem rotCert_some {cfg : Cfg} {s : State} {cn : String} {n now : Nat} {c : Cert}
    (h : rotCert cfg s cn n now = some c) :
    rotGuard cfg s.ca = true ∧
    ∃ t, signingTemplate s.ca (.rot cn n now) s.km.next = some t ∧
      signCert (s.km.gen (bump s.ca.primarySigning)) (bundle cfg s.ca) s.ca.primaryRoot t = some c := by
  unfold rotCert at h
  by_cases hg : rotGuard cfg s.ca = true
  · simp only [hg, if_true] at h
    cases ht : signingTemplate s.ca (.rot cn n now) s.km.next with
    | none => simp [ht] at h
    | some t => simp only [ht] at h; exact ⟨hg, t, rfl, h⟩
  · simp [hg] at h

theorem rotCert_fields {cfg : Cfg} {s : State} {cn : String} {n now : Nat} {c : Cert}
    (h : rotCert cfg s cn n now = some c) :
    c.subjSerial = n ∧ c.certSerial = n ∧ c.cn = cn ∧ c.notBefore = now ∧ c.subjectKey = s.km.next := by
  obtain ⟨_, t, ht, hs⟩ := rotCert_some h
  obtain ⟨t1, t2, t3, t4, t5⟩ := signingTemplate_rot ht
  obtain ⟨c1, c2, c3, c4, _, _, _, c8, _⟩ := signCert_some hs
  exact ⟨c2.trans t1, c1.trans t2, c3.trans t3, c8.trans t4, c4.trans t5⟩

/-- A successful rotation: a certificate was made, Finalize succeeded, the old version was destroyed. -/
theorem rotateKey_ok {cfg : Cfg} {f : Flags} {s : State} {cn : String} {n now : Nat}
    (h : (rotateKey cfg f s cn n now).2 = true) :
    ∃ c, rotCert cfg s cn n now = some c ∧
      (caAfterRotate cfg f s.ca (bump s.ca.primarySigning) (some c)).2 = true ∧
      (rotateKey cfg f s cn n now).1 =
        ⟨destroyOld (s.km.gen (bump s.ca.primarySigning)) s.ca.primarySigning,
         (caAfterRotate cfg f s.ca (bump s.ca.primarySigning) (some c)).1⟩ := by
  unfold rotateKey at h ⊢
  by_cases hs : cfg.seq = true
  · simp only [hs, if_true] at h ⊢
    unfold rotateSeq at h ⊢
    cases hr : rotCert cfg s cn n now with
    | none => simp [hr] at h
    | some c =>
      simp only [hr] at h ⊢
      by_cases hf : (caAfterRotate cfg f s.ca (bump s.ca.primarySigning) (some c)).2 = true
      · simp only [hf, if_true] at h ⊢; exact ⟨c, rfl, hf, rfl⟩
      · simp [hf] at h
  · simp only [hs] at h ⊢
    unfold rotateEager at h ⊢
    by_cases hg : rotGuard cfg s.ca = true
    · simp only [hg, if_true] at h ⊢
      replace h : ((rotCert cfg s cn n now).isSome
          && destroyOldOk cfg (s.km.gen (bump s.ca.primarySigning)) s.ca.primarySigning
          && (caAfterRotate cfg f s.ca (bump s.ca.primarySigning) (rotCert cfg s cn n now)).2) = true := h
      simp only [Bool.and_eq_true] at h
      obtain ⟨⟨h1, _⟩, h3⟩ := h
      cases hr : rotCert cfg s cn n now with
      | none => simp [hr] at h1
      | some c => rw [hr] at h3; exact ⟨c, rfl, h3, rfl⟩
    · simp [hg] at h

theorem caAfterRotate_ok_nokg {cfg : Cfg} {f : Flags} {ca : CA} {kver : KName} {c : Cert}
    (h : (caAfterRotate cfg f ca kver (some c)).2 = true) (hk : f.keepGoing = false) :
    (caAfterRotate cfg f ca kver (some c)).1.primarySigning = kver ∧
    certificate (caAfterRotate cfg f ca kver (some c)).1 kver = some c := by
  unfold caAfterRotate at h ⊢
  cases hc : cfg.ca with
  | memca =>
    simp [memAdd, memPut, certificate, get_put_self]
  | gcsca =>
    rw [hc] at h
    simp only [gcsFinalize, rotCerts, uploadAll, Option.getD] at h ⊢
    cases hu : upload cfg.guard f { ca with primaryRoot := ca.primaryRoot, primarySigning := kver } kver c with
    | none => simp [hu] at h
    | some ca1 =>
      rcases upload_cases hu with ⟨_, e2, _⟩ | ⟨e, _, _⟩
      · rw [hk] at e2; cases e2
      · subst e
        simp [caWrite, certificate, get_put_self]

theorem bootCerts_gcs {cfg : Cfg} (hc : cfg.ca = .gcsca) (f : Flags) (a : BootArgs) (km : KM) (rk fk : Nat) (stored : CA) :
    (bootCerts cfg f a km rk fk stored).1 = stored ∨
    ∃ m, (bootCerts cfg f a km rk fk stored).1 = (gcsFinalize cfg.guard f stored m).1 := by
  have hv : bootView cfg stored = stored := by simp [bootView, hc]
  have hp : ∀ rc, bootPutRoot cfg stored rc = stored := by intro rc; simp [bootPutRoot, hc]
  unfold bootCerts
  rw [hv]
  cases rootTemplate cfg stored (.boot a) rk with
  | none => left; rfl
  | some rt =>
    simp only []
    cases signCert km none rootName rt with
    | none => left; rfl
    | some rc =>
      simp only [hp]
      cases signingTemplate stored (.boot a) fk with
      | none => left; rfl
      | some st =>
        simp only []
        cases signCert km (some rc) rootName st with
        | none => left; rfl
        | some sc => right; simp only [bootCommit, hc]; exact ⟨_, rfl⟩

/-! ### shapes of one rotation -/

theorem caAfterRotate_fail {cfg : Cfg} {f : Flags} {ca : CA} {kver : KName} {oc : Option Cert}
    (h : (caAfterRotate cfg f ca kver oc).2 = false) : (caAfterRotate cfg f ca kver oc).1 = ca := by
  unfold caAfterRotate at h ⊢
  cases hc : cfg.ca with
  | memca => rw [hc] at h; simp at h
  | gcsca =>
    rw [hc] at h
    cases oc with
    | none => simp [gcsFinalize, rotCerts, uploadAll] at h
    | some c =>
      simp only [gcsFinalize, rotCerts, uploadAll, Option.getD] at h ⊢
      cases hu : upload cfg.guard f { ca with primaryRoot := ca.primaryRoot, primarySigning := kver } kver c with
      | none => simp only [abortTo]
      | some ca1 => simp [hu] at h

theorem rotateKey_shape (cfg : Cfg) (f : Flags) (s : State) (cn : String) (n now : Nat) :
    (rotateKey cfg f s cn n now).1 = ⟨s.km.gen (bump s.ca.primarySigning), s.ca⟩ ∨
    ∃ oc, (∀ c, oc = some c → rotCert cfg s cn n now = some c) ∧ rotGuard cfg s.ca = true ∧
      (rotateKey cfg f s cn n now).1 =
        ⟨destroyOld (s.km.gen (bump s.ca.primarySigning)) s.ca.primarySigning,
         (caAfterRotate cfg f s.ca (bump s.ca.primarySigning) oc).1⟩ := by
  unfold rotateKey
  by_cases hs : cfg.seq = true
  · simp only [hs, if_true]
    unfold rotateSeq
    cases hr : rotCert cfg s cn n now with
    | none => left; rfl
    | some c =>
      simp only []
      by_cases hf : (caAfterRotate cfg f s.ca (bump s.ca.primarySigning) (some c)).2 = true
      · simp only [hf, if_true]; right; exact ⟨some c, fun c' e => e, (rotCert_some hr).1, rfl⟩
      · simp only [hf]; left
        have := caAfterRotate_fail (by simpa using hf : (caAfterRotate cfg f s.ca (bump s.ca.primarySigning) (some c)).2 = false)
        rw [this]; rfl
  · simp only [hs]
    unfold rotateEager
    by_cases hg : rotGuard cfg s.ca = true
    · rw [if_pos hg]; right; exact ⟨rotCert cfg s cn n now, fun c e => e, hg, rfl⟩
    · simp only [hg]; left; rfl

/-- default object of a new entry -/
def defaultPath (cfg : Cfg) (kver : KName) (c : Cert) : ObjKey :=
  match cfg.ca with
  | .memca => .byName kver
  | .gcsca => certPath c

theorem heldByOther_false {ca : CA} {p : ObjKey} {n : KName} (h : heldByOther ca p n = false)
    {n' : KName} {p' : ObjKey} (he : get ca.entries n' = some p') (hn : n' ≠ n) : p' ≠ p := by
  intro e
  have hmem : ∀ l : List (KName × ObjKey), get l n' = some p' → (n', p') ∈ l := by
    intro l
    induction l with
    | nil => intro h; simp [get] at h
    | cons hd t ih =>
      obtain ⟨k, v⟩ := hd
      intro h
      by_cases e : n' = k
      · simp [get, e] at h; rw [e, h]; exact List.mem_cons_self
      · simp [get, e] at h; exact List.mem_cons_of_mem _ (ih h)
  have : heldByOther ca p n = true := by
    unfold heldByOther
    rw [List.any_eq_true]
    exact ⟨(n', p'), hmem _ he, by simp [e, hn]⟩
  rw [h] at this; cases this

/-- no entry other than `n`'s names the object `p` -/
def Unheld (ca : CA) (p : ObjKey) (n : KName) : Prop :=
  ∀ n' p', get ca.entries n' = some p' → n' ≠ n → p' ≠ p

/-- The authority after the rotation's mutation, when the new name has no entry yet: unchanged
    (Finalize refused), only the primary moved (no certificate), the certificate written and
    recorded — on the repaired gcsca only to an object no other key version holds —, or, before the
    repair only (keep_going over an existing object), recorded without being written. -/
theorem caAfterRotate_shape {cfg : Cfg} (f : Flags) {ca : CA} {kver : KName} (oc : Option Cert)
    (he : get ca.entries kver = none) :
    (caAfterRotate cfg f ca kver oc).1 = ca ∨
    (oc = none ∧ (caAfterRotate cfg f ca kver oc).1 = { ca with primarySigning := kver }) ∨
    ∃ c, oc = some c ∧
      (((caAfterRotate cfg f ca kver oc).1 =
          { caWrite ca kver (defaultPath cfg kver c) c with primarySigning := kver } ∧
        (cfg.ca = .gcsca → cfg.guard = true → Unheld ca (defaultPath cfg kver c) kver)) ∨
       ((caAfterRotate cfg f ca kver oc).1 =
          { caSkip ca kver (defaultPath cfg kver c) with primarySigning := kver } ∧
        (get ca.objects (defaultPath cfg kver c)).isSome = true ∧ cfg.ca = .gcsca ∧ cfg.guard = false)) := by
  unfold caAfterRotate defaultPath
  cases hc : cfg.ca with
  | memca =>
    cases oc with
    | none => right; left; exact ⟨rfl, rfl⟩
    | some c => right; right; exact ⟨c, rfl, Or.inl ⟨rfl, fun e => by cases e⟩⟩
  | gcsca =>
    cases oc with
    | none => right; left; exact ⟨rfl, rfl⟩
    | some c =>
      simp only [gcsFinalize, rotCerts, uploadAll, Option.getD]
      cases hu : upload cfg.guard f { ca with primaryRoot := ca.primaryRoot, primarySigning := kver } kver c with
      | none => left; simp only [abortTo]
      | some ca1 =>
        right; right; refine ⟨c, rfl, ?_⟩
        have hp : entryPath { ca with primaryRoot := ca.primaryRoot, primarySigning := kver } kver c = certPath c := by
          simp [entryPath, he]
        rcases upload_cases hu with ⟨e, _, e3⟩ | ⟨e, _, _, e4⟩
        · right
          rw [hp] at e e3
          rcases e3 with e3 | e3
          · simp [he] at e3
          · exact ⟨by rw [e]; rfl, e3.1, trivial, e3.2.2⟩
        · left
          rw [hp] at e e4
          refine ⟨by rw [e]; rfl, fun _ hg => ?_⟩
          intro n' p' hn' hne
          exact heldByOther_false (ca := { ca with primaryRoot := ca.primaryRoot, primarySigning := kver }) (e4 hg) hn' hne

/-! ### key manager primitives -/

theorem live_gen (km : KM) (k n : KName) :
    get (km.gen k).live n = if n = k then some km.next else get km.live n := by
  simp [KM.gen, get_put]

theorem destroyed_gen (km : KM) (k : KName) : (km.gen k).destroyed = km.destroyed := rfl

theorem live_destroy (km : KM) (k n : KName) :
    get (km.destroy k).live n = if n = k then none else get km.live n := by
  unfold KM.destroy
  cases hg : get km.live k with
  | some x => simp [get_erase]
  | none =>
    by_cases e : n = k
    · subst e; simp [hg]
    · simp [e]

theorem destroyed_destroy (km : KM) (k n : KName) (h : n ∈ (km.destroy k).destroyed) :
    n = k ∨ n ∈ km.destroyed := by
  unfold KM.destroy at h
  by_cases hl : (get km.live k).isSome = true
  · simp only [hl, if_true, List.mem_cons] at h; exact h
  · simp only [hl] at h; exact Or.inr h

theorem live_destroyOld {km : KM} {cur n : KName} {x : Nat} (h : get (destroyOld km cur).live n = some x) :
    get km.live n = some x ∧ (cur = noName ∨ n ≠ cur) := by
  unfold destroyOld at h
  by_cases e : cur = noName
  · simp only [e, if_true] at h; exact ⟨h, Or.inl e⟩
  · rw [if_neg e, live_destroy] at h
    by_cases e2 : n = cur
    · simp [e2] at h
    · simp only [e2, if_false] at h; exact ⟨h, Or.inr e2⟩

theorem destroyed_destroyOld {km : KM} {cur n : KName} (h : n ∈ (destroyOld km cur).destroyed) :
    (n = cur ∧ cur ≠ noName) ∨ n ∈ km.destroyed := by
  unfold destroyOld at h
  by_cases e : cur = noName
  · simp only [e, if_true] at h; exact Or.inr h
  · rw [if_neg e] at h
    rcases destroyed_destroy _ _ _ h with h | h
    · exact Or.inl ⟨h, e⟩
    · exact Or.inr h

/-! ### the invariant of histories that never bootstrap over a populated store -/

/-- Signing profile, and issued by the root the authority serves. -/
def Good (cfg : Cfg) (ca : CA) (c : Cert) : Prop :=
  SignProfile c ∧ ∃ r, bundle cfg ca = some r ∧ IssuedBy r c

structure InvCA (cfg : Cfg) (ca : CA) : Prop where
  sync : cfg.ca = .memca → ∀ n p, get ca.entries n = some p → p = .byName n
  noNoName : get ca.entries noName = none
  fam : ca.primarySigning = noName ∨ ca.primarySigning.base = firstName.base
  rootOrEmpty : ca.primaryRoot = rootName ∨ (ca.primaryRoot = noName ∧ ca.entries = [])
  psRoot : ca.primaryRoot = rootName → ca.primarySigning.base = firstName.base
  /-- every RECORDED certificate other than the root's entry (leftover objects are not constrained) -/
  good : ∀ n p c, get ca.entries n = some p → n ≠ rootName → get ca.objects p = some c → Good cfg ca c
  bound : ∀ n, (get ca.entries n).isSome = true → n.base = ca.primarySigning.base → n.idx ≤ ca.primarySigning.idx
  memObj : cfg.ca = .memca → ∀ n, (get ca.objects (.byName n)).isSome = true → (get ca.entries n).isSome = true

structure InvKM (ca : CA) (km : KM) : Prop where
  dfam : ∀ n, n ∈ km.destroyed → n.base = firstName.base ∧
    (ca.primarySigning.base = firstName.base → n.idx ≤ ca.primarySigning.idx)
  onlyPrimary : ∀ n, (get ca.entries n).isSome = true → n ≠ rootName → n ≠ ca.primarySigning →
    get km.live n = none

def Inv (cfg : Cfg) (s : State) : Prop := InvCA cfg s.ca ∧ InvKM s.ca s.km

theorem InvCA.kver_fresh {cfg : Cfg} {ca : CA} (h : InvCA cfg ca) :
    get ca.entries (bump ca.primarySigning) = none := by
  cases hg : get ca.entries (bump ca.primarySigning) with
  | none => rfl
  | some p =>
    have := h.bound (bump ca.primarySigning) (by simp [hg]) (bump_base _)
    simp only [bump_idx] at this
    omega

theorem psk_ne_root_base : firstName.base ≠ rootName.base := by decide
theorem psk_ne_empty_base : firstName.base ≠ noName.base := by decide

theorem InvCA.ps_ne_root {cfg : Cfg} {ca : CA} (h : InvCA cfg ca) :
    ca.primarySigning ≠ rootName := by
  intro e
  rcases h.fam with h1 | h1
  · rw [h1] at e; exact absurd e (fun e => rootName_ne_noName e.symm)
  · rw [e] at h1; exact psk_ne_root_base h1.symm

/-- The bundle does not depend on the primary signing key name. -/
theorem bundle_setSigning (cfg : Cfg) (ca : CA) (k : KName) :
    bundle cfg { ca with primarySigning := k } = bundle cfg ca := by
  unfold bundle; cases cfg.ca <;> rfl

theorem InvCA_set {cfg : Cfg} {ca : CA} (h : InvCA cfg ca)
    (hb : ca.primarySigning.base = firstName.base) :
    InvCA cfg { ca with primarySigning := bump ca.primarySigning } where
  sync := h.sync
  noNoName := h.noNoName
  fam := Or.inr (by rw [bump_base]; exact hb)
  rootOrEmpty := h.rootOrEmpty
  psRoot := fun _ => by rw [bump_base]; exact hb
  good := fun n p c hn hne hp => by
    obtain ⟨g1, r, g2, g3⟩ := h.good n p c hn hne hp
    exact ⟨g1, r, by rw [bundle_setSigning]; exact g2, g3⟩
  bound := fun n hn hbase => by
    have := h.bound n hn (by rw [hbase, bump_base])
    simp only [bump_idx]; omega
  memObj := h.memObj

theorem caWrite_bundle {cfg : Cfg} {ca : CA} {kver : KName} {p : ObjKey} {c : Cert}
    (hs : cfg.ca = .memca → ∀ n q, get ca.entries n = some q → q = .byName n)
    (hp : cfg.ca = .memca → p = .byName kver) (hk : kver ≠ ca.primaryRoot) :
    bundle cfg { caWrite ca kver p c with primarySigning := kver } = bundle cfg ca := by
  unfold bundle
  cases hc : cfg.ca with
  | gcsca => rfl
  | memca =>
    simp only [caWrite, certificate]
    rw [get_put_ne _ _ _ _ (fun e => hk e.symm)]
    cases hr : get ca.entries ca.primaryRoot with
    | none => rfl
    | some q =>
      have hq := hs hc _ _ hr
      have hpp := hp hc
      subst hq; subst hpp
      have : ObjKey.byName ca.primaryRoot ≠ ObjKey.byName kver := by
        intro e; injection e with e; exact hk e.symm
      simp [get_put_ne _ _ _ _ this]

theorem InvCA_write {cfg : Cfg} {ca : CA} (h : InvCA cfg ca)
    (hb : ca.primarySigning.base = firstName.base) (hroot : ca.primaryRoot = rootName)
    {p : ObjKey} {c : Cert} (hg : Good cfg ca c) (hu : Unheld ca p (bump ca.primarySigning))
    (hp : cfg.ca = .memca → p = .byName (bump ca.primarySigning)) :
    InvCA cfg { caWrite ca (bump ca.primarySigning) p c with primarySigning := bump ca.primarySigning } := by
  have hk : bump ca.primarySigning ≠ ca.primaryRoot := by rw [hroot]; exact bump_ne_root _
  have hbun := caWrite_bundle (c := c) h.sync hp hk
  refine ⟨?_, ?_, Or.inr (by rw [bump_base]; exact hb), Or.inl hroot, fun _ => (by rw [bump_base]; exact hb), ?_, ?_, ?_⟩
  · intro hc n q hq
    simp only [caWrite, get_put] at hq
    by_cases e : n = bump ca.primarySigning
    · simp only [e, if_true, Option.some.injEq] at hq; rw [← hq, e]; exact hp hc
    · simp only [e, if_false] at hq; exact h.sync hc n q hq
  · simp only [caWrite]
    rw [get_put_ne _ _ _ _ (fun e => bump_ne_noName _ e.symm)]; exact h.noNoName
  · intro n q x hn hne hq
    have goodOld : ∀ y, Good cfg ca y → Good cfg { caWrite ca (bump ca.primarySigning) p c with primarySigning := bump ca.primarySigning } y := by
      intro y ⟨g1, r, g2, g3⟩; exact ⟨g1, r, by rw [hbun]; exact g2, g3⟩
    simp only [caWrite, get_put] at hn hq
    by_cases e : n = bump ca.primarySigning
    · simp only [e, if_true, Option.some.injEq] at hn
      rw [← hn] at hq
      simp only [if_true, Option.some.injEq] at hq
      rw [← hq]; exact goodOld c hg
    · simp only [e, if_false] at hn
      have hqp : q ≠ p := hu n q hn e
      simp only [hqp, if_false] at hq
      exact goodOld x (h.good n q x hn hne hq)
  · intro n hn' hbase
    simp only [caWrite, get_put] at hn'
    simp only [bump_idx]
    by_cases e : n = bump ca.primarySigning
    · rw [e]; simp [bump_idx]
    · simp only [e, if_false] at hn'
      have := h.bound n hn' (by rw [hbase]; rfl)
      omega
  · intro hc n hobj
    simp only [caWrite, get_put] at hobj ⊢
    by_cases e : n = bump ca.primarySigning
    · simp [e]
    · simp only [e, if_false]
      have hpp := hp hc
      have : ObjKey.byName n ≠ p := by rw [hpp]; intro e'; injection e' with e'; exact e e'
      simp only [this, if_false] at hobj
      exact h.memObj hc n hobj

theorem InvCA.primary_signProfile {cfg : Cfg} {ca : CA} (h : InvCA cfg ca) {p : Cert}
    (hp : certificate ca ca.primarySigning = some p) : SignProfile p := by
  unfold certificate at hp
  cases he : get ca.entries ca.primarySigning with
  | none => simp [he] at hp
  | some q =>
    simp only [he] at hp
    exact (h.good _ q p he h.ps_ne_root hp).1

theorem rotGuard_some {cfg : Cfg} {ca : CA} (h : rotGuard cfg ca = true) :
    (∃ r, bundle cfg ca = some r) ∧ ca.primaryRoot ≠ noName := by
  unfold rotGuard at h
  simp only [Bool.and_eq_true, decide_eq_true_eq] at h
  cases hb : bundle cfg ca with
  | none => simp [hb] at h
  | some r => exact ⟨⟨r, rfl⟩, h.2⟩

/-- The certificate a rotation makes has the signing profile and is issued by the served root. -/
theorem rotCert_good {cfg : Cfg} {s : State} (h : InvCA cfg s.ca)
    {cn : String} {n now : Nat} {c : Cert} (hc : rotCert cfg s cn n now = some c) :
    Good cfg s.ca c ∧ c.cn = cn ∧ c.subjSerial = n := by
  obtain ⟨hg, t, ht, hs⟩ := rotCert_some hc
  obtain ⟨⟨r, hr⟩, _⟩ := rotGuard_some hg
  obtain ⟨⟨t1, t2, t3, t4, t5⟩, _, t7, t8, _⟩ := signingTemplate_ok (fun p hp => h.primary_signProfile hp) ht
  rw [hr] at hs
  obtain ⟨c1, c2, c3, _, c5, c6, c7, c8, c9, c10, _, c12⟩ := signCert_some hs
  simp only at c12
  obtain ⟨k1, k2, k3⟩ := c12
  refine ⟨⟨⟨c5.trans t1, c6.trans t2, c7.trans t3, ?_, ?_⟩, r, hr, ?_, k2, k3⟩, c3.trans t7, c2.trans t8⟩
  · rw [c9, c8]; exact t4
  · rw [c1, c2]; exact t5
  · rw [c10, k1]

theorem InvKM_same_gen {cfg : Cfg} {ca : CA} {km : KM} (hca : InvCA cfg ca) (hkm : InvKM ca km) :
    InvKM ca (km.gen (bump ca.primarySigning)) where
  dfam := hkm.dfam
  onlyPrimary := fun n hn h1 h2 => by
    rw [live_gen]
    have : n ≠ bump ca.primarySigning := by
      intro e; rw [e, hca.kver_fresh] at hn; simp at hn
    simp only [this, if_false]
    exact hkm.onlyPrimary n hn h1 h2

theorem InvKM_same_destroy {cfg : Cfg} {ca : CA} {km : KM} (hca : InvCA cfg ca) (hkm : InvKM ca km) :
    InvKM ca (destroyOld (km.gen (bump ca.primarySigning)) ca.primarySigning) where
  dfam := fun n hn => by
    rcases destroyed_destroyOld hn with ⟨e, hne⟩ | hn
    · rcases hca.fam with h1 | h1
      · exact absurd h1 hne
      · rw [e]; exact ⟨h1, fun _ => Nat.le_refl _⟩
    · exact hkm.dfam n hn
  onlyPrimary := fun n hn h1 h2 => by
    cases hl : get (destroyOld (km.gen (bump ca.primarySigning)) ca.primarySigning).live n with
    | none => rfl
    | some x =>
      obtain ⟨hx, _⟩ := live_destroyOld hl
      have := (InvKM_same_gen hca hkm).onlyPrimary n hn h1 h2
      rw [this] at hx; cases hx

theorem InvKM_rotate {cfg : Cfg} {ca ca' : CA} {km : KM} (hca : InvCA cfg ca) (hkm : InvKM ca km)
    (hent : ∀ n, (get ca'.entries n).isSome = true → n = bump ca.primarySigning ∨ (get ca.entries n).isSome = true)
    (hps : ca'.primarySigning = bump ca.primarySigning) (hb : ca.primarySigning.base = firstName.base) :
    InvKM ca' (destroyOld (km.gen (bump ca.primarySigning)) ca.primarySigning) where
  dfam := fun n hn => by
    rw [hps]
    rcases destroyed_destroyOld hn with ⟨e, _⟩ | hn
    · rw [e]; exact ⟨hb, fun _ => by simp [bump_idx]⟩
    · obtain ⟨d1, d2⟩ := hkm.dfam n hn
      exact ⟨d1, fun _ => by have := d2 hb; simp only [bump_idx]; omega⟩
  onlyPrimary := fun n hn h1 h2 => by
    rw [hps] at h2
    cases hl : get (destroyOld (km.gen (bump ca.primarySigning)) ca.primarySigning).live n with
    | none => rfl
    | some x =>
      obtain ⟨hx, hcur⟩ := live_destroyOld hl
      rw [live_gen] at hx
      simp only [h2, if_false] at hx
      rcases hent n hn with e | hold
      · exact absurd e h2
      · by_cases e : n = ca.primarySigning
        · rcases hcur with hc | hc
          · rw [e, hc, hca.noNoName] at hold; simp at hold
          · exact absurd e hc
        · have := hkm.onlyPrimary n hold h1 e
          rw [this] at hx; cases hx

theorem Inv_rotateKey {cfg : Cfg} (hgd : cfg.guard = true) {s : State} (h : Inv cfg s) (f : Flags)
    (cn : String) (n now : Nat) : Inv cfg (rotateKey cfg f s cn n now).1 := by
  obtain ⟨hca, hkm⟩ := h
  rcases rotateKey_shape cfg f s cn n now with e | ⟨oc, hoc, hg, e⟩
  · rw [e]; exact ⟨hca, InvKM_same_gen hca hkm⟩
  · rw [e]
    obtain ⟨_, hpr⟩ := rotGuard_some hg
    have hroot : s.ca.primaryRoot = rootName := by
      rcases hca.rootOrEmpty with h1 | ⟨h1, _⟩
      · exact h1
      · exact absurd h1 hpr
    have hb := hca.psRoot hroot
    rcases caAfterRotate_shape (cfg := cfg) f oc hca.kver_fresh with e1 | ⟨_, e1⟩ | ⟨c, hc, ⟨e1, hun⟩ | ⟨_, _, _, hold⟩⟩
    · rw [e1]; exact ⟨hca, InvKM_same_destroy hca hkm⟩
    · rw [e1]
      exact ⟨InvCA_set hca hb, InvKM_rotate hca hkm (fun n hn => Or.inr hn) rfl hb⟩
    · rw [e1]
      obtain ⟨hgood, _, _⟩ := rotCert_good hca (hoc c hc)
      have hp : cfg.ca = .memca → defaultPath cfg (bump s.ca.primarySigning) c = .byName (bump s.ca.primarySigning) := by
        intro hm; simp [defaultPath, hm]
      have hu : Unheld s.ca (defaultPath cfg (bump s.ca.primarySigning) c) (bump s.ca.primarySigning) := by
        cases hcc : cfg.ca with
        | gcsca => exact hun hcc hgd
        | memca =>
          intro n' p' hn' hne
          rw [hp hcc, hca.sync hcc n' p' hn']
          intro e'; injection e' with e'; exact hne e'
      refine ⟨InvCA_write hca hb hroot hgood hu hp, InvKM_rotate hca hkm ?_ rfl hb⟩
      intro m hm
      simp only [caWrite, get_put] at hm
      by_cases e2 : m = bump s.ca.primarySigning
      · exact Or.inl e2
      · simp only [e2, if_false] at hm; exact Or.inr hm
    · rw [hgd] at hold; cases hold

/-! ### bootstrap of a clean store -/

def cleanRoot (a : BootArgs) (k : Nat) : Cert :=
  { certSerial := a.rootSerial, subjSerial := a.rootSerial, cn := a.rootCn, issuerCn := a.rootCn,
    issuerSerial := a.rootSerial, subjectKey := k, issuerKey := k, signerKey := k, isCA := true,
    keyUsage := 96, sigAlg := 13, notBefore := a.now, notAfter := a.now + rootLifetime }

def cleanFirst (a : BootArgs) (k : Nat) : Cert :=
  { certSerial := a.signSerial, subjSerial := a.signSerial, cn := a.signCn, issuerCn := a.rootCn,
    issuerSerial := a.rootSerial, subjectKey := k + 1, issuerKey := k, signerKey := k, isCA := false,
    keyUsage := 1, sigAlg := 13, notBefore := a.now, notAfter := a.now + signLifetime }

def cleanCA (cfg : Cfg) (a : BootArgs) (k : Nat) : CA :=
  match cfg.ca with
  | .memca => ⟨rootName, firstName, [(rootName, .byName rootName), (firstName, .byName firstName)],
      [(.byName rootName, cleanRoot a k), (.byName firstName, cleanFirst a k)], none⟩
  | .gcsca => ⟨rootName, firstName, [(rootName, .byCert a.rootCn a.rootSerial), (firstName, .byCert a.signCn a.signSerial)],
      [(.byCert a.rootCn a.rootSerial, cleanRoot a k), (.byCert a.signCn a.signSerial, cleanFirst a k)], some (cleanRoot a k)⟩

theorem bootstrap_clean (cfg : Cfg) (f : Flags) (a : BootArgs) (k : Nat)
    (hne : cfg.ca = .gcsca → ¬ (a.signCn = a.rootCn ∧ a.signSerial = a.rootSerial)) :
    bootstrap cfg f a ⟨⟨[], [], k⟩, CA.empty⟩ =
      (⟨⟨[(rootName, k), (firstName, k + 1)], [], k + 2⟩, cleanCA cfg a k⟩, true) := by
  have e1 : firstName ≠ rootName := firstName_ne_root
  have e2 : rootName ≠ firstName := fun e => e1 e.symm
  cases hc : cfg.ca with
  | memca =>
    simp [bootstrap, keyExists, KM.gen, get, put, bootCerts, rootTemplate, bundle, hc, bootView, certificate,
      CA.empty, CertCtx.rootInfo, CertCtx.signInfo, signCert, Tmpl.google, bootPutRoot, memPut, signingTemplate, bootCommit,
      e1, cleanCA, cleanRoot, cleanFirst]
    exact ⟨⟨fun h => absurd h (by decide), rfl, rfl, rfl, rfl⟩, fun h => absurd h (by decide), rfl, rfl, rfl, rfl⟩
  | gcsca =>
    have hne1 := hne hc
    have hne2 : ¬ (a.rootCn = a.signCn ∧ a.rootSerial = a.signSerial) := fun h => hne1 ⟨h.1.symm, h.2.symm⟩
    simp [bootstrap, keyExists, KM.gen, get, put, bootCerts, rootTemplate, bundle, hc, bootView, certificate,
      CA.empty, CertCtx.rootInfo, CertCtx.signInfo, signCert, Tmpl.google, bootPutRoot, signingTemplate, bootCommit,
      gcsFinalize, uploadAll, upload, heldByOther, writeIfAllowed, writeRoot, certPath, noName,
      e1, hne1, hne2, cleanCA, cleanRoot, cleanFirst]
    exact ⟨⟨⟨fun h => absurd h (by decide), rfl, rfl, rfl, rfl⟩, fun h => absurd h (by decide), rfl, rfl, rfl, rfl⟩,
      fun h => absurd h (by decide), rfl, rfl, rfl, rfl⟩

theorem get2 {κ α : Type} [DecidableEq κ] (k1 k2 k : κ) (v1 v2 : α) :
    get [(k1, v1), (k2, v2)] k = if k = k1 then some v1 else if k = k2 then some v2 else none := rfl

theorem cleanCA_bundle (cfg : Cfg) (a : BootArgs) (k : Nat) : bundle cfg (cleanCA cfg a k) = some (cleanRoot a k) := by
  unfold bundle cleanCA
  cases cfg.ca with
  | memca => simp [certificate, get2]
  | gcsca => rfl

theorem cleanFirst_good (cfg : Cfg) (a : BootArgs) (k : Nat) : Good cfg (cleanCA cfg a k) (cleanFirst a k) :=
  ⟨⟨rfl, rfl, rfl, rfl, rfl⟩, cleanRoot a k, cleanCA_bundle cfg a k, rfl, rfl, rfl⟩

theorem Inv_clean (cfg : Cfg) (a : BootArgs) (k : Nat)
    (hne : cfg.ca = .gcsca → ¬ (a.signCn = a.rootCn ∧ a.signSerial = a.rootSerial)) :
    Inv cfg ⟨⟨[(rootName, k), (firstName, k + 1)], [], k + 2⟩, cleanCA cfg a k⟩ := by
  have e1 : firstName ≠ rootName := firstName_ne_root
  have e3 : noName ≠ rootName := fun e => rootName_ne_noName e.symm
  have e4 : noName ≠ firstName := fun e => firstName_ne_noName e.symm
  have hgood := cleanFirst_good cfg a k
  constructor
  · cases hc : cfg.ca with
    | memca =>
      have hca : cleanCA cfg a k = ⟨rootName, firstName, [(rootName, .byName rootName), (firstName, .byName firstName)],
        [(.byName rootName, cleanRoot a k), (.byName firstName, cleanFirst a k)], none⟩ := by simp [cleanCA, hc]
      rw [hca] at hgood ⊢
      refine ⟨?_, ?_, Or.inr rfl, Or.inl rfl, fun _ => rfl, ?_, ?_, ?_⟩
      · intro _ n p hp
        simp only [get2] at hp
        by_cases c1 : n = rootName
        · simp only [c1, if_true, Option.some.injEq] at hp; rw [← hp, c1]
        · by_cases c2 : n = firstName
          · simp only [c2, if_true, if_false, e1, Option.some.injEq] at hp; rw [← hp, c2]
          · simp [c1, c2] at hp
      · simp [get2, e3, e4]
      · intro n p c hn hne' hp
        simp only [get2, hne', if_false] at hn
        by_cases c2 : n = firstName
        · simp only [c2, if_true, Option.some.injEq] at hn
          rw [← hn] at hp
          have d : ObjKey.byName firstName ≠ ObjKey.byName rootName := by intro e; injection e with e; exact e1 e
          simp only [get2, d, if_false, if_true, Option.some.injEq] at hp
          rw [← hp]; exact hgood
        · simp [c2] at hn
      · intro n hn hb
        simp only [get2] at hn
        by_cases c1 : n = rootName
        · rw [c1] at hb; exact absurd hb.symm psk_ne_root_base
        · by_cases c2 : n = firstName
          · rw [c2]; exact Nat.le_refl _
          · simp [c1, c2] at hn
      · intro _ n hn
        simp only [get2] at hn ⊢
        by_cases c1 : n = rootName
        · simp [c1]
        · by_cases c2 : n = firstName
          · simp [c2, e1]
          · have d1 : ObjKey.byName n ≠ ObjKey.byName rootName := by intro e; injection e with e; exact c1 e
            have d2 : ObjKey.byName n ≠ ObjKey.byName firstName := by intro e; injection e with e; exact c2 e
            simp [d1, d2] at hn
    | gcsca =>
      have hca : cleanCA cfg a k = ⟨rootName, firstName, [(rootName, .byCert a.rootCn a.rootSerial), (firstName, .byCert a.signCn a.signSerial)],
        [(.byCert a.rootCn a.rootSerial, cleanRoot a k), (.byCert a.signCn a.signSerial, cleanFirst a k)], some (cleanRoot a k)⟩ := by
        simp [cleanCA, hc]
      rw [hca] at hgood ⊢
      have hne1 := hne hc
      refine ⟨fun e => (by rw [hc] at e; cases e), ?_, Or.inr rfl, Or.inl rfl, fun _ => rfl, ?_, ?_, fun e => (by rw [hc] at e; cases e)⟩
      · simp [get2, e3, e4]
      · intro n p c hn hne' hp
        simp only [get2, hne', if_false] at hn
        by_cases c2 : n = firstName
        · simp only [c2, if_true, Option.some.injEq] at hn
          rw [← hn] at hp
          have d : ObjKey.byCert a.signCn a.signSerial ≠ ObjKey.byCert a.rootCn a.rootSerial := by
            intro e; injection e with e1' e2'; exact hne1 ⟨e1', e2'⟩
          simp only [get2, d, if_false, if_true, Option.some.injEq] at hp
          rw [← hp]; exact hgood
        · simp [c2] at hn
      · intro n hn hb
        simp only [get2] at hn
        by_cases c1 : n = rootName
        · rw [c1] at hb; exact absurd hb.symm psk_ne_root_base
        · by_cases c2 : n = firstName
          · rw [c2]; exact Nat.le_refl _
          · simp [c1, c2] at hn
  · have hent : ∀ n, (get (cleanCA cfg a k).entries n).isSome = true → n = rootName ∨ n = firstName := by
      intro n hn
      unfold cleanCA at hn
      by_cases c1 : n = rootName
      · exact Or.inl c1
      · by_cases c2 : n = firstName
        · exact Or.inr c2
        · cases hc : cfg.ca <;> simp [hc, get2, c1, c2] at hn
    have hps : (cleanCA cfg a k).primarySigning = firstName := by unfold cleanCA; cases cfg.ca <;> rfl
    refine ⟨fun n hn => by simp at hn, ?_⟩
    intro n hn c1 c2
    rw [hps] at c2
    rcases hent n hn with e | e
    · exact absurd e c1
    · exact absurd e c2

/-- A bootstrap of a clean store whose two certificates would share one object (same common name and
    serial for root and first signing key; gcsca): the repaired upload refuses the second one, Finalize
    aborts, the root certificate object stays behind unrecorded and no manifest is written. -/
def collideCA (a : BootArgs) (k : Nat) : CA :=
  { CA.empty with objects := [(.byCert a.rootCn a.rootSerial, cleanRoot a k)] }

theorem bootstrap_clean_collide (cfg : Cfg) (f : Flags) (a : BootArgs) (k : Nat) (hc : cfg.ca = .gcsca)
    (hg : cfg.guard = true) (hsame : a.signCn = a.rootCn ∧ a.signSerial = a.rootSerial) :
    bootstrap cfg f a ⟨⟨[], [], k⟩, CA.empty⟩ =
      (⟨⟨[(rootName, k), (firstName, k + 1)], [], k + 2⟩, collideCA a k⟩, false) := by
  have e1 : firstName ≠ rootName := firstName_ne_root
  have e2 : rootName ≠ firstName := fun e => e1 e.symm
  obtain ⟨h1, h2⟩ := hsame
  simp [bootstrap, keyExists, KM.gen, get, put, bootCerts, rootTemplate, bundle, hc, hg, bootView, certificate,
    CA.empty, CertCtx.rootInfo, CertCtx.signInfo, signCert, Tmpl.google, bootPutRoot, signingTemplate, bootCommit,
    gcsFinalize, uploadAll, upload, heldByOther, writeIfAllowed, certPath, noName, abortTo,
    e1, e2, h1, h2, collideCA, cleanRoot]
  exact ⟨fun h => absurd h (by decide), rfl, rfl, rfl, rfl⟩

theorem Inv_collide (cfg : Cfg) (a : BootArgs) (k : Nat) (hc : cfg.ca = .gcsca) :
    Inv cfg ⟨⟨[(rootName, k), (firstName, k + 1)], [], k + 2⟩, collideCA a k⟩ := by
  refine ⟨⟨fun e => (by rw [hc] at e; cases e), rfl, Or.inl rfl, Or.inr ⟨rfl, rfl⟩,
    fun h => absurd h (fun e => rootName_ne_noName e.symm), ?_, ?_, fun e => (by rw [hc] at e; cases e)⟩, ?_, ?_⟩
  · intro n p c hn; simp [collideCA, CA.empty, get] at hn
  · intro n hn; simp [collideCA, CA.empty, get] at hn
  · intro n hn; simp at hn
  · intro n hn; simp [collideCA, CA.empty, get] at hn

/-! ### every command preserves the invariant (bootstrap only on a clean store) -/

theorem InvCA_empty (cfg : Cfg) : InvCA cfg CA.empty where
  sync := fun _ n p h => by simp [CA.empty, get] at h
  noNoName := rfl
  fam := Or.inl rfl
  rootOrEmpty := Or.inr ⟨rfl, rfl⟩
  psRoot := fun h => absurd h (fun e => rootName_ne_noName e.symm)
  good := fun n p c h => by simp [CA.empty, get] at h
  bound := fun n h => by simp [CA.empty, get] at h
  memObj := fun _ n h => by simp [CA.empty, get] at h

theorem Inv_init (cfg : Cfg) : Inv cfg State.init :=
  ⟨InvCA_empty cfg, ⟨fun n h => by simp [State.init] at h, fun n h => by simp [State.init, CA.empty, get] at h⟩⟩

theorem Inv_wipeout {cfg : Cfg} {s : State} (h : Inv cfg s) (c k : Bool) :
    Inv cfg (wipeout s c k) := by
  obtain ⟨hca, hkm⟩ := h
  unfold wipeout
  cases c with
  | true =>
    refine ⟨InvCA_empty cfg, ⟨?_, fun n h => by simp [CA.empty, get] at h⟩⟩
    intro n hn
    have hb : n.base = firstName.base := by
      cases k with
      | true => simp [KM.wipe] at hn
      | false => exact (hkm.dfam n hn).1
    exact ⟨hb, fun e => absurd e (fun e => psk_ne_empty_base e.symm)⟩
  | false =>
    cases k with
    | true => exact ⟨hca, ⟨fun n hn => by simp [KM.wipe] at hn, fun n _ _ _ => rfl⟩⟩
    | false => exact ⟨hca, hkm⟩

theorem Clean.eq {s : State} (h : Clean s) : s = ⟨⟨[], [], s.km.next⟩, CA.empty⟩ := by
  obtain ⟨h1, h2, h3⟩ := h
  cases s with
  | mk km ca =>
    cases km with
    | mk live destroyed next =>
      simp only at h1 h2 h3
      subst h1; subst h2; subst h3; rfl

theorem Inv_step {cfg : Cfg} (hg : cfg.guard = true) {s : State} (h : Inv cfg s) (c : Cmd)
    (hclean : isBootstrap c = true → Clean s) : Inv cfg (step cfg s c).1 := by
  cases c with
  | bootstrap f a =>
    have hs := (hclean rfl).eq
    rw [hs]
    simp only [step]
    by_cases hsame : cfg.ca = .gcsca ∧ a.signCn = a.rootCn ∧ a.signSerial = a.rootSerial
    · rw [bootstrap_clean_collide cfg f a _ hsame.1 hg hsame.2]
      exact Inv_collide cfg a _ hsame.1
    · have hne : cfg.ca = .gcsca → ¬ (a.signCn = a.rootCn ∧ a.signSerial = a.rootSerial) :=
        fun hc hh => hsame ⟨hc, hh⟩
      rw [bootstrap_clean cfg f a _ hne]
      exact Inv_clean cfg a _ hne
  | rotate f a =>
    simp only [step]
    by_cases hb : cliBlocked cfg s.ca = true
    · simp only [hb, if_true]; exact h
    · simp only [hb]
      cases hrs : resolveSerial s.ca a.serial with
      | none => exact h
      | some n => exact Inv_rotateKey hg h f a.cn n a.now
  | wipeout f c k =>
    simp only [step]
    by_cases hb : cliBlocked cfg s.ca = true
    · simp only [hb, if_true]; exact h
    · simp only [hb]; exact Inv_wipeout h c k

theorem Inv_run (cfg : Cfg) (hg : cfg.guard = true) (h : List Cmd) :
    ∀ s : State, Inv cfg s → CleanRun cfg s h → Inv cfg (run cfg s h) := by
  induction h with
  | nil => intro s hs _; exact hs
  | cons c t ih =>
    intro s hs hc
    exact ih _ (Inv_step hg hs c hc.1) hc.2

end GceTcb.KeyHistory
