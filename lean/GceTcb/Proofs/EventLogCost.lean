import GceTcb.Model.EventLogCost
import GceTcb.Proofs.EventLog
/-
C07 (event-log half) — lemmas: the checked, cost-instrumented model refines the C18 model of the
repaired readers (hence never panics), and its allocation + ticks are linear in the input.
-/
namespace GceTcb.EvlCost
open GceTcb GceTcb.Codec GceTcb.Codecs GceTcb.EventLog

/-! ## steps -/

variable {α β : Type}

theorem andThen_res (s : Step α) (f : α → Bytes → Step β) :
    (s.andThen f).res = match s.res with
      | .ok a r => (f a r).res | .eof => .eof | .fail => .fail | .panic p => .panic p := by
  unfold Step.andThen; cases s.res <;> rfl

theorem lift_ne_panic (r : Res α) (p : String) : lift r ≠ .panic p := by cases r <;> simp [lift]

/-- simulation of a sequencing step -/
theorem sim_andThen {s : Step α} {r : Res α} {f : α → Bytes → Step β} {g : α → Bytes → Res β}
    (hs : s.res = lift r) (hf : ∀ a rest, r = .ok a rest → (f a rest).res = lift (g a rest)) :
    (s.andThen f).res = lift (r.andThen g) := by
  rw [andThen_res, hs]
  cases r with
  | ok a rest => simp only [lift, Res.andThen]; exact hf a rest rfl
  | eof => rfl
  | fail => rfl

theorem sim_map {s : Step α} {r : Res α} (f : α → β) (hs : s.res = lift r) : (s.map f).res = lift (r.map f) := by
  unfold Step.map; rw [hs]; cases r <;> rfl

theorem sim_noEof {s : Step α} {r : Res α} (hs : s.res = lift r) : s.noEof.res = lift r.noEof := by
  unfold Step.noEof; rw [hs]; cases r <;> simp [lift, Res.noEof, hs]

@[simp] theorem charge_res (a t : Nat) (s : Step α) : (s.charge a t).res = s.res := rfl
@[simp] theorem charge_alloc (a t : Nat) (s : Step α) : (s.charge a t).alloc = s.alloc + a := rfl
@[simp] theorem charge_ticks (a t : Nat) (s : Step α) : (s.charge a t).ticks = s.ticks + t := rfl

/-! ## readExact -/

theorem nextLen_le (size len : Nat) : nextLen size len ≤ 2 * len ∧ nextLen size len ≤ max size (2 * len) := by
  unfold nextLen; split <;> omega

theorem nextLen_lt {size len : Nat} (h1 : 1 ≤ len) (h2 : len < size) :
    len < nextLen size len ∧ nextLen size len ≤ size ∧ nextLen size len ≤ 2 * len ∧
    (nextLen size len = size ∨ nextLen size len = 2 * len) := by
  unfold nextLen; split <;> omega

/-- The loop of readExact under its invariant (`1 ≤ len ≤ size`, `read ≤ len`): it never panics, reads
    everything iff `size ≤ avail`, and the memory it allocates AFTER the current buffer is at most
    `3·size − 2·len`, at most `4·avail − 2·len` when the current buffer can be filled, and nothing when it
    cannot. -/
theorem exactLoop_spec (size avail : Nat) (hsz : size < 2 ^ 63) :
    ∀ fuel read len, 1 ≤ len → len ≤ size → read ≤ len → size - len < fuel →
      (exactLoop size avail fuel read len).out = (if size ≤ avail then .full else .short avail) ∧
      (exactLoop size avail fuel read len).alloc + 2 * len ≤ 3 * size ∧
      (len ≤ avail → (exactLoop size avail fuel read len).alloc + 2 * len ≤ 4 * avail) ∧
      (avail < len → (exactLoop size avail fuel read len).alloc = 0) ∧
      (len = size → (exactLoop size avail fuel read len).alloc = 0) ∧
      (exactLoop size avail fuel read len).ticks ≤ 1 + (exactLoop size avail fuel read len).alloc := by
  intro fuel
  induction fuel with
  | zero => intro read len _ _ _ h; omega
  | succ f ih =>
    intro read len h1 h2 h3 h4
    unfold exactLoop
    have c1 : ¬ len < read := by omega
    by_cases c2 : avail < len
    · have hn : ¬ size ≤ avail := by omega
      simp only [c1, c2, hn, if_true, if_false]
      refine ⟨trivial, ?_, ?_, ?_, ?_, ?_⟩
      · omega
      · intro h; omega
      · intro _; trivial
      · intro _; trivial
      · omega
    · by_cases c3 : len = size
      · subst c3
        have hn : len ≤ avail := by omega
        simp only [c1, c2, hn, ↓reduceIte]
        refine ⟨trivial, ?_, ?_, ?_, ?_, ?_⟩
        · omega
        · intro h; omega
        · intro _; trivial
        · intro _; trivial
        · omega
      · have hlt : len < size := by omega
        obtain ⟨n1, n2, n3, n4⟩ := nextLen_lt h1 hlt
        have c4 : nextLen size len < 2 ^ 63 := by omega
        simp only [c1, c2, c3, c4, not_true_eq_false, if_false]
        obtain ⟨i1, i2, i3, i4, i6, i5⟩ := ih len (nextLen size len) (by omega) n2 (by omega) (by omega)
        generalize (exactLoop size avail f len (nextLen size len)).alloc = A at *
        generalize (exactLoop size avail f len (nextLen size len)).ticks = T at *
        generalize nextLen size len = N at *
        have c2' : len ≤ avail := by omega
        refine ⟨i1, ?_, ?_, ?_, ?_, ?_⟩
        · rcases n4 with e | e
          · have hA := i6 e; omega
          · omega
        · intro _
          by_cases c5 : N ≤ avail
          · have h3 := i3 c5
            rcases n4 with e | e
            · have hA := i6 e; omega
            · omega
          · have hA := i4 (by omega)
            omega
        · intro h; exact h.elim
        · intro h; exact h.elim
        · omega

/-- values and cost of readExact for a declared size that fits an int -/
theorem xReadExact_spec (k : RKind) (zf : Bool) (size : Nat) (rest : Bytes) (hsz : size < 2 ^ 63) :
    (xReadExact size rest).res = lift (readBody ⟨true, k⟩ zf size rest) ∧
    (xReadExact size rest).alloc ≤ 3 * size ∧
    (xReadExact size rest).alloc ≤ 4 * rest.length + maxPrealloc ∧
    (xReadExact size rest).ticks ≤ 1 + (xReadExact size rest).alloc := by
  unfold xReadExact
  by_cases h0 : size = 0
  · subst h0
    simp [readBody, Step.pure, lift]
  · have hm : min size maxPrealloc < 2 ^ 63 := by
      have : min size maxPrealloc ≤ size := Nat.min_le_left _ _
      omega
    have hm1 : 1 ≤ min size maxPrealloc := by
      have : 1 ≤ maxPrealloc := by decide
      omega
    simp only [h0, if_false, hm, not_true_eq_false]
    obtain ⟨s1, s2, s3, s4, _, s5⟩ := exactLoop_spec size rest.length hsz (size + 1) 0 (min size maxPrealloc)
      hm1 (Nat.min_le_left _ _) (by omega) (by omega)
    have hP : min size maxPrealloc ≤ maxPrealloc := Nat.min_le_right _ _
    rw [s1]
    by_cases hf : size ≤ rest.length
    · simp only [hf, if_true]
      refine ⟨?_, by omega, ?_, by omega⟩
      · simp [readBody, readFull, h0, hf, lift]
      · by_cases c : min size maxPrealloc ≤ rest.length
        · have := s3 c; omega
        · have := s4 (by omega); omega
    · simp only [hf, if_false]
      refine ⟨?_, by omega, ?_, by omega⟩
      · by_cases he : rest.length = 0
        · have : rest = [] := List.eq_nil_of_length_eq_zero he
          subst this
          simp [readBody, readFull, h0, lift]
        · have hne : rest ≠ [] := by intro h; subst h; simp at he
          simp [readBody, readFull, h0, hf, he, lift, hne]
      · by_cases c : min size maxPrealloc ≤ rest.length
        · have := s3 c; omega
        · have := s4 (by omega); omega

/-! ## refinement: the checked model computes the results of the C18 model (repaired code) -/

theorem readLE_lt {n v : Nat} {b rest : Bytes} (h : readLE n b = .ok v rest) : v < 256 ^ n := by
  obtain ⟨hb, hv⟩ := readLE_ok_inv h
  exact hv

theorem xReadLE_sim (n : Nat) (b : Bytes) : (xReadLE n b).res = lift (readLE n b) := rfl
theorem xReadFull_sim (a n : Nat) (b : Bytes) : (xReadFull a n b).res = lift (readFull n b) := rfl

theorem xReadSizedArray_sim (k : RKind) (w : Nat) (hw : w ≤ 4) (b : Bytes) :
    (xReadSizedArray w b).res = lift (readSizedArray ⟨true, k⟩ w b) := by
  unfold xReadSizedArray readSizedArray
  refine sim_andThen (xReadLE_sim w b) ?_
  intro size rest h
  have h1 := readLE_lt h
  have h2 : 256 ^ w ≤ 256 ^ 4 := Nat.pow_le_pow_right (by decide) hw
  have h3 : (256 : Nat) ^ 4 < 2 ^ 63 := by decide
  exact (xReadExact_spec k true size rest (by omega)).1

theorem xReadCStr_sim (k : RKind) (b : Bytes) : (xReadCStr b).res = lift (readCStr ⟨true, k⟩ b) := by
  unfold xReadCStr readCStr
  refine sim_andThen (xReadSizedArray_sim k 1 (by decide) b) ?_
  intro data rest _
  cases data with
  | nil => simp [Step.failed, lift]
  | cons x xs =>
    have hl : (x :: xs).length - 1 < (x :: xs).length := by simp
    have hidx : (x :: xs)[(x :: xs).length - 1]? = (x :: xs).getLast? := by
      rw [List.getLast?_eq_getElem?]
    have hne : ¬ (x :: xs).length = 0 := by simp
    simp only [hne, if_false]
    rw [andThen_res]
    unfold xIndex
    rw [hidx]
    cases hg : (x :: xs).getLast? with
    | none => simp [List.getLast?_eq_none_iff] at hg
    | some l =>
      simp only [Step.pure]
      by_cases hz : l = 0
      · subst hz
        have : ¬ ((0 : UInt8) != 0) = true := by decide
        simp only [this, if_false, charge_res]
        unfold xSlice
        have hc : 0 ≤ (x :: xs).length - 1 ∧ (x :: xs).length - 1 ≤ (x :: xs).length := ⟨Nat.zero_le _, Nat.sub_le _ _⟩
        simp only [hc, and_self, if_true, Step.pure]
        simp [lift, List.dropLast_eq_take]
      · have h1 : (l != 0) = true := by simpa using hz
        have h2 : ((some l : Option UInt8) != some 0) = true := by simpa using hz
        simp [h1, h2, Step.failed, lift]

theorem xReadGuid_sim (b : Bytes) : (xReadGuid b).res = lift (readGuid b) := by
  unfold xReadGuid readGuid
  exact sim_map _ (xReadFull_sim 16 16 b)

theorem tpmAlgoSize_small {alg sz : Nat} (h : tpmAlgoSize alg = some sz) : sz < 2 ^ 63 := by
  have := (tpmAlgoSize_lt h).2.2
  omega

theorem xReadDigest_sim (b : Bytes) : (xReadDigest b).res = lift (readDigest b) := by
  unfold xReadDigest readDigest
  refine sim_andThen (xReadLE_sim 2 b) ?_
  intro alg rest _
  cases ha : tpmAlgoSize alg with
  | none => rfl
  | some sz =>
    simp only
    rw [andThen_res]
    unfold xMake
    simp only [tpmAlgoSize_small ha, if_true]
    exact sim_map _ (sim_noEof (xReadFull_sim 0 sz rest))

theorem xReadDigests_sim (n : Nat) (b : Bytes) : (xReadDigests n b).res = lift (readDigests n b) := by
  induction n generalizing b with
  | zero => rfl
  | succ n ih =>
    unfold xReadDigests readDigests
    refine sim_andThen ?_ ?_
    · rw [charge_res]; exact sim_noEof (xReadDigest_sim b)
    · intro d rest _
      exact sim_map _ (ih rest)

theorem xReadDigestArray_sim (rt : Runtime) (b : Bytes) : (xReadDigestArray rt b).res = lift (readDigestArray b) := by
  unfold xReadDigestArray readDigestArray
  refine sim_andThen (sim_noEof (xReadLE_sim 4 b)) ?_
  intro n rest _
  rw [charge_res, xReadDigests_sim]
  by_cases h : n = 0
  · subst h; rfl
  · simp [h]

theorem xReadEvent3Fields_sim (k : RKind) (b : Bytes) :
    (xReadEvent3Fields b).res = lift (readEvent3Fields ⟨true, k⟩ b) := by
  unfold xReadEvent3Fields readEvent3Fields xReadU32Array readU32Array
  refine sim_andThen (xReadLE_sim 4 b) fun _ b _ => ?_
  refine sim_andThen (xReadGuid_sim b) fun _ b _ => ?_
  refine sim_andThen (xReadCStr_sim k b) fun _ b _ => ?_
  refine sim_andThen (xReadCStr_sim k b) fun _ b _ => ?_
  refine sim_andThen (xReadCStr_sim k b) fun _ b _ => ?_
  refine sim_andThen (xReadCStr_sim k b) fun _ b _ => ?_
  refine sim_andThen (xReadLE_sim 4 b) fun _ b _ => ?_
  refine sim_andThen (xReadCStr_sim k b) fun _ b _ => ?_
  refine sim_andThen (xReadLE_sim 4 b) fun _ b _ => ?_
  refine sim_andThen (xReadSizedArray_sim k 4 (by decide) b) fun _ b _ => ?_
  refine sim_andThen (xReadLE_sim 4 b) fun _ b _ => ?_
  refine sim_andThen (xReadSizedArray_sim k 4 (by decide) b) fun _ b _ => ?_
  rfl

theorem xUnmarshalEvent3_sim (rt : Runtime) (data : Bytes) :
    (xUnmarshalEvent3 rt data).res = lift (unmarshalEvent3 true data) := by
  unfold xUnmarshalEvent3 unmarshalEvent3
  refine sim_andThen ?_ ?_
  · rw [charge_res]; exact xReadEvent3Fields_sim .buffer data
  · intro e rest _
    by_cases h : allZero rest <;> simp [h, lift]

theorem xReadEventData_sim (rt : Runtime) (k : RKind) (b : Bytes) :
    (xReadEventData rt b).res = lift (readEventData ⟨true, k⟩ b) := by
  unfold xReadEventData readEventData
  refine sim_andThen (xReadLE_sim 4 b) ?_
  intro size rest h
  have h1 := readLE_lt h
  have h3 : (256 : Nat) ^ 4 < 2 ^ 63 := by decide
  refine sim_andThen (xReadExact_spec k false size rest (by omega)).1 ?_
  intro chunk rest' hb
  obtain ⟨_, hlen⟩ := readBody_ok_inv (Or.inl rfl) hb
  by_cases h16 : size ≥ 16
  · simp only [h16, if_true, decide_true, Bool.true_and]
    rw [andThen_res]
    unfold xSlice
    have hc : 0 ≤ 16 ∧ 16 ≤ chunk.length := by omega
    simp only [hc, and_self, if_true, Step.pure, List.drop_zero]
    by_cases hsig : (chunk.take 16 == event3Signature) = true
    · simp only [hsig, if_true]
      rw [andThen_res]
      have hc2 : 16 ≤ chunk.length ∧ chunk.length ≤ chunk.length := ⟨by omega, Nat.le_refl _⟩
      simp only [charge_res, hc2, and_self, if_true, List.take_length]
      have hs := xUnmarshalEvent3_sim rt (chunk.drop 16)
      cases hu : unmarshalEvent3 true (chunk.drop 16) with
      | ok e r => rw [hu] at hs; simp only [lift] at hs; simp only [hs, lift]
      | eof => rw [hu] at hs; simp only [lift] at hs; simp only [hs, lift]
      | fail => rw [hu] at hs; simp only [lift] at hs; simp only [hs, lift]
    · simp only [hsig, if_false]
      simp [lift]
  · simp only [h16, if_false, decide_false, Bool.false_and]
    simp [lift]

theorem xReadPcrEvent_sim (rt : Runtime) (k : RKind) (b : Bytes) :
    (xReadPcrEvent rt b).res = lift (readPcrEvent ⟨true, k⟩ b) := by
  unfold xReadPcrEvent readPcrEvent
  refine sim_andThen (xReadLE_sim 4 b) fun _ b _ => ?_
  refine sim_andThen (xReadLE_sim 4 b) fun _ b _ => ?_
  refine sim_andThen (xReadFull_sim 0 20 b) fun _ b _ => ?_
  refine sim_andThen (xReadEventData_sim rt k b) fun _ b _ => ?_
  rfl

theorem xReadEvent2_sim (rt : Runtime) (k : RKind) (b : Bytes) :
    (xReadEvent2 rt b).res = lift (readEvent2 ⟨true, k⟩ b) := by
  unfold xReadEvent2 readEvent2
  refine sim_andThen (xReadLE_sim 4 b) fun _ b _ => ?_
  refine sim_andThen (xReadLE_sim 4 b) fun _ b _ => ?_
  refine sim_andThen (xReadDigestArray_sim rt b) fun _ b _ => ?_
  refine sim_andThen (xReadEventData_sim rt k b) fun _ b _ => ?_
  rfl

theorem xReadEvents_sim (rt : Runtime) (k : RKind) (fuel : Nat) (b : Bytes) :
    (xReadEvents rt fuel b).res = lift (readEvents ⟨true, k⟩ fuel b) := by
  induction fuel generalizing b with
  | zero => rfl
  | succ f ih =>
    unfold xReadEvents readEvents
    have hs := xReadEvent2_sim rt k b
    cases he : readEvent2 ⟨true, k⟩ b with
    | eof =>
      rw [he] at hs; simp only [lift] at hs
      simp only [hs]
      by_cases hb : b.isEmpty <;> simp [hb, lift]
    | fail => rw [he] at hs; simp only [lift] at hs; simp only [hs, lift]
    | ok e rest =>
      rw [he] at hs; simp only [lift] at hs
      simp only [hs, charge_res]
      exact sim_map _ (ih rest)

theorem xReadLog_sim (rt : Runtime) (k : RKind) (b : Bytes) : (xReadLog rt b).res = lift (readLog ⟨true, k⟩ b) := by
  unfold xReadLog readLog
  refine sim_andThen (xReadPcrEvent_sim rt k b) fun hdr rest _ => ?_
  rw [charge_res]
  exact sim_map _ (xReadEvents_sim rt k _ rest)

/-! ## locator decoding -/

theorem getElem?_some_of_lt (l : Bytes) (i : Nat) (h : i < l.length) : ∃ v, l[i]? = some v :=
  ⟨l[i], List.getElem?_eq_getElem h⟩

/-- variableLocatorDecode never panics; what it accepts has a name of at least 4 bytes -/
theorem xVariableLocatorDecode_spec (loc : Bytes) :
    (∀ p, xVariableLocatorDecode loc ≠ .panic p) ∧
    (∀ g name, xVariableLocatorDecode loc = .ok (g, name) →
      name = loc.drop 16 ∧ 4 ≤ name.length ∧ name.length % 2 = 0 ∧ g = Extract.efiSwap (loc.take 16)) := by
  unfold xVariableLocatorDecode
  by_cases h1 : loc.length ≤ 18
  · simp [h1]
  · have h2 : 16 ≤ loc.length := by omega
    simp only [h1, h2, if_false, not_true_eq_false]
    by_cases h3 : (loc.drop 16).length % 2 ≠ 0
    · rw [if_pos h3]
      exact ⟨(by intro p h; cases h), (by intro g n h; cases h)⟩
    · rw [if_neg h3]
      have hl : (loc.drop 16).length = loc.length - 16 := by simp
      obtain ⟨v1, e1⟩ := getElem?_some_of_lt (loc.drop 16) ((loc.drop 16).length - 1) (by omega)
      obtain ⟨v2, e2⟩ := getElem?_some_of_lt (loc.drop 16) ((loc.drop 16).length - 2) (by omega)
      rw [e1, e2]
      simp only
      by_cases h4 : (v1 == 0 && v2 == 0) = true
      · simp only [h4, if_true]
        refine ⟨(by intro p h; cases h), ?_⟩
        intro g name h
        injection h with h
        injection h with hg hn
        refine ⟨hn.symm, ?_, ?_, hg.symm⟩
        · rw [← hn]; omega
        · rw [← hn]; omega
      · simp only [h4]
        refine ⟨(by intro p h; cases h), ?_⟩
        intro g name h
        cases h

theorem decodeUtf16_ne_nil (name : Bytes) (h : name ≠ []) : Extract.decodeUtf16 name ≠ [] := by
  match name, h with
  | [_], _ => unfold Extract.decodeUtf16; simp
  | a :: b :: rest, _ =>
    unfold Extract.decodeUtf16
    split
    · split
      · split <;> simp
      · simp
    · simp

/-- ucs2toUTF8 panics exactly on the empty name (C16's model of the function) -/
theorem ucs2toUTF8_panic_iff (name : Bytes) : (∃ p, Extract.ucs2toUTF8 name = .panic p) ↔ name = [] := by
  unfold Extract.ucs2toUTF8
  constructor
  · intro ⟨p, h⟩
    cases hn : name with
    | nil => rfl
    | cons x xs =>
      exfalso
      have hne := decodeUtf16_ne_nil name (by rw [hn]; simp)
      cases hg : (Extract.decodeUtf16 name).getLast? with
      | none => exact hne (List.getLast?_eq_none_iff.mp hg)
      | some l =>
        rw [hg] at h
        simp only at h
        by_cases hl : (l == 0) = true
        · simp only [hl, if_true] at h
          by_cases hc : ((Extract.decodeUtf16 name).dropLast.any fun c => decide (c > 0xFFFF)) = true
          · simp [hc] at h
          · simp [hc] at h
        · simp only [hl] at h
          by_cases hc : ((Extract.decodeUtf16 name).any fun c => decide (c > 0xFFFF)) = true
          · simp [hc] at h
          · simp [hc] at h
  · intro h
    subst h
    exact ⟨_, by unfold Extract.decodeUtf16; rfl⟩

/-- the same under the inventory name of the site -/
theorem xUcs2toUTF8_panic_iff (name : Bytes) : (∃ p, xUcs2toUTF8 name = .panic p) ↔ name = [] := by
  rw [← ucs2toUTF8_panic_iff]
  unfold xUcs2toUTF8
  cases h : Extract.ucs2toUTF8 name with
  | ok v => simp
  | err c => simp
  | panic q => exact ⟨fun _ => ⟨q, rfl⟩, fun _ => ⟨_, rfl⟩⟩

theorem xUcs2toUTF8_panic_site (name : Bytes) (p : String) (h : xUcs2toUTF8 name = .panic p) :
    p = "exel.ucs2toUTF8#2:index" := by
  unfold xUcs2toUTF8 at h
  cases h' : Extract.ucs2toUTF8 name with
  | ok v => rw [h'] at h; cases h
  | err c => rw [h'] at h; cases h
  | panic q => rw [h'] at h; injection h with h; exact h.symm

theorem xLocateReq_no_panic (t : Nat) (loc : Bytes) (p : String) : xLocateReq t loc ≠ .panic p := by
  unfold xLocateReq
  split
  · intro h; cases h
  · split
    · intro h; cases h
    · split
      · obtain ⟨np, hok⟩ := xVariableLocatorDecode_spec loc
        cases hv : xVariableLocatorDecode loc with
        | panic q => exact absurd hv (np q)
        | err c => intro h; cases h
        | ok gn =>
          obtain ⟨g, name⟩ := gn
          obtain ⟨_, h4, _, _⟩ := hok g name hv
          simp only
          cases hu : xUcs2toUTF8 name with
          | ok s => intro h; cases h
          | err c => intro h; cases h
          | panic q =>
            have := (xUcs2toUTF8_panic_iff name).mp ⟨q, hu⟩
            subst this
            simp at h4
      · intro h; cases h

theorem xEfiVarContents_no_panic (c : Bytes) (p : String) : xEfiVarContents c ≠ .panic p := by
  unfold xEfiVarContents
  by_cases h : c.length < 4
  · simp [h]
  · have : 4 ≤ c.length := by omega
    simp [h, this]

theorem xFromEventLog_no_panic (rt : Runtime) (mfr b : Bytes) (p : String) : xFromEventLog rt mfr b ≠ .panic p := by
  unfold xFromEventLog
  have hs := xReadLog_sim rt .buffer b
  cases hr : readLog ⟨true, .buffer⟩ b with
  | ok l r =>
    rw [hr] at hs; simp only [lift] at hs
    simp only [hs]
    cases selectRim mfr (rimsOf l) with
    | none => intro h; cases h
    | some r => exact xLocateReq_no_panic _ _ p
  | eof => rw [hr] at hs; simp only [lift] at hs; simp only [hs]; intro h; cases h
  | fail => rw [hr] at hs; simp only [lift] at hs; simp only [hs]; intro h; cases h

/-! ## linear cost: `total = alloc + ticks` of every reader is bounded by a multiple of the bytes it consumes -/

/-- `Lin A K E m s b`: step `s` over input `b` — when it succeeds it consumed at least `m` bytes and
    cost at most `A·consumed + K`; in every case it cost at most `A·|b| + E`. -/
structure Lin (A K E m : Nat) (s : Step α) (b : Bytes) : Prop where
  ok : ∀ a rest, s.res = .ok a rest → rest.length + m ≤ b.length ∧ s.total + A * rest.length ≤ A * b.length + K
  any : s.total ≤ A * b.length + E

theorem total_andThen_ok {s : Step α} {f : α → Bytes → Step β} {a : α} {r : Bytes} (h : s.res = .ok a r) :
    (s.andThen f).total = s.total + (f a r).total := by
  unfold Step.andThen Step.total; rw [h]; simp only; omega

theorem total_andThen_not {s : Step α} {f : α → Bytes → Step β} (h : ∀ a r, s.res ≠ .ok a r) :
    (s.andThen f).total = s.total := by
  unfold Step.andThen Step.total
  cases hs : s.res with
  | ok a r => exact absurd hs (h a r)
  | eof => rfl
  | fail => rfl
  | panic p => rfl

theorem Lin.andThen {A K1 E1 m1 K2 E2 m2 E : Nat} {s : Step α} {f : α → Bytes → Step β} {b : Bytes}
    (h1 : Lin A K1 E1 m1 s b) (h2 : ∀ a rest, s.res = .ok a rest → Lin A K2 E2 m2 (f a rest) rest)
    (hE1 : E1 ≤ E) (hE2 : K1 + E2 ≤ E) : Lin A (K1 + K2) E (m1 + m2) (s.andThen f) b := by
  cases hs : s.res with
  | ok a r =>
    obtain ⟨o1, o2⟩ := h1.ok a r hs
    have ht := total_andThen_ok (f := f) hs
    constructor
    · intro a' r' h
      rw [andThen_res, hs] at h
      obtain ⟨p1, p2⟩ := (h2 a r hs).ok a' r' h
      rw [ht]
      exact ⟨by omega, by omega⟩
    · have := (h2 a r hs).any
      rw [ht]; omega
  | eof =>
    have ht := total_andThen_not (f := f) (s := s) (by intro a r h; rw [hs] at h; cases h)
    exact ⟨(by intro a' r' h; rw [andThen_res, hs] at h; cases h), (by have := h1.any; rw [ht]; omega)⟩
  | fail =>
    have ht := total_andThen_not (f := f) (s := s) (by intro a r h; rw [hs] at h; cases h)
    exact ⟨(by intro a' r' h; rw [andThen_res, hs] at h; cases h), (by have := h1.any; rw [ht]; omega)⟩
  | panic p =>
    have ht := total_andThen_not (f := f) (s := s) (by intro a r h; rw [hs] at h; cases h)
    exact ⟨(by intro a' r' h; rw [andThen_res, hs] at h; cases h), (by have := h1.any; rw [ht]; omega)⟩

theorem Lin.mono {A K E m K' E' m' : Nat} {s : Step α} {b : Bytes} (h : Lin A K E m s b)
    (hK : K ≤ K') (hE : E ≤ E') (hm : m' ≤ m) : Lin A K' E' m' s b :=
  ⟨fun a r hr => (by obtain ⟨o1, o2⟩ := h.ok a r hr; exact ⟨by omega, by omega⟩), (by have := h.any; omega)⟩

/-- a bound with slope `A` is a bound with any larger slope -/
theorem Lin.monoA {A K E m : Nat} (d : Nat) {s : Step α} {b : Bytes} (h : Lin A K E m s b) :
    Lin (A + d) K E m s b := by
  constructor
  · intro a r hr
    obtain ⟨o1, o2⟩ := h.ok a r hr
    have : d * r.length ≤ d * b.length := Nat.mul_le_mul_left d (by omega)
    rw [Nat.add_mul, Nat.add_mul]
    exact ⟨o1, by omega⟩
  · have := h.any
    rw [Nat.add_mul]; omega

theorem map_total (f : α → β) (s : Step α) : (s.map f).total = s.total := by
  unfold Step.map Step.total; cases s.res <;> rfl

theorem Lin.map {A K E m : Nat} {s : Step α} {b : Bytes} (f : α → β) (h : Lin A K E m s b) : Lin A K E m (s.map f) b := by
  constructor
  · intro a r hr
    rw [map_total]
    unfold Step.map at hr
    cases hs : s.res with
    | ok a0 r0 => rw [hs] at hr; simp only at hr; injection hr with _ e; subst e; exact h.ok a0 r0 hs
    | eof => rw [hs] at hr; cases hr
    | fail => rw [hs] at hr; cases hr
    | panic p => rw [hs] at hr; cases hr
  · rw [map_total]; exact h.any

theorem noEof_total (s : Step α) : s.noEof.total = s.total := by
  unfold Step.noEof Step.total; cases s.res <;> rfl

theorem Lin.noEof {A K E m : Nat} {s : Step α} {b : Bytes} (h : Lin A K E m s b) : Lin A K E m s.noEof b := by
  constructor
  · intro a r hr
    rw [noEof_total]
    have : s.res = .ok a r := by
      unfold Step.noEof at hr
      cases hs : s.res with
      | ok a0 r0 => rw [hs] at hr; simp only at hr; rw [hs] at hr; exact hr
      | eof => rw [hs] at hr; cases hr
      | fail => rw [hs] at hr; simp only at hr; rw [hs] at hr; cases hr
      | panic p => rw [hs] at hr; simp only at hr; rw [hs] at hr; cases hr
    exact h.ok a r this
  · rw [noEof_total]; exact h.any

theorem Lin.charge {A K E m : Nat} {s : Step α} {b : Bytes} (a t : Nat) (h : Lin A K E m s b) :
    Lin A (K + (a + t)) (E + (a + t)) m (s.charge a t) b := by
  have ht : (s.charge a t).total = s.total + (a + t) := by unfold Step.charge Step.total; simp only; omega
  constructor
  · intro x r hr
    obtain ⟨o1, o2⟩ := h.ok x r hr
    rw [ht]; exact ⟨o1, by omega⟩
  · have := h.any
    rw [ht]; omega

/-! primitives -/

theorem lift_ok_inv {r : Res α} {a : α} {rest : Bytes} (h : lift r = .ok a rest) : r = .ok a rest := by
  cases r with
  | ok a0 r0 => simp only [lift] at h; injection h with h1 h2; subst h1; subst h2; rfl
  | eof => cases h
  | fail => cases h

theorem xReadLE_lin (n : Nat) (hn : 1 ≤ n) (b : Bytes) : Lin 8 0 (n + 1) n (xReadLE n b) b := by
  constructor
  · intro v rest h
    obtain ⟨hb, _⟩ := readLE_ok_inv (lift_ok_inv h)
    have hl : b.length = n + rest.length := by rw [hb]; simp
    unfold Step.total xReadLE; simp only
    exact ⟨by omega, by omega⟩
  · unfold Step.total xReadLE; simp only; omega

theorem xReadFull_lin (a n : Nat) (hn : 1 ≤ n) (ha : a ≤ n) (b : Bytes) : Lin 8 0 (a + 1) n (xReadFull a n b) b := by
  constructor
  · intro v rest h
    obtain ⟨hb, hx⟩ := readFull_ok_inv (lift_ok_inv h)
    have hl : b.length = n + rest.length := by rw [hb]; simp [hx]
    unfold Step.total xReadFull; simp only
    exact ⟨by omega, by omega⟩
  · unfold Step.total xReadFull; simp only; omega

theorem xReadExact_lin (size : Nat) (rest : Bytes) (hsz : size < 2 ^ 63) :
    Lin 8 0 8193 size (xReadExact size rest) rest := by
  obtain ⟨s1, s2, s3, s4⟩ := xReadExact_spec .buffer false size rest hsz
  have hP : maxPrealloc = 4096 := rfl
  constructor
  · intro v r h
    rw [s1] at h
    obtain ⟨hb, hlen⟩ := readBody_ok_inv (Or.inl rfl) (lift_ok_inv h)
    have hl : rest.length = size + r.length := by rw [hb]; simp [hlen]
    unfold Step.total
    by_cases h0 : size = 0
    · subst h0
      have he : xReadExact 0 rest = Step.pure [] rest := by unfold xReadExact; simp
      rw [he]
      simp only [Step.pure]
      exact ⟨by omega, by omega⟩
    · exact ⟨by omega, by omega⟩
  · unfold Step.total; omega

theorem xReadSizedArray_lin (w : Nat) (hw1 : 1 ≤ w) (hw : w ≤ 4) (b : Bytes) :
    Lin 8 0 8193 w (xReadSizedArray w b) b := by
  unfold xReadSizedArray
  have := Lin.andThen (E := 8193) (xReadLE_lin w hw1 b)
    (fun size rest h => by
      have h1 := readLE_lt (lift_ok_inv h)
      have h2 : 256 ^ w ≤ 256 ^ 4 := Nat.pow_le_pow_right (by decide) hw
      have h3 : (256 : Nat) ^ 4 < 2 ^ 63 := by decide
      exact (xReadExact_lin size rest (by omega)).mono (Nat.le_refl _) (Nat.le_refl _) (Nat.zero_le _))
    (by omega) (by omega)
  exact this.mono (by omega) (Nat.le_refl _) (by omega)

/-! strings, GUIDs, digests -/

/-- what ByteSizedCStr.Unmarshal does with the array it has read -/
def cstrTail (data rest : Bytes) : Step Bytes :=
  if data.length = 0 then .failed
  else (xIndex data (data.length - 1) "eventlog.ByteSizedCStr.Unmarshal#1:index" rest).andThen fun last rest =>
    if last != 0 then .failed
    else ((xSlice data 0 (data.length - 1) "eventlog.ByteSizedCStr.Unmarshal#2:slice" rest).charge (data.length - 1) 0)

theorem xReadCStr_eq (b : Bytes) : xReadCStr b = (xReadSizedArray 1 b).andThen cstrTail := rfl

theorem cstrTail_cost (data rest : Bytes) :
    (cstrTail data rest).total ≤ data.length - 1 ∧ ∀ v r, (cstrTail data rest).res = .ok v r → r = rest := by
  unfold cstrTail
  by_cases h0 : data.length = 0
  · simp [h0, Step.failed, Step.total]
  · simp only [h0, if_false]
    obtain ⟨v, hv⟩ := getElem?_some_of_lt data (data.length - 1) (by omega)
    unfold xIndex
    rw [hv]
    simp only [Step.pure, Step.andThen]
    by_cases hz : (v != 0) = true
    · simp [hz, Step.failed, Step.total]
    · have hz' : (v != 0) = false := by simpa using hz
      simp only [hz', Bool.false_eq_true, if_false]
      unfold xSlice
      have hc : 0 ≤ data.length - 1 ∧ data.length - 1 ≤ data.length := ⟨Nat.zero_le _, Nat.sub_le _ _⟩
      simp only [hc, and_self, if_true, Step.pure, Step.charge, Step.total]
      refine ⟨by omega, ?_⟩
      intro v r h
      injection h with _ e
      exact e.symm

theorem xReadCStr_lin (b : Bytes) : Lin 9 0 8193 1 (xReadCStr b) b := by
  rw [xReadCStr_eq]
  have hS := xReadSizedArray_lin 1 (by decide) (by decide) b
  cases hs : (xReadSizedArray 1 b).res with
  | ok data rest =>
    obtain ⟨o1, o2⟩ := hS.ok data rest hs
    have hsim := xReadSizedArray_sim .buffer 1 (by decide) b
    rw [hs] at hsim
    have hcan := (readSizedArray_canon (cfg := ⟨true, .buffer⟩) rfl (lift_ok_inv hsim.symm)).1
    have hl : b.length = 1 + data.length + rest.length := by
      rw [hcan]; simp [encSized]; omega
    obtain ⟨c1, c2⟩ := cstrTail_cost data rest
    have ht := total_andThen_ok (f := cstrTail) hs
    constructor
    · intro v r h
      rw [andThen_res, hs] at h
      have := c2 v r h
      subst this
      rw [ht]
      exact ⟨by omega, by omega⟩
    · rw [ht]; omega
  | eof =>
    have ht := total_andThen_not (f := cstrTail) (s := xReadSizedArray 1 b) (by intro a r h; rw [hs] at h; cases h)
    exact ⟨(by intro a' r' h; rw [andThen_res, hs] at h; cases h), (by have := hS.any; rw [ht]; omega)⟩
  | fail =>
    have ht := total_andThen_not (f := cstrTail) (s := xReadSizedArray 1 b) (by intro a r h; rw [hs] at h; cases h)
    exact ⟨(by intro a' r' h; rw [andThen_res, hs] at h; cases h), (by have := hS.any; rw [ht]; omega)⟩
  | panic p =>
    have ht := total_andThen_not (f := cstrTail) (s := xReadSizedArray 1 b) (by intro a r h; rw [hs] at h; cases h)
    exact ⟨(by intro a' r' h; rw [andThen_res, hs] at h; cases h), (by have := hS.any; rw [ht]; omega)⟩

theorem xReadGuid_lin (b : Bytes) : Lin 8 0 17 16 (xReadGuid b) b := by
  unfold xReadGuid
  exact (xReadFull_lin 16 16 (by decide) (by decide) b).map _

/-- what TaggedDigest.Unmarshal does after the algorithm id -/
def digestTail (alg : Nat) (rest : Bytes) : Step Digest :=
  match tpmAlgoSize alg with
  | none => .failed
  | some sz =>
    (xMake sz "eventlog.TaggedDigest.Unmarshal#1:make" rest).andThen fun _ rest =>
      ((xReadFull 0 sz rest).noEof).map fun d => ⟨alg, d⟩

theorem xReadDigest_eq (b : Bytes) : xReadDigest b = (xReadLE 2 b).andThen digestTail := rfl

theorem tpmAlgoSize_ge {alg sz : Nat} (ha : tpmAlgoSize alg = some sz) : 20 ≤ sz := by
  unfold tpmAlgoSize at ha
  split at ha
  · injection ha with e; omega
  · split at ha
    · injection ha with e; omega
    · split at ha
      · injection ha with e; omega
      · cases ha

theorem digestTail_lin (alg : Nat) (rest : Bytes) : Lin 9 0 49 20 (digestTail alg rest) rest := by
  unfold digestTail
  cases ha : tpmAlgoSize alg with
  | none => exact ⟨(by intro a r h; cases h), (by simp [Step.failed, Step.total])⟩
  | some sz =>
    obtain ⟨_, h1, h2⟩ := tpmAlgoSize_lt ha
    have h20 := tpmAlgoSize_ge ha
    simp only
    have hm : Lin 8 sz sz 0 (xMake sz "eventlog.TaggedDigest.Unmarshal#1:make" rest) rest := by
      unfold xMake
      simp only [tpmAlgoSize_small ha, if_true]
      constructor
      · intro a r h
        injection h with _ e
        subst e
        simp only [Step.total]
        exact ⟨by omega, by omega⟩
      · simp only [Step.total]; omega
    have := Lin.andThen (E := 49) hm
      (fun _ rest' _ => ((xReadFull_lin 0 sz (by omega) (by omega) rest').noEof).map (fun d => (⟨alg, d⟩ : Digest)))
      (by omega) (by omega)
    constructor
    · intro a r h
      obtain ⟨o1, o2⟩ := this.ok a r h
      exact ⟨by omega, by omega⟩
    · have := this.any; omega

/-- a digest: at least 22 bytes consumed when it succeeds -/
theorem xReadDigest_lin (b : Bytes) : Lin 9 0 52 22 (xReadDigest b) b := by
  rw [xReadDigest_eq]
  exact (Lin.andThen (E := 52) ((xReadLE_lin 2 (by decide) b).monoA 1) (fun alg rest _ => digestTail_lin alg rest)
    (by omega) (by omega)).mono (by omega) (Nat.le_refl _) (by omega)

/-! digest arrays -/

theorem readDigest_consumes {b rest : Bytes} {d : Digest} (h : readDigest b = .ok d rest) : rest.length + 22 ≤ b.length := by
  have hs := xReadDigest_sim b
  rw [h] at hs
  exact ((xReadDigest_lin b).ok d rest hs).1

theorem digestsRead_le (n : Nat) (b : Bytes) : 22 * digestsRead n b ≤ b.length := by
  induction n generalizing b with
  | zero => simp [digestsRead]
  | succ n ih =>
    unfold digestsRead
    cases h : readDigest b with
    | ok d rest => have := readDigest_consumes h; have := ih rest; simp only; omega
    | eof => simp
    | fail => simp

theorem digestsRead_ok (n : Nat) (b rest : Bytes) (ds : List Digest) (h : readDigests n b = .ok ds rest) :
    22 * digestsRead n b + rest.length ≤ b.length := by
  induction n generalizing b ds with
  | zero => simp only [readDigests] at h; injection h with _ e; subst e; simp [digestsRead]
  | succ n ih =>
    simp only [readDigests] at h
    obtain ⟨d, r1, h1, h2⟩ := andThen_ok_inv h
    have h1' := noEof_ok_inv h1
    obtain ⟨tl, h3, _⟩ := map_ok_inv h2
    have := readDigest_consumes h1'
    have := ih r1 tl h3
    unfold digestsRead
    rw [h1']
    simp only; omega

theorem xReadDigests_lin (n : Nat) (b : Bytes) : Lin 11 0 85 0 (xReadDigests n b) b := by
  induction n generalizing b with
  | zero => exact ⟨(by intro a r h; injection h with _ e; subst e; simp [xReadDigests, Step.pure, Step.total]), (by simp [xReadDigests, Step.pure, Step.total])⟩
  | succ n ih =>
    unfold xReadDigests
    -- one element costs at most 9·consumed + 33 ≤ 11·consumed (it consumes at least 22 bytes)
    have helem : Lin 11 0 85 22 (((xReadDigest b).noEof).charge sizeofTaggedDigest 1) b := by
      have h := ((xReadDigest_lin b).noEof).charge sizeofTaggedDigest 1
      have hs : sizeofTaggedDigest = 32 := rfl
      constructor
      · intro a r hr
        obtain ⟨o1, o2⟩ := h.ok a r hr
        exact ⟨o1, by omega⟩
      · have := h.any; omega
    exact (Lin.andThen (E := 85) helem (fun d rest _ => (ih rest).map (d :: ·)) (by omega) (by omega)).mono
      (by omega) (Nat.le_refl _) (by omega)

theorem xReadDigestArray_lin (rt : Runtime) (hrt : rt.Lawful) (b : Bytes) : Lin 14 0 90 4 (xReadDigestArray rt b) b := by
  unfold xReadDigestArray
  have hL := (xReadLE_lin 4 (by decide) b).noEof
  cases hs : ((xReadLE 4 b).noEof).res with
  | ok n rest =>
    obtain ⟨o1, o2⟩ := hL.ok n rest hs
    have ht := total_andThen_ok (f := fun n rest => (xReadDigests n rest).charge (rt.appendPtr (digestsRead n rest)) 0) hs
    have hD := xReadDigests_lin n rest
    have hap := hrt.1 (digestsRead n rest)
    have hc := digestsRead_le n rest
    have htc : ((xReadDigests n rest).charge (rt.appendPtr (digestsRead n rest)) 0).total =
        (xReadDigests n rest).total + rt.appendPtr (digestsRead n rest) := by
      simp [Step.charge, Step.total]; omega
    constructor
    · intro ds r h
      rw [andThen_res, hs] at h
      simp only [charge_res] at h
      obtain ⟨p1, p2⟩ := hD.ok ds r h
      have hsim := xReadDigests_sim n rest
      rw [h] at hsim
      have hc2 := digestsRead_ok n rest r ds (lift_ok_inv hsim.symm)
      rw [ht, htc]
      exact ⟨by omega, by omega⟩
    · have := hD.any
      rw [ht, htc]; omega
  | eof =>
    have ht := total_andThen_not (f := fun n rest => (xReadDigests n rest).charge (rt.appendPtr (digestsRead n rest)) 0)
      (s := (xReadLE 4 b).noEof) (by intro a r h; rw [hs] at h; cases h)
    exact ⟨(by intro a' r' h; rw [andThen_res, hs] at h; cases h), (by have := hL.any; rw [ht]; omega)⟩
  | fail =>
    have ht := total_andThen_not (f := fun n rest => (xReadDigests n rest).charge (rt.appendPtr (digestsRead n rest)) 0)
      (s := (xReadLE 4 b).noEof) (by intro a r h; rw [hs] at h; cases h)
    exact ⟨(by intro a' r' h; rw [andThen_res, hs] at h; cases h), (by have := hL.any; rw [ht]; omega)⟩
  | panic p =>
    have ht := total_andThen_not (f := fun n rest => (xReadDigests n rest).charge (rt.appendPtr (digestsRead n rest)) 0)
      (s := (xReadLE 4 b).noEof) (by intro a r h; rw [hs] at h; cases h)
    exact ⟨(by intro a' r' h; rw [andThen_res, hs] at h; cases h), (by have := hL.any; rw [ht]; omega)⟩

/-! SP800-155 Event3 -/

theorem pure_lin (A E : Nat) (v : α) (b : Bytes) : Lin A 0 E 0 (Step.pure v b) b :=
  ⟨(by intro a r h; injection h with _ e; subst e; simp [Step.pure, Step.total]), (by simp [Step.pure, Step.total])⟩

theorem xReadEvent3Fields_lin (b : Bytes) : Lin 9 0 8193 45 (xReadEvent3Fields b) b := by
  unfold xReadEvent3Fields xReadU32Array
  have le4 : ∀ b : Bytes, Lin 9 0 5 4 (xReadLE 4 b) b := fun b => (xReadLE_lin 4 (by decide) b).monoA 1
  have arr : ∀ b : Bytes, Lin 9 0 8193 4 (xReadSizedArray 4 b) b :=
    fun b => (xReadSizedArray_lin 4 (by decide) (by decide) b).monoA 1
  have guid : ∀ b : Bytes, Lin 9 0 17 16 (xReadGuid b) b := fun b => (xReadGuid_lin b).monoA 1
  refine (Lin.andThen (E := 8193) (K2 := 0) (E2 := 8193) (m2 := 41) (E1 := 5) (le4 b) (fun _ b _ => ?_) (by omega) (by omega)).mono (by omega) (Nat.le_refl _) (by omega)
  refine (Lin.andThen (E := 8193) (K2 := 0) (E2 := 8193) (m2 := 25) (E1 := 17) (guid b) (fun _ b _ => ?_) (by omega) (by omega)).mono (by omega) (Nat.le_refl _) (by omega)
  refine (Lin.andThen (E := 8193) (K2 := 0) (E2 := 8193) (m2 := 24) (xReadCStr_lin b) (fun _ b _ => ?_) (by omega) (by omega)).mono (by omega) (Nat.le_refl _) (by omega)
  refine (Lin.andThen (E := 8193) (K2 := 0) (E2 := 8193) (m2 := 23) (xReadCStr_lin b) (fun _ b _ => ?_) (by omega) (by omega)).mono (by omega) (Nat.le_refl _) (by omega)
  refine (Lin.andThen (E := 8193) (K2 := 0) (E2 := 8193) (m2 := 22) (xReadCStr_lin b) (fun _ b _ => ?_) (by omega) (by omega)).mono (by omega) (Nat.le_refl _) (by omega)
  refine (Lin.andThen (E := 8193) (K2 := 0) (E2 := 8193) (m2 := 21) (xReadCStr_lin b) (fun _ b _ => ?_) (by omega) (by omega)).mono (by omega) (Nat.le_refl _) (by omega)
  refine (Lin.andThen (E := 8193) (K2 := 0) (E2 := 8193) (m2 := 17) (E1 := 5) (le4 b) (fun _ b _ => ?_) (by omega) (by omega)).mono (by omega) (Nat.le_refl _) (by omega)
  refine (Lin.andThen (E := 8193) (K2 := 0) (E2 := 8193) (m2 := 16) (xReadCStr_lin b) (fun _ b _ => ?_) (by omega) (by omega)).mono (by omega) (Nat.le_refl _) (by omega)
  refine (Lin.andThen (E := 8193) (K2 := 0) (E2 := 8193) (m2 := 12) (E1 := 5) (le4 b) (fun _ b _ => ?_) (by omega) (by omega)).mono (by omega) (Nat.le_refl _) (by omega)
  refine (Lin.andThen (E := 8193) (K2 := 0) (E2 := 8193) (m2 := 8) (E1 := 8193) (arr b) (fun _ b _ => ?_) (by omega) (by omega)).mono (by omega) (Nat.le_refl _) (by omega)
  refine (Lin.andThen (E := 8193) (K2 := 0) (E2 := 8193) (m2 := 4) (E1 := 5) (le4 b) (fun _ b _ => ?_) (by omega) (by omega)).mono (by omega) (Nat.le_refl _) (by omega)
  refine (Lin.andThen (E := 8193) (K2 := 0) (E2 := 8193) (m2 := 0) (E1 := 8193) (arr b) (fun _ b _ => ?_) (by omega) (by omega)).mono (by omega) (Nat.le_refl _) (by omega)
  exact pure_lin 9 8193 _ b

theorem takeWhile_length_le (p : UInt8 → Bool) (l : Bytes) : (l.takeWhile p).length ≤ l.length := by
  induction l with
  | nil => simp
  | cons x xs ih =>
    simp only [List.takeWhile_cons]
    split
    · simp only [List.length_cons]; omega
    · simp

theorem padTicks_le (rest : Bytes) : padTicks rest ≤ rest.length + 1 := by
  unfold padTicks
  have := takeWhile_length_le (fun x : UInt8 => x == 0) rest
  split <;> omega

/-- UnmarshalFromBytes: cost at most 9·|data| + 1065 when it succeeds (which needs at least 45 bytes),
    9·|data| + 8233 in every case -/
theorem xUnmarshalEvent3_cost (rt : Runtime) (hrt : rt.Lawful) (data : Bytes) :
    (xUnmarshalEvent3 rt data).total ≤ 9 * data.length + 8233 ∧
    (∀ e r, (xUnmarshalEvent3 rt data).res = .ok e r → 45 ≤ data.length ∧ (xUnmarshalEvent3 rt data).total ≤ 9 * data.length + 1065) := by
  unfold xUnmarshalEvent3
  have hF := (xReadEvent3Fields_lin data).charge sizeofBytesBuffer 0
  have hb : sizeofBytesBuffer = 40 := rfl
  cases hs : ((xReadEvent3Fields data).charge sizeofBytesBuffer 0).res with
  | ok e rest =>
    obtain ⟨o1, o2⟩ := hF.ok e rest hs
    have ht := total_andThen_ok (f := fun (e : Event3) rest =>
      (⟨if allZero rest then .ok e [] else .fail, rt.readAll rest.length, padTicks rest⟩ : Step Event3)) hs
    have hra := hrt.2 rest.length
    have hp := padTicks_le rest
    rw [ht]
    simp only [Step.total] at *
    refine ⟨by omega, ?_⟩
    intro e' r' _
    exact ⟨by omega, by omega⟩
  | eof =>
    have ht := total_andThen_not (f := fun (e : Event3) rest =>
      (⟨if allZero rest then .ok e [] else .fail, rt.readAll rest.length, padTicks rest⟩ : Step Event3))
      (s := (xReadEvent3Fields data).charge sizeofBytesBuffer 0) (by intro a r h; rw [hs] at h; cases h)
    rw [ht]
    refine ⟨by have := hF.any; omega, ?_⟩
    intro e r h; rw [andThen_res, hs] at h; cases h
  | fail =>
    have ht := total_andThen_not (f := fun (e : Event3) rest =>
      (⟨if allZero rest then .ok e [] else .fail, rt.readAll rest.length, padTicks rest⟩ : Step Event3))
      (s := (xReadEvent3Fields data).charge sizeofBytesBuffer 0) (by intro a r h; rw [hs] at h; cases h)
    rw [ht]
    refine ⟨by have := hF.any; omega, ?_⟩
    intro e r h; rw [andThen_res, hs] at h; cases h
  | panic p =>
    have ht := total_andThen_not (f := fun (e : Event3) rest =>
      (⟨if allZero rest then .ok e [] else .fail, rt.readAll rest.length, padTicks rest⟩ : Step Event3))
      (s := (xReadEvent3Fields data).charge sizeofBytesBuffer 0) (by intro a r h; rw [hs] at h; cases h)
    rw [ht]
    refine ⟨by have := hF.any; omega, ?_⟩
    intro e r h; rw [andThen_res, hs] at h; cases h

/-! event data, events, the log -/

/-- what TCGEventData.Unmarshal does with the chunk it has read -/
def edTail (rt : Runtime) (size : Nat) (chunk rest : Bytes) : Step EventData :=
  if size ≥ 16 then
    (xSlice chunk 0 16 "eventlog.TCGEventData.Unmarshal#1:slice" rest).andThen fun sig rest =>
      if sig == event3Signature then
        ((xSlice chunk 16 chunk.length "eventlog.TCGEventData.Unmarshal#4:slice" rest).charge
            (hexKeyAlloc + sizeofSP800155Event3) 0).andThen fun payload rest =>
          match (xUnmarshalEvent3 rt payload).res with
          | .ok e _ => ⟨.ok (.event3 e) rest, (xUnmarshalEvent3 rt payload).alloc, (xUnmarshalEvent3 rt payload).ticks⟩
          | .eof => ⟨.eof, (xUnmarshalEvent3 rt payload).alloc, (xUnmarshalEvent3 rt payload).ticks⟩
          | .fail => ⟨.fail, (xUnmarshalEvent3 rt payload).alloc, (xUnmarshalEvent3 rt payload).ticks⟩
          | .panic p => ⟨.panic p, (xUnmarshalEvent3 rt payload).alloc, (xUnmarshalEvent3 rt payload).ticks⟩
      else ⟨.ok (.raw chunk) rest, hexKeyAlloc + sizeofUnknownEvent, 0⟩
  else ⟨.ok (.raw chunk) rest, sizeofUnknownEvent, 0⟩

theorem xReadEventData_eq (rt : Runtime) (b : Bytes) :
    xReadEventData rt b = (xReadLE 4 b).andThen fun size rest => (xReadExact size rest).andThen (edTail rt size) := rfl

theorem edTail_cost (rt : Runtime) (hrt : rt.Lawful) (size : Nat) (chunk rest : Bytes) (hl : chunk.length = size) :
    (edTail rt size chunk rest).total ≤ 9 * size + 8473 ∧
    (∀ v r, (edTail rt size chunk rest).res = .ok v r → r = rest ∧ (edTail rt size chunk rest).total ≤ 26 * size + 131) := by
  unfold edTail
  have c1 : hexKeyAlloc = 64 := rfl
  have c2 : sizeofSP800155Event3 = 176 := rfl
  have c3 : sizeofUnknownEvent = 24 := rfl
  by_cases h16 : size ≥ 16
  · simp only [h16, if_true]
    unfold xSlice
    have hc : 0 ≤ 16 ∧ 16 ≤ chunk.length := by omega
    have hc2 : 16 ≤ chunk.length ∧ chunk.length ≤ chunk.length := ⟨by omega, Nat.le_refl _⟩
    simp only [hc, hc2, and_self, if_true, Step.pure, Step.andThen, Step.charge]
    by_cases hsig : ((chunk.take 16).drop 0 == event3Signature) = true
    · simp only [hsig, if_true]
      obtain ⟨u1, u2⟩ := xUnmarshalEvent3_cost rt hrt ((chunk.take chunk.length).drop 16)
      have hpl : ((chunk.take chunk.length).drop 16).length = size - 16 := by simp [hl]
      cases hu : (xUnmarshalEvent3 rt ((chunk.take chunk.length).drop 16)).res with
      | ok e r =>
        obtain ⟨v1, v2⟩ := u2 e r hu
        simp only [Step.total] at *
        refine ⟨by omega, ?_⟩
        intro v r' h
        injection h with _ e'
        exact ⟨e'.symm, by omega⟩
      | eof => simp only [Step.total] at *; exact ⟨by omega, (by intro v r' h; cases h)⟩
      | fail => simp only [Step.total] at *; exact ⟨by omega, (by intro v r' h; cases h)⟩
      | panic p => simp only [Step.total] at *; exact ⟨by omega, (by intro v r' h; cases h)⟩
    · have hsig' := Bool.eq_false_iff.mpr hsig
      simp only [hsig', Bool.false_eq_true, if_false]
      simp only [Step.total]
      refine ⟨by omega, ?_⟩
      intro v r' h
      injection h with _ e'
      exact ⟨e'.symm, by omega⟩
  · simp only [h16, if_false]
    simp only [Step.total]
    refine ⟨by omega, ?_⟩
    intro v r' h
    injection h with _ e'
    exact ⟨e'.symm, by omega⟩

theorem xReadEventData_lin (rt : Runtime) (hrt : rt.Lawful) (b : Bytes) : Lin 34 0 8478 4 (xReadEventData rt b) b := by
  rw [xReadEventData_eq]
  have hL := xReadLE_lin 4 (by decide) b
  have hle5 : (xReadLE 4 b).total = 5 := by simp [xReadLE, Step.total]
  have h3 : (256 : Nat) ^ 4 < 2 ^ 63 := by decide
  cases hs : (xReadLE 4 b).res with
  | ok size rest =>
    obtain ⟨o1, o2⟩ := hL.ok size rest hs
    have hsz : size < 2 ^ 63 := by have := readLE_lt (lift_ok_inv hs); omega
    have hX := xReadExact_lin size rest hsz
    have ht := total_andThen_ok (f := fun size rest => (xReadExact size rest).andThen (edTail rt size)) hs
    cases hx : (xReadExact size rest).res with
    | ok chunk rest' =>
      obtain ⟨p1, p2⟩ := hX.ok chunk rest' hx
      have hsim := (xReadExact_spec .buffer false size rest hsz).1
      rw [hx] at hsim
      obtain ⟨_, hlen⟩ := readBody_ok_inv (Or.inl rfl) (lift_ok_inv hsim.symm)
      obtain ⟨t1, t2⟩ := edTail_cost rt hrt size chunk rest' hlen
      have ht2 := total_andThen_ok (f := edTail rt size) hx
      constructor
      · intro v r h
        rw [andThen_res, hs] at h
        simp only at h
        rw [andThen_res, hx] at h
        simp only at h
        obtain ⟨e1, e2⟩ := t2 v r h
        subst e1
        rw [ht, ht2]
        exact ⟨by omega, by omega⟩
      · rw [ht, ht2]; omega
    | eof =>
      have ht2 := total_andThen_not (f := edTail rt size) (s := xReadExact size rest) (by intro a r h; rw [hx] at h; cases h)
      refine ⟨?_, by have := hX.any; rw [ht, ht2]; omega⟩
      intro v r h; rw [andThen_res, hs] at h; simp only at h; rw [andThen_res, hx] at h; cases h
    | fail =>
      have ht2 := total_andThen_not (f := edTail rt size) (s := xReadExact size rest) (by intro a r h; rw [hx] at h; cases h)
      refine ⟨?_, by have := hX.any; rw [ht, ht2]; omega⟩
      intro v r h; rw [andThen_res, hs] at h; simp only at h; rw [andThen_res, hx] at h; cases h
    | panic p =>
      have ht2 := total_andThen_not (f := edTail rt size) (s := xReadExact size rest) (by intro a r h; rw [hx] at h; cases h)
      refine ⟨?_, by have := hX.any; rw [ht, ht2]; omega⟩
      intro v r h; rw [andThen_res, hs] at h; simp only at h; rw [andThen_res, hx] at h; cases h
  | eof =>
    have ht := total_andThen_not (f := fun size rest => (xReadExact size rest).andThen (edTail rt size))
      (s := xReadLE 4 b) (by intro a r h; rw [hs] at h; cases h)
    exact ⟨(by intro a' r' h; rw [andThen_res, hs] at h; cases h), (by have := hL.any; rw [ht]; omega)⟩
  | fail =>
    have ht := total_andThen_not (f := fun size rest => (xReadExact size rest).andThen (edTail rt size))
      (s := xReadLE 4 b) (by intro a r h; rw [hs] at h; cases h)
    exact ⟨(by intro a' r' h; rw [andThen_res, hs] at h; cases h), (by have := hL.any; rw [ht]; omega)⟩
  | panic p =>
    have ht := total_andThen_not (f := fun size rest => (xReadExact size rest).andThen (edTail rt size))
      (s := xReadLE 4 b) (by intro a r h; rw [hs] at h; cases h)
    exact ⟨(by intro a' r' h; rw [andThen_res, hs] at h; cases h), (by have := hL.any; rw [ht]; omega)⟩

theorem xReadPcrEvent_lin (rt : Runtime) (hrt : rt.Lawful) (b : Bytes) : Lin 34 0 8478 32 (xReadPcrEvent rt b) b := by
  unfold xReadPcrEvent
  have le4 : ∀ b : Bytes, Lin 34 0 5 4 (xReadLE 4 b) b := fun b => (xReadLE_lin 4 (by decide) b).monoA 26
  have sha : ∀ b : Bytes, Lin 34 0 1 20 (xReadFull 0 20 b) b := fun b => (xReadFull_lin 0 20 (by decide) (by decide) b).monoA 26
  refine (Lin.andThen (E := 8478) (E1 := 5) (K2 := 0) (E2 := 8478) (m2 := 28) (le4 b) (fun _ b _ => ?_) (by omega) (by omega)).mono (by omega) (Nat.le_refl _) (by omega)
  refine (Lin.andThen (E := 8478) (E1 := 5) (K2 := 0) (E2 := 8478) (m2 := 24) (le4 b) (fun _ b _ => ?_) (by omega) (by omega)).mono (by omega) (Nat.le_refl _) (by omega)
  refine (Lin.andThen (E := 8478) (E1 := 1) (K2 := 0) (E2 := 8478) (m2 := 4) (sha b) (fun _ b _ => ?_) (by omega) (by omega)).mono (by omega) (Nat.le_refl _) (by omega)
  refine (Lin.andThen (E := 8478) (E1 := 8478) (K2 := 0) (E2 := 8478) (m2 := 0) (xReadEventData_lin rt hrt b) (fun _ b _ => ?_) (by omega) (by omega)).mono (by omega) (Nat.le_refl _) (by omega)
  exact pure_lin 34 8478 _ b

theorem xReadEvent2_lin (rt : Runtime) (hrt : rt.Lawful) (b : Bytes) : Lin 34 0 8478 16 (xReadEvent2 rt b) b := by
  unfold xReadEvent2
  have le4 : ∀ b : Bytes, Lin 34 0 5 4 (xReadLE 4 b) b := fun b => (xReadLE_lin 4 (by decide) b).monoA 26
  have dig : ∀ b : Bytes, Lin 34 0 90 4 (xReadDigestArray rt b) b := fun b => (xReadDigestArray_lin rt hrt b).monoA 20
  refine (Lin.andThen (E := 8478) (E1 := 5) (K2 := 0) (E2 := 8478) (m2 := 12) (le4 b) (fun _ b _ => ?_) (by omega) (by omega)).mono (by omega) (Nat.le_refl _) (by omega)
  refine (Lin.andThen (E := 8478) (E1 := 5) (K2 := 0) (E2 := 8478) (m2 := 8) (le4 b) (fun _ b _ => ?_) (by omega) (by omega)).mono (by omega) (Nat.le_refl _) (by omega)
  refine (Lin.andThen (E := 8478) (E1 := 90) (K2 := 0) (E2 := 8478) (m2 := 4) (dig b) (fun _ b _ => ?_) (by omega) (by omega)).mono (by omega) (Nat.le_refl _) (by omega)
  refine (Lin.andThen (E := 8478) (E1 := 8478) (K2 := 0) (E2 := 8478) (m2 := 0) (xReadEventData_lin rt hrt b) (fun _ b _ => ?_) (by omega) (by omega)).mono (by omega) (Nat.le_refl _) (by omega)
  exact pure_lin 34 8478 _ b

theorem readEvent2_consumes16 {b rest : Bytes} {e : Event2} (h : readEvent2 ⟨true, .buffer⟩ b = .ok e rest) :
    rest.length + 16 ≤ b.length := by
  have hs := xReadEvent2_sim Runtime.upper .buffer b
  rw [h] at hs
  have hl : Runtime.upper.Lawful := ⟨fun n => Nat.le_refl _, fun n => Nat.le_refl _⟩
  exact ((xReadEvent2_lin Runtime.upper hl b).ok e rest hs).1

theorem eventsRead_le (fuel : Nat) (b : Bytes) : 16 * eventsRead fuel b ≤ b.length := by
  induction fuel generalizing b with
  | zero => simp [eventsRead]
  | succ n ih =>
    unfold eventsRead
    cases h : readEvent2 ⟨true, .buffer⟩ b with
    | ok d rest => have := readEvent2_consumes16 h; have := ih rest; simp only; omega
    | eof => simp
    | fail => simp

/-- the event loop: 39·|b| + 8600 (every iteration allocates the event and its counting reader; an
    accepted event consumes at least 16 bytes) -/
theorem xReadEvents_cost (rt : Runtime) (hrt : rt.Lawful) (fuel : Nat) (b : Bytes) :
    (xReadEvents rt fuel b).total ≤ 39 * b.length + 8600 := by
  induction fuel generalizing b with
  | zero => simp [xReadEvents, Step.failed, Step.total]
  | succ f ih =>
    unfold xReadEvents
    have hE := xReadEvent2_lin rt hrt b
    have c1 : sizeofTCGPCREvent2 = 48 := rfl
    have c2 : sizeofCountingReader = 24 := rfl
    cases hs : (xReadEvent2 rt b).res with
    | ok e rest =>
      obtain ⟨o1, o2⟩ := hE.ok e rest hs
      have := ih rest
      simp only [Step.charge, map_total, Step.total] at *
      have hm : ((xReadEvents rt f rest).map (e :: ·)).alloc + ((xReadEvents rt f rest).map (e :: ·)).ticks =
          (xReadEvents rt f rest).alloc + (xReadEvents rt f rest).ticks := by
        have := map_total (e :: ·) (xReadEvents rt f rest)
        simp only [Step.total] at this
        exact this
      omega
    | eof => have := hE.any; simp only [Step.total] at *; omega
    | fail => have := hE.any; simp only [Step.total] at *; omega
    | panic p => have := hE.any; simp only [Step.total] at *; omega

/-- CryptoAgileLog.Unmarshal: allocation + ticks ≤ 43·|b| + 8600 -/
theorem xReadLog_cost (rt : Runtime) (hrt : rt.Lawful) (b : Bytes) : (xReadLog rt b).total ≤ 43 * b.length + 8600 := by
  unfold xReadLog
  have hH := xReadPcrEvent_lin rt hrt b
  cases hs : (xReadPcrEvent rt b).res with
  | ok hdr rest =>
    obtain ⟨o1, o2⟩ := hH.ok hdr rest hs
    have ht := total_andThen_ok (f := fun hdr rest =>
      ((xReadEvents rt (rest.length + 1) rest).map fun es => (⟨hdr, es⟩ : Log)).charge
        (rt.appendPtr (eventsRead (rest.length + 1) rest)) 0) hs
    have hl := xReadEvents_cost rt hrt (rest.length + 1) rest
    have hap := hrt.1 (eventsRead (rest.length + 1) rest)
    have hc := eventsRead_le (rest.length + 1) rest
    have hm := map_total (fun es => (⟨hdr, es⟩ : Log)) (xReadEvents rt (rest.length + 1) rest)
    rw [ht]
    simp only [Step.charge, Step.total] at *
    omega
  | eof =>
    have ht := total_andThen_not (f := fun hdr rest =>
      ((xReadEvents rt (rest.length + 1) rest).map fun es => (⟨hdr, es⟩ : Log)).charge
        (rt.appendPtr (eventsRead (rest.length + 1) rest)) 0) (s := xReadPcrEvent rt b) (by intro a r h; rw [hs] at h; cases h)
    have := hH.any; rw [ht]; omega
  | fail =>
    have ht := total_andThen_not (f := fun hdr rest =>
      ((xReadEvents rt (rest.length + 1) rest).map fun es => (⟨hdr, es⟩ : Log)).charge
        (rt.appendPtr (eventsRead (rest.length + 1) rest)) 0) (s := xReadPcrEvent rt b) (by intro a r h; rw [hs] at h; cases h)
    have := hH.any; rw [ht]; omega
  | panic p =>
    have ht := total_andThen_not (f := fun hdr rest =>
      ((xReadEvents rt (rest.length + 1) rest).map fun es => (⟨hdr, es⟩ : Log)).charge
        (rt.appendPtr (eventsRead (rest.length + 1) rest)) 0) (s := xReadPcrEvent rt b) (by intro a r h; rw [hs] at h; cases h)
    have := hH.any; rw [ht]; omega

end GceTcb.EvlCost
