import GceTcb.Model.Intervals
/-
C08 (TDX half) — explicit iteration bounds for the literal, wrap-faithful loops of
ovmf.unacceptedMemRanges: they hold for ALL inputs (any `Nat` fields, read as uint64), with no
sortedness, disjointness or overflow assumption.  Core-only.
-/
namespace GceTcb.Intervals

/-- 1 when the head private range is dropped by the very next iteration -/
def headPast (ps : List Gpr) (r : Gpr) : Nat :=
  match ps with
  | [] => 0
  | p :: _ => if p.len % 2 ^ 64 ≠ 0 ∧ p.end_ ≤ r.start % 2 ^ 64 then 1 else 0

theorem shrink_start (r p : Gpr) (hr : r.len % 2 ^ 64 ≠ 0) (h0 : ¬ p.len % 2 ^ 64 = 0)
    (h1 : ¬ p.end_ ≤ r.start % 2 ^ 64) (h2 : ¬ p.start % 2 ^ 64 ≥ r.end_)
    (h3 : ¬ (shrink r (intersect r p)).len = 0) :
    p.end_ ≤ (shrink r (intersect r p)).start % 2 ^ 64 := by
  simp only [shrink, intersect_end_in_body r p hr h0 h1 h2] at h3 ⊢
  have : p.end_ < 2 ^ 64 := by unfold Gpr.end_; exact Nat.mod_lt _ (by decide)
  have : r.end_ < 2 ^ 64 := by unfold Gpr.end_; exact Nat.mod_lt _ (by decide)
  omega

/-- Every iteration either drops a private range for good, or leaves the loop, or shrinks the bank —
    and a shrink that does not leave the loop is followed by a drop. -/
theorem headPast_pos (p : Gpr) (ps : List Gpr) (r : Gpr)
    (h : p.len % 2 ^ 64 ≠ 0 ∧ p.end_ ≤ r.start % 2 ^ 64) : headPast (p :: ps) r = 1 := by
  simp only [headPast]; rw [if_pos h]

theorem headPast_neg (p : Gpr) (ps : List Gpr) (r : Gpr)
    (h : ¬ (p.len % 2 ^ 64 ≠ 0 ∧ p.end_ ≤ r.start % 2 ^ 64)) : headPast (p :: ps) r = 0 := by
  simp only [headPast]; rw [if_neg h]

theorem headPast_le (ps : List Gpr) (r : Gpr) : headPast ps r ≤ 1 := by
  unfold headPast; split
  · omega
  · split <;> omega

theorem prePiece_length (r i : Gpr) : (prePiece r i).length ≤ 1 := by
  unfold prePiece; split <;> (try split) <;> simp

theorem inner_ticks (ps : List Gpr) (r : Gpr) (h : r.len % 2 ^ 64 ≠ 0) :
    (inner ps r h).ticks + 2 * (inner ps r h).rest.length + headPast ps r ≤ 2 * ps.length + 1 ∧
    (inner ps r h).out.length ≤ (inner ps r h).ticks := by
  fun_induction inner ps r h with
  | case1 r h => simp [headPast]
  | case2 r h p ps' h0 x ih =>
    have e := headPast_neg p ps' r (fun hh => hh.1 h0)
    have := headPast_le ps' r
    simp only [x, List.length_cons] at *
    omega
  | case3 r h p ps' h0 h1 x ih =>
    have e := headPast_pos p ps' r ⟨h0, h1⟩
    have := headPast_le ps' r
    simp only [x, List.length_cons] at *
    omega
  | case4 r h p ps' h0 h1 h2 =>
    have e := headPast_neg p ps' r (fun hh => h1 hh.2)
    simp only [List.length_cons, List.length_nil]
    omega
  | case5 r h p ps' h0 h1 h2 h3 =>
    have e := headPast_neg p ps' r (fun hh => h1 hh.2)
    have := prePiece_length r (intersect r p)
    simp only [List.length_cons]
    omega
  | case6 r h p ps' h0 h1 h2 h3 x ih =>
    have e := headPast_neg p ps' r (fun hh => h1 hh.2)
    have e' := headPast_pos p ps' (shrink r (intersect r p)) ⟨h0, shrink_start r p h h0 h1 h2 h3⟩
    have := prePiece_length r (intersect r p)
    simp only [x, List.length_cons, List.length_append] at *
    omega

/-- The whole loop over the banks: at most 2·(|private| + |banks|) iterations, inner and outer
    together, and at most that many output ranges. -/
theorem outer_ticks : ∀ (rs ps : List Gpr),
    (outer ps rs).ticks ≤ 2 * ps.length + 2 * rs.length ∧ (outer ps rs).out.length ≤ (outer ps rs).ticks := by
  intro rs
  induction rs with
  | nil => intro ps; simp [outer]
  | cons r rs' ih =>
    intro ps
    rw [outer]
    by_cases hz : r.len % 2 ^ 64 = 0
    · simp only [hz, dite_true, List.length_cons]
      have := ih ps; omega
    · simp only [hz, dite_false, List.length_cons, List.length_append]
      have h1 := inner_ticks ps r hz
      have h2 := ih (inner ps r hz).rest
      have : (if (inner ps r hz).ram.len ≠ 0 then [(inner ps r hz).ram] else []).length ≤ 1 := by
        split <;> simp
      omega

theorem insertByStart_length (a : Gpr) (l : List Gpr) : (insertByStart a l).length = l.length + 1 := by
  induction l with
  | nil => rfl
  | cons b t ih =>
    have e : insertByStart a (b :: t) = if startLt b a then b :: insertByStart a t else a :: b :: t := rfl
    rw [e]; split <;> simp [ih]

theorem sortByStart_length (l : List Gpr) : (sortByStart l).length = l.length := by
  induction l with
  | nil => rfl
  | cons a t ih => simp [sortByStart, insertByStart_length, ih]

/-- ovmf.unacceptedMemRanges on arbitrary inputs: iterations and output size are linear in the two
    list lengths. -/
theorem unaccepted_bounds (ps rs : List Gpr) :
    unacceptedTicks ps rs ≤ 2 * ps.length + 2 * rs.length ∧
    (unacceptedMemRanges ps rs).length ≤ 2 * ps.length + 2 * rs.length := by
  have := outer_ticks (sortByStart rs) (sortByStart ps)
  simp only [sortByStart_length] at this
  unfold unacceptedTicks unacceptedMemRanges unacceptedCore
  omega

end GceTcb.Intervals
