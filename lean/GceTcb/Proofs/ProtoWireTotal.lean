import GceTcb.Proofs.ProtoWire
/-
Progress and fuel: every reader of the wire codec consumes at least one byte per iteration, so the
fuel `number of bytes` given to the two loops (`parseFields`, `skipGroups`) is never exhausted — `none`
always means "malformed input", never "ran out of fuel" — and the number of iterations is bounded by
the input length.  Core-only.
-/
namespace GceTcb.ProtoWire
open GceTcb

theorem consumeTag_lt (b : Bytes) (n t : Nat) (r : Bytes) (h : consumeTag b = some (n, t, r)) :
    r.length < b.length := by
  unfold consumeTag at h
  cases hd : decodeVarint b with
  | none => rw [hd] at h; cases h
  | some q =>
    obtain ⟨v, r1⟩ := q
    rw [hd] at h
    simp only at h
    split at h
    · cases h
    · simp only [Option.some.injEq, Prod.mk.injEq] at h
      have := decodeVarint_lt b v r1 hd
      rw [← h.2.2]; exact this

theorem skipGroups_le (n : Nat) : ∀ (st : List Nat) (b r : Bytes), skipGroups n st b = some r →
    r.length ≤ b.length := by
  induction n with
  | zero =>
    intro st b r h
    cases st with
    | nil => simp only [skipGroups, Option.some.injEq] at h; rw [h]; exact Nat.le_refl _
    | cons g gs => simp [skipGroups] at h
  | succ n ih =>
    intro st b r h
    cases st with
    | nil => simp only [skipGroups, Option.some.injEq] at h; rw [h]; exact Nat.le_refl _
    | cons g gs =>
      rw [skipGroups] at h
      cases hc : consumeTag b with
      | none => rw [hc] at h; cases h
      | some q =>
        obtain ⟨num2, typ2, b1⟩ := q
        rw [hc] at h
        have hlt := consumeTag_lt b num2 typ2 b1 hc
        simp only at h
        split at h
        · cases hd : decodeVarint b1 with
          | none => rw [hd] at h; cases h
          | some q2 =>
            obtain ⟨v, r2⟩ := q2
            rw [hd] at h
            have := decodeVarint_lt b1 v r2 hd
            have := ih _ _ _ h
            omega
        · split at h
          · cases h
          · have := ih _ _ _ h
            simp at this; omega
        · cases hd : decodeLen b1 with
          | none => rw [hd] at h; cases h
          | some q2 =>
            obtain ⟨p, r2⟩ := q2
            rw [hd] at h
            have := decodeLen_lt b1 p r2 hd
            have := ih _ _ _ h
            omega
        · split at h
          · cases h
          · have := ih _ _ _ h; omega
        · split at h
          · have := ih _ _ _ h; omega
          · cases h
        · split at h
          · cases h
          · have := ih _ _ _ h
            simp at this; omega
        · cases h

/-- one field read = at least one byte consumed -/
theorem readField_lt (b : Bytes) (f : Field) (r : Bytes) (h : readField b = some (f, r)) :
    r.length < b.length := by
  unfold readField at h
  cases hd : decodeVarint b with
  | none => rw [hd] at h; cases h
  | some q =>
    obtain ⟨tag, b1⟩ := q
    rw [hd] at h
    have hlt := decodeVarint_lt b tag b1 hd
    simp only at h
    split at h
    · cases h
    · split at h
      · cases hv : decodeVarint b1 with
        | none => rw [hv] at h; cases h
        | some q2 =>
          obtain ⟨v, r2⟩ := q2
          rw [hv] at h
          simp only [Option.some.injEq, Prod.mk.injEq] at h
          have := decodeVarint_lt b1 v r2 hv
          rw [← h.2]; omega
      · split at h
        · cases h
        · simp only [Option.some.injEq, Prod.mk.injEq] at h
          rw [← h.2]; simp; omega
      · cases hv : decodeLen b1 with
        | none => rw [hv] at h; cases h
        | some q2 =>
          obtain ⟨p, r2⟩ := q2
          rw [hv] at h
          simp only [Option.some.injEq, Prod.mk.injEq] at h
          have := decodeLen_lt b1 p r2 hv
          rw [← h.2]; omega
      · cases hv : skipGroups b1.length [tag / 8] b1 with
        | none => rw [hv] at h; cases h
        | some r2 =>
          rw [hv] at h
          simp only [Option.some.injEq, Prod.mk.injEq] at h
          have := skipGroups_le _ _ _ _ hv
          rw [← h.2]; omega
      · split at h
        · cases h
        · simp only [Option.some.injEq, Prod.mk.injEq] at h
          rw [← h.2]; simp; omega
      · cases h

/-- more fuel than bytes never changes the outcome of the group skipper -/
theorem skipGroups_fuel (n : Nat) : ∀ (m : Nat) (st : List Nat) (b : Bytes), b.length ≤ n → b.length ≤ m →
    skipGroups n st b = skipGroups m st b := by
  induction n with
  | zero =>
    intro m st b hn hm
    have hb : b = [] := List.eq_nil_of_length_eq_zero (by omega)
    subst hb
    cases st with
    | nil => cases m <;> rfl
    | cons g gs =>
      cases m with
      | zero => rfl
      | succ m => simp [skipGroups, consumeTag, decodeVarint, decodeVarintF]
  | succ n ih =>
    intro m st b hn hm
    cases st with
    | nil => cases m <;> rfl
    | cons g gs =>
      cases m with
      | zero =>
        have hb : b = [] := List.eq_nil_of_length_eq_zero (by omega)
        subst hb
        simp [skipGroups, consumeTag, decodeVarint, decodeVarintF]
      | succ m =>
        rw [skipGroups, skipGroups]
        cases hc : consumeTag b with
        | none => rfl
        | some q =>
          obtain ⟨num2, typ2, b1⟩ := q
          have hlt := consumeTag_lt b num2 typ2 b1 hc
          simp only
          split
          · cases hd : decodeVarint b1 with
            | none => rfl
            | some q2 =>
              obtain ⟨v, r2⟩ := q2
              have := decodeVarint_lt b1 v r2 hd
              exact ih m _ r2 (by omega) (by omega)
          · split
            · rfl
            · exact ih m _ _ (by simp; omega) (by simp; omega)
          · cases hd : decodeLen b1 with
            | none => rfl
            | some q2 =>
              obtain ⟨p, r2⟩ := q2
              have := decodeLen_lt b1 p r2 hd
              exact ih m _ r2 (by omega) (by omega)
          · split
            · rfl
            · exact ih m _ b1 (by omega) (by omega)
          · split
            · exact ih m _ b1 (by omega) (by omega)
            · rfl
          · split
            · rfl
            · exact ih m _ _ (by simp; omega) (by simp; omega)
          · rfl

/-- more fuel than bytes never changes the outcome of the field loop -/
theorem parseFieldsF_fuel (n : Nat) : ∀ (m : Nat) (b : Bytes), b.length ≤ n → b.length ≤ m →
    parseFieldsF n b = parseFieldsF m b := by
  induction n with
  | zero =>
    intro m b hn hm
    have hb : b = [] := List.eq_nil_of_length_eq_zero (by omega)
    subst hb
    rw [parseFieldsF_nil, parseFieldsF_nil]
  | succ n ih =>
    intro m b hn hm
    cases b with
    | nil => rw [parseFieldsF_nil, parseFieldsF_nil]
    | cons x xs =>
      cases m with
      | zero => simp at hm
      | succ m =>
        rw [parseFieldsF, parseFieldsF]
        cases hr : readField (x :: xs) with
        | none => rfl
        | some q =>
          obtain ⟨f, rest⟩ := q
          have := readField_lt _ f rest hr
          simp only [List.length_cons] at this hn hm
          simp only
          rw [ih m rest (by omega) (by omega)]

/-- the field loop performs at most one iteration per input byte -/
theorem parseFieldsF_length (n : Nat) : ∀ (b : Bytes) (fs : List Field), parseFieldsF n b = some fs →
    fs.length ≤ b.length := by
  induction n with
  | zero =>
    intro b fs h
    cases b with
    | nil => simp only [parseFieldsF, Option.some.injEq] at h; rw [← h]; simp
    | cons x xs => simp [parseFieldsF] at h
  | succ n ih =>
    intro b fs h
    cases b with
    | nil => simp only [parseFieldsF, Option.some.injEq] at h; rw [← h]; simp
    | cons x xs =>
      rw [parseFieldsF] at h
      cases hr : readField (x :: xs) with
      | none => rw [hr] at h; cases h
      | some q =>
        obtain ⟨f, rest⟩ := q
        rw [hr] at h
        simp only at h
        cases hp : parseFieldsF n rest with
        | none => rw [hp] at h; cases h
        | some fs' =>
          rw [hp] at h
          simp only [Option.some.injEq] at h
          have h1 := ih rest fs' hp
          have h2 := readField_lt _ f rest hr
          rw [← h]
          simp only [List.length_cons] at h2 ⊢
          omega

end GceTcb.ProtoWire
