import GceTcb.Model.SecureJoinEnv
import GceTcb.Proofs.SecureJoin
import GceTcb.Proofs.Extract
/-
Lemmas for C16 (confinement clause): what the instantiated `Extract.Env` says about the models of
SecureJoin and os.ReadFile. Core-only.
-/
namespace GceTcb.SecureJoin
open GceTcb GceTcb.Extract

theorem envOf_secureJoin (f1 f2 : FS) (klim lim : Nat) (cwd : List Name) (content : Nat → Bytes)
    (get : Url → Option Bytes) (root u p : String)
    (h : (envOf f1 f2 klim lim cwd content get).secureJoin root u = some p) :
    secureJoin f1 klim lim cwd root.toList u.toList = .ok p.toList := by
  simp only [envOf] at h
  split at h
  · next q hq =>
    simp only [Option.some.injEq] at h
    rw [hq, ← h, String.toList_ofList]
  · simp at h

theorem envOf_readFile (f1 f2 : FS) (klim lim : Nat) (cwd : List Name) (content : Nat → Bytes)
    (get : Url → Option Bytes) (p : String) (c : Bytes)
    (h : (envOf f1 f2 klim lim cwd content get).readFile p = some c) :
    ∃ loc i, readFile f2 klim cwd p.toList = .data loc i ∧ c = content i := by
  simp only [envOf] at h
  split at h
  · next loc i hr =>
    simp only [Option.some.injEq] at h
    exact ⟨loc, i, hr, h.symm⟩
  · simp at h

/-- The path varBasename returns is the secure join of some text. -/
theorem varBasename_join (env : Env) (root : String) (g n : Bytes) (p : String)
    (h : varBasename env root g n = .ok p) : ∃ u, env.secureJoin root u = some p := by
  unfold varBasename at h
  split at h
  · next b _ =>
    split at h
    · next q hq => simp only [Outcome.ok.injEq] at h; exact ⟨_, by rw [hq, h]⟩
    · simp at h
  · simp at h
  · simp at h

/-- A successful ReadVariable opened exactly the path of varBasename and returns that file's bytes
    without the 4-byte attribute header. -/
theorem readVariable_ok (env : Env) (root : String) (g n : Bytes) (out : Bytes)
    (h : (readVariable env root g n).out = .ok out) :
    ∃ p c, varBasename env root g n = .ok p ∧ env.readFile p = some c ∧ out = c.drop 4 := by
  unfold readVariable at h
  split at h
  · next p hp =>
    split at h
    · simp at h
    · next c hc =>
      split at h
      · simp at h
      · simp only [Outcome.ok.injEq] at h
        exact ⟨p, c, hp, hc, h.symm⟩
  · simp at h
  · simp at h

/-! ## The String-level contract `Inside` of Props/C16.lean -/

theorem joinUnder_toList (root : String) (comps : List Name) :
    (joinUnder root (comps.map String.ofList)).toList = root.toList ++ comps.flatMap ('/' :: ·) := by
  unfold joinUnder
  rw [String.toList_append, String.toList_join]
  congr 1
  induction comps with
  | nil => rfl
  | cons c cs ih =>
    simp only [List.map_cons, List.flatMap_cons, String.toList_append, String.toList_ofList]
    rw [ih]
    rfl

theorem inside_of_lex (root p : String) (comps : List Name) (hn : AllNormal comps)
    (h : p.toList = root.toList ++ comps.flatMap ('/' :: ·)) : Inside root p := by
  refine ⟨comps.map String.ofList, ?_, ?_⟩
  · apply String.toList_inj.mp
    rw [h, joinUnder_toList]
  · intro c hc
    rw [List.mem_map] at hc
    obtain ⟨l, hl, rfl⟩ := hc
    obtain ⟨h1, h2, h3, h4⟩ := hn l hl
    refine ⟨?_, ?_, ?_, ?_⟩
    · intro e; apply h1; have := congrArg String.toList e; simpa using this
    · intro e; apply h2; have := congrArg String.toList e; simpa using this
    · intro e; apply h3; have := congrArg String.toList e; simpa [dotdot] using this
    · rw [String.toList_ofList]; exact h4

end GceTcb.SecureJoin
