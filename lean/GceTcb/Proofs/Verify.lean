import GceTcb.Model.Verify
/-
Helper definitions and lemmas for C01 (core-only).
-/
namespace GceTcb.Verify
open GceTcb

variable {Cert Roots Time : Type}

/-- The endorsement `e` is authentic for trust roots `roots` at time `now`: its payload unmarshals to a
    golden measurement whose certificate is non-empty, parses, chains to `roots` at `now`, and whose key
    made an RSA-PSS/SHA-256 signature `e.signature` over exactly the payload bytes `e.payload`. -/
def Authentic (P : Prims Cert Roots Time) (e : Endorsement) (roots : Roots) (now : Time) : Prop :=
  ∃ g c, P.unmarshalGolden e.payload = some g ∧ g.cert ≠ [] ∧ P.parseCert g.cert = some c ∧
    P.verifyChain c roots now = true ∧ P.checkSigPss256 c e.payload e.signature = true

theorem checkCertificate_ok (P : Prims Cert Roots Time) (d : Bytes) (roots : Option Roots) (now : Time)
    (c : Cert) (h : checkCertificate P d roots now = .ok c) :
    d ≠ [] ∧ ∃ r, roots = some r ∧ P.parseCert d = some c ∧ P.verifyChain c r now = true := by
  unfold checkCertificate at h
  split at h
  · cases h
  · rename_i hne
    refine ⟨by intro hd; simp [hd] at hne, ?_⟩
    split at h
    · cases h
    · rename_i r
      split at h
      · cases h
      · rename_i c' hp
        split at h
        · rename_i hv
          cases h
          exact ⟨r, rfl, hp, hv⟩
        · cases h

theorem beforeSignature_ok (P : Prims Cert Roots Time) (ts : Option Timestamp) (cl : Nat) (cm d : Bytes)
    (o : Options Roots Time) (c : Cert) (h : beforeSignature P ts cl cm d o = .ok c) :
    checkCertificate P d o.roots o.now = .ok c := by
  unfold beforeSignature at h
  split at h
  · cases h
  · cases h
  · split at h
    · cases h
    · split at h
      · cases h
      · rename_i c' hc
        cases h
        exact hc

theorem verifySigned_ok (P : Prims Cert Roots Time) (e : Endorsement) (o : Options Roots Time) (g : Golden)
    (h : verifySigned P e o = .ok g) :
    P.unmarshalGolden e.payload = some g ∧ ∃ r c, o.roots = some r ∧ g.cert ≠ [] ∧
      P.parseCert g.cert = some c ∧ P.verifyChain c r o.now = true ∧
      P.checkSigPss256 c e.payload e.signature = true := by
  unfold verifySigned at h
  split at h
  · cases h
  · rename_i g' hg
    split at h
    · cases h
    · cases h
    · rename_i cert hb
      split at h
      · cases h
      · rename_i hs
        cases h
        obtain ⟨hne, r, hr, hp, hv⟩ := checkCertificate_ok P _ _ _ _ (beforeSignature_ok P _ _ _ _ _ _ hb)
        exact ⟨hg, r, cert, hr, hne, hp, hv, by simpa using hs⟩

/-- The library verifier accepts only authentic endorsements. -/
theorem endorsementProto_accept (P : Prims Cert Roots Time) (e : Endorsement) (o : Options Roots Time)
    (h : endorsementProto P e o = accept) : ∃ r, o.roots = some r ∧ Authentic P e r o.now := by
  unfold endorsementProto at h
  split at h
  · cases h
  · cases h
  · rename_i g hg
    obtain ⟨hu, r, c, hr, hne, hp, hv, hs⟩ := verifySigned_ok P e o g hg
    exact ⟨r, hr, g, c, hu, hne, hp, hv, hs⟩

theorem endorsement_accept (P : Prims Cert Roots Time) (ser : Bytes) (o : Options Roots Time)
    (h : endorsement P ser o = accept) :
    ∃ e r, P.unmarshalEndorsement ser = some e ∧ o.roots = some r ∧ Authentic P e r o.now := by
  unfold endorsement at h
  split at h
  · cases h
  · rename_i e he
    obtain ⟨r, hr, ha⟩ := endorsementProto_accept P e o h
    exact ⟨e, r, he, hr, ha⟩

@[simp] theorem closureCallOpts_roots (o : Options Roots Time) (m : Bytes) :
    (closureCallOpts o m).roots = o.roots := rfl
@[simp] theorem closureCallOpts_now (o : Options Roots Time) (m : Bytes) :
    (closureCallOpts o m).now = o.now := rfl
@[simp] theorem closureCallOpts_endorsement (o : Options Roots Time) (m : Bytes) :
    (closureCallOpts o m).endorsement = o.endorsement := rfl

/-- The SNP validator closure accepts only when the endorsement it selected (the pre-supplied one, else
    the serialized argument, else the fetched blob) is authentic. -/
theorem snpClosure_accept (P : Prims Cert Roots Time) (fam : String) (o : Options Roots Time)
    (att : Option Attestation) (ser : Option Bytes) (h : snpClosure P fam o att ser = accept) :
    ∃ a e r, att = some a ∧ o.roots = some r ∧ Authentic P e r o.now ∧
      ((o.endorsement = some e) ∨
       (o.endorsement = none ∧ ∃ s, closureSerialized P fam o a.measurement ser = .ok s ∧
          P.unmarshalEndorsement (s.getD []) = some e)) := by
  unfold snpClosure at h
  split at h
  · cases h
  · rename_i a
    split at h
    · cases h
    · split at h
      · cases h
      · rename_i s hs
        simp only [closureCallOpts_endorsement] at h
        split at h
        · rename_i e he
          obtain ⟨r, hr, ha⟩ := endorsementProto_accept P e _ h
          exact ⟨a, e, r, rfl, hr, ha, Or.inl he⟩
        · rename_i he
          obtain ⟨e, r, hu, hr, ha⟩ := endorsement_accept P _ _ h
          exact ⟨a, e, r, rfl, hr, ha, Or.inr ⟨he, s, hs, hu⟩⟩

/-- A single `Require` entry: acceptance of the table means the validator accepted. -/
theorem certTableOptions_require_single (att : Option Attestation) (guid : String)
    (v : Option Attestation → Option Bytes → Res)
    (h : certTableOptions att [(guid, ⟨.require, v⟩)] = accept) :
    v att (lookupStr ((att.map (·.extras)).getD []) guid) = accept := by
  simp only [certTableOptions] at h
  split at h
  · rename_i u hu
    cases u
    exact hu
  · cases h
  · cases h

theorem sevValidate_accept (P : Prims Cert Roots Time) (att : Option Attestation)
    (o : SevValidateOptions Roots Time) (h : sevValidate P att o = accept) :
    ∃ e r, sevEndorsement P att o = .ok e ∧ o.roots = some r ∧ Authentic P e r o.now := by
  unfold sevValidate at h
  split at h
  · cases h
  · rename_i e he
    split at h
    · cases h
    · split at h
      · cases h
      · have hc := certTableOptions_require_single _ _ _ h
        obtain ⟨a, e', r, _, hr, ha, hsel⟩ := snpClosure_accept P _ _ _ _ hc
        have hee : e' = e := by
          rcases hsel with hsel | ⟨hn, _⟩
          · simp [sevClosureOpts] at hsel
            exact hsel.symm
          · simp [sevClosureOpts] at hn
        subst hee
        exact ⟨e', r, he, hr, ha⟩

theorem tdxValidate_accept (P : Prims Cert Roots Time) (parse : Bytes → Option TeeAttestation)
    (bytes : Bytes) (o : TdxValidateOptions Roots Time) (h : tdxValidate P parse bytes o = accept) :
    ∃ e r, tdxEndorsement P bytes o = .ok e ∧ o.roots = some r ∧ Authentic P e r o.now := by
  unfold tdxValidate at h
  split at h
  · cases h
  · split at h
    · cases h
    · rename_i e he
      split at h
      · cases h
      · cases h
      · rename_i u hu
        cases u
        obtain ⟨r, hr, ha⟩ := endorsementProto_accept P e _ hu
        exact ⟨e, r, he, hr, ha⟩
  · cases h

theorem cliVerify_accept (P : Prims Cert Roots Time) (b : Backend Time) (path root : String)
    (h : cliVerify P b path root = accept) :
    ∃ e r, readEndorsement P b path = .ok e ∧ rootOfTrust P b root = .ok r ∧ Authentic P e r b.now := by
  unfold cliVerify at h
  split at h
  · cases h
  · rename_i e he
    split at h
    · cases h
    · rename_i rot hrot
      obtain ⟨r, hr, ha⟩ := endorsementProto_accept P e _ h
      simp at hr
      subst hr
      exact ⟨e, rot, he, hrot, ha⟩

/-! ### A concrete world for the non-vacuity examples and witnesses of the Props module -/

namespace Example
/-- certificates are numbered; roots and times are names -/
def goodGolden : Golden :=
  { timestamp := some ⟨1725148800, 0⟩, clSpec := 1234, commit := [], cert := [0xC0], digest := [0xD1],
    sevSnp := some ⟨[], [(1, List.replicate 48 7)]⟩, tdx := some ⟨[(0, List.replicate 48 9)]⟩, other := [] }

def P : Prims Nat String Nat :=
  { unmarshalEndorsement := fun b => if b == [0xE0] then some ⟨[0xA0], [0x5A]⟩ else none
    unmarshalGolden := fun b => if b == [0xA0] then some goodGolden else none
    timeFromNil := none
    parseCert := fun b => if b == [0xC0] then some 1 else none
    verifyChain := fun c r t => c == 1 && r == "caller-roots" && decide (100 ≤ t ∧ t ≤ 200)
    checkSigPss256 := fun c m s => c == 1 && m == [0xA0] && s == [0x5A]
    objectURL := fun f _ => f
    loadRootPool := fun b => if b == [0x52] then some "caller-roots" else none
    sevPolicyOptions := fun _ _ _ _ => some 1
    snpBaseChecks := fun _ _ => true
    tdxPolicyOptions := fun _ _ _ _ => some 1
    tdxQuoteChecks := fun _ _ => true
    tdxExtractEndorsement := fun _ => none }

def opts (now : Nat) : Options String Nat :=
  { snp := none, roots := some "caller-roots", expectedUefiSha384 := [], now := now, endorsement := none,
    getter := none }

def att : Attestation := ⟨1, List.replicate 48 7, [(gceFwCertGUID, [0xE0])]⟩
end Example

end GceTcb.Verify
