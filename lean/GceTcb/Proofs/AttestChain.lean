import GceTcb.Model.AttestChain
import GceTcb.Proofs.HexB64
/- Lemmas for Props/C16Wire: the certificate-table parser on a well-formed table, and the chain. -/
namespace GceTcb.AttestChain
open GceTcb GceTcb.Codec GceTcb.DecTotal

/-- A well-formed certificate table: `hs` header entries, the all-zero terminator, then `body`; every entry
    names a range behind the header and inside the table, the ranges together are not longer than the
    table (they need not be adjacent, ordered or disjoint from padding), the table is shorter than 4 GiB. -/
structure TableOk (table : Bytes) (hs : List Hdr) (body : Bytes) : Prop where
  shape : table = hdrBytes hs ++ (zeros entrySize ++ body)
  guid16 : ∀ h ∈ hs, h.guid.length = 16
  offLo : ∀ h ∈ hs, (hs.length + 1) * entrySize ≤ h.off
  inRange : ∀ h ∈ hs, h.off + h.len ≤ table.length
  total : (hs.map (·.len)).sum ≤ table.length
  small : table.length < u32

/-- the entries go-sev-guest reads from it -/
def entriesOf (table : Bytes) (hs : List Hdr) : List (Bytes × Bytes) :=
  hs.map (fun h => (h.guid, (table.drop h.off).take h.len))

theorem le32_length (n : Nat) : (le32 n).length = 4 := leBytes_length 4 n

theorem readHdr_entry (g : Bytes) (off len : Nat) (rest : Bytes) (hg : g.length = 16) (ho : off < u32) (hl : len < u32) :
    readHdr (g ++ (le32 off ++ (le32 len ++ rest))) = ⟨g, off, len⟩ := by
  have h1 : (g ++ (le32 off ++ (le32 len ++ rest))).take 16 = g := by
    rw [← hg]; exact List.take_left
  have h2 : (g ++ (le32 off ++ (le32 len ++ rest))).drop 16 = le32 off ++ (le32 len ++ rest) := by
    rw [← hg]; exact List.drop_left
  have h3 : (g ++ (le32 off ++ (le32 len ++ rest))).drop 20 = le32 len ++ rest := by
    have : (20 : Nat) = 16 + 4 := rfl
    rw [this, ← List.drop_drop, h2]
    have h4 := le32_length off
    rw [← h4]; exact List.drop_left
  have t1 : (le32 off ++ (le32 len ++ rest)).take 4 = le32 off := by
    have h4 := le32_length off; rw [← h4]; exact List.take_left
  have t2 : (le32 len ++ rest).take 4 = le32 len := by
    have h4 := le32_length len; rw [← h4]; exact List.take_left
  have v1 : leVal (le32 off) = off := leVal_leBytes_of_lt 4 off (by simpa [u32] using ho)
  have v2 : leVal (le32 len) = len := leVal_leBytes_of_lt 4 len (by simpa [u32] using hl)
  simp only [readHdr, leU32, h1, h2, h3, t1, t2, v1, v2]

theorem entry_drop (g : Bytes) (off len : Nat) (rest : Bytes) (hg : g.length = 16) :
    (g ++ (le32 off ++ (le32 len ++ rest))).drop entrySize = rest := by
  have : (g ++ (le32 off ++ (le32 len ++ rest))) = (g ++ le32 off ++ le32 len) ++ rest := by
    simp only [List.append_assoc]
  rw [this]
  have hl : (g ++ le32 off ++ le32 len).length = entrySize := by
    simp only [List.length_append, hg, le32_length, entrySize]
  rw [← hl]; exact List.drop_left

theorem hdrBytes_length (hs : List Hdr) (hg : ∀ h ∈ hs, h.guid.length = 16) :
    (hdrBytes hs).length = hs.length * entrySize := by
  induction hs with
  | nil => rfl
  | cons h rest ih =>
    have := ih (fun x hx => hg x (List.mem_cons_of_mem _ hx))
    have h16 := hg h List.mem_cons_self
    simp only [hdrBytes, List.length_append, le32_length, h16, this, List.length_cons, entrySize]; omega

theorem readHdr_zeros (body : Bytes) : (readHdr (zeros entrySize ++ body)).isZero = true := by
  rfl

theorem zeros_length (n : Nat) : (zeros n).length = n := List.length_replicate

theorem headerLoop_wellformed (body : Bytes) : ∀ (hs : List Hdr) (fuel : Nat), hs.length < fuel →
    (∀ h ∈ hs, h.guid.length = 16 ∧ h.off < u32 ∧ h.len < u32 ∧ 0 < h.off) →
    headerLoop fuel (hdrBytes hs ++ (zeros entrySize ++ body)) = some hs
  | [], fuel, hf, _ => by
    cases fuel with
    | zero => omega
    | succ f =>
      have hl : ¬ (zeros entrySize ++ body).length < entrySize := by
        simp only [List.length_append, zeros_length]; omega
      simp only [hdrBytes, List.nil_append, headerLoop, hl, if_false, readHdr_zeros, if_true]
  | h :: rest, fuel, hf, hh => by
    cases fuel with
    | zero => simp at hf
    | succ f =>
      obtain ⟨hg, ho, hl, hp⟩ := hh h List.mem_cons_self
      have ih := headerLoop_wellformed body rest f (by simp only [List.length_cons] at hf; omega)
        (fun x hx => hh x (List.mem_cons_of_mem _ hx))
      have hshape : hdrBytes (h :: rest) ++ (zeros entrySize ++ body)
          = h.guid ++ (le32 h.off ++ (le32 h.len ++ (hdrBytes rest ++ (zeros entrySize ++ body)))) := by
        simp only [hdrBytes, List.append_assoc]
      have hlen : ¬ (h.guid ++ (le32 h.off ++ (le32 h.len ++ (hdrBytes rest ++ (zeros entrySize ++ body))))).length < entrySize := by
        simp only [List.length_append, hg, le32_length, entrySize]; omega
      have hnz : (Hdr.isZero ⟨h.guid, h.off, h.len⟩) = false := by
        have : (h.off == 0) = false := by
          simp only [beq_eq_false_iff_ne]; omega
        simp only [Hdr.isZero, this, Bool.false_and]
      rw [hshape]
      simp only [headerLoop, hlen, if_false, readHdr_entry _ _ _ _ hg ho hl, hnz, entry_drop _ _ _ _ hg, ih]
      rfl

theorem table_length (table : Bytes) (hs : List Hdr) (body : Bytes) (w : TableOk table hs body) :
    table.length = (hs.length + 1) * entrySize + body.length := by
  rw [w.shape]
  simp only [List.length_append, hdrBytes_length hs w.guid16, zeros_length, entrySize]; omega

theorem parseHeader_wellformed (table : Bytes) (hs : List Hdr) (body : Bytes) (w : TableOk table hs body) :
    parseHeader table = some hs := by
  have hlen := table_length table hs body w
  have hne : ¬ table.length = 0 := by simp only [hlen, entrySize]; omega
  have hloop : headerLoop (table.length + 1) table = some hs := by
    have := headerLoop_wellformed body hs (table.length + 1) (by simp only [hlen, entrySize]; omega)
      (fun h hh => by
        have r := w.inRange h hh; have s := w.small; have o := w.offLo h hh
        simp only [entrySize] at o
        exact ⟨w.guid16 h hh, by omega, by omega, by omega⟩)
    rw [← w.shape] at this; exact this
  have hall : hs.all (fun e => decide (((hs.length + 1) * entrySize) % u32 ≤ e.off)) = true := by
    rw [List.all_eq_true]
    intro e he
    have o := w.offLo e he
    have s := w.small
    have : (hs.length + 1) * entrySize % u32 = (hs.length + 1) * entrySize := by
      apply Nat.mod_eq_of_lt; omega
    simp only [this, decide_eq_true_eq]; exact o
  simp only [parseHeader, hne, if_false, hloop, hall, if_true]

theorem checkRanges_ok (n : Nat) (hn : n < u32) : ∀ (hs : List Hdr) (total : Nat), (∀ h ∈ hs, h.off + h.len ≤ n) →
    total + (hs.map (·.len)).sum ≤ n → checkRanges n total hs = true
  | [], _, _, _ => rfl
  | h :: rest, total, hr, ht => by
    have h1 := hr h List.mem_cons_self
    simp only [List.map_cons, List.sum_cons] at ht
    have ih := checkRanges_ok n hn rest (total + h.len) (fun x hx => hr x (List.mem_cons_of_mem _ hx)) (by omega)
    have c1 : ¬ h.off + h.len > n := by omega
    have c2 : ¬ total + h.len > n := by omega
    have c3 : ¬ h.off + h.len > 4294967295 := by simp only [u32] at hn; omega
    simp only [checkRanges, c1, c2, c3, if_false, ih]

theorem checkCertTable_wellformed (table : Bytes) (hs : List Hdr) (body : Bytes) (w : TableOk table hs body) :
    checkCertTable table = true := by
  simp only [checkCertTable, parseHeader_wellformed table hs body w]
  exact checkRanges_ok _ w.small hs 0 w.inRange (by have := w.total; omega)

theorem unmarshalEntries_ok (table : Bytes) (hsmall : table.length < u32) : ∀ (hs : List Hdr),
    (∀ h ∈ hs, h.off + h.len ≤ table.length) →
    unmarshalEntries table hs = .ok (entriesOf table hs)
  | [], _ => rfl
  | h :: rest, hr => by
    have h1 := hr h List.mem_cons_self
    have ih := unmarshalEntries_ok table hsmall rest (fun x hx => hr x (List.mem_cons_of_mem _ hx))
    have m1 : (h.off + h.len) % u32 = h.off + h.len := Nat.mod_eq_of_lt (by omega)
    have m2 : table.length % u32 = table.length := Nat.mod_eq_of_lt hsmall
    have c1 : ¬ (h.off + h.len) % u32 > table.length % u32 := by rw [m1, m2]; omega
    have c2 : ¬ h.off > (h.off + h.len) % u32 := by rw [m1]; omega
    simp only [unmarshalEntries, entryBlob, c1, c2, if_false, ih, entriesOf, List.map_cons]

theorem unmarshal_wellformed (table : Bytes) (hs : List Hdr) (body : Bytes) (w : TableOk table hs body) :
    unmarshal table = .ok (entriesOf table hs) := by
  simp only [unmarshal, parseHeader_wellformed table hs body w]
  exact unmarshalEntries_ok table w.small hs w.inRange

theorem lookupLast_none (k : Bytes) : ∀ (l : List (Bytes × Bytes)), (∀ e ∈ l, e.1 ≠ k) → lookupLast l k = none
  | [], _ => rfl
  | (g, b) :: rest, h => by
    have ih := lookupLast_none k rest (fun e he => h e (List.mem_cons_of_mem _ he))
    have : (g == k) = false := by
      have := h (g, b) List.mem_cons_self
      simpa using this
    simp only [lookupLast, ih, this]; rfl

theorem lookupLast_last (k b : Bytes) (l2 : List (Bytes × Bytes)) (h2 : ∀ e ∈ l2, e.1 ≠ k) :
    ∀ (l1 : List (Bytes × Bytes)), lookupLast (l1 ++ (k, b) :: l2) k = some b
  | [] => by
    simp only [List.nil_append, lookupLast, lookupLast_none k l2 h2, beq_self_eq_true, if_true]
  | (g, c) :: rest => by
    simp only [List.cons_append, lookupLast, lookupLast_last k b l2 h2 rest]

theorem lookupFirst_first (k b : Bytes) (l2 : List (Bytes × Bytes)) :
    ∀ (l1 : List (Bytes × Bytes)), (∀ e ∈ l1, e.1 ≠ k) → lookupFirst (l1 ++ (k, b) :: l2) k = some b
  | [], _ => by simp only [List.nil_append, lookupFirst, beq_self_eq_true, if_true]
  | (g, c) :: rest, h => by
    have : (g == k) = false := by
      have := h (g, c) List.mem_cons_self
      simpa using this
    simp only [List.cons_append, lookupFirst, this]
    exact lookupFirst_first k b l2 rest (fun e he => h e (List.mem_cons_of_mem _ he))

theorem gce_not_amd : isAmd gceGuid = false := by decide

/-- the GCE entry as the Extras map of the attestation holds it -/
theorem extrasGet_gce (table : Bytes) (pre post : List Hdr) (hg : Hdr) (hk : hg.guid = gceGuid)
    (hpost : ∀ h ∈ post, h.guid ≠ gceGuid) :
    extrasGet (entriesOf table (pre ++ hg :: post)) gceGuid = some ((table.drop hg.off).take hg.len) := by
  simp only [extrasGet, gce_not_amd, entriesOf, List.map_append, List.map_cons, hk]
  apply lookupLast_last
  intro e he
  simp only [List.mem_map] at he
  obtain ⟨h, hh, rfl⟩ := he
  exact hpost h hh

/-! ## text decoders reject raw forms -/

theorem hexNib_zero : HexB64.hexNib 0 = none := by decide
theorem b64Legal_zero : HexB64.b64Legal 0 = false := by decide

theorem textDecode_of_zero (q : Bytes) (h : (0 : UInt8) ∈ q) : textDecode goVariant q = q := by
  simp only [textDecode, goVariant, id, HexB64.hexDecode_none_of_mem q 0 h hexNib_zero,
    HexB64.b64Decode_none_of_mem q 0 h b64Legal_zero]

theorem zero_mem_table (table : Bytes) (hs : List Hdr) (body : Bytes) (w : TableOk table hs body) :
    (0 : UInt8) ∈ table := by
  rw [w.shape]
  simp only [List.mem_append, zeros, entrySize]
  right; left
  exact List.mem_replicate.mpr ⟨by decide, rfl⟩

/-! ## the raw decoders on report ++ table -/

theorem reportMeasurement_append (report table : Bytes) (h : report.length = reportSize) :
    reportMeasurement (report ++ table) = reportMeasurement report := by
  simp only [reportMeasurement]
  have h1 : (report ++ table).drop 0x90 = report.drop 0x90 ++ table := by
    apply List.drop_append_of_le_length; simp only [h, reportSize]; omega
  rw [h1]
  apply List.take_append_of_le_length
  simp only [List.length_drop, h, reportSize]; omega

theorem rawFormats_report_table (X : Protos) (report table : Bytes) (hs : List Hdr) (body : Bytes)
    (hl : report.length = reportSize) (ha : reportAccepted report = true) (w : TableOk table hs body) :
    rawFormats X (report ++ table) = .ok (.sevRaw (reportMeasurement report) (entriesOf table hs)) := by
  have hge : reportSize ≤ (report ++ table).length := by simp only [List.length_append, hl]; omega
  have hdrop : (report ++ table).drop reportSize = table := by rw [← hl]; exact List.drop_left
  have htake : (report ++ table).take reportSize = report := by rw [← hl]; exact List.take_left
  simp only [rawFormats, reportCertsToProto, hge, if_true, hdrop, htake, checkCertTable_wellformed table hs body w,
    ha, unmarshal_wellformed table hs body w, reportMeasurement_append report table hl]

theorem rawFormats_table (X : Protos) (table : Bytes) (hs : List Hdr) (body : Bytes) (w : TableOk table hs body)
    (hnr : reportAccepted (table.take reportSize) = false) :
    rawFormats X table = .ok (.sevRaw [0] (entriesOf table hs)) := by
  have hrep : reportAccepted (if reportSize ≤ table.length then table.take reportSize else table) = false := by
    by_cases h : reportSize ≤ table.length
    · simp only [h, if_true, hnr]
    · simp only [h, if_false]
      have : ¬ reportSize ≤ table.length := h
      simp only [reportAccepted, this, decide_false, Bool.false_and]
  have htab : tableOrTdx X table = .ok (.sevRaw [0] (entriesOf table hs)) := by
    simp only [tableOrTdx, checkCertTable_wellformed table hs body w, if_true, unmarshal_wellformed table hs body w]
  simp only [rawFormats, reportCertsToProto, hrep]
  split <;> simp_all

/-! ## the chain -/

theorem attestation_of_rejects (v : Variant) (X : Protos) (q : Bytes) (hne : q.length ≠ 0) (hp : protoRejects X q) :
    attestationWith v X q = afterProtos v X q := by
  obtain ⟨h1, h2, h3, h4⟩ := hp
  simp only [attestationWith, hne, if_false, h1, h2, afterSevAtt, h3, h4]

/-! ## abi.CertTable.Marshal produces a well-formed table -/

theorem layoutHdrs_length : ∀ (es : List (Bytes × Bytes)) (c : Nat), (layoutHdrs c es).length = es.length
  | [], _ => rfl
  | (_, _) :: rest, c => by simp only [layoutHdrs, List.length_cons, layoutHdrs_length rest]

theorem layoutHdrs_guid : ∀ (es : List (Bytes × Bytes)) (c : Nat), (∀ e ∈ es, e.1.length = 16) →
    ∀ h ∈ layoutHdrs c es, h.guid.length = 16
  | [], _, _, h, hh => by simp [layoutHdrs] at hh
  | (g, b) :: rest, c, hg, h, hh => by
    simp only [layoutHdrs, List.mem_cons] at hh
    rcases hh with rfl | hh
    · exact hg (g, b) List.mem_cons_self
    · exact layoutHdrs_guid rest _ (fun e he => hg e (List.mem_cons_of_mem _ he)) h hh

theorem layoutHdrs_range : ∀ (es : List (Bytes × Bytes)) (c : Nat),
    ∀ h ∈ layoutHdrs c es, c ≤ h.off ∧ h.off + h.len ≤ c + (blobsOf es).length
  | [], _, h, hh => by simp [layoutHdrs] at hh
  | (g, b) :: rest, c, h, hh => by
    simp only [layoutHdrs, List.mem_cons] at hh
    simp only [blobsOf, List.length_append]
    rcases hh with rfl | hh
    · constructor <;> simp only <;> omega
    · have := layoutHdrs_range rest (c + b.length) h hh
      omega

theorem layoutHdrs_total : ∀ (es : List (Bytes × Bytes)) (c : Nat),
    ((layoutHdrs c es).map (·.len)).sum = (blobsOf es).length
  | [], _ => rfl
  | (g, b) :: rest, c => by
    simp only [layoutHdrs, List.map_cons, List.sum_cons, blobsOf, List.length_append, layoutHdrs_total rest]

theorem entriesOf_layout : ∀ (es : List (Bytes × Bytes)) (P : Bytes),
    entriesOf (P ++ blobsOf es) (layoutHdrs P.length es) = es
  | [], _ => rfl
  | (g, b) :: rest, P => by
    have ih := entriesOf_layout rest (P ++ b)
    simp only [List.length_append, List.append_assoc] at ih
    have h1 : ((P ++ (b ++ blobsOf rest)).drop P.length).take b.length = b := by
      rw [List.drop_left]; exact List.take_left
    simp only [layoutHdrs, blobsOf, entriesOf, List.map_cons, h1]
    simp only [entriesOf] at ih
    rw [ih]

theorem marshal_eq (es : List (Bytes × Bytes)) :
    marshal es = hdrBytes (layoutHdrs ((es.length + 1) * entrySize) es) ++ (zeros entrySize ++ blobsOf es) := by
  simp only [marshal, List.append_assoc]

theorem marshal_wellformed (es : List (Bytes × Bytes)) (hg : ∀ e ∈ es, e.1.length = 16)
    (hsmall : (marshal es).length < u32) :
    TableOk (marshal es) (layoutHdrs ((es.length + 1) * entrySize) es) (blobsOf es)
    ∧ entriesOf (marshal es) (layoutHdrs ((es.length + 1) * entrySize) es) = es := by
  have hg' := layoutHdrs_guid es ((es.length + 1) * entrySize) hg
  have h1 := hdrBytes_length (layoutHdrs ((es.length + 1) * entrySize) es) hg'
  rw [layoutHdrs_length] at h1
  have hlen : (hdrBytes (layoutHdrs ((es.length + 1) * entrySize) es) ++ zeros entrySize).length
      = (es.length + 1) * entrySize := by
    rw [List.length_append, h1, zeros_length]; simp only [entrySize]; omega
  have hml : (marshal es).length = (es.length + 1) * entrySize + (blobsOf es).length := by
    simp only [marshal, List.length_append] at hlen ⊢
    omega
  refine ⟨⟨marshal_eq es, hg', ?_, ?_, ?_, hsmall⟩, ?_⟩
  · intro h hh
    rw [layoutHdrs_length]
    exact (layoutHdrs_range es _ h hh).1
  · intro h hh
    rw [hml]
    exact (layoutHdrs_range es _ h hh).2
  · rw [layoutHdrs_total, hml]; omega
  · have := entriesOf_layout es (hdrBytes (layoutHdrs ((es.length + 1) * entrySize) es) ++ zeros entrySize)
    rw [hlen] at this
    simpa only [marshal] using this

/-! ## raw forms contain a zero byte; no panic below 4 GiB -/

theorem zero_mem_of_all_zero (l s : Bytes) (hsub : ∀ x ∈ l, x ∈ s) (hl : 0 < l.length) (hz : l.all (· == 0) = true) :
    (0 : UInt8) ∈ s := by
  cases l with
  | nil => simp at hl
  | cons a rest =>
    have : a = 0 := by
      have := List.all_eq_true.mp hz a List.mem_cons_self
      simpa using this
    subst this
    exact hsub 0 List.mem_cons_self

theorem zero_mem_of_headerLoop : ∀ (f : Nat) (s : Bytes) (es : List Hdr), headerLoop f s = some es → (0 : UInt8) ∈ s
  | 0, _, _, h => by simp [headerLoop] at h
  | f + 1, s, es, h => by
    simp only [headerLoop] at h
    split at h
    · cases h
    · rename_i hlen
      split at h
      · rename_i hz
        simp only [Hdr.isZero, readHdr, Bool.and_eq_true] at hz
        apply zero_mem_of_all_zero (s.take 16) s (fun x hx => List.mem_of_mem_take hx) _ hz.2
        simp only [List.length_take, entrySize] at hlen ⊢; omega
      · cases hr : headerLoop f (s.drop entrySize) with
        | none => simp [hr] at h
        | some r => exact List.mem_of_mem_drop (zero_mem_of_headerLoop f _ r hr)

theorem zero_mem_of_checkCertTable (t : Bytes) (hne : t ≠ []) (h : checkCertTable t = true) : (0 : UInt8) ∈ t := by
  simp only [checkCertTable, parseHeader] at h
  have : ¬ t.length = 0 := fun h0 => hne (List.eq_nil_of_length_eq_zero h0)
  simp only [this, if_false] at h
  cases hl : headerLoop (t.length + 1) t with
  | none => simp [hl] at h
  | some es => exact zero_mem_of_headerLoop _ _ es hl

theorem zero_mem_of_reportAccepted (r : Bytes) (h : reportAccepted r = true) : (0 : UInt8) ∈ r := by
  simp only [reportAccepted, Bool.and_eq_true, decide_eq_true_eq] at h
  obtain ⟨⟨⟨⟨⟨⟨⟨⟨hlen, _⟩, _⟩, hm⟩, _⟩, _⟩, _⟩, _⟩, _⟩ := h
  apply zero_mem_of_all_zero ((r.drop 0x4C).take (0x50 - 0x4C)) r
    (fun x hx => List.mem_of_mem_drop (List.mem_of_mem_take hx)) _ hm
  simp only [List.length_take, List.length_drop, reportSize] at hlen ⊢; omega

theorem checkRanges_sound (n : Nat) : ∀ (hs : List Hdr) (total : Nat), checkRanges n total hs = true →
    ∀ h ∈ hs, h.off + h.len ≤ n ∧ h.off + h.len < u32
  | [], _, _, h, hh => by cases hh
  | e :: rest, total, hc, h, hh => by
    simp only [checkRanges] at hc
    split at hc
    · cases hc
    · rename_i h1
      split at hc
      · cases hc
      · rename_i h2
        split at hc
        · cases hc
        · rcases List.mem_cons.mp hh with rfl | hh
          · simp only [u32]; omega
          · exact checkRanges_sound n rest _ hc h hh

/-- with the repaired check in front of it abi.CertTable.Unmarshal does not slice out of range, whatever the
    length of the table (it may still refuse a table longer than 4 GiB: `uint32(len(certs))`) -/
theorem unmarshalEntries_no_panic (table : Bytes) : ∀ (hs : List Hdr), (∀ h ∈ hs, h.off + h.len < u32) →
    ∀ s, unmarshalEntries table hs ≠ .panic s
  | [], _, s => by simp [unmarshalEntries]
  | h :: rest, hr, s => by
    have h1 := hr h List.mem_cons_self
    have ih := unmarshalEntries_no_panic table rest (fun x hx => hr x (List.mem_cons_of_mem _ hx))
    have m1 : (h.off + h.len) % u32 = h.off + h.len := Nat.mod_eq_of_lt h1
    have c2 : ¬ h.off > (h.off + h.len) % u32 := by rw [m1]; omega
    simp only [unmarshalEntries, entryBlob, c2, if_false]
    by_cases c1 : (h.off + h.len) % u32 > table.length % u32
    · simp only [c1, if_true]; simp
    · simp only [c1, if_false]
      cases hu : unmarshalEntries table rest with
      | ok r => simp
      | err c => simp
      | panic s' => exact absurd hu (ih s')

theorem unmarshal_no_panic_of_check (t : Bytes) (hc : checkCertTable t = true) (s : String) : unmarshal t ≠ .panic s := by
  simp only [checkCertTable] at hc
  cases hp : parseHeader t with
  | none => simp [hp] at hc
  | some es =>
    simp only [hp] at hc
    simp only [unmarshal, hp]
    exact unmarshalEntries_no_panic t es (fun h hh => (checkRanges_sound _ es 0 hc h hh).2) s

theorem unmarshal_ok_of_check (t : Bytes) (hc : checkCertTable t = true) (hs : t.length < u32) :
    ∃ es, unmarshal t = .ok es := by
  simp only [checkCertTable] at hc
  cases hp : parseHeader t with
  | none => simp [hp] at hc
  | some es =>
    simp only [hp] at hc
    exact ⟨_, by simp only [unmarshal, hp]; exact unmarshalEntries_ok t hs es (fun h hh => (checkRanges_sound _ es 0 hc h hh).1)⟩

theorem rawTdx_no_panic (X : Protos) (q : Bytes) (s : String) : rawTdx X q ≠ .panic s := by
  simp only [rawTdx]
  split <;> simp

theorem tableOrTdx_no_panic (X : Protos) (q : Bytes) (s : String) : tableOrTdx X q ≠ .panic s := by
  simp only [tableOrTdx]
  by_cases hc : checkCertTable q = true
  · have hn := unmarshal_no_panic_of_check q hc
    simp only [hc, if_true]
    cases hu : unmarshal q with
    | ok es => simp
    | err c => simp only []; exact rawTdx_no_panic X q s
    | panic s' => exact absurd hu (hn s')
  · simp only [hc, Bool.false_eq_true, if_false]; exact rawTdx_no_panic X q s

theorem rawFormats_no_panic (X : Protos) (q : Bytes) (s : String) : rawFormats X q ≠ .panic s := by
  simp only [rawFormats]
  by_cases hc : checkCertTable (if reportSize ≤ q.length then q.drop reportSize else []) = true
  · have hn := unmarshal_no_panic_of_check _ hc
    simp only [hc, if_true, reportCertsToProto]
    by_cases ha : reportAccepted (if reportSize ≤ q.length then q.take reportSize else q) = true
    · simp only [ha, if_true]
      cases hu : unmarshal (if reportSize ≤ q.length then q.drop reportSize else []) with
      | ok es => simp
      | err c => simp only []; exact tableOrTdx_no_panic X q s
      | panic s' => exact absurd hu (hn s')
    · simp only [ha, Bool.false_eq_true, if_false]; exact tableOrTdx_no_panic X q s
  · simp only [hc, Bool.false_eq_true, if_false]; exact tableOrTdx_no_panic X q s

theorem hexDecode_length : ∀ (t d : Bytes), HexB64.hexDecode t = some d → d.length ≤ t.length
  | [], d, h => by simp [HexB64.hexDecode] at h; subst h; simp
  | [_], _, h => by simp [HexB64.hexDecode] at h
  | a :: b :: rest, d, h => by
    simp only [HexB64.hexDecode] at h
    cases ha : HexB64.hexNib a <;> cases hb : HexB64.hexNib b <;> simp only [ha, hb] at h <;> try cases h
    cases hr : HexB64.hexDecode rest with
    | none => simp [hr] at h
    | some t =>
      simp only [hr, Option.some.injEq] at h
      subst h
      have := hexDecode_length rest t hr
      simp only [List.length_cons]; omega

theorem b64DecodeQ_length : ∀ (t d : Bytes), HexB64.b64DecodeQ t = some d → d.length ≤ t.length
  | [], d, h => by simp [HexB64.b64DecodeQ] at h; subst h; simp
  | [_], _, h => by simp [HexB64.b64DecodeQ] at h
  | [_, _], _, h => by simp [HexB64.b64DecodeQ] at h
  | [_, _, _], _, h => by simp [HexB64.b64DecodeQ] at h
  | c0 :: c1 :: c2 :: c3 :: rest, d, h => by
    simp only [HexB64.b64DecodeQ] at h
    cases h0 : HexB64.b64Val c0 <;> cases h1 : HexB64.b64Val c1 <;> simp only [h0, h1] at h <;> try cases h
    cases h2 : HexB64.b64Val c2 <;> cases h3 : HexB64.b64Val c3 <;> simp only [h2, h3] at h
    · split at h
      · simp only [Option.some.injEq] at h; subst h; simp [HexB64.quantum]
      · cases h
    · split at h
      · simp only [Option.some.injEq] at h; subst h; simp [HexB64.quantum]
      · cases h
    · split at h
      · simp only [Option.some.injEq] at h; subst h; simp [HexB64.quantum]
      · cases h
    · cases hr : HexB64.b64DecodeQ rest with
      | none => simp [hr] at h
      | some t =>
        simp only [hr, Option.some.injEq] at h
        subst h
        have := b64DecodeQ_length rest t hr
        simp only [HexB64.quantum, List.length_append, List.length_cons, List.length_nil]; omega

theorem textDecode_length (q : Bytes) : (textDecode goVariant q).length ≤ q.length := by
  simp only [textDecode, goVariant, id]
  cases hh : HexB64.hexDecode q with
  | some d => exact hexDecode_length q d hh
  | none =>
    cases hb : HexB64.b64Decode q with
    | some d =>
      have := b64DecodeQ_length _ d hb
      have h2 : (HexB64.dropNL q).length ≤ q.length := List.length_filter_le _ _
      simp only; omega
    | none => simp

/-! ## tables given as a prefix followed by zero bytes -/

theorem readHdr_append (s z : Bytes) (h : entrySize ≤ s.length) : readHdr (s ++ z) = readHdr s := by
  simp only [entrySize] at h
  have t1 : (s ++ z).take 16 = s.take 16 := List.take_append_of_le_length (by omega)
  have d1 : (s ++ z).drop 16 = s.drop 16 ++ z := List.drop_append_of_le_length (by omega)
  have d2 : (s ++ z).drop 20 = s.drop 20 ++ z := List.drop_append_of_le_length (by omega)
  have t2 : (s.drop 16 ++ z).take 4 = (s.drop 16).take 4 :=
    List.take_append_of_le_length (by simp only [List.length_drop]; omega)
  have t3 : (s.drop 20 ++ z).take 4 = (s.drop 20).take 4 :=
    List.take_append_of_le_length (by simp only [List.length_drop]; omega)
  simp only [readHdr, leU32, t1, d1, d2, t2, t3]

theorem headerLoop_append (z : Bytes) : ∀ (f : Nat) (s : Bytes) (es : List Hdr),
    headerLoop f s = some es → headerLoop f (s ++ z) = some es
  | 0, _, _, h => by simp [headerLoop] at h
  | f + 1, s, es, h => by
    simp only [headerLoop] at h ⊢
    by_cases hl : s.length < entrySize
    · simp [hl] at h
    · have hl' : ¬ (s ++ z).length < entrySize := by simp only [List.length_append]; omega
      simp only [hl, if_false] at h
      simp only [hl', if_false, readHdr_append s z (by omega)]
      by_cases hz : (readHdr s).isZero = true
      · simp only [hz, if_true] at h ⊢; exact h
      · simp only [hz, Bool.false_eq_true, if_false] at h ⊢
        cases hr : headerLoop f (s.drop entrySize) with
        | none => simp [hr] at h
        | some r =>
          have hd : (s ++ z).drop entrySize = s.drop entrySize ++ z := List.drop_append_of_le_length (by omega)
          simp only [hr] at h
          simp only [hd, headerLoop_append z f _ r hr]; exact h

theorem headerLoop_fuel : ∀ (f k : Nat) (s : Bytes) (es : List Hdr),
    headerLoop f s = some es → headerLoop (f + k) s = some es
  | 0, _, _, _, h => by simp [headerLoop] at h
  | f + 1, k, s, es, h => by
    have e : f + 1 + k = (f + k) + 1 := by omega
    rw [e]
    simp only [headerLoop] at h ⊢
    by_cases hl : s.length < entrySize
    · simp [hl] at h
    · simp only [hl, if_false] at h ⊢
      by_cases hz : (readHdr s).isZero = true
      · simp only [hz, if_true] at h ⊢; exact h
      · simp only [hz, Bool.false_eq_true, if_false] at h ⊢
        cases hr : headerLoop f (s.drop entrySize) with
        | none => simp [hr] at h
        | some r =>
          simp only [hr] at h
          simp only [headerLoop_fuel f k _ r hr]; exact h

theorem sparseRange_eq (pre : Bytes) (k off : Nat) : ∀ (n : Nat), off + n ≤ pre.length + k →
    sparseRange pre off n = ((pre ++ zeros k).drop off).take n := by
  intro n hn
  apply List.ext_getElem
  · simp only [sparseRange, List.length_map, List.length_range, List.length_take, List.length_drop,
      List.length_append, zeros_length]; omega
  · intro i h1 h2
    simp only [sparseRange, List.getElem_map, List.getElem_range, List.getElem_take, List.getElem_drop]
    by_cases hp : off + i < pre.length
    · rw [List.getElem_append_left hp]
      simp [List.getD_eq_getElem?_getD, List.getElem?_eq_getElem hp]
    · rw [List.getElem_append_right (by omega)]
      simp only [zeros, List.getElem_replicate]
      simp [List.getD_eq_getElem?_getD, List.getElem?_eq_none (by omega : pre.length ≤ off + i)]

theorem headerLoop_some_len : ∀ (f : Nat) (s : Bytes) (es : List Hdr), headerLoop f s = some es → entrySize ≤ s.length
  | 0, _, _, h => by simp [headerLoop] at h
  | f + 1, s, es, h => by
    simp only [headerLoop] at h
    by_cases hl : s.length < entrySize
    · simp [hl] at h
    · omega

theorem entryBlobSparse_eq (pre : Bytes) (k : Nat) (e : Hdr) (h : e.off + e.len ≤ pre.length + k) :
    entryBlobSparse pre (pre.length + k) e = entryBlob (pre ++ zeros k) e := by
  simp only [entryBlobSparse, entryBlob, List.length_append, zeros_length, sparseRange_eq pre k e.off e.len h]

theorem unmarshalSparse_eq (pre : Bytes) (k : Nat) : ∀ (es : List Hdr), (∀ e ∈ es, e.off + e.len ≤ pre.length + k) →
    unmarshalSparse pre (pre.length + k) es = unmarshalEntries (pre ++ zeros k) es
  | [], _ => rfl
  | e :: rest, h => by
    simp only [unmarshalSparse, unmarshalEntries, entryBlobSparse_eq pre k e (h e List.mem_cons_self),
      unmarshalSparse_eq pre k rest (fun x hx => h x (List.mem_cons_of_mem _ hx))]

/-- the sparse evaluation used for tables beyond 4 GiB (stream c16wire op `tblbig`) is the model's
    CheckCertTable / FromCertTable on the table `pre ++ zeros k` -/
theorem fromCertTableSparse_eq (pre : Bytes) (k : Nat) (es : List Hdr) (hh : headerLoop (pre.length + 1) pre = some es) :
    fromCertTableSparse false pre (pre.length + k) = (checkCertTable (pre ++ zeros k), fromCertTable (pre ++ zeros k)) := by
  have hlen := headerLoop_some_len _ _ _ hh
  have hl : (pre ++ zeros k).length = pre.length + k := by simp only [List.length_append, zeros_length]
  have hne : ¬ (pre ++ zeros k).length = 0 := by simp only [hl, entrySize] at hlen ⊢; omega
  have hloop : headerLoop ((pre ++ zeros k).length + 1) (pre ++ zeros k) = some es := by
    have e : (pre ++ zeros k).length + 1 = (pre.length + 1) + k := by rw [hl]; omega
    rw [e]
    exact headerLoop_fuel _ k _ es (headerLoop_append (zeros k) _ _ es hh)
  simp only [fromCertTableSparse, hh, Bool.false_eq_true, if_false, fromCertTable, checkCertTable, parseHeader, hne, hloop]
  by_cases ha : es.all (fun e => decide (((es.length + 1) * entrySize) % u32 ≤ e.off)) = true
  · simp only [ha, if_true, Bool.true_and, hl]
    by_cases hc : checkRanges (pre.length + k) 0 es = true
    · have hs := checkRanges_sound _ es 0 hc
      have hu : unmarshal (pre ++ zeros k) = unmarshalEntries (pre ++ zeros k) es := by
        simp only [unmarshal, parseHeader, hne, if_false, hloop, ha, if_true]
      simp only [hc, if_true, Bool.not_true, Bool.false_eq_true, if_false, hu,
        unmarshalSparse_eq pre k es (fun e he => (hs e he).1)]
    · simp only [hc, Bool.false_eq_true, if_false, Bool.not_false, if_true]
  · simp only [ha, Bool.false_eq_true, if_false, Bool.false_and, Bool.not_false, if_true]


end GceTcb.AttestChain
