import GceTcb.Model.GuidTable
/-
Extra lemmas about the shared GUID-table model (Model/GuidTable.lean, owner C04 / C08-SEV) needed by the
TDX side: one-step unfolding of the well-founded `guidWalk`, so that the walk can be evaluated on a
concrete image (the kernel does not unfold well-founded recursion under `decide`).  Core-only.
-/
namespace GceTcb.GuidTable
open GceTcb

theorem guidWalk_zero (table : Bytes) (acc : BlockMap) : guidWalk table 0 acc = .ok acc := by
  rw [guidWalk]; simp

theorem guidWalk_step (table : Bytes) (n : Nat) (acc : BlockMap) (n' : Nat) (acc' : BlockMap)
    (hn : n ≠ 0) (h : walkStep table n acc = .ok (n', acc')) : guidWalk table n acc = guidWalk table n' acc' := by
  rw [guidWalk, if_neg hn]
  split
  · rename_i a b hs
    rw [h] at hs; injection hs with hs; injection hs with h1 h2
    subst h1; subst h2; rfl
  · rename_i c hs; rw [h] at hs; cases hs
  · rename_i c hs; rw [h] at hs; cases hs

theorem guidWalk_err (table : Bytes) (n : Nat) (acc : BlockMap) (c : String)
    (hn : n ≠ 0) (h : walkStep table n acc = .err c) : guidWalk table n acc = .err c := by
  rw [guidWalk, if_neg hn]
  split
  · rename_i a b hs; rw [h] at hs; cases hs
  · rename_i c' hs; rw [h] at hs; injection hs with hs; rw [hs]
  · rename_i c' hs; rw [h] at hs; cases hs

end GceTcb.GuidTable
