import GceTcb.Proofs.ProtoWireTotal
/-
Concatenation: what the field loop reads from `a ++ b` when `a` is itself a sequence of fields.

Every reader of the wire codec looks only at the bytes it consumes: a successful read of one field from
`a` is the same read from `a ++ b` (`readField_append`), hence the loop over `a ++ b` yields the fields of
`a` followed by the fields of `b` (`parseFields_append`) and unmarshalling a concatenation is
unmarshalling `b` INTO the message unmarshalled from `a` (`decodeInto_append`) — protobuf's merge
semantics, here a theorem about the codec.  Core-only.
-/
namespace GceTcb.ProtoWire
open GceTcb

theorem decodeVarintF_append (f : Nat) : ∀ (a : Bytes) (v : Nat) (r b : Bytes),
    decodeVarintF f a = some (v, r) → decodeVarintF f (a ++ b) = some (v, r ++ b) := by
  induction f with
  | zero => intro a v r b h; simp [decodeVarintF] at h
  | succ f ih =>
    intro a v r b h
    cases a with
    | nil => simp [decodeVarintF] at h
    | cons x xs =>
      rw [decodeVarintF] at h
      rw [List.cons_append, decodeVarintF]
      split at h
      · rename_i hx
        split at h
        · cases h
        · rename_i h2
          simp only [Option.some.injEq, Prod.mk.injEq] at h
          obtain ⟨rfl, rfl⟩ := h
          simp only [hx, if_true, h2, if_false]
      · rename_i hx
        split at h
        · cases h
        · rename_i h2
          cases hd : decodeVarintF f xs with
          | none => rw [hd] at h; cases h
          | some p =>
            obtain ⟨v', r'⟩ := p
            rw [hd] at h
            simp only [Option.some.injEq, Prod.mk.injEq] at h
            simp only [hx, if_false, h2, ih xs v' r' b hd, h.1, h.2]

theorem decodeVarint_append (a : Bytes) (v : Nat) (r b : Bytes) (h : decodeVarint a = some (v, r)) :
    decodeVarint (a ++ b) = some (v, r ++ b) := decodeVarintF_append 10 a v r b h

theorem decodeLen_append (a p r b : Bytes) (h : decodeLen a = some (p, r)) :
    decodeLen (a ++ b) = some (p, r ++ b) := by
  unfold decodeLen at h ⊢
  cases hd : decodeVarint a with
  | none => rw [hd] at h; cases h
  | some q =>
    obtain ⟨m, r1⟩ := q
    rw [hd] at h
    rw [decodeVarint_append a m r1 b hd]
    simp only at h ⊢
    split at h
    · cases h
    · rename_i hlen
      simp only [Option.some.injEq, Prod.mk.injEq] at h
      have hm : m ≤ r1.length := by omega
      have h1 : ¬ (r1 ++ b).length < m := by simp; omega
      simp only [h1, if_false, Option.some.injEq, Prod.mk.injEq]
      constructor
      · rw [List.take_append_of_le_length hm]; exact h.1
      · rw [List.drop_append_of_le_length hm]; rw [h.2]

theorem consumeTag_append (a : Bytes) (n t : Nat) (r b : Bytes) (h : consumeTag a = some (n, t, r)) :
    consumeTag (a ++ b) = some (n, t, r ++ b) := by
  unfold consumeTag at h ⊢
  cases hd : decodeVarint a with
  | none => rw [hd] at h; cases h
  | some q =>
    obtain ⟨v, r1⟩ := q
    rw [hd] at h
    rw [decodeVarint_append a v r1 b hd]
    simp only at h ⊢
    split at h
    · cases h
    · rename_i hc
      simp only [Option.some.injEq, Prod.mk.injEq] at h
      simp only [hc, if_false, Option.some.injEq, Prod.mk.injEq]
      exact ⟨h.1, h.2.1, by rw [h.2.2]⟩

/-- the group skipper reads only what it skips -/
theorem skipGroups_append (n : Nat) : ∀ (st : List Nat) (a r b : Bytes), skipGroups n st a = some r →
    skipGroups n st (a ++ b) = some (r ++ b) := by
  induction n with
  | zero =>
    intro st a r b h
    cases st with
    | nil => simp only [skipGroups, Option.some.injEq] at h ⊢; rw [h]
    | cons g gs => simp [skipGroups] at h
  | succ n ih =>
    intro st a r b h
    cases st with
    | nil => simp only [skipGroups, Option.some.injEq] at h ⊢; rw [h]
    | cons g gs =>
      rw [skipGroups] at h ⊢
      cases hc : consumeTag a with
      | none => rw [hc] at h; cases h
      | some q =>
        obtain ⟨num2, typ2, b1⟩ := q
        rw [hc] at h
        rw [consumeTag_append a num2 typ2 b1 b hc]
        simp only at h ⊢
        split at h
        · cases hd : decodeVarint b1 with
          | none => rw [hd] at h; cases h
          | some q2 =>
            obtain ⟨v, r2⟩ := q2
            rw [hd] at h
            simp only [decodeVarint_append b1 v r2 b hd]
            exact ih _ _ _ _ h
        · split at h
          · cases h
          · rename_i hl
            have h8 : 8 ≤ b1.length := by omega
            have : ¬ (b1 ++ b).length < 8 := by simp; omega
            simp only [this, if_false, List.drop_append_of_le_length h8]
            exact ih _ _ _ _ h
        · cases hd : decodeLen b1 with
          | none => rw [hd] at h; cases h
          | some q2 =>
            obtain ⟨p, r2⟩ := q2
            rw [hd] at h
            simp only [decodeLen_append b1 p r2 b hd]
            exact ih _ _ _ _ h
        · split at h
          · cases h
          · rename_i hg
            simp only [hg, if_false]
            exact ih _ _ _ _ h
        · split at h
          · rename_i hg
            simp only [hg, if_true]
            exact ih _ _ _ _ h
          · cases h
        · split at h
          · cases h
          · rename_i hl
            have h4 : 4 ≤ b1.length := by omega
            have : ¬ (b1 ++ b).length < 4 := by simp; omega
            simp only [this, if_false, List.drop_append_of_le_length h4]
            exact ih _ _ _ _ h
        · cases h

/-- a successful skip stays successful, with the same result, under more fuel -/
theorem skipGroups_more (n : Nat) : ∀ (m : Nat) (st : List Nat) (a r : Bytes), skipGroups n st a = some r →
    n ≤ m → skipGroups m st a = some r := by
  induction n with
  | zero =>
    intro m st a r h _
    cases st with
    | nil => cases m <;> simpa [skipGroups] using h
    | cons g gs => simp [skipGroups] at h
  | succ n ih =>
    intro m st a r h hm
    cases st with
    | nil => cases m <;> simpa [skipGroups] using h
    | cons g gs =>
      cases m with
      | zero => omega
      | succ m =>
        have hm' : n ≤ m := by omega
        rw [skipGroups] at h ⊢
        cases hc : consumeTag a with
        | none => rw [hc] at h; cases h
        | some q =>
          obtain ⟨num2, typ2, b1⟩ := q
          rw [hc] at h
          simp only at h ⊢
          split at h
          · cases hd : decodeVarint b1 with
            | none => rw [hd] at h; cases h
            | some q2 =>
              obtain ⟨v, r2⟩ := q2
              rw [hd] at h
              exact ih _ _ _ _ h hm'
          · split at h
            · cases h
            · rename_i hl
              simp only [hl, if_false]
              exact ih _ _ _ _ h hm'
          · cases hd : decodeLen b1 with
            | none => rw [hd] at h; cases h
            | some q2 =>
              obtain ⟨p, r2⟩ := q2
              rw [hd] at h
              exact ih _ _ _ _ h hm'
          · split at h
            · cases h
            · rename_i hl
              simp only [hl, if_false]
              exact ih _ _ _ _ h hm'
          · split at h
            · rename_i hl
              simp only [hl, if_true]
              exact ih _ _ _ _ h hm'
            · cases h
          · split at h
            · cases h
            · rename_i hl
              simp only [hl, if_false]
              exact ih _ _ _ _ h hm'
          · cases h

theorem consumed_append_both (b1 r b : Bytes) (h : r.length ≤ b1.length) :
    consumed (b1 ++ b) (r ++ b) = consumed b1 r := by
  unfold consumed
  have e : (b1 ++ b).length - (r ++ b).length = b1.length - r.length := by simp; omega
  rw [e, List.take_append_of_le_length (by omega)]

/-- One field read from `a` is the same field read from `a ++ b`: a reader never looks past the bytes it
    consumes. -/
theorem readField_append (a : Bytes) (f : Field) (r b : Bytes) (h : readField a = some (f, r)) :
    readField (a ++ b) = some (f, r ++ b) := by
  unfold readField at h ⊢
  cases hd : decodeVarint a with
  | none => rw [hd] at h; cases h
  | some q =>
    obtain ⟨tag, b1⟩ := q
    rw [hd] at h
    rw [decodeVarint_append a tag b1 b hd]
    simp only at h ⊢
    split at h
    · cases h
    · rename_i hn
      simp only [hn, if_false]
      split at h
      · cases hv : decodeVarint b1 with
        | none => rw [hv] at h; cases h
        | some q2 =>
          obtain ⟨v, r2⟩ := q2
          rw [hv] at h
          simp only [Option.some.injEq, Prod.mk.injEq] at h
          have hle := Nat.le_of_lt (decodeVarint_lt b1 v r2 hv)
          simp only [decodeVarint_append b1 v r2 b hv, consumed_append_both b1 r2 b hle, Option.some.injEq,
            Prod.mk.injEq]
          exact ⟨h.1, by rw [h.2]⟩
      · split at h
        · cases h
        · rename_i hl
          simp only [Option.some.injEq, Prod.mk.injEq] at h
          have h8 : 8 ≤ b1.length := by omega
          have : ¬ (b1 ++ b).length < 8 := by simp; omega
          simp only [this, if_false, List.take_append_of_le_length h8, List.drop_append_of_le_length h8,
            Option.some.injEq, Prod.mk.injEq]
          exact ⟨h.1, by rw [h.2]⟩
      · cases hv : decodeLen b1 with
        | none => rw [hv] at h; cases h
        | some q2 =>
          obtain ⟨p, r2⟩ := q2
          rw [hv] at h
          simp only [Option.some.injEq, Prod.mk.injEq] at h
          have hle := Nat.le_of_lt (decodeLen_lt b1 p r2 hv)
          simp only [decodeLen_append b1 p r2 b hv, consumed_append_both b1 r2 b hle, Option.some.injEq,
            Prod.mk.injEq]
          exact ⟨h.1, by rw [h.2]⟩
      · cases hv : skipGroups b1.length [tag / 8] b1 with
        | none => rw [hv] at h; cases h
        | some r2 =>
          rw [hv] at h
          simp only [Option.some.injEq, Prod.mk.injEq] at h
          have hle := skipGroups_le _ _ _ _ hv
          have h1 := skipGroups_append _ _ _ _ b hv
          have h2 := skipGroups_more _ (b1 ++ b).length _ _ _ h1 (by simp)
          simp only [h2, consumed_append_both b1 r2 b hle, Option.some.injEq, Prod.mk.injEq]
          exact ⟨h.1, by rw [h.2]⟩
      · split at h
        · cases h
        · rename_i hl
          simp only [Option.some.injEq, Prod.mk.injEq] at h
          have h4 : 4 ≤ b1.length := by omega
          have : ¬ (b1 ++ b).length < 4 := by simp; omega
          simp only [this, if_false, List.take_append_of_le_length h4, List.drop_append_of_le_length h4,
            Option.some.injEq, Prod.mk.injEq]
          exact ⟨h.1, by rw [h.2]⟩
      · cases h

theorem parseFields_eq_F (b : Bytes) (n : Nat) (h : b.length ≤ n) : parseFieldsF n b = parseFields b :=
  parseFieldsF_fuel n b.length b h (Nat.le_refl _)

/-- one step of the loop, without fuel -/
theorem parseFields_cons (b : Bytes) (hne : b ≠ []) :
    parseFields b = match readField b with
      | none => none
      | some (f, rest) => match parseFields rest with
        | none => none
        | some fs => some (f :: fs) := by
  cases b with
  | nil => exact absurd rfl hne
  | cons x xs =>
    unfold parseFields
    simp only [List.length_cons]
    rw [parseFieldsF]
    cases hr : readField (x :: xs) with
    | none => rfl
    | some q =>
      obtain ⟨f, rest⟩ := q
      have hlt := readField_lt _ f rest hr
      simp only [List.length_cons] at hlt
      simp only
      rw [parseFields_eq_F rest xs.length (by omega)]
      rfl

theorem parseFields_nil : parseFields [] = some [] := rfl

/-- The loop over a concatenation: when the first part is a sequence of fields, the result is those
    fields followed by whatever the loop makes of the second part (`none` iff the second part is
    malformed). -/
theorem parseFields_append_aux (n : Nat) : ∀ (a : Bytes), a.length ≤ n → ∀ (fa : List Field) (b : Bytes),
    parseFields a = some fa → parseFields (a ++ b) = (parseFields b).map (fa ++ ·) := by
  induction n with
  | zero =>
    intro a hn fa b hp
    have ha : a = [] := List.eq_nil_of_length_eq_zero (by omega)
    subst ha
    simp only [parseFields_nil, Option.some.injEq] at hp
    subst hp
    simp only [List.nil_append]
    cases parseFields b <;> simp
  | succ n ih =>
    intro a hn fa b hp
    cases a with
    | nil =>
      simp only [parseFields_nil, Option.some.injEq] at hp
      subst hp
      simp only [List.nil_append]
      cases parseFields b <;> simp
    | cons x xs =>
      rw [parseFields_cons _ (by simp)] at hp
      cases hr : readField (x :: xs) with
      | none => rw [hr] at hp; cases hp
      | some q =>
        obtain ⟨f, rest⟩ := q
        rw [hr] at hp
        simp only at hp
        cases hrest : parseFields rest with
        | none => rw [hrest] at hp; cases hp
        | some fs =>
          rw [hrest] at hp
          simp only [Option.some.injEq] at hp
          subst hp
          have hlt := readField_lt _ f rest hr
          simp only [List.length_cons] at hlt hn
          rw [parseFields_cons _ (by simp), readField_append _ f rest b hr]
          simp only
          rw [ih rest (by omega) fs b hrest]
          cases parseFields b <;> simp

theorem parseFields_append (a : Bytes) (fa : List Field) (b : Bytes) (h : parseFields a = some fa) :
    parseFields (a ++ b) = (parseFields b).map (fa ++ ·) :=
  parseFields_append_aux a.length a (Nat.le_refl _) fa b h

/-- trailing bytes that are not a sequence of fields make the whole input malformed -/
theorem parseFields_append_none (a b : Bytes) (fa : List Field) (ha : parseFields a = some fa)
    (hb : parseFields b = none) : parseFields (a ++ b) = none := by
  rw [parseFields_append a fa b ha, hb]; rfl

/-- Unmarshal of a concatenation = Unmarshal of the second part INTO the message unmarshalled from the
    first (protobuf merge semantics). -/
theorem decodeInto_append {M : Type} (step : M → Field → Option M) (init m : M) (a b : Bytes) (fa : List Field)
    (hp : parseFields a = some fa) (ha : decodeInto step init a = some m) :
    decodeInto step init (a ++ b) = decodeInto step m b := by
  unfold decodeInto at ha ⊢
  rw [hp] at ha
  simp only at ha
  rw [parseFields_append a fa b hp]
  cases parseFields b with
  | none => rfl
  | some fb =>
    simp only [Option.map_some]
    rw [foldFields_append, ha]

theorem decodeInto_parses {M : Type} (step : M → Field → Option M) (init m : M) (a : Bytes)
    (h : decodeInto step init a = some m) : ∃ fa, parseFields a = some fa ∧ foldFields step init fa = some m := by
  unfold decodeInto at h
  cases hp : parseFields a with
  | none => rw [hp] at h; cases h
  | some fa => rw [hp] at h; exact ⟨fa, rfl, h⟩

end GceTcb.ProtoWire
