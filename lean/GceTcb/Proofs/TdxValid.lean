import GceTcb.Proofs.TdxNoPanic
/-
C05 — what `validateTDXMetadataSections` / `extractTDXMetadata` accept, stated declaratively
(`MetaValid`) and proved in BOTH directions: the section loop with its four accumulators
(found-TD-HOB, found-BFV, 32-bit firmware-volume size, 64-bit total memory) succeeds exactly on the
metadata that satisfies the list-level conditions.  Core-only.
-/
namespace GceTcb.TdxMeta
open GceTcb GceTcb.Codec GceTcb.Codecs GceTcb.GuidTable GceTcb.Intervals

/-- go: ovmf.extractTDXMetadata up to and including abi.TDXMetadataFromBytes — where the image says its
    TDVF metadata is, decoded, NOT yet validated.  `extract_iff` : extractTDXMetadata = this, then
    validateTDXMetadataSections. -/
def readTDXMetadata (fw : Bytes) : Outcome TdxMetadata :=
  match getFwGUIDToBlockMap fw with
  | .ok m =>
    match m.lookup tdxOffsetUuid with
    | none => .err "noblock"
    | some block =>
      match locateMetadata fw block with
      | .ok desc =>
        match tdxMetadataFromBytes desc with
        | .ok md => .ok md
        | .err _ => .err "short"
        | .panic p => .panic p
      | .err c => .err c
      | .panic p => .panic p
  | .err _ => .err "guidtable"
  | .panic p => .panic p

theorem extract_iff (fw : Bytes) (md : TdxMetadata) :
    extractTDXMetadata fw = .ok md ↔
      readTDXMetadata fw = .ok md ∧ validateTDXMetadataSections (fw.length % 2 ^ 32) md = .ok () := by
  unfold extractTDXMetadata readTDXMetadata
  cases getFwGUIDToBlockMap fw with
  | err c => simp
  | panic p => simp
  | ok m =>
    simp only []
    cases m.lookup tdxOffsetUuid with
    | none => simp
    | some block =>
      simp only []
      cases locateMetadata fw block with
      | err c => simp
      | panic p => simp
      | ok desc =>
        simp only [decodeAndValidate]
        cases tdxMetadataFromBytes desc with
        | err c => simp
        | panic p => simp
        | ok md' =>
          simp only []
          cases hv : validateTDXMetadataSections (fw.length % 2 ^ 32) md' with
          | err c =>
            simp only []
            constructor
            · intro h; cases h
            · rintro ⟨h1, h2⟩; injection h1 with h1; subst h1; rw [hv] at h2; cases h2
          | panic p =>
            simp only []
            constructor
            · intro h; cases h
            · rintro ⟨h1, h2⟩; injection h1 with h1; subst h1; rw [hv] at h2; cases h2
          | ok u =>
            simp only []
            constructor
            · intro h; injection h with h; subst h; exact ⟨rfl, by rw [hv]⟩
            · rintro ⟨h1, _⟩; exact h1

/-! ### the section loop of validateTDXMetadataSections, both directions -/

def isFv (s : TdxSection) : Bool := decide (s.sectionType = 0 ∨ s.sectionType = 1)
def isHob (s : TdxSection) : Bool := decide (s.sectionType = 2)
def isBfv (s : TdxSection) : Bool := decide (s.sectionType = 0)

/-- the raw-data sizes of the firmware-volume sections, added up (no wrap) -/
def fvSum (ss : List TdxSection) : Nat := ((ss.filter isFv).map (·.dataSize)).sum
/-- the declared memory of all sections, added up (no wrap) -/
def memSum (ss : List TdxSection) : Nat := (ss.map (·.memorySize)).sum
/-- number of TD_HOB sections -/
def hobCount (ss : List TdxSection) : Nat := ss.countP isHob

/-- the accumulators after one accepted section -/
def stepState (s : TdxSection) (st : VState) : VState :=
  { foundHob := st.foundHob || isHob s, foundBfv := st.foundBfv || isBfv s,
    fvSize := if isFv s then (st.fvSize + s.dataSize) % 2 ^ 32 else st.fvSize,
    total := st.total + s.memorySize }

theorem cfvCheck_iff (fwLen : Nat) (s : TdxSection) (st st' : VState) :
    cfvCheck fwLen s st = .ok st' ↔
      (s.memorySize = s.dataSize ∧ s.dataOffset + s.dataSize ≤ fwLen ∧ s.dataSize ≠ 0) ∧
      st' = { st with fvSize := (st.fvSize + s.dataSize) % 2 ^ 32 } := by
  unfold cfvCheck
  by_cases h1 : s.dataOffset > fwLen ∨ s.dataSize = 0 ∨ fwLen - s.dataOffset < s.dataSize
  · rw [if_pos h1]
    constructor
    · intro h; cases h
    · rintro ⟨⟨_, _, _⟩, _⟩; omega
  · rw [if_neg h1]
    by_cases h2 : s.memorySize ≠ s.dataSize
    · rw [if_pos h2]
      constructor
      · intro h; cases h
      · rintro ⟨⟨a, _, _⟩, _⟩; exact absurd a h2
    · rw [if_neg h2]
      constructor
      · intro h; injection h with h
        exact ⟨⟨by omega, by omega, by omega⟩, h.symm⟩
      · rintro ⟨_, h⟩; rw [h]

theorem validateStep_iff (fwLen : Nat) (s : TdxSection) (st st' : VState) :
    validateStep fwLen s st = .ok st' ↔
      SecOK fwLen s ∧ st.total + s.memorySize ≤ maxInitialMemory ∧
      (s.sectionType = 2 → st.foundHob = false) ∧ st' = stepState s st := by
  have hphys : (2 : Nat) ^ maxPhysBits = 2 ^ 52 := rfl
  have hmax : maxInitialMemory ≤ 2 ^ 52 := by decide
  unfold validateStep
  by_cases h1 : s.memorySize > maxInitialMemory ∨ st.total > maxInitialMemory - s.memorySize ∨
      s.memoryBase > 2 ^ maxPhysBits - s.memorySize
  · rw [if_pos h1]
    constructor
    · intro h; cases h
    · rintro ⟨⟨a, b, _, _⟩, c, _, _⟩; rw [hphys] at h1; omega
  · rw [if_neg h1]
    rw [hphys] at h1
    simp only []
    by_cases t0 : s.sectionType = 0
    · rw [if_pos t0, cfvCheck_iff]
      constructor
      · rintro ⟨f, h⟩
        refine ⟨⟨by omega, by omega, by omega, fun _ => f⟩, by omega, by omega, ?_⟩
        rw [h]; simp [stepState, isHob, isBfv, isFv, t0]
      · rintro ⟨⟨_, _, _, f⟩, _, _, h⟩
        refine ⟨f (Or.inl t0), ?_⟩
        rw [h]; simp [stepState, isHob, isBfv, isFv, t0]
    · rw [if_neg t0]
      by_cases t1 : s.sectionType = 1
      · rw [if_pos t1, cfvCheck_iff]
        constructor
        · rintro ⟨f, h⟩
          refine ⟨⟨by omega, by omega, by omega, fun _ => f⟩, by omega, by omega, ?_⟩
          rw [h]; simp [stepState, isHob, isBfv, isFv, t1]
        · rintro ⟨⟨_, _, _, f⟩, _, _, h⟩
          refine ⟨f (Or.inr t1), ?_⟩
          rw [h]; simp [stepState, isHob, isBfv, isFv, t1]
      · rw [if_neg t1]
        by_cases t2 : s.sectionType = 2
        · rw [if_pos t2]
          by_cases hh : st.foundHob = true
          · rw [if_pos hh]
            constructor
            · intro h; cases h
            · rintro ⟨_, _, c, _⟩; rw [c t2] at hh; cases hh
          · rw [if_neg hh]
            have hf : st.foundHob = false := by cases h : st.foundHob <;> simp_all
            constructor
            · intro h; injection h with h
              refine ⟨⟨by omega, by omega, by omega, fun hc => by omega⟩, by omega, fun _ => hf, ?_⟩
              rw [← h]; simp [stepState, isHob, isBfv, isFv, t2, hf]
            · rintro ⟨_, _, _, h⟩
              rw [h]; simp [stepState, isHob, isBfv, isFv, t2, hf]
        · rw [if_neg t2]
          by_cases t3 : s.sectionType = 3
          · rw [if_pos t3]
            constructor
            · intro h; injection h with h
              refine ⟨⟨by omega, by omega, by omega, fun hc => by omega⟩, by omega, fun hc => by omega, ?_⟩
              rw [← h]; simp [stepState, isHob, isBfv, isFv, t3]
            · rintro ⟨_, _, _, h⟩
              rw [h]; simp [stepState, isHob, isBfv, isFv, t3]
          · rw [if_neg t3]
            constructor
            · intro h; cases h
            · rintro ⟨⟨_, _, c, _⟩, _⟩; omega

/-- the accumulators after a run of accepted sections -/
def runState (ss : List TdxSection) (st : VState) : VState := ss.foldl (fun a s => stepState s a) st

theorem hobCount_cons (s : TdxSection) (ss : List TdxSection) :
    hobCount (s :: ss) = hobCount ss + (if isHob s then 1 else 0) := by
  unfold hobCount; rw [List.countP_cons]

theorem validateLoop_iff (fwLen : Nat) : ∀ (ss : List TdxSection) (st st' : VState),
    st.total ≤ maxInitialMemory →
    (validateLoop fwLen ss st = .ok st' ↔
      (∀ s ∈ ss, SecOK fwLen s) ∧ st.total + memSum ss ≤ maxInitialMemory ∧
      (st.foundHob = true → hobCount ss = 0) ∧ hobCount ss ≤ 1 ∧ st' = runState ss st) := by
  intro ss
  induction ss with
  | nil =>
    intro st st' hst
    simp only [validateLoop, runState, List.foldl_nil, memSum, hobCount, List.map_nil, List.sum_nil,
      List.countP_nil, List.not_mem_nil, false_imp_iff, implies_true, true_and, Nat.add_zero, Nat.zero_le]
    constructor
    · intro h; injection h with h
      exact ⟨hst, h.symm⟩
    · rintro ⟨_, h⟩; rw [h]
  | cons s ss ih =>
    intro st st' hst
    unfold validateLoop
    have hms : memSum (s :: ss) = s.memorySize + memSum ss := by simp [memSum]
    have hrs : runState (s :: ss) st = runState ss (stepState s st) := rfl
    cases hs : validateStep fwLen s st with
    | err c =>
      simp only []
      constructor
      · intro h; cases h
      · rintro ⟨a, b, c1, d, _⟩
        have : validateStep fwLen s st = .ok (stepState s st) := by
          rw [validateStep_iff]
          refine ⟨a s (List.mem_cons_self ..), by omega, ?_, rfl⟩
          intro t2
          cases hf : st.foundHob with
          | false => rfl
          | true =>
            have := c1 hf
            rw [hobCount_cons] at this
            have : isHob s = true := by simp [isHob, t2]
            simp_all
        rw [hs] at this; cases this
    | panic p =>
      exact absurd hs (by have := validateStep_no_panic fwLen s st; intro h; rw [h] at this; simp [Outcome.isPanic] at this)
    | ok st1 =>
      simp only []
      obtain ⟨a1, a2, a3, a4⟩ := (validateStep_iff fwLen s st st1).mp hs
      rw [ih st1 st' (by rw [a4]; exact a2), hms, hrs, hobCount_cons, a4]
      have htot : (stepState s st).total = st.total + s.memorySize := rfl
      have hfh : (stepState s st).foundHob = (st.foundHob || isHob s) := rfl
      rw [htot, hfh]
      have hiff : isHob s = true ↔ s.sectionType = 2 := by simp [isHob]
      constructor
      · rintro ⟨b1, b2, b3, b4, b5⟩
        refine ⟨?_, by omega, ?_, ?_, b5⟩
        · intro x hx
          rcases List.mem_cons.mp hx with rfl | hx
          · exact a1
          · exact b1 x hx
        · intro hf
          have h2 : ¬ s.sectionType = 2 := fun t2 => by rw [a3 t2] at hf; cases hf
          have : isHob s = false := by cases h : isHob s <;> simp_all
          have := b3 (by rw [hf]; rfl)
          simp_all
        · cases h : isHob s with
          | false => simp; exact b4
          | true =>
            have := b3 (by rw [h]; simp)
            simp; omega
      · rintro ⟨b1, b2, b3, b4, b5⟩
        refine ⟨fun x hx => b1 x (List.mem_cons_of_mem _ hx), by omega, ?_, ?_, b5⟩
        · intro hf
          cases h : isHob s with
          | false =>
            rw [h] at hf
            have := b3 (by simpa using hf)
            simp [h] at this; exact this
          | true => rw [h] at b4; simp at b4; omega
        · cases h : isHob s <;> simp [h] at b4 <;> omega

theorem runState_cons (s : TdxSection) (ss : List TdxSection) (st : VState) :
    runState (s :: ss) st = runState ss (stepState s st) := rfl

theorem runState_foundHob : ∀ (ss : List TdxSection) (st : VState),
    (runState ss st).foundHob = (st.foundHob || decide (0 < hobCount ss)) := by
  intro ss
  induction ss with
  | nil => intro st; simp [runState, hobCount]
  | cons s ss ih =>
    intro st
    rw [runState_cons, ih, hobCount_cons]
    have : (stepState s st).foundHob = (st.foundHob || isHob s) := rfl
    rw [this]
    cases st.foundHob <;> cases isHob s <;> simp

theorem runState_foundBfv : ∀ (ss : List TdxSection) (st : VState),
    (runState ss st).foundBfv = (st.foundBfv || ss.any isBfv) := by
  intro ss
  induction ss with
  | nil => intro st; simp [runState]
  | cons s ss ih =>
    intro st
    rw [runState_cons, ih, List.any_cons]
    have : (stepState s st).foundBfv = (st.foundBfv || isBfv s) := rfl
    rw [this, Bool.or_assoc]

theorem fvSum_cons (s : TdxSection) (ss : List TdxSection) :
    fvSum (s :: ss) = (if isFv s then s.dataSize else 0) + fvSum ss := by
  unfold fvSum
  rw [List.filter_cons]
  cases isFv s <;> simp

theorem runState_fvSize : ∀ (ss : List TdxSection) (st : VState), st.fvSize < 2 ^ 32 →
    (runState ss st).fvSize = (st.fvSize + fvSum ss) % 2 ^ 32 := by
  intro ss
  induction ss with
  | nil => intro st h; simp only [runState, List.foldl_nil, fvSum, List.filter_nil, List.map_nil, List.sum_nil]; omega
  | cons s ss ih =>
    intro st h
    rw [runState_cons, fvSum_cons]
    have hf : (stepState s st).fvSize = if isFv s then (st.fvSize + s.dataSize) % 2 ^ 32 else st.fvSize := rfl
    have hlt : (stepState s st).fvSize < 2 ^ 32 := by rw [hf]; split <;> omega
    rw [ih _ hlt, hf]
    cases isFv s
    · simp
    · simp only [if_true]; omega

/-- **Declarative validity of TDVF metadata** for an image whose length is `fwLen` as a uint32 — what
    validateTDXMetadataSections (with the repair) demands, as conditions on the descriptor and the
    section LIST: magic, version, the length field, every section in range (`SecOK`: memory size at most
    4 GiB, range inside the 52-bit space, a known type; firmware volumes: non-empty raw data inside the
    image, memory size = raw size), at most 4 GiB declared in total, exactly one TD_HOB section, a boot
    firmware volume, and the firmware volumes' raw sizes adding up (as uint32) to the image length. -/
structure MetaValid (fwLen : Nat) (md : TdxMetadata) : Prop where
  signature : md.header.signature = tdvfMagic
  version : md.header.version = 1
  length : md.header.length = (16 + 32 * md.header.sectionCount) % 2 ^ 32
  secs : ∀ s ∈ md.sections, SecOK fwLen s
  total : memSum md.sections ≤ maxInitialMemory
  oneHob : hobCount md.sections = 1
  hasBfv : ∃ s ∈ md.sections, s.sectionType = 0
  fvSize : fvSum md.sections % 2 ^ 32 = fwLen

theorem any_isBfv (ss : List TdxSection) : ss.any isBfv = true ↔ ∃ s ∈ ss, s.sectionType = 0 := by
  simp [List.any_eq_true, isBfv]

/-- validateTDXMetadataSections accepts exactly the declaratively valid metadata. -/
theorem validate_iff (fwLen : Nat) (md : TdxMetadata) :
    validateTDXMetadataSections fwLen md = .ok () ↔ MetaValid fwLen md := by
  unfold validateTDXMetadataSections
  by_cases c1 : md.header.signature ≠ tdvfMagic
  · rw [if_pos c1]; exact ⟨(fun h => by cases h), fun h => absurd h.signature c1⟩
  rw [if_neg c1]
  by_cases c2 : md.header.version ≠ 1
  · rw [if_pos c2]; exact ⟨(fun h => by cases h), fun h => absurd h.version c2⟩
  rw [if_neg c2]
  by_cases c3 : md.header.length ≠ (16 + 32 * md.header.sectionCount) % 2 ^ 32
  · rw [if_pos c3]; exact ⟨(fun h => by cases h), fun h => absurd h.length c3⟩
  rw [if_neg c3]
  have h0 : ({} : VState).total ≤ maxInitialMemory := Nat.zero_le _
  have hloop := fun st' => validateLoop_iff fwLen md.sections {} st' h0
  have hz : ({} : VState).total + memSum md.sections = memSum md.sections := Nat.zero_add _
  have hfH : (runState md.sections {}).foundHob = decide (0 < hobCount md.sections) := by
    rw [runState_foundHob]; rfl
  have hfB : (runState md.sections {}).foundBfv = md.sections.any isBfv := by
    rw [runState_foundBfv]; rfl
  have hfS : (runState md.sections {}).fvSize = fvSum md.sections % 2 ^ 32 := by
    rw [runState_fvSize _ _ (by decide)]
    have : ({} : VState).fvSize = 0 := rfl
    rw [this, Nat.zero_add]
  -- a valid list passes the loop
  have hpass : MetaValid fwLen md → validateLoop fwLen md.sections {} = .ok (runState md.sections {}) := by
    intro hv
    rw [hloop]
    exact ⟨hv.secs, by rw [hz]; exact hv.total, (fun h => by cases h), by rw [hv.oneHob]; exact Nat.le_refl _, rfl⟩
  cases hl : validateLoop fwLen md.sections {} with
  | err c => exact ⟨(fun h => by cases h), fun hv => by rw [hpass hv] at hl; cases hl⟩
  | panic p => exact ⟨(fun h => by cases h), fun hv => by rw [hpass hv] at hl; cases hl⟩
  | ok st =>
    obtain ⟨l1, l2, _, l4, l5⟩ := (hloop st).mp hl
    rw [hz] at l2
    subst l5
    simp only []
    by_cases d1 : ¬ (runState md.sections {}).foundHob = true
    · rw [if_pos d1]
      refine ⟨(fun h => by cases h), fun hv => ?_⟩
      rw [hfH, hv.oneHob] at d1; simp at d1
    rw [if_neg d1]
    by_cases d2 : ¬ (runState md.sections {}).foundBfv = true
    · rw [if_pos d2]
      refine ⟨(fun h => by cases h), fun hv => ?_⟩
      rw [hfB] at d2; exact absurd ((any_isBfv _).mpr hv.hasBfv) d2
    rw [if_neg d2]
    by_cases d3 : (runState md.sections {}).fvSize ≠ fwLen
    · rw [if_pos d3]
      refine ⟨(fun h => by cases h), fun hv => ?_⟩
      rw [hfS] at d3; exact absurd hv.fvSize d3
    rw [if_neg d3]
    refine ⟨fun _ => ?_, fun _ => rfl⟩
    rw [hfH] at d1; rw [hfB] at d2; rw [hfS] at d3
    have hpos : 0 < hobCount md.sections := by simp at d1; omega
    exact ⟨by simpa using c1, by simpa using c2, by simpa using c3, l1, l2, by omega,
      (any_isBfv _).mp (by simpa using d2), by simpa using d3⟩

/-- extractTDXMetadata returns `md` exactly when the image carries `md` at the advertised place and
    `md` is declaratively valid. -/
theorem extract_iff_valid (fw : Bytes) (md : TdxMetadata) :
    extractTDXMetadata fw = .ok md ↔ readTDXMetadata fw = .ok md ∧ MetaValid (fw.length % 2 ^ 32) md := by
  rw [extract_iff, validate_iff]

end GceTcb.TdxMeta
