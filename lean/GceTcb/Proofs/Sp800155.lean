import GceTcb.Model.Sp800155
/-
Helper lemmas for C16: every reader of the SP800-155 Event3 decoder inverts the corresponding
writer, so a marshalled event parses back to itself. Core-only.
-/
namespace GceTcb.Sp800155
open GceTcb GceTcb.Codec GceTcb.Extract

theorem list16 (g : Bytes) (h : g.length = 16) :
    ∃ a0 a1 a2 a3 a4 a5 a6 a7 a8 a9 a10 a11 a12 a13 a14 a15, g = [a0, a1, a2, a3, a4, a5, a6, a7, a8, a9, a10, a11, a12, a13, a14, a15] := by
  rcases g with _ | ⟨a0, _ | ⟨a1, _ | ⟨a2, _ | ⟨a3, _ | ⟨a4, _ | ⟨a5, _ | ⟨a6, _ | ⟨a7, _ | ⟨a8, _ | ⟨a9, _ | ⟨a10, _ | ⟨a11, _ | ⟨a12, _ | ⟨a13, _ | ⟨a14, _ | ⟨a15, _ | ⟨x, xs⟩⟩⟩⟩⟩⟩⟩⟩⟩⟩⟩⟩⟩⟩⟩⟩⟩
  all_goals (first | (simp at h; done) | skip)
  · exact ⟨a0, a1, a2, a3, a4, a5, a6, a7, a8, a9, a10, a11, a12, a13, a14, a15, rfl⟩

theorem efiSwap_length (g : Bytes) (h : g.length = 16) : (efiSwap g).length = 16 := by
  obtain ⟨a0, a1, a2, a3, a4, a5, a6, a7, a8, a9, a10, a11, a12, a13, a14, a15, rfl⟩ := list16 g h
  rfl

theorem efiSwap_involutive (g : Bytes) (h : g.length = 16) : efiSwap (efiSwap g) = g := by
  obtain ⟨a0, a1, a2, a3, a4, a5, a6, a7, a8, a9, a10, a11, a12, a13, a14, a15, rfl⟩ := list16 g h
  rfl

theorem rimUUID_length (r : Bytes) (h : r.length = 16) : (rimUUID r).length = 16 := by
  obtain ⟨a0, a1, a2, a3, a4, a5, a6, a7, a8, a9, a10, a11, a12, a13, a14, a15, rfl⟩ := list16 r h
  rfl

theorem take_append_len {α : Type} (a b : List α) (n : Nat) (h : a.length = n) : (a ++ b).take n = a := by
  rw [← h]; exact List.take_left' rfl

theorem drop_append_len {α : Type} (a b : List α) (n : Nat) (h : a.length = n) : (a ++ b).drop n = b := by
  rw [← h]; exact List.drop_left' rfl

theorem readU32_leBytes (v : Nat) (rest : Bytes) (h : v < 2 ^ 32) :
    readU32 (leBytes 4 v ++ rest) = some (v, rest) := by
  unfold readU32
  have hl : ¬ (leBytes 4 v ++ rest).length < 4 := by simp
  rw [if_neg hl, take_append_len _ _ 4 (by simp), drop_append_len _ _ 4 (by simp),
    leVal_leBytes_of_lt 4 v (by simpa using h)]

theorem readGuid_swap (g rest : Bytes) (h : g.length = 16) :
    readGuid (efiSwap g ++ rest) = some (g, rest) := by
  unfold readGuid
  have hl := efiSwap_length g h
  have : ¬ (efiSwap g ++ rest).length < 16 := by simp [hl]
  rw [if_neg this, take_append_len _ _ 16 hl, drop_append_len _ _ 16 hl, efiSwap_involutive g h]

theorem readN_exact (d rest : Bytes) : readN d.length (d ++ rest) = some (d, rest) := by
  unfold readN
  cases d with
  | nil => simp
  | cons x xs =>
    rw [if_neg (by simp), if_neg (by simp)]
    rw [take_append_len _ _ _ rfl, drop_append_len _ _ _ rfl]

theorem readCStr_cstr (d s rest : Bytes) (h : cstrBytes d = some s) : readCStr (s ++ rest) = some (d, rest) := by
  unfold cstrBytes at h
  split at h
  · simp at h
  · next hl =>
    simp only [Option.some.injEq] at h
    subst h
    have hsz : (UInt8.ofNat (d.length + 1)).toNat = (d ++ [0]).length := by
      simp only [List.length_append, List.length_cons, List.length_nil, UInt8.toNat_ofNat']
      omega
    simp only [readCStr, List.cons_append, hsz, readN_exact]
    simp

theorem readArr_arr (d rest : Bytes) (h : d.length < 2 ^ 32) : readArr (arrBytes d ++ rest) = some (d, rest) := by
  unfold readArr arrBytes
  rw [List.append_assoc, readU32_leBytes _ _ h]
  exact readN_exact d rest

theorem arrBytes_length (d : Bytes) : (arrBytes d).length = 4 + d.length := by
  simp [arrBytes]

/-- An event whose numeric fields fit 32 bits and whose GUID has 16 bytes parses back from its
    marshalled form (signature stripped by `parseEventData`) to exactly itself. -/
theorem parse_marshal (e : Event3) (bs : Bytes) (hm : marshalEvent3 e = some bs)
    (hg : e.guid.length = 16) (h1 : e.platformManufacturerID < 2 ^ 32) (h2 : e.firmwareManufacturerID < 2 ^ 32)
    (h3 : e.rimLocatorType < 2 ^ 32) (h4 : e.platformCertLocatorType < 2 ^ 32) :
    parseEventData bs = some e := by
  unfold marshalEvent3 at hm
  split at hm
  · next s1 s2 s3 s4 s5 c1 c2 c3 c4 c5 =>
    split at hm
    · simp at hm
    · next hlen =>
      simp only [Option.some.injEq] at hm
      have hsig : Gen.Names.event3Signature.length = 16 := rfl
      -- only "the HOB data limit fits 32 bits" is used, whatever its regenerated value
      have hmax : Gen.Names.maxGUIDHOBDataSize < 2 ^ 32 := by decide
      have hloc : e.rimLocator.length < 2 ^ 32 := by
        simp only [List.length_append, arrBytes_length] at hlen
        omega
      have hcl : e.platformCertLocator.length < 2 ^ 32 := by
        simp only [List.length_append, arrBytes_length] at hlen
        omega
      subst hm
      unfold parseEventData
      rw [take_append_len _ _ 16 hsig, if_pos rfl, drop_append_len _ _ 16 hsig]
      unfold unmarshalEvent3
      simp only [readU32_leBytes _ _ h1, readGuid_swap _ _ hg, readCStr_cstr _ _ _ c1, readCStr_cstr _ _ _ c2,
        readCStr_cstr _ _ _ c3, readCStr_cstr _ _ _ c4, readU32_leBytes _ _ h2, readCStr_cstr _ _ _ c5,
        readU32_leBytes _ _ h3, readArr_arr _ _ hloc, readU32_leBytes _ _ h4]
      have : arrBytes e.platformCertLocator = arrBytes e.platformCertLocator ++ [] := by simp
      rw [this, readArr_arr _ _ hcl]
      simp
  · simp at hm

end GceTcb.Sp800155
