import GceTcb.Model.Argv
/-
Lemmas about Model/Argv.lean: canonical rendering, the step laws of `parseArgs`, `stripFlags` / `argsMinusFirstX` on
rendered command lines, and the descent of `innerFind` along a command path.
-/
namespace GceTcb.Argv

/-! ## canonical rendering -/

/-- `--name=value` -/
def renderOcc (o : Occ) : Tok := '-' :: '-' :: (o.1 ++ '=' :: o.2)

/-- command words, every occurrence as `--name=value` in order, `--`, the positionals -/
def render (path : List Tok) (occs : List Occ) (pos : List Tok) : List Tok :=
  path ++ (occs.map renderOcc ++ ['-', '-'] :: pos)

/-- The side condition on an occurrence, decidable: the name is that of a flag of the set, is not empty, does not
    begin with `-` or `=` and has no `=` inside.  NOTHING is asked of the value text. -/
def renderable (fs : List FlagSpec) (o : Occ) : Bool :=
  (match lookupLong fs o.1 with
   | some f => f.name == o.1
   | none => false) &&
  (match o.1 with
   | [] => false
   | c :: _ => c != '-' && c != '=') &&
  !o.1.contains '='

theorem splitEq_append (n v : Tok) (h : n.contains '=' = false) : splitEq (n ++ '=' :: v) = (n, some v) := by
  induction n with
  | nil => simp [splitEq]
  | cons c cs ih =>
    simp only [List.contains_cons, Bool.or_eq_false_iff] at h
    have hc : c ≠ '=' := by
      intro e; subst e; simp at h
    have := ih h.2
    simp [splitEq, hc, this]

theorem splitEq_noEq (n : Tok) (h : n.contains '=' = false) : splitEq n = (n, none) := by
  induction n with
  | nil => simp [splitEq]
  | cons c cs ih =>
    simp only [List.contains_cons, Bool.or_eq_false_iff] at h
    have hc : c ≠ '=' := by
      intro e; subst e; simp at h
    have := ih h.2
    simp [splitEq, hc, this]

theorem lookupLong_name {fs : List FlagSpec} {n : Tok} {f : FlagSpec} (h : lookupLong fs n = some f) : f.name = n := by
  unfold lookupLong at h
  have := List.find?_some h
  simpa using this

/-- One rendered occurrence is read back as exactly that occurrence, whatever the next word is, and the next word is
    not consumed. -/
theorem classify_renderOcc (fs : List FlagSpec) (o : Occ) (next : Option Tok) (h : renderable fs o = true) :
    classify fs (renderOcc o) next = .flags [o] false := by
  obtain ⟨n, v⟩ := o
  simp only [renderable, Bool.and_eq_true, Bool.not_eq_true'] at h
  obtain ⟨⟨h1, h2⟩, h3⟩ := h
  cases n with
  | nil => simp at h2
  | cons c cs =>
    simp only [bne_iff_ne, ne_eq, Bool.and_eq_true] at h2
    cases hl : lookupLong fs (c :: cs) with
    | none => simp [hl] at h1
    | some f =>
      have hn := lookupLong_name hl
      have hs := splitEq_append (c :: cs) v h3
      simp only [renderOcc, classify, List.cons_append]
      have : parseLong fs (c :: (cs ++ '=' :: v)) next = .flags [(c :: cs, v)] false := by
        have hs' : splitEq (c :: (cs ++ '=' :: v)) = (c :: cs, some v) := by simpa using hs
        simp [parseLong, h2.1, h2.2, hs', hl, hn]
      exact this

theorem parseArgs_renderOcc (fs : List FlagSpec) (inter : Bool) (o : Occ) (rest : List Tok)
    (h : renderable fs o = true) :
    parseArgs fs inter (renderOcc o :: rest) = (parseArgs fs inter rest).addOccs [o] := by
  rw [parseArgs, classify_renderOcc fs o _ h]

theorem classify_dashdash (fs : List FlagSpec) (next : Option Tok) : classify fs ['-', '-'] next = .dashdash := by
  simp [classify]

/-- `--` ends the flags: everything after it is positional, whatever it looks like. -/
theorem parseArgs_dashdash (fs : List FlagSpec) (inter : Bool) (rest : List Tok) :
    parseArgs fs inter (['-', '-'] :: rest) = { pos := rest } := by
  rw [parseArgs, classify_dashdash]

theorem parseArgs_render (fs : List FlagSpec) (inter : Bool) (occs : List Occ) (pos : List Tok)
    (h : ∀ o ∈ occs, renderable fs o = true) :
    parseArgs fs inter (occs.map renderOcc ++ ['-', '-'] :: pos) = { occs := occs, pos := pos, err := none } := by
  induction occs with
  | nil => simp [parseArgs_dashdash]
  | cons o os ih =>
    have ho := h o (by simp)
    have hos : ∀ o' ∈ os, renderable fs o' = true := fun o' ho' => h o' (by simp [ho'])
    simp only [List.map_cons, List.cons_append]
    rw [parseArgs_renderOcc fs inter o _ ho, ih hos]
    simp [Parse.addOccs]

/-! ## a word that is no flag -/

/-- pflag's own test: the empty word, a word that does not begin with `-`, and the lone `-`. -/
def plainWord : Tok → Bool
  | [] => true
  | ['-'] => true
  | '-' :: _ => false
  | _ => true

theorem classify_plain (fs : List FlagSpec) (s : Tok) (next : Option Tok) (h : plainWord s = true) :
    classify fs s next = .pos := by
  unfold classify
  split <;> simp_all [plainWord]

theorem parseArgs_plain (fs : List FlagSpec) (s : Tok) (rest : List Tok) (h : plainWord s = true) :
    parseArgs fs true (s :: rest) = (parseArgs fs true rest).addPos s := by
  rw [parseArgs, classify_plain fs s _ h]; simp

/-- A long value flag written `--name value` takes exactly the next word, whatever that word looks like. -/
theorem classify_long_value (fs : List FlagSpec) (n v : Tok) (f : FlagSpec)
    (hl : lookupLong fs n = some f) (hv : f.noOpt = []) (hne : n ≠ [])
    (hh : ∀ c cs, n = c :: cs → c ≠ '-' ∧ c ≠ '=') (heq : n.contains '=' = false) :
    classify fs ('-' :: '-' :: n) (some v) = .flags [(n, v)] true := by
  have hn := lookupLong_name hl
  cases n with
  | nil => exact absurd rfl hne
  | cons c cs =>
    have hc := hh c cs rfl
    have hs := splitEq_noEq (c :: cs) heq
    simp [classify, parseLong, hc.1, hc.2, hs, hl, hv, hn]

/-! ## cobra's scans on a rendered tail -/

theorem hasEq_renderOcc (o : Occ) : hasEq (renderOcc o) = true := by
  simp [hasEq, renderOcc]

theorem takesNext_renderOcc (fs : List FlagSpec) (o : Occ) : takesNext fs (renderOcc o) = false := by
  simp [takesNext, hasEq_renderOcc]

theorem renderOcc_ne_dashdash (o : Occ) : renderOcc o ≠ ['-', '-'] := by
  simp [renderOcc]

theorem hasDash_renderOcc (o : Occ) : hasDash (renderOcc o) = true := by simp [hasDash, renderOcc]

theorem stripFlags_tail (fs : List FlagSpec) (occs : List Occ) (pos : List Tok) :
    stripFlags fs (occs.map renderOcc ++ ['-', '-'] :: pos) = [] := by
  induction occs with
  | nil => rw [List.map_nil, List.nil_append, stripFlags.eq_def]; simp
  | cons o os ih =>
    simp only [List.map_cons, List.cons_append]
    rw [stripFlags.eq_def]
    simp [renderOcc_ne_dashdash, takesNext_renderOcc, hasDash_renderOcc, ih]

/-- A command word: not empty, no leading `-`. -/
def cmdWord (w : Tok) : Bool := w != [] && !hasDash w

theorem cmdWord_facts {w : Tok} (h : cmdWord w = true) : w ≠ [] ∧ hasDash w = false ∧ w ≠ ['-', '-'] := by
  simp only [cmdWord, Bool.and_eq_true, bne_iff_ne, ne_eq, Bool.not_eq_true'] at h
  refine ⟨h.1, h.2, ?_⟩
  intro e; subst e; simp [hasDash] at h

theorem takesNext_cmdWord (fs : List FlagSpec) {w : Tok} (h : cmdWord w = true) : takesNext fs w = false := by
  have ⟨_, hd, _⟩ := cmdWord_facts h
  have hdd : hasDashDash w = false := by
    cases w with
    | nil => rfl
    | cons c cs =>
      by_cases hc : c = '-'
      · subst hc; simp [hasDash] at hd
      · unfold hasDashDash
        split
        · rename_i heq
          simp only [List.cons.injEq] at heq
          exact absurd heq.1 hc
        · rfl
  simp [takesNext, hd, hdd]

theorem stripFlags_cmdWord (fs : List FlagSpec) {w : Tok} (rest : List Tok) (h : cmdWord w = true) :
    stripFlags fs (w :: rest) = w :: stripFlags fs rest := by
  have ⟨h1, h2, h3⟩ := cmdWord_facts h
  rw [stripFlags.eq_def]
  simp [h1, h2, h3, takesNext_cmdWord fs h]

theorem argsMinusFirstX_cmdWord (fs : List FlagSpec) {w : Tok} (rest : List Tok) (h : cmdWord w = true) :
    argsMinusFirstX fs w (w :: rest) = rest := by
  have ⟨_, h2, h3⟩ := cmdWord_facts h
  rw [argsMinusFirstX.eq_def]
  simp [h2, h3, takesNext_cmdWord fs h]

/-! ## the descent of Find -/

/-- The words `ws` name a chain of sub-commands below `p` (decidable; checked on the concrete trees). -/
def chain (T : Tree) : List Tok → List Tok → Bool
  | _, [] => true
  | p, w :: ws =>
    cmdWord w &&
    (match findNext T p w with
     | some c => c.path == p ++ [w] && chain T (p ++ [w]) ws
     | none => false)

theorem innerFind_chain (T : Tree) (ws : List Tok) :
    ∀ (p R : List Tok) (fuel : Nat) (vis : List (List Tok)),
      chain T p ws = true → (∀ fs, stripFlags fs R = []) → ws.length < fuel →
      (innerFind T fuel p (ws ++ R) vis).1 = p ++ ws ∧ (innerFind T fuel p (ws ++ R) vis).2.1 = R := by
  induction ws with
  | nil =>
    intro p R fuel vis _ hR hf
    cases fuel with
    | zero => simp at hf
    | succ k => simp [innerFind, hR]
  | cons w ws ih =>
    intro p R fuel vis hc hR hf
    cases fuel with
    | zero => simp at hf
    | succ k =>
      simp only [chain, Bool.and_eq_true] at hc
      obtain ⟨hw, hc2⟩ := hc
      cases hfn : findNext T p w with
      | none => simp [hfn] at hc2
      | some c =>
        simp only [hfn, Bool.and_eq_true, beq_iff_eq] at hc2
        obtain ⟨hp, hch⟩ := hc2
        have hlen : ws.length < k := by simp at hf; omega
        have := ih (p ++ [w]) R k (p :: vis) hch hR hlen
        simp only [List.cons_append, innerFind, stripFlags_cmdWord _ _ hw, hfn, argsMinusFirstX_cmdWord _ _ hw, hp]
        simpa using this

/-! ## the last occurrence -/

theorem lastOcc_append (n : Tok) (a b : List Occ) :
    lastOcc n (a ++ b) = match lastOcc n b with | some x => some x | none => lastOcc n a := by
  induction a with
  | nil => simp [lastOcc]; cases lastOcc n b <;> rfl
  | cons o os ih =>
    obtain ⟨m, v⟩ := o
    simp only [List.cons_append, lastOcc, ih]
    cases lastOcc n b <;> rfl

end GceTcb.Argv
